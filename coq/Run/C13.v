(* Correspondence runner for C13: replays an operation history observed on the
   Go TemporalStore against the model and reports the first operation whose
   observed result differs (0 = none). Result lists are compared as multisets,
   because Go iterates its per-predicate map in random order. *)
From Coq Require Import List ZArith Bool.
From MV Require Export Temporal.ITree Temporal.TStore.
Import ListNotations.
Open Scope Z_scope.

Fixpoint remove1 {A} (eqb : A -> A -> bool) (x : A) (l : list A) : option (list A) :=
  match l with
  | [] => None
  | y :: l' => if eqb x y then Some l' else
               match remove1 eqb x l' with Some r => Some (y :: r) | None => None end
  end.
Fixpoint perm_eqb {A} (eqb : A -> A -> bool) (a b : list A) : bool :=
  match a with
  | [] => match b with [] => true | _ => false end
  | x :: a' => match remove1 eqb x b with Some b' => perm_eqb eqb a' b' | None => false end
  end.

Definition fact_eqb (x y : atom * iv) := atom_eqb (fst x) (fst y) && iv_eqb (snd x) (snd y).

Inductive op :=
| OAdd (a : atom) (i : iv) (res : Z)
| OAt (q : pattern) (t : Z) (res : list (atom * iv))
| ODuring (q : pattern) (i : iv) (res : list (atom * iv))
| OAll (q : pattern) (res : list (atom * iv))
| OContainsAt (a : atom) (t : Z) (res : bool)
| OCount (res : Z)
| OPreds (res : list Z)
| OCoalesce (p : Z).

Definition step (s : tstore) (o : op) : tstore * bool :=
  match o with
  | OAdd a i res => let '(s', r) := ts_add s a i in (s', r =? res)
  | OAt q t res => (s, perm_eqb fact_eqb (ts_facts_at s q t) res)
  | ODuring q i res => (s, perm_eqb fact_eqb (ts_facts_during s q i) res)
  | OAll q res => (s, perm_eqb fact_eqb (ts_all_facts s q) res)
  | OContainsAt a t res => (s, Bool.eqb (ts_contains_at s a t) res)
  | OCount res => (s, count s =? res)
  | OPreds res => (s, perm_eqb Z.eqb (ts_preds s) res)
  | OCoalesce p => (ts_coalesce s p, true)
  end.

Fixpoint replay (s : tstore) (k : Z) (ops : list op) : Z :=
  match ops with
  | [] => 0
  | o :: ops' => let '(s', ok) := step s o in if ok then replay s' (k + 1) ops' else k
  end.

Definition judge (c : Z * list op) : Z := replay (ts_empty (fst c)) 1 (snd c).

(* model output for a replay file *)
Definition model_out (s : tstore) (o : op) :=
  match o with
  | OAdd a i _ => (snd (ts_add s a i), @nil (atom * iv))
  | OAt q t _ => (0, ts_facts_at s q t)
  | ODuring q i _ => (0, ts_facts_during s q i)
  | OAll q _ => (0, ts_all_facts s q)
  | OContainsAt a t _ => ((if ts_contains_at s a t then 1 else 0), [])
  | OCount _ => (count s, [])
  | OPreds _ => (0, map (fun p => ((p, []), (NegInf, PosInf))) (ts_preds s))
  | OCoalesce _ => (0, [])
  end.
Fixpoint model_trace (s : tstore) (ops : list op) :=
  match ops with
  | [] => []
  | o :: ops' => model_out s o :: model_trace (fst (step s o)) ops'
  end.
Definition trace (c : Z * list op) := model_trace (ts_empty (fst c)) (snd c).
