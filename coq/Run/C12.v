(* Correspondence runner for C12.  A case is a group: a pool of types, a
   universe of constants, and what the Go code answered on them
   (TypeHandle.HasType for every type x constant, SetConforms / TypeConforms for
   a band of rows of the all-pairs matrix, UpperBound / LowerBound for index
   lists).  `judge` recomputes everything with the model (mode Fixed) and
   returns 0 when all answers agree; otherwise kind * 1000000 + index:
     1 SetConforms differs (index of the cell in the band)   2 TypeConforms differs
     3 HasType differs (i*k+c)
     4 a pair on which Go's own answers break soundness lies inside `nice`
       (index into the list `unsound`)
     5 UpperBound differs (item)              6 LowerBound differs (item)
     7 HasType of a returned bound differs (item)
     8 a bound item on which Go's own answers break the bound property lies
       inside the fragment where Fixed and Strict compute the same bound (item)
     9 the model ran out of fuel.
   The Python side decides soundness on Go's own answers and passes the
   offending pairs/items (`unsound`); the judge only classifies them. *)
From Coq Require Import List BinInt Bool.
From MV Require Export Types.Types.
Import ListNotations.
Open Scope Z_scope.

Definition znth {A} (l : list A) (i : Z) (d : A) : A := nth (Z.to_nat i) l d.

(* Compact literals (elaborating long list literals dominates the run time):
   sz z   = the string whose bytes are the base-256 digits of z, little endian;
   bz k z = the k low bits of z as booleans;  qz k z = the k low base-4 digits. *)
Fixpoint sz_fuel (n : nat) (z : Z) : str :=
  match n with
  | O => []
  | S n' => if z =? 0 then [] else (z mod 256) :: sz_fuel n' (z / 256)
  end.
Definition sz (z : Z) : str := sz_fuel 200 z.
Fixpoint bz_nat (k : nat) (z : Z) : list bool :=
  match k with O => [] | S k' => Z.odd z :: bz_nat k' (Z.div2 z) end.
Definition bz (k z : Z) : list bool := bz_nat (Z.to_nat k) z.
Fixpoint qz_nat (k : nat) (z : Z) : list Z :=
  match k with O => [] | S k' => (z mod 4) :: qz_nat k' (z / 4) end.
Definition qz (k z : Z) : list Z := qz_nat (Z.to_nat k) z.

Definition item := (list Z * (ty * ty) * (list bool * list bool))%type.
   (* index list, (Go's upper bound, Go's lower bound), (HasType of the upper bound, of the lower bound) *)

Inductive case :=
| KGroup (tys : list ty) (consts : list const) (mem : list (list bool))
         (row0 : Z) (scm tcm : list (list Z))   (* rows row0, row0+1, .. of the answer matrices: 0 no, 1 yes, 2 panic *)
         (unsound : list (Z * Z))
         (rank : list ty) (items : list item) (unsound_ub unsound_lb : list Z).

Definition ob2z (o : option bool) : Z :=
  match o with Some true => 1 | Some false => 0 | None => 9 end.

(* first index (from k) at which f fails *)
Fixpoint first_bad {A} (f : A -> bool) (l : list A) (k : Z) : option Z :=
  match l with
  | [] => None
  | x :: l' => if f x then first_bad f l' (k + 1) else Some k
  end.

Fixpoint enumerate {A} (l : list A) (k : Z) : list (Z * A) :=
  match l with [] => [] | x :: l' => (k, x) :: enumerate l' (k + 1) end.

(* flat list of ((i,j), go answer) *)
Definition cells (row0 : Z) (m : list (list Z)) : list ((Z * Z) * Z) :=
  flat_map (fun ir => List.map (fun jv => ((fst ir, fst jv), snd jv)) (enumerate (snd ir) 0)) (enumerate m row0).

Definition mem_ok (tys : list ty) (consts : list const) (mem : list (list bool)) : option Z :=
  first_bad (fun x => x)
    (flat_map (fun tr => List.map (fun cb => Bool.eqb (has_type (fst tr) (fst cb)) (snd cb))
                           (combine consts (snd tr))) (combine tys mem)) 0.

Definition judge_matrix (tys : list ty) (row0 : Z) (scm tcm : list (list Z)) (unsound : list (Z * Z)) : Z :=
  let ty_at i := znth tys i t_empty in
  let model := List.map (fun c => (set_conforms Fixed (ty_at (fst (fst c))) (ty_at (snd (fst c))), snd c))
                        (cells row0 scm) in
  if existsb (fun ms => match fst ms with None => true | _ => false end) model then 9000000 else
  match first_bad (fun p => negb (niceb (ty_at (fst p)) (ty_at (snd p)))) unsound 0 with
  | Some i => 4000000 + i
  | None =>
    match first_bad (fun ms => ob2z (fst ms) =? snd ms) model 0 with
    | Some i => 1000000 + i
    | None =>
      match first_bad (fun c => ob2z (type_conforms Fixed (ty_at (fst (fst c))) (ty_at (snd (fst c)))) =? snd c)
                      (cells row0 tcm) 0 with
      | Some i => 2000000 + i
      | None => 0
      end
    end
  end.

Definition oty_eqb (a b : option ty) : bool :=
  match a, b with Some x, Some y => ty_eqb x y | _, _ => false end.

Definition judge_bounds (tys : list ty) (consts : list const) (rank : list ty) (items : list item)
           (unsound_ub unsound_lb : list Z) : Z :=
  let ty_at i := znth tys i t_empty in
  let srt := rank_srt rank in
  let ub m (idx : list Z) := upper_bound (set_conforms m) srt (List.map ty_at idx) in
  let lb m (idx : list Z) := lower_bound (set_conforms m) srt (List.map ty_at idx) in
  let model := List.map (fun it : item => (ub Fixed (fst (fst it)), lb Fixed (fst (fst it)), it)) items in
  let idx_at i := fst (fst (znth items i ([], (t_empty, t_empty), ([], [])))) in
  if existsb (fun m => match fst (fst m), snd (fst m) with Some _, Some _ => false | _, _ => true end) model
  then 9000000 else
  match first_bad (fun i => negb (oty_eqb (ub Fixed (idx_at i)) (ub Strict (idx_at i)))) unsound_ub 0,
        first_bad (fun i => negb (oty_eqb (lb Fixed (idx_at i)) (lb Strict (idx_at i)))) unsound_lb 0 with
  | Some i, _ => 8000000 + znth unsound_ub i 0
  | _, Some i => 8000000 + znth unsound_lb i 0
  | None, None =>
    match first_bad (fun m => oty_eqb (fst (fst m)) (Some (fst (snd (fst (snd m)))))) model 0 with
    | Some i => 5000000 + i
    | None =>
      match first_bad (fun m => oty_eqb (snd (fst m)) (Some (snd (snd (fst (snd m)))))) model 0 with
      | Some i => 6000000 + i
      | None =>
        match first_bad (fun it : item =>
                           list_eqb Bool.eqb (List.map (has_type (fst (snd (fst it)))) consts) (fst (snd it)) &&
                           list_eqb Bool.eqb (List.map (has_type (snd (snd (fst it)))) consts) (snd (snd it)))
                        items 0 with
        | Some i => 7000000 + i
        | None => 0
        end
      end
    end
  end.

Definition judge (c : case) : Z :=
  match c with
  | KGroup tys consts mem row0 scm tcm unsound rank items uub ulb =>
      let a := judge_matrix tys row0 scm tcm unsound in
      if negb (a =? 0) then a else
      let b := judge_bounds tys consts rank items uub ulb in
      if negb (b =? 0) then b else
      match mem_ok tys consts mem with Some i => 3000000 + i | None => 0 end
  end.

(* for replay files: everything the model says about one pair / one list *)
Definition show_pair (S T : ty) (consts : list const) :=
  (ob2z (set_conforms Legacy S T), ob2z (set_conforms Fixed S T), ob2z (set_conforms Strict S T),
   ob2z (type_conforms Fixed S T),
   List.map (fun c => (has_type S c, has_type T c)) consts).
Definition show_bounds (ts rank : list ty) :=
  (upper_bound (set_conforms Fixed) (rank_srt rank) ts, upper_bound (set_conforms Strict) (rank_srt rank) ts,
   lower_bound (set_conforms Fixed) (rank_srt rank) ts, lower_bound (set_conforms Strict) (rank_srt rank) ts).

(* Regression witnesses of the model for the branch "a is a union" of
   intersectType (seeded change C12-2 kept the alternative of a instead of its
   intersection with b): two unions that overlap alternative by alternative,
   neither conforming to the other, both orders; /foo/z separates /foo from
   /foo/bar. *)
Definition u_foo_number := TUnion [TConst (sz 1869571631); TConst s_number].           (* fn:Union(/foo,/number) *)
Definition u_foobar_string := TUnion [TConst (sz 8241976748937274927); TConst s_string]. (* fn:Union(/foo/bar,/string) *)
Example lower_bound_two_unions :
  lower_bound (set_conforms Fixed) id_srt [u_foo_number; u_foobar_string] = Some (TConst (sz 8241976748937274927)) /\
  lower_bound (set_conforms Fixed) id_srt [u_foobar_string; u_foo_number] = Some (TConst (sz 8241976748937274927)) /\
  lower_bound (set_conforms Strict) id_srt [u_foo_number; u_foobar_string] = Some (TConst (sz 8241976748937274927)) /\
  has_type (TConst (sz 1869571631)) (CName (sz 134344151623215)) = true /\
  has_type u_foobar_string (CName (sz 134344151623215)) = false.
Proof. vm_compute. repeat split. Qed.

(* Regression witness for the meet of a tagged union with a struct type that overlaps one variant while its tag
   field is wider than the variant's tag (seeded change C12-5 expanded the tagged-union operand of intersectType
   with /name for the tag): neither conforms to the other, the model's intersect has no structural case (N92), so
   the lower bound is the empty type in both modes and both orders - the list lies inside the fragment where the
   judge reports a member of Go's lower bound outside an argument (code 8); {/kind: /zzz, /x: 1} is a member of
   the struct type fn:Struct(/kind,/name,/x,/number) the seeded tree returned and not of the tagged union. *)
Definition tu_kind_ab := TTagged (sz 431349132079)
  [(sz 24879, TStruct [(sz 30767, TConst s_number)] []); (sz 25135, TStruct [(sz 31023, TConst s_string)] [])].
Definition st_kind_name_x_any := TStruct [(sz 431349132079, TConst s_name); (sz 30767, TConst s_any)] [].
Definition st_kind_name_x_number := TStruct [(sz 431349132079, TConst s_name); (sz 30767, TConst s_number)] [].
Definition c_kind_zzz_x_1 :=
  CStructCons (CName (sz 431349132079)) (CName (sz 2054847023)) (CStructCons (CName (sz 30767)) (CNum 1) CStructNil).
Example lower_bound_tagged_struct :
  lower_bound (set_conforms Fixed) id_srt [tu_kind_ab; st_kind_name_x_any] = Some t_empty /\
  lower_bound (set_conforms Fixed) id_srt [st_kind_name_x_any; tu_kind_ab] = Some t_empty /\
  lower_bound (set_conforms Strict) id_srt [tu_kind_ab; st_kind_name_x_any] = Some t_empty /\
  lower_bound (set_conforms Fixed) id_srt [t_any; tu_kind_ab; st_kind_name_x_any] = Some t_empty /\
  set_conforms Fixed st_kind_name_x_any tu_kind_ab = Some false /\
  set_conforms Fixed tu_kind_ab st_kind_name_x_any = Some false /\
  has_type st_kind_name_x_number c_kind_zzz_x_1 = true /\
  has_type tu_kind_ab c_kind_zzz_x_1 = false.
Proof. vm_compute. repeat split. Qed.
