(* Correspondence runner for C10: outcome of the Go decoder (value + bytes /
   error / recovered panic) against the model, on one input each.
   Codes: 0 = agree; 1 = model and implementation differ but the implementation
   returned a value or an error (the property holds on this input, the
   correspondence is broken); 2 = the implementation panicked (property violated). *)
From Coq Require Import List ZArith Bool.
From MV Require Export Front.Unescape Front.SimpleColumn.
Import ListNotations.
Open Scope Z_scope.

Fixpoint bytes_eqb (a b : list Z) : bool :=
  match a, b with
  | [], [] => true
  | x :: a', y :: b' => (x =? y) && bytes_eqb a' b'
  | _, _ => false
  end.

Fixpoint list_eqb {A} (eqb : A -> A -> bool) (a b : list A) : bool :=
  match a, b with
  | [], [] => true
  | x :: a', y :: b' => eqb x y && list_eqb eqb a' b'
  | _, _ => false
  end.

(* ---- Unescape: (isBytes, input, observed kind 0 val / 1 err / 2 panic, observed bytes) *)
Definition ucase_t := (bool * list Z * Z * list Z)%type.

Definition judge_unescape (c : ucase_t) : Z :=
  let '(isb, s, k, v) := c in
  if k =? 2 then 2
  else match unescape true s isb with
       | Val m => if (k =? 0) && bytes_eqb m v then 0 else 1
       | Err => if k =? 1 then 0 else 1
       | _ => 1
       end.

(* the model of the code BEFORE fix N12a predicts the panic itself: used for replays and
   for the mutation experiments (0 = same outcome class as the pre-fix model) *)
Definition judge_unescape_prefix (c : ucase_t) : Z :=
  let '(isb, s, k, v) := c in
  match unescape false s isb with
  | Val m => if (k =? 0) && bytes_eqb m v then 0 else 1
  | Err => if k =? 1 then 0 else 1
  | Panic => if k =? 2 then 0 else 1
  | Fuel => 1
  end.

(* ---- simple-column reader.
   A table row per scanner line: (line, atoi, sscanf (name, arity, count), name ok, decoding of the line
   as a body line: 0 ok (canonical text) / 1 read error / 2 parse error / 3 not applicable (empty line)) *)
Definition trow := (bytes * option Z * option (bytes * Z * Z) * bool * (Z * bytes))%type.

Fixpoint lookup (t : list trow) (l : bytes) : option trow :=
  match t with
  | [] => None
  | r :: t' => let '(l', _, _, _, _) := r in if bytes_eqb l l' then Some r else lookup t' l
  end.
Fixpoint lookup_name (t : list trow) (n : bytes) : bool :=
  match t with
  | [] => false
  | (_, _, Some (n', _, _), ok, _) :: t' => if bytes_eqb n n' then ok else lookup_name t' n
  | _ :: t' => lookup_name t' n
  end.

Definition lib_of (t : list trow) : lib := {|
  atoi := fun l => match lookup t l with Some (_, a, _, _, _) => a | None => None end;
  sscan := fun l => match lookup t l with Some (_, _, s, _, _) => s | None => None end;
  name_ok := fun n => lookup_name t n;
  term := fun l => match lookup t l with
                   | Some (_, _, _, _, (k, c)) => if k =? 0 then TOk c else if k =? 2 then TParse else TRead
                   | None => TRead
                   end |}.

Definition fact_eqb (a b : fact) : bool :=
  let '(n1, a1, x1) := a in let '(n2, a2, x2) := b in
  bytes_eqb n1 n2 && (a1 =? a2) && list_eqb bytes_eqb x1 x2.

(* (raw bytes, scanner lines, scanner stopped on an over-long line, table,
    observed kind 0 nil / 1 err / 2 panic, observed error class, observed facts in Add order) *)
Definition sccase_t := (bytes * list bytes * bool * list trow * Z * Z * list fact)%type.

Definition judge_sc_with (V : ver) (c : sccase_t) : Z :=
  let '(raw, lines, long, t, k, e, facts) := c in
  if k =? 2 then 2
  else if negb long && negb (list_eqb bytes_eqb (split_lines raw) lines) then 1
  else
    let '(mf, mr) := read_into V (lib_of t) lines in
    if negb (list_eqb fact_eqb mf facts) then 1
    else match mr with
         | ROk _ => if k =? 0 then 0 else 1
         | RErr e' => if (k =? 1) && (e =? e') then 0 else 1
         | _ => 1
         end.
Definition judge_sc (c : sccase_t) : Z := judge_sc_with fixed c.

(* pre-fix model predicts the panic (for replays / mutation experiments) *)
Definition judge_sc_prefix (c : sccase_t) : Z :=
  let '(raw, lines, long, t, k, e, facts) := c in
  let '(mf, mr) := read_into original (lib_of t) lines in
  match mr with
  | ROk _ => if (k =? 0) && list_eqb fact_eqb mf facts then 0 else 1
  | RErr e' => if (k =? 1) && (e =? e') && list_eqb fact_eqb mf facts then 0 else 1
  | RPanic => if k =? 2 then 0 else 1
  | ROom => 1
  end.

(* model outputs for replay files *)
Definition show_unescape (c : ucase_t) := let '(isb, s, _, _) := c in unescape true s isb.
Definition show_sc (c : sccase_t) := let '(_, lines, _, t, _, _, _) := c in read_into fixed (lib_of t) lines.

(* ---- bound rows of a declaration (Front/DeclRows.v) against analysis.CheckDecl,
   symbols.CheckAndDesugar and the analysis pipeline.
   case = (the declaration carries desugared(), arity, rows (entry classes 0 CW / 1 CRefOk /
           2 CRefSv / 3 CRefCy / 4 CBad),
           CheckDecl reported "expected n bounds", CheckDecl reported a bound that is not well formed,
           outcome of symbols.CheckAndDesugar called directly on the declarations 0 ok / 1 error / 2 panic,
           outcome of the pipeline analysis.AnalyzeOneUnit / AnalyzeAndCheckBounds 0 ok / 1 error / 2 panic)
   Codes: 2 = the pipeline panicked (property violated); 1 = CheckDecl's row test or the row loop
   differ from the model (the pipeline returned); 0 = agree. *)
From MV Require Export Front.DeclRows.

Definition cell_of (z : Z) : cellk :=
  if z =? 0 then CW else if z =? 1 then CRefOk else if z =? 2 then CRefSv else if z =? 3 then CRefCy else CBad.
Definition dres_code (d : dres) : Z := match d with DOk => 0 | DErr => 1 | DPanic => 2 end.

Definition declcase_t := (bool * Z * list (list Z) * bool * bool * Z * Z)%type.

Definition judge_decl (c : declcase_t) : Z :=
  let '(desugared, ar, rows, e_len, e_wf, direct, pipe) := c in
  let a := Z.to_nat ar in
  let rs := map (map cell_of) rows in
  if pipe =? 2 then 2
  else if negb (Bool.eqb e_len (rowlen_error a rs)) then 1
  else if negb (Bool.eqb (e_len || e_wf) (negb (check_rows false a rs))) then 1
  else if negb (direct =? dres_code (desugar_rows desugared a rs)) then 1
  else if (negb (e_len || e_wf)) && negb (pipe =? 2) && (dres_code (front_decl false desugared a rs) =? 2) then 1
  else 0.

Definition show_decl (c : declcase_t) :=
  let '(desugared, ar, rows, _, _, _, _) := c in
  let a := Z.to_nat ar in
  let rs := map (map cell_of) rows in
  (rowlen_error a rs, check_rows false a rs, desugar_rows desugared a rs, front_decl false desugared a rs).
