(* Correspondence runner for C20: one program + base facts, evaluated on the Go side by
   engine.EvalProgramNaive and by engine.EvalProgram on copies of one store. judge
   (a) compares the two Go fact sets with each other (the property on this input) and
   (b) replays the case on both models to localise which engine left its model. *)
From Coq Require Import List ZArith Bool.
From MV Require Export Datalog.Syntax Datalog.Interp Datalog.Solve Datalog.SemiNaive Datalog.Strata
                       Datalog.Lfp Datalog.Naive.
Import ListNotations.
Open Scope Z_scope.

(* what was observed for one engine *)
Inductive obs :=
| OFacts (fs : list fact)     (* returned nil; the facts read back from the store *)
| OEvalErr                    (* returned an error (semi-naive only: the naive engine has no error path) *)
| OLimit                      (* fact limit / wall-clock guard *)
| OPanic.                     (* the engine panicked *)

Record case := mkCase {
  c_prog : list clause;
  c_layers : list (list Z);
  c_store : list fact;        (* facts in the caller's store before evaluation *)
  c_init : list fact;         (* facts written in the program text *)
  c_fuel : Z;
  c_naive : obs;              (* engine.EvalProgramNaive *)
  c_semi : obs }.             (* engine.EvalProgram *)

Definition subset (a b : list fact) : bool := forallb (fun f => mem f b) a.
Definition set_eqb (a b : list fact) : bool := subset a b && subset b a.

Definition model_naive (c : case) : outcome (list fact) :=
  naive_program (Z.to_nat (c_fuel c)) (c_prog c) (c_layers c) (c_store c) (c_init c).
Definition model_semi (c : case) : outcome (list fact) :=
  eval_program (Z.to_nat (c_fuel c)) (c_prog c) (c_layers c) (c_store c) (c_init c).

(* verdict codes
   0  both Go engines finished with equal fact sets, each equal to its model
      (or: the semi-naive engine reported an error in Go and in the model - the program is
       not accepted by both - and the naive Go result equals the naive model)
   1  the Go engines agree with each other, but one of them differs from its model
   2  the Go engines DIFFER; the naive engine left its model (semi-naive agrees with its model)
   3  the Go engines DIFFER; the semi-naive engine left its model (naive agrees with its model)
   4  the Go engines DIFFER; both or neither left the models
   5  inconclusive: a model ran out of fuel, or Go hit the limit / the guard
   6  error status differs between semi-naive Go and semi-naive model
   7  both models finished with different sets (excluded by Props/C20.v naive_eq_seminaive)
   8  the naive engine panicked on a program the semi-naive engine finished
   9  not accepted by both (semi-naive error) and the naive Go result differs from the naive model *)
Definition judge (c : case) : Z :=
  match c_semi c, c_naive c with
  | OFacts gs, OFacts gn =>
      let agree := set_eqb gs gn in
      match model_naive c, model_semi c with
      | Ok mn, Ok ms =>
          let an := set_eqb mn gn in
          let a_s := set_eqb ms gs in
          if agree then
            (if an && a_s then 0 else if set_eqb mn ms then 1 else 7)
          else if a_s && negb an then 2
          else if an && negb a_s then 3
          else 4
      | _, EvalError => if agree then 6 else 4
      | _, _ => if agree then 5 else 4
      end
  | OFacts _, OPanic => 8
  | OFacts _, _ => 5
  | OEvalErr, OFacts gn =>
      match model_naive c, model_semi c with
      | Ok mn, EvalError => if set_eqb mn gn then 0 else 9
      | Ok _, Ok _ => 6
      | _, _ => 5
      end
  | OEvalErr, OPanic => 9
  | _, _ => 5
  end.

(* ---- model output as a flat token list for replays (same format as Run/C01.v, parsed
   by checks/datalog_common.py parse_model_tokens): outcome code (0 Ok, 1 EvalError,
   2 OutOfFuel), number of facts, then per fact pred, number of args, constants *)
Fixpoint const_tokens (c : const) : list Z :=
  match c with
  | CName s => 0 :: Z.of_nat (length s) :: s
  | CStr s => 1 :: Z.of_nat (length s) :: s
  | CNum n => [2; n]
  | CPair a b => 3 :: const_tokens a ++ const_tokens b
  | CNil => [4]
  | CCons h t => 5 :: const_tokens h ++ const_tokens t
  end.
Definition fact_tokens (f : fact) : list Z :=
  fst f :: Z.of_nat (length (snd f)) :: flat_map const_tokens (snd f).
Definition outcome_tokens (o : outcome (list fact)) : list Z :=
  match o with
  | Ok St => 0 :: Z.of_nat (length St) :: flat_map fact_tokens St
  | EvalError => [1]
  | OutOfFuel => [2]
  end.
Definition naive_tokens (c : case) : list Z := outcome_tokens (model_naive c).
Definition semi_tokens (c : case) : list Z := outcome_tokens (model_semi c).

(* the naive model as it was before fix F11, for the seeded-defect demonstration *)
Definition model_naive_prefix (c : case) : outcome (list fact) :=
  naive_program_prefix (Z.to_nat (c_fuel c)) (c_prog c) (c_layers c) (c_store c) (c_init c).

(* ---- refutation witness material for Props/C20.v one_delta_rule_per_predicate_refuted
   (added after seeded change C20-1): makeDeltaRules :384 emitting only ONE delta rule per
   distinct body predicate of a clause instead of one per occurrence. `seen` = the stratum
   predicates that already got their delta position in this body. *)
Fixpoint delta_positions_once (ps seen : list Z) (k : nat) (b : list premise) : list nat :=
  match b with
  | [] => []
  | PAtom a :: b' =>
      if memZ (apred a) ps && negb (memZ (apred a) seen)
      then k :: delta_positions_once ps (apred a :: seen) (S k) b'
      else delta_positions_once ps seen (S k) b'
  | _ :: b' => delta_positions_once ps seen (S k) b'
  end.

Definition delta_rules_once (P : list clause) (ps dps : list Z) : list (clause * nat) :=
  flat_map (fun c => map (fun i => (c, i)) (delta_positions_once ps [] 0 (cbody c))) (rules_of P dps).

Definition eval_program_once (fuel : nat) (P : list clause) (layers : list (list Z))
           (store init : list fact) : outcome (list fact) :=
  eval_strata fuel (map (fun ps => mkStratum (rules_of P ps) (delta_rules_once P ps ps)) layers)
              (add_all store init).
