(* Correspondence runner for C01: evaluates the model (eval_program) on a program + base
   facts and compares the outcome with what engine.EvalProgram produced on the Go side. *)
From Coq Require Import List ZArith Bool.
From MV Require Export Datalog.Syntax Datalog.Interp Datalog.Solve Datalog.SemiNaive Datalog.Strata.
Import ListNotations.
Open Scope Z_scope.

(* what was observed on the Go side *)
Inductive obs :=
| OFacts (fs : list fact)     (* evaluation returned nil; the facts read back from the store *)
| OEvalErr                    (* evaluation returned an error other than the fact limit *)
| OLimit.                     (* created-fact limit reached / timeout guard *)

Record case := mkCase {
  c_prog : list clause;
  c_layers : list (list Z);
  c_store : list fact;        (* facts in the caller's store before evaluation *)
  c_init : list fact;         (* facts written in the program text *)
  c_fuel : Z;
  c_obs : obs }.

Definition subset (a b : list fact) : bool := forallb (fun f => mem f b) a.
Definition set_eqb (a b : list fact) : bool := subset a b && subset b a.

Definition run_model (c : case) : outcome (list fact) :=
  eval_program (Z.to_nat (c_fuel c)) (c_prog c) (c_layers c) (c_store c) (c_init c).

(* 0 agree | 1 both finished, fact sets differ | 2 model finished, Go reported an
   evaluation error | 3 model reports an evaluation error, Go finished | 4 model out of
   fuel, Go finished or failed (inconclusive) | 5 Go hit the fact limit, model finished
   (inconclusive: C17's concern) *)
Definition judge (c : case) : Z :=
  match run_model c, c_obs c with
  | Ok St, OFacts fs => if set_eqb St fs then 0 else 1
  | Ok _, OEvalErr => 2
  | Ok _, OLimit => 5
  | EvalError, OEvalErr => 0
  | EvalError, OFacts _ => 3
  | EvalError, OLimit => 5
  | OutOfFuel, OLimit => 0
  | OutOfFuel, _ => 4
  end.

(* ---- model output as a flat token list for replays (parsed by checks/datalog_common.py):
   outcome code (0 Ok, 1 EvalError, 2 OutOfFuel), number of facts, then per fact
   pred, number of args, constants; constant = 0 len bytes | 1 len bytes | 2 n | 3 a b | 4 | 5 h t *)
Fixpoint const_tokens (c : const) : list Z :=
  match c with
  | CName s => 0 :: Z.of_nat (length s) :: s
  | CStr s => 1 :: Z.of_nat (length s) :: s
  | CNum n => [2; n]
  | CPair a b => 3 :: const_tokens a ++ const_tokens b
  | CNil => [4]
  | CCons h t => 5 :: const_tokens h ++ const_tokens t
  end.
Definition fact_tokens (f : fact) : list Z :=
  fst f :: Z.of_nat (length (snd f)) :: flat_map const_tokens (snd f).
Definition outcome_tokens (o : outcome (list fact)) : list Z :=
  match o with
  | Ok St => 0 :: Z.of_nat (length St) :: flat_map fact_tokens St
  | EvalError => [1]
  | OutOfFuel => [2]
  end.
Definition model_tokens (c : case) : list Z := outcome_tokens (run_model c).

(* the loop as it was before fix F1, for the seeded-defect demonstration *)
Definition run_model_prefix (c : case) : outcome (list fact) :=
  (fix go (strata : list stratum) (St : list fact) : outcome (list fact) :=
     match strata with
     | [] => Ok St
     | s :: rest => match eval_stratum_prefix (Z.to_nat (c_fuel c)) (s_rules s) (s_drules s) St with
                    | Ok St' => go rest St'
                    | EvalError => EvalError
                    | OutOfFuel => OutOfFuel
                    end
     end) (map (fun ps => mk_stratum (c_prog c) ps ps) (c_layers c)) (add_all (c_store c) (c_init c)).

(* ================= alias-aware model (Datalog/SolveUF.v): union-find substitutions with
   variable-variable aliasing. Same case type; judge_uf runs eval_program_uf. *)
From MV Require Export Datalog.SolveUF.

(* The engine evaluates what the analysis hands it: analysis.RewriteClause
   (analysis/rewriteclause.go:36, model Analysis/RuleCheck.v rewrite) moves a negated atom
   behind the premise that binds its last variable. The generators of the main stream never
   write a negated atom before its binders (rewrite is the identity there); an alias variant
   may: "!q(V, W), W = V" is evaluated as "W = V, !q(V, W)". *)
From MV Require Analysis.RuleCheck.

Definition run_model_uf (strict : bool) (c : case) : outcome (list fact) :=
  eval_program_uf strict (Z.to_nat (c_fuel c)) (map RuleCheck.rewrite (c_prog c)) (c_layers c) (c_store c) (c_init c).

Definition verdict_of (r : outcome (list fact)) (o : obs) : Z :=
  match r, o with
  | Ok St, OFacts fs => if set_eqb St fs then 0 else 1
  | Ok _, OEvalErr => 2
  | Ok _, OLimit => 5
  | EvalError, OEvalErr => 0
  | EvalError, OFacts _ => 3
  | EvalError, OLimit => 5
  | OutOfFuel, OLimit => 0
  | OutOfFuel, _ => 4
  end.

Definition outcome_code {A} (r : outcome A) : Z := match r with Ok _ => 0 | EvalError => 1 | OutOfFuel => 2 end.

(* codes 0-5 as judge. 6 = Go agrees with the model, but the instrumented (strict) run
   reports that a negated atom or a "!=" was evaluated while an argument was still an unbound
   variable: the input is outside the hypothesis of the order-independence theorems
   (Props/C01.v alias_elimination_sound); never seen on clauses the analysis accepts. *)
Definition judge_uf (c : case) : Z :=
  let r := run_model_uf false c in
  let v := verdict_of r (c_obs c) in
  if v =? 0 then (if outcome_code r =? outcome_code (run_model_uf true c) then 0 else 6) else v.

Definition model_tokens_uf (c : case) : list Z := outcome_tokens (run_model_uf false c).

(* an alias-free original through both models: the common code, or 100 + 10 * judge + judge_uf *)
Definition judge_both (c : case) : Z :=
  let a := judge c in
  let b := judge_uf c in
  if a =? b then a else 100 + 10 * a + b.

(* the alias stream: an original and its aliasing variants in one term. A variant is the
   original's program with some clauses replaced (position, clause) and what Go observed on
   it (VSame = the same observation as on the original). *)
Inductive vobs := VSame | VObs (o : obs).

Fixpoint patch_at (k : Z) (P : list clause) (chg : list (Z * clause)) : list clause :=
  match P with
  | [] => []
  | c :: P' => (match find (fun ic => Z.eqb (fst ic) k) chg with Some ic => snd ic | None => c end)
               :: patch_at (k + 1) P' chg
  end.

Definition variant_case (c : case) (v : list (Z * clause) * vobs) : case :=
  mkCase (patch_at 0 (c_prog c) (fst v)) (c_layers c) (c_store c) (c_init c) (c_fuel c)
         (match snd v with VSame => c_obs c | VObs o => o end).

(* judge_both of the original + 1000 * sum_j 7^j * judge_uf (variant j) *)
Definition judge_alias (cv : case * list (list (Z * clause) * vobs)) : Z :=
  judge_both (fst cv)
  + 1000 * fold_right (fun v acc => judge_uf (variant_case (fst cv) v) + 7 * acc) 0 (snd cv).
