(* Correspondence runner for C15: the proofs that provenance.Explain / BuildFromRecording
   returned for every fact of an evaluated store are judged by the verified observer
   check_proof (Prov/ProofTree.v, exactness theorem in Props/C15.v). *)
From Coq Require Import List ZArith Bool.
From MV Require Export Datalog.Syntax Datalog.Interp Datalog.Solve Datalog.SemiNaive Prov.ProofTree Prov.Explain.
Import ListNotations.
Open Scope Z_scope.

(* what Go returned for one goal in one mode (an empty list = ErrNoProof);
   g_need = a complete proof is owed for this goal *)
Record goal_obs := mkGoal { g_fact : fact; g_need : bool; g_proofs : list pnode }.

Record case := mkCase {
  c_prog : list clause;        (* ProgramInfo.Rules, in order *)
  c_base : list fact;          (* facts of the program text + facts the caller stored *)
  c_store : list fact;         (* the evaluated store *)
  c_ref : bool;                (* also run the reference explainer on this input *)
  c_goals : list goal_obs }.

(* 0 = every returned proof is a valid complete derivation of the goal
   1 = no invalid proof, some returned proofs are flagged partial (and, if owed, a
       complete valid one is among the returned)
   2 = a proof not flagged partial is rejected by check_proof, or a returned tree
       concludes another fact than the goal
   3 = a complete proof is owed and none of the returned proofs is one *)
Definition judge_goal (P : list clause) (base St : list fact) (g : goal_obs) : Z :=
  let ps := g_proofs g in
  let need := g_need g in
  if existsb (fun n => negb (fact_eqb (node_fact n) (g_fact g))) ps then 2
  else if existsb (fun n => negb (has_partial n) && negb (check_proof P base St (g_fact g) n)) ps then 2
  else if need && negb (existsb (fun n => negb (has_partial n) && check_proof P base St (g_fact g) n) ps) then 3
  else if existsb has_partial ps then 1 else 0.

Definition goal_codes (c : case) : list Z :=
  map (judge_goal (c_prog c) (c_base c) (c_store c)) (c_goals c).

Fixpoint first_bad (k : Z) (l : list Z) : Z :=
  match l with
  | [] => 0
  | v :: l' => if 2 <=? v then (k + 1) * 10 + v else first_bad (k + 1) l'
  end.

(* 0 | 1 as above for all goals; otherwise (index of the first offending goal + 1) * 10 + its code *)
Definition judge_go (c : case) : Z :=
  let l := goal_codes c in
  let b := first_bad 0 l in
  if b =? 0 then (if existsb (Z.eqb 1) l then 1 else 0) else b.

(* the reference explainer on the same input: 0 = explain_ref proves every goal and all
   its proofs pass check_proof; 4 = it misses a goal or produces a rejected tree
   (would contradict Props/C15.v; evaluated on every case as a cross-check) *)
Definition judge_ref (c : case) : Z :=
  let tbl := explain_ref (c_prog c) (c_base c) (c_store c) in
  if forallb (fun g => match find_proof tbl (g_fact g) with
                       | Some n => check_proof (c_prog c) (c_base c) (c_store c) (g_fact g) n
                       | None => false
                       end) (c_goals c) then 0 else 4.

(* the verdict of a case: the Go proofs first; 4 if they are fine but the reference
   explainer (when requested) fails on the same store *)
Definition judge (c : case) : Z :=
  let j := judge_go c in
  if 2 <=? j then j
  else if c_ref c then (if judge_ref c =? 0 then j else 4) else j.
