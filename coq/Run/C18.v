(* Correspondence / observer runner for C18.
   judge_seq : a single-threaded history of the Go ConcurrentFactStore against the set
               machine (ties SetSpec.spec_step to the base stores): 0 = all results agree,
               k = the k-th operation (1-based) returned something else.
   judge_hist: a recorded concurrent history judged by the verified checker
               LinCheck.lin_check from the empty store: 0 = linearizable, 2 = not. *)
From Coq Require Import List ZArith Bool.
From MV Require Export Conc.LockKinds Conc.SetSpec Conc.Concurrent Conc.LinCheck.
Import ListNotations.
Open Scope Z_scope.

Fixpoint replay_seq (s : sstate) (k : Z) (l : list (op * res)) : Z :=
  match l with
  | [] => 0
  | (o, r) :: l' =>
      if res_eq_dec r (snd (spec_step s o)) then replay_seq (fst (spec_step s o)) (k + 1) l' else k
  end.
Definition judge_seq (l : list (op * res)) : Z := replay_seq [] 1 l.

Fixpoint seq_trace (s : sstate) (l : list (op * res)) : list res :=
  match l with
  | [] => []
  | (o, _) :: l' => snd (spec_step s o) :: seq_trace (fst (spec_step s o)) l'
  end.
Definition trace (l : list (op * res)) := seq_trace [] l.

Definition judge_hist (H : list event) : Z := if lin_check [] H then 0 else 2.
