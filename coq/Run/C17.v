(* Correspondence runner for C17: evaluates the limit model (eval_program_lim) on a
   program + base facts + limit, with the stratum order the Go engine really used, and
   compares outcome class and the store at return with what
   engine.EvalStratifiedProgramWithStats(..., WithCreatedFactLimit(L)) left behind.
   The property verdicts (a) (b) (c) are decided on Go's output. *)
From Coq Require Import List ZArith Bool Arith.
From MV Require Export Datalog.Syntax Datalog.Interp Datalog.Solve Datalog.SemiNaive Datalog.Strata
     Datalog.Limit.
Import ListNotations.
Open Scope Z_scope.

(* what was observed on the Go side; fs = the store read back at return *)
Inductive obs :=
| OOk (fs : list fact)         (* nil error *)
| OLimitErr (fs : list fact)   (* "fact size limit reached ..." *)
| OEvalErr (fs : list fact)    (* any other error *)
| OTimeout.                    (* no return within the wall-clock guard *)

Record case := mkCase {
  c_prog : list clause;
  c_layers : list (list Z);    (* strata in Go's evaluation order *)
  c_store : list fact;         (* caller's store before the call *)
  c_init : list fact;          (* facts of the program text *)
  c_limit : Z;                 (* L *)
  c_obs : obs }.

Definition subset (a b : list fact) : bool := forallb (fun f => mem f b) a.
Definition set_eqb (a b : list fact) : bool := subset a b && subset b a.

Definition c_L (c : case) : nat := Z.to_nat (c_limit c).
Definition c_strata (c : case) : list stratum := map (fun ps => mk_stratum (c_prog c) ps ps) (c_layers c).
Definition c_E (c : case) : list fact := add_all (c_store c) (c_init c).

(* the model runs with the fuel of theorem limit_terminates: LFuel cannot come out *)
Definition run_model (c : case) : loutcome :=
  eval_program_lim (limit_fuel (c_L c) (length (c_store c))) (c_L c)
                   (c_prog c) (c_layers c) (c_store c) (c_init c).

(* the bound of theorem limit_bound for this case *)
Definition case_bound (c : case) : nat :=
  limit_bound_fn (c_L c) (length (c_E c)) (max_rules (c_strata c)).

(* independent property-level oracle for verdict (a) when the model says "error" but Go
   returned nil: a (perfect) model contains the base facts and is CLOSED under the rules -
   one application of every rule to Go's store (negation judged in that store) derives
   nothing the store lacks. A store that is not closed is not the model: the derivable
   missing fact is the witness. One rule application over the returned store is cheap and
   always terminates, unlike running the unlimited engine on a diverging program.
   (an evaluation error of the rule application decides nothing: counted as closed) *)
Definition closed_under_rules (c : case) (fs : list fact) : bool :=
  subset (c_E c) fs &&
  forallb (fun s => match round0 (s_rules s) fs with
                    | Some d => subset d fs
                    | None => true
                    end) (c_strata c).

(* verdict codes
   0  agree: same class (ok / error), same store at return, same error kind
   1  agree on class and store, error kind differs (limit vs evaluation error)
   2  VIOLATION (a): Go returned nil, model finished, store differs from the (least) model
   3  Go returned an error, model finishes without one (spurious stop: allowed by the
      property, correspondence broken)
   4  Go returned nil with the complete model where the model reports an error
      (correspondence broken, property holds on this input)
   5  VIOLATION (a): Go returned nil, model reports an error, and Go's store is not closed
      under the rules (a rule instance holds in it whose head is missing) or lacks a base fact
   7  both report an error, the stores at return differ (correspondence broken)
   8  VIOLATION (b): no return within the guard
   9  model out of fuel (excluded by limit_terminates: a broken obligation)
   10 VIOLATION (c): the store at Go's return exceeds the proven bound *)
Definition go_store (o : obs) : option (list fact) :=
  match o with OOk fs | OLimitErr fs | OEvalErr fs => Some fs | OTimeout => None end.

Definition judge (c : case) : Z :=
  match c_obs c with
  | OTimeout => 8
  | o =>
    match go_store o with
    | Some fs =>
      if Nat.ltb (case_bound c) (length fs) then 10 else
      match run_model c, o with
      | LFuel, _ => 9
      | LOk St, OOk _ => if set_eqb St fs then 0 else 2
      | LOk _, _ => 3
      | LLimit St, OLimitErr _ => if set_eqb St fs then 0 else 7
      | LEval St, OEvalErr _ => if set_eqb St fs then 0 else 7
      | LLimit St, OEvalErr _ => if set_eqb St fs then 1 else 7
      | LEval St, OLimitErr _ => if set_eqb St fs then 1 else 7
      | _, _ => if closed_under_rules c fs then 4 else 5
      end
    | None => 8
    end
  end.

(* ---- model output as a flat token list for replays: class (0 ok, 1 eval error,
   2 limit error, 3 out of fuel), bound, number of facts, then the facts as in Run/C01 *)
Fixpoint const_tokens (c : const) : list Z :=
  match c with
  | CName s => 0 :: Z.of_nat (length s) :: s
  | CStr s => 1 :: Z.of_nat (length s) :: s
  | CNum n => [2; n]
  | CPair a b => 3 :: const_tokens a ++ const_tokens b
  | CNil => [4]
  | CCons h t => 5 :: const_tokens h ++ const_tokens t
  end.
Definition fact_tokens (f : fact) : list Z :=
  fst f :: Z.of_nat (length (snd f)) :: flat_map const_tokens (snd f).
Definition store_tokens (St : list fact) : list Z :=
  Z.of_nat (length St) :: flat_map fact_tokens St.
Definition model_tokens (c : case) : list Z :=
  match run_model c with
  | LOk St => 0 :: Z.of_nat (case_bound c) :: store_tokens St
  | LEval St => 1 :: Z.of_nat (case_bound c) :: store_tokens St
  | LLimit St => 2 :: Z.of_nat (case_bound c) :: store_tokens St
  | LFuel => [3; Z.of_nat (case_bound c); 0]
  end.

(* class and store size only: (class, size) packed as class * 1000000 + size; used by the
   exhaustive limit sweep to cross-check the Go sizes cheaply *)
Definition model_class_size (c : case) : Z :=
  match run_model c with
  | LOk St => Z.of_nat (length St)
  | LEval St => 1000000 + Z.of_nat (length St)
  | LLimit St => 2000000 + Z.of_nat (length St)
  | LFuel => 3000000
  end.
