(* Correspondence runner for C05. Three kinds of case:
   CBase    - the base presentation of a program: C01's judge (model eval_program vs the
              facts engine.EvalProgram produced), so that a result that is the same in
              every presentation but wrong is localised to C01;
   CVariant - a renamed presentation: the program is renamed INSIDE Coq with the functions
              the theorems of Props/C05.v speak about (rp_clause, rn_clause, table_fn),
              the model is run on the renamed program and compared with what the engine
              produced on the renamed text written by the Python generator;
   CSame    - the verified observer on two Go outputs (same_set_spec in Props/C05.v):
              decides on the implementation's own outputs whether two presentations of
              one program gave the same fact set. *)
From Coq Require Import List ZArith Bool.
From MV Require Export Run.C01 Datalog.Invariance.
Import ListNotations.
Open Scope Z_scope.

Inductive c05case :=
| CBase (c : case)
| CVariant (c : case) (pmap : list (Z * Z)) (vmaps : list (list (Z * Z)))
| CSame (a b : list fact).

Fixpoint rename_clauses (r : Z -> Z) (cs : list clause) (vmaps : list (list (Z * Z))) : list clause :=
  match cs with
  | [] => []
  | c :: cs' =>
      match vmaps with
      | m :: ms => rp_clause r (rn_clause (table_fn m) c) :: rename_clauses r cs' ms
      | [] => rp_clause r c :: rename_clauses r cs' []
      end
  end.

(* c_obs of the result is the observation on the renamed text (renamed predicate ids) *)
Definition rename_case (c : case) (pmap : list (Z * Z)) (vmaps : list (list (Z * Z))) : case :=
  let r := table_fn pmap in
  mkCase (rename_clauses r (c_prog c) vmaps) (map (map r) (c_layers c))
         (map (rp_fact r) (c_store c)) (map (rp_fact r) (c_init c)) (c_fuel c) (c_obs c).

(* 0 agree.  CBase: C01's codes 1..5.  CVariant: 10 + C01's code.  CSame: 2 = the two
   fact sets differ (property violated on the implementation's own outputs). *)
Definition judge (x : c05case) : Z :=
  match x with
  | CBase c => Run.C01.judge c
  | CVariant c pmap vmaps =>
      let v := Run.C01.judge (rename_case c pmap vmaps) in if Z.eqb v 0 then 0 else 10 + v
  | CSame a b => if same_set a b then 0 else 2
  end.
