(* Correspondence runner for C06. A case is a small universe of stores (base
   stores of the four kinds, merged / teeing / concurrent wrappers over earlier
   slots), the hash tables observed from Go (Atom.Hash() of every atom and
   Constant.Hash() of every constant of the case) and a history of operations
   with the results the Go stores returned. The judge replays the history on
   the models (Store/*.v, run with the observed hash values) and on the set
   machine (Store/SetSpec.v) and reports
     0          every observed result equals the model's and the set machine's
     k          (k < 1000) op k differs from the model, the set machine accepts everything
     1000 + k   op k differs from the set machine: the property is violated there
     9999       malformed case (forward reference, atom without hash)
   Result lists are compared as multisets (Go map iteration order). *)
From Coq Require Import List ZArith Bool.
From MV Require Export Store.SetSpec Store.Generic Store.Simple Store.Indexed Store.MultiIndexed
  Store.MultiIndexedArray Store.Wrappers.
Import ListNotations.
Open Scope Z_scope.

Fixpoint remove1 {A} (eqb : A -> A -> bool) (x : A) (l : list A) : option (list A) :=
  match l with
  | [] => None
  | y :: l' => if eqb x y then Some l' else
               match remove1 eqb x l' with Some r => Some (y :: r) | None => None end
  end.
Fixpoint perm_eqb {A} (eqb : A -> A -> bool) (a b : list A) : bool :=
  match a with
  | [] => match b with [] => true | _ => false end
  | x :: a' => match remove1 eqb x b with Some b' => perm_eqb eqb a' b' | None => false end
  end.
Definition subset_b {A} (eqb : A -> A -> bool) (a b : list A) : bool :=
  forallb (fun x => existsb (eqb x) b) a.

Inductive kind := KSimple | KIndexed | KMulti | KArray.
Inductive sdef := DBase (k : kind) | DMerged (reads : list Z) (w : Z) | DTee (base : Z) | DConc (base : Z).
Inductive sstate :=
| SSimple (s : gstore simple_shard) | SIndexed (s : gstore indexed_shard)
| SMulti (s : gstore multi_shard) | SArray (s : gstore array_shard) | SNone.

Inductive rop :=
| RAdd (a : atom) (res : bool) | RRemove (a : atom) (res : bool) | RContains (a : atom) (res : bool)
| RQuery (q : pattern) (res : list atom)
| RPreds (ghost : bool) (res : list pred)     (* ghost: some predicate of the store was emptied by Remove (finding N8) *)
| RCount (res : Z) | RMerge (from : Z).

Record case := { atable : list (atom * Z); ctable : list (Z * Z); defs : list sdef; hist : list (Z * rop) }.

Section WithTables.
  Variable c : case.
  Definition hash (a : atom) : Z := match get atom_eqb a (atable c) with Some h => h | None => -1 end.
  Definition chash (k : Z) : Z := match get Z.eqb k (ctable c) with Some h => h | None => -1 end.

  Definition nthZ {A} (d : A) (l : list A) (i : Z) : A := nth (Z.to_nat i) l d.
  Fixpoint setnth {A} (l : list A) (i : nat) (x : A) : list A :=
    match l, i with
    | [], _ => []
    | _ :: l', O => x :: l'
    | y :: l', Datatypes.S i' => y :: setnth l' i' x
    end.
  Definition setZ {A} (l : list A) (i : Z) (x : A) := setnth l (Z.to_nat i) x.

  Definition init_state (d : sdef) : sstate :=
    match d with
    | DBase KSimple => SSimple (g_empty)
    | DBase KIndexed => SIndexed (g_empty)
    | DBase KMulti => SMulti (g_empty)
    | DBase KArray => SArray (g_empty)
    | DTee _ => SArray (g_empty)        (* NewTeeingStore: Out = NewMultiIndexedArrayInMemoryStore() *)
    | _ => SNone
    end.

  Definition dummy_ops {S} : store_ops S :=
    {| o_add := fun _ s => (s, false); o_remove := fun _ s => (s, false); o_contains := fun _ _ => false;
       o_query := fun _ _ => []; o_preds := fun _ => []; o_count := fun _ => -1; o_merge := fun _ s => s |}.

  (* operations of the store held in slot i of the state vector *)
  Definition lift {T} (I : shard_impl T) (inj : gstore T -> sstate) (prj : sstate -> option (gstore T)) (i : Z)
    : store_ops (list sstate) :=
    let rd (sts : list sstate) := match prj (nthZ SNone sts i) with Some s => s | None => g_empty end in
    {| o_add := fun a sts => let '(s', b) := g_add I a (rd sts) in (setZ sts i (inj s'), b);
       o_remove := fun a sts => let '(s', b) := g_remove I a (rd sts) in (setZ sts i (inj s'), b);
       o_contains := fun a sts => g_contains I a (rd sts);
       o_query := fun q sts => g_query I q (rd sts);
       o_preds := fun sts => g_preds (rd sts);
       o_count := fun sts => g_count I (rd sts);
       o_merge := fun l sts => setZ sts i (inj (g_merge I l (rd sts))) |}.

  Definition base_ops (i : Z) (k : kind) : store_ops (list sstate) :=
    match k with
    | KSimple => lift (simple_impl hash) SSimple (fun s => match s with SSimple x => Some x | _ => None end) i
    | KIndexed => lift (indexed_impl hash chash) SIndexed (fun s => match s with SIndexed x => Some x | _ => None end) i
    | KMulti => lift (multi_impl hash chash) SMulti (fun s => match s with SMulti x => Some x | _ => None end) i
    | KArray => lift (array_impl hash chash) SArray (fun s => match s with SArray x => Some x | _ => None end) i
    end.

  Fixpoint slot_ops (fuel : nat) (i : Z) : store_ops (list sstate) :=
    match fuel with
    | O => dummy_ops
    | Datatypes.S f =>
      match nthZ (DConc (-1)) (defs c) i with
      | DBase k => base_ops i k
      | DConc b => slot_ops f b
      | DMerged rs w =>
        let W := slot_ops f w in
        let views sts := map (fun r => view (slot_ops f r) sts) rs in
        {| o_add := fun a sts => merged_add W (views sts) a sts;
           o_remove := fun a sts => merged_remove W a sts;
           o_contains := fun a sts => merged_contains W (views sts) a sts;
           o_query := fun q sts => merged_query W (views sts) q sts;
           o_preds := fun sts => merged_preds W (views sts) sts;
           o_count := fun sts => merged_count W (views sts) sts;
           o_merge := fun l sts => merged_merge W l sts |}
      | DTee b =>
        let Out := base_ops i KArray in
        let bv sts := view (slot_ops f b) sts in
        {| o_add := fun a sts => tee_add Out (bv sts) a sts;
           o_remove := fun a sts => tee_remove Out a sts;
           o_contains := fun a sts => tee_contains Out (bv sts) a sts;
           o_query := fun q sts => tee_query Out (bv sts) q sts;
           o_preds := fun sts => tee_preds Out (bv sts) sts;
           o_count := fun sts => tee_count Out (bv sts) sts;
           o_merge := fun l sts => tee_merge Out l sts |}
      end
    end.

  Definition fuel0 : nat := Datatypes.S (length (defs c)).
  Definition sops (i : Z) := slot_ops fuel0 i.
  (* the facts a Merge reads from slot j: ListPredicates x GetFacts(NewQuery(pred)) *)
  Definition stream (j : Z) (sts : list sstate) : list atom :=
    flat_map (fun p => o_query (sops j) (new_query p) sts) (o_preds (sops j) sts).

  (* ---- the set machine over the same slots: one set per writable leaf *)
  Definition union (a b : list atom) : list atom := dedup atom_eqb (a ++ b).
  Fixpoint visible (fuel : nat) (sets : list sset) (i : Z) : list atom :=
    match fuel with
    | O => []
    | Datatypes.S f =>
      match nthZ (DConc (-1)) (defs c) i with
      | DBase _ => nthZ [] sets i
      | DConc b => visible f sets b
      | DMerged rs w => fold_right (fun r acc => union (visible f sets r) acc) (visible f sets w) rs
      | DTee b => union (visible f sets b) (nthZ [] sets i)
      end
    end.
  Fixpoint leaf (fuel : nat) (i : Z) : Z :=
    match fuel with
    | O => i
    | Datatypes.S f =>
      match nthZ (DConc (-1)) (defs c) i with
      | DBase _ => i
      | DTee _ => i
      | DConc b => leaf f b
      | DMerged _ w => leaf f w
      end
    end.
  Definition vis sets i := visible fuel0 sets i.
  Definition lf i := leaf fuel0 i.

  (* one observed operation: (model ok, set ok, new model state, new sets) *)
  Definition step (sts : list sstate) (sets : list sset) (i : Z) (o : rop)
    : bool * bool * list sstate * list sset :=
    let V := vis sets i in
    let L := nthZ [] sets (lf i) in
    match o with
    | RAdd a res =>
      let '(sts', b) := o_add (sops i) a sts in
      let sb := negb (s_mem a V) in
      (Bool.eqb b res, Bool.eqb sb res, sts', if sb then setZ sets (lf i) (a :: L) else sets)
    | RRemove a res =>
      let '(sts', b) := o_remove (sops i) a sts in
      let sb := s_mem a V in
      (Bool.eqb b res, Bool.eqb sb res, sts', setZ sets (lf i) (fst (s_remove a L)))
    | RContains a res =>
      (Bool.eqb (o_contains (sops i) a sts) res, Bool.eqb (s_mem a V) res, sts, sets)
    | RQuery q res =>
      (perm_eqb atom_eqb (o_query (sops i) q sts) res, perm_eqb atom_eqb (s_query q V) res, sts, sets)
    | RPreds ghost res =>
      (perm_eqb pred_eqb (o_preds (sops i) sts) res,
       if ghost then subset_b pred_eqb (s_preds V) res else perm_eqb pred_eqb (s_preds V) res, sts, sets)
    | RCount res =>
      (o_count (sops i) sts =? res, s_count V =? res, sts, sets)
    | RMerge j =>
      let l := stream j sts in
      let new := filter (fun a => negb (s_mem a V)) (vis sets j) in
      (true, true, o_merge (sops i) l sts, setZ sets (lf i) (new ++ L))
    end.

  Fixpoint replay (sts : list sstate) (sets : list sset) (k : Z) (h : list (Z * rop)) : Z :=
    match h with
    | [] => 0
    | (i, o) :: h' =>
      let '(mok, sok, sts', sets') := step sts sets i o in
      if negb sok then 1000 + k
      else if negb mok then
        (* differs from the model: keep going on the set machine only to see whether the property fails later *)
        (fix later (sets : list sset) (sts : list sstate) (k' : Z) (h : list (Z * rop)) : Z :=
           match h with
           | [] => k
           | (i, o) :: h'' => let '(_, sok, sts', sets') := step sts sets i o in
                              if negb sok then 1000 + k' else later sets' sts' (k' + 1) h''
           end) sets' sts' (k + 1) h'
      else replay sts' sets' (k + 1) h'
    end.

  Fixpoint refs_ok (i : Z) (ds : list sdef) : bool :=
    match ds with
    | [] => true
    | d :: ds' =>
      (match d with
       | DBase _ => true
       | DConc b | DTee b => (0 <=? b) && (b <? i)
       | DMerged rs w => forallb (fun r => (0 <=? r) && (r <? i)) rs && (0 <=? w) && (w <? i)
       end) && refs_ok (i + 1) ds'
    end.
  Definition rop_atoms (o : rop) : list atom :=
    match o with RAdd a _ | RRemove a _ | RContains a _ => [a] | _ => [] end.
  Definition wellformed : bool :=
    refs_ok 0 (defs c) &&
    forallb (fun io => forallb (fun a => is_some (get atom_eqb a (atable c))) (rop_atoms (snd io))
                       && (0 <=? fst io) && (fst io <? Z.of_nat (length (defs c)))) (hist c).

  Definition judge0 : Z :=
    if wellformed then replay (map init_state (defs c)) (map (fun _ => []) (defs c)) 1 (hist c) else 9999.

  (* for replay files: what the model and the set machine answer at each op *)
  Definition answers (sts : list sstate) (sets : list sset) (i : Z) (o : rop) :=
    let V := vis sets i in
    match o with
    | RAdd a _ => (ON (if snd (o_add (sops i) a sts) then 1 else 0), ON (if s_mem a V then 0 else 1))
    | RRemove a _ => (ON (if snd (o_remove (sops i) a sts) then 1 else 0), ON (if s_mem a V then 1 else 0))
    | RContains a _ => (ON (if o_contains (sops i) a sts then 1 else 0), ON (if s_mem a V then 1 else 0))
    | RQuery q _ => (OL (o_query (sops i) q sts), OL (s_query q V))
    | RPreds _ _ => (OP (o_preds (sops i) sts), OP (s_preds V))
    | RCount _ => (ON (o_count (sops i) sts), ON (s_count V))
    | RMerge j => (OL (stream j sts), OL (vis sets j))
    end.
  Fixpoint trace0 (sts : list sstate) (sets : list sset) (h : list (Z * rop)) :=
    match h with
    | [] => []
    | (i, o) :: h' => let '(_, _, sts', sets') := step sts sets i o in
                      answers sts sets i o :: trace0 sts' sets' h'
    end.
End WithTables.

(* 64-bit hash values are written in four 16-bit limbs (large decimal numerals are slow to parse) *)
Definition H (a b c d : Z) : Z := ((a * 65536 + b) * 65536 + c) * 65536 + d.
Definition judge (c : case) : Z := judge0 c.
Definition trace (c : case) := trace0 c (map init_state (defs c)) (map (fun _ => []) (defs c)) (hist c).
Definition mk (at_ : list (atom * Z)) (ct : list (Z * Z)) (ds : list sdef) (h : list (Z * rop)) : case :=
  {| atable := at_; ctable := ct; defs := ds; hist := h |}.
