(* Correspondence runner for C06. A case is a small universe of stores (base
   stores of the four kinds, merged / teeing / concurrent wrappers over earlier
   slots), the hash tables observed from Go (Atom.Hash() of every atom and
   Constant.Hash() of every constant of the case) and a history of operations
   with the results the Go stores returned. The judge replays the history on
   the models (Store/*.v, run with the observed hash values) and on the set
   machine (Store/SetSpec.v) and reports
     0          every observed result equals the model's and the set machine's
     k          (k < 1000) op k differs from the model, the set machine accepts everything
     1000 + k   op k differs from the set machine: the property is violated there
     9999       malformed case (forward reference, atom without hash)
   Result lists are compared as multisets (Go map iteration order). *)
From Coq Require Import List ZArith Bool.
From MV Require Export Store.SetSpec Store.Generic Store.Simple Store.Indexed Store.MultiIndexed
  Store.MultiIndexedArray Store.Wrappers.
Import ListNotations.
Open Scope Z_scope.

Fixpoint remove1 {A} (eqb : A -> A -> bool) (x : A) (l : list A) : option (list A) :=
  match l with
  | [] => None
  | y :: l' => if eqb x y then Some l' else
               match remove1 eqb x l' with Some r => Some (y :: r) | None => None end
  end.
Fixpoint perm_eqb {A} (eqb : A -> A -> bool) (a b : list A) : bool :=
  match a with
  | [] => match b with [] => true | _ => false end
  | x :: a' => match remove1 eqb x b with Some b' => perm_eqb eqb a' b' | None => false end
  end.
Definition subset_b {A} (eqb : A -> A -> bool) (a b : list A) : bool :=
  forallb (fun x => existsb (eqb x) b) a.

Inductive kind := KSimple | KIndexed | KMulti | KArray.
Inductive sdef := DBase (k : kind) | DMerged (reads : list Z) (w : Z) | DTee (base : Z) | DConc (base : Z).
Inductive sstate :=
| SSimple (s : gstore simple_shard) | SIndexed (s : gstore indexed_shard)
| SMulti (s : gstore multi_shard) | SArray (s : gstore array_shard) | SNone.

Inductive rop :=
| RAdd (a : atom) (res : bool) | RRemove (a : atom) (res : bool) | RContains (a : atom) (res : bool)
| RQuery (q : pattern) (res : list atom)
| RPreds (ghost : bool) (res : list pred)     (* ghost: some predicate of the store was emptied by Remove (finding N8) *)
| RCount (res : Z) | RMerge (from : Z).

Record case := { atable : list (atom * Z); ctable : list (Z * Z); defs : list sdef; hist : list (Z * rop) }.

Section WithTables.
  Variable c : case.
  Definition hash (a : atom) : Z := match get atom_eqb a (atable c) with Some h => h | None => -1 end.
  Definition chash (k : Z) : Z := match get Z.eqb k (ctable c) with Some h => h | None => -1 end.

  Definition nthZ {A} (d : A) (l : list A) (i : Z) : A := nth (Z.to_nat i) l d.
  Fixpoint setnth {A} (l : list A) (i : nat) (x : A) : list A :=
    match l, i with
    | [], _ => []
    | _ :: l', O => x :: l'
    | y :: l', Datatypes.S i' => y :: setnth l' i' x
    end.
  Definition setZ {A} (l : list A) (i : Z) (x : A) := setnth l (Z.to_nat i) x.

  Definition init_state (d : sdef) : sstate :=
    match d with
    | DBase KSimple => SSimple (g_empty)
    | DBase KIndexed => SIndexed (g_empty)
    | DBase KMulti => SMulti (g_empty)
    | DBase KArray => SArray (g_empty)
    | DTee _ => SArray (g_empty)        (* NewTeeingStore: Out = NewMultiIndexedArrayInMemoryStore() *)
    | _ => SNone
    end.

  Definition dummy_ops {S} : store_ops S :=
    {| o_add := fun _ s => (s, false); o_remove := fun _ s => (s, false); o_contains := fun _ _ => false;
       o_query := fun _ _ => []; o_preds := fun _ => []; o_count := fun _ => -1; o_merge := fun _ s => s |}.

  (* operations of the store held in slot i of the state vector *)
  Definition lift {T} (I : shard_impl T) (inj : gstore T -> sstate) (prj : sstate -> option (gstore T)) (i : Z)
    : store_ops (list sstate) :=
    let rd (sts : list sstate) := match prj (nthZ SNone sts i) with Some s => s | None => g_empty end in
    {| o_add := fun a sts => let '(s', b) := g_add I a (rd sts) in (setZ sts i (inj s'), b);
       o_remove := fun a sts => let '(s', b) := g_remove I a (rd sts) in (setZ sts i (inj s'), b);
       o_contains := fun a sts => g_contains I a (rd sts);
       o_query := fun q sts => g_query I q (rd sts);
       o_preds := fun sts => g_preds (rd sts);
       o_count := fun sts => g_count I (rd sts);
       o_merge := fun l sts => setZ sts i (inj (g_merge I l (rd sts))) |}.

  Definition base_ops (i : Z) (k : kind) : store_ops (list sstate) :=
    match k with
    | KSimple => lift (simple_impl hash) SSimple (fun s => match s with SSimple x => Some x | _ => None end) i
    | KIndexed => lift (indexed_impl hash chash) SIndexed (fun s => match s with SIndexed x => Some x | _ => None end) i
    | KMulti => lift (multi_impl hash chash) SMulti (fun s => match s with SMulti x => Some x | _ => None end) i
    | KArray => lift (array_impl hash chash) SArray (fun s => match s with SArray x => Some x | _ => None end) i
    end.

  Fixpoint slot_ops (fuel : nat) (i : Z) : store_ops (list sstate) :=
    match fuel with
    | O => dummy_ops
    | Datatypes.S f =>
      match nthZ (DConc (-1)) (defs c) i with
      | DBase k => base_ops i k
      | DConc b => slot_ops f b
      | DMerged rs w =>
        let W := slot_ops f w in
        let views sts := map (fun r => view (slot_ops f r) sts) rs in
        {| o_add := fun a sts => merged_add W (views sts) a sts;
           o_remove := fun a sts => merged_remove W a sts;
           o_contains := fun a sts => merged_contains W (views sts) a sts;
           o_query := fun q sts => merged_query W (views sts) q sts;
           o_preds := fun sts => merged_preds W (views sts) sts;
           o_count := fun sts => merged_count W (views sts) sts;
           o_merge := fun l sts => merged_merge W l sts |}
      | DTee b =>
        let Out := base_ops i KArray in
        let bv sts := view (slot_ops f b) sts in
        {| o_add := fun a sts => tee_add Out (bv sts) a sts;
           o_remove := fun a sts => tee_remove Out a sts;
           o_contains := fun a sts => tee_contains Out (bv sts) a sts;
           o_query := fun q sts => tee_query Out (bv sts) q sts;
           o_preds := fun sts => tee_preds Out (bv sts) sts;
           o_count := fun sts => tee_count Out (bv sts) sts;
           o_merge := fun l sts => tee_merge Out l sts |}
      end
    end.

  Definition fuel0 : nat := Datatypes.S (length (defs c)).
  Definition sops (i : Z) := slot_ops fuel0 i.
  (* the facts a Merge reads from slot j: ListPredicates x GetFacts(NewQuery(pred)) *)
  Definition stream (j : Z) (sts : list sstate) : list atom :=
    flat_map (fun p => o_query (sops j) (new_query p) sts) (o_preds (sops j) sts).

  (* ---- the set machine over the same slots: one set per writable leaf *)
  Definition union (a b : list atom) : list atom := dedup atom_eqb (a ++ b).
  Fixpoint visible (fuel : nat) (sets : list sset) (i : Z) : list atom :=
    match fuel with
    | O => []
    | Datatypes.S f =>
      match nthZ (DConc (-1)) (defs c) i with
      | DBase _ => nthZ [] sets i
      | DConc b => visible f sets b
      | DMerged rs w => fold_right (fun r acc => union (visible f sets r) acc) (visible f sets w) rs
      | DTee b => union (visible f sets b) (nthZ [] sets i)
      end
    end.
  Fixpoint leaf (fuel : nat) (i : Z) : Z :=
    match fuel with
    | O => i
    | Datatypes.S f =>
      match nthZ (DConc (-1)) (defs c) i with
      | DBase _ => i
      | DTee _ => i
      | DConc b => leaf f b
      | DMerged _ w => leaf f w
      end
    end.
  Definition vis sets i := visible fuel0 sets i.
  Definition lf i := leaf fuel0 i.

  (* one observed operation: (model ok, set ok, new model state, new sets) *)
  Definition step (sts : list sstate) (sets : list sset) (i : Z) (o : rop)
    : bool * bool * list sstate * list sset :=
    let V := vis sets i in
    let L := nthZ [] sets (lf i) in
    match o with
    | RAdd a res =>
      let '(sts', b) := o_add (sops i) a sts in
      let sb := negb (s_mem a V) in
      (Bool.eqb b res, Bool.eqb sb res, sts', if sb then setZ sets (lf i) (a :: L) else sets)
    | RRemove a res =>
      let '(sts', b) := o_remove (sops i) a sts in
      let sb := s_mem a V in
      (Bool.eqb b res, Bool.eqb sb res, sts', setZ sets (lf i) (fst (s_remove a L)))
    | RContains a res =>
      (Bool.eqb (o_contains (sops i) a sts) res, Bool.eqb (s_mem a V) res, sts, sets)
    | RQuery q res =>
      (perm_eqb atom_eqb (o_query (sops i) q sts) res, perm_eqb atom_eqb (s_query q V) res, sts, sets)
    | RPreds ghost res =>
      (perm_eqb pred_eqb (o_preds (sops i) sts) res,
       if ghost then subset_b pred_eqb (s_preds V) res else perm_eqb pred_eqb (s_preds V) res, sts, sets)
    | RCount res =>
      (o_count (sops i) sts =? res, s_count V =? res, sts, sets)
    | RMerge j =>
      let l := stream j sts in
      let new := filter (fun a => negb (s_mem a V)) (vis sets j) in
      (true, true, o_merge (sops i) l sts, setZ sets (lf i) (new ++ L))
    end.

  Fixpoint replay (sts : list sstate) (sets : list sset) (k : Z) (h : list (Z * rop)) : Z :=
    match h with
    | [] => 0
    | (i, o) :: h' =>
      let '(mok, sok, sts', sets') := step sts sets i o in
      if negb sok then 1000 + k
      else if negb mok then
        (* differs from the model: keep going on the set machine only to see whether the property fails later *)
        (fix later (sets : list sset) (sts : list sstate) (k' : Z) (h : list (Z * rop)) : Z :=
           match h with
           | [] => k
           | (i, o) :: h'' => let '(_, sok, sts', sets') := step sts sets i o in
                              if negb sok then 1000 + k' else later sets' sts' (k' + 1) h''
           end) sets' sts' (k + 1) h'
      else replay sts' sets' (k + 1) h'
    end.

  Fixpoint refs_ok (i : Z) (ds : list sdef) : bool :=
    match ds with
    | [] => true
    | d :: ds' =>
      (match d with
       | DBase _ => true
       | DConc b | DTee b => (0 <=? b) && (b <? i)
       | DMerged rs w => forallb (fun r => (0 <=? r) && (r <? i)) rs && (0 <=? w) && (w <? i)
       end) && refs_ok (i + 1) ds'
    end.
  Definition rop_atoms (o : rop) : list atom :=
    match o with RAdd a _ | RRemove a _ | RContains a _ => [a] | _ => [] end.
  Definition wellformed : bool :=
    refs_ok 0 (defs c) &&
    forallb (fun io => forallb (fun a => is_some (get atom_eqb a (atable c))) (rop_atoms (snd io))
                       && (0 <=? fst io) && (fst io <? Z.of_nat (length (defs c)))) (hist c).

  Definition judge0 : Z :=
    if wellformed then replay (map init_state (defs c)) (map (fun _ => []) (defs c)) 1 (hist c) else 9999.

  (* for replay files: what the model and the set machine answer at each op *)
  Definition answers (sts : list sstate) (sets : list sset) (i : Z) (o : rop) :=
    let V := vis sets i in
    match o with
    | RAdd a _ => (ON (if snd (o_add (sops i) a sts) then 1 else 0), ON (if s_mem a V then 0 else 1))
    | RRemove a _ => (ON (if snd (o_remove (sops i) a sts) then 1 else 0), ON (if s_mem a V then 1 else 0))
    | RContains a _ => (ON (if o_contains (sops i) a sts then 1 else 0), ON (if s_mem a V then 1 else 0))
    | RQuery q _ => (OL (o_query (sops i) q sts), OL (s_query q V))
    | RPreds _ _ => (OP (o_preds (sops i) sts), OP (s_preds V))
    | RCount _ => (ON (o_count (sops i) sts), ON (s_count V))
    | RMerge j => (OL (stream j sts), OL (vis sets j))
    end.
  Fixpoint trace0 (sts : list sstate) (sets : list sset) (h : list (Z * rop)) :=
    match h with
    | [] => []
    | (i, o) :: h' => let '(_, _, sts', sets') := step sts sets i o in
                      answers sts sets i o :: trace0 sts' sets' h'
    end.
End WithTables.

(* 64-bit hash values are written in four 16-bit limbs (large decimal numerals are slow to parse) *)
Definition H (a b c d : Z) : Z := ((a * 65536 + b) * 65536 + c) * 65536 + d.
Definition judge (c : case) : Z := judge0 c.
Definition trace (c : case) := trace0 c (map init_state (defs c)) (map (fun _ => []) (defs c)) (hist c).
Definition mk (at_ : list (atom * Z)) (ct : list (Z * Z)) (ds : list sdef) (h : list (Z * rop)) : case :=
  {| atable := at_; ctable := ct; defs := ds; hist := h |}.

(* ======================================================================
   Adapter configurations (appended; nothing above is changed).

   A TemporalFactStoreAdapter - unpinned (NewTemporalFactStoreAdapter) or
   pinned at an instant t (NewTemporalFactStoreAdapterAt) - over a temporal
   store that is ALSO written directly with (atom, interval) pairs. The
   specification state of a temporal store is the set of its pairs; the
   FactStore view of an adapter is derived from it:
     unpinned      the atoms having at least one interval
     pinned at t   the atoms having an interval [lo, hi] with lo <= t <= hi
   and that view takes the place of the adapter slot's set in the set machine
   above (`visible` / `leaf` are reused unchanged, so merged / teeing /
   concurrent wrappers over adapters are judged as the set of the union).
   Only the set machine runs here (there is no executable model of the
   interval trees in this file: that is C13). Verdicts of [judge_a]:
     0          every judged result is the set machine's
     1000 + k   op k differs from the set machine: the property is violated
     9999       malformed case
   Judged: Contains, GetFacts (as multisets: each matching atom exactly
   once), Remove, ListPredicates (exact, or superset when marked ghost: the
   temporal store lists predicates all of whose intervals miss the pinned
   instant), and - when marked strict - the result of Add and the count
   (TemporalStore.EstimateFactCount is documented as the number of (atom,
   interval) pairs; the adapter's Add reports whether the ETERNAL interval is
   new, which is the set's answer only if the atom is not yet in the view or
   already eternal). *)
Definition ival := (option Z * option Z)%type.         (* None = unbounded on that side *)
Definition iv_valid (iv : ival) : bool :=
  match iv with (Some lo, Some hi) => lo <=? hi | _ => true end.   (* TemporalStore.Add rejects start > end *)
Definition iv_covers (iv : ival) (t : Z) : bool :=              (* interval_tree.go containsTimestamp: closed on both sides *)
  (match fst iv with Some lo => lo <=? t | None => true end) &&
  (match snd iv with Some hi => t <=? hi | None => true end).
Definition eternal : ival := (None, None).

Inductive tdef := TPlain | TTee (base : Z).   (* NewTemporalStore | NewTeeingTemporalStore(earlier temporal store) *)
Inductive aop :=
| AStd (i : Z) (o : rop) (strict : bool)      (* an operation of the FactStore interface on slot i *)
| ATAdd (ts : Z) (a : atom) (iv : ival).      (* TemporalFactStore.Add(a, iv) on temporal store ts, bypassing every adapter *)
Record acase := { a_defs : list sdef;                       (* adapters are DBase slots (the kind is not used) *)
                  a_tdefs : list tdef;
                  a_views : list (Z * (Z * option Z));      (* adapter slot -> (temporal store, pinned instant) *)
                  a_hist : list aop }.
Definition tpairs_t := list (list (atom * ival)).           (* own pairs of every temporal store *)

Section Adapter.
  Variable ac : acase.
  Definition bc : case := mk [] [] (a_defs ac) [].
  Definition fuelT : nat := Datatypes.S (length (a_tdefs ac)).
  (* the pairs a temporal store shows: a teeing temporal store reads its base and its own output store *)
  Fixpoint tpairs (fuel : nat) (tst : tpairs_t) (j : Z) : list (atom * ival) :=
    match fuel with
    | O => []
    | Datatypes.S f =>
      match nthZ TPlain (a_tdefs ac) j with
      | TPlain => nthZ [] tst j
      | TTee b => tpairs f tst b ++ nthZ [] tst j
      end
    end.
  Definition aview (pairs : list (atom * ival)) (at_ : option Z) : sset :=
    dedup atom_eqb (map fst (filter (fun p => match at_ with None => true | Some t => iv_covers (snd p) t end) pairs)).
  (* the sets the wrappers see: adapter slots carry their derived view *)
  Definition eff (sets : list sset) (tst : tpairs_t) : list sset :=
    fold_left (fun s v => setZ s (fst v) (aview (tpairs fuelT tst (fst (snd v))) (snd (snd v)))) (a_views ac) sets.
  (* the leaf that receives Add(a) sent to slot i; None: a wrapper answers false without writing
     (MergedStore.Add: Contains first; TeeingStore.Add: base.Contains first) *)
  Fixpoint add_target (fuel : nat) (E : list sset) (i : Z) (a : atom) : option Z :=
    match fuel with
    | O => None
    | Datatypes.S f =>
      match nthZ (DConc (-1)) (a_defs ac) i with
      | DBase _ => Some i
      | DConc b => add_target f E b a
      | DMerged _ w => if s_mem a (visible bc (Datatypes.S f) E i) then None else add_target f E w a
      | DTee b => if s_mem a (visible bc f E b) then None else Some i
      end
    end.
  (* leaf l gains the atoms l_new: an adapter adds each one with the eternal interval *)
  Definition gain (sets : list sset) (tst : tpairs_t) (l : Z) (news : list atom) : list sset * tpairs_t :=
    match get Z.eqb l (a_views ac) with
    | Some (ts, _) => (sets, setZ tst ts (map (fun a => (a, eternal)) news ++ nthZ [] tst ts))
    | None => let L := nthZ [] sets l in
              (setZ sets l (dedup atom_eqb (filter (fun a => negb (s_mem a L)) news) ++ L), tst)
    end.

  Definition step_a (sets : list sset) (tst : tpairs_t) (o : aop) : bool * list sset * tpairs_t :=
    match o with
    | ATAdd ts a iv =>
      (true, sets, if iv_valid iv then setZ tst ts ((a, iv) :: nthZ [] tst ts) else tst)
    | AStd i o strict =>
      let E := eff sets tst in
      let V := vis bc E i in
      match o with
      | RAdd a res =>
        let ok := if strict then Bool.eqb (negb (s_mem a V)) res else true in
        match add_target (fuel0 bc) E i a with
        | Some l => let '(sets', tst') := gain sets tst l [a] in (ok, sets', tst')
        | None => (ok, sets, tst)
        end
      | RRemove a res =>
        let l := lf bc i in
        (Bool.eqb (s_mem a V) res, setZ sets l (fst (s_remove a (nthZ [] sets l))), tst)
      | RContains a res => (Bool.eqb (s_mem a V) res, sets, tst)
      | RQuery q res => (perm_eqb atom_eqb (s_query q V) res, sets, tst)
      | RPreds ghost res =>
        (if ghost then subset_b pred_eqb (s_preds V) res else perm_eqb pred_eqb (s_preds V) res, sets, tst)
      | RCount res => (if strict then s_count V =? res else true, sets, tst)
      | RMerge j =>
        let '(sets', tst') := gain sets tst (lf bc i) (vis bc E j) in (true, sets', tst')
      end
    end.

  Fixpoint replay_a (sets : list sset) (tst : tpairs_t) (k : Z) (h : list aop) : Z :=
    match h with
    | [] => 0
    | o :: h' => let '(ok, sets', tst') := step_a sets tst o in
                 if ok then replay_a sets' tst' (k + 1) h' else 1000 + k
    end.

  Fixpoint trefs_ok (j : Z) (ds : list tdef) : bool :=
    match ds with
    | [] => true
    | d :: ds' => (match d with TPlain => true | TTee b => (0 <=? b) && (b <? j) end) && trefs_ok (j + 1) ds'
    end.
  Definition in_range {A} (l : list A) (i : Z) : bool := (0 <=? i) && (i <? Z.of_nat (length l)).
  Definition wellformed_a : bool :=
    refs_ok 0 (a_defs ac) && trefs_ok 0 (a_tdefs ac) &&
    forallb (fun v => in_range (a_defs ac) (fst v) && in_range (a_tdefs ac) (fst (snd v)) &&
                      match nthZ (DConc (-1)) (a_defs ac) (fst v) with DBase _ => true | _ => false end) (a_views ac) &&
    forallb (fun o => match o with
                      | AStd i (RMerge j) _ => in_range (a_defs ac) i && in_range (a_defs ac) j
                      | AStd i (RRemove _ _) _ =>      (* the adapter has no Remove *)
                        in_range (a_defs ac) i && negb (is_some (get Z.eqb (lf bc i) (a_views ac)))
                      | AStd i _ _ => in_range (a_defs ac) i
                      | ATAdd ts _ _ => in_range (a_tdefs ac) ts
                      end) (a_hist ac).
  Definition init_sets : list sset := map (fun _ => []) (a_defs ac).
  Definition init_tst : tpairs_t := map (fun _ => []) (a_tdefs ac).

  (* for replay files: the set machine's answer at each op *)
  Definition answer_a (sets : list sset) (tst : tpairs_t) (o : aop) : out :=
    match o with
    | ATAdd _ _ _ => OU
    | AStd i o _ =>
      let V := vis bc (eff sets tst) i in
      match o with
      | RAdd a _ => OB (negb (s_mem a V))
      | RRemove a _ | RContains a _ => OB (s_mem a V)
      | RQuery q _ => OL (s_query q V)
      | RPreds _ _ => OP (s_preds V)
      | RCount _ => ON (s_count V)
      | RMerge j => OL (vis bc (eff sets tst) j)
      end
    end.
  Fixpoint trace_a0 (sets : list sset) (tst : tpairs_t) (h : list aop) : list out :=
    match h with
    | [] => []
    | o :: h' => let '(_, sets', tst') := step_a sets tst o in answer_a sets tst o :: trace_a0 sets' tst' h'
    end.
End Adapter.

Definition judge_a (ac : acase) : Z :=
  if wellformed_a ac then replay_a ac (init_sets ac) (init_tst ac) 1 (a_hist ac) else 9999.
Definition trace_a (ac : acase) := trace_a0 ac (init_sets ac) (init_tst ac) (a_hist ac).
Definition amk (ds : list sdef) (ts : list tdef) (vs : list (Z * (Z * option Z))) (h : list aop) : acase :=
  {| a_defs := ds; a_tdefs := ts; a_views := vs; a_hist := h |}.

(* the seeded change C06-3 in miniature: p(7) holds during [0,10] and [5,15]; the adapter pinned at 7 must
   yield it once (0), yielding it twice is rejected at op 3 *)
Example adapter_pinned_once :
  judge_a (amk [DBase KSimple] [TPlain] [(0, (0, Some 7))]
               [ATAdd 0 (0, [7]) (Some 0, Some 10); ATAdd 0 (0, [7]) (Some 5, Some 15);
                AStd 0 (RQuery (0, [None]) [(0, [7])]) true]) = 0 /\
  judge_a (amk [DBase KSimple] [TPlain] [(0, (0, Some 7))]
               [ATAdd 0 (0, [7]) (Some 0, Some 10); ATAdd 0 (0, [7]) (Some 5, Some 15);
                AStd 0 (RQuery (0, [None]) [(0, [7]); (0, [7])]) true]) = 1003.
Proof. split; vm_compute; reflexivity. Qed.
