(* Correspondence runner for C19. A case carries what the Go harness observed on
   the real factstore.SimpleColumn / SimpleColumnStore for one store:
     - the table of the constants of the store: id -> ast.Constant.String()
       (instantiates the model's [print]; [parse] is the inverse table lookup,
       Constant.Equals is equality of ids - the harness checks that distinct ids
       are not Equal),
     - Atom.Hash() and Atom.String() of every fact,
     - the bytes WriteTo produced (after decompression),
     - the sequence of Add calls ReadInto made on those bytes,
     - header and query answers of the lazy SimpleColumnStore.
   judge = 0 when the model (version [fixed]) reproduces all of them; otherwise
   the code of the first stage that differs:
     1 file bytes   2 Atom.String   3 ReadInto   4 lazy header   10+k query k. *)
From Coq Require Import List ZArith Bool Arith.
From MV Require Export Serde.SimpleColumn.
Import ListNotations.
Open Scope Z_scope.

(* compact spelling of byte strings in generated files: [hx n v] = the n bytes of v, big endian *)
Fixpoint pos_bits (p : positive) : list bool :=
  match p with xH => [true] | xO q => false :: pos_bits q | xI q => true :: pos_bits q end.
Definition z_bits (v : Z) : list bool := match v with Zpos p => pos_bits p | _ => [] end.
Definition b2z (b : bool) : Z := if b then 1 else 0.
Fixpoint take_byte (k : nat) (w : Z) (l : list bool) (acc : Z) : Z * list bool :=
  match k with
  | O => (acc, l)
  | S k' => match l with
            | [] => (acc, [])
            | b :: r => take_byte k' (2 * w) r (acc + w * b2z b)
            end
  end.
Fixpoint unpack_bytes (n : nat) (l : list bool) (acc : list Z) : list Z :=
  match n with
  | O => acc
  | S n' => let '(b, r) := take_byte 8 1 l 0 in unpack_bytes n' r (b :: acc)
  end.
Definition hx (n v : Z) : list Z := unpack_bytes (Z.to_nat n) (z_bits v) [].

(* long strings are spelled in chunks (a numeral of thousands of digits is slow to read) *)
Definition hxs (l : list (Z * Z)) : list Z := flat_map (fun nv => hx (fst nv) (snd nv)) l.

Definition gfact := (bytes * Z * list Z)%type.          (* symbol, arity, constant ids *)

Inductive case :=
| Case (prints : list bytes)
       (store : list (bytes * Z * list (list Z)))        (* listing order of the source *)
       (hashes : list (list Z))                          (* Atom.Hash per predicate, per row *)
       (astr : list (list bytes))                        (* Atom.String per predicate, per row *)
       (det : bool)
       (file : bytes)
       (read : option (list gfact))                      (* None = ReadInto returned an error *)
       (lhdr : option (list (bytes * Z * Z)))            (* lazy store: symbol, arity, count *)
       (queries : list ((bytes * Z * list (option Z)) * option (list gfact))).

Definition t_print (prints : list bytes) (c : Z) : bytes :=
  if c <? 0 then [] else nth (Z.to_nat c) prints [].
Fixpoint t_find (b : bytes) (prints : list bytes) (i : Z) : option Z :=
  match prints with
  | [] => None
  | p :: r => if bytes_eqb p b then Some i else t_find b r (i + 1)
  end.
Definition t_parse (prints : list bytes) (b : bytes) : option Z := t_find b prints 0.

Fixpoint zlist_eqb (a b : list Z) : bool :=
  match a, b with
  | [], [] => true
  | x :: a', y :: b' => (x =? y) && zlist_eqb a' b'
  | _, _ => false
  end.

Definition htable := list (bytes * list Z * Z).
Fixpoint t_hash (t : htable) (sym : bytes) (r : list Z) : Z :=
  match t with
  | [] => 0
  | (s, a, h) :: t' => if bytes_eqb s sym && zlist_eqb a r then h else t_hash t' sym r
  end.

Definition mk_store (store : list (bytes * Z * list (list Z))) : pstore Z :=
  map (fun e => let '(s, a, rows) := e in ((s, Z.to_nat a), rows)) store.
Definition mk_htable (store : list (bytes * Z * list (list Z))) (hashes : list (list Z)) : htable :=
  flat_map (fun eh => let '((s, _, rows), hs) := eh in map (fun rh => (s, fst rh, snd rh)) (combine rows hs))
           (combine store hashes).

Definition mfact_eqb (m : fact Z) (g : gfact) : bool :=
  let '(s, a, r) := g in
  bytes_eqb (fst (fst m)) s && (Z.of_nat (snd (fst m)) =? a) && zlist_eqb (snd m) r.
Fixpoint list_eqb {A B} (eqb : A -> B -> bool) (a : list A) (b : list B) : bool :=
  match a, b with
  | [], [] => true
  | x :: a', y :: b' => eqb x y && list_eqb eqb a' b'
  | _, _ => false
  end.
Definition ofacts_eqb (m : option (list (fact Z))) (g : option (list gfact)) : bool :=
  match m, g with
  | None, None => true
  | Some a, Some b => list_eqb mfact_eqb a b
  | _, _ => false
  end.

Definition hdr_eqb (m : psym * Z) (g : bytes * Z * Z) : bool :=
  let '(s, a, c) := g in
  bytes_eqb (fst (fst m)) s && (Z.of_nat (snd (fst m)) =? a) && (snd m =? c).

Definition mk_pattern (q : bytes * Z * list (option Z)) : pattern Z :=
  let '(s, a, args) := q in ((s, Z.to_nat a), args).

Fixpoint judge_queries (prints : list bytes) (lz : lazy) (k : Z)
         (qs : list ((bytes * Z * list (option Z)) * option (list gfact))) : Z :=
  match qs with
  | [] => 0
  | (q, res) :: qs' =>
      if ofacts_eqb (lz_get_facts Z Z.eqb (t_parse prints) lz (mk_pattern q)) res
      then judge_queries prints lz (k + 1) qs' else k
  end.

(* Atom.String is supplied for the cases written with the deterministic option (it is a sort key there) *)
Definition astr_ok (prints : list bytes) (store : list (bytes * Z * list (list Z))) (astr : list (list bytes)) : bool :=
  match astr with [] => true | _ => list_eqb (fun e strs => let '(s, _, rows) := e in
                          list_eqb (fun r t => bytes_eqb (atom_string Z (t_print prints) s r) t) rows strs)
           store astr end.

Definition model_file (c : case) : option bytes :=
  let '(Case prints store hashes _ det _ _ _ _) := c in
  write_bytes Z (t_print prints) (t_hash (mk_htable store hashes)) fixed det (mk_store store).

Definition judge (c : case) : Z :=
  let '(Case prints store hashes astr det file read lhdr queries) := c in
  match model_file c with
  | None => 1
  | Some b =>
      if negb (bytes_eqb b file) then 1
      else if negb (astr_ok prints store astr) then 2
      else if negb (ofacts_eqb (read_into Z Z.eqb (t_parse prints) fixed (scan_lines file)) read) then 3
      else match lz_new file, lhdr with
           | None, None => 0
           | Some lz, Some h =>
               if list_eqb hdr_eqb (lz_preds lz) h then judge_queries prints lz 10 queries else 4
           | _, _ => 4
           end
  end.

(* for replay files: what the model computes *)
Definition trace (c : case) :=
  let '(Case prints store hashes astr det file read lhdr queries) := c in
  (model_file c,
   read_into Z Z.eqb (t_parse prints) fixed (scan_lines file),
   match lz_new file with
   | Some lz => Some (lz_preds lz, map (fun qr => lz_get_facts Z Z.eqb (t_parse prints) lz (mk_pattern (fst qr))) queries)
   | None => None
   end).

(* the same store under the unrepaired version of the model (F12, zero-arity count) *)
Definition judge_original_roundtrip (c : case) : Z :=
  let '(Case prints store hashes astr det file read lhdr queries) := c in
  match write Z (t_print prints) (t_hash (mk_htable store hashes)) original det (mk_store store) with
  | None => 1
  | Some ls =>
      match read_into Z Z.eqb (t_parse prints) original (scan_lines (unlines ls)) with
      | None => 2
      | Some fs => if list_eqb (fun (a b : fact Z) => psym_eqb (fst a) (fst b) && zlist_eqb (snd a) (snd b))
                               fs (facts_of (ordered (t_print prints) (t_hash (mk_htable store hashes)) det (mk_store store)))
                   then 0 else 3
      end
  end.

(* ---- cases with hash-equal distinct facts under one predicate (added when the check was
   strengthened after seeding). deterministic_bytes needs the sort key (Atom.Hash, Atom.String) to
   be injective on the facts of each predicate; that hypothesis is decided here on the observed
   hashes and printed forms, so that a case of this stream provably lies inside the theorem.
   Codes: 5 = two facts of one predicate agree on Hash and String (outside the hypothesis),
          6 = the case was generated to contain a hash tie and has none (generator / hash table
              mistake), otherwise the code of [judge]. *)
Fixpoint keys_distinct (ks : list (Z * bytes)) : bool :=
  match ks with
  | [] => true
  | k :: r => negb (existsb (fun k' => (fst k =? fst k') && bytes_eqb (snd k) (snd k')) r) && keys_distinct r
  end.
Fixpoint has_dup_z (l : list Z) : bool :=
  match l with
  | [] => false
  | x :: r => existsb (Z.eqb x) r || has_dup_z r
  end.

Definition key_inj_ok (prints : list bytes) (store : list (bytes * Z * list (list Z))) (hashes : list (list Z)) : bool :=
  let ht := mk_htable store hashes in
  forallb (fun e => let '(s, _, rows) := e in
                    keys_distinct (map (fun r => (t_hash ht s r, atom_string Z (t_print prints) s r)) rows)) store.
Definition has_tie (store : list (bytes * Z * list (list Z))) (hashes : list (list Z)) : bool :=
  let ht := mk_htable store hashes in
  existsb (fun e => let '(s, _, rows) := e in has_dup_z (map (t_hash ht s) rows)) store.

Definition judge_ties (c : case) : Z :=
  let '(Case prints store hashes astr det file read lhdr queries) := c in
  if negb (key_inj_ok prints store hashes) then 5
  else if negb (has_tie store hashes) then 6
  else judge c.

(* one entry point for a mixed list of cases: (true, c) is judged by [judge_ties], (false, c) by [judge] *)
Definition judge_sel (tc : bool * case) : Z := if fst tc then judge_ties (snd tc) else judge (snd tc).
