(* C18 - the sequential specification: the fact store as a set machine.
   Mirrors what the seven FactStore methods do on a hash-keyed in-memory store
   (factstore/factstore.go: SimpleInMemoryStore.Add :159, Remove :173, Contains :188,
   GetFacts :138, Merge :198, ListPredicates :122, EstimateFactCount :150) on atoms
   p<k>(n) with one numeric argument (no two such atoms share Atom.Hash(), finding F8
   is out of scope here).  The state is a strictly sorted duplicate-free list, results
   that Go produces in map order are compared as sorted lists. *)
From Coq Require Import List ZArith Bool.
Import ListNotations.
Open Scope Z_scope.

Definition atom := (Z * Z)%type.            (* predicate number, argument *)

Definition atom_ltb (a b : atom) : bool :=
  (fst a <? fst b) || ((fst a =? fst b) && (snd a <? snd b)).
Definition atom_eqb (a b : atom) : bool := (fst a =? fst b) && (snd a =? snd b).

Definition sstate := list atom.

Fixpoint mem (a : atom) (s : sstate) : bool :=
  match s with [] => false | b :: s' => atom_eqb a b || mem a s' end.

(* insertion into the sorted list; no effect when present *)
Fixpoint ins (a : atom) (s : sstate) : sstate :=
  match s with
  | [] => [a]
  | b :: s' => if atom_eqb a b then s else if atom_ltb a b then a :: s else b :: ins a s'
  end.

Fixpoint del (a : atom) (s : sstate) : sstate :=
  match s with
  | [] => []
  | b :: s' => if atom_eqb a b then s' else b :: del a s'
  end.

(* query pattern of GetFacts: predicate and either a constant or a variable *)
Definition matches (p : Z) (arg : option Z) (a : atom) : bool :=
  (fst a =? p) && match arg with None => true | Some x => snd a =? x end.

Fixpoint zins (x : Z) (l : list Z) : list Z :=
  match l with
  | [] => [x]
  | y :: l' => if x =? y then l else if x <? y then x :: l else y :: zins x l'
  end.
Definition preds (s : sstate) : list Z := fold_right (fun a acc => zins (fst a) acc) [] s.

Inductive op :=
| Add (a : atom)                       (* Add(a) bool *)
| Remove (a : atom)                    (* Remove(a) bool *)
| Contains (a : atom)                  (* Contains(a) bool *)
| GetFacts (p : Z) (arg : option Z)    (* GetFacts(p(arg | X), cb): the atoms passed to cb *)
| Merge (l : list atom)                (* Merge(other) with other holding exactly l *)
| ListPreds                            (* ListPredicates() *)
| Count.                               (* EstimateFactCount() *)

Inductive res :=
| RBool (b : bool)
| RFacts (l : list atom)               (* sorted *)
| RUnit
| RPreds (l : list Z)                  (* sorted *)
| RCount (n : Z).

Definition spec_step (s : sstate) (o : op) : sstate * res :=
  match o with
  | Add a => (ins a s, RBool (negb (mem a s)))
  | Remove a => (del a s, RBool (mem a s))
  | Contains a => (s, RBool (mem a s))
  | GetFacts p arg => (s, RFacts (filter (matches p arg) s))
  | Merge l => (fold_left (fun acc a => ins a acc) l s, RUnit)
  | ListPreds => (s, RPreds (preds s))
  | Count => (s, RCount (Z.of_nat (length s)))
  end.

(* which methods write to the base store's maps *)
Definition mutating (o : op) : bool :=
  match o with Add _ | Remove _ | Merge _ => true | _ => false end.

(* decidable equality of results (used by the executable checker) *)
Definition atom_eq_dec : forall a b : atom, {a = b} + {a <> b}.
Proof. decide equality; apply Z.eq_dec. Defined.
Definition res_eq_dec : forall a b : res, {a = b} + {a <> b}.
Proof.
  decide equality; try apply Z.eq_dec; try apply Bool.bool_dec;
    apply list_eq_dec; first [apply atom_eq_dec | apply Z.eq_dec].
Defined.
Definition op_eq_dec : forall a b : op, {a = b} + {a <> b}.
Proof.
  decide equality; try apply atom_eq_dec; try apply Z.eq_dec;
    try (apply list_eq_dec; apply atom_eq_dec).
  decide equality; apply Z.eq_dec.
Defined.
