(* C18 - completeness of the checker, part B: a linearizable well-formed history has a
   successful run of the non-deterministic lazy search [srch]. *)
From Coq Require Import List ZArith Bool Arith Lia.
From MV Require Import Conc.SetSpec Conc.Concurrent Conc.LinCheck Conc.LinProofs Conc.LinCompleteDefs.
Import ListNotations.

(* ---- uniqueness facts ---- *)
Lemma inv_unique H : NoDup (inv_ids H) -> forall i t o t' o',
  In (EInv i t o) H -> In (EInv i t' o') H -> t = t' /\ o = o'.
Proof.
  induction H as [|[j u p|j u r] H IH]; simpl; intros Hnd i t o t' o' H1 H2.
  - contradiction.
  - inversion Hnd as [|? ? Hni Hnd']; subst.
    destruct H1 as [E1|H1]; destruct H2 as [E2|H2].
    + inversion E1; inversion E2; subst; auto.
    + inversion E1; subst. exfalso. apply Hni. apply in_inv_ids. eauto.
    + inversion E2; subst. exfalso. apply Hni. apply in_inv_ids. eauto.
    + eapply IH; eauto.
  - destruct H1 as [E1|H1]; [discriminate|]. destruct H2 as [E2|H2]; [discriminate|].
    eapply IH; eauto.
Qed.

Lemma ent_unique S0 : NoDup (ids S0) -> forall i o r o' r',
  In (i, o, r) S0 -> In (i, o', r') S0 -> o = o' /\ r = r'.
Proof.
  induction S0 as [|[[j p] q] S0 IH]; simpl; intros Hnd i o r o' r' H1 H2.
  - contradiction.
  - inversion Hnd as [|? ? Hni Hnd']; subst.
    destruct H1 as [E1|H1]; destruct H2 as [E2|H2].
    + inversion E1; inversion E2; subst; auto.
    + inversion E1; subst. exfalso. apply Hni. eapply in_ids; eauto.
    + inversion E2; subst. exfalso. apply Hni. eapply in_ids; eauto.
    + eapply IH; eauto.
Qed.

Lemma in_ids_ex i S0 : In i (ids S0) -> exists o r, In (i, o, r) S0.
Proof.
  unfold ids. intros Hin. apply in_map_iff in Hin. destruct Hin as [[[j o] r] [E Hin]].
  simpl in E. subst j. eauto.
Qed.

(* ---- before ---- *)
Lemma before_intro_app {A} (P Q : A -> Prop) l1 x l2 y :
  P x -> In y l2 -> Q y -> before P Q (l1 ++ x :: l2).
Proof.
  intros HP Hin HQ. induction l1 as [|a l1 IH]; simpl.
  - apply before_here; auto. apply Exists_exists. eauto.
  - apply before_later; auto.
Qed.

Lemma before_ex_Q {A} (P Q : A -> Prop) l : before P Q l -> exists y, In y l /\ Q y.
Proof.
  induction 1 as [x l HP HE|x l Hb [y [Hin HQ]]].
  - apply Exists_exists in HE. destruct HE as [y [Hin HQ]]. exists y; simpl; auto.
  - exists y; simpl; auto.
Qed.

Lemma before_head i j S1 e S2 :
  before (has_id i) (has_id j) (S1 ++ e :: S2) -> has_id j e ->
  NoDup (ids (S1 ++ e :: S2)) -> In i (ids S1).
Proof.
  intros Hb He. induction S1 as [|a S1 IH]; simpl in *; intros Hnd.
  - exfalso. inversion Hnd as [|? ? Hni Hnd']; subst.
    assert (Hy : exists y, In y S2 /\ has_id j y).
    { inversion Hb as [x l HP HE|x l Hb']; subst.
      - apply Exists_exists in HE. exact HE.
      - apply before_ex_Q in Hb'. exact Hb'. }
    destruct Hy as [[[k o] r] [Hin Hk]]. unfold has_id in *. simpl in *. subst k.
    apply Hni. rewrite He. eapply in_ids; eauto.
  - inversion Hnd as [|? ? Hni Hnd']; subst.
    inversion Hb as [x l HP HE|x l Hb']; subst.
    + left. exact HP.
    + right. apply IH; auto.
Qed.

(* ---- the simulation ---- *)
Section Sim.
  Variable s0 : sstate.
  Variable H0 : list event.
  Variable S0 : list lentry.
  Hypothesis HS_nodup : NoDup (ids S0).
  Hypothesis HS_resp : forall i t r, In (EResp i t r) H0 -> exists o, In (i, o, r) S0.
  Hypothesis HS_inS : forall i o r, In (i, o, r) S0 -> exists t, In (EInv i t o) H0.
  Hypothesis HS_rt : forall i j, before (is_resp i) (is_inv j) H0 -> In j (ids S0) ->
                                 before (has_id i) (has_id j) S0.
  Hypothesis Hnd : NoDup (inv_ids H0).

  Record SInv (H1 H2 : list event) (S1 S2 : list lentry) (s : sstate) (P : pmap)
         (W : nat -> option nat) : Prop := {
    V_H : H0 = H1 ++ H2;
    V_S : S0 = S1 ++ S2;
    V_legal : seq_legal s S2;
    V_wf : wf_from W H2;
    V_P : forall t, match W t with
           | None => lookup t P = None
           | Some i =>
               (exists o r, In (i, o, r) S1 /\ lookup t P = Some (Lined i r)) \/
               (~ In i (ids S1) /\ exists o, In (EInv i t o) H1 /\ lookup t P = Some (Called i o))
           end;
    V_pend : forall j t o, In (EInv j t o) H1 -> In j (ids S1) \/ W t = Some j;
    V_S1 : forall j, In j (ids S1) -> In j (inv_ids H1)
  }.

  (* invocation *)
  Lemma sinv_inv H1 H2 S1 S2 s P W i t o :
    SInv H1 (EInv i t o :: H2) S1 S2 s P W ->
    lookup t P = None /\
    SInv (H1 ++ [EInv i t o]) H2 S1 S2 s (pset t (Called i o) P) (upd W t (Some i)).
  Proof.
    intros V. pose proof (V_wf _ _ _ _ _ _ _ V) as Hwf. simpl in Hwf. destruct Hwf as [HW Hwf].
    pose proof (V_P _ _ _ _ _ _ _ V t) as HPt. rewrite HW in HPt. split; [exact HPt|].
    pose proof (V_H _ _ _ _ _ _ _ V) as EH.
    assert (Hfresh : ~ In i (inv_ids H1)).
    { intros Hin. rewrite EH in Hnd. rewrite inv_ids_app in Hnd. simpl in Hnd.
      apply NoDup_remove_2 in Hnd. apply Hnd. apply in_or_app. auto. }
    constructor.
    - rewrite <- app_assoc. exact EH.
    - apply (V_S _ _ _ _ _ _ _ V).
    - apply (V_legal _ _ _ _ _ _ _ V).
    - exact Hwf.
    - intros x. unfold upd. rewrite lookup_pset. destruct (Nat.eqb_spec x t) as [->|Hne].
      + right. split.
        * intros Hin. apply Hfresh. apply (V_S1 _ _ _ _ _ _ _ V). exact Hin.
        * exists o. split; auto. apply in_or_app. right. left. reflexivity.
      + pose proof (V_P _ _ _ _ _ _ _ V x) as HPx. destruct (W x) as [i'|]; auto.
        destruct HPx as [HPx|[Hn [o' [Hin Hl]]]]; [left; exact HPx|].
        right. split; auto. exists o'. split; auto. apply in_or_app. auto.
    - intros j t' o' Hin. unfold upd. apply in_app_or in Hin. destruct Hin as [Hin|[E|[]]].
      + destruct (V_pend _ _ _ _ _ _ _ V _ _ _ Hin) as [Hl|Hp]; auto.
        destruct (Nat.eqb_spec t' t) as [->|Hne]; auto. congruence.
      + inversion E; subst. rewrite Nat.eqb_refl. auto.
    - intros j Hin. rewrite inv_ids_app. apply in_or_app. left.
      apply (V_S1 _ _ _ _ _ _ _ V). exact Hin.
  Qed.

  (* response of a linearized call *)
  Lemma sinv_resp H1 H2 S1 S2 s P W i t r o :
    SInv H1 (EResp i t r :: H2) S1 S2 s P W ->
    In (i, o, r) S1 -> lookup t P = Some (Lined i r) ->
    SInv (H1 ++ [EResp i t r]) H2 S1 S2 s (pdel t P) (upd W t None).
  Proof.
    intros V HinS Hl. pose proof (V_wf _ _ _ _ _ _ _ V) as Hwf. simpl in Hwf.
    destruct Hwf as [HW Hwf]. pose proof (V_H _ _ _ _ _ _ _ V) as EH.
    constructor.
    - rewrite <- app_assoc. exact EH.
    - apply (V_S _ _ _ _ _ _ _ V).
    - apply (V_legal _ _ _ _ _ _ _ V).
    - exact Hwf.
    - intros x. unfold upd. rewrite lookup_pdel. destruct (Nat.eqb_spec x t) as [->|Hne]; auto.
      pose proof (V_P _ _ _ _ _ _ _ V x) as HPx. destruct (W x) as [i'|]; auto.
      destruct HPx as [HPx|[Hn [o' [Hin Hl']]]]; [left; exact HPx|].
      right. split; auto. exists o'. split; auto. apply in_or_app. auto.
    - intros j t' o' Hin. unfold upd. apply in_app_or in Hin. destruct Hin as [Hin|[E|[]]]; [|discriminate].
      destruct (V_pend _ _ _ _ _ _ _ V _ _ _ Hin) as [Hl'|Hp]; auto.
      destruct (Nat.eqb_spec t' t) as [->|Hne]; auto.
      left. rewrite HW in Hp. inversion Hp; subst. eapply in_ids; eauto.
    - intros j Hin. rewrite inv_ids_app. apply in_or_app. left.
      apply (V_S1 _ _ _ _ _ _ _ V). exact Hin.
  Qed.

  (* the head of the remaining sequential order is a pending call when the next event
     is the response of a call that is not linearized yet *)
  Lemma sinv_head_pending H1 H2 S1 S2 s P W i t r j oj rj :
    SInv H1 (EResp i t r :: H2) S1 ((j, oj, rj) :: S2) s P W ->
    ~ In i (ids S1) ->
    exists tj, In (EInv j tj oj) H1 /\ W tj = Some j /\ lookup tj P = Some (Called j oj).
  Proof.
    intros V Hni. pose proof (V_H _ _ _ _ _ _ _ V) as EH. pose proof (V_S _ _ _ _ _ _ _ V) as ES.
    assert (HjS0 : In (j, oj, rj) S0) by (rewrite ES; apply in_or_app; right; left; reflexivity).
    destruct (HS_inS _ _ _ HjS0) as [tj Hinv]. exists tj.
    assert (HnjS1 : ~ In j (ids S1)).
    { intros Hin. rewrite ES in HS_nodup. rewrite ids_app in HS_nodup. simpl in HS_nodup.
      apply NoDup_remove_2 in HS_nodup. apply HS_nodup. apply in_or_app. auto. }
    assert (HinH1 : In (EInv j tj oj) H1).
    { rewrite EH in Hinv. apply in_app_or in Hinv. destruct Hinv as [Hinv|[E|Hinv]]; auto; [discriminate|].
      exfalso. apply Hni.
      assert (Hb : before (is_resp i) (is_inv j) H0).
      { rewrite EH. eapply before_intro_app; [exists t, r; reflexivity|exact Hinv|exists tj, oj; reflexivity]. }
      apply HS_rt in Hb; [|eapply in_ids; eauto].
      rewrite ES in Hb. pose proof HS_nodup as N. rewrite ES in N.
      eapply before_head; [exact Hb|reflexivity|exact N]. }
    split; auto.
    destruct (V_pend _ _ _ _ _ _ _ V _ _ _ HinH1) as [Hl|HW]; [contradiction|].
    split; auto.
    pose proof (V_P _ _ _ _ _ _ _ V tj) as HPt. rewrite HW in HPt.
    destruct HPt as [[o [r' [Hin _]]]|[_ [o [Hin Hl]]]].
    - exfalso. apply HnjS1. eapply in_ids; eauto.
    - assert (Hin0 : In (EInv j tj o) H0) by (rewrite EH; apply in_or_app; auto).
      destruct (inv_unique _ Hnd _ _ _ _ _ Hin0 Hinv) as [_ ->]. exact Hl.
  Qed.

  (* linearization of the head of the remaining order *)
  Lemma sinv_point H1 H2 S1 S2 s P W j oj rj tj :
    SInv H1 H2 S1 ((j, oj, rj) :: S2) s P W ->
    In (EInv j tj oj) H1 -> W tj = Some j ->
    rj = snd (spec_step s oj) /\
    SInv H1 H2 (S1 ++ [(j, oj, rj)]) S2 (fst (spec_step s oj)) (pset tj (Lined j rj) P) W.
  Proof.
    intros V HinH1 HW. pose proof (V_legal _ _ _ _ _ _ _ V) as HL. simpl in HL.
    destruct HL as [Er HL]. split; auto.
    pose proof (V_H _ _ _ _ _ _ _ V) as EH.
    constructor.
    - exact EH.
    - rewrite <- app_assoc. apply (V_S _ _ _ _ _ _ _ V).
    - exact HL.
    - apply (V_wf _ _ _ _ _ _ _ V).
    - intros x. rewrite lookup_pset. destruct (Nat.eqb_spec x tj) as [->|Hne].
      + rewrite HW. left. exists oj, rj. split; auto. apply in_or_app. right. left. reflexivity.
      + pose proof (V_P _ _ _ _ _ _ _ V x) as HPx. destruct (W x) as [i'|]; auto.
        destruct HPx as [[o [r [Hin Hl]]]|[Hn [o' [Hin Hl]]]].
        * left. exists o, r. split; auto. apply in_or_app. auto.
        * right. split; [|eauto]. rewrite ids_app. simpl. intros Hin'.
          apply in_app_or in Hin'. destruct Hin' as [Hin'|[E|[]]]; [contradiction|].
          subst i'. apply Hne.
          assert (A : In (EInv j x o') H0) by (rewrite EH; apply in_or_app; auto).
          assert (B : In (EInv j tj oj) H0) by (rewrite EH; apply in_or_app; auto).
          destruct (inv_unique _ Hnd _ _ _ _ _ A B) as [-> _]. reflexivity.
    - intros k t' o' Hin. destruct (V_pend _ _ _ _ _ _ _ V _ _ _ Hin) as [Hl|Hp]; auto.
      left. rewrite ids_app. apply in_or_app. auto.
    - intros k Hin. rewrite ids_app in Hin. simpl in Hin. apply in_app_or in Hin.
      destruct Hin as [Hin|[E|[]]].
      + apply (V_S1 _ _ _ _ _ _ _ V). exact Hin.
      + subst k. apply in_inv_ids. eauto.
  Qed.

  (* a response event, by induction on the remaining sequential order *)
  Lemma sim_resp i t r H2 :
    (forall H1 S1 S2 s P W, SInv H1 H2 S1 S2 s P W -> srch s P H2) ->
    forall S2 H1 S1 s P W, SInv H1 (EResp i t r :: H2) S1 S2 s P W -> srch s P (EResp i t r :: H2).
  Proof.
    intros IH. induction S2 as [|[[j oj] rj] S2 IHS]; intros H1 S1 s P W V.
    - (* nothing left to linearize: the call is linearized *)
      pose proof (V_wf _ _ _ _ _ _ _ V) as Hwf. simpl in Hwf. destruct Hwf as [HW _].
      pose proof (V_H _ _ _ _ _ _ _ V) as EH. pose proof (V_S _ _ _ _ _ _ _ V) as ES.
      rewrite app_nil_r in ES.
      assert (HinH : In (EResp i t r) H0) by (rewrite EH; apply in_or_app; right; left; reflexivity).
      destruct (HS_resp _ _ _ HinH) as [o HinS].
      pose proof (V_P _ _ _ _ _ _ _ V t) as HPt. rewrite HW in HPt.
      destruct HPt as [[o' [r' [Hin Hl]]]|[Hn _]].
      + assert (Hin0 : In (i, o', r') S0) by (rewrite ES; exact Hin).
        destruct (ent_unique _ HS_nodup _ _ _ _ _ HinS Hin0) as [-> ->].
        apply srch_resp; auto. eapply IH. eapply sinv_resp; eauto.
      + exfalso. apply Hn. rewrite <- ES. eapply in_ids; eauto.
    - pose proof (V_wf _ _ _ _ _ _ _ V) as Hwf. simpl in Hwf. destruct Hwf as [HW _].
      pose proof (V_H _ _ _ _ _ _ _ V) as EH. pose proof (V_S _ _ _ _ _ _ _ V) as ES.
      assert (HinH : In (EResp i t r) H0) by (rewrite EH; apply in_or_app; right; left; reflexivity).
      destruct (HS_resp _ _ _ HinH) as [o HinS].
      pose proof (V_P _ _ _ _ _ _ _ V t) as HPt. rewrite HW in HPt.
      destruct HPt as [[o' [r' [Hin Hl]]]|[Hn [o' [Hin Hl]]]].
      + assert (Hin0 : In (i, o', r') S0) by (rewrite ES; apply in_or_app; auto).
        destruct (ent_unique _ HS_nodup _ _ _ _ _ HinS Hin0) as [-> ->].
        apply srch_resp; auto. eapply IH. eapply sinv_resp; eauto.
      + destruct (sinv_head_pending _ _ _ _ _ _ _ _ _ _ _ _ _ V Hn) as [tj [HinH1 [HWj Hlj]]].
        destruct (sinv_point _ _ _ _ _ _ _ _ _ _ _ V HinH1 HWj) as [Er V'].
        eapply srch_point; [exact Hl|exact Hlj| |].
        * intros ->. rewrite HW in HWj. inversion HWj; subst j.
          assert (Hin0 : In (i, oj, rj) S0) by (rewrite ES; apply in_or_app; right; left; reflexivity).
          destruct (ent_unique _ HS_nodup _ _ _ _ _ HinS Hin0) as [_ ->]. exact Er.
        * rewrite <- Er. eapply IHS. exact V'.
  Qed.

  Lemma sim : forall H2 H1 S1 S2 s P W, SInv H1 H2 S1 S2 s P W -> srch s P H2.
  Proof.
    induction H2 as [|[i t o|i t r] H2 IH]; intros H1 S1 S2 s P W V.
    - apply srch_nil.
    - destruct (sinv_inv _ _ _ _ _ _ _ _ _ _ V) as [Hl V'].
      apply srch_inv; auto. eapply IH. exact V'.
    - eapply sim_resp; eauto.
  Qed.
End Sim.

Lemma linearizable_srch s0 H : wf_hist H -> linearizable s0 H -> srch s0 [] H.
Proof.
  intros [Hnd Hwf] [S0 [HL [HN [HR [HI HT]]]]].
  apply (sim H S0 HN HR HI HT Hnd H [] [] S0 s0 [] (fun _ => None)).
  constructor; simpl; auto.
Qed.
