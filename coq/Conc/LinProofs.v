(* C18 - proofs, part 1: the atomic reference machine [am] (operations take effect at
   one instant between invocation and response), every history it produces is
   linearizable in the classical sense, and the checker only accepts such histories. *)
From Coq Require Import List ZArith Bool Arith Lia.
From MV Require Import Conc.SetSpec Conc.Concurrent Conc.LinCheck.
Import ListNotations.

(* ---- before ---- *)
Lemma before_app_l {A} (P Q : A -> Prop) l m : before P Q l -> before P Q (l ++ m).
Proof.
  induction 1; simpl.
  - apply before_here; auto. apply Exists_app; auto.
  - apply before_later; auto.
Qed.

Lemma before_snoc_inv {A} (P Q : A -> Prop) l z :
  before P Q (l ++ [z]) -> before P Q l \/ ((exists x, In x l /\ P x) /\ Q z).
Proof.
  induction l as [|a l IH]; simpl; intros Hb.
  - inversion Hb as [x l' HP HE|x l' Hb']; subst.
    + inversion HE.
    + inversion Hb'.
  - inversion Hb as [x l' HP HE|x l' Hb']; subst.
    + apply Exists_app in HE. destruct HE as [HE|HE].
      * left. apply before_here; auto.
      * right. split; [exists a; auto|]. inversion HE as [? ? HQ|? ? HQ]; subst; auto. inversion HQ.
    + destruct (IH Hb') as [Hl|[[x [Hin HP]] HQ]].
      * left. apply before_later; auto.
      * right. split; auto. exists x; auto.
Qed.

Lemma before_snoc_intro {A} (P Q : A -> Prop) l x z :
  In x l -> P x -> Q z -> before P Q (l ++ [z]).
Proof.
  induction l as [|a l IH]; simpl; intros Hin HP HQ; [contradiction|].
  destruct Hin as [->|Hin].
  - apply before_here; auto. apply Exists_app. right. constructor. exact HQ.
  - apply before_later; auto.
Qed.

(* ---- small list facts ---- *)
Lemma inv_ids_app H1 H2 : inv_ids (H1 ++ H2) = inv_ids H1 ++ inv_ids H2.
Proof. induction H1 as [|[i t o|i t r] H1 IH]; simpl; auto. rewrite IH; auto. Qed.

Lemma in_inv_ids i H : In i (inv_ids H) <-> exists t o, In (EInv i t o) H.
Proof.
  induction H as [|[j t o|j t r] H IH]; simpl.
  - split; [contradiction|]. intros [t [o []]].
  - split.
    + intros [->|Hin]; [exists t, o; auto|]. apply IH in Hin. destruct Hin as [t' [o' Hin]]. exists t', o'; auto.
    + intros [t' [o' [E|Hin]]]; [inversion E; auto|]. right. apply IH. exists t', o'; auto.
  - rewrite IH. split; intros [t' [o' Hin]]; exists t', o'; auto.
    destruct Hin as [E|Hin]; [discriminate|auto].
Qed.

Lemma ids_app S1 S2 : ids (S1 ++ S2) = ids S1 ++ ids S2.
Proof. apply map_app. Qed.

Lemma in_ids i o r S : In (i, o, r) S -> In i (ids S).
Proof. intros Hin. unfold ids. apply in_map_iff. exists (i, o, r); auto. Qed.

Lemma NoDup_snoc {A} (l : list A) x : NoDup l -> ~ In x l -> NoDup (l ++ [x]).
Proof.
  induction l as [|a l IH]; simpl; intros Hnd Hx.
  - repeat constructor; auto.
  - inversion Hnd; subst. constructor.
    + intros Hin. apply in_app_or in Hin. destruct Hin as [Hin|[E|[]]]; auto.
    + apply IH; auto.
Qed.

(* the state reached by a sequential order *)
Definition final (s : sstate) (S : list lentry) : sstate :=
  fold_left (fun s e => fst (spec_step s (snd (fst e)))) S s.

Lemma final_snoc s S e : final s (S ++ [e]) = fst (spec_step (final s S) (snd (fst e))).
Proof. unfold final. rewrite fold_left_app. reflexivity. Qed.

Lemma seq_legal_snoc s S i o :
  seq_legal s S -> seq_legal s (S ++ [(i, o, snd (spec_step (final s S) o))]).
Proof.
  revert s. induction S as [|[[i' o'] r'] S IH]; intros s; simpl.
  - auto.
  - intros [E L]. split; auto.
Qed.

(* ---- the atomic reference machine ---- *)
Definition pfun := nat -> option pend.
Definition pid (p : pend) : nat := match p with Called i _ => i | Lined i _ => i end.

Inductive am (s0 : sstate) : sstate -> pfun -> list event -> list lentry -> Prop :=
| am_init P : (forall t, P t = None) -> am s0 s0 P [] []
| am_inv s P H S t i o P' :
    am s0 s P H S -> P t = None -> ~ In i (inv_ids H) ->
    (forall x, P' x = if Nat.eqb x t then Some (Called i o) else P x) ->
    am s0 s P' (H ++ [EInv i t o]) S
| am_point s P H S t i o P' :
    am s0 s P H S -> P t = Some (Called i o) ->
    (forall x, P' x = if Nat.eqb x t then Some (Lined i (snd (spec_step s o))) else P x) ->
    am s0 (fst (spec_step s o)) P' H (S ++ [(i, o, snd (spec_step s o))])
| am_resp s P H S t i r P' :
    am s0 s P H S -> P t = Some (Lined i r) ->
    (forall x, P' x = if Nat.eqb x t then None else P x) ->
    am s0 s P' (H ++ [EResp i t r]) S
| am_ext s P H S P' :
    am s0 s P H S -> (forall x, P' x = P x) -> am s0 s P' H S.

Record amI (s0 s : sstate) (P : pfun) (H : list event) (S : list lentry) : Prop := {
  I_legal : seq_legal s0 S;
  I_final : final s0 S = s;
  I_nodup : NoDup (ids S);
  I_resp : forall i t r, In (EResp i t r) H -> exists o, In (i, o, r) S;
  I_inS : forall i o r, In (i, o, r) S -> exists t, In (EInv i t o) H;
  I_called : forall t i o, P t = Some (Called i o) -> In (EInv i t o) H /\ ~ In i (ids S);
  I_lined : forall t i r, P t = Some (Lined i r) -> exists o, In (i, o, r) S;
  I_uniq : forall t t' p p', P t = Some p -> P t' = Some p' -> pid p = pid p' -> t = t';
  I_rt : forall i j, before (is_resp i) (is_inv j) H -> In j (ids S) ->
                     before (has_id i) (has_id j) S;
  I_hnodup : NoDup (inv_ids H)
}.

Lemma pid_in s0 s P H S t p : amI s0 s P H S -> P t = Some p -> In (pid p) (inv_ids H).
Proof.
  intros I HP. destruct p as [i o|i r]; simpl.
  - apply in_inv_ids. exists t, o. apply (I_called _ _ _ _ _ I); auto.
  - destruct (I_lined _ _ _ _ _ I _ _ _ HP) as [o Hin].
    destruct (I_inS _ _ _ _ _ I _ _ _ Hin) as [t' Hin']. apply in_inv_ids. exists t', o; auto.
Qed.

Lemma am_amI s0 s P H S : am s0 s P H S -> amI s0 s P H S.
Proof.
  induction 1 as [P HP | s P H S t i o P' _ I HPt Hfresh HP'
                  | s P H S t i o P' _ I HPt HP' | s P H S t i r P' _ I HPt HP'
                  | s P H S P' _ I HP'].
  - (* init *)
    constructor; simpl; auto.
    + constructor.
    + intros i t r [].
    + intros i o r [].
    + intros t i o E. rewrite HP in E. discriminate.
    + intros t i r E. rewrite HP in E. discriminate.
    + intros t t' p p' E. rewrite HP in E. discriminate.
    + intros i j Hb. inversion Hb.
    + constructor.
  - (* invocation *)
    constructor.
    + apply (I_legal _ _ _ _ _ I).
    + apply (I_final _ _ _ _ _ I).
    + apply (I_nodup _ _ _ _ _ I).
    + intros i' t' r Hin. apply in_app_or in Hin. destruct Hin as [Hin|[E|[]]]; [|discriminate].
      apply (I_resp _ _ _ _ _ I) in Hin. exact Hin.
    + intros i' o' r Hin. destruct (I_inS _ _ _ _ _ I _ _ _ Hin) as [t' Hin'].
      exists t'. apply in_or_app; auto.
    + intros x i' o' E. rewrite HP' in E. destruct (Nat.eqb_spec x t) as [->|Hne].
      * inversion E; subst. split; [apply in_or_app; right; left; auto|].
        intros Hin. apply Hfresh. unfold ids in Hin. apply in_map_iff in Hin.
        destruct Hin as [[[i2 o2] r2] [E2 Hin]]. simpl in E2. subst i2.
        destruct (I_inS _ _ _ _ _ I _ _ _ Hin) as [t2 Hin2]. apply in_inv_ids. exists t2, o2; auto.
      * destruct (I_called _ _ _ _ _ I _ _ _ E) as [A B]. split; auto. apply in_or_app; auto.
    + intros x i' r E. rewrite HP' in E. destruct (Nat.eqb_spec x t) as [->|Hne]; [discriminate|].
      apply (I_lined _ _ _ _ _ I _ _ _ E).
    + intros x x' p p' E E' Hid. rewrite HP' in E, E'.
      destruct (Nat.eqb_spec x t) as [->|Hne]; destruct (Nat.eqb_spec x' t) as [->|Hne']; auto.
      * inversion E; subst p. simpl in Hid. exfalso. apply Hfresh. rewrite Hid.
        apply (pid_in _ _ _ _ _ _ _ I E').
      * inversion E'; subst p'. simpl in Hid. exfalso. apply Hfresh. rewrite <- Hid.
        apply (pid_in _ _ _ _ _ _ _ I E).
      * apply (I_uniq _ _ _ _ _ I _ _ _ _ E E' Hid).
    + intros i' j Hb Hj. apply before_snoc_inv in Hb. destruct Hb as [Hb|[_ [t' [o' E]]]].
      * apply (I_rt _ _ _ _ _ I); auto.
      * inversion E; subst. exfalso. apply Hfresh.
        unfold ids in Hj. apply in_map_iff in Hj. destruct Hj as [[[i2 o2] r2] [E2 Hin]].
        simpl in E2. subst i2. destruct (I_inS _ _ _ _ _ I _ _ _ Hin) as [t2 Hin2].
        apply in_inv_ids. exists t2, o2; auto.
    + rewrite inv_ids_app. simpl. apply NoDup_snoc; auto. apply (I_hnodup _ _ _ _ _ I).
  - (* linearization point *)
    destruct (I_called _ _ _ _ _ I _ _ _ HPt) as [HinH HnotS].
    constructor.
    + rewrite <- (I_final _ _ _ _ _ I). apply seq_legal_snoc. apply (I_legal _ _ _ _ _ I).
    + rewrite final_snoc. simpl. rewrite (I_final _ _ _ _ _ I). reflexivity.
    + rewrite ids_app. simpl. apply NoDup_snoc; auto. apply (I_nodup _ _ _ _ _ I).
    + intros i' t' r Hin. destruct (I_resp _ _ _ _ _ I _ _ _ Hin) as [o' Hin'].
      exists o'. apply in_or_app; auto.
    + intros i' o' r Hin. apply in_app_or in Hin. destruct Hin as [Hin|[E|[]]].
      * apply (I_inS _ _ _ _ _ I _ _ _ Hin).
      * inversion E; subst. exists t; auto.
    + intros x i' o' E. rewrite HP' in E. destruct (Nat.eqb_spec x t) as [->|Hne]; [discriminate|].
      destruct (I_called _ _ _ _ _ I _ _ _ E) as [A B]. split; auto.
      rewrite ids_app. simpl. intros Hin. apply in_app_or in Hin. destruct Hin as [Hin|[E2|[]]]; auto.
      apply Hne. apply (I_uniq _ _ _ _ _ I _ _ _ _ E HPt). simpl. auto.
    + intros x i' r E. rewrite HP' in E. destruct (Nat.eqb_spec x t) as [->|Hne].
      * inversion E; subst. exists o. apply in_or_app. right. left. reflexivity.
      * destruct (I_lined _ _ _ _ _ I _ _ _ E) as [o' Hin]. exists o'. apply in_or_app; auto.
    + intros x x' p p' E E' Hid. rewrite HP' in E, E'.
      destruct (Nat.eqb_spec x t) as [->|Hne]; destruct (Nat.eqb_spec x' t) as [->|Hne']; auto.
      * inversion E; subst p. symmetry. apply (I_uniq _ _ _ _ _ I _ _ _ _ E' HPt). simpl in *. auto.
      * inversion E'; subst p'. apply (I_uniq _ _ _ _ _ I _ _ _ _ E HPt). simpl in *. auto.
      * apply (I_uniq _ _ _ _ _ I _ _ _ _ E E' Hid).
    + intros i' j Hb Hj. rewrite ids_app in Hj. simpl in Hj. apply in_app_or in Hj.
      destruct Hj as [Hj|[E|[]]].
      * apply before_app_l. apply (I_rt _ _ _ _ _ I); auto.
      * subst j.
        (* i' has returned, hence is already in S *)
        assert (Hr : exists t' r', In (EResp i' t' r') H).
        { clear - Hb. induction Hb as [x l [t' [r' E]] _|x l _ IH].
          - exists t', r'. left; auto.
          - destruct IH as [t' [r' Hin]]. exists t', r'. right; auto. }
        destruct Hr as [t' [r' Hr]]. destruct (I_resp _ _ _ _ _ I _ _ _ Hr) as [o' Hin].
        apply before_snoc_intro with (x := (i', o', r')); auto; reflexivity.
    + apply (I_hnodup _ _ _ _ _ I).
  - (* response *)
    constructor.
    + apply (I_legal _ _ _ _ _ I).
    + apply (I_final _ _ _ _ _ I).
    + apply (I_nodup _ _ _ _ _ I).
    + intros i' t' r' Hin. apply in_app_or in Hin. destruct Hin as [Hin|[E|[]]].
      * apply (I_resp _ _ _ _ _ I _ _ _ Hin).
      * inversion E; subst. apply (I_lined _ _ _ _ _ I _ _ _ HPt).
    + intros i' o' r' Hin. destruct (I_inS _ _ _ _ _ I _ _ _ Hin) as [t' Hin'].
      exists t'. apply in_or_app; auto.
    + intros x i' o' E. rewrite HP' in E. destruct (Nat.eqb_spec x t) as [->|Hne]; [discriminate|].
      destruct (I_called _ _ _ _ _ I _ _ _ E) as [A B]. split; auto. apply in_or_app; auto.
    + intros x i' r' E. rewrite HP' in E. destruct (Nat.eqb_spec x t) as [->|Hne]; [discriminate|].
      apply (I_lined _ _ _ _ _ I _ _ _ E).
    + intros x x' p p' E E' Hid. rewrite HP' in E, E'.
      destruct (Nat.eqb_spec x t) as [->|Hne]; [discriminate|].
      destruct (Nat.eqb_spec x' t) as [->|Hne']; [discriminate|].
      apply (I_uniq _ _ _ _ _ I _ _ _ _ E E' Hid).
    + intros i' j Hb Hj. apply before_snoc_inv in Hb. destruct Hb as [Hb|[_ [t' [o' E]]]].
      * apply (I_rt _ _ _ _ _ I); auto.
      * discriminate.
    + rewrite inv_ids_app. simpl. rewrite app_nil_r. apply (I_hnodup _ _ _ _ _ I).
  - (* same pending map, pointwise *)
    constructor; try apply I.
    + intros t i o E. rewrite HP' in E. apply (I_called _ _ _ _ _ I _ _ _ E).
    + intros t i r E. rewrite HP' in E. apply (I_lined _ _ _ _ _ I _ _ _ E).
    + intros t t' p p' E E'. rewrite HP' in E, E'. apply (I_uniq _ _ _ _ _ I _ _ _ _ E E').
Qed.

Lemma am_linearizable s0 s P H S : am s0 s P H S -> linearizable s0 H.
Proof.
  intros Ham. apply am_amI in Ham. exists S.
  split; [apply Ham|]. split; [apply Ham|]. split; [apply Ham|]. split; [apply Ham|apply Ham].
Qed.

(* ---- soundness of the checker ---- *)
Lemma lookup_pdel x t P : lookup x (pdel t P) = if Nat.eqb x t then None else lookup x P.
Proof.
  induction P as [|[t' p] P IH]; simpl.
  - destruct (Nat.eqb x t); auto.
  - destruct (Nat.eqb_spec t t') as [<-|Hne]; simpl.
    + rewrite IH. destruct (Nat.eqb_spec x t); auto.
    + rewrite IH. destruct (Nat.eqb_spec x t') as [->|Hne2].
      * destruct (Nat.eqb_spec t' t); [congruence|auto].
      * auto.
Qed.

Lemma lookup_pset x t p P : lookup x (pset t p P) = if Nat.eqb x t then Some p else lookup x P.
Proof.
  induction P as [|[t' p'] P IH]; simpl.
  - destruct (Nat.eqb x t); reflexivity.
  - destruct (Nat.eqb_spec t t') as [<-|Hne]; simpl.
    + destruct (Nat.eqb x t); reflexivity.
    + destruct (Nat.ltb t t'); simpl.
      * destruct (Nat.eqb_spec x t); reflexivity.
      * rewrite IH. destruct (Nat.eqb_spec x t') as [->|]; auto.
        destruct (Nat.eqb_spec t' t); [congruence|reflexivity].
Qed.

Lemma try_list_true att : forall cands cache,
  fst (try_list att cands cache) = true -> exists kv c, In kv cands /\ fst (att kv c) = true.
Proof.
  induction cands as [|kv rest IH]; simpl; intros cache Ht; [discriminate|].
  destruct (att kv cache) as [b c'] eqn:E. destruct b.
  - exists kv, cache. rewrite E. auto.
  - destruct (IH _ Ht) as [kv' [c [Hin Hok]]]. exists kv', c. auto.
Qed.

Lemma nodupb_sound l : nodupb l = true -> NoDup l.
Proof.
  induction l as [|x l IH]; simpl; intros Hb; [constructor|].
  apply andb_prop in Hb. destruct Hb as [Hx Hl]. constructor; auto.
  intros Hin. apply negb_true_iff in Hx.
  assert (existsb (Nat.eqb x) l = true) by (apply existsb_exists; exists x; split; auto; apply Nat.eqb_refl).
  congruence.
Qed.

Lemma chk_sound s0 fuel : forall s P H2 cache H1 S,
  fst (chk fuel s P H2 cache) = true ->
  am s0 s (fun t => lookup t P) H1 S ->
  NoDup (inv_ids (H1 ++ H2)) ->
  exists s' P' S', am s0 s' P' (H1 ++ H2) S'.
Proof.
  induction fuel as [|f IH]; intros s P H2 cache H1 S Hc Ham Hnd; [discriminate|].
  destruct H2 as [|[i t o|i t r] H2]; simpl in Hc.
  - rewrite app_nil_r. eauto.
  - destruct (lookup t P) eqn:Hl; [discriminate|].
    replace (H1 ++ EInv i t o :: H2) with ((H1 ++ [EInv i t o]) ++ H2) in *
      by (rewrite <- app_assoc; reflexivity).
    apply (IH _ _ _ _ _ S Hc); auto.
    apply am_inv with (P := fun t => lookup t P); auto.
    + rewrite <- app_assoc in Hnd. simpl in Hnd. rewrite inv_ids_app in Hnd. simpl in Hnd.
      apply NoDup_remove_2 in Hnd. intros Hin. apply Hnd. apply in_or_app; auto.
    + intros x. apply lookup_pset.
  - destruct (lookup t P) as [[i' o'|i' r']|] eqn:Hl; [| |discriminate].
    + destruct (in_cache _ cache); [discriminate|].
      match type of Hc with context [try_list ?att P cache] =>
        destruct (try_list att P cache) as [b c'] eqn:Et;
        pose proof (try_list_true att P cache) as Htl end.
      rewrite Et in Htl. simpl in Htl. destruct b; [|discriminate].
      destruct (Htl eq_refl) as [kv [c [_ Hok]]]. clear Htl Et Hc.
      destruct (lookup (fst kv) P) as [[i2 o2|i2 r2]|] eqn:Hl2; try discriminate.
      destruct (Nat.eqb (fst kv) t && negb (if res_eq_dec r (snd (spec_step s o2)) then true else false));
        [discriminate|].
      apply (IH _ _ _ _ H1 (S ++ [(i2, o2, snd (spec_step s o2))]) Hok); auto.
      apply am_point with (P := fun t => lookup t P) (t := fst kv); auto.
      intros x. apply lookup_pset.
    + destruct (Nat.eqb_spec i i') as [<-|]; [|discriminate].
      destruct (res_eq_dec r r') as [<-|]; [|discriminate].
      replace (H1 ++ EResp i t r :: H2) with ((H1 ++ [EResp i t r]) ++ H2) in *
        by (rewrite <- app_assoc; reflexivity).
      apply (IH _ _ _ _ _ S Hc); auto.
      apply am_resp with (P := fun t => lookup t P); auto.
      intros x. apply lookup_pdel.
Qed.

Lemma lin_check_sound_lemma s0 H : lin_check s0 H = true -> linearizable s0 H.
Proof.
  unfold lin_check. intros Hb. apply andb_prop in Hb. destruct Hb as [Hn Hc].
  apply nodupb_sound in Hn.
  destruct (chk_sound s0 _ _ _ _ _ [] [] Hc) as [s' [P' [S' Ham]]]; simpl; auto.
  - apply am_init. reflexivity.
  - simpl in Ham. eapply am_linearizable; eauto.
Qed.
