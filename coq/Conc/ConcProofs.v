(* C18 - proofs, part 2: under a good lock discipline the concurrent model keeps
   mutual exclusion, never sets [raced], and refines the atomic reference machine
   (linearization point = the [end base] step), hence every history is linearizable. *)
From Coq Require Import String List ZArith Bool Arith Lia.
From MV Require Import Conc.LockKinds Conc.LockTable Conc.SetSpec Conc.Concurrent
  Conc.LinCheck Conc.LinProofs.
Import ListNotations.

Lemma nonmut_state s o : mutating o = false -> fst (spec_step s o) = s.
Proof. destruct o; simpl; intros; try discriminate; reflexivity. Qed.

(* what the proofs need from the lock table *)
Definition good_disc (d : disc) : Prop :=
  forall o, snd (d o) = fst (d o) /\ fst (d o) <> LNone /\ (mutating o = true -> fst (d o) = LWrite).

(* the lock a thread holds, by its program counter *)
Definition cs_kind (d : disc) (p : pc) : lockkind :=
  match p with
  | Locked _ o | InBase _ o _ | Done _ o _ => fst (d o)
  | _ => LNone
  end.

(* pending-call view of the threads *)
Definition absP (st : state) : pfun := fun t =>
  match pcs st t with
  | Idle => None
  | Invoked i o | Locked i o | InBase i o _ => Some (Called i o)
  | Done i _ r => Some (Lined i r)
  end.

Record cinv (d : disc) (s0 : sstate) (st : state) : Prop := {
  C_w : forall t, lockw st = Some t <-> cs_kind d (pcs st t) = LWrite;
  C_r : forall t, In t (lockr st) <-> cs_kind d (pcs st t) = LRead;
  C_wr : lockw st <> None -> lockr st = [];
  C_snap : forall t i o snap, pcs st t = InBase i o snap -> snap = shared st;
  C_race : raced st = false;
  C_ids : forall i, In i (inv_ids (hist st)) -> (i < length (hist st))%nat;
  C_am : am s0 (shared st) (absP st) (hist st) (lin st)
}.

Lemma cinv_init d n pr s0 : cinv d s0 (init n pr s0).
Proof.
  constructor; simpl; auto.
  - intros t. split; discriminate.
  - intros t. split; [contradiction|discriminate].
  - intros; discriminate.
  - intros i [].
  - apply am_init. reflexivity.
Qed.

(* a writer excludes everybody else *)
Lemma excl d s0 st t t' :
  cinv d s0 st -> t <> t' -> cs_kind d (pcs st t) = LWrite -> cs_kind d (pcs st t') <> LNone -> False.
Proof.
  intros I Hne Hw Hk. apply (C_w _ _ _ I) in Hw.
  destruct (cs_kind d (pcs st t')) eqn:E; [congruence| |].
  - apply (C_r _ _ _ I) in E. rewrite (C_wr _ _ _ I) in E; [contradiction|congruence].
  - apply (C_w _ _ _ I) in E. congruence.
Qed.

Lemma cs_kind_upd d (f : nat -> pc) t p x :
  cs_kind d (upd f t p x) = if Nat.eqb x t then cs_kind d p else cs_kind d (f x).
Proof. unfold upd. destruct (Nat.eqb x t); reflexivity. Qed.

Lemma absP_ext_same st st' t :
  (forall x, pcs st' x = upd (pcs st) t (pcs st' t) x) ->
  absP st' t = absP st t -> forall x, absP st' x = absP st x.
Proof.
  intros Hp Ht x. unfold absP in *. rewrite (Hp x). unfold upd.
  destruct (Nat.eqb_spec x t) as [->|]; auto.
Qed.

Lemma step_inv d s0 st t st' :
  good_disc d -> cinv d s0 st -> step d st t = Some st' -> cinv d s0 st'.
Proof.
  intros G I Hs. unfold step in Hs.
  destruct (negb (Nat.ltb t (nthreads st))); [discriminate|].
  destruct (pcs st t) as [|i o|i o|i o snap|i o r] eqn:Hpc.
  - (* invoke *)
    destruct (progs st t) as [|o rest]; [discriminate|]. inversion Hs; subst st'; clear Hs.
    assert (Hk : forall x, cs_kind d (upd (pcs st) t (Invoked (length (hist st)) o) x) = cs_kind d (pcs st x)).
    { intros x. rewrite cs_kind_upd. destruct (Nat.eqb_spec x t) as [->|]; auto. rewrite Hpc. reflexivity. }
    constructor; simpl.
    + intros x. rewrite Hk. apply (C_w _ _ _ I).
    + intros x. rewrite Hk. apply (C_r _ _ _ I).
    + apply (C_wr _ _ _ I).
    + intros x i' o' sn. unfold upd. destruct (Nat.eqb_spec x t); [discriminate|]. apply (C_snap _ _ _ I).
    + apply (C_race _ _ _ I).
    + intros i'. rewrite inv_ids_app, app_length. simpl. intros Hin. apply in_app_or in Hin.
      destruct Hin as [Hin|[<-|[]]]; [apply (C_ids _ _ _ I) in Hin|]; lia.
    + apply am_inv with (P := absP st); [apply (C_am _ _ _ I)| | |].
      * unfold absP. rewrite Hpc. reflexivity.
      * intros Hin. apply (C_ids _ _ _ I) in Hin. lia.
      * intros x. unfold absP. simpl. unfold upd. destruct (Nat.eqb_spec x t); reflexivity.
  - (* acquire *)
    destruct (G o) as [Grel [Gnone Gmut]].
    unfold acquire in Hs. destruct (fst (d o)) eqn:Hk0; [congruence| |].
    + (* RLock *)
      destruct (lockw st) eqn:Hw; [discriminate|]. inversion Hs; subst st'; clear Hs.
      constructor; simpl.
      * intros x. rewrite cs_kind_upd. destruct (Nat.eqb_spec x t) as [->|].
        -- simpl. rewrite Hk0. split; discriminate.
        -- rewrite <- (C_w _ _ _ I). rewrite Hw. reflexivity.
      * intros x. rewrite cs_kind_upd. destruct (Nat.eqb_spec x t) as [->|Hne].
        -- simpl. rewrite Hk0. split; auto.
        -- rewrite <- (C_r _ _ _ I). split; [intros [E|Hin]; [congruence|auto]|auto].
      * congruence.
      * intros x i' o' sn. unfold upd. destruct (Nat.eqb_spec x t); [discriminate|]. apply (C_snap _ _ _ I).
      * apply (C_race _ _ _ I).
      * apply (C_ids _ _ _ I).
      * apply am_ext with (P := absP st); [apply (C_am _ _ _ I)|].
        intros x. unfold absP. simpl. unfold upd. destruct (Nat.eqb_spec x t) as [->|]; auto.
        rewrite Hpc. reflexivity.
    + (* Lock *)
      destruct (lockw st) eqn:Hw; [discriminate|]. destruct (lockr st) eqn:Hr; [|discriminate].
      inversion Hs; subst st'; clear Hs.
      constructor; simpl.
      * intros x. rewrite cs_kind_upd. destruct (Nat.eqb_spec x t) as [->|Hne].
        -- simpl. rewrite Hk0. split; auto.
        -- split; [congruence|]. intros E. apply (C_w _ _ _ I) in E. congruence.
      * intros x. rewrite cs_kind_upd. destruct (Nat.eqb_spec x t) as [->|Hne].
        -- simpl. rewrite Hk0. split; [contradiction|discriminate].
        -- rewrite <- (C_r _ _ _ I). rewrite Hr. reflexivity.
      * reflexivity.
      * intros x i' o' sn. unfold upd. destruct (Nat.eqb_spec x t); [discriminate|]. apply (C_snap _ _ _ I).
      * apply (C_race _ _ _ I).
      * apply (C_ids _ _ _ I).
      * apply am_ext with (P := absP st); [apply (C_am _ _ _ I)|].
        intros x. unfold absP. simpl. unfold upd. destruct (Nat.eqb_spec x t) as [->|]; auto.
        rewrite Hpc. reflexivity.
  - (* begin base *)
    inversion Hs; subst st'; clear Hs.
    assert (Hk : forall x, cs_kind d (upd (pcs st) t (InBase i o (shared st)) x) = cs_kind d (pcs st x)).
    { intros x. rewrite cs_kind_upd. destruct (Nat.eqb_spec x t) as [->|]; auto. rewrite Hpc. reflexivity. }
    destruct (G o) as [Grel [Gnone Gmut]].
    constructor; simpl.
    + intros x. rewrite Hk. apply (C_w _ _ _ I).
    + intros x. rewrite Hk. apply (C_r _ _ _ I).
    + apply (C_wr _ _ _ I).
    + intros x i' o' sn. unfold upd. destruct (Nat.eqb_spec x t).
      * intros E. inversion E. reflexivity.
      * apply (C_snap _ _ _ I).
    + rewrite (C_race _ _ _ I). simpl.
      destruct (conflict st t o) eqn:Hc; [|reflexivity]. exfalso.
      unfold conflict in Hc. apply existsb_exists in Hc. destruct Hc as [t' [_ Hc]].
      apply andb_prop in Hc. destruct Hc as [Hne Hc]. apply negb_true_iff in Hne.
      apply Nat.eqb_neq in Hne.
      unfold in_base_conflict in Hc. destruct (pcs st t') as [| | |i' o' sn|] eqn:Hpc'; try discriminate.
      destruct (G o') as [_ [Gnone' Gmut']].
      apply orb_prop in Hc. destruct Hc as [Hm|Hm].
      * apply (excl d s0 st t t' I); auto.
        -- rewrite Hpc. simpl. auto.
        -- rewrite Hpc'. simpl. auto.
      * apply (excl d s0 st t' t I); auto.
        -- rewrite Hpc'. simpl. auto.
        -- rewrite Hpc. simpl. auto.
    + apply (C_ids _ _ _ I).
    + apply am_ext with (P := absP st); [apply (C_am _ _ _ I)|].
      intros x. unfold absP. simpl. unfold upd. destruct (Nat.eqb_spec x t) as [->|]; auto.
      rewrite Hpc. reflexivity.
  - (* end base: the linearization point *)
    inversion Hs; subst st'; clear Hs.
    assert (Hsn : snap = shared st) by (apply (C_snap _ _ _ I _ _ _ _ Hpc)). subst snap.
    assert (Hk : forall x, cs_kind d (upd (pcs st) t (Done i o (snd (spec_step (shared st) o))) x)
                           = cs_kind d (pcs st x)).
    { intros x. rewrite cs_kind_upd. destruct (Nat.eqb_spec x t) as [->|]; auto. rewrite Hpc. reflexivity. }
    destruct (G o) as [Grel [Gnone Gmut]].
    assert (Hsh : (if mutating o then fst (spec_step (shared st) o) else shared st)
                  = fst (spec_step (shared st) o)).
    { destruct (mutating o) eqn:Hm; auto. symmetry. apply nonmut_state; auto. }
    constructor; simpl.
    + intros x. rewrite Hk. apply (C_w _ _ _ I).
    + intros x. rewrite Hk. apply (C_r _ _ _ I).
    + apply (C_wr _ _ _ I).
    + intros x i' o' sn. unfold upd. destruct (Nat.eqb_spec x t) as [->|Hne]; [discriminate|].
      intros Hpx. rewrite (C_snap _ _ _ I _ _ _ _ Hpx).
      destruct (mutating o) eqn:Hm; auto. exfalso.
      apply (excl d s0 st t x I); auto.
      * rewrite Hpc. simpl. auto.
      * rewrite Hpx. simpl. destruct (G o') as [_ [Gn _]]. auto.
    + apply (C_race _ _ _ I).
    + apply (C_ids _ _ _ I).
    + rewrite Hsh.
      apply am_point with (P := absP st) (t := t); [apply (C_am _ _ _ I)| |].
      * unfold absP. rewrite Hpc. reflexivity.
      * intros x. unfold absP. simpl. unfold upd. destruct (Nat.eqb_spec x t); reflexivity.
  - (* release + respond *)
    destruct (G o) as [Grel [Gnone Gmut]].
    assert (Hkt : cs_kind d (pcs st t) = fst (d o)) by (rewrite Hpc; reflexivity).
    unfold release in Hs. rewrite Grel in Hs. destruct (fst (d o)) eqn:Hk0; [congruence| |].
    + (* RUnlock *)
      inversion Hs; subst st'; clear Hs.
      assert (Hin : In t (lockr st)) by (apply (C_r _ _ _ I); auto).
      constructor; simpl.
      * intros x. rewrite cs_kind_upd. destruct (Nat.eqb_spec x t) as [->|Hne].
        -- simpl. split; [|discriminate]. intros E. apply (C_w _ _ _ I) in E. congruence.
        -- apply (C_w _ _ _ I).
      * intros x. rewrite cs_kind_upd. destruct (Nat.eqb_spec x t) as [->|Hne].
        -- simpl. split; [|discriminate]. intros E. apply remove_In in E. contradiction.
        -- rewrite <- (C_r _ _ _ I). split.
           ++ intros E. apply in_remove in E. tauto.
           ++ intros E. apply in_in_remove; auto.
      * intros Hw. rewrite (C_wr _ _ _ I Hw). reflexivity.
      * intros x i' o' sn. unfold upd. destruct (Nat.eqb_spec x t); [discriminate|]. apply (C_snap _ _ _ I).
      * apply (C_race _ _ _ I).
      * intros i'. rewrite inv_ids_app, app_length. simpl. rewrite app_nil_r.
        intros Hi. apply (C_ids _ _ _ I) in Hi. lia.
      * apply am_resp with (P := absP st) (t := t); [apply (C_am _ _ _ I)| |].
        -- unfold absP. rewrite Hpc. reflexivity.
        -- intros x. unfold absP. simpl. unfold upd. destruct (Nat.eqb_spec x t); reflexivity.
    + (* Unlock *)
      inversion Hs; subst st'; clear Hs.
      assert (Hw : lockw st = Some t) by (apply (C_w _ _ _ I); auto).
      assert (Hr : lockr st = []) by (apply (C_wr _ _ _ I); congruence).
      constructor; simpl.
      * intros x. rewrite cs_kind_upd. destruct (Nat.eqb_spec x t) as [->|Hne].
        -- simpl. split; discriminate.
        -- split; [discriminate|]. intros E. apply (C_w _ _ _ I) in E. congruence.
      * intros x. rewrite cs_kind_upd. destruct (Nat.eqb_spec x t) as [->|Hne].
        -- simpl. rewrite Hr. split; [contradiction|discriminate].
        -- apply (C_r _ _ _ I).
      * congruence.
      * intros x i' o' sn. unfold upd. destruct (Nat.eqb_spec x t); [discriminate|]. apply (C_snap _ _ _ I).
      * apply (C_race _ _ _ I).
      * intros i'. rewrite inv_ids_app, app_length. simpl. rewrite app_nil_r.
        intros Hi. apply (C_ids _ _ _ I) in Hi. lia.
      * apply am_resp with (P := absP st) (t := t); [apply (C_am _ _ _ I)| |].
        -- unfold absP. rewrite Hpc. reflexivity.
        -- intros x. unfold absP. simpl. unfold upd. destruct (Nat.eqb_spec x t); reflexivity.
Qed.

Lemma reachable_cinv d n pr s0 st :
  good_disc d -> reachable d n pr s0 st -> cinv d s0 st.
Proof.
  intros G. induction 1 as [|st t st' _ IH Hs].
  - apply cinv_init.
  - apply (step_inv d s0 st t st' G IH Hs).
Qed.

(* ---- the discipline read from factstore.go is good ---- *)
Lemma real_disc_good : good_disc real_disc.
Proof.
  intros o. destruct o; vm_compute; repeat split; congruence.
Qed.

(* ---- consequences, for a good discipline ---- *)
Lemma in_cs_kind d p : good_disc d -> in_cs p = true -> cs_kind d p <> LNone.
Proof.
  intros G. destruct p as [|i o|i o|i o sn|i o r]; simpl; try discriminate; intros _;
    destruct (G o) as [_ [Gn _]]; auto.
Qed.

Lemma mutual_exclusion_lemma d n pr s0 st t t' o :
  good_disc d -> reachable d n pr s0 st -> t <> t' ->
  in_cs (pcs st t) = true -> pc_op (pcs st t) = Some o -> mutating o = true ->
  in_cs (pcs st t') = false.
Proof.
  intros G R Hne Hcs Hop Hm. apply (reachable_cinv d n pr s0 st G) in R.
  destruct (in_cs (pcs st t')) eqn:Hcs'; auto. exfalso.
  apply (excl d s0 st t t' R Hne).
  - destruct (pcs st t) as [|i o1|i o1|i o1 sn|i o1 r]; simpl in *; try discriminate;
      inversion Hop; subst; destruct (G o) as [_ [_ Gm]]; auto.
  - apply in_cs_kind; auto.
Qed.

Lemma no_race_lemma d n pr s0 st : good_disc d -> reachable d n pr s0 st -> raced st = false.
Proof. intros G R. apply (C_race d s0 st). apply (reachable_cinv d n pr s0 st G R). Qed.

Lemma linearizable_lemma d n pr s0 st :
  good_disc d -> reachable d n pr s0 st -> linearizable s0 (hist st).
Proof.
  intros G R. apply (reachable_cinv d n pr s0 st G) in R.
  eapply am_linearizable. apply (C_am _ _ _ R).
Qed.

Lemma hist_ids_nodup d n pr s0 st :
  good_disc d -> reachable d n pr s0 st -> NoDup (inv_ids (hist st)).
Proof.
  intros G R. apply (reachable_cinv d n pr s0 st G) in R.
  apply (I_hnodup _ _ _ _ _ (am_amI _ _ _ _ _ (C_am _ _ _ R))).
Qed.

(* every method releases what it takes: when all threads are done the mutex is free *)
Lemma lock_free_at_end d n pr s0 st :
  good_disc d -> reachable d n pr s0 st -> (forall t, pcs st t = Idle) ->
  lockw st = None /\ lockr st = [].
Proof.
  intros G R Hidle. apply (reachable_cinv d n pr s0 st G) in R. split.
  - destruct (lockw st) as [t|] eqn:E; auto. apply (C_w _ _ _ R) in E. rewrite Hidle in E. discriminate.
  - destruct (lockr st) as [|t l] eqn:E; auto.
    assert (Hin : In t (lockr st)) by (rewrite E; left; auto).
    apply (C_r _ _ _ R) in Hin. rewrite Hidle in Hin. discriminate.
Qed.

Lemma run_reachable d n pr s0 sched : forall st,
  reachable d n pr s0 st -> reachable d n pr s0 (run d st sched).
Proof.
  induction sched as [|t sched IH]; simpl; intros st R; auto.
  destruct (step d st t) eqn:E; auto. apply IH. eapply reach_step; eauto.
Qed.
