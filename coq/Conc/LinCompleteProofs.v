(* C18 - completeness of the executable linearizability checker [lin_check].
   Part A: the memoised deterministic search [chk], with the fuel [lin_check] gives it,
           succeeds whenever the non-deterministic search [srch] (LinCompleteDefs.v) does;
           invariant of the memo table: a cached position has no successful continuation
           ([cache_ok], [chk_spec]); the fuel suffices on every explored branch.
   Part B: a linearizable, thread-wise well-formed history has a successful run of [srch]
           (simulation along a given sequential order, linearization points taken lazily).
   Part C: the checker accepts only well-formed histories; the corollaries. *)
From Coq Require Import List ZArith Bool Arith Lia.
From MV Require Import Conc.SetSpec Conc.Concurrent Conc.LinCheck Conc.LinProofs Conc.LinCompleteDefs.
Import ListNotations.

(* ================= part A ================= *)
Local Open Scope nat_scope.

(* ---- small facts ---- *)

Lemma suffix_uniq {A} : forall (a b X Y : list A),
  a ++ X = b ++ Y -> length X = length Y -> X = Y.
Proof.
  induction a as [|x a IH]; destruct b as [|y b]; simpl; intros X Y He Hl.
  - exact He.
  - subst X. simpl in Hl. rewrite app_length in Hl. lia.
  - subst Y. simpl in Hl. rewrite app_length in Hl. lia.
  - injection He as _ He. eapply IH; eauto.
Qed.

Lemma in_cache_In k c : in_cache k c = true -> In k c.
Proof.
  unfold in_cache. intros Hb. apply existsb_exists in Hb. destruct Hb as [x [Hin Hx]].
  destruct (config_eq_dec k x) as [->|]; [exact Hin|discriminate].
Qed.

Lemma lookup_In t p : forall P, lookup t P = Some p -> In (t, p) P.
Proof.
  induction P as [|[t' p'] P IH]; simpl; intros Hl; [discriminate|].
  destruct (Nat.eqb_spec t t') as [->|Hne].
  - injection Hl as ->. left. reflexivity.
  - right. auto.
Qed.

(* ---- the pending map is strictly sorted by thread number ---- *)

Fixpoint psorted (P : pmap) : Prop :=
  match P with
  | [] => True
  | kv :: P' => (forall kv', In kv' P' -> fst kv < fst kv') /\ psorted P'
  end.

Lemma in_pset kv t p : forall P, In kv (pset t p P) -> kv = (t, p) \/ In kv P.
Proof.
  induction P as [|[t' p'] P IH]; simpl; intros Hin.
  - destruct Hin as [<-|[]]. left. reflexivity.
  - destruct (Nat.eqb t t').
    + destruct Hin as [<-|Hin]; auto.
    + destruct (Nat.ltb t t').
      * destruct Hin as [<-|Hin]; auto.
      * destruct Hin as [<-|Hin]; auto. destruct (IH Hin); auto.
Qed.

Lemma psorted_pset t p : forall P, psorted P -> psorted (pset t p P).
Proof.
  induction P as [|[t' p'] P IH]; simpl; intros Hs.
  - split; [intros kv' []|exact I].
  - destruct Hs as [Hlb Hs].
    destruct (Nat.eqb_spec t t') as [->|Hne].
    + simpl. split; auto.
    + destruct (Nat.ltb_spec t t') as [Hlt|Hge].
      * simpl. split.
        -- intros kv' [<-|Hin]; [exact Hlt|]. apply Hlb in Hin. simpl in Hin. lia.
        -- split; auto.
      * simpl. split; [|auto].
        intros kv' Hin. apply in_pset in Hin. destruct Hin as [->|Hin].
        -- simpl. lia.
        -- apply Hlb in Hin. exact Hin.
Qed.

Lemma psorted_pdel t : forall P, psorted P -> psorted (pdel t P).
Proof.
  unfold pdel. induction P as [|kv P IH]; simpl; intros Hs; [exact I|].
  destruct Hs as [Hlb Hs].
  destruct (negb (Nat.eqb t (fst kv))); simpl; auto.
  split; auto. intros kv' Hin. apply filter_In in Hin. apply Hlb. tauto.
Qed.

(* ---- the fuel measure ---- *)

Definition isc (p : pend) : nat := match p with Called _ _ => 1 | Lined _ _ => 0 end.
Fixpoint ncalled (P : pmap) : nat :=
  match P with
  | [] => 0
  | kv :: P' => isc (snd kv) + ncalled P'
  end.
Fixpoint ninv (H : list event) : nat :=
  match H with
  | [] => 0
  | EInv _ _ _ :: H' => S (ninv H')
  | EResp _ _ _ :: H' => ninv H'
  end.
Definition meas (P : pmap) (H : list event) : nat := length H + ncalled P + ninv H.

Lemma ncalled_pset_le t p : forall P, ncalled (pset t p P) <= ncalled P + 1.
Proof.
  induction P as [|[t' p'] P IH]; simpl.
  - destruct p; simpl; lia.
  - destruct (Nat.eqb t t').
    + simpl. destruct p, p'; simpl; lia.
    + destruct (Nat.ltb t t'); simpl.
      * destruct p; simpl; lia.
      * lia.
Qed.

Lemma ncalled_pdel_le t : forall P, ncalled (pdel t P) <= ncalled P.
Proof.
  unfold pdel. induction P as [|kv P IH]; simpl; [lia|].
  destruct (negb (Nat.eqb t (fst kv))); simpl; lia.
Qed.

Lemma ncalled_pset_lined t i0 o0 i r : forall P,
  psorted P -> lookup t P = Some (Called i0 o0) ->
  ncalled (pset t (Lined i r) P) + 1 <= ncalled P.
Proof.
  induction P as [|[t' p'] P IH]; simpl; intros Hs Hl; [discriminate|].
  destruct Hs as [Hlb Hs].
  destruct (Nat.eqb_spec t t') as [->|Hne].
  - injection Hl as ->. simpl. lia.
  - destruct (Nat.ltb_spec t t') as [Hlt|Hge].
    + apply lookup_In in Hl. apply Hlb in Hl. simpl in Hl. lia.
    + simpl. specialize (IH Hs Hl). lia.
Qed.

Lemma ninv_le H : ninv H <= length H.
Proof. induction H as [|[i t o|i t r] H IH]; simpl; lia. Qed.

(* ---- the generic fact about [try_list] ---- *)

Lemma try_list_spec (Inv : list config -> Prop) (Q : nat * pend -> Prop) att :
  forall cands cache, Inv cache ->
   (forall kv c, In kv cands -> Inv c ->
                 Inv (snd (att kv c)) /\ (fst (att kv c) = false -> ~ Q kv)) ->
   Inv (snd (try_list att cands cache)) /\
   (fst (try_list att cands cache) = false -> forall kv, In kv cands -> ~ Q kv).
Proof.
  induction cands as [|kv rest IH]; intros cache Hinv Hatt.
  - simpl. split; [exact Hinv|]. intros _ kv [].
  - simpl. pose proof (Hatt kv cache (or_introl eq_refl) Hinv) as Hk.
    destruct (att kv cache) as [b c'] eqn:E. simpl in Hk. destruct Hk as [Hk1 Hk2].
    destruct b.
    + simpl. split; [exact Hk1|discriminate].
    + destruct (IH c' Hk1) as [I1 I2].
      { intros kv' c Hin Hc. apply Hatt; [right; exact Hin|exact Hc]. }
      split; [exact I1|].
      intros Hf kv' [<-|Hin]; [apply Hk2; reflexivity|apply I2; auto].
Qed.

(* ---- unfolding equations of [chk] ---- *)

Definition attf (f : nat) (s : sstate) (P : pmap) (t : nat) (r : res) (H : list event)
  : nat * pend -> list config -> bool * list config :=
  fun kv cache =>
    match lookup (fst kv) P with
    | Some (Called i' o') =>
        let s' := fst (spec_step s o') in
        let r' := snd (spec_step s o') in
        if Nat.eqb (fst kv) t && negb (if res_eq_dec r r' then true else false)
        then (false, cache)
        else chk f s' (pset (fst kv) (Lined i' r') P) H cache
    | _ => (false, cache)
    end.

Lemma chk_inv_eq f s P i t o H' cache :
  chk (S f) s P (EInv i t o :: H') cache =
  match lookup t P with
  | None => chk f s (pset t (Called i o) P) H' cache
  | Some _ => (false, cache)
  end.
Proof. reflexivity. Qed.

Lemma chk_resp_lined f s P i t r H' cache i' r' :
  lookup t P = Some (Lined i' r') ->
  chk (S f) s P (EResp i t r :: H') cache =
  if Nat.eqb i i'
  then if res_eq_dec r r' then chk f s (pdel t P) H' cache else (false, cache)
  else (false, cache).
Proof. intros Hl. cbn [chk]. rewrite Hl. reflexivity. Qed.

Lemma chk_resp_none f s P i t r H' cache :
  lookup t P = None -> chk (S f) s P (EResp i t r :: H') cache = (false, cache).
Proof. intros Hl. cbn [chk]. rewrite Hl. reflexivity. Qed.

Lemma chk_resp_called f s P i t r H' cache i0 o0 :
  lookup t P = Some (Called i0 o0) ->
  chk (S f) s P (EResp i t r :: H') cache =
  if in_cache (S (length H'), P, s) cache then (false, cache) else
  if fst (try_list (attf f s P t r (EResp i t r :: H')) P cache)
  then (true, snd (try_list (attf f s P t r (EResp i t r :: H')) P cache))
  else (false, (S (length H'), P, s) ::
               snd (try_list (attf f s P t r (EResp i t r :: H')) P cache)).
Proof.
  intros Hl. cbn [chk]. rewrite Hl. cbn [length]. fold (attf f s P t r (EResp i t r :: H')).
  destruct (in_cache (S (length H'), P, s) cache); [reflexivity|].
  destruct (try_list (attf f s P t r (EResp i t r :: H')) P cache) as [b c']. reflexivity.
Qed.

(* ---- the cache only holds positions from which the search fails ---- *)

Definition cache_ok (H0 : list event) (cache : list config) : Prop :=
  forall H P s, (exists pre, H0 = pre ++ H) -> In (length H, P, s) cache -> ~ srch s P H.

Lemma chk_spec H0 : forall fuel s P H cache,
  meas P H < fuel -> psorted P -> (exists pre, H0 = pre ++ H) -> cache_ok H0 cache ->
  cache_ok H0 (snd (chk fuel s P H cache)) /\
  (fst (chk fuel s P H cache) = false -> ~ srch s P H).
Proof.
  induction fuel as [|f IH]; intros s P H cache Hm Hps Hsuf Hok; [lia|].
  destruct H as [|[i t o|i t r] H'].
  - simpl. split; [exact Hok|discriminate].
  - (* invocation *)
    rewrite chk_inv_eq. destruct (lookup t P) eqn:Hl.
    + simpl. split; [exact Hok|]. intros _ Hs. inversion Hs; subst. congruence.
    + destruct (IH s (pset t (Called i o) P) H' cache) as [I1 I2].
      * unfold meas in *. simpl in Hm.
        pose proof (ncalled_pset_le t (Called i o) P). lia.
      * apply psorted_pset. exact Hps.
      * destruct Hsuf as [pre ->]. exists (pre ++ [EInv i t o]).
        rewrite <- app_assoc. reflexivity.
      * exact Hok.
      * split; [exact I1|]. intros Hf Hs. inversion Hs; subst. apply (I2 Hf). assumption.
  - (* response *)
    destruct (lookup t P) as [[i0 o0|i' r']|] eqn:Hl.
    + (* not yet linearized *)
      rewrite (chk_resp_called f s P i t r H' cache i0 o0 Hl).
      destruct (in_cache (S (length H'), P, s) cache) eqn:Hic.
      * simpl. split; [exact Hok|]. intros _.
        apply in_cache_In in Hic. apply (Hok (EResp i t r :: H') P s Hsuf). exact Hic.
      * set (Q := fun kv : nat * pend =>
                    exists i' o', lookup (fst kv) P = Some (Called i' o') /\
                      (fst kv = t -> r = snd (spec_step s o')) /\
                      srch (fst (spec_step s o'))
                           (pset (fst kv) (Lined i' (snd (spec_step s o'))) P)
                           (EResp i t r :: H')).
        destruct (try_list_spec (cache_ok H0) Q (attf f s P t r (EResp i t r :: H')) P cache Hok)
          as [T1 T2].
        { intros kv c Hin Hc. unfold attf.
          destruct (lookup (fst kv) P) as [[i2 o2|i2 r2]|] eqn:Hl2.
          - destruct (Nat.eqb_spec (fst kv) t) as [He|Hne];
              [destruct (res_eq_dec r (snd (spec_step s o2))) as [Hr|Hr]|]; cbn [andb negb].
            + destruct (IH (fst (spec_step s o2))
                           (pset (fst kv) (Lined i2 (snd (spec_step s o2))) P)
                           (EResp i t r :: H') c) as [I1 I2]; auto.
              * pose proof (ncalled_pset_lined (fst kv) i2 o2 i2 (snd (spec_step s o2)) P Hps Hl2).
                unfold meas in *. lia.
              * apply psorted_pset. exact Hps.
              * split; [exact I1|]. intros Hf [i3 [o3 [Q1 [Q2 Q3]]]].
                rewrite Hl2 in Q1. injection Q1 as <- <-. apply (I2 Hf). exact Q3.
            + simpl. split; [exact Hc|]. intros _ [i3 [o3 [Q1 [Q2 Q3]]]].
              rewrite Hl2 in Q1. injection Q1 as <- <-. apply Hr. apply Q2. exact He.
            + destruct (IH (fst (spec_step s o2))
                           (pset (fst kv) (Lined i2 (snd (spec_step s o2))) P)
                           (EResp i t r :: H') c) as [I1 I2]; auto.
              * pose proof (ncalled_pset_lined (fst kv) i2 o2 i2 (snd (spec_step s o2)) P Hps Hl2).
                unfold meas in *. lia.
              * apply psorted_pset. exact Hps.
              * split; [exact I1|]. intros Hf [i3 [o3 [Q1 [Q2 Q3]]]].
                rewrite Hl2 in Q1. injection Q1 as <- <-. apply (I2 Hf). exact Q3.
          - simpl. split; [exact Hc|]. intros _ [i3 [o3 [Q1 _]]]. congruence.
          - simpl. split; [exact Hc|]. intros _ [i3 [o3 [Q1 _]]]. congruence. }
        destruct (fst (try_list (attf f s P t r (EResp i t r :: H')) P cache)) eqn:Eb.
        -- simpl. split; [exact T1|discriminate].
        -- specialize (T2 eq_refl).
           assert (Hno : ~ srch s P (EResp i t r :: H')).
           { intros Hs. inversion Hs; subst.
             - congruence.
             - match goal with
               | Hq : lookup ?t' P = Some (Called ?i' ?o'),
                 Hr : ?t' = t -> _ |- _ =>
                   apply (T2 (t', Called i' o')); [apply lookup_In; exact Hq|];
                   exists i', o'; simpl; auto
               end. }
           simpl. split; [|intros _; exact Hno].
           intros H2 P2 s2 Hsuf2 [Heq|Hin].
           ++ injection Heq as Hlen -> ->.
              destruct Hsuf as [pre1 E1]. destruct Hsuf2 as [pre2 E2].
              assert (H2 = EResp i t r :: H') as ->.
              { apply (suffix_uniq pre2 pre1); [congruence|]. simpl. auto. }
              exact Hno.
           ++ apply (T1 H2 P2 s2 Hsuf2 Hin).
    + (* linearized *)
      rewrite (chk_resp_lined f s P i t r H' cache i' r' Hl).
      destruct (Nat.eqb_spec i i') as [<-|Hne].
      * destruct (res_eq_dec r r') as [<-|Hne].
        -- destruct (IH s (pdel t P) H' cache) as [I1 I2].
           ++ unfold meas in *. simpl in Hm. pose proof (ncalled_pdel_le t P). lia.
           ++ apply psorted_pdel. exact Hps.
           ++ destruct Hsuf as [pre ->]. exists (pre ++ [EResp i t r]).
              rewrite <- app_assoc. reflexivity.
           ++ exact Hok.
           ++ split; [exact I1|]. intros Hf Hs. inversion Hs; subst.
              ** apply (I2 Hf). assumption.
              ** congruence.
        -- simpl. split; [exact Hok|]. intros _ Hs. inversion Hs; subst; congruence.
      * simpl. split; [exact Hok|]. intros _ Hs. inversion Hs; subst; congruence.
    + rewrite (chk_resp_none f s P i t r H' cache Hl). simpl. split; [exact Hok|].
      intros _ Hs. inversion Hs; subst; congruence.
Qed.

Lemma chk_complete_srch : forall s0 H, srch s0 [] H -> fst (chk (2 * length H + 1) s0 [] H []) = true.
Proof.
  intros s0 H Hs.
  destruct (chk_spec H (2 * length H + 1) s0 [] H []) as [_ C].
  - unfold meas. simpl ncalled. pose proof (ninv_le H). lia.
  - exact I.
  - exists []. reflexivity.
  - intros H1 P1 s1 _ [].
  - destruct (fst (chk (2 * length H + 1) s0 [] H [])) eqn:E; [reflexivity|].
    exfalso. apply (C eq_refl). exact Hs.
Qed.

(* ================= part B ================= *)

(* ---- uniqueness facts ---- *)
Lemma inv_unique H : NoDup (inv_ids H) -> forall i t o t' o',
  In (EInv i t o) H -> In (EInv i t' o') H -> t = t' /\ o = o'.
Proof.
  induction H as [|[j u p|j u r] H IH]; simpl; intros Hnd i t o t' o' H1 H2.
  - contradiction.
  - inversion Hnd as [|? ? Hni Hnd']; subst.
    destruct H1 as [E1|H1]; destruct H2 as [E2|H2].
    + inversion E1; inversion E2; subst; auto.
    + inversion E1; subst. exfalso. apply Hni. apply in_inv_ids. eauto.
    + inversion E2; subst. exfalso. apply Hni. apply in_inv_ids. eauto.
    + eapply IH; eauto.
  - destruct H1 as [E1|H1]; [discriminate|]. destruct H2 as [E2|H2]; [discriminate|].
    eapply IH; eauto.
Qed.

Lemma ent_unique S0 : NoDup (ids S0) -> forall i o r o' r',
  In (i, o, r) S0 -> In (i, o', r') S0 -> o = o' /\ r = r'.
Proof.
  induction S0 as [|[[j p] q] S0 IH]; simpl; intros Hnd i o r o' r' H1 H2.
  - contradiction.
  - inversion Hnd as [|? ? Hni Hnd']; subst.
    destruct H1 as [E1|H1]; destruct H2 as [E2|H2].
    + inversion E1; inversion E2; subst; auto.
    + inversion E1; subst. exfalso. apply Hni. eapply in_ids; eauto.
    + inversion E2; subst. exfalso. apply Hni. eapply in_ids; eauto.
    + eapply IH; eauto.
Qed.

Lemma in_ids_ex i S0 : In i (ids S0) -> exists o r, In (i, o, r) S0.
Proof.
  unfold ids. intros Hin. apply in_map_iff in Hin. destruct Hin as [[[j o] r] [E Hin]].
  simpl in E. subst j. eauto.
Qed.

(* ---- before ---- *)
Lemma before_intro_app {A} (P Q : A -> Prop) l1 x l2 y :
  P x -> In y l2 -> Q y -> before P Q (l1 ++ x :: l2).
Proof.
  intros HP Hin HQ. induction l1 as [|a l1 IH]; simpl.
  - apply before_here; auto. apply Exists_exists. eauto.
  - apply before_later; auto.
Qed.

Lemma before_ex_Q {A} (P Q : A -> Prop) l : before P Q l -> exists y, In y l /\ Q y.
Proof.
  induction 1 as [x l HP HE|x l Hb [y [Hin HQ]]].
  - apply Exists_exists in HE. destruct HE as [y [Hin HQ]]. exists y; simpl; auto.
  - exists y; simpl; auto.
Qed.

Lemma before_head i j S1 e S2 :
  before (has_id i) (has_id j) (S1 ++ e :: S2) -> has_id j e ->
  NoDup (ids (S1 ++ e :: S2)) -> In i (ids S1).
Proof.
  intros Hb He. induction S1 as [|a S1 IH]; simpl in *; intros Hnd.
  - exfalso. inversion Hnd as [|? ? Hni Hnd']; subst.
    assert (Hy : exists y, In y S2 /\ has_id j y).
    { inversion Hb as [x l HP HE|x l Hb']; subst.
      - apply Exists_exists in HE. exact HE.
      - apply before_ex_Q in Hb'. exact Hb'. }
    destruct Hy as [[[k o] r] [Hin Hk]]. unfold has_id in *. simpl in *. subst k.
    apply Hni. rewrite He. eapply in_ids; eauto.
  - inversion Hnd as [|? ? Hni Hnd']; subst.
    inversion Hb as [x l HP HE|x l Hb']; subst.
    + left. exact HP.
    + right. apply IH; auto.
Qed.

(* ---- the simulation ---- *)
Section Sim.
  Variable s0 : sstate.
  Variable H0 : list event.
  Variable S0 : list lentry.
  Hypothesis HS_nodup : NoDup (ids S0).
  Hypothesis HS_resp : forall i t r, In (EResp i t r) H0 -> exists o, In (i, o, r) S0.
  Hypothesis HS_inS : forall i o r, In (i, o, r) S0 -> exists t, In (EInv i t o) H0.
  Hypothesis HS_rt : forall i j, before (is_resp i) (is_inv j) H0 -> In j (ids S0) ->
                                 before (has_id i) (has_id j) S0.
  Hypothesis Hnd : NoDup (inv_ids H0).

  Record SInv (H1 H2 : list event) (S1 S2 : list lentry) (s : sstate) (P : pmap)
         (W : nat -> option nat) : Prop := {
    V_H : H0 = H1 ++ H2;
    V_S : S0 = S1 ++ S2;
    V_legal : seq_legal s S2;
    V_wf : wf_from W H2;
    V_P : forall t, match W t with
           | None => lookup t P = None
           | Some i =>
               (exists o r, In (i, o, r) S1 /\ lookup t P = Some (Lined i r)) \/
               (~ In i (ids S1) /\ exists o, In (EInv i t o) H1 /\ lookup t P = Some (Called i o))
           end;
    V_pend : forall j t o, In (EInv j t o) H1 -> In j (ids S1) \/ W t = Some j;
    V_S1 : forall j, In j (ids S1) -> In j (inv_ids H1)
  }.

  (* invocation *)
  Lemma sinv_inv H1 H2 S1 S2 s P W i t o :
    SInv H1 (EInv i t o :: H2) S1 S2 s P W ->
    lookup t P = None /\
    SInv (H1 ++ [EInv i t o]) H2 S1 S2 s (pset t (Called i o) P) (upd W t (Some i)).
  Proof.
    intros V. pose proof (V_wf _ _ _ _ _ _ _ V) as Hwf. simpl in Hwf. destruct Hwf as [HW Hwf].
    pose proof (V_P _ _ _ _ _ _ _ V t) as HPt. rewrite HW in HPt. split; [exact HPt|].
    pose proof (V_H _ _ _ _ _ _ _ V) as EH.
    assert (Hfresh : ~ In i (inv_ids H1)).
    { intros Hin. rewrite EH in Hnd. rewrite inv_ids_app in Hnd. simpl in Hnd.
      apply NoDup_remove_2 in Hnd. apply Hnd. apply in_or_app. auto. }
    constructor.
    - rewrite <- app_assoc. exact EH.
    - apply (V_S _ _ _ _ _ _ _ V).
    - apply (V_legal _ _ _ _ _ _ _ V).
    - exact Hwf.
    - intros x. unfold upd. rewrite lookup_pset. destruct (Nat.eqb_spec x t) as [->|Hne].
      + right. split.
        * intros Hin. apply Hfresh. apply (V_S1 _ _ _ _ _ _ _ V). exact Hin.
        * exists o. split; auto. apply in_or_app. right. left. reflexivity.
      + pose proof (V_P _ _ _ _ _ _ _ V x) as HPx. destruct (W x) as [i'|]; auto.
        destruct HPx as [HPx|[Hn [o' [Hin Hl]]]]; [left; exact HPx|].
        right. split; auto. exists o'. split; auto. apply in_or_app. auto.
    - intros j t' o' Hin. unfold upd. apply in_app_or in Hin. destruct Hin as [Hin|[E|[]]].
      + destruct (V_pend _ _ _ _ _ _ _ V _ _ _ Hin) as [Hl|Hp]; auto.
        destruct (Nat.eqb_spec t' t) as [->|Hne]; auto. congruence.
      + inversion E; subst. rewrite Nat.eqb_refl. auto.
    - intros j Hin. rewrite inv_ids_app. apply in_or_app. left.
      apply (V_S1 _ _ _ _ _ _ _ V). exact Hin.
  Qed.

  (* response of a linearized call *)
  Lemma sinv_resp H1 H2 S1 S2 s P W i t r o :
    SInv H1 (EResp i t r :: H2) S1 S2 s P W ->
    In (i, o, r) S1 -> lookup t P = Some (Lined i r) ->
    SInv (H1 ++ [EResp i t r]) H2 S1 S2 s (pdel t P) (upd W t None).
  Proof.
    intros V HinS Hl. pose proof (V_wf _ _ _ _ _ _ _ V) as Hwf. simpl in Hwf.
    destruct Hwf as [HW Hwf]. pose proof (V_H _ _ _ _ _ _ _ V) as EH.
    constructor.
    - rewrite <- app_assoc. exact EH.
    - apply (V_S _ _ _ _ _ _ _ V).
    - apply (V_legal _ _ _ _ _ _ _ V).
    - exact Hwf.
    - intros x. unfold upd. rewrite lookup_pdel. destruct (Nat.eqb_spec x t) as [->|Hne]; auto.
      pose proof (V_P _ _ _ _ _ _ _ V x) as HPx. destruct (W x) as [i'|]; auto.
      destruct HPx as [HPx|[Hn [o' [Hin Hl']]]]; [left; exact HPx|].
      right. split; auto. exists o'. split; auto. apply in_or_app. auto.
    - intros j t' o' Hin. unfold upd. apply in_app_or in Hin. destruct Hin as [Hin|[E|[]]]; [|discriminate].
      destruct (V_pend _ _ _ _ _ _ _ V _ _ _ Hin) as [Hl'|Hp]; auto.
      destruct (Nat.eqb_spec t' t) as [->|Hne]; auto.
      left. rewrite HW in Hp. inversion Hp; subst. eapply in_ids; eauto.
    - intros j Hin. rewrite inv_ids_app. apply in_or_app. left.
      apply (V_S1 _ _ _ _ _ _ _ V). exact Hin.
  Qed.

  (* the head of the remaining sequential order is a pending call when the next event
     is the response of a call that is not linearized yet *)
  Lemma sinv_head_pending H1 H2 S1 S2 s P W i t r j oj rj :
    SInv H1 (EResp i t r :: H2) S1 ((j, oj, rj) :: S2) s P W ->
    ~ In i (ids S1) ->
    exists tj, In (EInv j tj oj) H1 /\ W tj = Some j /\ lookup tj P = Some (Called j oj).
  Proof.
    intros V Hni. pose proof (V_H _ _ _ _ _ _ _ V) as EH. pose proof (V_S _ _ _ _ _ _ _ V) as ES.
    assert (HjS0 : In (j, oj, rj) S0) by (rewrite ES; apply in_or_app; right; left; reflexivity).
    destruct (HS_inS _ _ _ HjS0) as [tj Hinv]. exists tj.
    assert (HnjS1 : ~ In j (ids S1)).
    { intros Hin. rewrite ES in HS_nodup. rewrite ids_app in HS_nodup. simpl in HS_nodup.
      apply NoDup_remove_2 in HS_nodup. apply HS_nodup. apply in_or_app. auto. }
    assert (HinH1 : In (EInv j tj oj) H1).
    { rewrite EH in Hinv. apply in_app_or in Hinv. destruct Hinv as [Hinv|[E|Hinv]]; auto; [discriminate|].
      exfalso. apply Hni.
      assert (Hb : before (is_resp i) (is_inv j) H0).
      { rewrite EH. eapply before_intro_app; [exists t, r; reflexivity|exact Hinv|exists tj, oj; reflexivity]. }
      apply HS_rt in Hb; [|eapply in_ids; eauto].
      rewrite ES in Hb. pose proof HS_nodup as N. rewrite ES in N.
      eapply before_head; [exact Hb|reflexivity|exact N]. }
    split; auto.
    destruct (V_pend _ _ _ _ _ _ _ V _ _ _ HinH1) as [Hl|HW]; [contradiction|].
    split; auto.
    pose proof (V_P _ _ _ _ _ _ _ V tj) as HPt. rewrite HW in HPt.
    destruct HPt as [[o [r' [Hin _]]]|[_ [o [Hin Hl]]]].
    - exfalso. apply HnjS1. eapply in_ids; eauto.
    - assert (Hin0 : In (EInv j tj o) H0) by (rewrite EH; apply in_or_app; auto).
      destruct (inv_unique _ Hnd _ _ _ _ _ Hin0 Hinv) as [_ ->]. exact Hl.
  Qed.

  (* linearization of the head of the remaining order *)
  Lemma sinv_point H1 H2 S1 S2 s P W j oj rj tj :
    SInv H1 H2 S1 ((j, oj, rj) :: S2) s P W ->
    In (EInv j tj oj) H1 -> W tj = Some j ->
    rj = snd (spec_step s oj) /\
    SInv H1 H2 (S1 ++ [(j, oj, rj)]) S2 (fst (spec_step s oj)) (pset tj (Lined j rj) P) W.
  Proof.
    intros V HinH1 HW. pose proof (V_legal _ _ _ _ _ _ _ V) as HL. simpl in HL.
    destruct HL as [Er HL]. split; auto.
    pose proof (V_H _ _ _ _ _ _ _ V) as EH.
    constructor.
    - exact EH.
    - rewrite <- app_assoc. apply (V_S _ _ _ _ _ _ _ V).
    - exact HL.
    - apply (V_wf _ _ _ _ _ _ _ V).
    - intros x. rewrite lookup_pset. destruct (Nat.eqb_spec x tj) as [->|Hne].
      + rewrite HW. left. exists oj, rj. split; auto. apply in_or_app. right. left. reflexivity.
      + pose proof (V_P _ _ _ _ _ _ _ V x) as HPx. destruct (W x) as [i'|]; auto.
        destruct HPx as [[o [r [Hin Hl]]]|[Hn [o' [Hin Hl]]]].
        * left. exists o, r. split; auto. apply in_or_app. auto.
        * right. split; [|eauto]. rewrite ids_app. simpl. intros Hin'.
          apply in_app_or in Hin'. destruct Hin' as [Hin'|[E|[]]]; [contradiction|].
          subst i'. apply Hne.
          assert (A : In (EInv j x o') H0) by (rewrite EH; apply in_or_app; auto).
          assert (B : In (EInv j tj oj) H0) by (rewrite EH; apply in_or_app; auto).
          destruct (inv_unique _ Hnd _ _ _ _ _ A B) as [-> _]. reflexivity.
    - intros k t' o' Hin. destruct (V_pend _ _ _ _ _ _ _ V _ _ _ Hin) as [Hl|Hp]; auto.
      left. rewrite ids_app. apply in_or_app. auto.
    - intros k Hin. rewrite ids_app in Hin. simpl in Hin. apply in_app_or in Hin.
      destruct Hin as [Hin|[E|[]]].
      + apply (V_S1 _ _ _ _ _ _ _ V). exact Hin.
      + subst k. apply in_inv_ids. eauto.
  Qed.

  (* a response event, by induction on the remaining sequential order *)
  Lemma sim_resp i t r H2 :
    (forall H1 S1 S2 s P W, SInv H1 H2 S1 S2 s P W -> srch s P H2) ->
    forall S2 H1 S1 s P W, SInv H1 (EResp i t r :: H2) S1 S2 s P W -> srch s P (EResp i t r :: H2).
  Proof.
    intros IH. induction S2 as [|[[j oj] rj] S2 IHS]; intros H1 S1 s P W V.
    - (* nothing left to linearize: the call is linearized *)
      pose proof (V_wf _ _ _ _ _ _ _ V) as Hwf. simpl in Hwf. destruct Hwf as [HW _].
      pose proof (V_H _ _ _ _ _ _ _ V) as EH. pose proof (V_S _ _ _ _ _ _ _ V) as ES.
      rewrite app_nil_r in ES.
      assert (HinH : In (EResp i t r) H0) by (rewrite EH; apply in_or_app; right; left; reflexivity).
      destruct (HS_resp _ _ _ HinH) as [o HinS].
      pose proof (V_P _ _ _ _ _ _ _ V t) as HPt. rewrite HW in HPt.
      destruct HPt as [[o' [r' [Hin Hl]]]|[Hn _]].
      + assert (Hin0 : In (i, o', r') S0) by (rewrite ES; exact Hin).
        destruct (ent_unique _ HS_nodup _ _ _ _ _ HinS Hin0) as [-> ->].
        apply srch_resp; auto. eapply IH. eapply sinv_resp; eauto.
      + exfalso. apply Hn. rewrite <- ES. eapply in_ids; eauto.
    - pose proof (V_wf _ _ _ _ _ _ _ V) as Hwf. simpl in Hwf. destruct Hwf as [HW _].
      pose proof (V_H _ _ _ _ _ _ _ V) as EH. pose proof (V_S _ _ _ _ _ _ _ V) as ES.
      assert (HinH : In (EResp i t r) H0) by (rewrite EH; apply in_or_app; right; left; reflexivity).
      destruct (HS_resp _ _ _ HinH) as [o HinS].
      pose proof (V_P _ _ _ _ _ _ _ V t) as HPt. rewrite HW in HPt.
      destruct HPt as [[o' [r' [Hin Hl]]]|[Hn [o' [Hin Hl]]]].
      + assert (Hin0 : In (i, o', r') S0) by (rewrite ES; apply in_or_app; auto).
        destruct (ent_unique _ HS_nodup _ _ _ _ _ HinS Hin0) as [-> ->].
        apply srch_resp; auto. eapply IH. eapply sinv_resp; eauto.
      + destruct (sinv_head_pending _ _ _ _ _ _ _ _ _ _ _ _ _ V Hn) as [tj [HinH1 [HWj Hlj]]].
        destruct (sinv_point _ _ _ _ _ _ _ _ _ _ _ V HinH1 HWj) as [Er V'].
        eapply srch_point; [exact Hl|exact Hlj| |].
        * intros ->. rewrite HW in HWj. inversion HWj; subst j.
          assert (Hin0 : In (i, oj, rj) S0) by (rewrite ES; apply in_or_app; right; left; reflexivity).
          destruct (ent_unique _ HS_nodup _ _ _ _ _ HinS Hin0) as [_ ->]. exact Er.
        * rewrite <- Er. eapply IHS. exact V'.
  Qed.

  Lemma sim : forall H2 H1 S1 S2 s P W, SInv H1 H2 S1 S2 s P W -> srch s P H2.
  Proof.
    induction H2 as [|[i t o|i t r] H2 IH]; intros H1 S1 S2 s P W V.
    - apply srch_nil.
    - destruct (sinv_inv _ _ _ _ _ _ _ _ _ _ V) as [Hl V'].
      apply srch_inv; auto. eapply IH. exact V'.
    - eapply sim_resp; eauto.
  Qed.
End Sim.

Lemma linearizable_srch s0 H : wf_hist H -> linearizable s0 H -> srch s0 [] H.
Proof.
  intros [Hnd Hwf] [S0 [HL [HN [HR [HI HT]]]]].
  apply (sim H S0 HN HR HI HT Hnd H [] [] S0 s0 [] (fun _ => None)).
  constructor; simpl; auto.
Qed.

(* ================= part C ================= *)

Lemma nodupb_complete l : NoDup l -> nodupb l = true.
Proof.
  induction 1 as [|x l Hni Hnd IH]; simpl; auto.
  rewrite IH, andb_true_r. apply negb_true_iff.
  destruct (existsb (Nat.eqb x) l) eqn:E; auto.
  apply existsb_exists in E. destruct E as [y [Hin Hy]]. apply Nat.eqb_eq in Hy. subst y. contradiction.
Qed.

Lemma wf_from_ext H : forall W W', (forall t, W t = W' t) -> wf_from W H -> wf_from W' H.
Proof.
  induction H as [|[i t o|i t r] H IH]; simpl; intros W W' E Hw; auto.
  - destruct Hw as [A B]. split; [rewrite <- E; auto|].
    eapply IH; [|exact B]. intros x. unfold upd. destruct (Nat.eqb x t); auto.
  - destruct Hw as [A B]. split; [rewrite <- E; auto|].
    eapply IH; [|exact B]. intros x. unfold upd. destruct (Nat.eqb x t); auto.
Qed.

Definition pmap_ids (P : pmap) : nat -> option nat := fun t => option_map pid (lookup t P).

Lemma chk_true_wf fuel : forall s P H cache,
  fst (chk fuel s P H cache) = true -> wf_from (pmap_ids P) H.
Proof.
  induction fuel as [|f IH]; intros s P H cache Hc; [discriminate|].
  destruct H as [|[i t o|i t r] H]; simpl in Hc.
  - exact I.
  - destruct (lookup t P) eqn:Hl; [discriminate|]. simpl. split.
    + unfold pmap_ids. rewrite Hl. reflexivity.
    + eapply wf_from_ext; [|eapply IH; exact Hc].
      intros x. unfold pmap_ids, upd. rewrite lookup_pset. destruct (Nat.eqb x t); reflexivity.
  - destruct (lookup t P) as [[i' o'|i' r']|] eqn:Hl; [| |discriminate].
    + destruct (in_cache _ cache); [discriminate|].
      match type of Hc with context [try_list ?att P cache] =>
        destruct (try_list att P cache) as [b c'] eqn:Et;
        pose proof (try_list_true att P cache) as Htl end.
      rewrite Et in Htl. simpl in Htl. destruct b; [|discriminate].
      destruct (Htl eq_refl) as [kv [c [_ Hok]]]. clear Htl Et Hc.
      destruct (lookup (fst kv) P) as [[i2 o2|i2 r2]|] eqn:Hl2; try discriminate.
      destruct (Nat.eqb (fst kv) t && negb (if res_eq_dec r (snd (spec_step s o2)) then true else false));
        [discriminate|].
      eapply wf_from_ext; [|eapply IH; exact Hok].
      intros x. unfold pmap_ids. rewrite lookup_pset. destruct (Nat.eqb_spec x (fst kv)) as [->|]; auto.
      rewrite Hl2. reflexivity.
    + destruct (Nat.eqb_spec i i') as [<-|]; [|discriminate].
      destruct (res_eq_dec r r') as [<-|]; [|discriminate].
      simpl. split.
      * unfold pmap_ids. rewrite Hl. reflexivity.
      * eapply wf_from_ext; [|eapply IH; exact Hc].
        intros x. unfold pmap_ids, upd. rewrite lookup_pdel. destruct (Nat.eqb x t); reflexivity.
Qed.

Lemma lin_check_true_wf s0 H : lin_check s0 H = true -> wf_hist H.
Proof.
  unfold lin_check. intros Hb. apply andb_prop in Hb. destruct Hb as [Hn Hc]. split.
  - apply nodupb_sound. exact Hn.
  - eapply wf_from_ext; [|eapply chk_true_wf; exact Hc]. intros t. reflexivity.
Qed.

(* ================= corollaries ================= *)
Lemma lin_check_complete_lemma s0 H :
  NoDup (inv_ids H) -> wf_from (fun _ => None) H -> linearizable s0 H -> lin_check s0 H = true.
Proof.
  intros Hnd Hwf Hlin. unfold lin_check. apply andb_true_intro. split.
  - apply nodupb_complete. exact Hnd.
  - apply chk_complete_srch. apply linearizable_srch; [split; assumption|exact Hlin].
Qed.

Lemma lin_check_exact_lemma s0 H :
  NoDup (inv_ids H) -> wf_from (fun _ => None) H ->
  (lin_check s0 H = true <-> linearizable s0 H).
Proof.
  intros Hnd Hwf. split.
  - apply lin_check_sound_lemma.
  - apply lin_check_complete_lemma; assumption.
Qed.

Lemma lin_check_char_lemma s0 H :
  lin_check s0 H = true <->
  (NoDup (inv_ids H) /\ wf_from (fun _ => None) H /\ linearizable s0 H).
Proof.
  split.
  - intros Hc. destruct (lin_check_true_wf _ _ Hc) as [A B].
    split; [exact A|]. split; [exact B|]. apply lin_check_sound_lemma. exact Hc.
  - intros [A [B C]]. apply lin_check_complete_lemma; assumption.
Qed.
