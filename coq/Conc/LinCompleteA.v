(* C18 - completeness of the checker, part A: the memoised deterministic search [chk]
   with the fuel [lin_check] gives it succeeds whenever the non-deterministic search
   [srch] does. *)
From Coq Require Import List ZArith Bool Arith Lia.
From MV Require Import Conc.SetSpec Conc.Concurrent Conc.LinCheck Conc.LinProofs Conc.LinCompleteDefs.
Import ListNotations.
Local Open Scope nat_scope.

(* ---- small facts ---- *)

Lemma suffix_uniq {A} : forall (a b X Y : list A),
  a ++ X = b ++ Y -> length X = length Y -> X = Y.
Proof.
  induction a as [|x a IH]; destruct b as [|y b]; simpl; intros X Y He Hl.
  - exact He.
  - subst X. simpl in Hl. rewrite app_length in Hl. lia.
  - subst Y. simpl in Hl. rewrite app_length in Hl. lia.
  - injection He as _ He. eapply IH; eauto.
Qed.

Lemma in_cache_In k c : in_cache k c = true -> In k c.
Proof.
  unfold in_cache. intros Hb. apply existsb_exists in Hb. destruct Hb as [x [Hin Hx]].
  destruct (config_eq_dec k x) as [->|]; [exact Hin|discriminate].
Qed.

Lemma lookup_In t p : forall P, lookup t P = Some p -> In (t, p) P.
Proof.
  induction P as [|[t' p'] P IH]; simpl; intros Hl; [discriminate|].
  destruct (Nat.eqb_spec t t') as [->|Hne].
  - injection Hl as ->. left. reflexivity.
  - right. auto.
Qed.

(* ---- the pending map is strictly sorted by thread number ---- *)

Fixpoint psorted (P : pmap) : Prop :=
  match P with
  | [] => True
  | kv :: P' => (forall kv', In kv' P' -> fst kv < fst kv') /\ psorted P'
  end.

Lemma in_pset kv t p : forall P, In kv (pset t p P) -> kv = (t, p) \/ In kv P.
Proof.
  induction P as [|[t' p'] P IH]; simpl; intros Hin.
  - destruct Hin as [<-|[]]. left. reflexivity.
  - destruct (Nat.eqb t t').
    + destruct Hin as [<-|Hin]; auto.
    + destruct (Nat.ltb t t').
      * destruct Hin as [<-|Hin]; auto.
      * destruct Hin as [<-|Hin]; auto. destruct (IH Hin); auto.
Qed.

Lemma psorted_pset t p : forall P, psorted P -> psorted (pset t p P).
Proof.
  induction P as [|[t' p'] P IH]; simpl; intros Hs.
  - split; [intros kv' []|exact I].
  - destruct Hs as [Hlb Hs].
    destruct (Nat.eqb_spec t t') as [->|Hne].
    + simpl. split; auto.
    + destruct (Nat.ltb_spec t t') as [Hlt|Hge].
      * simpl. split.
        -- intros kv' [<-|Hin]; [exact Hlt|]. apply Hlb in Hin. simpl in Hin. lia.
        -- split; auto.
      * simpl. split; [|auto].
        intros kv' Hin. apply in_pset in Hin. destruct Hin as [->|Hin].
        -- simpl. lia.
        -- apply Hlb in Hin. exact Hin.
Qed.

Lemma psorted_pdel t : forall P, psorted P -> psorted (pdel t P).
Proof.
  unfold pdel. induction P as [|kv P IH]; simpl; intros Hs; [exact I|].
  destruct Hs as [Hlb Hs].
  destruct (negb (Nat.eqb t (fst kv))); simpl; auto.
  split; auto. intros kv' Hin. apply filter_In in Hin. apply Hlb. tauto.
Qed.

(* ---- the fuel measure ---- *)

Definition isc (p : pend) : nat := match p with Called _ _ => 1 | Lined _ _ => 0 end.
Fixpoint ncalled (P : pmap) : nat :=
  match P with
  | [] => 0
  | kv :: P' => isc (snd kv) + ncalled P'
  end.
Fixpoint ninv (H : list event) : nat :=
  match H with
  | [] => 0
  | EInv _ _ _ :: H' => S (ninv H')
  | EResp _ _ _ :: H' => ninv H'
  end.
Definition meas (P : pmap) (H : list event) : nat := length H + ncalled P + ninv H.

Lemma ncalled_pset_le t p : forall P, ncalled (pset t p P) <= ncalled P + 1.
Proof.
  induction P as [|[t' p'] P IH]; simpl.
  - destruct p; simpl; lia.
  - destruct (Nat.eqb t t').
    + simpl. destruct p, p'; simpl; lia.
    + destruct (Nat.ltb t t'); simpl.
      * destruct p; simpl; lia.
      * lia.
Qed.

Lemma ncalled_pdel_le t : forall P, ncalled (pdel t P) <= ncalled P.
Proof.
  unfold pdel. induction P as [|kv P IH]; simpl; [lia|].
  destruct (negb (Nat.eqb t (fst kv))); simpl; lia.
Qed.

Lemma ncalled_pset_lined t i0 o0 i r : forall P,
  psorted P -> lookup t P = Some (Called i0 o0) ->
  ncalled (pset t (Lined i r) P) + 1 <= ncalled P.
Proof.
  induction P as [|[t' p'] P IH]; simpl; intros Hs Hl; [discriminate|].
  destruct Hs as [Hlb Hs].
  destruct (Nat.eqb_spec t t') as [->|Hne].
  - injection Hl as ->. simpl. lia.
  - destruct (Nat.ltb_spec t t') as [Hlt|Hge].
    + apply lookup_In in Hl. apply Hlb in Hl. simpl in Hl. lia.
    + simpl. specialize (IH Hs Hl). lia.
Qed.

Lemma ninv_le H : ninv H <= length H.
Proof. induction H as [|[i t o|i t r] H IH]; simpl; lia. Qed.

(* ---- the generic fact about [try_list] ---- *)

Lemma try_list_spec (Inv : list config -> Prop) (Q : nat * pend -> Prop) att :
  forall cands cache, Inv cache ->
   (forall kv c, In kv cands -> Inv c ->
                 Inv (snd (att kv c)) /\ (fst (att kv c) = false -> ~ Q kv)) ->
   Inv (snd (try_list att cands cache)) /\
   (fst (try_list att cands cache) = false -> forall kv, In kv cands -> ~ Q kv).
Proof.
  induction cands as [|kv rest IH]; intros cache Hinv Hatt.
  - simpl. split; [exact Hinv|]. intros _ kv [].
  - simpl. pose proof (Hatt kv cache (or_introl eq_refl) Hinv) as Hk.
    destruct (att kv cache) as [b c'] eqn:E. simpl in Hk. destruct Hk as [Hk1 Hk2].
    destruct b.
    + simpl. split; [exact Hk1|discriminate].
    + destruct (IH c' Hk1) as [I1 I2].
      { intros kv' c Hin Hc. apply Hatt; [right; exact Hin|exact Hc]. }
      split; [exact I1|].
      intros Hf kv' [<-|Hin]; [apply Hk2; reflexivity|apply I2; auto].
Qed.

(* ---- unfolding equations of [chk] ---- *)

Definition attf (f : nat) (s : sstate) (P : pmap) (t : nat) (r : res) (H : list event)
  : nat * pend -> list config -> bool * list config :=
  fun kv cache =>
    match lookup (fst kv) P with
    | Some (Called i' o') =>
        let s' := fst (spec_step s o') in
        let r' := snd (spec_step s o') in
        if Nat.eqb (fst kv) t && negb (if res_eq_dec r r' then true else false)
        then (false, cache)
        else chk f s' (pset (fst kv) (Lined i' r') P) H cache
    | _ => (false, cache)
    end.

Lemma chk_inv_eq f s P i t o H' cache :
  chk (S f) s P (EInv i t o :: H') cache =
  match lookup t P with
  | None => chk f s (pset t (Called i o) P) H' cache
  | Some _ => (false, cache)
  end.
Proof. reflexivity. Qed.

Lemma chk_resp_lined f s P i t r H' cache i' r' :
  lookup t P = Some (Lined i' r') ->
  chk (S f) s P (EResp i t r :: H') cache =
  if Nat.eqb i i'
  then if res_eq_dec r r' then chk f s (pdel t P) H' cache else (false, cache)
  else (false, cache).
Proof. intros Hl. cbn [chk]. rewrite Hl. reflexivity. Qed.

Lemma chk_resp_none f s P i t r H' cache :
  lookup t P = None -> chk (S f) s P (EResp i t r :: H') cache = (false, cache).
Proof. intros Hl. cbn [chk]. rewrite Hl. reflexivity. Qed.

Lemma chk_resp_called f s P i t r H' cache i0 o0 :
  lookup t P = Some (Called i0 o0) ->
  chk (S f) s P (EResp i t r :: H') cache =
  if in_cache (S (length H'), P, s) cache then (false, cache) else
  if fst (try_list (attf f s P t r (EResp i t r :: H')) P cache)
  then (true, snd (try_list (attf f s P t r (EResp i t r :: H')) P cache))
  else (false, (S (length H'), P, s) ::
               snd (try_list (attf f s P t r (EResp i t r :: H')) P cache)).
Proof.
  intros Hl. cbn [chk]. rewrite Hl. cbn [length]. fold (attf f s P t r (EResp i t r :: H')).
  destruct (in_cache (S (length H'), P, s) cache); [reflexivity|].
  destruct (try_list (attf f s P t r (EResp i t r :: H')) P cache) as [b c']. reflexivity.
Qed.

(* ---- the cache only holds positions from which the search fails ---- *)

Definition cache_ok (H0 : list event) (cache : list config) : Prop :=
  forall H P s, (exists pre, H0 = pre ++ H) -> In (length H, P, s) cache -> ~ srch s P H.

Lemma chk_spec H0 : forall fuel s P H cache,
  meas P H < fuel -> psorted P -> (exists pre, H0 = pre ++ H) -> cache_ok H0 cache ->
  cache_ok H0 (snd (chk fuel s P H cache)) /\
  (fst (chk fuel s P H cache) = false -> ~ srch s P H).
Proof.
  induction fuel as [|f IH]; intros s P H cache Hm Hps Hsuf Hok; [lia|].
  destruct H as [|[i t o|i t r] H'].
  - simpl. split; [exact Hok|discriminate].
  - (* invocation *)
    rewrite chk_inv_eq. destruct (lookup t P) eqn:Hl.
    + simpl. split; [exact Hok|]. intros _ Hs. inversion Hs; subst. congruence.
    + destruct (IH s (pset t (Called i o) P) H' cache) as [I1 I2].
      * unfold meas in *. simpl in Hm.
        pose proof (ncalled_pset_le t (Called i o) P). lia.
      * apply psorted_pset. exact Hps.
      * destruct Hsuf as [pre ->]. exists (pre ++ [EInv i t o]).
        rewrite <- app_assoc. reflexivity.
      * exact Hok.
      * split; [exact I1|]. intros Hf Hs. inversion Hs; subst. apply (I2 Hf). assumption.
  - (* response *)
    destruct (lookup t P) as [[i0 o0|i' r']|] eqn:Hl.
    + (* not yet linearized *)
      rewrite (chk_resp_called f s P i t r H' cache i0 o0 Hl).
      destruct (in_cache (S (length H'), P, s) cache) eqn:Hic.
      * simpl. split; [exact Hok|]. intros _.
        apply in_cache_In in Hic. apply (Hok (EResp i t r :: H') P s Hsuf). exact Hic.
      * set (Q := fun kv : nat * pend =>
                    exists i' o', lookup (fst kv) P = Some (Called i' o') /\
                      (fst kv = t -> r = snd (spec_step s o')) /\
                      srch (fst (spec_step s o'))
                           (pset (fst kv) (Lined i' (snd (spec_step s o'))) P)
                           (EResp i t r :: H')).
        destruct (try_list_spec (cache_ok H0) Q (attf f s P t r (EResp i t r :: H')) P cache Hok)
          as [T1 T2].
        { intros kv c Hin Hc. unfold attf.
          destruct (lookup (fst kv) P) as [[i2 o2|i2 r2]|] eqn:Hl2.
          - destruct (Nat.eqb_spec (fst kv) t) as [He|Hne];
              [destruct (res_eq_dec r (snd (spec_step s o2))) as [Hr|Hr]|]; cbn [andb negb].
            + destruct (IH (fst (spec_step s o2))
                           (pset (fst kv) (Lined i2 (snd (spec_step s o2))) P)
                           (EResp i t r :: H') c) as [I1 I2]; auto.
              * pose proof (ncalled_pset_lined (fst kv) i2 o2 i2 (snd (spec_step s o2)) P Hps Hl2).
                unfold meas in *. lia.
              * apply psorted_pset. exact Hps.
              * split; [exact I1|]. intros Hf [i3 [o3 [Q1 [Q2 Q3]]]].
                rewrite Hl2 in Q1. injection Q1 as <- <-. apply (I2 Hf). exact Q3.
            + simpl. split; [exact Hc|]. intros _ [i3 [o3 [Q1 [Q2 Q3]]]].
              rewrite Hl2 in Q1. injection Q1 as <- <-. apply Hr. apply Q2. exact He.
            + destruct (IH (fst (spec_step s o2))
                           (pset (fst kv) (Lined i2 (snd (spec_step s o2))) P)
                           (EResp i t r :: H') c) as [I1 I2]; auto.
              * pose proof (ncalled_pset_lined (fst kv) i2 o2 i2 (snd (spec_step s o2)) P Hps Hl2).
                unfold meas in *. lia.
              * apply psorted_pset. exact Hps.
              * split; [exact I1|]. intros Hf [i3 [o3 [Q1 [Q2 Q3]]]].
                rewrite Hl2 in Q1. injection Q1 as <- <-. apply (I2 Hf). exact Q3.
          - simpl. split; [exact Hc|]. intros _ [i3 [o3 [Q1 _]]]. congruence.
          - simpl. split; [exact Hc|]. intros _ [i3 [o3 [Q1 _]]]. congruence. }
        destruct (fst (try_list (attf f s P t r (EResp i t r :: H')) P cache)) eqn:Eb.
        -- simpl. split; [exact T1|discriminate].
        -- specialize (T2 eq_refl).
           assert (Hno : ~ srch s P (EResp i t r :: H')).
           { intros Hs. inversion Hs; subst.
             - congruence.
             - match goal with
               | Hq : lookup ?t' P = Some (Called ?i' ?o'),
                 Hr : ?t' = t -> _ |- _ =>
                   apply (T2 (t', Called i' o')); [apply lookup_In; exact Hq|];
                   exists i', o'; simpl; auto
               end. }
           simpl. split; [|intros _; exact Hno].
           intros H2 P2 s2 Hsuf2 [Heq|Hin].
           ++ injection Heq as Hlen -> ->.
              destruct Hsuf as [pre1 E1]. destruct Hsuf2 as [pre2 E2].
              assert (H2 = EResp i t r :: H') as ->.
              { apply (suffix_uniq pre2 pre1); [congruence|]. simpl. auto. }
              exact Hno.
           ++ apply (T1 H2 P2 s2 Hsuf2 Hin).
    + (* linearized *)
      rewrite (chk_resp_lined f s P i t r H' cache i' r' Hl).
      destruct (Nat.eqb_spec i i') as [<-|Hne].
      * destruct (res_eq_dec r r') as [<-|Hne].
        -- destruct (IH s (pdel t P) H' cache) as [I1 I2].
           ++ unfold meas in *. simpl in Hm. pose proof (ncalled_pdel_le t P). lia.
           ++ apply psorted_pdel. exact Hps.
           ++ destruct Hsuf as [pre ->]. exists (pre ++ [EResp i t r]).
              rewrite <- app_assoc. reflexivity.
           ++ exact Hok.
           ++ split; [exact I1|]. intros Hf Hs. inversion Hs; subst.
              ** apply (I2 Hf). assumption.
              ** congruence.
        -- simpl. split; [exact Hok|]. intros _ Hs. inversion Hs; subst; congruence.
      * simpl. split; [exact Hok|]. intros _ Hs. inversion Hs; subst; congruence.
    + rewrite (chk_resp_none f s P i t r H' cache Hl). simpl. split; [exact Hok|].
      intros _ Hs. inversion Hs; subst; congruence.
Qed.

Lemma chk_complete_srch : forall s0 H, srch s0 [] H -> fst (chk (2 * length H + 1) s0 [] H []) = true.
Proof.
  intros s0 H Hs.
  destruct (chk_spec H (2 * length H + 1) s0 [] H []) as [_ C].
  - unfold meas. simpl ncalled. pose proof (ninv_le H). lia.
  - exact I.
  - exists []. reflexivity.
  - intros H1 P1 s1 _ [].
  - destruct (fst (chk (2 * length H + 1) s0 [] H [])) eqn:E; [reflexivity|].
    exfalso. apply (C eq_refl). exact Hs.
Qed.
