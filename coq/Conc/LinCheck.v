(* C18 - linearizability of a finite history w.r.t. the set machine, and an executable
   checker for it (judge of the histories recorded from the Go ConcurrentFactStore). *)
From Coq Require Import List ZArith Bool Arith.
From MV Require Import Conc.SetSpec Conc.Concurrent.
Import ListNotations.

(* ---- the specification ---- *)

(* some element satisfying P occurs strictly before some element satisfying Q *)
Inductive before {A} (P Q : A -> Prop) : list A -> Prop :=
| before_here x l : P x -> Exists Q l -> before P Q (x :: l)
| before_later x l : before P Q l -> before P Q (x :: l).

Definition is_inv (i : nat) (e : event) : Prop := exists t o, e = EInv i t o.
Definition is_resp (i : nat) (e : event) : Prop := exists t r, e = EResp i t r.
Definition has_id (i : nat) (e : lentry) : Prop := fst (fst e) = i.
Definition ids (S : list lentry) : list nat := map (fun e => fst (fst e)) S.
Fixpoint inv_ids (H : list event) : list nat :=
  match H with
  | [] => []
  | EInv i _ _ :: H' => i :: inv_ids H'
  | EResp _ _ _ :: H' => inv_ids H'
  end.

(* a sequential order is legal from s when every result is the set machine's *)
Fixpoint seq_legal (s : sstate) (S : list lentry) : Prop :=
  match S with
  | [] => True
  | (_, o, r) :: S' => r = snd (spec_step s o) /\ seq_legal (fst (spec_step s o)) S'
  end.

(* H is linearizable from s0: there is a sequential order S of operations, each at most
   once, legal for the set machine, containing every completed operation of H with the
   result H reports, containing only operations invoked in H (with their arguments), and
   ordering a before b whenever a returned before b was invoked. *)
Definition linearizable (s0 : sstate) (H : list event) : Prop :=
  exists S : list lentry,
    seq_legal s0 S /\
    NoDup (ids S) /\
    (forall i t r, In (EResp i t r) H -> exists o, In (i, o, r) S) /\
    (forall i o r, In (i, o, r) S -> exists t, In (EInv i t o) H) /\
    (forall i j, before (is_resp i) (is_inv j) H -> In j (ids S) ->
                 before (has_id i) (has_id j) S).

(* ---- the checker ---- *)
(* Wing-Gong style search: walk the events; an invoked operation is pending ([Called])
   until the search decides to linearize it ([Lined], result fixed by the set machine);
   a response is accepted only for a linearized operation with that very result.
   Linearization points are tried lazily, just before a response that needs one; positions
   (events left, pending map, state) from which the search failed are remembered. *)
Inductive pend := Called (i : nat) (o : op) | Lined (i : nat) (r : res).
Definition pmap := list (nat * pend).

Fixpoint lookup (t : nat) (P : pmap) : option pend :=
  match P with
  | [] => None
  | (t', p) :: P' => if Nat.eqb t t' then Some p else lookup t P'
  end.
Definition pdel (t : nat) (P : pmap) : pmap := filter (fun kv => negb (Nat.eqb t (fst kv))) P.
(* insertion keeps the list sorted by thread number, so that equal maps are equal lists
   (the failure cache below compares them) *)
Fixpoint pset (t : nat) (p : pend) (P : pmap) : pmap :=
  match P with
  | [] => [(t, p)]
  | (t', p') :: P' =>
      if Nat.eqb t t' then (t, p) :: P'
      else if Nat.ltb t t' then (t, p) :: P
      else (t', p') :: pset t p P'
  end.

(* a search position: events left, pending map, set-machine state *)
Definition config := (nat * pmap * sstate)%type.
Definition pend_eq_dec : forall a b : pend, {a = b} + {a <> b}.
Proof. decide equality; first [apply Nat.eq_dec | apply op_eq_dec | apply res_eq_dec]. Defined.
Definition config_eq_dec : forall a b : config, {a = b} + {a <> b}.
Proof.
  decide equality.
  - apply list_eq_dec. apply atom_eq_dec.
  - decide equality.
    + apply list_eq_dec. decide equality; [apply pend_eq_dec | apply Nat.eq_dec].
    + apply Nat.eq_dec.
Defined.
Definition in_cache (c : config) (cache : list config) : bool :=
  existsb (fun c' => if config_eq_dec c c' then true else false) cache.

(* first candidate whose attempt succeeds; the cache of failed positions is threaded *)
Fixpoint try_list (attempt : nat * pend -> list config -> bool * list config)
         (cands : pmap) (cache : list config) : bool * list config :=
  match cands with
  | [] => (false, cache)
  | kv :: rest =>
      let '(b, c') := attempt kv cache in
      if b then (true, c') else try_list attempt rest c'
  end.

Fixpoint chk (fuel : nat) (s : sstate) (P : pmap) (H : list event) (cache : list config)
  : bool * list config :=
  match fuel with
  | O => (false, cache)
  | S f =>
      match H with
      | [] => (true, cache)
      | EInv i t o :: H' =>
          match lookup t P with
          | None => chk f s (pset t (Called i o) P) H' cache
          | Some _ => (false, cache)             (* two calls of one thread overlap: ill-formed *)
          end
      | EResp i t r :: H' =>
          match lookup t P with
          | Some (Lined i' r') =>
              if Nat.eqb i i'
              then if res_eq_dec r r' then chk f s (pdel t P) H' cache else (false, cache)
              else (false, cache)
          | Some (Called _ _) =>
              (* somebody has to be linearized now; try every pending call, unless this
                 very position is already known to fail *)
              let key := (length H, P, s) in
              if in_cache key cache then (false, cache) else
              let '(b, c') :=
                try_list (fun kv cache =>
                            match lookup (fst kv) P with
                            | Some (Called i' o') =>
                                let s' := fst (spec_step s o') in
                                let r' := snd (spec_step s o') in
                                if Nat.eqb (fst kv) t && negb (if res_eq_dec r r' then true else false)
                                then (false, cache)
                                else chk f s' (pset (fst kv) (Lined i' r') P) H cache
                            | _ => (false, cache)
                            end) P cache in
              if b then (true, c') else (false, key :: c')
          | None => (false, cache)
          end
      end
  end.

Fixpoint nodupb (l : list nat) : bool :=
  match l with
  | [] => true
  | x :: l' => negb (existsb (Nat.eqb x) l') && nodupb l'
  end.

Definition lin_check (s0 : sstate) (H : list event) : bool :=
  nodupb (inv_ids H) && fst (chk (2 * length H + 1) s0 [] H []).
