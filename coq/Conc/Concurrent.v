(* C18 - model of factstore.ConcurrentFactStore (factstore/factstore.go:953-1019) under
   an arbitrary scheduler.

   Every method of the Go type has the same shape
        s.mutex.<Lock|RLock>(); defer s.mutex.<Unlock|RUnlock>(); return s.base.M(args)
   and which lock each method takes is NOT written here: it is read from the generated
   table Conc/LockTable.v ([real_disc]).  A thread executes, per operation,
        invoke -> acquire -> begin base -> end base -> release+respond
   and the scheduler picks any thread at every step.  The base method is deliberately
   NOT atomic: [begin] snapshots the shared set, [end] publishes the update computed
   from the snapshot, so without mutual exclusion updates get lost and readers see
   stale data; [raced] records two overlapping base calls of which one writes (what the
   Go race detector would report on the maps of the base store).

   Trusted statement about sync.RWMutex (the Go runtime, not verified here) = the
   [acquire]/[release] rules below: Lock succeeds only when there is no writer and no
   reader, RLock only when there is no writer, a blocked thread does not move. *)
From Coq Require Import String List ZArith Bool Arith.
From MV Require Import Conc.LockKinds Conc.LockTable Conc.SetSpec.
Import ListNotations.

(* ---- which lock a method takes: looked up in the generated table ---- *)
Definition meth_name (o : op) : string :=
  match o with
  | Add _ => "Add" | Remove _ => "Remove" | Contains _ => "Contains"
  | GetFacts _ _ => "GetFacts" | Merge _ => "Merge"
  | ListPreds => "ListPredicates" | Count => "EstimateFactCount"
  end%string.

Fixpoint find_entry (n : string) (es : list entry) : option entry :=
  match es with
  | [] => None
  | e :: es' => if String.eqb n (e_name e) then Some e else find_entry n es'
  end.

(* a lock discipline: (lock acquired before, lock released after) the base call *)
Definition disc := op -> lockkind * lockkind.
Definition disc_of (tb : table) : disc := fun o =>
  match find_entry (meth_name o) (t_entries tb) with
  | Some e => (e_acquire e, e_release e)
  | None => (LNone, LNone)
  end.
Definition real_disc : disc := disc_of lock_table.

(* ---- histories ---- *)
Inductive event :=
| EInv (i : nat) (t : nat) (o : op)       (* operation i invoked by thread t *)
| EResp (i : nat) (t : nat) (r : res).    (* operation i returned r *)
Definition lentry := (nat * op * res)%type. (* one entry of a sequential order *)

(* ---- threads ---- *)
Inductive pc :=
| Idle
| Invoked (i : nat) (o : op)                  (* called, blocked on / before the lock *)
| Locked (i : nat) (o : op)                   (* lock taken, base call not started *)
| InBase (i : nat) (o : op) (snap : sstate)   (* inside s.base.M: state read, not yet written *)
| Done (i : nat) (o : op) (r : res).          (* base call returned, deferred unlock pending *)

Record state := mkState {
  nthreads : nat;
  lockw : option nat;          (* RWMutex: the writer holding it *)
  lockr : list nat;            (* RWMutex: the readers holding it *)
  pcs : nat -> pc;
  progs : nat -> list op;      (* what each thread still has to call *)
  shared : sstate;             (* the base store *)
  raced : bool;                (* two overlapping base calls, one of them writing *)
  hist : list event;           (* invocation / response events in real-time order *)
  lin : list lentry            (* ghost: operations in the order of their [end base] steps *)
}.

Definition upd {A} (f : nat -> A) (t : nat) (v : A) : nat -> A :=
  fun x => if Nat.eqb x t then v else f x.

Definition init (n : nat) (pr : nat -> list op) (s0 : sstate) : state :=
  mkState n None [] (fun _ => Idle) pr s0 false [] [].

Definition in_base_conflict (o : op) (p : pc) : bool :=
  match p with InBase _ o' _ => mutating o || mutating o' | _ => false end.
Definition conflict (st : state) (t : nat) (o : op) : bool :=
  existsb (fun t' => negb (Nat.eqb t' t) && in_base_conflict o (pcs st t')) (seq 0 (nthreads st)).

(* sync.RWMutex *)
Definition acquire (k : lockkind) (t : nat) (w : option nat) (r : list nat)
  : option (option nat * list nat) :=
  match k with
  | LNone => Some (w, r)
  | LRead => match w with None => Some (None, t :: r) | Some _ => None end
  | LWrite => match w, r with None, [] => Some (Some t, []) | _, _ => None end
  end.
Definition release (k : lockkind) (t : nat) (w : option nat) (r : list nat)
  : option nat * list nat :=
  match k with
  | LNone => (w, r)
  | LRead => (w, remove Nat.eq_dec t r)
  | LWrite => (None, r)
  end.

(* one step of thread t; None = t cannot move (finished, unknown thread, or blocked) *)
Definition step (d : disc) (st : state) (t : nat) : option state :=
  if negb (Nat.ltb t (nthreads st)) then None else
  match pcs st t with
  | Idle =>
      match progs st t with
      | [] => None
      | o :: rest =>
          let i := length (hist st) in
          Some (mkState (nthreads st) (lockw st) (lockr st) (upd (pcs st) t (Invoked i o))
                        (upd (progs st) t rest) (shared st) (raced st)
                        (hist st ++ [EInv i t o]) (lin st))
      end
  | Invoked i o =>
      match acquire (fst (d o)) t (lockw st) (lockr st) with
      | None => None
      | Some (w, r) =>
          Some (mkState (nthreads st) w r (upd (pcs st) t (Locked i o))
                        (progs st) (shared st) (raced st) (hist st) (lin st))
      end
  | Locked i o =>
      Some (mkState (nthreads st) (lockw st) (lockr st) (upd (pcs st) t (InBase i o (shared st)))
                    (progs st) (shared st) (raced st || conflict st t o) (hist st) (lin st))
  | InBase i o snap =>
      let r := snd (spec_step snap o) in
      Some (mkState (nthreads st) (lockw st) (lockr st) (upd (pcs st) t (Done i o r))
                    (progs st)
                    (if mutating o then fst (spec_step snap o) else shared st)
                    (raced st) (hist st) (lin st ++ [(i, o, r)]))
  | Done i o r =>
      let '(w, rd) := release (snd (d o)) t (lockw st) (lockr st) in
      Some (mkState (nthreads st) w rd (upd (pcs st) t Idle)
                    (progs st) (shared st) (raced st) (hist st ++ [EResp i t r]) (lin st))
  end.

(* a scheduler is a list of thread numbers; a thread that cannot move is skipped *)
Fixpoint run (d : disc) (st : state) (sched : list nat) : state :=
  match sched with
  | [] => st
  | t :: sched' => match step d st t with Some st' => run d st' sched' | None => run d st sched' end
  end.

Inductive reachable (d : disc) (n : nat) (pr : nat -> list op) (s0 : sstate) : state -> Prop :=
| reach_init : reachable d n pr s0 (init n pr s0)
| reach_step st t st' : reachable d n pr s0 st -> step d st t = Some st' -> reachable d n pr s0 st'.

(* thread t is between acquire and release *)
Definition in_cs (p : pc) : bool :=
  match p with Locked _ _ | InBase _ _ _ | Done _ _ _ => true | _ => false end.
Definition pc_op (p : pc) : option op :=
  match p with
  | Idle => None
  | Invoked _ o | Locked _ o | InBase _ o _ | Done _ o _ => Some o
  end.

(* all threads ran to completion *)
Definition finished (st : state) : Prop :=
  forall t, pcs st t = Idle /\ (Nat.lt t (nthreads st) -> progs st t = []).
