(* scratch part C: the checker only accepts well-formed histories *)
From Coq Require Import List ZArith Bool Arith Lia.
From MV Require Import Conc.SetSpec Conc.Concurrent Conc.LinCheck Conc.LinProofs Conc.LinCompleteDefs.
Import ListNotations.

Lemma nodupb_complete l : NoDup l -> nodupb l = true.
Proof.
  induction 1 as [|x l Hni Hnd IH]; simpl; auto.
  rewrite IH, andb_true_r. apply negb_true_iff.
  destruct (existsb (Nat.eqb x) l) eqn:E; auto.
  apply existsb_exists in E. destruct E as [y [Hin Hy]]. apply Nat.eqb_eq in Hy. subst y. contradiction.
Qed.

Lemma wf_from_ext H : forall W W', (forall t, W t = W' t) -> wf_from W H -> wf_from W' H.
Proof.
  induction H as [|[i t o|i t r] H IH]; simpl; intros W W' E Hw; auto.
  - destruct Hw as [A B]. split; [rewrite <- E; auto|].
    eapply IH; [|exact B]. intros x. unfold upd. destruct (Nat.eqb x t); auto.
  - destruct Hw as [A B]. split; [rewrite <- E; auto|].
    eapply IH; [|exact B]. intros x. unfold upd. destruct (Nat.eqb x t); auto.
Qed.

Definition pmap_ids (P : pmap) : nat -> option nat := fun t => option_map pid (lookup t P).

Lemma chk_true_wf fuel : forall s P H cache,
  fst (chk fuel s P H cache) = true -> wf_from (pmap_ids P) H.
Proof.
  induction fuel as [|f IH]; intros s P H cache Hc; [discriminate|].
  destruct H as [|[i t o|i t r] H]; simpl in Hc.
  - exact I.
  - destruct (lookup t P) eqn:Hl; [discriminate|]. simpl. split.
    + unfold pmap_ids. rewrite Hl. reflexivity.
    + eapply wf_from_ext; [|eapply IH; exact Hc].
      intros x. unfold pmap_ids, upd. rewrite lookup_pset. destruct (Nat.eqb x t); reflexivity.
  - destruct (lookup t P) as [[i' o'|i' r']|] eqn:Hl; [| |discriminate].
    + destruct (in_cache _ cache); [discriminate|].
      match type of Hc with context [try_list ?att P cache] =>
        destruct (try_list att P cache) as [b c'] eqn:Et;
        pose proof (try_list_true att P cache) as Htl end.
      rewrite Et in Htl. simpl in Htl. destruct b; [|discriminate].
      destruct (Htl eq_refl) as [kv [c [_ Hok]]]. clear Htl Et Hc.
      destruct (lookup (fst kv) P) as [[i2 o2|i2 r2]|] eqn:Hl2; try discriminate.
      destruct (Nat.eqb (fst kv) t && negb (if res_eq_dec r (snd (spec_step s o2)) then true else false));
        [discriminate|].
      eapply wf_from_ext; [|eapply IH; exact Hok].
      intros x. unfold pmap_ids. rewrite lookup_pset. destruct (Nat.eqb_spec x (fst kv)) as [->|]; auto.
      rewrite Hl2. reflexivity.
    + destruct (Nat.eqb_spec i i') as [<-|]; [|discriminate].
      destruct (res_eq_dec r r') as [<-|]; [|discriminate].
      simpl. split.
      * unfold pmap_ids. rewrite Hl. reflexivity.
      * eapply wf_from_ext; [|eapply IH; exact Hc].
        intros x. unfold pmap_ids, upd. rewrite lookup_pdel. destruct (Nat.eqb x t); reflexivity.
Qed.

Lemma lin_check_true_wf s0 H : lin_check s0 H = true -> wf_hist H.
Proof.
  unfold lin_check. intros Hb. apply andb_prop in Hb. destruct Hb as [Hn Hc]. split.
  - apply nodupb_sound. exact Hn.
  - eapply wf_from_ext; [|eapply chk_true_wf; exact Hc]. intros t. reflexivity.
Qed.
