(* C18 - vocabulary of the generated lock table (coq/Conc/LockTable.v).
   One [entry] per method of factstore.ConcurrentFactStore
   (factstore/factstore.go:953-1019), as read by checks/c18_locktable.py. *)
From Coq Require Import String List Bool.
Import ListNotations.

Inductive lockkind := LNone | LRead | LWrite.

Definition lockkind_eqb (a b : lockkind) : bool :=
  match a, b with
  | LNone, LNone | LRead, LRead | LWrite, LWrite => true
  | _, _ => false
  end.

Record entry := mkEntry {
  e_name : string;          (* method name *)
  e_acquire : lockkind;     (* first statement: s.mutex.Lock() / s.mutex.RLock() / neither *)
  e_release : lockkind;     (* s.mutex.Unlock() / s.mutex.RUnlock() / none found *)
  e_deferred : bool;        (* the release is the second statement and is deferred *)
  e_delegate : string;      (* the one call s.base.<M>(...) of the body *)
  e_args_same : bool;       (* the delegate receives the method's parameters, in order *)
  e_canonical : bool        (* the body is exactly: acquire; defer release; [return] s.base.M(params) *)
}.

Record table := mkTable {
  t_mutex_shared : bool;    (* the mutex field is a pointer (or every receiver is), so that
                               value receivers do not copy the lock *)
  t_entries : list entry
}.
