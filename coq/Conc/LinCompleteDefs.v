(* C18 - completeness of the checker, definitions: the non-deterministic search that
   [chk] determinises (and prunes with its cache), and thread-wise well-formedness of a
   history. *)
From Coq Require Import List ZArith Bool Arith Lia.
From MV Require Import Conc.SetSpec Conc.Concurrent Conc.LinCheck.
Import ListNotations.

(* [srch s P H]: from set-machine state s and pending map P the events H can be
   consumed; a response of a call that is not yet linearized is preceded by the
   linearization of some pending call (any of them), repeatedly *)
Inductive srch : sstate -> pmap -> list event -> Prop :=
| srch_nil s P : srch s P []
| srch_inv s P i t o H :
    lookup t P = None -> srch s (pset t (Called i o) P) H -> srch s P (EInv i t o :: H)
| srch_resp s P i t r H :
    lookup t P = Some (Lined i r) -> srch s (pdel t P) H -> srch s P (EResp i t r :: H)
| srch_point s P i t r H i0 o0 t' i' o' :
    lookup t P = Some (Called i0 o0) ->
    lookup t' P = Some (Called i' o') ->
    (t' = t -> r = snd (spec_step s o')) ->
    srch (fst (spec_step s o')) (pset t' (Lined i' (snd (spec_step s o'))) P) (EResp i t r :: H) ->
    srch s P (EResp i t r :: H).

(* every thread alternates invocation / response of the same call id *)
Fixpoint wf_from (W : nat -> option nat) (H : list event) : Prop :=
  match H with
  | [] => True
  | EInv i t _ :: H' => W t = None /\ wf_from (upd W t (Some i)) H'
  | EResp i t _ :: H' => W t = Some i /\ wf_from (upd W t None) H'
  end.

(* call ids are unique; a thread has at most one call in progress, and a response
   answers the call in progress of its thread *)
Definition wf_hist (H : list event) : Prop :=
  NoDup (inv_ids H) /\ wf_from (fun _ => None) H.
