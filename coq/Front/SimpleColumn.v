(* Line-level model of the simple-column reader: readHeader (simplecolumn.go:395),
   readPred (:337) and SimpleColumn.ReadInto (:440).

   The model carries the reader's control flow and index arithmetic.  The
   library / front-end functions it calls are a table [lib] of total functions
   with an error outcome (strconv.Atoi, fmt.Sscanf "%s %d %d",
   parse.PredicateName, and the decoding of one non-empty body line:
   percentUnescape + parse.BaseTerm + functional.EvalExpr); theorems quantify
   over every such table.  Every slice index (text[0], skip[i], args[i],
   args[i][j]) and every make(..., n) is an explicit partial step.

   [ver] selects which of the repairs are present:
     chk_empty  (N12b)  `if text == ""` before text[0]
     chk_neg    (N12b)  `if numFacts < 0` in readHeader
     lazy_alloc (N20)   rows are appended while column 0 is read instead of
                        make([][]ast.BaseTerm, numFacts) up front.
     zero_counted (F12, another builder's fix of ReadInto): a predicate of arity 0 is
                        added only `if predNumFacts[i] > 0` (originally: always).
   No proofs in this file. *)
From Coq Require Import List ZArith Bool Arith.
Import ListNotations.
Open Scope Z_scope.

Definition bytes := list Z.

Inductive tres := TOk (canon : bytes) | TRead | TParse.

Record lib := {
  atoi : bytes -> option Z;                       (* strconv.Atoi *)
  sscan : bytes -> option (bytes * Z * Z);        (* fmt.Sscanf(text, "%s %d %d") *)
  name_ok : bytes -> bool;                        (* parse.PredicateName(name) err == nil *)
  term : bytes -> tres                            (* decoding of one non-empty body line *)
}.

Record ver := { chk_empty : bool; chk_neg : bool; lazy_alloc : bool; zero_counted : bool }.
Definition fixed : ver := {| chk_empty := true; chk_neg := true; lazy_alloc := true; zero_counted := true |}.
Definition original : ver := {| chk_empty := false; chk_neg := false; lazy_alloc := false; zero_counted := false |}.
(* N12b applied, N20 not *)
Definition only_n12 : ver := {| chk_empty := true; chk_neg := true; lazy_alloc := false; zero_counted := true |}.

(* outcome of ReadInto: 0 = nil; 1..6 error class (1 ErrCouldNotRead, 2 ErrTooManyPreds,
   3 ErrWrongArgument, 4 ErrUnsupportedArity, 5 ErrTooManyFacts, 6 parse error of a line) *)
Inductive res (A : Type) : Type :=
| ROk (a : A)
| RErr (e : Z)
| RPanic             (* index out of range / makeslice: len out of range *)
| ROom.              (* an up-front allocation far beyond the input size (fatal "out of memory" or no return) *)
Arguments ROk {A} a.
Arguments RErr {A} e.
Arguments RPanic {A}.
Arguments ROom {A}.

Definition max_num_preds : Z := 65536.
Definition max_facts : Z := 4294967296.
Definition max_arity : Z := 1024.
(* rows the model is willing to allocate up front in the eager variant; beyond that the
   Go code asks for gigabytes on a file of a few bytes *)
Definition alloc_budget : Z := 1048576.

Definition pred := (bytes * Z * Z)%type.     (* name, arity, numFacts *)

(* the loop of readHeader: `for i := 0; i < numPreds; i++`; consumes one line per predicate *)
Fixpoint header_loop (V : ver) (L : lib) (ls : list bytes) (i np : Z) (acc : list pred)
  : res (list pred * list bytes) :=
  if np <=? i then ROk (rev acc, ls)
  else match ls with
       | [] => RErr 1                                            (* scanner.Scan() false *)
       | l :: ls' =>
         match sscan L l with
         | None => RErr 1
         | Some (name, ar, nf) =>
           if negb (name_ok L name) then RErr 3
           else if (ar <? 0) || (max_arity <? ar) then RErr 4
           else if chk_neg V && (nf <? 0) then RErr 3            (* N12b *)
           else if max_facts <? nf then RErr 5
           else header_loop V L ls' (i + 1) np ((name, ar, nf) :: acc)
         end
       end.

Definition read_header (V : ver) (L : lib) (ls : list bytes) : res (list pred * list bytes) :=
  match ls with
  | [] => RErr 1
  | l0 :: ls' =>
    match atoi L l0 with
    | None => RErr 1
    | Some np =>
      if np <? 0 then RErr 3
      else if max_num_preds <? np then RErr 2
      else header_loop V L ls' 0 np []           (* make([]PredicateSym, numPreds): 0 <= numPreds <= 65536 *)
    end
  end.

Definition row := list (option bytes).

(* rows[i] *)
Definition row_get (rows : list row) (i : Z) : option row :=
  if i <? 0 then None else nth_error rows (Z.to_nat i).
(* l[j] = x *)
Fixpoint set_nth {A} (l : list A) (n : nat) (x : A) : option (list A) :=
  match l, n with
  | [], _ => None
  | _ :: t, O => Some (x :: t)
  | h :: t, S n' => match set_nth t n' x with Some t' => Some (h :: t') | None => None end
  end.
Definition set_at {A} (l : list A) (j : Z) (x : A) : option (list A) :=
  if j <? 0 then None else set_nth l (Z.to_nat j) x.

(* the two nested loops of readPred; entered with 0 <= j < ar, 0 <= i < nf; one line per cell *)
Fixpoint cells (V : ver) (L : lib) (ls : list bytes) (j i ar nf : Z) (rows : list row)
  : res (list row * list bytes) :=
  match ls with
  | [] => RErr 1                                                     (* scanner.Scan() false *)
  | text :: ls' =>
    let rows1 := if lazy_alloc V && (j =? 0) then rows ++ [repeat None (Z.to_nat ar)] else rows in
    match row_get rows1 i with                                        (* skip[i], args[i] *)
    | None => RPanic
    | Some r =>
      if chk_empty V && match text with [] => true | _ => false end then RErr 1     (* N12b *)
      else match text with
           | [] => RPanic                                             (* text[0] *)
           | _ :: _ =>
             match term L text with
             | TRead => RErr 1
             | TParse => RErr 6
             | TOk c =>
               match set_at r j (Some c) with                         (* args[i][j] = c *)
               | None => RPanic
               | Some r' =>
                 match set_at rows1 i r' with
                 | None => RPanic
                 | Some rows2 =>
                   if i + 1 <? nf then cells V L ls' j (i + 1) ar nf rows2
                   else if j + 1 <? ar then cells V L ls' (j + 1) 0 ar nf rows2
                   else ROk (rows2, ls')
                 end
               end
             end
           end
    end
  end.

(* readPred for arity > 0 (ReadInto never calls it with arity 0) *)
Definition read_pred (V : ver) (L : lib) (ls : list bytes) (ar nf : Z) : res (list row * list bytes) :=
  if lazy_alloc V then
    if 0 <? nf then cells V L ls 0 0 ar nf [] else ROk ([], ls)
  else
    (* args := make([][]ast.BaseTerm, numFacts); skip := make([]bool, numFacts); rows of make([]BaseTerm, arity) *)
    if nf <? 0 then RPanic
    else if alloc_budget <? nf then ROom
    else let rows := repeat (repeat None (Z.to_nat ar)) (Z.to_nat nf) in
         if 0 <? nf then cells V L ls 0 0 ar nf rows else ROk (rows, ls).

Definition fact := (bytes * Z * list bytes)%type.
Definition nil_text : bytes := [60; 110; 105; 108; 62].   (* "<nil>": an argument slot never written *)
Definition row_args (r : row) : list bytes := map (fun o => match o with Some c => c | None => nil_text end) r.

(* the loop of ReadInto over the predicates of the header; facts are the store.Add calls in order *)
Fixpoint read_preds (V : ver) (L : lib) (ps : list pred) (ls : list bytes) (added : list fact)
  : list fact * res unit :=
  match ps with
  | [] => (added, ROk tt)
  | (name, ar, nf) :: ps' =>
    if ar =? 0 then
      read_preds V L ps' ls (if zero_counted V && negb (0 <? nf) then added else added ++ [(name, 0, [])])
    else match read_pred V L ls ar nf with
         | ROk (rows, ls') => read_preds V L ps' ls' (added ++ map (fun r => (name, ar, row_args r)) rows)
         | RErr e => (added, RErr e)
         | RPanic => (added, RPanic)
         | ROom => (added, ROom)
         end
  end.

Definition read_into (V : ver) (L : lib) (ls : list bytes) : list fact * res unit :=
  match read_header V L ls with
  | ROk (ps, ls') => read_preds V L ps ls' []
  | RErr e => ([], RErr e)
  | RPanic => ([], RPanic)
  | ROom => ([], ROom)
  end.

(* bufio.ScanLines: split at '\n', drop one trailing '\r' of every line; a final
   unterminated non-empty chunk is a line too (lines longer than the scanner's
   64 KiB token limit stop the scan: not modelled, the theorems hold for every list of lines) *)
Definition dropcr_rev (r : bytes) : bytes := match r with 13 :: t => rev t | _ => rev r end.
Fixpoint split_lines_aux (cur : bytes) (s : bytes) : list bytes :=
  match s with
  | [] => match cur with [] => [] | _ => [dropcr_rev cur] end
  | c :: t => if c =? 10 then dropcr_rev cur :: split_lines_aux [] t else split_lines_aux (c :: cur) t
  end.
Definition split_lines (s : bytes) : list bytes := split_lines_aux [] s.
