(* Bound rows of a declaration: the row-length test of analysis.CheckDecl and the
   arity-indexed row loop of symbols.desugarOneDecl.

   Go code mirrored (every slice index is an explicit partial step; out of range = DPanic):
     analysis/declcheck.go:103-121   declChecker.check / checkBound
         for _, boundDecl := range c.decl.Bounds { c.checkBound(p, boundDecl) }
         if len(boundDecl.Bounds) != len(p.Args) { error }
         for each bound: symbols.WellformedBound(bound) != nil -> error
     symbols/decldesugar.go:47-59     desugar.Desugar: a decl carrying desugared() is taken as it is
     symbols/decldesugar.go:113-172   desugarOneDecl:
         no bound block and arity > 0 -> one row of /any, written at i < arity
         boundInfo.bounds = make([]ast.BaseTerm, sym.Arity)
         for j, b := range boundDecl.Bounds {
            WellformedBound(b) == nil            -> boundInfo.bounds[j] = b
            b not a string constant              -> return error
            b = "foo": desugarOneDecl(foo/1)
               circular dependency               -> return error
               other error                       -> saveError; boundInfo.bounds[j] = /any
               typeBoundForPredicate error       -> saveError; boundInfo.bounds[j] = /any
               ok                                -> boundInfo.bounds[j] = typeExpr; decl.DeclaredAtom.Args[j]
         }
     symbols/decldesugar.go:196-206   typeBoundForPredicate: d.Bounds[i].Bounds[0]

   The recursive call desugarOneDecl(foo/1) and typeBoundForPredicate enter as the
   class of the cell (what the call did), the way the library calls enter the model
   of the fact-file reader: the theorems quantify over all classes. Only the control
   flow and the index arithmetic are modelled; the content of a bound is not. *)
From Coq Require Import List Bool Arith.
Import ListNotations.

(* what the loop body does with one entry of a bound row *)
Inductive cellk :=
| CW      (* WellformedBound accepts it: bounds[j] = b *)
| CRefOk  (* string constant, the unary predicate desugars: bounds[j] = typeExpr, then Args[j] *)
| CRefSv  (* string constant, the recursive call / typeBoundForPredicate fails: saveError, bounds[j] = /any *)
| CRefCy  (* string constant, circular dependency: the function returns the error *)
| CBad.   (* neither well-formed nor a string constant: the function returns an error *)

Inductive dres := DOk | DErr | DPanic.

(* the loop "for j, b := range boundDecl.Bounds" over a slice made with make(.., arity);
   sv = an error has been saved so far *)
Fixpoint row_loop (ar j : nat) (cells : list cellk) (sv : bool) {struct cells} : dres * bool :=
  match cells with
  | [] => (DOk, sv)
  | c :: r =>
      match c with
      | CBad | CRefCy => (DErr, sv)
      | CW | CRefOk => if j <? ar then row_loop ar (S j) r sv else (DPanic, sv)
      | CRefSv => if j <? ar then row_loop ar (S j) r true else (DPanic, sv)
      end
  end.

(* the loop "for i, boundDecl := range decl.Bounds" *)
Fixpoint rows_loop (ar : nat) (rows : list (list cellk)) (sv : bool) : dres * bool :=
  match rows with
  | [] => (DOk, sv)
  | r :: rs =>
      match row_loop ar 0 r sv with
      | (DOk, sv') => rows_loop ar rs sv'
      | other => other
      end
  end.

(* desugarOneDecl on one declaration, then CheckAndDesugar's "len(d.errors) > 0":
   desugared = the declaration carries desugared() and is not looked at *)
Definition desugar_rows (desugared : bool) (ar : nat) (rows : list (list cellk)) : dres :=
  if desugared then DOk
  else match rows_loop ar rows false with
       | (DOk, false) => DOk
       | (DOk, true) => DErr
       | (o, _) => o
       end.

(* CheckDecl, the part about bound rows. skip_synth = false is the code as it is;
   skip_synth = true is a checker that leaves early for declarations carrying
   synthetic() (the seeded change C10-2), kept for the refutation. *)
Definition row_ok (ar : nat) (r : list cellk) : bool :=
  Nat.eqb (length r) ar && forallb (fun c => match c with CW => true | _ => false end) r.
Definition row_len_ok (ar : nat) (r : list cellk) : bool := Nat.eqb (length r) ar.

Definition check_rows_with (skip_synth synthetic : bool) (ar : nat) (rows : list (list cellk)) : bool :=
  if skip_synth && synthetic then true else forallb (row_ok ar) rows.
Definition check_rows := check_rows_with false.

(* "expected %d bounds, got %d" is among the errors of CheckDecl *)
Definition rowlen_error (ar : nat) (rows : list (list cellk)) : bool :=
  negb (forallb (row_len_ok ar) rows).

(* analysis.Analyze: every declaration passes CheckDecl, then symbols.CheckAndDesugar *)
Definition front_decl_with (skip_synth synthetic desugared : bool) (ar : nat) (rows : list (list cellk)) : dres :=
  if check_rows_with skip_synth synthetic ar rows then desugar_rows desugared ar rows else DErr.
Definition front_decl := front_decl_with false.

(* typeBoundForPredicate on a desugared unary declaration: Bounds[i].Bounds[0] of every row
   (one row: that entry; otherwise the upper bound of the first entries) *)
Definition type_bound (rows : list (list cellk)) : dres :=
  if forallb (fun r => match r with [] => false | _ => true end) rows then DOk else DPanic.
