(* Byte-level model of ast.Unescape / unescapeCharPrefix (ast/serde.go).

   Strings are lists of bytes (Z in 0..255).  Every Go slice index s[i] and
   every re-slice s[n:] is an explicit partial step ([idx], [from]); a step
   that is out of range yields the outcome [Panic].  The flag [chk] selects the
   code after fix N12a (chk = true: the three length checks are present) or the
   code before it (chk = false: the index is evaluated first, as in the
   original loop condition `s[j] != '}' && j < len(s) && j <= 7`).

   No proofs in this file. *)
From Coq Require Import List ZArith Bool Arith.
Import ListNotations.
Open Scope Z_scope.

Inductive out (A : Type) : Type :=
| Val (a : A)      (* the Go function returned a value, err == nil *)
| Err              (* the Go function returned err != nil *)
| Panic            (* a run-time panic: index / slice bound out of range *)
| Fuel.            (* the model ran out of fuel (excluded by the theorems) *)
Arguments Val {A} a.
Arguments Err {A}.
Arguments Panic {A}.
Arguments Fuel {A}.

(* s[j] *)
Definition idx (s : list Z) (j : nat) : option Z := nth_error s j.
(* s[n:] *)
Definition from (s : list Z) (n : nat) : option (list Z) :=
  if (n <=? length s)%nat then Some (skipn n s) else None.

(* unhex, serde.go:224 *)
Definition unhex (b : Z) : option Z :=
  if (48 <=? b) && (b <=? 57) then Some (b - 48)
  else if (97 <=? b) && (b <=? 102) then Some (b - 97 + 10)
  else if (65 <=? b) && (b <=? 70) then Some (b - 65 + 10)
  else None.

(* utf8.DecodeRuneInString: (rune, size); (RuneError, 1) on any invalid or
   truncated sequence, (RuneError, 0) on the empty string. *)
Definition rune_error : Z := 65533.
Definition cont (b : Z) : bool := (128 <=? b) && (b <=? 191).
Definition decode_rune (s : list Z) : Z * nat :=
  match s with
  | [] => (rune_error, 0%nat)
  | b0 :: t =>
    if b0 <? 128 then (b0, 1%nat)
    else if (194 <=? b0) && (b0 <=? 223) then
      match t with
      | b1 :: _ => if cont b1 then ((b0 - 192) * 64 + (b1 - 128), 2%nat) else (rune_error, 1%nat)
      | _ => (rune_error, 1%nat)
      end
    else if (224 <=? b0) && (b0 <=? 239) then
      match t with
      | b1 :: b2 :: _ =>
        let lo := if b0 =? 224 then 160 else 128 in
        let hi := if b0 =? 237 then 159 else 191 in
        if (lo <=? b1) && (b1 <=? hi) && cont b2
        then ((b0 - 224) * 4096 + (b1 - 128) * 64 + (b2 - 128), 3%nat) else (rune_error, 1%nat)
      | _ => (rune_error, 1%nat)
      end
    else if (240 <=? b0) && (b0 <=? 244) then
      match t with
      | b1 :: b2 :: b3 :: _ =>
        let lo := if b0 =? 240 then 144 else 128 in
        let hi := if b0 =? 244 then 143 else 191 in
        if (lo <=? b1) && (b1 <=? hi) && cont b2 && cont b3
        then ((b0 - 240) * 262144 + (b1 - 128) * 4096 + (b2 - 128) * 64 + (b3 - 128), 4%nat)
        else (rune_error, 1%nat)
      | _ => (rune_error, 1%nat)
      end
    else (rune_error, 1%nat)
  end.

(* utf8.EncodeRune for r >= 0 *)
Definition encode_rune (r : Z) : list Z :=
  if r <? 128 then [r]
  else if r <? 2048 then [192 + r / 64; 128 + r mod 64]
  else if (1114111 <? r) || ((55296 <=? r) && (r <=? 57343)) then [239; 191; 189]
  else if r <? 65536 then [224 + r / 4096; 128 + (r / 64) mod 64; 128 + r mod 64]
  else [240 + r / 262144; 128 + (r / 4096) mod 64; 128 + (r / 64) mod 64; 128 + r mod 64].

(* the hex-digit loop of the \u{...} case, serde.go:195-202.
   chk = true : for j < len(s) && s[j] != '}' && j <= 7
   chk = false: for s[j] != '}' && j < len(s) && j <= 7     (original)
   v<<4|x is v*16+x (x < 16); v stays below 2^28 (at most 7 digits), so the
   int32 arithmetic of the Go code cannot wrap.  Result: the final (j, v). *)
Fixpoint uhex (chk : bool) (fuel : nat) (s : list Z) (j : nat) (v : Z) : out (nat * Z) :=
  match fuel with
  | O => Fuel
  | S f =>
    let body (c : Z) :=
      match unhex c with
      | None => Err
      | Some x => uhex chk f s (S j) (v * 16 + x)
      end in
    if chk then
      if (j <? length s)%nat then
        match idx s j with
        | None => Panic
        | Some c => if c =? 125 then Val (j, v) else if (j <=? 7)%nat then body c else Val (j, v)
        end
      else Val (j, v)
    else
      match idx s j with
      | None => Panic
      | Some c => if c =? 125 then Val (j, v)
                  else if (j <? length s)%nat then (if (j <=? 7)%nat then body c else Val (j, v))
                  else Val (j, v)
      end
  end.

(* case 'u' of unescapeCharPrefix; s is the text after `\u`. serde.go:187-213 *)
Definition ucase (chk : bool) (s : list Z) : out (Z * bool * list Z) :=
  let after_brace :=
    match uhex chk 9 s 1 0 with
    | Val (j, v) =>
      let closing :=                                  (* s = s[j+1:] ; v > MaxRune *)
        match from s (S j) with
        | None => Panic
        | Some t => if 1114111 <? v then Err else Val (v, true, t)
        end in
      if chk then
        if (length s <=? j)%nat then Err              (* j >= len(s) || ... *)
        else match idx s j with
             | None => Panic
             | Some c => if c =? 125 then closing else Err
             end
      else match idx s j with                         (* if s[j] != '}' *)
           | None => Panic
           | Some c => if c =? 125 then closing else Err
           end
    | Err => Err
    | Panic => Panic
    | Fuel => Fuel
    end in
  if chk then
    if (length s =? 0)%nat then Err                   (* len(s) == 0 || s[0] != '{' *)
    else match idx s 0 with
         | None => Panic
         | Some c => if c =? 123 then after_brace else Err
         end
  else match idx s 0 with                             (* if s[0] != '{' *)
       | None => Panic
       | Some c => if c =? 123 then after_brace else Err
       end.

(* unescapeCharPrefix, serde.go:128.  Result (value, encode, tail). *)
Definition ucp (chk : bool) (s : list Z) (isBytes : bool) : out (Z * bool * list Z) :=
  match idx s 0 with
  | None => Panic                                                     (* switch c := s[0] *)
  | Some c =>
    if 128 <=? c then
      let '(r, size) := decode_rune s in
      match from s size with Some t => Val (r, true, t) | None => Panic end
    else if negb (c =? 92) then
      match from s 1 with Some t => Val (c, false, t) | None => Panic end
    else if (length s <=? 1)%nat then Err                            (* `\` is the last character *)
    else
      match idx s 1, from s 2 with
      | Some c1, Some s2 =>
        if (c1 =? 10) || (c1 =? 110) then Val (10, false, s2)         (* \<newline>, \n *)
        else if c1 =? 116 then Val (9, false, s2)                     (* \t *)
        else if (c1 =? 92) || (c1 =? 39) || (c1 =? 34) || (c1 =? 96) then Val (c1, false, s2)
        else if c1 =? 120 then                                        (* \xHH *)
          if (length s2 <? 2)%nat then Err
          else match idx s2 0, idx s2 1 with
               | Some a, Some b =>
                 match unhex a with
                 | None => Err
                 | Some hi =>
                   match unhex b with
                   | None => Err
                   | Some lo =>
                     let v := hi * 16 + lo in
                     if negb isBytes && (128 <=? v) then Err
                     else match from s2 2 with Some t => Val (v, false, t) | None => Panic end
                   end
                 end
               | _, _ => Panic
               end
        else if c1 =? 117 then ucase chk s2                           (* \u{...} *)
        else Err
      | _, _ => Panic
      end
  end.

(* strings.NewReplacer("\r\n", "\n", "\r", "\n").Replace *)
Fixpoint replace_newlines (s : list Z) : list Z :=
  match s with
  | [] => []
  | 13 :: t => match t with
               | 10 :: t' => 10 :: replace_newlines t'
               | _ => 10 :: replace_newlines t
               end
  | c :: t => c :: replace_newlines t
  end.

(* the loop of Unescape, serde.go:104-118; the buffer is kept reversed *)
Fixpoint uloop (chk : bool) (fuel : nat) (s : list Z) (isBytes : bool) (rbuf : list Z) : out (list Z) :=
  match s with
  | [] => Val (rev rbuf)
  | _ =>
    match fuel with
    | O => Fuel
    | S f =>
      match ucp chk s isBytes with
      | Val (c, enc, rest) =>
        let bytes := if (c <? 128) || negb enc then [c mod 256] else encode_rune c in
        uloop chk f rest isBytes (rev_append bytes rbuf)
      | Err => Err
      | Panic => Panic
      | Fuel => Fuel
      end
    end
  end.

(* Unescape, serde.go:96 *)
Definition unescape (chk : bool) (s : list Z) (isBytes : bool) : out (list Z) :=
  let s := if isBytes then s else replace_newlines s in
  if negb (existsb (Z.eqb 92) s) then Val s
  else uloop chk (S (length s)) s isBytes [].
