(* Totality of the fixed Unescape model: never Panic, never out of fuel. *)
From Coq Require Import List ZArith Bool Arith Lia.
From MV Require Import Front.Unescape.
Import ListNotations.
Open Scope Z_scope.

Lemma idx_some : forall s j, (j < length s)%nat -> exists c, idx s j = Some c.
Proof.
  intros s j H. unfold idx. destruct (nth_error s j) eqn:E; eauto.
  apply nth_error_None in E. lia.
Qed.

Lemma idx_none : forall s j, idx s j = None -> (length s <= j)%nat.
Proof. intros s j H. apply nth_error_None. exact H. Qed.

Lemma from_some : forall s n, (n <= length s)%nat -> from s n = Some (skipn n s).
Proof. intros s n H. unfold from. apply Nat.leb_le in H. rewrite H. reflexivity. Qed.

Lemma from_none : forall s n, from s n = None -> (length s < n)%nat.
Proof.
  intros s n H. unfold from in H. destruct (n <=? length s)%nat eqn:E; [discriminate|].
  apply Nat.leb_gt in E. exact E.
Qed.

Lemma from_len : forall s n t, from s n = Some t -> (n <= length s)%nat /\ length t = (length s - n)%nat.
Proof.
  intros s n t H. unfold from in H. destruct (n <=? length s)%nat eqn:E; [|discriminate].
  inversion H; subst. apply Nat.leb_le in E. split; [exact E|]. apply skipn_length.
Qed.

(* DecodeRuneInString consumes at least one and at most len(s) bytes of a non-empty string *)
Lemma decode_rune_size : forall s, s <> [] ->
  (1 <= snd (decode_rune s) <= length s)%nat.
Proof.
  intros s Hs. destruct s as [|b0 t]; [congruence|]. unfold decode_rune.
  destruct (b0 <? 128); [simpl; lia|].
  destruct ((194 <=? b0) && (b0 <=? 223)).
  { destruct t as [|b1 t]; [simpl; lia|]. destruct (cont b1); simpl; lia. }
  destruct ((224 <=? b0) && (b0 <=? 239)).
  { destruct t as [|b1 [|b2 t]]; try (simpl; lia).
    match goal with |- context [if ?c then _ else _] => destruct c end; simpl; lia. }
  destruct ((240 <=? b0) && (b0 <=? 244)).
  { destruct t as [|b1 [|b2 [|b3 t]]]; try (simpl; lia).
    match goal with |- context [if ?c then _ else _] => destruct c end; simpl; lia. }
  simpl; lia.
Qed.

(* ---- the hex loop *)
(* statement with the stopping condition made explicit: once j > 7 the loop stops at the next test *)
Lemma uhex_ok : forall fuel s j v,
  (1 <= fuel)%nat -> (9 <= fuel + j)%nat ->
  uhex true fuel s j v = Err \/
  exists j' v', uhex true fuel s j v = Val (j', v') /\ (j <= j')%nat.
Proof.
  induction fuel as [|f IH]; intros s j v H1 Hf; [lia|].
  cbn [uhex].
  destruct (j <? length s)%nat eqn:Hlt.
  - apply Nat.ltb_lt in Hlt. destruct (idx_some s j Hlt) as [c Hc]. rewrite Hc.
    destruct (c =? 125); [right; eauto|].
    destruct (j <=? 7)%nat eqn:H7.
    + apply Nat.leb_le in H7. destruct (unhex c); [|left; reflexivity].
      destruct (IH s (S j) (v * 16 + z)) as [E|[j' [v' [E Hj]]]]; try lia.
      * left; exact E.
      * right. exists j', v'. split; [exact E|lia].
    + right; eauto.
  - right; eauto.
Qed.

Definition good {A} (o : out A) : Prop := match o with Val _ => True | Err => True | _ => False end.

Lemma ucase_ok : forall s,
  ucase true s = Err \/
  exists v t, ucase true s = Val (v, true, t) /\ (length t < length s)%nat.
Proof.
  intros s. unfold ucase.
  destruct (length s =? 0)%nat eqn:H0; [left; reflexivity|].
  apply Nat.eqb_neq in H0.
  destruct (idx_some s 0) as [c Hc]; [lia|]. rewrite Hc.
  destruct (c =? 123); [|left; reflexivity].
  destruct (uhex_ok 9 s 1 0) as [E|[j [v [E Hj]]]]; try lia.
  - rewrite E. left; reflexivity.
  - rewrite E.
    destruct (length s <=? j)%nat eqn:Hl; [left; reflexivity|].
    apply Nat.leb_gt in Hl.
    destruct (idx_some s j Hl) as [c' Hc']. rewrite Hc'.
    destruct (c' =? 125); [|left; reflexivity].
    rewrite (from_some s (S j)) by lia.
    destruct (1114111 <? v); [left; reflexivity|].
    right. exists v, (skipn (S j) s). split; [reflexivity|].
    rewrite skipn_length. lia.
Qed.

(* unescapeCharPrefix on a non-empty string: a value whose tail is strictly shorter, or an error *)
Lemma ucp_ok : forall s isBytes, s <> [] ->
  ucp true s isBytes = Err \/
  exists c enc t, ucp true s isBytes = Val (c, enc, t) /\ (length t < length s)%nat.
Proof.
  intros s isBytes Hs. unfold ucp.
  assert (Hlen : (0 < length s)%nat) by (destruct s; [congruence|simpl; lia]).
  destruct (idx_some s 0 Hlen) as [c Hc]. rewrite Hc.
  destruct (128 <=? c).
  { pose proof (decode_rune_size s Hs) as Hd. destruct (decode_rune s) as [r size]. simpl in Hd.
    rewrite (from_some s size) by lia. right. do 3 eexists. split; [reflexivity|].
    rewrite skipn_length. lia. }
  destruct (negb (c =? 92)).
  { rewrite (from_some s 1) by lia. right. do 3 eexists. split; [reflexivity|].
    rewrite skipn_length. lia. }
  destruct (length s <=? 1)%nat eqn:H1; [left; reflexivity|].
  apply Nat.leb_gt in H1.
  destruct (idx_some s 1) as [c1 Hc1]; [lia|]. rewrite Hc1.
  rewrite (from_some s 2) by lia.
  assert (Hs2 : length (skipn 2 s) = (length s - 2)%nat) by apply skipn_length.
  set (s2 := skipn 2 s) in *.
  assert (Hsimple : forall v, exists c enc t, @Val (Z * bool * list Z) (v, false, s2) = Val (c, enc, t) /\ (length t < length s)%nat).
  { intros v. do 3 eexists. split; [reflexivity|]. lia. }
  destruct ((c1 =? 10) || (c1 =? 110)); [right; apply Hsimple|].
  destruct (c1 =? 116); [right; apply Hsimple|].
  destruct ((c1 =? 92) || (c1 =? 39) || (c1 =? 34) || (c1 =? 96)); [right; apply Hsimple|].
  destruct (c1 =? 120).
  { destruct (length s2 <? 2)%nat eqn:H2; [left; reflexivity|].
    apply Nat.ltb_ge in H2.
    destruct (idx_some s2 0) as [a Ha]; [lia|]. destruct (idx_some s2 1) as [b Hb]; [lia|].
    rewrite Ha, Hb.
    destruct (unhex a); [|left; reflexivity].
    destruct (unhex b); [|left; reflexivity].
    destruct (negb isBytes && (128 <=? z * 16 + z0)); [left; reflexivity|].
    rewrite (from_some s2 2) by lia. right. do 3 eexists. split; [reflexivity|].
    rewrite skipn_length. lia. }
  destruct (c1 =? 117); [|left; reflexivity].
  destruct (ucase_ok s2) as [E|[v [t [E Ht]]]].
  - left; exact E.
  - right. exists v, true, t. split; [exact E|lia].
Qed.

Lemma uloop_ok : forall fuel s isBytes rbuf,
  (length s < fuel)%nat -> good (uloop true fuel s isBytes rbuf).
Proof.
  induction fuel as [|f IH]; intros s isBytes rbuf Hf; [lia|].
  destruct s as [|b s'].
  - simpl. exact I.
  - cbn [uloop].
    destruct (ucp_ok (b :: s') isBytes) as [E|[c [enc [t [E Ht]]]]]; [congruence| |].
    + rewrite E. exact I.
    + rewrite E. apply IH. simpl in *. lia.
Qed.

Lemma unescape_good : forall s isBytes, good (unescape true s isBytes).
Proof.
  intros s isBytes. unfold unescape.
  match goal with |- context [if negb ?c then _ else _] => destruct (negb c) end.
  - exact I.
  - apply uloop_ok. lia.
Qed.

Lemma unescape_total_lemma : forall (s : list Z) (isBytes : bool),
  (exists v, unescape true s isBytes = Val v) \/ unescape true s isBytes = Err.
Proof.
  intros s isBytes. pose proof (unescape_good s isBytes) as H.
  destruct (unescape true s isBytes); simpl in H; try contradiction; eauto.
Qed.

(* The code before fix N12a panics on `\u`, `\u{`, `\u{12` (bytes 92 117 123 49 50) and on 7 hex digits at the end of input *)
Lemma unescape_prefix_refuted_lemma :
  unescape false [92; 117] false = Panic /\
  unescape false [92; 117; 123] false = Panic /\
  unescape false [92; 117; 123; 49; 50] false = Panic /\
  unescape false [92; 117; 123; 49; 50; 51; 52; 53; 54; 55] true = Panic.
Proof. vm_compute. repeat split. Qed.
