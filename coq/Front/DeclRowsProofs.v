(* Proofs about the bound-row model (Front/DeclRows.v): a row no longer than the
   arity never indexes past the arity-sized slice; CheckDecl's row test implies that;
   a longer row of well-formed bounds does. *)
From Coq Require Import List Bool Arith Lia.
From MV Require Import Front.DeclRows.
Import ListNotations.

Lemma row_loop_no_panic : forall ar cells j sv,
  j + length cells <= ar -> fst (row_loop ar j cells sv) <> DPanic.
Proof.
  intros ar cells. induction cells as [|c r IH]; intros j sv Hlen; cbn [row_loop].
  - cbn. discriminate.
  - cbn [length] in Hlen.
    assert (Hj : (j <? ar) = true) by (apply Nat.ltb_lt; lia).
    destruct c; rewrite ?Hj; try (cbn; discriminate); apply IH; lia.
Qed.

Lemma rows_loop_no_panic : forall ar rows sv,
  (forall r, In r rows -> length r <= ar) -> fst (rows_loop ar rows sv) <> DPanic.
Proof.
  intros ar rows. induction rows as [|r rs IH]; intros sv Hall; cbn [rows_loop].
  - cbn. discriminate.
  - pose proof (row_loop_no_panic ar r 0 sv) as Hr.
    assert (Hlen : 0 + length r <= ar) by (cbn; apply Hall; left; reflexivity).
    specialize (Hr Hlen).
    destruct (row_loop ar 0 r sv) as [o sv'] eqn:E. cbn [fst] in Hr.
    destruct o.
    + apply IH. intros r' Hin. apply Hall. right. exact Hin.
    + cbn. discriminate.
    + exfalso. apply Hr. reflexivity.
Qed.

Lemma desugar_rows_total_lemma : forall desugared ar rows,
  (forall r, In r rows -> length r <= ar) -> desugar_rows desugared ar rows <> DPanic.
Proof.
  intros desugared ar rows Hall. unfold desugar_rows.
  destruct desugared; [discriminate|].
  pose proof (rows_loop_no_panic ar rows false Hall) as H.
  destruct (rows_loop ar rows false) as [o sv]. cbn [fst] in H.
  destruct o; [destruct sv; discriminate | discriminate | exfalso; apply H; reflexivity].
Qed.

Lemma check_rows_lengths : forall synthetic ar rows,
  check_rows synthetic ar rows = true -> forall r, In r rows -> length r = ar.
Proof.
  intros synthetic ar rows H r Hin. unfold check_rows, check_rows_with in H. cbn [andb] in H.
  rewrite forallb_forall in H. specialize (H r Hin). unfold row_ok in H.
  apply andb_true_iff in H. destruct H as [H _]. apply Nat.eqb_eq in H. exact H.
Qed.

Lemma front_decl_total_lemma : forall synthetic desugared ar rows,
  front_decl synthetic desugared ar rows <> DPanic.
Proof.
  intros synthetic desugared ar rows. unfold front_decl, front_decl_with.
  fold (check_rows synthetic ar rows).
  destruct (check_rows synthetic ar rows) eqn:E; [|discriminate].
  apply desugar_rows_total_lemma. intros r Hin.
  rewrite (check_rows_lengths synthetic ar rows E r Hin). apply le_n.
Qed.

(* the other direction: a row of well-formed bounds longer than the arity does index past the slice *)
Lemma row_loop_long_panics : forall ar k j sv,
  j <= ar -> ar < j + k -> row_loop ar j (repeat CW k) sv = (DPanic, sv).
Proof.
  intros ar k. induction k as [|k IH]; intros j sv Hj Hk.
  - lia.
  - cbn [repeat row_loop].
    destruct (j <? ar) eqn:E.
    + apply Nat.ltb_lt in E. apply IH; lia.
    + reflexivity.
Qed.

Lemma desugar_rows_long_panics_lemma : forall ar k,
  ar < k -> desugar_rows false ar [repeat CW k] = DPanic.
Proof.
  intros ar k Hk. unfold desugar_rows. cbn [rows_loop].
  rewrite (row_loop_long_panics ar k 0 false); [reflexivity | lia | lia].
Qed.

Lemma type_bound_total_lemma : forall synthetic rows,
  check_rows synthetic 1 rows = true -> type_bound rows = DOk.
Proof.
  intros synthetic rows H. unfold type_bound.
  assert (F : forallb (fun r : list cellk => match r with [] => false | _ => true end) rows = true).
  { apply forallb_forall. intros r Hin.
    pose proof (check_rows_lengths synthetic 1 rows H r Hin) as L.
    destruct r; [discriminate L | reflexivity]. }
  rewrite F. reflexivity.
Qed.
