(* Totality of the repaired simple-column reader model: for every table of
   library results and every list of lines, ReadInto ends in nil or an error,
   never in a panic or an allocation beyond the input. *)
From Coq Require Import List ZArith Bool Arith Lia.
From MV Require Import Front.SimpleColumn.
Import ListNotations.
Open Scope Z_scope.

Definition fine {A} (r : res A) : Prop := match r with ROk _ => True | RErr _ => True | _ => False end.

Lemma set_nth_some : forall A (l : list A) n x, (n < length l)%nat ->
  exists l', set_nth l n x = Some l' /\ length l' = length l /\
             (forall P : A -> Prop, Forall P l -> P x -> Forall P l').
Proof.
  induction l as [|h t IH]; intros n x H; simpl in H; [lia|].
  destruct n as [|n'].
  - exists (x :: t). simpl. repeat split; auto.
    intros P HF Hx. inversion HF; subst. constructor; auto.
  - destruct (IH n' x) as [t' [E [Hl HP]]]; [lia|].
    exists (h :: t'). simpl. rewrite E. repeat split; [simpl; lia|].
    intros P HF Hx. inversion HF; subst. constructor; auto.
Qed.

Lemma set_at_some : forall A (l : list A) j x, 0 <= j < Z.of_nat (length l) ->
  exists l', set_at l j x = Some l' /\ length l' = length l /\
             (forall P : A -> Prop, Forall P l -> P x -> Forall P l').
Proof.
  intros A l j x H. unfold set_at.
  destruct (j <? 0) eqn:E; [apply Z.ltb_lt in E; lia|].
  apply set_nth_some. lia.
Qed.

Lemma row_get_some : forall rows i, 0 <= i < Z.of_nat (length rows) ->
  exists r, row_get rows i = Some r /\ In r rows.
Proof.
  intros rows i H. unfold row_get.
  destruct (i <? 0) eqn:E; [apply Z.ltb_lt in E; lia|].
  destruct (nth_error rows (Z.to_nat i)) eqn:N.
  - exists r. split; [reflexivity|]. eapply nth_error_In; eauto.
  - apply nth_error_None in N. lia.
Qed.

Lemma cells_fine : forall L ar nf ls j i rows,
  0 <= j < ar -> 0 <= i < nf ->
  Forall (fun r : row => length r = Z.to_nat ar) rows ->
  Z.of_nat (length rows) = (if j =? 0 then i else nf) ->
  fine (cells fixed L ls j i ar nf rows).
Proof.
  intros L ar nf. induction ls as [|text ls IH]; intros j i rows Hj Hi HF Hlen.
  - simpl. exact I.
  - cbn [cells]. cbn [lazy_alloc chk_empty fixed andb].
    set (rows1 := if j =? 0 then rows ++ [repeat None (Z.to_nat ar)] else rows).
    assert (HF1 : Forall (fun r : row => length r = Z.to_nat ar) rows1).
    { unfold rows1. destruct (j =? 0); [|exact HF].
      apply Forall_app. split; [exact HF|]. constructor; [apply repeat_length|constructor]. }
    assert (Hlen1 : Z.of_nat (length rows1) = (if j =? 0 then i + 1 else nf)).
    { unfold rows1. destruct (j =? 0); [|exact Hlen]. rewrite app_length. simpl. lia. }
    assert (Hi1 : 0 <= i < Z.of_nat (length rows1)).
    { rewrite Hlen1. destruct (j =? 0); lia. }
    destruct (row_get_some rows1 i Hi1) as [r [Hr Hin]]. rewrite Hr.
    assert (Hrl : length r = Z.to_nat ar).
    { rewrite Forall_forall in HF1. apply HF1. exact Hin. }
    destruct text as [|c0 text']; [exact I|].
    cbn [andb]. cbv iota.
    destruct (term L (c0 :: text')) as [c| |]; try exact I.
    destruct (set_at_some _ r j (Some c)) as [r' [Er [Hl' _]]]; [lia|]. rewrite Er.
    destruct (set_at_some _ rows1 i r' Hi1) as [rows2 [E2 [Hl2 HP2]]]. rewrite E2.
    assert (HF2 : Forall (fun r : row => length r = Z.to_nat ar) rows2).
    { apply HP2; [exact HF1|lia]. }
    destruct (i + 1 <? nf) eqn:Ei.
    + apply Z.ltb_lt in Ei. apply IH; [lia|lia|exact HF2|].
      rewrite Hl2, Hlen1. destruct (j =? 0); lia.
    + apply Z.ltb_ge in Ei.
      destruct (j + 1 <? ar) eqn:Ej; [|exact I].
      apply Z.ltb_lt in Ej. apply IH; [lia|lia|exact HF2|].
      rewrite Hl2, Hlen1.
      destruct (j + 1 =? 0) eqn:E0; [apply Z.eqb_eq in E0; lia|].
      destruct (j =? 0); lia.
Qed.

Lemma read_pred_fine : forall L ls ar nf, 0 < ar -> fine (read_pred fixed L ls ar nf).
Proof.
  intros L ls ar nf Har. unfold read_pred. cbn [lazy_alloc fixed].
  destruct (0 <? nf) eqn:E; [|exact I].
  apply Z.ltb_lt in E. apply cells_fine; try lia; [constructor|reflexivity].
Qed.

(* every predicate that leaves the header has 0 <= arity <= 1024 *)
Lemma header_loop_arity : forall V L ls i np acc ps ls',
  Forall (fun p : pred => 0 <= snd (fst p)) acc ->
  header_loop V L ls i np acc = ROk (ps, ls') ->
  Forall (fun p : pred => 0 <= snd (fst p)) ps.
Proof.
  intros V L. induction ls as [|l ls IH]; intros i np acc ps ls' Hacc H.
  - simpl in H. destruct (np <=? i); [|discriminate].
    inversion H; subst. apply Forall_rev. exact Hacc.
  - cbn [header_loop] in H. destruct (np <=? i).
    { inversion H; subst. apply Forall_rev. exact Hacc. }
    destruct (sscan L l) as [[[name ar] nf]|]; [|discriminate].
    destruct (negb (name_ok L name)); [discriminate|].
    destruct ((ar <? 0) || (max_arity <? ar)) eqn:Ea; [discriminate|].
    destruct (chk_neg V && (nf <? 0)); [discriminate|].
    destruct (max_facts <? nf); [discriminate|].
    eapply IH; [|exact H]. constructor; [|exact Hacc].
    simpl. apply orb_false_iff in Ea. destruct Ea as [Ea _]. apply Z.ltb_ge in Ea. exact Ea.
Qed.

Lemma header_loop_fine : forall V L ls i np acc, fine (header_loop V L ls i np acc).
Proof.
  intros V L. induction ls as [|l ls IH]; intros i np acc.
  - simpl. destruct (np <=? i); exact I.
  - cbn [header_loop]. destruct (np <=? i); [exact I|].
    destruct (sscan L l) as [[[name ar] nf]|]; [|exact I].
    destruct (negb (name_ok L name)); [exact I|].
    destruct ((ar <? 0) || (max_arity <? ar)); [exact I|].
    destruct (chk_neg V && (nf <? 0)); [exact I|].
    destruct (max_facts <? nf); [exact I|].
    apply IH.
Qed.

Lemma read_preds_fine : forall L ps ls added,
  Forall (fun p : pred => 0 <= snd (fst p)) ps ->
  fine (snd (read_preds fixed L ps ls added)).
Proof.
  intros L. induction ps as [|[[name ar] nf] ps IH]; intros ls added HF.
  - simpl. exact I.
  - cbn [read_preds]. inversion HF as [|? ? Hp HF']; subst. simpl in Hp.
    destruct (ar =? 0) eqn:E0; [apply IH; exact HF'|].
    apply Z.eqb_neq in E0.
    pose proof (read_pred_fine L ls ar nf) as Hf.
    destruct (read_pred fixed L ls ar nf) as [[rows ls']| | |].
    + apply IH; exact HF'.
    + exact I.
    + apply Hf; lia.
    + apply Hf; lia.
Qed.

Lemma read_into_fine : forall L ls, fine (snd (read_into fixed L ls)).
Proof.
  intros L ls. unfold read_into.
  destruct (read_header fixed L ls) as [[ps ls']| | |] eqn:EH.
  - apply read_preds_fine. unfold read_header in EH.
    destruct ls as [|l0 ls0]; [discriminate|].
    destruct (atoi L l0); [|discriminate].
    destruct (z <? 0); [discriminate|]. destruct (max_num_preds <? z); [discriminate|].
    eapply header_loop_arity; [|exact EH]. constructor.
  - exact I.
  - unfold read_header in EH.
    destruct ls as [|l0 ls0]; [discriminate|].
    destruct (atoi L l0); [|discriminate].
    destruct (z <? 0); [discriminate|]. destruct (max_num_preds <? z); [discriminate|].
    pose proof (header_loop_fine fixed L ls0 0 z []) as Hf. rewrite EH in Hf. exact Hf.
  - unfold read_header in EH.
    destruct ls as [|l0 ls0]; [discriminate|].
    destruct (atoi L l0); [|discriminate].
    destruct (z <? 0); [discriminate|]. destruct (max_num_preds <? z); [discriminate|].
    pose proof (header_loop_fine fixed L ls0 0 z []) as Hf. rewrite EH in Hf. exact Hf.
Qed.

Lemma sc_read_total_lemma : forall (L : lib) (ls : list bytes),
  snd (read_into fixed L ls) = ROk tt \/ exists e, snd (read_into fixed L ls) = RErr e.
Proof.
  intros L ls. pose proof (read_into_fine L ls) as H.
  destruct (snd (read_into fixed L ls)) as [[]| | |]; simpl in H; try contradiction; eauto.
Qed.

(* ---- refutations of the earlier code: a concrete table and file for each panic *)
Definition demo_lib : lib := {|
  atoi := fun l => match l with [49] => Some 1 | _ => None end;                 (* "1" *)
  sscan := fun l => match l with
                    | [112; 32; 49; 32; 50] => Some ([112], 1, 2)                (* "p 1 2" *)
                    | [112; 32; 49; 32; 45; 49] => Some ([112], 1, -1)           (* "p 1 -1" *)
                    | [112; 32; 49; 32; 52; 50; 57; 52; 57; 54; 55; 50; 57; 54] => Some ([112], 1, 4294967296)
                    | _ => None end;
  name_ok := fun _ => true;
  term := fun l => TOk l |}.

Lemma sc_read_prefix_refuted_lemma :
  (* "1\np 1 2\n7\n\n": empty body line -> text[0] *)
  snd (read_into original demo_lib [[49]; [112; 32; 49; 32; 50]; [55]; []]) = RPanic /\
  (* "1\np 1 -1\n": negative count -> makeslice *)
  snd (read_into original demo_lib [[49]; [112; 32; 49; 32; 45; 49]]) = RPanic /\
  (* "1\np 1 4294967296\n": 2^32 rows requested for a file of 17 bytes, also with N12b alone (finding N20) *)
  snd (read_into only_n12 demo_lib [[49]; [112; 32; 49; 32; 52; 50; 57; 52; 57; 54; 55; 50; 57; 54]]) = ROom /\
  (* and the repaired reader answers each of the three with an error *)
  snd (read_into fixed demo_lib [[49]; [112; 32; 49; 32; 50]; [55]; []]) = RErr 1 /\
  snd (read_into fixed demo_lib [[49]; [112; 32; 49; 32; 45; 49]]) = RErr 3 /\
  snd (read_into fixed demo_lib [[49]; [112; 32; 49; 32; 52; 50; 57; 52; 57; 54; 55; 50; 57; 54]]) = RErr 1.
Proof. vm_compute. repeat split. Qed.
