(* C07 proofs: reducers do not depend on the order of the rows. *)
From Coq Require Import List ZArith Bool Lia Permutation.
From MV Require Import Builtin.Const Builtin.Fn Builtin.ArithProofs Builtin.StructProofs.
Import ListNotations.
Open Scope Z_scope.

(* ---- count ---- *)
Lemma count_perm_l : forall rows rows', Permutation rows rows' -> reduce RCount rows = reduce RCount rows'.
Proof. intros. unfold reduce. rewrite (Permutation_length H). reflexivity. Qed.

(* ---- folding an associative commutative operation over a non-empty multiset ---- *)
Section Fold.
  Variable f : Z -> Z -> Z.
  Hypothesis f_comm : forall a b, f a b = f b a.
  Hypothesis f_assoc : forall a b c, f (f a b) c = f a (f b c).

  Lemma fold_perm_tail : forall l l', Permutation l l' -> forall x, fold_left f l x = fold_left f l' x.
  Proof.
    intros l l' H. induction H as [|y l l' H IH|a b l|l1 l2 l3 H1 IH1 H2 IH2]; intro x; simpl.
    - reflexivity.
    - apply IH.
    - f_equal. rewrite !f_assoc. f_equal. apply f_comm.
    - rewrite IH1. apply IH2.
  Qed.

  Definition red1 (m : list Z) : option Z :=
    match m with [] => None | y :: r => Some (fold_left f r y) end.

  Lemma red1_perm : forall m m', Permutation m m' -> red1 m = red1 m'.
  Proof.
    intros m m' H. induction H as [|y l l' H IH|a b l|l1 l2 l3 H1 IH1 H2 IH2]; simpl.
    - reflexivity.
    - f_equal. apply fold_perm_tail. assumption.
    - f_equal. simpl. f_equal. apply f_comm.
    - congruence.
  Qed.
End Fold.

Lemma combine_comm : forall o a b, combine o a b = combine o b a.
Proof. destruct o; intros; simpl; [apply Z.max_comm | apply Z.min_comm | f_equal; lia]. Qed.
Lemma combine_assoc : forall o a b c, combine o (combine o a b) c = combine o a (combine o b c).
Proof.
  destruct o; intros; simpl; [symmetry; apply Z.max_assoc | symmetry; apply Z.min_assoc |].
  rewrite wrap_add_l, wrap_add_r. f_equal. lia.
Qed.

(* typed_vals under permutation *)
Definition tv_rel (a b : option (list Z)) : Prop :=
  match a, b with
  | Some x, Some y => Permutation x y
  | None, None => True
  | _, _ => False
  end.
Lemma tv_rel_refl : forall a, tv_rel a a.
Proof. destruct a; simpl; [apply Permutation_refl | exact I]. Qed.
Lemma tv_rel_trans : forall a b c, tv_rel a b -> tv_rel b c -> tv_rel a c.
Proof.
  destruct a, b, c; simpl; intros; try contradiction; try exact I.
  eapply perm_trans; eassumption.
Qed.

Lemma typed_vals_perm : forall t l l', Permutation l l' -> tv_rel (typed_vals t l) (typed_vals t l').
Proof.
  intros t l l' H. induction H as [|y l l' H IH|a b l|l1 l2 l3 H1 IH1 H2 IH2].
  - simpl. apply Permutation_refl.
  - simpl. destruct (get_num t y); [|destruct (typed_vals t l), (typed_vals t l'); simpl in *; tauto].
    destruct (typed_vals t l), (typed_vals t l'); simpl in *; try contradiction; try exact I.
    apply perm_skip. assumption.
  - simpl. destruct (get_num t a), (get_num t b), (typed_vals t l); simpl; try exact I.
    apply perm_swap.
  - eapply tv_rel_trans; eassumption.
Qed.

Lemma reduce_num_red1 : forall t o l,
  reduce_num t o l =
  match typed_vals t l with
  | None => Err
  | Some vs => match red1 (combine o) vs with
               | None => Val (mk_num t (red_empty o))
               | Some r => Val (mk_num t r)
               end
  end.
Proof. intros. unfold reduce_num. destruct (typed_vals t l) as [[|x r]|]; reflexivity. Qed.

Lemma reduce_num_perm : forall t o l l', Permutation l l' -> reduce_num t o l = reduce_num t o l'.
Proof.
  intros t o l l' H. rewrite !reduce_num_red1.
  pose proof (typed_vals_perm t l l' H) as R.
  destruct (typed_vals t l), (typed_vals t l'); simpl in R; try contradiction; try reflexivity.
  rewrite (red1_perm (combine o) (combine_comm o) (combine_assoc o) _ _ R). reflexivity.
Qed.

Lemma sum_min_max_perm_l : forall t o rows rows', Permutation rows rows' ->
  reduce (RNum t o) rows = reduce (RNum t o) rows'.
Proof. intros. unfold reduce. apply reduce_num_perm. apply Permutation_map. assumption. Qed.

(* the list forms fn:sum([..]) etc. use the same reducer *)
Lemma list_reducer_perm_l : forall t o l l', Permutation l l' ->
  apply_fn (FListRed t o) [of_list l] = apply_fn (FListRed t o) [of_list l'].
Proof. intros. unfold apply_fn. rewrite !list_elems_of_list. apply reduce_num_perm. assumption. Qed.

(* value of the sum: the wrapped mathematical sum *)
Lemma typed_vals_map : forall t vs, typed_vals t (map (mk_num t) vs) = Some vs.
Proof. induction vs as [|v vs IH]; simpl; [reflexivity|]. rewrite get_mk_num, IH. reflexivity. Qed.

Lemma sum_value_l : forall t vs, Forall in64 vs ->
  reduce_num t RSum (map (mk_num t) vs) = Val (mk_num t (wrap (fold_right Z.add 0 vs))).
Proof.
  intros t vs Hin. unfold reduce_num. rewrite typed_vals_map.
  destruct vs as [|x [|y r]]; [reflexivity | |].
  - simpl. inversion Hin; subst. rewrite Z.add_0_r, wrap_id by assumption. reflexivity.
  - change (fold_left (combine RSum) (y :: r) x) with (fold_left (fun s v => wrap (s + v)) (y :: r) x).
    rewrite fold_add_ne by discriminate. reflexivity.
Qed.

Lemma fold_min_le : forall l x, fold_left Z.min l x <= x /\ (forall y, In y l -> fold_left Z.min l x <= y)
                                /\ In (fold_left Z.min l x) (x :: l).
Proof.
  induction l as [|z l IH]; intro x; simpl.
  - repeat split; [lia | intros y [] | left; reflexivity].
  - destruct (IH (Z.min x z)) as [H1 [H2 H3]]. repeat split.
    + lia.
    + intros y [->|Hy]; [lia | apply H2; assumption].
    + destruct H3 as [H3|H3]; [|right; right; assumption].
      rewrite <- H3. destruct (Z.min_spec x z) as [[_ ->]|[_ ->]]; [left | right; left]; reflexivity.
Qed.
Lemma fold_max_ge : forall l x, x <= fold_left Z.max l x /\ (forall y, In y l -> y <= fold_left Z.max l x)
                                /\ In (fold_left Z.max l x) (x :: l).
Proof.
  induction l as [|z l IH]; intro x; simpl.
  - repeat split; [lia | intros y [] | left; reflexivity].
  - destruct (IH (Z.max x z)) as [H1 [H2 H3]]. repeat split.
    + lia.
    + intros y [->|Hy]; [lia | apply H2; assumption].
    + destruct H3 as [H3|H3]; [|right; right; assumption].
      rewrite <- H3. destruct (Z.max_spec x z) as [[_ ->]|[_ ->]]; [right; left | left]; reflexivity.
Qed.

Lemma min_max_value_l : forall t x vs,
  (exists m, reduce_num t RMin (map (mk_num t) (x :: vs)) = Val (mk_num t m)
             /\ In m (x :: vs) /\ forall y, In y (x :: vs) -> m <= y) /\
  (exists m, reduce_num t RMax (map (mk_num t) (x :: vs)) = Val (mk_num t m)
             /\ In m (x :: vs) /\ forall y, In y (x :: vs) -> y <= m).
Proof.
  intros t x vs. unfold reduce_num. rewrite typed_vals_map. split.
  - exists (fold_left Z.min vs x). destruct (fold_min_le vs x) as [H1 [H2 H3]].
    split; [reflexivity|]. split; [assumption|]. intros y [<-|Hy]; [assumption | apply H2; assumption].
  - exists (fold_left Z.max vs x). destruct (fold_max_ge vs x) as [H1 [H2 H3]].
    split; [reflexivity|]. split; [assumption|]. intros y [<-|Hy]; [assumption | apply H2; assumption].
Qed.

(* ---- collect / collect_distinct ---- *)
Lemma tuples_perm : forall rows rows', Permutation rows rows' -> Permutation (tuples rows) (tuples rows').
Proof.
  intros rows rows' H. induction H as [|y l l' H IH|a b l|l1 l2 l3 H1 IH1 H2 IH2]; simpl.
  - apply Permutation_refl.
  - destruct (tuple_row y); [apply perm_skip|]; assumption.
  - destruct (tuple_row a), (tuple_row b); try apply Permutation_refl. apply perm_swap.
  - eapply perm_trans; eassumption.
Qed.

Lemma existsb_eqb_In' : forall x l, existsb (const_eqb x) l = true <-> In x l.
Proof.
  intros. rewrite existsb_exists. split.
  - intros [y [Hin He]]. apply const_eqb_spec in He. subst. assumption.
  - intro H. exists x. split; [assumption | apply const_eqb_refl].
Qed.

Lemma dedup_in : forall l x, In x (dedup_keep_last l) <-> In x l.
Proof.
  induction l as [|y l IH]; intro x; simpl; [tauto|].
  destruct (existsb (const_eqb y) (dedup_keep_last l)) eqn:E.
  - rewrite IH. split; [tauto|]. intros [<-|H]; [|assumption].
    apply IH. apply existsb_eqb_In'. assumption.
  - simpl. rewrite IH. tauto.
Qed.

Lemma dedup_nodup : forall l, NoDup (dedup_keep_last l).
Proof.
  induction l as [|y l IH]; simpl; [constructor|].
  destruct (existsb (const_eqb y) (dedup_keep_last l)) eqn:E; [assumption|].
  constructor; [|assumption]. intro H. apply existsb_eqb_In' in H. congruence.
Qed.

Lemma collect_distinct_perm_l : forall rows rows', Permutation rows rows' ->
  exists l l', reduce RCollectDistinct rows = Val (of_list l)
            /\ reduce RCollectDistinct rows' = Val (of_list l')
            /\ NoDup l /\ NoDup l'
            /\ (forall x, In x l <-> In x (tuples rows))
            /\ (forall x, In x l <-> In x l').
Proof.
  intros rows rows' H. exists (dedup_keep_last (tuples rows)), (dedup_keep_last (tuples rows')).
  split; [reflexivity|]. split; [reflexivity|].
  split; [apply dedup_nodup|]. split; [apply dedup_nodup|].
  split; [intro x; apply dedup_in|].
  intro x. rewrite !dedup_in. split; intro Hx.
  - eapply Permutation_in; [apply tuples_perm; eassumption | assumption].
  - eapply Permutation_in; [apply Permutation_sym, tuples_perm; eassumption | assumption].
Qed.

Lemma collect_l : forall rows, reduce RCollect rows = Val (of_list (tuples rows)).
Proof. reflexivity. Qed.

(* ---- avg ---- *)
Definition sum_abs (l : list Z) : Z := fold_right (fun v s => Z.abs v + s) 0 l.
Definition p53 : Z := 9007199254740992.

Lemma sum_abs_nonneg : forall l, 0 <= sum_abs l.
Proof. induction l; simpl; lia. Qed.
Lemma sum_abs_perm : forall l l', Permutation l l' -> sum_abs l = sum_abs l'.
Proof. intros l l' H. induction H; simpl; lia. Qed.
Lemma sum_perm : forall l l', Permutation l l' -> fold_right Z.add 0 l = fold_right Z.add 0 l'.
Proof. intros l l' H. induction H; simpl; lia. Qed.
Lemma abs_sum_le : forall l, Z.abs (fold_right Z.add 0 l) <= sum_abs l.
Proof. induction l; simpl; lia. Qed.

Section AvgProof.
  Context {F : Type} (of_int : Z -> F) (fadd fdiv : F -> F -> F) (nan : F).
  (* float64 addition of two integers is exact while operands and result are within +-2^53 *)
  Hypothesis fadd_exact : forall a b, Z.abs a <= p53 -> Z.abs b <= p53 -> Z.abs (a + b) <= p53 ->
    fadd (of_int a) (of_int b) = of_int (a + b).

  Lemma avg_sum_exact : forall l acc, Z.abs acc + sum_abs l <= p53 ->
    avg_sum of_int fadd (of_int acc) l = of_int (acc + fold_right Z.add 0 l).
  Proof.
    induction l as [|v l IH]; intros acc H; simpl in *.
    - f_equal. lia.
    - pose proof (sum_abs_nonneg l).
      rewrite fadd_exact by lia. rewrite IH by lia. f_equal. lia.
  Qed.

  Lemma avg_nums_value : forall l, l <> [] -> sum_abs l <= p53 ->
    avg_nums of_int fadd fdiv nan l =
    fdiv (of_int (fold_right Z.add 0 l)) (of_int (Z.of_nat (length l))).
  Proof.
    intros l Hne H. unfold avg_nums. destruct l as [|x r]; [congruence|].
    rewrite avg_sum_exact by (simpl in *; lia). reflexivity.
  Qed.

  Lemma avg_perm_l : forall l l', Permutation l l' -> sum_abs l <= p53 ->
    avg_nums of_int fadd fdiv nan l = avg_nums of_int fadd fdiv nan l'.
  Proof.
    intros l l' Hp H. destruct l as [|x r].
    - apply Permutation_nil in Hp. subst. reflexivity.
    - assert (Hne' : l' <> []) by (intro E; subst; apply Permutation_sym, Permutation_nil in Hp; discriminate).
      rewrite avg_nums_value by (try discriminate; assumption).
      rewrite avg_nums_value by (try assumption; rewrite <- (sum_abs_perm _ _ Hp); assumption).
      rewrite (sum_perm _ _ Hp), (Permutation_length Hp). reflexivity.
  Qed.
End AvgProof.
