(* C07 model, part 2: the built-in functions (functional/functional.go EvalApplyFn,
   EvalNumericApplyFn, EvalReduceFn) and predicates (builtin/builtin.go Decide, match) that
   the laws of C07 mention. Arguments are already evaluated constants. evalDiv is modelled
   after fix N11 (fixes/N11.patch); the pre-fix variant is eval_div_old.
   No proofs in this file. *)
From Coq Require Import List ZArith Bool.
From MV Require Import Builtin.Const.
Import ListNotations.
Open Scope Z_scope.

(* outcome of a function application: a value, an error (any Go error), or "this argument
   shape is outside the model" (float formatting, string:replace with an empty pattern) *)
Inductive res := Val (c : const) | Err | Unmodelled.

(* ---------------------------------------------------------------- arithmetic *)
(* NumberValue of every argument, None at the first non-number *)
Fixpoint num_args (l : list const) : option (list Z) :=
  match l with
  | [] => Some []
  | CNum n :: l' => match num_args l' with Some r => Some (n :: r) | None => None end
  | _ => None
  end.

(* evalPlus functional.go:1121, evalMult :1109 *)
Definition sum_wrap (l : list Z) : Z := fold_left (fun s v => wrap (s + v)) l 0.
Definition prod_wrap (l : list Z) : Z := fold_left (fun p v => wrap (p * v)) l 1.
(* evalMinus :1133 *)
Definition minus_wrap (l : list Z) : option Z :=
  match l with
  | [] => None
  | [a] => Some (wrap (- a))
  | a :: rest => Some (fold_left (fun d v => wrap (d - v)) rest a)
  end.
(* Go's int64 x / y and x % y for y <> 0 (truncated; MinInt64 / -1 wraps to MinInt64) *)
Definition div64 (x y : Z) : Z := wrap (Z.quot x y).
Definition mod64 (x y : Z) : Z := Z.rem x y.
(* the loop of evalDiv :1001 after fix N11: every divisor is tested *)
Fixpoint div_loop (acc : Z) (ds : list Z) : option Z :=
  match ds with
  | [] => Some acc
  | d :: ds' => if d =? 0 then None else div_loop (div64 acc d) ds'
  end.
(* evalDiv :979 after fix N11 *)
Definition div_wrap (l : list Z) : option Z :=
  match l with
  | [] => None
  | [v] => if v =? 0 then None else Some (div64 1 v)
  | a :: ds => div_loop a ds
  end.
(* evalDiv before fix N11: unary form by cases 0 / 1 / other, loop leaves at quotient 0 *)
Fixpoint div_loop_old (acc : Z) (ds : list Z) : option Z :=
  match ds with
  | [] => Some acc
  | d :: ds' => if d =? 0 then None else
                let q := div64 acc d in if q =? 0 then Some 0 else div_loop_old q ds'
  end.
Definition div_wrap_old (l : list Z) : option Z :=
  match l with
  | [] => None
  | [v] => if v =? 0 then None else if v =? 1 then Some 1 else Some 0
  | a :: ds => div_loop_old a ds
  end.
(* evalMod :1017 *)
Definition mod_wrap (l : list Z) : option Z :=
  match l with
  | [x; y] => if y =? 0 then None else Some (mod64 x y)
  | _ => None
  end.

(* the binary int64 operations *)
Definition add64 (a b : Z) : Z := wrap (a + b).
Definition mul64 (a b : Z) : Z := wrap (a * b).
Definition neg64 (a : Z) : Z := wrap (- a).
Definition sub64 (a b : Z) : Z := wrap (a - b).

Definition num_res (o : option Z) : res := match o with Some n => Val (CNum n) | None => Err end.
Definition on_nums (f : list Z -> option Z) (args : list const) : res :=
  match num_args args with Some l => num_res (f l) | None => Err end.

(* ---------------------------------------------------------------- list reducers *)
Inductive numty := TNum | TTime | TDur.
Definition mk_num (t : numty) (n : Z) : const :=
  match t with TNum => CNum n | TTime => CTime n | TDur => CDur n end.
Definition get_num (t : numty) (c : const) : option Z :=
  match t, c with
  | TNum, CNum n | TTime, CTime n | TDur, CDur n => Some n
  | _, _ => None
  end.
Fixpoint typed_vals (t : numty) (l : list const) : option (list Z) :=
  match l with
  | [] => Some []
  | c :: l' => match get_num t c, typed_vals t l' with
               | Some n, Some r => Some (n :: r)
               | _, _ => None
               end
  end.
Inductive redop := RMax | RMin | RSum.
Definition combine (o : redop) (acc v : Z) : Z :=
  match o with RMax => Z.max acc v | RMin => Z.min acc v | RSum => wrap (acc + v) end.
Definition red_empty (o : redop) : Z :=
  match o with RMax => min64 | RMin => max64 | RSum => 0 end.
(* reduceNum functional.go:1380 with the instances :1423-1453 *)
Definition reduce_num (t : numty) (o : redop) (l : list const) : res :=
  match typed_vals t l with
  | None => Err
  | Some [] => Val (mk_num t (red_empty o))
  | Some (x :: rest) => Val (mk_num t (fold_left (combine o) rest x))
  end.

(* ---------------------------------------------------------------- strings, names *)
(* strings.HasPrefix *)
Fixpoint is_prefix (p s : bytes) : bool :=
  match p, s with
  | [], _ => true
  | x :: p', y :: s' => (x =? y) && is_prefix p' s'
  | _ :: _, [] => false
  end.
(* strings.HasSuffix *)
Definition is_suffix (p s : bytes) : bool := is_prefix (rev p) (rev s).
(* strings.Contains *)
Fixpoint is_infix (p s : bytes) : bool :=
  is_prefix p s || match s with [] => false | _ :: s' => is_infix p s' end.

(* fmt.Sprintf("%d", n) (ast.FormatNumber) *)
Fixpoint pos_digits (fuel : nat) (n : Z) (acc : bytes) : bytes :=
  match fuel with
  | O => acc
  | S f => if n <? 10 then (48 + n) :: acc else pos_digits f (n / 10) ((48 + n mod 10) :: acc)
  end.
Definition fmt_num (n : Z) : bytes :=
  if n <? 0 then 45 :: pos_digits 20 (- n) [] else pos_digits 20 n [].

Definition slash : Z := 47.
(* fn:name:root functional.go:269: up to the second '/' *)
Fixpoint take_to_slash (s : bytes) : bytes :=
  match s with
  | [] => []
  | b :: s' => if b =? slash then [] else b :: take_to_slash s'
  end.
Definition name_root (s : bytes) : bytes :=
  match s with [] => [] | b :: s' => b :: take_to_slash s' end.
(* fn:name:list :299: the parts, each with its leading '/', scanning from the end; bytes
   before the first '/' are dropped. State: (current part without its slash, parts so far) *)
Definition parts_step (b : Z) (st : bytes * list bytes) : bytes * list bytes :=
  if b =? slash then ([], (slash :: fst st) :: snd st) else (b :: fst st, snd st).
Definition name_parts (s : bytes) : list bytes := snd (fold_right parts_step ([], []) s).
(* fn:name:tip :284: from the last '/' *)
Definition name_tip (s : bytes) : bytes := last (name_parts s) s.

(* evalToString :1332 *)
Definition to_string (c : const) : option (option bytes) :=   (* None = error, Some None = unmodelled *)
  match c with
  | CStr s => Some (Some s)
  | CName s => Some (Some s)
  | CNum n => Some (Some (fmt_num n))
  | CFloat _ => Some None
  | _ => None
  end.
Fixpoint concat_strings (l : list const) (acc : bytes) : res :=
  match l with
  | [] => Val (CStr acc)
  | c :: l' => match to_string c with
               | None => Err
               | Some None => match concat_strings l' acc with Err => Err | _ => Unmodelled end
               | Some (Some s) => concat_strings l' (acc ++ s)
               end
  end.

(* strings.Replace(s, old, new, n) for non-empty old: leftmost non-overlapping occurrences,
   at most n of them when n >= 0, all when n < 0. [fuel] >= length s + 1. *)
Fixpoint drop (n : nat) (s : bytes) : bytes :=
  match n, s with O, _ => s | S n', [] => [] | S n', _ :: s' => drop n' s' end.
Fixpoint replace_go (fuel : nat) (s old new : bytes) (n : Z) : bytes :=
  match fuel with
  | O => s
  | S f =>
    if n =? 0 then s else
    match s with
    | [] => []
    | b :: s' => if is_prefix old s then new ++ replace_go f (drop (length old) s) old new (n - 1)
                 else b :: replace_go f s' old new n
    end
  end.

(* ---------------------------------------------------------------- EvalApplyFn *)
Inductive fn :=
| FAppend | FListContains | FCons | FPair | FLen | FList | FMap | FStruct | FTuple
| FListRed (t : numty) (o : redop)     (* fn:max, fn:min, fn:sum, fn:duration:*, fn:time:max/min *)
| FNumToStr | FNameRoot | FNameTip | FNameList | FNameToStr | FConcat | FReplace
| FListGet | FMapGet | FStructGet
| FTimeAdd | FTimeSub | FDurAdd | FDurMult | FDurNanos | FDurFromNanos
| FTimeFromNanos | FTimeToNanos
| FIntervalStart | FIntervalEnd | FIntervalDuration
| FDiv | FMod | FMult | FPlus | FMinus.

Definition true_c : const := CName [47; 116; 114; 117; 101].          (* /true *)
Definition false_c : const := CName [47; 102; 97; 108; 115; 101].     (* /false *)
Definition bool_c (b : bool) : const := if b then true_c else false_c.

(* key/value pairs of fn:map / fn:struct arguments; None for an odd number *)
Fixpoint pair_up (l : list const) : option (list (const * const)) :=
  match l with
  | [] => Some []
  | k :: v :: l' => match pair_up l' with Some r => Some ((k, v) :: r) | None => None end
  | _ => None
  end.

(* fn:tuple functional.go:210 for width >= 2: a :: b :: ... nested to the right *)
Fixpoint tuple_of (a : const) (rest : list const) : const :=
  match rest with
  | [] => a
  | b :: rest' => CCell SPair a (tuple_of b rest')
  end.

Definition opt_res (o : option const) : res := match o with Some c => Val c | None => Err end.

Definition apply_fn (f : fn) (args : list const) : res :=
  match f, args with
  | FAppend, [l; e] => match list_elems l with Some es => Val (of_list (es ++ [e])) | None => Err end
  | FListContains, [l; e] =>
      match list_elems l with Some es => Val (bool_c (existsb (fun c => const_eqb c e) es)) | None => Err end
  | FCons, [h; t] => if is_list t then Val (CCell SList h t) else Err
  | FPair, [a; b] => Val (CCell SPair a b)
  | FLen, [l] => match list_elems l with Some es => Val (CNum (Z.of_nat (length es))) | None => Err end
  | FList, _ => Val (of_list args)
  | FMap, _ => match pair_up args with Some kvs => Val (mk_map SMap kvs) | None => Err end
  | FStruct, _ => match pair_up args with Some kvs => Val (mk_map SStruct kvs) | None => Err end
  | FTuple, [] => Err
  | FTuple, a :: rest => Val (tuple_of a rest)
  | FListRed t o, [l] => match list_elems l with Some es => reduce_num t o es | None => Err end
  | FNumToStr, [CNum n] => Val (CStr (fmt_num n))
  | FNameRoot, [CName s] => Val (CName (name_root s))
  | FNameTip, [CName s] => Val (CName (name_tip s))
  | FNameList, [CName s] => Val (of_list (map CName (name_parts s)))
  | FNameToStr, [CName s] => Val (CStr s)
  | FConcat, _ => concat_strings args []
  | FReplace, [CStr s; CStr old; CStr new; CNum n] =>
      match old with
      | [] => Unmodelled
      | _ => Val (CStr (replace_go (S (length s)) s old new n))
      end
  | FListGet, [l; CNum i] =>
      match list_elems l with
      | Some es => if (i <? 0) || (Z.of_nat (length es) <=? i) then Err
                   else opt_res (nth_error es (Z.to_nat i))
      | None => Err
      end
  | FMapGet, [m; k] => match entries SMap m with Some es => opt_res (lookup k es) | None => Err end
  | FStructGet, [m; k] => match entries SStruct m with Some es => opt_res (lookup k es) | None => Err end
  | FTimeAdd, [CTime t; CDur d] => Val (CTime (wrap (t + d)))
  | FTimeSub, [CTime a; CTime b] => Val (CDur (wrap (a - b)))
  | FDurAdd, [CDur a; CDur b] => Val (CDur (wrap (a + b)))
  | FDurMult, [CDur d; CNum n] => Val (CDur (wrap (d * n)))
  | FDurNanos, [CDur d] => Val (CNum d)
  | FDurFromNanos, [CNum n] => Val (CDur n)
  | FTimeFromNanos, [CNum n] => Val (CTime n)
  | FTimeToNanos, [CTime n] => Val (CNum n)
  | FIntervalStart, [CCell SPair a _] => Val a
  | FIntervalEnd, [CCell SPair _ b] => Val b
  | FIntervalDuration, [CCell SPair (CTime s) (CTime e)] =>
      if (s =? min64) || (e =? max64) then Err else Val (CDur (wrap (e - s)))
  | FDiv, _ => on_nums div_wrap args
  | FMod, _ => on_nums mod_wrap args
  | FMult, _ => on_nums (fun l => Some (prod_wrap l)) args
  | FPlus, _ => on_nums (fun l => Some (sum_wrap l)) args
  | FMinus, _ => on_nums minus_wrap args
  | _, _ => Err
  end.

(* ---------------------------------------------------------------- EvalReduceFn *)
(* a row carries the values of the reducer's argument variables *)
Definition tuple_row (r : list const) : option const :=
  match r with [] => None | a :: rest => Some (tuple_of a rest) end.
Fixpoint tuples (rows : list (list const)) : list const :=
  match rows with
  | [] => []
  | r :: rows' => match tuple_row r with Some t => t :: tuples rows' | None => tuples rows' end
  end.
(* fn:collect_distinct functional.go:1170: rows are visited last to first, a tuple equal to
   one already taken is skipped, so of equal tuples the last one stays, in row order *)
Definition dedup_keep_last (l : list const) : list const :=
  fold_right (fun x acc => if existsb (const_eqb x) acc then acc else x :: acc) [] l.

Inductive red := RCollect | RCollectDistinct | RCount | RNum (t : numty) (o : redop).

Definition reduce (r : red) (rows : list (list const)) : res :=
  match r with
  | RCollect => Val (of_list (tuples rows))
  | RCollectDistinct => Val (of_list (dedup_keep_last (tuples rows)))
  | RCount => Val (CNum (Z.of_nat (length rows)))
  | RNum t o => reduce_num t o (map (fun r => hd (CNil SList) r) rows)
  end.

(* fn:avg (evalAvg functional.go:1467) over an abstract float type: [of_int] is the
   conversion float64(int64), [fadd] and [fdiv] float addition and division. Rows of
   float constants are outside the model (None of None); any other type is an error. *)
Section Avg.
  Context {F : Type} (of_int : Z -> F) (fadd fdiv : F -> F -> F) (nan : F).
  Fixpoint avg_sum (acc : F) (l : list Z) : F :=
    match l with [] => acc | v :: l' => avg_sum (fadd acc (of_int v)) l' end.
  Definition avg_nums (l : list Z) : F :=
    match l with
    | [] => nan
    | _ => fdiv (avg_sum (of_int 0) l) (of_int (Z.of_nat (length l)))
    end.
End Avg.

(* ---------------------------------------------------------------- Decide *)
Inductive parg := PVar | PConst (c : const).
(* result of Decide: error, no solution, or the solutions, each the list of values bound
   to the variable arguments in argument order *)
Inductive dres := DErr | DFalse | DTrue (sols : list (list const)).
Definition dbool (b : bool) : dres := if b then DTrue [[]] else DFalse.

Inductive cmpop := OLt | OLe | OGt | OGe.
Definition cmp (o : cmpop) (a b : Z) : bool :=
  match o with OLt => a <? b | OLe => a <=? b | OGt => a >? b | OGe => a >=? b end.

(* abs of builtin.go:736: abs(MinInt64) = MaxInt64 *)
Definition abs64 (x : Z) : Z := if x =? min64 then max64 else if x <? 0 then - x else x.

Inductive pred :=
| PCmp (t : numty) (o : cmpop)
| PListMember | PWithinDistance
| PMatchPair | PMatchCons | PMatchNil | PMatchEntry | PMatchField
| PMatchPrefix | PStartsWith | PEndsWith | PContains.

(* match_entry / match_field builtin.go:565-618 *)
Definition match_kv (sh : shape) (scrut key : const) (pat : parg) : dres :=
  match scrut with
  | CCell sh' _ _ =>
      if shape_eqb sh sh' then
        match entries sh scrut with
        | None => DErr
        | Some es =>
            match lookup key es with
            | None => DFalse
            | Some v => match pat with
                        | PVar => DTrue [[v]]
                        | PConst c => dbool (const_eqb c v)
                        end
            end
        end
      else DFalse
  | _ => DFalse
  end.

Definition str_pred (f : bytes -> bytes -> bool) (scrut : const) (pat : parg) : dres :=
  match pat with
  | PConst (CStr p) => match scrut with CStr s => dbool (f p s) | _ => DFalse end
  | _ => DErr
  end.

Definition decide (p : pred) (args : list parg) : dres :=
  match p, args with
  | PCmp t o, [PConst a; PConst b] =>
      match get_num t a, get_num t b with
      | Some x, Some y => dbool (cmp o x y)
      | _, _ => DErr
      end
  | PListMember, [PConst m; PConst l] =>
      match list_elems l with
      | Some es => dbool (existsb (fun c => const_eqb c m) es)
      | None => DErr
      end
  | PListMember, [PVar; PConst l] =>
      match list_elems l with
      | Some [] => DFalse
      | Some es => DTrue (map (fun e => [e]) es)
      | None => DFalse
      end
  | PWithinDistance, [PConst (CNum a); PConst (CNum b); PConst (CNum c)] =>
      dbool (abs64 (wrap (a - b)) <? c)
  | PMatchPair, [PConst s; PVar; PVar] =>
      match s with CCell SPair a b => DTrue [[a; b]] | _ => DFalse end
  | PMatchCons, [PConst s; PVar; PVar] =>
      match s with CCell SList h t => DTrue [[h; t]] | _ => DFalse end
  | PMatchNil, [PConst s] => match s with CNil SList => DTrue [[]] | _ => DFalse end
  | PMatchEntry, [PConst s; PConst k; pat] => match_kv SMap s k pat
  | PMatchField, [PConst s; PConst k; pat] => match_kv SStruct s k pat
  | PMatchPrefix, [PConst s; PConst (CName p)] =>
      match s with
      | CName n => dbool (is_prefix p n && (Z.of_nat (length p) <? Z.of_nat (length n)))
      | _ => DFalse
      end
  | PStartsWith, [PConst s; pat] => str_pred is_prefix s pat
  | PEndsWith, [PConst s; pat] => str_pred is_suffix s pat
  | PContains, [PConst s; pat] => str_pred is_infix s pat
  | _, _ => DErr
  end.
