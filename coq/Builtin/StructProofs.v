(* C07 proofs: structural equality, pair / list / map / struct constructors and accessors,
   string and name functions. *)
From Coq Require Import List ZArith Bool Lia Permutation.
From MV Require Import Builtin.Const Builtin.Fn.
Import ListNotations.
Open Scope Z_scope.

(* ---- equality ---- *)
Lemma bytes_eqb_spec : forall a b, bytes_eqb a b = true <-> a = b.
Proof.
  induction a as [|x a IH]; destruct b as [|y b]; simpl; split; intro H; try reflexivity; try discriminate.
  - apply andb_true_iff in H. destruct H as [H1 H2]. apply Z.eqb_eq in H1. apply IH in H2. congruence.
  - inversion H; subst. apply andb_true_iff. split; [apply Z.eqb_refl | apply IH; reflexivity].
Qed.

Lemma shape_eqb_spec : forall a b, shape_eqb a b = true <-> a = b.
Proof. destruct a, b; simpl; split; intro H; try reflexivity; try discriminate. Qed.
Lemma shape_eqb_refl : forall a, shape_eqb a a = true.
Proof. destruct a; reflexivity. Qed.

Lemma const_eqb_spec : forall x y, const_eqb x y = true <-> x = y.
Proof.
  induction x as [s|s|s|n|n|n|n|sh|sh a IHa b IHb]; destruct y; simpl; split; intro H;
    try discriminate; try reflexivity;
    try (apply bytes_eqb_spec in H; congruence);
    try (inversion H; subst; apply bytes_eqb_spec; reflexivity);
    try (apply Z.eqb_eq in H; congruence);
    try (inversion H; subst; apply Z.eqb_refl).
  - apply shape_eqb_spec in H. congruence.
  - inversion H; subst. apply shape_eqb_refl.
  - apply andb_true_iff in H. destruct H as [H H3]. apply andb_true_iff in H. destruct H as [H1 H2].
    apply shape_eqb_spec in H1. apply IHa in H2. apply IHb in H3. congruence.
  - inversion H; subst. rewrite shape_eqb_refl. simpl.
    apply andb_true_iff. split; [apply IHa | apply IHb]; reflexivity.
Qed.
Lemma const_eqb_refl : forall x, const_eqb x x = true.
Proof. intro. apply const_eqb_spec. reflexivity. Qed.

Lemma existsb_eqb_In : forall m l, existsb (fun c => const_eqb c m) l = true <-> In m l.
Proof.
  intros. rewrite existsb_exists. split.
  - intros [x [Hin He]]. apply const_eqb_spec in He. subst. assumption.
  - intro H. exists m. split; [assumption | apply const_eqb_refl].
Qed.

(* ---- pairs, lists ---- *)
Lemma match_pair_pair_l : forall a b, exists p,
  apply_fn FPair [a; b] = Val p /\ decide PMatchPair [PConst p; PVar; PVar] = DTrue [[a; b]].
Proof. intros. exists (CCell SPair a b). split; reflexivity. Qed.

Lemma match_cons_cons_l : forall h t, is_list t = true -> exists c,
  apply_fn FCons [h; t] = Val c /\ decide PMatchCons [PConst c; PVar; PVar] = DTrue [[h; t]]
  /\ decide PMatchNil [PConst c] = DFalse.
Proof.
  intros h t Ht. exists (CCell SList h t). simpl. rewrite Ht. repeat split.
Qed.

Lemma match_nil_l : decide PMatchNil [PConst (of_list [])] = DTrue [[]]
  /\ decide PMatchCons [PConst (of_list []); PVar; PVar] = DFalse.
Proof. split; reflexivity. Qed.

Lemma list_elems_of_list : forall l, list_elems (of_list l) = Some l.
Proof. induction l as [|x l IH]; simpl; [reflexivity | rewrite IH; reflexivity]. Qed.

Lemma of_list_is_list : forall l, is_list (of_list l) = true.
Proof. destruct l; reflexivity. Qed.

Lemma fn_list_l : forall l, apply_fn FList l = Val (of_list l).
Proof. reflexivity. Qed.

Lemma list_get_l : forall l i,
  apply_fn FListGet [of_list l; CNum i] =
  match (if (i <? 0) || (Z.of_nat (length l) <=? i) then None else nth_error l (Z.to_nat i)) with
  | Some x => Val x | None => Err end.
Proof.
  intros. unfold apply_fn. rewrite list_elems_of_list.
  destruct ((i <? 0) || (Z.of_nat (length l) <=? i)); [reflexivity|].
  destruct (nth_error l (Z.to_nat i)); reflexivity.
Qed.

Lemma list_get_nth : forall l n x, nth_error l n = Some x ->
  apply_fn FListGet [of_list l; CNum (Z.of_nat n)] = Val x.
Proof.
  intros l n x H. rewrite list_get_l.
  assert (Hlt : (n < length l)%nat) by (apply nth_error_Some; congruence).
  replace ((Z.of_nat n <? 0) || (Z.of_nat (length l) <=? Z.of_nat n)) with false.
  - rewrite Nat2Z.id, H. reflexivity.
  - symmetry. apply orb_false_iff. split; [apply Z.ltb_ge | apply Z.leb_gt]; lia.
Qed.

Lemma list_get_out : forall l i, (i < 0 \/ Z.of_nat (length l) <= i) ->
  apply_fn FListGet [of_list l; CNum i] = Err.
Proof.
  intros l i H. rewrite list_get_l.
  replace ((i <? 0) || (Z.of_nat (length l) <=? i)) with true; [reflexivity|].
  symmetry. apply orb_true_iff. destruct H; [left; apply Z.ltb_lt | right; apply Z.leb_le]; lia.
Qed.

Lemma list_len_l : forall l, apply_fn FLen [of_list l] = Val (CNum (Z.of_nat (length l))).
Proof. intro. unfold apply_fn. rewrite list_elems_of_list. reflexivity. Qed.

Lemma list_append_l : forall l e, apply_fn FAppend [of_list l; e] = Val (of_list (l ++ [e])).
Proof. intros. unfold apply_fn. rewrite list_elems_of_list. reflexivity. Qed.

Lemma list_member_enum : forall l,
  decide PListMember [PVar; PConst (of_list l)] =
  match l with [] => DFalse | _ => DTrue (map (fun e => [e]) l) end.
Proof. intro l. unfold decide. rewrite list_elems_of_list. destruct l; reflexivity. Qed.

Lemma list_member_check : forall l m,
  decide PListMember [PConst m; PConst (of_list l)] = DTrue [[]] <-> In m l.
Proof.
  intros. unfold decide. rewrite list_elems_of_list. rewrite <- existsb_eqb_In.
  destruct (existsb (fun c => const_eqb c m) l); simpl; split; intro H; try reflexivity; discriminate.
Qed.

Lemma list_contains_l : forall l m,
  apply_fn FListContains [of_list l; m] = Val true_c <-> In m l.
Proof.
  intros. unfold apply_fn. rewrite list_elems_of_list. rewrite <- existsb_eqb_In.
  destruct (existsb (fun c => const_eqb c m) l); simpl; split; intro H; try reflexivity; discriminate.
Qed.

(* ---- maps, structs ---- *)
Lemma entries_entry : forall sh kv m,
  entries sh (entry sh kv m) = match entries sh m with Some l => Some (kv :: l) | None => None end.
Proof.
  intros sh [k v] m. unfold entry. simpl. rewrite shape_eqb_refl. reflexivity.
Qed.

Lemma entries_lit_map : forall sh kvs, entries sh (lit_map sh kvs) = Some kvs.
Proof.
  intros sh kvs. induction kvs as [|kv kvs IH].
  - simpl. rewrite shape_eqb_refl. reflexivity.
  - change (lit_map sh (kv :: kvs)) with (entry sh kv (lit_map sh kvs)).
    rewrite entries_entry, IH. reflexivity.
Qed.

Lemma fold_left_entry : forall sh l m,
  fold_left (fun m kv => entry sh kv m) l m = fold_right (entry sh) m (rev l).
Proof.
  intros sh l. induction l as [|x l IH]; intro m; simpl; [reflexivity|].
  rewrite IH. rewrite fold_right_app. reflexivity.
Qed.

Lemma mk_map_lit : forall sh kvs, mk_map sh kvs = lit_map sh (rev (sort_by_hash kvs)).
Proof. intros. unfold mk_map, lit_map. apply fold_left_entry. Qed.

Lemma insert_perm : forall kv l, Permutation (insert_by_hash kv l) (kv :: l).
Proof.
  intros kv l. induction l as [|x l IH]; simpl; [apply Permutation_refl|].
  destruct (hash (fst kv) <? hash (fst x)); [apply Permutation_refl|].
  eapply perm_trans; [apply perm_skip, IH | apply perm_swap].
Qed.

Lemma sort_fold_perm : forall l acc,
  Permutation (fold_left (fun acc kv => insert_by_hash kv acc) l acc) (l ++ acc).
Proof.
  induction l as [|x l IH]; intro acc; simpl; [apply Permutation_refl|].
  eapply perm_trans; [apply IH|].
  eapply perm_trans; [apply Permutation_app_head, insert_perm|].
  apply Permutation_sym, Permutation_middle.
Qed.

Lemma sort_perm : forall l, Permutation (sort_by_hash l) l.
Proof. intro l. unfold sort_by_hash. rewrite <- (app_nil_r l) at 2. apply sort_fold_perm. Qed.

Lemma stored_perm : forall kvs, Permutation (rev (sort_by_hash kvs)) kvs.
Proof. intro. eapply perm_trans; [apply Permutation_sym, Permutation_rev | apply sort_perm]. Qed.

Lemma lookup_in : forall l k v, NoDup (map fst l) -> In (k, v) l -> lookup k l = Some v.
Proof.
  induction l as [|[k' v'] l IH]; intros k v Hnd Hin; [destruct Hin|].
  simpl in *. inversion Hnd as [|? ? Hnotin Hnd']; subst.
  destruct Hin as [Heq|Hin].
  - inversion Heq; subst. rewrite const_eqb_refl. reflexivity.
  - destruct (const_eqb k' k) eqn:E.
    + apply const_eqb_spec in E. subst. exfalso. apply Hnotin.
      change k with (fst (k, v)). apply in_map. assumption.
    + apply IH; assumption.
Qed.

Lemma lookup_notin : forall l k, ~ In k (map fst l) -> lookup k l = None.
Proof.
  induction l as [|[k' v'] l IH]; intros k H; [reflexivity|].
  simpl in *. destruct (const_eqb k' k) eqn:E.
  - apply const_eqb_spec in E. subst. exfalso. apply H. left. reflexivity.
  - apply IH. intro. apply H. right. assumption.
Qed.

Lemma nodup_hash_keys : forall (l : list (const * const)),
  NoDup (map (fun kv => hash (fst kv)) l) -> NoDup (map fst l).
Proof.
  intros l H. rewrite <- (map_map fst hash) in H. eapply NoDup_map_inv. exact H.
Qed.

Lemma lookup_stored : forall kvs k v,
  NoDup (map (fun kv => hash (fst kv)) kvs) -> In (k, v) kvs ->
  lookup k (rev (sort_by_hash kvs)) = Some v.
Proof.
  intros kvs k v Hnd Hin. apply lookup_in.
  - eapply Permutation_NoDup; [|apply nodup_hash_keys; exact Hnd].
    apply Permutation_map, Permutation_sym, stored_perm.
  - eapply Permutation_in; [apply Permutation_sym, stored_perm | assumption].
Qed.

Lemma lookup_stored_notin : forall kvs k, ~ In k (map fst kvs) -> lookup k (rev (sort_by_hash kvs)) = None.
Proof.
  intros kvs k H. apply lookup_notin. intro Hin. apply H.
  eapply Permutation_in; [apply Permutation_map, stored_perm | exact Hin].
Qed.

Definition get_fn (sh : shape) : fn := match sh with SStruct => FStructGet | _ => FMapGet end.
Definition match_pred (sh : shape) : pred := match sh with SStruct => PMatchField | _ => PMatchEntry end.
Definition mapish (sh : shape) : Prop := sh = SMap \/ sh = SStruct.

Lemma get_mk_map : forall sh kvs k,
  mapish sh -> apply_fn (get_fn sh) [mk_map sh kvs; k] =
  match lookup k (rev (sort_by_hash kvs)) with Some v => Val v | None => Err end.
Proof.
  intros sh kvs k [-> | ->]; unfold get_fn, apply_fn; rewrite mk_map_lit, entries_lit_map;
    destruct (lookup k (rev (sort_by_hash kvs))); reflexivity.
Qed.

Lemma map_get_l : forall sh kvs k v, mapish sh ->
  NoDup (map (fun kv => hash (fst kv)) kvs) -> In (k, v) kvs ->
  apply_fn (get_fn sh) [mk_map sh kvs; k] = Val v.
Proof. intros. rewrite get_mk_map by assumption. rewrite (lookup_stored kvs k v) by assumption. reflexivity. Qed.

Lemma map_get_absent_l : forall sh kvs k, mapish sh -> ~ In k (map fst kvs) ->
  apply_fn (get_fn sh) [mk_map sh kvs; k] = Err.
Proof. intros. rewrite get_mk_map by assumption. rewrite lookup_stored_notin by assumption. reflexivity. Qed.

Lemma match_kv_entry : forall sh kv m k pat,
  match_kv sh (entry sh kv m) k pat =
  match entries sh (entry sh kv m) with
  | None => DErr
  | Some es => match lookup k es with
               | None => DFalse
               | Some v => match pat with PVar => DTrue [[v]] | PConst c => dbool (const_eqb c v) end
               end
  end.
Proof.
  intros sh kv m k pat. unfold match_kv, entry. cbv beta iota. rewrite shape_eqb_refl. reflexivity.
Qed.

Lemma match_kv_mk_map : forall sh kvs k pat, kvs <> [] ->
  match_kv sh (mk_map sh kvs) k pat =
  match lookup k (rev (sort_by_hash kvs)) with
  | None => DFalse
  | Some v => match pat with PVar => DTrue [[v]] | PConst c => dbool (const_eqb c v) end
  end.
Proof.
  intros sh kvs k pat Hne. rewrite mk_map_lit.
  assert (Hr : rev (sort_by_hash kvs) <> []).
  { intro E. apply Hne. apply Permutation_nil. rewrite <- E. apply stored_perm. }
  destruct (rev (sort_by_hash kvs)) as [|kv0 r] eqn:E; [congruence|].
  change (lit_map sh (kv0 :: r)) with (entry sh kv0 (lit_map sh r)).
  rewrite match_kv_entry.
  change (entry sh kv0 (lit_map sh r)) with (lit_map sh (kv0 :: r)).
  rewrite entries_lit_map. reflexivity.
Qed.

Lemma match_entry_l : forall sh kvs k v, mapish sh ->
  NoDup (map (fun kv => hash (fst kv)) kvs) -> In (k, v) kvs ->
  decide (match_pred sh) [PConst (mk_map sh kvs); PConst k; PVar] = DTrue [[v]].
Proof.
  intros sh kvs k v Hm Hnd Hin.
  assert (Hne : kvs <> []) by (intro E; subst; destruct Hin).
  destruct Hm as [-> | ->]; unfold match_pred, decide; rewrite match_kv_mk_map by assumption;
    rewrite (lookup_stored kvs k v) by assumption; reflexivity.
Qed.

Lemma match_entry_absent_l : forall sh kvs k pat, mapish sh -> ~ In k (map fst kvs) ->
  decide (match_pred sh) [PConst (mk_map sh kvs); PConst k; pat] = DFalse.
Proof.
  intros sh kvs k pat Hm Hnot.
  destruct kvs as [|kv kvs'] eqn:E.
  - destruct Hm as [-> | ->]; reflexivity.
  - rewrite <- E in *. assert (Hne : kvs <> []) by (rewrite E; discriminate).
    destruct Hm as [-> | ->]; unfold match_pred, decide; rewrite match_kv_mk_map by assumption;
      rewrite lookup_stored_notin by assumption; reflexivity.
Qed.

Fixpoint flatten (kvs : list (const * const)) : list const :=
  match kvs with [] => [] | (k, v) :: r => k :: v :: flatten r end.
Lemma pair_up_flatten : forall kvs, pair_up (flatten kvs) = Some kvs.
Proof. induction kvs as [|[k v] r IH]; simpl; [reflexivity | rewrite IH; reflexivity]. Qed.
Lemma fn_map_l : forall kvs, apply_fn FMap (flatten kvs) = Val (mk_map SMap kvs)
                          /\ apply_fn FStruct (flatten kvs) = Val (mk_map SStruct kvs).
Proof. intro. unfold apply_fn. rewrite pair_up_flatten. split; reflexivity. Qed.

(* ---- the iteration order of Go's kvMap does not matter when hashes are distinct ---- *)
Definition hk (kv : const * const) : Z := hash (fst kv).

Inductive sorted_h : list (const * const) -> Prop :=
| sh_nil : sorted_h []
| sh_one : forall x, sorted_h [x]
| sh_cons : forall x y l, hk x <= hk y -> sorted_h (y :: l) -> sorted_h (x :: y :: l).

Lemma insert_sorted : forall kv l, sorted_h l -> sorted_h (insert_by_hash kv l).
Proof.
  intros kv l H. induction H as [|x|x y l Hxy Hs IH]; simpl.
  - constructor.
  - fold (hk kv) (hk x). destruct (Z.ltb_spec (hk kv) (hk x)); constructor; try lia; constructor.
  - simpl in IH. fold (hk kv) (hk x) (hk y) in *.
    destruct (Z.ltb_spec (hk kv) (hk x)).
    + constructor; [lia|]. constructor; assumption.
    + destruct (Z.ltb_spec (hk kv) (hk y)).
      * constructor; [lia|]. constructor; [lia | assumption].
      * constructor; assumption.
Qed.

Lemma sort_fold_sorted : forall l acc, sorted_h acc ->
  sorted_h (fold_left (fun acc kv => insert_by_hash kv acc) l acc).
Proof. induction l as [|x l IH]; intros acc H; simpl; [assumption | apply IH, insert_sorted, H]. Qed.

Lemma sort_sorted : forall l, sorted_h (sort_by_hash l).
Proof. intro. apply sort_fold_sorted. constructor. Qed.

Lemma sorted_head_min : forall x l, sorted_h (x :: l) -> forall y, In y l -> hk x <= hk y.
Proof.
  intros x l. revert x. induction l as [|z l IH]; intros x H y Hin; [destruct Hin|].
  inversion H; subst. destruct Hin as [->|Hin]; [assumption|].
  specialize (IH z H4 y Hin). lia.
Qed.

Lemma sorted_tail : forall x l, sorted_h (x :: l) -> sorted_h l.
Proof. intros x l H. inversion H; subst; [constructor | assumption]. Qed.

Lemma sorted_unique : forall l1 l2, sorted_h l1 -> sorted_h l2 -> Permutation l1 l2 ->
  NoDup (map hk l1) -> l1 = l2.
Proof.
  induction l1 as [|x l1 IH]; intros l2 H1 H2 Hp Hnd.
  - apply Permutation_nil in Hp. congruence.
  - destruct l2 as [|y l2]; [apply Permutation_sym, Permutation_nil in Hp; discriminate|].
    assert (Hxy : x = y).
    { assert (Hx : In x (y :: l2)) by (eapply Permutation_in; [exact Hp | left; reflexivity]).
      assert (Hy : In y (x :: l1)) by (eapply Permutation_in; [apply Permutation_sym; exact Hp | left; reflexivity]).
      destruct Hx as [Hx|Hx]; [congruence|]. destruct Hy as [Hy|Hy]; [congruence|].
      pose proof (sorted_head_min _ _ H1 _ Hy). pose proof (sorted_head_min _ _ H2 _ Hx).
      assert (E : hk x = hk y) by lia.
      exfalso. simpl in Hnd. inversion Hnd as [|? ? Hnotin _]; subst. apply Hnotin.
      rewrite E. apply in_map. assumption. }
    subst y. f_equal. apply IH.
    + eapply sorted_tail; eassumption.
    + eapply sorted_tail; eassumption.
    + eapply Permutation_cons_inv; eassumption.
    + simpl in Hnd. inversion Hnd; assumption.
Qed.

Lemma mk_map_order_irrelevant : forall sh kvs kvs', Permutation kvs kvs' ->
  NoDup (map (fun kv => hash (fst kv)) kvs) -> mk_map sh kvs = mk_map sh kvs'.
Proof.
  intros sh kvs kvs' Hp Hnd. unfold mk_map. f_equal.
  apply sorted_unique; try apply sort_sorted.
  - eapply perm_trans; [apply sort_perm|]. eapply perm_trans; [exact Hp | apply Permutation_sym, sort_perm].
  - eapply Permutation_NoDup; [|exact Hnd]. apply Permutation_map, Permutation_sym, sort_perm.
Qed.

(* ---- strings ---- *)
Lemma is_prefix_spec : forall p s, is_prefix p s = true <-> exists r, s = p ++ r.
Proof.
  induction p as [|x p IH]; intro s; simpl.
  - split; [intros _; exists s; reflexivity | reflexivity].
  - destruct s as [|y s]; split; intro H.
    + discriminate.
    + destruct H as [r Hr]. discriminate.
    + apply andb_true_iff in H. destruct H as [H1 H2]. apply Z.eqb_eq in H1. subst.
      apply IH in H2. destruct H2 as [r ->]. exists r. reflexivity.
    + destruct H as [r Hr]. inversion Hr; subst. rewrite Z.eqb_refl. simpl. apply IH. exists r. reflexivity.
Qed.

Lemma is_suffix_spec : forall p s, is_suffix p s = true <-> exists r, s = r ++ p.
Proof.
  intros p s. unfold is_suffix. rewrite is_prefix_spec. split; intros [r Hr].
  - exists (rev r). rewrite <- (rev_involutive s), Hr, rev_app_distr, rev_involutive. reflexivity.
  - exists (rev r). rewrite Hr, rev_app_distr. reflexivity.
Qed.

Lemma is_infix_spec : forall p s, is_infix p s = true <-> exists a b, s = a ++ p ++ b.
Proof.
  intros p s. induction s as [|y s IH].
  - simpl. rewrite orb_false_r. rewrite is_prefix_spec. split.
    + intros [r Hr]. exists [], r. assumption.
    + intros [a [b H]]. destruct a; [exists b; assumption | discriminate].
  - change (is_infix p (y :: s)) with (is_prefix p (y :: s) || is_infix p s).
    rewrite orb_true_iff, is_prefix_spec, IH. split.
    + intros [[r Hr] | [a [b H]]].
      * exists [], r. assumption.
      * exists (y :: a), b. simpl. congruence.
    + intros [a [b H]]. destruct a as [|z a].
      * left. exists b. assumption.
      * right. inversion H; subst. exists a, b. reflexivity.
Qed.

Lemma dbool_true : forall b, dbool b = DTrue [[]] <-> b = true.
Proof. destruct b; simpl; split; intro H; try reflexivity; discriminate. Qed.

Lemma starts_with_l : forall s p,
  decide PStartsWith [PConst (CStr s); PConst (CStr p)] = DTrue [[]] <-> exists r, s = p ++ r.
Proof. intros. simpl. rewrite dbool_true. apply is_prefix_spec. Qed.
Lemma ends_with_l : forall s p,
  decide PEndsWith [PConst (CStr s); PConst (CStr p)] = DTrue [[]] <-> exists r, s = r ++ p.
Proof. intros. simpl. rewrite dbool_true. apply is_suffix_spec. Qed.
Lemma contains_l : forall s p,
  decide PContains [PConst (CStr s); PConst (CStr p)] = DTrue [[]] <-> exists a b, s = a ++ p ++ b.
Proof. intros. simpl. rewrite dbool_true. apply is_infix_spec. Qed.
Lemma match_prefix_l : forall n p,
  decide PMatchPrefix [PConst (CName n); PConst (CName p)] = DTrue [[]] <-> exists r, r <> [] /\ n = p ++ r.
Proof.
  intros. simpl. rewrite dbool_true, andb_true_iff, is_prefix_spec, Z.ltb_lt. split.
  - intros [[r Hr] Hlen]. exists r. split; [|assumption]. intro E. subst. rewrite app_nil_r in Hlen. lia.
  - intros [r [Hne Hr]]. split; [exists r; assumption|]. subst. rewrite app_length.
    destruct r; [congruence | simpl; lia].
Qed.

Lemma concat_strings_acc : forall l acc, concat_strings (map CStr l) acc = Val (CStr (acc ++ concat l)).
Proof.
  induction l as [|s l IH]; intro acc; simpl.
  - rewrite app_nil_r. reflexivity.
  - rewrite IH, app_assoc. reflexivity.
Qed.
Lemma concat_l : forall l, apply_fn FConcat (map CStr l) = Val (CStr (concat l)).
Proof. intro. unfold apply_fn. apply concat_strings_acc. Qed.
Lemma concat2_l : forall a b, apply_fn FConcat [CStr a; CStr b] = Val (CStr (a ++ b)).
Proof. intros. change [CStr a; CStr b] with (map CStr [a; b]). rewrite concat_l. simpl. rewrite app_nil_r. reflexivity. Qed.
Lemma concat_name_l : forall a b, apply_fn FConcat [CStr a; CName b] = Val (CStr (a ++ b)).
Proof. reflexivity. Qed.

Definition parts_ok (s : bytes) (st : bytes * list bytes) : Prop :=
  s = fst st ++ concat (snd st)
  /\ ~ In slash (fst st)
  /\ Forall (fun p => exists q, p = slash :: q /\ ~ In slash q) (snd st).

Lemma parts_step_ok : forall b s st, parts_ok s st -> parts_ok (b :: s) (parts_step b st).
Proof.
  intros b s [cur ps] [H1 [H2 H3]]. simpl in *. unfold parts_step. simpl.
  destruct (Z.eqb_spec b slash) as [->|Hb]; unfold parts_ok; simpl.
  - split; [congruence|]. split; [tauto|].
    constructor; [|assumption]. exists cur. split; [reflexivity | assumption].
  - split; [congruence|]. split; [|assumption].
    intros [H|H]; [congruence | contradiction].
Qed.

Lemma parts_inv : forall s, parts_ok s (fold_right parts_step ([], []) s).
Proof.
  induction s as [|b s IH].
  - unfold parts_ok. simpl. repeat split; auto.
  - simpl. apply parts_step_ok. assumption.
Qed.

Lemma name_parts_concat : forall s, concat (name_parts (slash :: s)) = slash :: s.
Proof.
  intro s. unfold name_parts.
  pose proof (parts_inv s) as [H _].
  change (fold_right parts_step ([], []) (slash :: s))
    with (parts_step slash (fold_right parts_step ([], []) s)).
  destruct (fold_right parts_step ([], []) s) as [cur ps]. simpl in H.
  unfold parts_step. replace (slash =? slash) with true by reflexivity. simpl. congruence.
Qed.

Lemma name_parts_shape : forall s,
  Forall (fun p => exists q, p = slash :: q /\ ~ In slash q) (name_parts s).
Proof. intro s. apply parts_inv. Qed.

Lemma name_list_l : forall s,
  apply_fn FNameList [CName (slash :: s)] = Val (of_list (map CName (name_parts (slash :: s))))
  /\ concat (name_parts (slash :: s)) = slash :: s.
Proof. intro. split; [reflexivity | apply name_parts_concat]. Qed.
