(* C07 proofs: int64 arithmetic of the model is the ring Z/2^64 in two's complement;
   division law; comparisons. *)
From Coq Require Import List ZArith Bool Lia.
From MV Require Import Builtin.Const Builtin.Fn.
Import ListNotations.
Open Scope Z_scope.

Lemma two64_pos : 0 < two64. Proof. reflexivity. Qed.

Lemma wrap_congr : forall x y, x mod two64 = y mod two64 -> wrap x = wrap y.
Proof.
  intros x y H. unfold wrap. f_equal.
  rewrite <- (Zplus_mod_idemp_l x), <- (Zplus_mod_idemp_l y), H. reflexivity.
Qed.

Lemma wrap_mod : forall x, (wrap x) mod two64 = x mod two64.
Proof.
  intro x. unfold wrap.
  rewrite Zminus_mod, Zmod_mod, <- Zminus_mod.
  f_equal. lia.
Qed.

Lemma wrap_in64 : forall x, in64 (wrap x).
Proof.
  intro x. unfold in64, wrap, min64, max64.
  pose proof (Z.mod_pos_bound (x + two63) two64 two64_pos) as H.
  unfold two64, two63 in *. lia.
Qed.

Lemma wrap_id : forall x, in64 x -> wrap x = x.
Proof.
  intros x [H1 H2]. unfold wrap, min64, max64 in *.
  rewrite Z.mod_small; unfold two64, two63 in *; lia.
Qed.

Lemma wrap_wrap : forall x, wrap (wrap x) = wrap x.
Proof. intro x. apply wrap_congr, wrap_mod. Qed.

Lemma wrap_add_l : forall a b, wrap (wrap a + b) = wrap (a + b).
Proof. intros. apply wrap_congr. rewrite Zplus_mod, wrap_mod, <- Zplus_mod. reflexivity. Qed.
Lemma wrap_add_r : forall a b, wrap (a + wrap b) = wrap (a + b).
Proof. intros. rewrite Z.add_comm, wrap_add_l, Z.add_comm. reflexivity. Qed.
Lemma wrap_mul_l : forall a b, wrap (wrap a * b) = wrap (a * b).
Proof. intros. apply wrap_congr. rewrite Zmult_mod, wrap_mod, <- Zmult_mod. reflexivity. Qed.
Lemma wrap_mul_r : forall a b, wrap (a * wrap b) = wrap (a * b).
Proof. intros. rewrite Z.mul_comm, wrap_mul_l, Z.mul_comm. reflexivity. Qed.
Lemma wrap_opp : forall a, wrap (- wrap a) = wrap (- a).
Proof.
  intros. replace (- wrap a) with (wrap a * -1) by lia. rewrite wrap_mul_l. f_equal. lia.
Qed.
Lemma wrap_sub_l : forall a b, wrap (wrap a - b) = wrap (a - b).
Proof. intros. unfold Z.sub. apply wrap_add_l. Qed.
Lemma wrap_sub_r : forall a b, wrap (a - wrap b) = wrap (a - b).
Proof.
  intros. unfold Z.sub. rewrite <- wrap_add_r, wrap_opp, wrap_add_r. reflexivity.
Qed.

(* ---- ring laws ---- *)
Lemma add64_comm : forall a b, add64 a b = add64 b a.
Proof. intros. unfold add64. f_equal. lia. Qed.
Lemma add64_assoc : forall a b c, add64 (add64 a b) c = add64 a (add64 b c).
Proof. intros. unfold add64. rewrite wrap_add_l, wrap_add_r. f_equal. lia. Qed.
Lemma add64_0_r : forall a, in64 a -> add64 a 0 = a.
Proof. intros. unfold add64. rewrite Z.add_0_r. apply wrap_id. assumption. Qed.
Lemma add64_neg : forall a, add64 a (neg64 a) = 0.
Proof. intros. unfold add64, neg64. rewrite wrap_add_r. replace (a + - a) with 0 by lia. reflexivity. Qed.
Lemma mul64_comm : forall a b, mul64 a b = mul64 b a.
Proof. intros. unfold mul64. f_equal. lia. Qed.
Lemma mul64_assoc : forall a b c, mul64 (mul64 a b) c = mul64 a (mul64 b c).
Proof. intros. unfold mul64. rewrite wrap_mul_l, wrap_mul_r. f_equal. lia. Qed.
Lemma mul64_1_r : forall a, in64 a -> mul64 a 1 = a.
Proof. intros. unfold mul64. rewrite Z.mul_1_r. apply wrap_id. assumption. Qed.
Lemma mul64_add64_distr : forall a b c, mul64 a (add64 b c) = add64 (mul64 a b) (mul64 a c).
Proof.
  intros. unfold mul64, add64. rewrite wrap_mul_r, wrap_add_l, wrap_add_r. f_equal. lia.
Qed.
Lemma sub64_add64_neg : forall a b, sub64 a b = add64 a (neg64 b).
Proof. intros. unfold sub64, add64, neg64. rewrite wrap_add_r. f_equal. Qed.

(* ---- n-ary forms ---- *)
Lemma num_args_map : forall l, num_args (map CNum l) = Some l.
Proof. induction l as [|x l IH]; simpl; [reflexivity | rewrite IH; reflexivity]. Qed.

Lemma fold_add_wrap : forall l a,
  wrap (fold_left (fun s v => wrap (s + v)) l a) = wrap (a + fold_right Z.add 0 l).
Proof.
  induction l as [|x l IH]; intro a; simpl.
  - f_equal. lia.
  - rewrite IH, wrap_add_l. f_equal. lia.
Qed.
Lemma fold_add_ne : forall l a, l <> [] ->
  fold_left (fun s v => wrap (s + v)) l a = wrap (a + fold_right Z.add 0 l).
Proof.
  induction l as [|x l IH]; intros a H; [congruence|].
  destruct l as [|y l].
  - simpl. f_equal. lia.
  - change (fold_left (fun s v => wrap (s + v)) (x :: y :: l) a)
      with (fold_left (fun s v => wrap (s + v)) (y :: l) (wrap (a + x))).
    rewrite IH by discriminate. rewrite wrap_add_l.
    change (fold_right Z.add 0 (x :: y :: l)) with (x + fold_right Z.add 0 (y :: l)).
    f_equal. lia.
Qed.
Lemma fold_mul_ne : forall l a, l <> [] ->
  fold_left (fun s v => wrap (s * v)) l a = wrap (a * fold_right Z.mul 1 l).
Proof.
  induction l as [|x l IH]; intros a H; [congruence|].
  destruct l as [|y l].
  - simpl. f_equal. lia.
  - change (fold_left (fun s v => wrap (s * v)) (x :: y :: l) a)
      with (fold_left (fun s v => wrap (s * v)) (y :: l) (wrap (a * x))).
    rewrite IH by discriminate. rewrite wrap_mul_l.
    change (fold_right Z.mul 1 (x :: y :: l)) with (x * fold_right Z.mul 1 (y :: l)).
    f_equal. lia.
Qed.
Lemma sum_wrap_spec : forall l, sum_wrap l = wrap (fold_right Z.add 0 l).
Proof.
  intro l. unfold sum_wrap. destruct l as [|x l]; [reflexivity|].
  rewrite fold_add_ne by discriminate. reflexivity.
Qed.
Lemma prod_wrap_spec : forall l, prod_wrap l = wrap (fold_right Z.mul 1 l).
Proof.
  intro l. unfold prod_wrap. destruct l as [|x l]; [reflexivity|].
  rewrite fold_mul_ne by discriminate. f_equal. lia.
Qed.

Lemma fn_plus_nary : forall l, apply_fn FPlus (map CNum l) = Val (CNum (wrap (fold_right Z.add 0 l))).
Proof. intro l. unfold apply_fn, on_nums. rewrite num_args_map. simpl. rewrite sum_wrap_spec. reflexivity. Qed.
Lemma fn_mult_nary : forall l, apply_fn FMult (map CNum l) = Val (CNum (wrap (fold_right Z.mul 1 l))).
Proof. intro l. unfold apply_fn, on_nums. rewrite num_args_map. simpl. rewrite prod_wrap_spec. reflexivity. Qed.

Lemma fn_plus_binary : forall a b, apply_fn FPlus [CNum a; CNum b] = Val (CNum (add64 a b)).
Proof. intros. change [CNum a; CNum b] with (map CNum [a; b]). rewrite fn_plus_nary. simpl. unfold add64. do 3 f_equal. lia. Qed.
Lemma fn_mult_binary : forall a b, apply_fn FMult [CNum a; CNum b] = Val (CNum (mul64 a b)).
Proof. intros. change [CNum a; CNum b] with (map CNum [a; b]). rewrite fn_mult_nary. simpl. unfold mul64. do 3 f_equal. lia. Qed.
Lemma fn_minus_unary : forall a, apply_fn FMinus [CNum a] = Val (CNum (neg64 a)).
Proof. reflexivity. Qed.
Lemma fn_minus_binary : forall a b, apply_fn FMinus [CNum a; CNum b] = Val (CNum (sub64 a b)).
Proof. reflexivity. Qed.
Lemma fn_minus_nary : forall a b l,
  apply_fn FMinus (map CNum (a :: b :: l)) = Val (CNum (fold_left sub64 (b :: l) a)).
Proof. intros. unfold apply_fn, on_nums. rewrite num_args_map. reflexivity. Qed.

(* ---- division ---- *)
Lemma div_mod_law64 : forall x y, in64 x -> y <> 0 ->
  x = add64 (mul64 (div64 x y) y) (mod64 x y).
Proof.
  intros x y Hx Hy. unfold add64, mul64, div64, mod64.
  rewrite wrap_mul_l, wrap_add_l.
  rewrite <- (wrap_id x Hx) at 1. f_equal.
  pose proof (Z.quot_rem' x y). lia.
Qed.

Lemma mod64_sign : forall x y, y <> 0 ->
  (0 <= x -> 0 <= mod64 x y) /\ (x <= 0 -> mod64 x y <= 0) /\ Z.abs (mod64 x y) < Z.abs y.
Proof.
  intros x y Hy. unfold mod64. repeat split.
  - intro. apply Z.rem_nonneg; assumption.
  - intro. apply Z.rem_nonpos; assumption.
  - apply Z.rem_bound_abs. assumption.
Qed.

Lemma quot_abs_le : forall x y, y <> 0 -> Z.abs (Z.quot x y) <= Z.abs x.
Proof.
  intros x y Hy. rewrite <- Z.quot_abs by assumption.
  apply Z.quot_le_upper_bound; [lia|]. nia.
Qed.

Lemma div64_truncates : forall x y, in64 x -> in64 y -> y <> 0 -> ~ (x = min64 /\ y = -1) ->
  div64 x y = Z.quot x y.
Proof.
  intros x y Hx Hy Hy0 Hne. unfold div64. apply wrap_id.
  pose proof (quot_abs_le x y Hy0) as Hq.
  unfold in64, min64, max64, two63 in *.
  destruct (Z.eq_dec x (-9223372036854775808)) as [E|E].
  - subst x. assert (y <> -1) by lia.
    destruct (Z.eq_dec y 1) as [->|]. { rewrite Z.quot_1_r. lia. }
    assert (Hlt : Z.abs (Z.quot (-9223372036854775808) y) < 9223372036854775808).
    { rewrite <- Z.quot_abs by assumption. change (Z.abs (-9223372036854775808)) with 9223372036854775808.
      apply Z.quot_lt_upper_bound; lia. }
    lia.
  - lia.
Qed.

Lemma div64_minint : div64 min64 (-1) = min64.
Proof. reflexivity. Qed.
Lemma mod64_minint : mod64 min64 (-1) = 0.
Proof. reflexivity. Qed.

Lemma fn_div_binary : forall x y, y <> 0 -> apply_fn FDiv [CNum x; CNum y] = Val (CNum (div64 x y)).
Proof.
  intros x y Hy. unfold apply_fn, on_nums. simpl.
  destruct (Z.eqb_spec y 0); [contradiction | reflexivity].
Qed.
Lemma fn_mod_binary : forall x y, y <> 0 -> apply_fn FMod [CNum x; CNum y] = Val (CNum (mod64 x y)).
Proof.
  intros x y Hy. unfold apply_fn, on_nums. simpl.
  destruct (Z.eqb_spec y 0); [contradiction | reflexivity].
Qed.
Lemma fn_div_mod_zero : forall x, apply_fn FDiv [CNum x; CNum 0] = Err /\ apply_fn FMod [CNum x; CNum 0] = Err
                                  /\ apply_fn FDiv [CNum 0] = Err.
Proof. intro x. repeat split; reflexivity. Qed.

Lemma div_loop_zero : forall ds a, In 0 ds -> div_loop a ds = None.
Proof.
  induction ds as [|d ds IH]; intros a H; [destruct H|].
  simpl. destruct (Z.eqb_spec d 0) as [|Hd]; [reflexivity|].
  destruct H as [H|H]; [congruence | apply IH; assumption].
Qed.
Lemma div_loop_nonzero : forall ds a, ~ In 0 ds -> div_loop a ds = Some (fold_left div64 ds a).
Proof.
  induction ds as [|d ds IH]; intros a H; [reflexivity|].
  simpl. destruct (Z.eqb_spec d 0) as [Hd|Hd].
  - exfalso. apply H. left. assumption.
  - apply IH. intro Hin. apply H. right. assumption.
Qed.

Lemma fn_div_nary : forall a d ds,
  (In 0 (d :: ds) -> apply_fn FDiv (map CNum (a :: d :: ds)) = Err) /\
  (~ In 0 (d :: ds) -> apply_fn FDiv (map CNum (a :: d :: ds)) = Val (CNum (fold_left div64 (d :: ds) a))).
Proof.
  intros a d ds. unfold apply_fn, on_nums. rewrite num_args_map.
  change (div_wrap (a :: d :: ds)) with (div_loop a (d :: ds)). split; intro H.
  - rewrite div_loop_zero by assumption. reflexivity.
  - rewrite div_loop_nonzero by assumption. reflexivity.
Qed.
Lemma fn_div_unary : forall v, apply_fn FDiv [CNum v] = apply_fn FDiv [CNum 1; CNum v].
Proof.
  intro v. unfold apply_fn, on_nums. simpl. destruct (v =? 0); reflexivity.
Qed.

(* ---- comparisons ---- *)
Definition cmp_holds (t : numty) (o : cmpop) (a b : Z) : Prop :=
  decide (PCmp t o) [PConst (mk_num t a); PConst (mk_num t b)] = DTrue [[]].

Lemma get_mk_num : forall t a, get_num t (mk_num t a) = Some a.
Proof. destruct t; reflexivity. Qed.

Lemma decide_cmp : forall t o a b,
  decide (PCmp t o) [PConst (mk_num t a); PConst (mk_num t b)] = dbool (cmp o a b).
Proof. intros. unfold decide. rewrite !get_mk_num. reflexivity. Qed.

Lemma cmp_holds_iff : forall t o a b, cmp_holds t o a b <-> cmp o a b = true.
Proof.
  intros. unfold cmp_holds. rewrite decide_cmp. destruct (cmp o a b); simpl; split; intro H; try reflexivity; discriminate.
Qed.

Lemma lt_holds_iff : forall t a b, cmp_holds t OLt a b <-> a < b.
Proof. intros. rewrite cmp_holds_iff. simpl. apply Z.ltb_lt. Qed.
Lemma le_holds_iff : forall t a b, cmp_holds t OLe a b <-> a <= b.
Proof. intros. rewrite cmp_holds_iff. simpl. apply Z.leb_le. Qed.
Lemma gt_holds_iff : forall t a b, cmp_holds t OGt a b <-> b < a.
Proof. intros. rewrite cmp_holds_iff. simpl. rewrite Z.gtb_ltb. apply Z.ltb_lt. Qed.
Lemma ge_holds_iff : forall t a b, cmp_holds t OGe a b <-> b <= a.
Proof. intros. rewrite cmp_holds_iff. simpl. rewrite Z.geb_leb. apply Z.leb_le. Qed.

Lemma lt_strict_total : forall t,
  (forall a, ~ cmp_holds t OLt a a) /\
  (forall a b c, cmp_holds t OLt a b -> cmp_holds t OLt b c -> cmp_holds t OLt a c) /\
  (forall a b, cmp_holds t OLt a b \/ a = b \/ cmp_holds t OLt b a) /\
  (forall a b, cmp_holds t OLt a b -> ~ cmp_holds t OLt b a).
Proof.
  intro t. split; [|split; [|split]].
  - intros a H. apply lt_holds_iff in H. lia.
  - intros a b c H1 H2. apply lt_holds_iff in H1. apply lt_holds_iff in H2. apply lt_holds_iff. lia.
  - intros a b. rewrite !lt_holds_iff. lia.
  - intros a b H1 H2. apply lt_holds_iff in H1. apply lt_holds_iff in H2. lia.
Qed.

Lemma le_gt_ge : forall t a b,
  (cmp_holds t OLe a b <-> cmp_holds t OLt a b \/ a = b) /\
  (cmp_holds t OGt a b <-> cmp_holds t OLt b a) /\
  (cmp_holds t OGe a b <-> cmp_holds t OLe b a).
Proof.
  intros. rewrite le_holds_iff, gt_holds_iff, ge_holds_iff, !lt_holds_iff, le_holds_iff. lia.
Qed.

Lemma cmp_never_errs : forall t o a b,
  decide (PCmp t o) [PConst (mk_num t a); PConst (mk_num t b)] <> DErr.
Proof. intros. rewrite decide_cmp. destruct (cmp o a b); discriminate. Qed.
