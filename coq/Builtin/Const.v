(* C07 model, part 1: constants (ast/ast.go), int64 wrap arithmetic, byte strings,
   Constant.Equals, Constant.Hash, canonical construction of maps and structs.
   No proofs in this file. *)
From Coq Require Import List ZArith Bool.
Import ListNotations.
Open Scope Z_scope.

(* ---- int64 / uint64 ---- *)
Definition two64 : Z := 18446744073709551616.
Definition two63 : Z := 9223372036854775808.
Definition min64 : Z := - two63.
Definition max64 : Z := two63 - 1.
(* the int64 value Go computes for the mathematical result z *)
Definition wrap (z : Z) : Z := (z + two63) mod two64 - two63.
(* uint64(z) *)
Definition u64 (z : Z) : Z := z mod two64.
Definition in64 (z : Z) : Prop := min64 <= z <= max64.
Definition in64b (z : Z) : bool := (min64 <=? z) && (z <=? max64).

(* ---- byte strings (Go string = sequence of bytes 0..255) ---- *)
Definition bytes := list Z.

Fixpoint bytes_eqb (a b : bytes) : bool :=
  match a, b with
  | [], [] => true
  | x :: a', y :: b' => (x =? y) && bytes_eqb a' b'
  | _, _ => false
  end.

(* ---- ast.Constant (ast/ast.go:257): Go's cons-cell encoding ----
   Pair = CCell SPair a b; ListCons h t = CCell SList h t; ListNil = CNil SList;
   MapCons k v rest = CCell SMap (CCell SPair k v) rest; MapNil = CNil SMap; same for
   structs. CFloat carries NumValue = int64(math.Float64bits(f)). *)
Inductive shape := SPair | SList | SMap | SStruct.

Inductive const :=
| CName (s : bytes)
| CStr (s : bytes)
| CBytes (s : bytes)
| CNum (n : Z)
| CFloat (bits : Z)
| CTime (n : Z)
| CDur (n : Z)
| CNil (sh : shape)
| CCell (sh : shape) (a b : const).

Definition shape_eqb (a b : shape) : bool :=
  match a, b with
  | SPair, SPair | SList, SList | SMap, SMap | SStruct, SStruct => true
  | _, _ => false
  end.

(* Constant.Equals (ast/ast.go:746). Go first compares Type and NumValue (the hash) and
   then the structure; the hash is a function of the structure, so the result is
   structural equality. *)
Fixpoint const_eqb (x y : const) : bool :=
  match x, y with
  | CName a, CName b => bytes_eqb a b
  | CStr a, CStr b => bytes_eqb a b
  | CBytes a, CBytes b => bytes_eqb a b
  | CNum a, CNum b => a =? b
  | CFloat a, CFloat b => a =? b
  | CTime a, CTime b => a =? b
  | CDur a, CDur b => a =? b
  | CNil s, CNil t => shape_eqb s t
  | CCell s a b, CCell t c d => shape_eqb s t && const_eqb a c && const_eqb b d
  | _, _ => false
  end.

(* ---- Constant.Hash (ast/ast.go:816-869), values in [0, 2^64) ---- *)
Definition fnv_offset : Z := 14695981039346656037.
Definition fnv_prime : Z := 1099511628211.
(* hash/fnv New64 (FNV-1): multiply, then xor the byte *)
Definition fnv64 (s : bytes) : Z :=
  fold_left (fun h b => Z.lxor (u64 (h * fnv_prime)) b) s fnv_offset.

(* ConstantType iota values of the shapes (ast/ast.go:227-251) *)
Definition shape_code (sh : shape) : Z :=
  match sh with SPair => 7 | SList => 8 | SMap => 9 | SStruct => 10 end.

(* szudzikElegantPair (ast/ast.go:834), uint64 arithmetic *)
Definition szudzik (a b : Z) : Z :=
  if b <=? a then u64 (a * a + a + b) else u64 (b * b + a).

Fixpoint hash (c : const) : Z :=
  match c with
  | CName s | CStr s | CBytes s => fnv64 s
  | CNum n | CFloat n | CTime n | CDur n => u64 n
  | CNil _ => 0
  | CCell sh a b => szudzik (u64 (hash a * 2 ^ shape_code sh)) (hash b)   (* hashPair *)
  end.

(* ---- lists ---- *)
Definition of_list (l : list const) : const := fold_right (CCell SList) (CNil SList) l.

(* elements of a list constant (ListSeq / ListValues, ast/ast.go:495-519); None if the
   constant is not a list *)
Fixpoint list_elems (c : const) : option (list const) :=
  match c with
  | CNil SList => Some []
  | CCell SList h t => match list_elems t with Some l => Some (h :: l) | None => None end
  | _ => None
  end.

Definition is_list (c : const) : bool :=
  match c with CNil SList | CCell SList _ _ => true | _ => false end.

(* ---- maps and structs ---- *)
Definition entry (sh : shape) (kv : const * const) (rest : const) : const :=
  CCell sh (CCell SPair (fst kv) (snd kv)) rest.            (* MapCons / StructCons *)

(* entries in stored order (MapValues / StructValues, ast/ast.go:522-553) *)
Fixpoint entries (sh : shape) (c : const) : option (list (const * const)) :=
  match c with
  | CNil sh' => if shape_eqb sh sh' then Some [] else None
  | CCell sh' (CCell SPair k v) rest =>
      if shape_eqb sh sh' then
        match entries sh rest with Some l => Some ((k, v) :: l) | None => None end
      else None
  | _ => None
  end.

(* sort.Stable by key hash (SortIndexInto, ast/ast.go:1456): stable insertion *)
Fixpoint insert_by_hash (kv : const * const) (l : list (const * const)) : list (const * const) :=
  match l with
  | [] => [kv]
  | x :: l' => if hash (fst kv) <? hash (fst x) then kv :: l else x :: insert_by_hash kv l'
  end.
Definition sort_by_hash (l : list (const * const)) : list (const * const) :=
  fold_left (fun acc kv => insert_by_hash kv acc) l [].

(* ast.Map / ast.Struct (ast/ast.go:384, 408). [kvs] is the order in which Go iterates its
   kvMap (arbitrary); the entries are sorted by ascending key hash and consed one after the
   other, so the stored order is descending hash. For keys with pairwise distinct hashes
   the result does not depend on the iteration order. *)
Definition mk_map (sh : shape) (kvs : list (const * const)) : const :=
  fold_left (fun m kv => entry sh kv m) (sort_by_hash kvs) (CNil sh).

(* a map/struct literally in the given stored order (for values observed from Go) *)
Definition lit_map (sh : shape) (kvs : list (const * const)) : const :=
  fold_right (entry sh) (CNil sh) kvs.

(* first entry whose key Equals k *)
Fixpoint lookup (k : const) (l : list (const * const)) : option const :=
  match l with
  | [] => None
  | (k', v) :: l' => if const_eqb k' k then Some v else lookup k l'
  end.
