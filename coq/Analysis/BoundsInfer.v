(* Analysis/BoundsInfer.v - relation types inferred for UNDECLARED predicates
   (analysis/boundscheck.go: inferAndCheckBounds :149, getOrInferRelTypes :390,
   inferRelTypes :428), on top of the model Analysis/Bounds.v.

   Fragment: as Bounds.v, and the dependency graph among the undeclared predicates has no
   cycle other than self-loops (no mutual recursion between undeclared predicates).  On
   that fragment the relation type Go ends up with for an undeclared predicate q depends
   on one thing besides the program: how q is reached first.

     demand  - q is first asked for by a body atom of another predicate's clause
               (getOrInferRelTypes): `visiting[q]` is set, every reference of q to itself is
               typed [/any .. /any]; result F_any(q).
     top     - q is first reached by BoundsCheck's own loop over the sorted predicate
               symbols (inferAndCheckBounds -> inferRelTypes, `visiting[q]` NOT set): the
               first self-reference starts a nested inference (result F_any(q), stored in
               bc.inferred), the outer pass types every self-reference with that result and
               finally overwrites bc.inferred[q] with its own result F_{F_any(q)}(q).

   The order in which the predicates are reached (BoundsCheck sorts by symbol; a clause
   asks for the predicates of its body atoms from left to right) is an explicit argument:
   the schedule, a list of (predicate, arity, top?) with dependencies first.  A schedule
   that asks for a predicate before its dependencies makes the model answer Unsupported.

   No proofs in this file. *)
From Coq Require Import List ZArith Bool.
From MV Require Import Datalog.Syntax.
From MV Require Types.Types.
From MV Require Import Analysis.Bounds.
Import ListNotations.
Open Scope Z_scope.

(* SetConforms(alternative, RelTypeFromAlternatives(alternatives)) (:451): some
   alternative found so far, componentwise; the empty union conforms to nothing *)
Definition covered (h : row) (alts : list row) : M bool :=
  lift (T.any_o (fun r => all2o conf h r) alts).

(* inferRelTypesFromClause for a clause of an undeclared predicate (no declaration, no
   modes): the fn:Rel tuples of the final states; None = the function returns an error *)
Definition head_tuples (E : decls) (trie : list T.str) (c : clause) : M (option (list row)) :=
  match clet c with
  | [] =>
      bindM (run_body E trie [[]] (cbody c)) (fun o =>
      match o with
      | None => ret None
      | Some finals =>
          bindM (mapM (fun G => mapM (bterm trie G) (aargs (chead c))) finals) (fun hs => ret (Some hs))
      end)
  | _ => Unsupported
  end.

(* the loop :450-454: an alternative is appended unless it conforms to the union of
   those found so far *)
Fixpoint add_alts (alts : list row) (hs : list row) : M (list row) :=
  match hs with
  | [] => ret alts
  | h :: hs' =>
      bindM (covered h alts) (fun b => add_alts (if b then alts else alts ++ [h]) hs')
  end.

(* the observations of the unit clauses of q (newBoundsAnalyzer :68-97), duplicates
   removed (the Go map is keyed by the hash of the relation type; its iteration order
   only permutes the alternatives) *)
Definition row_eqb (a b : row) : bool := all2b T.ty_eqb a b.

Fixpoint observations (trie : list T.str) (q : Z) (init : list fact) (acc : list row) : M (list row) :=
  match init with
  | [] => ret acc
  | f :: init' =>
      if Z.eqb (fst f) q then
        bindM (mapM (bconst trie) (snd f)) (fun o =>
        observations trie q init' (if existsb (row_eqb o) acc then acc else acc ++ [o]))
      else observations trie q init' acc
  end.

(* inferRelTypes (:428) for q when references of q to itself are typed with `self` *)
Fixpoint infer_clauses (E : decls) (trie : list T.str) (q : Z) (R : list clause) (alts : list row)
  : M (option (list row)) :=
  match R with
  | [] => ret (Some alts)
  | c :: R' =>
      if Z.eqb (apred (chead c)) q then
        bindM (head_tuples E trie c) (fun o =>
        match o with
        | None => ret None
        | Some hs => bindM (add_alts alts hs) (fun alts' => infer_clauses E trie q R' alts')
        end)
      else infer_clauses E trie q R' alts
  end.

Definition infer_with (E : decls) (trie : list T.str) (R : list clause) (init : list fact) (q : Z)
           (self : list row) : M (option (list row)) :=
  bindM (observations trie q init []) (fun obs => infer_clauses ((q, self) :: E) trie q R obs).

Definition any_row (arity : Z) : row := repeat T.t_any (Z.to_nat arity).

(* one entry of the schedule *)
Definition infer_pred (E : decls) (trie : list T.str) (R : list clause) (init : list fact)
           (q arity : Z) (top : bool) : M (option (list row)) :=
  bindM (infer_with E trie R init q [any_row arity]) (fun o =>
  match o with
  | None => ret None
  | Some rows => if top then infer_with E trie R init q rows else ret (Some rows)
  end).

(* the whole schedule; None = some inference returns an error (BoundsCheck fails) *)
Fixpoint infer_all (E : decls) (trie : list T.str) (R : list clause) (init : list fact)
         (sched : list (Z * Z * bool)) : M (option decls) :=
  match sched with
  | [] => ret (Some E)
  | (q, arity, top) :: sched' =>
      match lookup_decl q E with
      | Some _ => Unsupported          (* declared, or scheduled twice *)
      | None =>
          bindM (infer_pred E trie R init q arity top) (fun o =>
          match o with
          | None => ret None
          | Some rows => infer_all ((q, rows) :: E) trie R init sched'
          end)
      end
  end.

(* checkClauses for the DECLARED predicates only (inferAndCheckBounds :154), under the
   environment that holds the inferred relation types as well *)
Definition is_declared (D : decls) (p : Z) : bool :=
  match lookup_decl p D with Some _ => true | None => false end.

Definition check_declared (D E : decls) (trie : list T.str) (R : list clause) (init : list fact) : M bool :=
  bindM (allM (fun f => if is_declared D (fst f) then check_fact E trie f else ret true) init) (fun a =>
  bindM (allM (fun c => if is_declared D (apred (chead c)) then check_clause E trie c else ret true) R) (fun b =>
  ret (a && b))).

(* BoundsCheck on a program with undeclared predicates.  Result: verdict, and the
   environment (declarations + inferred relation types) when every inference succeeded. *)
Definition check_program_inf (D : decls) (R : list clause) (init : list fact) (sched : list (Z * Z * bool))
  : M (bool * option decls) :=
  let trie := trie_of D in
  bindM (infer_all D trie R init sched) (fun o =>
  match o with
  | None => ret (false, None)
  | Some E => bindM (check_declared D E trie R init) (fun v => ret (v, Some E))
  end).

(* The certificate that puts an accepted program inside the theorem
   (Props/C11.bounds_sound_inferred_partial): with the inferred relation types taken as
   declarations the WHOLE program - the clauses of the undeclared predicates included -
   passes the checker of Bounds.v with the exactness flag set. *)
Definition certified (E : decls) (R : list clause) (init : list fact) : bool :=
  match check_program E R init with
  | Ok (true, true) => true
  | _ => false
  end.
