(* Analysis/FaithfulProofs.v - faithfulness of evaluation for accepted clauses: what the
   left-to-right join (C01's solve) computes on the rewritten, wildcard-replaced clause versus the
   declarative reading (Declarative.decl_sol) of the clause as written.
   The bridge is [lit_true]: the truth of one literal AS WRITTEN (wildcards still in it, read
   existentially) under a substitution - independent of premise order, of the fresh names
   ReplaceWildcards invents, and of what is bound when. *)
From Coq Require Import List ZArith Bool Permutation Lia.
From MV Require Import Datalog.Syntax Datalog.SyntaxProofs Datalog.Interp Datalog.Solve Datalog.Lfp
  Datalog.SolveProofs Analysis.RuleCheck Analysis.Declarative Analysis.RuleCheckProofs
  Analysis.WildcardProofs Analysis.SafeEvalProofs.
Import ListNotations.
Open Scope Z_scope.

(* ================= substitutions ================= *)
Definition valext (s u : subst) : Prop := forall v c, lookup v s = Some c -> lookup v u = Some c.
Lemma valext_refl s : valext s s. Proof. intros v c H; exact H. Qed.
Lemma valext_trans s u t : valext s u -> valext u t -> valext s t.
Proof. intros A B v c H. apply B, A, H. Qed.
Lemma valext_cons v c s : lookup v s = None -> valext s ((v, c) :: s).
Proof. intros H w d Hw. simpl. destruct (Z.eqb_spec w v); [subst; congruence|exact Hw]. Qed.

Definition unb_from (s : subst) (n : Z) : Prop := forall w, n <= w -> lookup w s = None.
Lemma unb_from_le s n m : unb_from s n -> n <= m -> unb_from s m.
Proof. intros H Hl w Hw. apply H. lia. Qed.

Definition restrict (vs : list Z) (s : subst) : subst := filter (fun vc => memZ (fst vc) vs) s.
Lemma lookup_restrict vs s v : lookup v (restrict vs s) = if memZ v vs then lookup v s else None.
Proof.
  induction s as [|[w c] s IH]; simpl; [destruct (memZ v vs); reflexivity|].
  destruct (memZ w vs) eqn:Ew; simpl.
  - destruct (Z.eqb_spec v w) as [->|]; [rewrite Ew; reflexivity|exact IH].
  - destruct (Z.eqb_spec v w) as [->|]; [rewrite IH, Ew; reflexivity|exact IH].
Qed.

(* ================= terms ================= *)
Lemma eval_consts_ext s u args :
  Forall (fun t => eval_term s t = eval_term u t) args -> eval_consts s args = eval_consts u args.
Proof. induction 1 as [|a args Ha _ IH]; simpl; [reflexivity|]. rewrite Ha, IH. reflexivity. Qed.

Lemma eval_term_coinc s u t :
  (forall v, In v (term_vars t) -> lookup v s = lookup v u) -> eval_term s t = eval_term u t.
Proof.
  induction t as [w|d|f args IH] using term_ind2; intros H.
  - simpl. rewrite (H w) by (simpl; auto). reflexivity.
  - reflexivity.
  - rewrite !eval_term_app. rewrite (eval_consts_ext s u args); [reflexivity|].
    rewrite Forall_forall in *. intros a Ha. apply IH; [exact Ha|].
    intros v Hv. apply H. simpl. apply in_flat_map. eauto.
Qed.

Lemma eval_term_mono s u t c :
  valext s u -> eval_term s t = Some (VConst c) -> eval_term u t = Some (VConst c).
Proof.
  intros Hx He. rewrite <- He. symmetry. apply eval_term_coinc. intros v Hv.
  pose proof (eval_term_const_bound s t c He v Hv) as Hb. unfold bnd in Hb.
  destruct (lookup v s) as [d|] eqn:E; [|congruence]. symmetry. apply Hx. exact E.
Qed.

Definition cval (s : subst) (t : term) : option const :=
  match eval_term s t with Some (VConst c) => Some c | _ => None end.
Lemma cval_some s t c : cval s t = Some c -> eval_term s t = Some (VConst c).
Proof. unfold cval. destruct (eval_term s t) as [[d|w]|]; congruence. Qed.
Lemma cval_of s t c : eval_term s t = Some (VConst c) -> cval s t = Some c.
Proof. unfold cval. intros ->. reflexivity. Qed.

Lemma eval_consts_cval s args args' :
  Forall2 (fun a a' => cval s a = cval s a') args args' -> eval_consts s args = eval_consts s args'.
Proof.
  induction 1 as [|x y l l' H _ IH]; simpl; [reflexivity|]. unfold cval in H.
  destruct (eval_term s x) as [[c|w]|]; destruct (eval_term s y) as [[c'|w']|];
    try discriminate; try reflexivity.
  injection H as ->. rewrite IH. reflexivity.
Qed.

Lemma rw_term_wild n : rw_term n (TVar wild) = (n + 1, TVar n).
Proof. reflexivity. Qed.

Lemma term_is_wild (t : term) : t = TVar wild \/ t <> TVar wild.
Proof.
  destruct t as [v|c|f a]; try (right; discriminate).
  destruct (Z.eq_dec v wild) as [->|H]; [left; reflexivity|right; congruence].
Qed.

(* evaluating a replaced term = evaluating the term as written, as long as neither the wildcard
   nor the fresh names have a value *)
Definition eval_rw_ok (s : subst) (t : term) : Prop := forall m, 0 <= m -> unb_from s m ->
  cval s (snd (rw_term m t)) = cval s t /\
  (t <> TVar wild -> eval_term s (snd (rw_term m t)) = eval_term s t).

Lemma rw_terms_cval s args : Forall (eval_rw_ok s) args -> forall m, 0 <= m -> unb_from s m ->
  Forall2 (fun a a' => cval s a = cval s a') (snd (rw_terms m args)) args.
Proof.
  induction 1 as [|a args Ha _ IH]; intros m Hm Hu; simpl; [constructor|].
  destruct (rw_term m a) as [n1 a'] eqn:E1.
  destruct (rw_term_vars a m Hm) as (A1 & _). rewrite E1 in A1. simpl in A1.
  assert (Hn1 : 0 <= n1) by lia.
  specialize (IH n1 Hn1 (unb_from_le _ _ _ Hu A1)).
  destruct (rw_terms n1 args) as [n2 l2]. simpl in *. constructor; [|exact IH].
  destruct (Ha m Hm Hu) as [C _]. rewrite E1 in C. exact C.
Qed.

Lemma eval_rw s : lookup wild s = None -> forall t, eval_rw_ok s t.
Proof.
  intros Hw t. induction t as [w|d|f args IH] using term_ind2; intros m Hm Hu.
  - simpl. destruct (Z.eqb_spec w wild) as [->|Hne]; simpl.
    + split; [|congruence]. unfold cval. simpl. rewrite (Hu m) by lia. rewrite Hw. reflexivity.
    + split; reflexivity.
  - simpl. split; reflexivity.
  - rewrite rw_term_app. simpl snd.
    assert (E : eval_term s (TApp f (snd (rw_terms m args))) = eval_term s (TApp f args)).
    { rewrite !eval_term_app. rewrite (eval_consts_cval s _ args); [reflexivity|].
      apply rw_terms_cval; auto. }
    split; [unfold cval; rewrite E; reflexivity|intros _; exact E].
Qed.

(* ================= literals as written ================= *)
Definition arg_matches (s : subst) (t : term) (c : const) : Prop :=
  t = TVar wild \/ eval_term s t = Some (VConst c).

Definition lit_true (N I : list fact) (o : premise) (s : subst) : Prop :=
  match o with
  | PAtom a => exists cs, In (apred a, cs) I /\ Forall2 (arg_matches s) (aargs a) cs
  | PNeg a => (forall t, In t (aargs a) -> t = TVar wild \/ exists c, eval_term s t = Some (VConst c)) /\
              ~ (exists cs, In (apred a, cs) N /\ Forall2 (arg_matches s) (aargs a) cs)
  | PEq l r => (l = TVar wild /\ exists c, eval_term s r = Some (VConst c))
            \/ (r = TVar wild /\ exists c, eval_term s l = Some (VConst c))
            \/ (exists c, eval_term s l = Some (VConst c) /\ eval_term s r = Some (VConst c))
  | PIneq l r => exists a b, eval_term s l = Some (VConst a) /\ eval_term s r = Some (VConst b) /\
                             const_eqb a b = false
  | PCmp op l r => exists a b, eval_term s l = Some (VConst a) /\ eval_term s r = Some (VConst b) /\
                               eval_cmp op a b = Some true
  end.

Lemma Forall2_impl_in {A B} (R R' : A -> B -> Prop) l l' :
  (forall a b, In a l -> R a b -> R' a b) -> Forall2 R l l' -> Forall2 R' l l'.
Proof.
  intros H F. induction F as [|a b l l' Hab _ IH]; constructor.
  - apply H; [left; reflexivity|exact Hab].
  - apply IH. intros x y Hx. apply H. right. exact Hx.
Qed.

Lemma arg_matches_mono s u t c : valext s u -> arg_matches s t c -> arg_matches u t c.
Proof. intros Hx [->|H]; [left; reflexivity|right; eapply eval_term_mono; eauto]. Qed.

Lemma arg_matches_back s u args cs :
  valext s u ->
  (forall t, In t args -> t = TVar wild \/ exists c, eval_term s t = Some (VConst c)) ->
  Forall2 (arg_matches u) args cs -> Forall2 (arg_matches s) args cs.
Proof.
  intros Hx Hall. apply Forall2_impl_in. intros t c Ht [->|Hu]; [left; reflexivity|].
  destruct (Hall t Ht) as [->|(c' & Hc')]; [left; reflexivity|right].
  pose proof (eval_term_mono _ _ _ _ Hx Hc') as Hm. rewrite Hm in Hu. injection Hu as ->. exact Hc'.
Qed.

Lemma lit_true_mono N I o s u : valext s u -> lit_true N I o s -> lit_true N I o u.
Proof.
  intros Hx. destruct o as [a|a|l r|l r|op l r]; simpl.
  - intros (cs & Hin & HF). exists cs. split; [exact Hin|].
    eapply Forall2_impl_in; [|exact HF]. intros t c _. apply arg_matches_mono, Hx.
  - intros [H1 H2]. split.
    + intros t Ht. destruct (H1 t Ht) as [->|(c & Hc)]; [left; reflexivity|right].
      exists c. eapply eval_term_mono; eauto.
    + intros (cs & Hin & HF). apply H2. exists cs. split; [exact Hin|]. eapply arg_matches_back; eauto.
  - intros [[-> (c & Hc)]|[[-> (c & Hc)]|(c & Hl & Hr)]].
    + left. split; [reflexivity|]. exists c. eapply eval_term_mono; eauto.
    + right. left. split; [reflexivity|]. exists c. eapply eval_term_mono; eauto.
    + right. right. exists c. split; eapply eval_term_mono; eauto.
  - intros (a & b & Ha & Hb & Hne). exists a, b. repeat split; auto; eapply eval_term_mono; eauto.
  - intros (a & b & Ha & Hb & Hc). exists a, b. repeat split; auto; eapply eval_term_mono; eauto.
Qed.

Lemma lit_true_coinc N I o s u :
  (forall v, In v (premise_vars o) -> lookup v s = lookup v u) -> lit_true N I o s -> lit_true N I o u.
Proof.
  intros Hc.
  assert (AT : forall a t, premise_vars o = atom_vars a -> In t (aargs a) -> eval_term s t = eval_term u t).
  { intros a t E Ht. apply eval_term_coinc. intros v Hv. apply Hc. rewrite E.
    unfold atom_vars, terms_vars. apply in_flat_map. eauto. }
  assert (LR : forall l r, premise_vars o = term_vars l ++ term_vars r ->
               eval_term s l = eval_term u l /\ eval_term s r = eval_term u r).
  { intros l r E. split; apply eval_term_coinc; intros v Hv; apply Hc; rewrite E; apply in_or_app; auto. }
  destruct o as [a|a|l r|l r|op l r]; simpl.
  - intros (cs & Hin & HF). exists cs. split; [exact Hin|].
    eapply Forall2_impl_in; [|exact HF]. intros t c Ht [->|H]; [left; reflexivity|right].
    rewrite <- (AT a t eq_refl Ht). exact H.
  - intros [H1 H2]. split.
    + intros t Ht. destruct (H1 t Ht) as [->|(c & Hcc)]; [left; reflexivity|right].
      exists c. rewrite <- (AT a t eq_refl Ht). exact Hcc.
    + intros (cs & Hin & HF). apply H2. exists cs. split; [exact Hin|].
      eapply Forall2_impl_in; [|exact HF]. intros t c Ht [->|H]; [left; reflexivity|right].
      rewrite (AT a t eq_refl Ht). exact H.
  - destruct (LR l r eq_refl) as [El Er]. rewrite El, Er. tauto.
  - destruct (LR l r eq_refl) as [El Er]. rewrite El, Er. tauto.
  - destruct (LR l r eq_refl) as [El Er]. rewrite El, Er. tauto.
Qed.

(* a true literal has a value for each of its named variables *)
Lemma lit_true_binds N I o s v :
  lit_true N I o s -> In v (premise_vars o) -> v <> wild -> bnd s v.
Proof.
  intros H Hv Hw. destruct o as [a|a|l r|l r|op l r]; simpl in H, Hv.
  - destruct H as (cs & _ & HF). unfold atom_vars, terms_vars in Hv.
    apply in_flat_map in Hv as (t & Ht & Hvt).
    destruct (Forall2_In_l _ _ _ _ HF Ht) as (c & _ & [->|He]).
    + simpl in Hvt. destruct Hvt as [<-|[]]. congruence.
    + eapply eval_term_const_bound; eauto.
  - destruct H as [H1 _]. unfold atom_vars, terms_vars in Hv.
    apply in_flat_map in Hv as (t & Ht & Hvt).
    destruct (H1 t Ht) as [->|(c & He)].
    + simpl in Hvt. destruct Hvt as [<-|[]]. congruence.
    + eapply eval_term_const_bound; eauto.
  - apply in_app_or in Hv.
    destruct H as [[-> (c & Hc)]|[[-> (c & Hc)]|(c & Hl & Hr)]]; destruct Hv as [Hv|Hv];
      try (simpl in Hv; destruct Hv as [<-|[]]; congruence).
    + exact (eval_term_const_bound _ _ _ Hc _ Hv).
    + exact (eval_term_const_bound _ _ _ Hc _ Hv).
    + exact (eval_term_const_bound _ _ _ Hl _ Hv).
    + exact (eval_term_const_bound _ _ _ Hr _ Hv).
  - destruct H as (a & b & Ha & Hb & _). apply in_app_or in Hv as [Hv|Hv];
      [exact (eval_term_const_bound _ _ _ Ha _ Hv)|exact (eval_term_const_bound _ _ _ Hb _ Hv)].
  - destruct H as (a & b & Ha & Hb & _). apply in_app_or in Hv as [Hv|Hv];
      [exact (eval_term_const_bound _ _ _ Ha _ Hv)|exact (eval_term_const_bound _ _ _ Hb _ Hv)].
Qed.

(* ================= matching a replaced atom ================= *)
Lemma unify1_valext s pv c u : unify1 s pv c = Some u -> valext s u.
Proof.
  destruct pv as [d|w]; simpl.
  - destruct (const_eqb d c); [|discriminate]. intros [= <-]. apply valext_refl.
  - destruct (lookup w s) as [d|] eqn:E.
    + destruct (const_eqb d c); [|discriminate]. intros [= <-]. apply valext_refl.
    + intros [= <-]. apply valext_cons. exact E.
Qed.

Lemma unify1_val s0 s pv c u t :
  unify1 s pv c = Some u -> eval_term s0 t = Some pv -> valext s0 s ->
  forall u', valext u u' -> eval_term u' t = Some (VConst c).
Proof.
  intros Hu He Hx u' Hx'. destruct pv as [d|w]; simpl in Hu.
  - destruct (const_eqb d c) eqn:E; [|discriminate]. injection Hu as <-.
    apply const_eqb_spec in E. subst d.
    eapply eval_term_mono; [|exact He]. eapply valext_trans; eauto.
  - apply eval_term_var_inv in He as [-> _]. simpl.
    assert (Hl : lookup w u = Some c).
    { destruct (lookup w s) as [d|] eqn:E.
      - destruct (const_eqb d c) eqn:E2; [|discriminate]. injection Hu as <-.
        apply const_eqb_spec in E2. subst d. exact E.
      - injection Hu as <-. simpl. rewrite Z.eqb_refl. reflexivity. }
    rewrite (Hx' _ _ Hl). reflexivity.
Qed.

Lemma unify_rw_sound s0 : lookup wild s0 = None -> forall args0 m s pvs cs u,
  0 <= m -> unb_from s0 m -> valext s0 s ->
  map_opt (eval_term s0) (snd (rw_terms m args0)) = Some pvs -> unify_args s pvs cs = Some u ->
  valext s u /\ forall u', valext u u' -> Forall2 (arg_matches u') args0 cs.
Proof.
  intros Hw. induction args0 as [|a args0 IH]; intros m s pvs cs u Hm Hu Hx Hmap Hun.
  - simpl in Hmap. injection Hmap as <-. destruct cs; simpl in Hun; [|discriminate].
    injection Hun as <-. split; [apply valext_refl|]. intros u' _. constructor.
  - simpl in Hmap. destruct (rw_term m a) as [n1 a'] eqn:E1.
    destruct (rw_term_vars a m Hm) as (A1 & _). rewrite E1 in A1. simpl in A1.
    assert (Hn1 : 0 <= n1) by lia.
    specialize (IH n1). destruct (rw_terms n1 args0) as [n2 l2]. simpl in Hmap, IH.
    destruct (eval_term s0 a') as [pv|] eqn:Ea; [|discriminate].
    destruct (map_opt (eval_term s0) l2) as [pvs'|] eqn:Em; [|discriminate]. injection Hmap as <-.
    destruct cs as [|c cs]; simpl in Hun; [discriminate|].
    destruct (unify1 s pv c) as [s1|] eqn:E1u; [|discriminate].
    pose proof (unify1_valext _ _ _ _ E1u) as Hx1.
    destruct (IH s1 pvs' cs u Hn1 (unb_from_le _ _ _ Hu A1) (valext_trans _ _ _ Hx Hx1) eq_refl Hun)
      as [Hx2 HF].
    split; [eapply valext_trans; eauto|]. intros u' Hxu. constructor; [|apply HF, Hxu].
    destruct (term_is_wild a) as [->|Hnw]; [left; reflexivity|right].
    destruct (eval_rw s0 Hw a m Hm Hu) as [_ Ev]. rewrite E1 in Ev. simpl in Ev.
    rewrite (Ev Hnw) in Ea.
    eapply unify1_val; eauto. eapply valext_trans; eauto.
Qed.

Lemma const_eqb_refl c : const_eqb c c = true.
Proof. apply const_eqb_spec. reflexivity. Qed.

Lemma unify_rw_complete s0 : lookup wild s0 = None -> forall args0 cs,
  Forall2 (arg_matches s0) args0 cs -> forall n s, 0 <= n -> unb_from s0 n -> unb_from s n ->
  exists pvs u, map_opt (eval_term s0) (snd (rw_terms n args0)) = Some pvs /\
                unify_args s pvs cs = Some u.
Proof.
  intros Hw args0 cs HF. induction HF as [|t c args0 cs Ht _ IH]; intros n s Hn Hu0 Hus.
  - exists [], s. split; reflexivity.
  - destruct (term_is_wild t) as [->|Hnw].
    + cbn [rw_terms]. rewrite rw_term_wild.
      assert (Hn1 : 0 <= n + 1) by lia.
      assert (Hus' : unb_from ((n, c) :: s) (n + 1)).
      { intros w Hwn. simpl. destruct (Z.eqb_spec w n); [lia|]. apply Hus. lia. }
      assert (Hle : n <= n + 1) by lia.
      destruct (IH (n + 1) ((n, c) :: s) Hn1 (unb_from_le _ _ _ Hu0 Hle) Hus')
        as (pvs & u & Hm & Hun).
      destruct (rw_terms (n + 1) args0) as [n2 l2]. simpl in *.
      exists (VVar n :: pvs), u. rewrite (Hu0 n) by lia. rewrite Hm. split; [reflexivity|].
      simpl. rewrite (Hus n) by lia. exact Hun.
    + destruct Ht as [->|He]; [congruence|].
      simpl. destruct (rw_term n t) as [n1 t'] eqn:E1.
      destruct (rw_term_vars t n Hn) as (A1 & _). rewrite E1 in A1. simpl in A1.
      assert (Hn1 : 0 <= n1) by lia.
      destruct (IH n1 s Hn1 (unb_from_le _ _ _ Hu0 A1) (unb_from_le _ _ _ Hus A1))
        as (pvs & u & Hm & Hun).
      destruct (rw_terms n1 args0) as [n2 l2]. simpl in *.
      destruct (eval_rw s0 Hw t n Hn Hu0) as [_ Ev]. rewrite E1 in Ev. simpl in Ev.
      exists (VConst c :: pvs), u. rewrite (Ev Hnw), He, Hm. split; [reflexivity|].
      simpl. rewrite const_eqb_refl. exact Hun.
Qed.

(* the arguments of a replaced negated atom evaluate *)
Lemma neg_args_some s0 : lookup wild s0 = None -> forall args0 m, 0 <= m -> unb_from s0 m ->
  (forall t, In t args0 -> t = TVar wild \/ exists c, eval_term s0 t = Some (VConst c)) ->
  exists pvs, map_opt (eval_term s0) (snd (rw_terms m args0)) = Some pvs.
Proof.
  intros Hw. induction args0 as [|a args0 IH]; intros m Hm Hu Hall; [exists []; reflexivity|].
  simpl. destruct (rw_term m a) as [n1 a'] eqn:E1.
  destruct (rw_term_vars a m Hm) as (A1 & _). rewrite E1 in A1. simpl in A1.
  assert (Hn1 : 0 <= n1) by lia.
  destruct (IH n1 Hn1 (unb_from_le _ _ _ Hu A1)) as (pvs & Hp); [intros t Ht; apply Hall; right; exact Ht|].
  destruct (rw_terms n1 args0) as [n2 l2]. simpl in *.
  assert (Ea : exists pv, eval_term s0 a' = Some pv).
  { destruct (Hall a (or_introl eq_refl)) as [->|(c & Hc)].
    - rewrite rw_term_wild in E1. injection E1 as <- <-. simpl. eauto.
    - destruct (term_is_wild a) as [->|Hnw].
      + rewrite rw_term_wild in E1. injection E1 as <- <-. simpl. eauto.
      + destruct (eval_rw s0 Hw a m Hm Hu) as [_ Ev]. rewrite E1 in Ev. simpl in Ev.
        rewrite (Ev Hnw). eauto. }
  destruct Ea as (pv & ->). rewrite Hp. eauto.
Qed.

Lemma neg_args_part1 s0 : lookup wild s0 = None -> forall args0 m pvs, 0 <= m -> unb_from s0 m ->
  map_opt (eval_term s0) (snd (rw_terms m args0)) = Some pvs ->
  (forall t, In t args0 -> t <> TVar wild -> forall v, In v (term_vars t) -> v <> wild -> bnd s0 v) ->
  forall t, In t args0 -> t = TVar wild \/ exists c, eval_term s0 t = Some (VConst c).
Proof.
  intros Hw. induction args0 as [|a args0 IH]; intros m pvs Hm Hu Hmap Hb t Ht; [destruct Ht|].
  simpl in Hmap. destruct (rw_term m a) as [n1 a'] eqn:E1.
  destruct (rw_term_vars a m Hm) as (A1 & _). rewrite E1 in A1. simpl in A1.
  assert (Hn1 : 0 <= n1) by lia.
  specialize (IH n1). destruct (rw_terms n1 args0) as [n2 l2]. simpl in Hmap, IH.
  destruct (eval_term s0 a') as [pv|] eqn:Ea; [|discriminate].
  destruct (map_opt (eval_term s0) l2) as [pvs'|] eqn:Em; [|discriminate].
  destruct Ht as [<-|Ht].
  - destruct (term_is_wild a) as [->|Hnw]; [left; reflexivity|right].
    destruct (eval_rw s0 Hw a m Hm Hu) as [_ Ev]. rewrite E1 in Ev. simpl in Ev.
    rewrite (Ev Hnw) in Ea. destruct pv as [c|w]; [eauto|].
    apply eval_term_var_inv in Ea as [-> Hl]. exfalso.
    apply (Hb (TVar w) (or_introl eq_refl) Hnw w); [simpl; auto|intros ->; apply Hnw; reflexivity|exact Hl].
  - eapply (IH pvs' Hn1 (unb_from_le _ _ _ Hu A1) eq_refl); eauto.
    intros t' Ht'. apply Hb. right. exact Ht'.
Qed.

(* ================= a replaced premise versus the literal as written ================= *)
Lemma step_pure_eq_unfold l r s :
  step_pure (PEq l r) s =
  match eval_term s l, eval_term s r with
  | Some (VConst a), Some (VConst b) => Some (if const_eqb a b then [s] else [])
  | Some (VVar v), Some (VConst c) => Some [(v, c) :: s]
  | Some (VConst c), Some (VVar v) => Some [(v, c) :: s]
  | Some (VVar v), Some (VVar w) => if Z.eqb v w then Some [s] else None
  | _, _ => None
  end.
Proof. reflexivity. Qed.
Lemma step_pure_ineq_unfold l r s :
  step_pure (PIneq l r) s =
  match eval_term s l, eval_term s r with
  | Some (VConst a), Some (VConst b) => Some (if const_eqb a b then [] else [s])
  | Some _, Some _ => Some []
  | _, _ => None
  end.
Proof. reflexivity. Qed.
Lemma step_pure_cmp_unfold op l r s :
  step_pure (PCmp op l r) s =
  match eval_term s l, eval_term s r with
  | Some (VConst a), Some (VConst b) =>
      match eval_cmp op a b with
      | Some true => Some [s]
      | Some false => Some []
      | None => None
      end
  | _, _ => None
  end.
Proof. reflexivity. Qed.

(* the counters and evaluation facts of a binary premise *)
Lemma rw2_facts s l r n : lookup wild s = None -> 0 <= n -> unb_from s n ->
  let n1 := fst (rw_term n l) in
  let l' := snd (rw_term n l) in
  let r' := snd (rw_term n1 r) in
  n <= n1 /\ cval s l' = cval s l /\ cval s r' = cval s r /\
  (l <> TVar wild -> eval_term s l' = eval_term s l) /\
  (r <> TVar wild -> eval_term s r' = eval_term s r).
Proof.
  intros Hw Hn Hu. simpl.
  destruct (rw_term_vars l n Hn) as (A1 & _).
  destruct (eval_rw s Hw l n Hn Hu) as [C1 E1].
  assert (Hn1 : 0 <= fst (rw_term n l)) by lia.
  destruct (eval_rw s Hw r _ Hn1 (unb_from_le _ _ _ Hu A1)) as [C2 E2].
  auto.
Qed.

(* soundness of one step: what the join derives makes the literal as written true *)
Lemma holds_lit_true Sneg I st o n s u st' :
  0 <= n -> unb_from s n -> lookup wild s = None ->
  check_premise st o (snd (rw_premise n o)) = Some st' ->
  alias_ok st (snd (rw_premise n o)) = true -> Inv st s ->
  holds (inset Sneg) I (snd (rw_premise n o)) s u -> valext s u /\ lit_true Sneg I o u.
Proof.
  intros Hn Hu Hw Hc Ha Hi Hh. destruct o as [a|a|l r|l r|op l r].
  - (* positive atom *)
    simpl in Hh. destruct (rw_terms n (aargs a)) as [n' args'] eqn:Er. simpl in Hh.
    apply holds_atom_inv in Hh as (pvs & f & Hev & Hf & Hm). simpl in Hev, Hm.
    unfold match_fact in Hm. destruct (Z.eqb_spec (fst f) (apred a)) as [Ep|]; [|discriminate].
    assert (Hev' : map_opt (eval_term s) (snd (rw_terms n (aargs a))) = Some pvs) by (rewrite Er; exact Hev).
    destruct (unify_rw_sound s Hw (aargs a) n s pvs (snd f) u Hn Hu (valext_refl s) Hev' Hm) as [Hx HF].
    split; [exact Hx|]. simpl. exists (snd f). split.
    + destruct f as [fp fa]. simpl in *. subst fp. exact Hf.
    + apply HF. apply valext_refl.
  - (* negated atom *)
    simpl in Hh, Hc. destruct (rw_terms n (aargs a)) as [n' args'] eqn:Er. simpl in Hh, Hc.
    match type of Hc with context [if ?b then _ else _] => destruct b eqn:Eb; [|discriminate] end.
    rewrite forallb_forall in Eb.
    apply holds_neg_inv in Hh as (-> & pvs & Hev & Hall). simpl in Hev, Hall.
    assert (Hev' : map_opt (eval_term s) (snd (rw_terms n (aargs a))) = Some pvs) by (rewrite Er; exact Hev).
    split; [apply valext_refl|]. simpl.
    assert (P1 : forall t, In t (aargs a) -> t = TVar wild \/ exists c, eval_term s t = Some (VConst c)).
    { eapply neg_args_part1; eauto. intros t Ht Hnw v Hv _. eapply has_value_bnd; eauto.
      apply Eb. unfold terms_vars. apply in_flat_map. exists t. split; [|exact Hv].
      apply filter_In. split; [exact Ht|]. destruct t as [x| |]; auto.
      destruct (Z.eqb_spec x wild); [subst; congruence|reflexivity]. }
    split; [exact P1|]. intros (cs & Hin & HF).
    destruct (unify_rw_complete s Hw (aargs a) cs HF n s Hn Hu Hu) as (pvs' & u' & Hm & Hun).
    rewrite Hev' in Hm. injection Hm as <-.
    specialize (Hall (apred a, cs) Hin). unfold match_fact in Hall. simpl in Hall.
    rewrite Z.eqb_refl in Hall. congruence.
  - (* equality *)
    destruct (rw2_facts s l r n Hw Hn Hu) as (Hn1 & Cl & Cr & El & Er).
    simpl in Hh, Ha. destruct (rw_term n l) as [n1 l'] eqn:E1. simpl in *.
    destruct (rw_term n1 r) as [n2 r'] eqn:E2. simpl in *.
    apply holds_pure_inv in Hh as (us & Hst & Hin); try (intros; discriminate).
    rewrite step_pure_eq_unfold in Hst.
    destruct (eval_term s l') as [[a|x]|] eqn:Evl; destruct (eval_term s r') as [[b|y]|] eqn:Evr;
      try discriminate.
    + injection Hst as <-. destruct (const_eqb a b) eqn:Eab; [|destruct Hin].
      destruct Hin as [<-|[]]. apply const_eqb_spec in Eab. subst b.
      split; [apply valext_refl|]. simpl. right. right. exists a.
      split; apply cval_some; [rewrite <- Cl|rewrite <- Cr]; apply cval_of; assumption.
    + (* const = unbound variable *)
      injection Hst as <-. destruct Hin as [<-|[]].
      assert (Hry : r <> TVar wild -> r = TVar y).
      { intros Hnw. pose proof (Er Hnw) as X. rewrite ?Evr in X. symmetry in X.
        apply eval_term_var_inv in X as [-> _]. reflexivity. }
      apply eval_term_var_inv in Evr as [-> Hly].
      assert (Hx : valext s ((y, a) :: s)) by (apply valext_cons; exact Hly).
      split; [exact Hx|]. simpl.
      assert (Hl : eval_term ((y, a) :: s) l = Some (VConst a)).
      { eapply eval_term_mono; [exact Hx|]. apply cval_some. rewrite <- Cl. apply cval_of. exact Evl. }
      destruct (term_is_wild r) as [->|Hnw].
      * right. left. split; [reflexivity|eauto].
      * right. right. exists a. split; [exact Hl|].
        rewrite (Hry Hnw). simpl. rewrite Z.eqb_refl. reflexivity.
    + (* unbound variable = const *)
      injection Hst as <-. destruct Hin as [<-|[]].
      assert (Hlx' : l <> TVar wild -> l = TVar x).
      { intros Hnw. pose proof (El Hnw) as X. rewrite ?Evl in X. symmetry in X.
        apply eval_term_var_inv in X as [-> _]. reflexivity. }
      apply eval_term_var_inv in Evl as [-> Hlx].
      assert (Hx : valext s ((x, b) :: s)) by (apply valext_cons; exact Hlx).
      split; [exact Hx|]. simpl.
      assert (Hr : eval_term ((x, b) :: s) r = Some (VConst b)).
      { eapply eval_term_mono; [exact Hx|]. apply cval_some. rewrite <- Cr. apply cval_of. exact Evr. }
      destruct (term_is_wild l) as [->|Hnw].
      * left. split; [reflexivity|eauto].
      * right. right. exists b. split; [|exact Hr].
        rewrite (Hlx' Hnw). simpl. rewrite Z.eqb_refl. reflexivity.
    + (* two unbound variables: excluded by alias_ok *)
      exfalso. apply eval_term_var_inv in Evl as [-> Hlx]. apply eval_term_var_inv in Evr as [-> Hly].
      simpl in Ha. destruct Hi as [Hb _].
      apply orb_true_iff in Ha as [Ha|Ha]; apply memZ_In in Ha; apply Hb in Ha;
        [exact (Ha Hlx)|exact (Ha Hly)].
  - (* inequality *)
    destruct (rw2_facts s l r n Hw Hn Hu) as (Hn1 & Cl & Cr & El & Er).
    simpl in Hh. destruct (rw_term n l) as [n1 l'] eqn:E1. simpl in *.
    destruct (rw_term n1 r) as [n2 r'] eqn:E2. simpl in *.
    apply holds_pure_inv in Hh as (us & Hst & Hin); try (intros; discriminate).
    rewrite step_pure_ineq_unfold in Hst.
    destruct (eval_term s l') as [[a|x]|] eqn:Evl; destruct (eval_term s r') as [[b|y]|] eqn:Evr;
      try discriminate; injection Hst as <-; try (destruct Hin; fail).
    destruct (const_eqb a b) eqn:Eab; [destruct Hin|]. destruct Hin as [<-|[]].
    split; [apply valext_refl|]. simpl. exists a, b.
    split; [apply cval_some; rewrite <- Cl; apply cval_of; exact Evl|].
    split; [apply cval_some; rewrite <- Cr; apply cval_of; exact Evr|exact Eab].
  - (* comparison *)
    destruct (rw2_facts s l r n Hw Hn Hu) as (Hn1 & Cl & Cr & El & Er).
    simpl in Hh. destruct (rw_term n l) as [n1 l'] eqn:E1. simpl in *.
    destruct (rw_term n1 r) as [n2 r'] eqn:E2. simpl in *.
    apply holds_pure_inv in Hh as (us & Hst & Hin); try (intros; discriminate).
    rewrite step_pure_cmp_unfold in Hst.
    destruct (eval_term s l') as [[a|x]|] eqn:Evl; destruct (eval_term s r') as [[b|y]|] eqn:Evr;
      try discriminate.
    destruct (eval_cmp op a b) as [[|]|] eqn:Ec; try discriminate; injection Hst as <-; [|destruct Hin].
    destruct Hin as [<-|[]].
    split; [apply valext_refl|]. simpl. exists a, b.
    split; [apply cval_some; rewrite <- Cl; apply cval_of; exact Evl|].
    split; [apply cval_some; rewrite <- Cr; apply cval_of; exact Evr|exact Ec].
Qed.

(* the converse for a substitution that binds neither the wildcard nor a fresh name: a literal
   that is true as written holds in C01's one-literal relation after wildcard replacement *)
Lemma lit_true_holds Sneg I o n s :
  0 <= n -> unb_from s n -> lookup wild s = None -> lit_true Sneg I o s ->
  exists u, holds (inset Sneg) I (snd (rw_premise n o)) s u.
Proof.
  intros Hn Hu Hw Ht. destruct o as [a|a|l r|l r|op l r].
  - simpl in Ht. destruct Ht as (cs & Hin & HF).
    destruct (unify_rw_complete s Hw (aargs a) cs HF n s Hn Hu Hu) as (pvs & u & Hm & Hun).
    simpl. destruct (rw_terms n (aargs a)) as [n' args'] eqn:Er. simpl in *.
    exists u. eapply holds_atom with (f := (apred a, cs)); [exact Hm|exact Hin|].
    unfold match_fact. simpl. rewrite Z.eqb_refl. exact Hun.
  - simpl in Ht. destruct Ht as [P1 P2].
    destruct (neg_args_some s Hw (aargs a) n Hn Hu P1) as (pvs & Hm).
    assert (Hall : forall f, inset Sneg f -> match_fact (apred a) pvs s f = None).
    { intros f Hf. destruct (match_fact (apred a) pvs s f) as [u|] eqn:Em; [exfalso|reflexivity].
      unfold match_fact in Em. destruct (Z.eqb_spec (fst f) (apred a)) as [Ep|]; [|discriminate].
      destruct (unify_rw_sound s Hw (aargs a) n s pvs (snd f) u Hn Hu (valext_refl s) Hm Em) as [Hx HF].
      apply P2. exists (snd f). split.
      - destruct f as [fp fa]. simpl in *. subst fp. exact Hf.
      - eapply arg_matches_back; [exact Hx|exact P1|]. apply HF, valext_refl. }
    simpl. destruct (rw_terms n (aargs a)) as [n' args'] eqn:Er. simpl in *.
    exists s. eapply holds_neg; [exact Hm|exact Hall].
  - destruct (rw2_facts s l r n Hw Hn Hu) as (Hn1 & Cl & Cr & El & Er).
    simpl. destruct (rw_term n l) as [n1 l'] eqn:E1. simpl in *.
    destruct (rw_term n1 r) as [n2 r'] eqn:E2. simpl in *.
    destruct Ht as [[-> (c & Hc)]|[[-> (c & Hc)]|(c & Hl & Hr)]].
    + rewrite rw_term_wild in E1. injection E1 as <- <-.
      exists ((n, c) :: s). eapply holds_pure; [      rewrite step_pure_eq_unfold; rewrite (cval_some _ _ _ (eq_trans Cr (cval_of _ _ _ Hc))); simpl; rewrite (Hu n) by lia; reflexivity|left; reflexivity].
    + rewrite rw_term_wild in E2. injection E2 as <- <-.
      exists ((n1, c) :: s). eapply holds_pure; [      rewrite step_pure_eq_unfold; rewrite (cval_some _ _ _ (eq_trans Cl (cval_of _ _ _ Hc))); simpl; rewrite (Hu n1) by lia; reflexivity|left; reflexivity].
    + exists s. eapply holds_pure; [      rewrite step_pure_eq_unfold; rewrite (cval_some _ _ _ (eq_trans Cl (cval_of _ _ _ Hl))); rewrite (cval_some _ _ _ (eq_trans Cr (cval_of _ _ _ Hr))); rewrite const_eqb_refl; reflexivity|left; reflexivity].
  - destruct (rw2_facts s l r n Hw Hn Hu) as (Hn1 & Cl & Cr & El & Er).
    simpl. destruct (rw_term n l) as [n1 l'] eqn:E1. simpl in *.
    destruct (rw_term n1 r) as [n2 r'] eqn:E2. simpl in *.
    destruct Ht as (a & b & Ha & Hb & Hne).
    exists s. eapply holds_pure; [    rewrite step_pure_ineq_unfold; rewrite (cval_some _ _ _ (eq_trans Cl (cval_of _ _ _ Ha))); rewrite (cval_some _ _ _ (eq_trans Cr (cval_of _ _ _ Hb))); rewrite Hne; reflexivity|left; reflexivity].
  - destruct (rw2_facts s l r n Hw Hn Hu) as (Hn1 & Cl & Cr & El & Er).
    simpl. destruct (rw_term n l) as [n1 l'] eqn:E1. simpl in *.
    destruct (rw_term n1 r) as [n2 r'] eqn:E2. simpl in *.
    destruct Ht as (a & b & Ha & Hb & Hc).
    exists s. eapply holds_pure; [    rewrite step_pure_cmp_unfold; rewrite (cval_some _ _ _ (eq_trans Cl (cval_of _ _ _ Ha))); rewrite (cval_some _ _ _ (eq_trans Cr (cval_of _ _ _ Hb))); rewrite Hc; reflexivity|left; reflexivity].
Qed.

(* ================= along the join ================= *)
Lemma bnd_cons_inv x c s v : bnd ((x, c) :: s) v -> v = x \/ bnd s v.
Proof. unfold bnd. simpl. destruct (Z.eqb_spec v x); auto. Qed.

Lemma unify1_dom s pv c u v : unify1 s pv c = Some u -> bnd u v -> bnd s v \/ pv = VVar v.
Proof.
  destruct pv as [d|w]; simpl.
  - destruct (const_eqb d c); [|discriminate]. intros [= <-] H. left; exact H.
  - destruct (lookup w s) as [d|] eqn:E.
    + destruct (const_eqb d c); [|discriminate]. intros [= <-] H. left; exact H.
    + intros [= <-] H. apply bnd_cons_inv in H as [-> | H]; [right; reflexivity|left; exact H].
Qed.

Lemma unify_args_dom pvs : forall s cs u v,
  unify_args s pvs cs = Some u -> bnd u v -> bnd s v \/ In (VVar v) pvs.
Proof.
  induction pvs as [|pv pvs IH]; intros s cs u v Hu Hb; destruct cs as [|c cs]; simpl in Hu; try discriminate.
  - injection Hu as <-. left; exact Hb.
  - destruct (unify1 s pv c) as [s1|] eqn:E1; [|discriminate].
    destruct (IH _ _ _ _ Hu Hb) as [H|H]; [|right; right; exact H].
    destruct (unify1_dom _ _ _ _ _ E1 H) as [H' | ->]; [left; exact H'|right; left; reflexivity].
Qed.

(* a premise gives values only to its own variables *)
Lemma holds_dom N I p s u v : holds N I p s u -> bnd u v -> bnd s v \/ In v (premise_vars p).
Proof.
  intros H Hb. destruct H as [a s pvs f u He Hf Hm | a s pvs He Hall | p s us u He Hu].
  - unfold match_fact in Hm. destruct (Z.eqb (fst f) (apred a)); [|discriminate].
    destruct (unify_args_dom _ _ _ _ _ Hm Hb) as [H|H]; [left; exact H|right].
    destruct (map_opt_spec _ _ _ He) as [_ Hin]. apply Hin in H as (t & Ht & Hev).
    apply eval_term_var_inv in Hev as [-> _]. simpl. unfold atom_vars, terms_vars.
    apply in_flat_map. exists (TVar v). simpl; auto.
  - left; exact Hb.
  - destruct p as [a|a|l r|l r|op l r]; try (simpl in He; discriminate).
    + rewrite step_pure_eq_unfold in He.
      destruct (eval_term s l) as [[a|x]|] eqn:El; destruct (eval_term s r) as [[b|y]|] eqn:Er;
        try discriminate.
      * injection He as <-. destruct (const_eqb a b); [|destruct Hu]. destruct Hu as [<-|[]]. left; exact Hb.
      * injection He as <-. destruct Hu as [<-|[]]. apply bnd_cons_inv in Hb as [-> | Hb]; [right|left; exact Hb].
        apply eval_term_var_inv in Er as [-> _]. simpl. apply in_or_app. right. simpl; auto.
      * injection He as <-. destruct Hu as [<-|[]]. apply bnd_cons_inv in Hb as [-> | Hb]; [right|left; exact Hb].
        apply eval_term_var_inv in El as [-> _]. simpl. auto.
      * destruct (Z.eqb x y); [|discriminate]. injection He as <-. destruct Hu as [<-|[]]. left; exact Hb.
    + rewrite step_pure_ineq_unfold in He.
      destruct (eval_term s l) as [[a|x]|] eqn:El; destruct (eval_term s r) as [[b|y]|] eqn:Er;
        try discriminate; injection He as <-; try (destruct Hu; fail).
      destruct (const_eqb a b); [destruct Hu|]. destruct Hu as [<-|[]]. left; exact Hb.
    + rewrite step_pure_cmp_unfold in He.
      destruct (eval_term s l) as [[a|x]|] eqn:El; destruct (eval_term s r) as [[b|y]|] eqn:Er;
        try discriminate.
      destruct (eval_cmp op a b) as [[|]|]; try discriminate; injection He as <-; [|destruct Hu].
      destruct Hu as [<-|[]]. left; exact Hb.
Qed.

Lemma holds_step Sneg I p s u :
  holds (inset Sneg) I p s u -> exists us, step Sneg I p s = Some us /\ In u us.
Proof.
  intros H. destruct (step Sneg I p s) as [us|] eqn:E.
  - exists us. split; [reflexivity|]. apply (step_spec _ _ _ _ _ E). exact H.
  - exfalso. destruct H as [a s pvs f u He Hf Hm | a s pvs He Hall | p s us u He Hu]; simpl in E.
    + rewrite He in E. discriminate.
    + rewrite He in E. discriminate.
    + destruct p; simpl in *; congruence.
Qed.

Lemma sat_cons_inv N sel k p b s t :
  sat N sel k (p :: b) s t -> exists u, holds N (sel k) p s u /\ sat N sel (S k) b u t.
Proof. intros H. inversion H; subst. eauto. Qed.
Lemma sat_nil_inv N sel k s t : sat N sel k [] s t -> t = s.
Proof. intros H. inversion H; subst. reflexivity. Qed.

(* the wildcard and the fresh names not yet handed out stay without a value *)
Lemma dom_step N I o n s u : 0 <= n -> (forall v, In v (premise_vars o) -> v < n) ->
  lookup wild s = None -> unb_from s n -> holds N I (snd (rw_premise n o)) s u ->
  lookup wild u = None /\ unb_from u (fst (rw_premise n o)).
Proof.
  intros Hn Hlt Hw Hu Hh. destruct (rw_premise_vars o n Hn) as (A1 & A2 & _).
  assert (K : forall v, bnd u v -> bnd s v \/ (In v (premise_vars o) /\ v <> wild) \/
                                  n <= v < fst (rw_premise n o)).
  { intros v Hb. destruct (holds_dom _ _ _ _ _ v Hh Hb) as [H|H]; [left; exact H|right; apply A2, H]. }
  split.
  - destruct (lookup wild u) eqn:E; [|reflexivity]. exfalso.
    assert (Hb : bnd u wild) by (unfold bnd; congruence).
    destruct (K wild Hb) as [H|[[_ H]|H]]; [exact (H Hw)|congruence|unfold wild in H; lia].
  - intros w Hwn. destruct (lookup w u) eqn:E; [|reflexivity]. exfalso.
    assert (Hb : bnd u w) by (unfold bnd; congruence).
    destruct (K w Hb) as [H|[[H _]|H]].
    + apply H. apply Hu. lia.
    + specialize (Hlt w H). lia.
    + lia.
Qed.

(* every solution of the join on the replaced body makes every literal as written true *)
Lemma chain_sound Sneg I b : forall n st st' k s0 s,
  0 <= n -> (forall o v, In o b -> In v (premise_vars o) -> v < n) ->
  check_body st b (rw_body n b) = Some st' -> alias_free_body st b (rw_body n b) = true ->
  Inv st s0 -> lookup wild s0 = None -> unb_from s0 n ->
  sat (inset Sneg) (fun _ => I) k (rw_body n b) s0 s ->
  valext s0 s /\ lookup wild s = None /\ forall o, In o b -> lit_true Sneg I o s.
Proof.
  induction b as [|o b IH]; intros n st st' k s0 s Hn Hlt Hc Ha Hi Hw Hu Hs.
  - simpl in Hs. apply sat_nil_inv in Hs. subst s.
    split; [apply valext_refl|]. split; [exact Hw|intros o []].
  - simpl in Hs, Hc, Ha. destruct (rw_premise n o) as [n' p] eqn:E.
    assert (Ep : p = snd (rw_premise n o)) by (rewrite E; reflexivity).
    assert (En : n' = fst (rw_premise n o)) by (rewrite E; reflexivity).
    simpl in Hc, Ha.
    destruct (check_premise st o p) as [st1|] eqn:Ec; [|discriminate].
    apply andb_true_iff in Ha as [Ha1 Ha2].
    apply sat_cons_inv in Hs as (u & Hh & Hs'). cbv beta in Hh.
    rewrite Ep in Hh, Ec, Ha1.
    destruct (holds_lit_true Sneg I st o n s0 u st1 Hn Hu Hw Ec Ha1 Hi Hh) as [Hx Hlo].
    destruct (holds_step _ _ _ _ _ Hh) as (us & Hst & Hin).
    pose proof (check_premise_inv _ _ _ _ Sneg I _ _ _ Ec Ha1 Hi Hst Hin) as Hi1.
    destruct (dom_step _ _ o n s0 u Hn (fun v => Hlt o v (or_introl eq_refl)) Hw Hu Hh) as [Hw1 Hu1].
    rewrite <- En in Hu1.
    destruct (rw_premise_vars o n Hn) as (A1 & _). rewrite <- En in A1.
    assert (Hn' : 0 <= n') by lia.
    assert (Hlt' : forall o' v, In o' b -> In v (premise_vars o') -> v < n').
    { intros o' v Ho' Hv. specialize (Hlt o' v (or_intror Ho') Hv). lia. }
    destruct (IH n' st1 st' (S k) u s Hn' Hlt' Hc Ha2 Hi1 Hw1 Hu1 Hs') as (Hx2 & Hw2 & Hall).
    split; [eapply valext_trans; eauto|]. split; [exact Hw2|].
    intros o' [<-|Ho']; [eapply lit_true_mono; eauto|apply Hall, Ho'].
Qed.

(* ================= soundness: solutions of the join satisfy the clause as written ================= *)
Lemma In_dedupZ v l : In v (dedupZ l) <-> In v l.
Proof.
  induction l as [|x l IH]; simpl; [tauto|].
  destruct (memZ x l) eqn:E.
  - rewrite IH. split; [auto|]. intros [<-|H]; [apply memZ_In, E|exact H].
  - simpl. rewrite IH. tauto.
Qed.

Lemma named_vars_in c v :
  In v (named_vars c) <->
  (In v (flat_map premise_vars (cbody c)) /\ v <> wild) \/ (In v (atom_vars (chead c)) /\ ~ In v (let_defs c)).
Proof.
  unfold named_vars. rewrite In_dedupZ, in_app_iff, !filter_In.
  split; intros [[H1 H2]|[H1 H2]]; [left|right|left|right]; split; auto.
  - apply negb_true_iff in H2. apply Z.eqb_neq in H2. exact H2.
  - apply negb_true_iff in H2. intros X. apply memZ_In in X. congruence.
  - apply negb_true_iff, Z.eqb_neq. exact H2.
  - apply negb_true_iff. destruct (memZ v (let_defs c)) eqn:E; [|reflexivity].
    apply memZ_In in E. contradiction.
Qed.

Lemma named_vars_clause c v : In v (named_vars c) -> In v (clause_vars c).
Proof.
  rewrite named_vars_in. unfold clause_vars.
  intros [[H _]|[H _]]; apply in_or_app; [right; apply in_or_app; left; exact H|left; exact H].
Qed.

Lemma accepted_sound_lemma c Sneg I sols s :
  accepted c = true -> alias_free (rewrite c) = true ->
  solve Sneg (fun _ => I) 0 (cbody (replace_wildcards (rewrite c))) [[]] = Some sols -> In s sols ->
  decl_sol Sneg I c (restrict (named_vars c) s).
Proof.
  intros Hacc Haf Hsol Hin.
  pose proof (rewrite_perm_body c) as HP.
  pose proof (fresh_base_pos (rewrite c)) as Hbase.
  pose proof Hin as Hin0.
  apply (solve_spec _ _ _ _ _ _ Hsol) in Hin as (s0 & [<-|[]] & Hsat).
  unfold accepted in Hacc. pose proof Hacc as Hchk. unfold check in Hacc.
  destruct (check_body (mkCS [] (atom_vars (chead (rewrite c))) []) (cbody (rewrite c))
              (cbody (replace_wildcards (rewrite c)))) as [st|] eqn:Eb; [|discriminate].
  assert (Hlt : forall o v, In o (cbody (rewrite c)) -> In v (premise_vars o) -> v < fresh_base (rewrite c)).
  { intros o v Ho Hv. apply fresh_base_gt. unfold clause_vars. apply in_or_app; right.
    apply in_or_app; left. apply in_flat_map. eauto. }
  assert (Hi0 : Inv (mkCS [] (atom_vars (chead (rewrite c))) []) []) by (split; simpl; intros w []).
  assert (Hu0 : unb_from [] (fresh_base (rewrite c))) by (intros w _; reflexivity).
  destruct (chain_sound Sneg I (cbody (rewrite c)) (fresh_base (rewrite c)) _ st 0%nat [] s
              Hbase Hlt Eb Haf Hi0 eq_refl Hu0 Hsat) as (_ & Hws & Hlit).
  assert (Hlit' : forall o, In o (cbody c) -> lit_true Sneg I o s).
  { intros o Ho. apply Hlit. eapply Permutation_in; [apply Permutation_sym; exact HP|exact Ho]. }
  assert (Hsig : forall v, lookup v (restrict (named_vars c) s)
                           = if memZ v (named_vars c) then lookup v s else None)
    by (intros; apply lookup_restrict).
  assert (Hsw : lookup wild (restrict (named_vars c) s) = None)
    by (rewrite Hsig; destruct (memZ wild (named_vars c)); auto).
  split.
  - split.
    + intros v Hv. rewrite Hsig. rewrite (proj2 (memZ_In _ _) Hv).
      apply named_vars_in in Hv as [[Hb Hnw]|[Hh Hd]].
      * apply in_flat_map in Hb as (o & Ho & Hvo). exact (lit_true_binds _ _ _ _ _ (Hlit' o Ho) Hvo Hnw).
      * apply (accepted_binds_lemma (rewrite c) Sneg (fun _ => I) sols Hchk Haf Hsol s Hin0 v).
        -- rewrite rewrite_head. exact Hh.
        -- rewrite let_defs_rewrite. exact Hd.
    + intros v c0 Hvc. unfold restrict in Hvc. apply filter_In in Hvc as [_ Hm]. simpl in Hm.
      apply memZ_In, Hm.
  - intros p Hp.
    destruct (Forall2_In_r _ _ _ _ (replace_wildcards_rel c) Hp) as (o & Ho & m & Hm & ->).
    apply lit_true_holds.
    + pose proof (fresh_base_pos c). lia.
    + intros w Hwm. rewrite Hsig. destruct (memZ w (named_vars c)) eqn:E; [|reflexivity].
      apply memZ_In, named_vars_clause, fresh_base_gt in E. lia.
    + exact Hsw.
    + apply (lit_true_coinc _ _ _ s); [|apply Hlit', Ho]. intros v Hv. rewrite Hsig.
      destruct (memZ v (named_vars c)) eqn:E; [reflexivity|].
      destruct (Z.eq_dec v wild) as [->|Hnw]; [exact Hws|]. exfalso.
      assert (X : In v (named_vars c)).
      { apply named_vars_in. left. split; [apply in_flat_map; eauto|exact Hnw]. }
      apply memZ_In in X. congruence.
Qed.
