(* Analysis/Bounds.v - executable model of the bounds checker of mangle
   (analysis/boundscheck.go, analysis/infercontext.go) on the fragment

     - every predicate of the program has a user-written declaration with bound rows of
       closed first-order types (the `ty` of Types/Types.v); no modes, no type variables;
     - clause bodies of positive atoms, negated atoms, `=` and `!=`; terms are variables,
       constants (names, strings, numbers, lists of those; a pair constant gets /any as in
       Go) and fn:list(...) applications; no transform.

   Everything else (fn:pair / fn:cons / arithmetic and the other built-in functions, whose
   types go through checkFunApply and unionfind.UnifyTypeExpr; :match_* ; comparisons;
   let- and do-transforms; undeclared predicates, whose relation types are inferred) makes
   the model answer `Unsupported`.

   The checker is written in a monad `M A = res (A * bool)`: the boolean is the
   *exactness flag*.  It is the conjunction of decidable certificates, collected along the
   run, that are sufficient for the soundness theorem (Analysis/BoundsProofs.v):
     - every intersection (symbols.LowerBound) whose result is used returns a superset of
       one operand, certified by the strict conformance judgement;
     - every inference state that is dropped because an intersection is empty is dropped
       for two provably disjoint types (`disjointb`);
     - every upper bound (symbols.UpperBound) contains its arguments, and the final
       conformance of the head to a declared row, affirmed by the implemented judgement
       (mode Fixed), is also affirmed by the strict one.
   The *verdict* never depends on the flag: it mirrors the Go code, sound or not.

   State of the code modelled: after fixes F7a/F7d/F7e (symbols), N90 (`!=` passes the
   state through) and N91 (a negated atom never drops a state).
   No proofs in this file. *)
From Coq Require Import List ZArith Bool.
From MV Require Import Datalog.Syntax.
From MV Require Types.Types.
Import ListNotations.
Open Scope Z_scope.

Module T := MV.Types.Types.

(* ------------------------------------------------------------------ monad *)
Inductive res (A : Type) := Ok (a : A) | Unsupported | Fuel.
Arguments Ok {A} a.
Arguments Unsupported {A}.
Arguments Fuel {A}.

Definition M (A : Type) := res (A * bool).
Definition ret {A} (a : A) : M A := Ok (a, true).
Definition bindM {A B} (m : M A) (f : A -> M B) : M B :=
  match m with
  | Ok (a, e) => match f a with
                 | Ok (b, e') => Ok (b, e && e')
                 | Unsupported => Unsupported
                 | Fuel => Fuel
                 end
  | Unsupported => Unsupported
  | Fuel => Fuel
  end.
Definition flag (b : bool) : M unit := Ok (tt, b).
Definition lift {A} (o : option A) : M A := match o with Some a => Ok (a, true) | None => Fuel end.

Section MapM.
  Context {A B : Type} (f : A -> M B).
  Fixpoint mapM (l : list A) : M (list B) :=
    match l with
    | [] => ret []
    | x :: l' => bindM (f x) (fun y => bindM (mapM l') (fun ys => ret (y :: ys)))
    end.
End MapM.

(* ------------------------------------------------- constants of the two models *)
(* Datalog/Syntax.const into Types.const *)
Fixpoint inj (c : const) : T.const :=
  match c with
  | CName s => T.CName s
  | CStr s => T.CString s
  | CNum n => T.CNum n
  | CPair a b => T.CPair (inj a) (inj b)
  | CNil => T.CListNil
  | CCons h t => T.CListCons (inj h) (inj t)
  end.

Definition t_number := T.TConst T.s_number.
Definition t_string := T.TConst T.s_string.
Definition t_name := T.TConst T.s_name.
Definition t_bot := T.TConst T.s_bot.

(* the conformance judgement the code runs, and the strict one used for certificates *)
Definition conf := T.set_conforms T.Fixed.
Definition sconf (a b : T.ty) : bool :=
  match T.set_conforms T.Strict a b with Some true => true | _ => false end.
Definition ub := T.upper_bound conf T.id_srt.
Definition lb := T.lower_bound conf T.id_srt.

(* ------------------------------------------------------------- the name trie *)
(* NameTrie.Collect (symbols/nametrie.go:44): every name constant occurring in a declared
   type expression - prefix types, singleton names, struct field labels; of a tagged union
   only the variant struct types.  Base type expressions are filtered at lookup. *)
Fixpoint names_of (t : T.ty) : list T.str :=
  match t with
  | T.TConst s => [s]
  | T.TSingleton (T.CName s) => [s]
  | T.TSingleton _ => []
  | T.TPair a b => names_of a ++ names_of b
  | T.TTuple ts => flat_map names_of ts
  | T.TList e => names_of e
  | T.TMap k v => names_of k ++ names_of v
  | T.TStruct req opt =>
      flat_map (fun kt => fst kt :: names_of (snd kt)) req ++
      flat_map (fun kt => fst kt :: names_of (snd kt)) opt
  | T.TUnion ts => flat_map names_of ts
  | T.TTagged _ vs => flat_map (fun v => names_of (snd v)) vs
  end.

(* NameTrie.PrefixName (nametrie.go:98): the longest collected name t such that t ++ "/"
   is a prefix of the symbol, /name if there is none. *)
Definition better (s cand : T.str) (best : option T.str) : option T.str :=
  if negb (T.is_base_const cand) && T.has_prefix s (cand ++ [T.slash]) then
    match best with
    | Some b => if Nat.ltb (length b) (length cand) then Some cand else best
    | None => Some cand
    end
  else best.

Definition prefix_name (trie : list T.str) (s : T.str) : T.ty :=
  match fold_right (better s) None trie with
  | Some b => T.TConst b
  | None => t_name
  end.

(* certificate: the upper bound u contains every argument *)
Definition cert_ub (args : list T.ty) (u : T.ty) : bool :=
  forallb (fun a => T.ty_eqb a u || sconf a u) args.

(* boundOfArg on fn:list(args) (boundscheck.go:548) given the bounds of the arguments *)
Definition list_bound (ts : list T.ty) : M T.ty :=
  match ts with
  | [] => ret (T.TList t_bot)
  | _ => bindM (lift (ub ts)) (fun u => bindM (flag (cert_ub ts u)) (fun _ => ret (T.TList u)))
  end.

(* boundOfArg on a constant (boundscheck.go:495).  A list constant is turned into
   fn:list(elements) first; a pair constant falls into the default case (/any). *)
Fixpoint bconst (trie : list T.str) (c : const) : M T.ty :=
  match c with
  | CNum _ => ret t_number
  | CStr _ => ret t_string
  | CName s => ret (prefix_name trie s)
  | CPair _ _ => ret T.t_any
  | CNil => ret (T.TList t_bot)
  | CCons h t =>
      bindM (bconst trie h) (fun th =>
      bindM (belems trie t) (fun r =>
      match r with
      | Some ts => list_bound (th :: ts)
      | None => ret T.t_any          (* not a list: Go cannot build such a constant *)
      end))
  end
with belems (trie : list T.str) (c : const) : M (option (list T.ty)) :=
  match c with
  | CNil => ret (Some [])
  | CCons h t =>
      bindM (bconst trie h) (fun th =>
      bindM (belems trie t) (fun r => ret (option_map (cons th) r)))
  | _ => ret None
  end.

(* ------------------------------------------------------ inference states *)
(* inferState (infercontext.go:35): usedVars / varTpe as an association list *)
Definition ctx := list (Z * T.ty).

Fixpoint lookup_ctx (v : Z) (G : ctx) : option T.ty :=
  match G with
  | [] => None
  | (w, t) :: G' => if Z.eqb v w then Some t else lookup_ctx v G'
  end.

Fixpoint update_ctx (v : Z) (t : T.ty) (G : ctx) : ctx :=
  match G with
  | [] => []
  | (w, t') :: G' => if Z.eqb v w then (w, t) :: G' else (w, t') :: update_ctx v t G'
  end.

(* boundOfArg (boundscheck.go:487) on the terms of the fragment *)
Fixpoint bterm (trie : list T.str) (G : ctx) (t : term) : M T.ty :=
  match t with
  | TVar v => ret (match lookup_ctx v G with Some b => b | None => T.t_any end)
  | TConst c => bconst trie c
  | TApp FList args => bindM (mapM (bterm trie G) args) list_bound
  | TApp _ _ => Unsupported
  end.

(* ---- disjointness certificate *)
Inductive kind := KNum | KStr | KName | KFloat | KTime | KDur | KBytes | KPair | KList | KMap | KStruct.

Definition kind_eqb (a b : kind) : bool :=
  match a, b with
  | KNum, KNum | KStr, KStr | KName, KName | KFloat, KFloat | KTime, KTime | KDur, KDur
  | KBytes, KBytes | KPair, KPair | KList, KList | KMap, KMap | KStruct, KStruct => true
  | _, _ => false
  end.

Definition kind_of_const (c : T.const) : kind :=
  match c with
  | T.CName _ => KName | T.CString _ => KStr | T.CBytes _ => KBytes | T.CNum _ => KNum
  | T.CFloat _ => KFloat | T.CTime _ => KTime | T.CDur _ => KDur | T.CPair _ _ => KPair
  | T.CListNil | T.CListCons _ _ => KList
  | T.CMapNil | T.CMapCons _ _ _ => KMap
  | T.CStructNil | T.CStructCons _ _ _ => KStruct
  end.

(* the kind of every member of a type, when the head constructor determines it *)
Definition kind_of_ty (t : T.ty) : option kind :=
  match t with
  | T.TConst s =>
      if T.str_eqb s T.s_any then None
      else if T.str_eqb s T.s_float64 then Some KFloat
      else if T.str_eqb s T.s_name then Some KName
      else if T.str_eqb s T.s_number then Some KNum
      else if T.str_eqb s T.s_string then Some KStr
      else if T.str_eqb s T.s_time then Some KTime
      else if T.str_eqb s T.s_duration then Some KDur
      else if T.str_eqb s T.s_bytes then Some KBytes
      else if T.str_eqb s T.s_bot then None
      else Some KName
  | T.TSingleton c => Some (kind_of_const c)
  | T.TPair _ _ => Some KPair
  | T.TList _ => Some KList
  | T.TMap _ _ => Some KMap
  | _ => None
  end.

(* two name prefix types, neither below the other *)
Definition prefix_disj (a b : T.ty) : bool :=
  match a, b with
  | T.TConst x, T.TConst y =>
      negb (T.is_base_const x) && negb (T.is_base_const y) &&
      negb (T.has_prefix (x ++ [T.slash]) (y ++ [T.slash])) &&
      negb (T.has_prefix (y ++ [T.slash]) (x ++ [T.slash]))
  | _, _ => false
  end.

Definition kinds_disj (a b : T.ty) : bool :=
  match kind_of_ty a, kind_of_ty b with
  | Some ka, Some kb => negb (kind_eqb ka kb) || prefix_disj a b
  | _, _ => false
  end.

(* two non-union types without a common member *)
Definition disj_atom (a b : T.ty) : bool :=
  match a with
  | T.TSingleton c => negb (T.has_type b c)
  | _ => match b with
         | T.TSingleton c => negb (T.has_type a c)
         | _ => kinds_disj a b
         end
  end.

Definition members (t : T.ty) : list T.ty := match t with T.TUnion xs => xs | _ => [t] end.

Definition disjointb (a b : T.ty) : bool :=
  forallb (fun x => forallb (fun y => disj_atom x y) (members b)) (members a).

(* inferState.addOrRefine (infercontext.go:55).  None = the Go function returns an error.
   `must` = the caller drops the state on error (an equality); then an empty
   intersection must be certified by disjointness.  A body atom ignores the error and
   keeps the state, which needs no certificate. *)
Definition add_or_refine (must : bool) (G : ctx) (v : Z) (t : T.ty) : M (option ctx) :=
  if T.is_empty t then ret None
  else match lookup_ctx v G with
       | None => ret (Some (G ++ [(v, t)]))
       | Some old =>
           bindM (lift (lb [old; t])) (fun r =>
           if T.is_empty r
           then bindM (flag (negb must || disjointb old t)) (fun _ => ret None)
           else bindM (flag (T.ty_eqb r old || T.ty_eqb r t || sconf old r || sconf t r))
                      (fun _ => ret (Some (update_ctx v r G))))
       end.

(* ------------------------------------------------------------ declarations *)
Definition row := list T.ty.
Definition decls := list (Z * list row).

Fixpoint lookup_decl (p : Z) (D : decls) : option (list row) :=
  match D with
  | [] => None
  | (q, rows) :: D' => if Z.eqb p q then Some rows else lookup_decl p D'
  end.

Fixpoint all2o (f : T.ty -> T.ty -> option bool) (l r : list T.ty) : option bool :=
  match l, r with
  | [], [] => Some true
  | x :: l', y :: r' => T.andthen (f x y) (all2o f l' r')
  | _, _ => Some false
  end.

Fixpoint all2b (f : T.ty -> T.ty -> bool) (l r : list T.ty) : bool :=
  match l, r with
  | [], [] => true
  | x :: l', y :: r' => f x y && all2b f l' r'
  | _, _ => false
  end.

(* ---- a body atom: feasibleAlternatives (boundscheck.go:317-386), closed types *)
(* argBoundForAlternative :321: the range of a bound variable, otherwise the declared
   column type (also for an argument that is not a variable: the bound computed at :335
   is overwritten at :340). *)
Definition arg_bound (G : ctx) (arg : term) (rt : T.ty) : T.ty :=
  match arg with
  | TVar v => match lookup_ctx v G with Some b => b | None => rt end
  | _ => rt
  end.

Fixpoint arg_bounds (G : ctx) (args : list term) (r : row) : row :=
  match args, r with
  | a :: args', t :: r' => arg_bound G a t :: arg_bounds G args' r'
  | _, _ => []
  end.

(* LowerBound of the two fn:Rel tuples is not empty (:377): intersectType on two
   fn:Rel expressions is the left one if it conforms componentwise, the right one if
   that conforms, EmptyType otherwise. *)
Definition feasible (G : ctx) (args : list term) (r : row) : M bool :=
  let ab := arg_bounds G args r in
  bindM (lift (all2o conf ab r)) (fun f =>
  if f then ret true else lift (all2o conf r ab)).

(* certificate for an infeasible row: some bound variable has a range disjoint from
   the column *)
Fixpoint row_disjoint (G : ctx) (args : list term) (r : row) : bool :=
  match args, r with
  | TVar v :: args', t :: r' =>
      match lookup_ctx v G with
      | Some b => disjointb b t || row_disjoint G args' r'
      | None => row_disjoint G args' r'
      end
  | _ :: args', _ :: r' => row_disjoint G args' r'
  | _, _ => false
  end.

(* the loop at infercontext.go:175: refine every variable argument with the column
   type, ignoring errors *)
Fixpoint refine_args (G : ctx) (args : list term) (r : row) : M ctx :=
  match args, r with
  | TVar v :: args', t :: r' =>
      bindM (add_or_refine false G v t) (fun o =>
      refine_args (match o with Some G' => G' | None => G end) args' r')
  | _ :: args', _ :: r' => refine_args G args' r'
  | _, _ => ret G
  end.

Fixpoint atom_rows (G : ctx) (args : list term) (rows : list row) : M (list ctx) :=
  match rows with
  | [] => ret []
  | r :: rows' =>
      if negb (Nat.eqb (length r) (length args)) then Unsupported else
      bindM (feasible G args r) (fun f =>
      bindM (if f then bindM (refine_args G args r) (fun G' => ret [G'])
             else bindM (flag (row_disjoint G args r)) (fun _ => ret []))
            (fun here => bindM (atom_rows G args rows') (fun rest => ret (here ++ rest))))
  end.

Fixpoint supported_args (args : list term) : bool :=
  match args with
  | [] => true
  | TVar _ :: l => supported_args l
  | TConst _ :: l => supported_args l
  | TApp _ _ :: _ => false      (* evaluated by the engine, typed through function types *)
  end.

(* inferRelTypesFromPremise (infercontext.go:113); None = error: the caller skips the state *)
Definition step_premise (D : decls) (trie : list T.str) (p : premise) (G : ctx) : M (option (list ctx)) :=
  match p with
  | PAtom a =>
      if negb (supported_args (aargs a)) then Unsupported else
      match lookup_decl (apred a) D with
      | None => Unsupported
      | Some rows =>
          bindM (atom_rows G (aargs a) rows) (fun nexts =>
          match nexts with [] => ret None | _ => ret (Some nexts) end)
      end
  | PNeg a =>
      (* after fix N91 the state always continues unchanged (once per feasible
         alternative, or once if there is none) *)
      match lookup_decl (apred a) D with
      | None => Unsupported
      | Some _ => ret (Some [G])
      end
  | PEq l r =>
      let step1 :=
        match l with
        | TVar v => bindM (bterm trie G r) (fun t => add_or_refine true G v t)
        | _ => ret (Some G)
        end in
      bindM step1 (fun o1 =>
      match o1 with
      | None => ret None
      | Some G1 =>
          match r with
          | TVar w =>
              (* varRanges is the snapshot taken before the left side was refined (:252) *)
              bindM (bterm trie G l) (fun t =>
              bindM (add_or_refine true G1 w t) (fun o2 =>
              ret (match o2 with Some G2 => Some [G2] | None => None end)))
          | _ => ret (Some [G1])
          end
      end)
  | PIneq l r => ret (Some [G])                 (* after fix N90 *)
  | PCmp _ _ _ => Unsupported
  end.

Definition flatten_levels (l : list (option (list ctx))) : list ctx :=
  flat_map (fun o => match o with Some x => x | None => [] end) l.

(* the level loop of inferRelTypesFromClause (infercontext.go:324-337); None = rejected *)
Fixpoint run_body (D : decls) (trie : list T.str) (Gs : list ctx) (body : list premise) : M (option (list ctx)) :=
  match body with
  | [] => ret (Some Gs)
  | p :: b =>
      bindM (mapM (step_premise D trie p) Gs) (fun nexts =>
      match flatten_levels nexts with
      | [] => ret None
      | lvl => run_body D trie lvl b
      end)
  end.

(* SetConforms of one inferred fn:Rel tuple against the declared relation type
   (checkClauses :178, :191): some declared row, componentwise.  Certificate: the
   strict judgement affirms one row as well. *)
Definition head_ok (h : row) (rows : list row) : M bool :=
  bindM (lift (T.any_o (fun r => all2o conf h r) rows)) (fun b =>
  bindM (flag (implb b (existsb (fun r => all2b sconf h r) rows))) (fun _ => ret b)).

Fixpoint allM {A} (f : A -> M bool) (l : list A) : M bool :=
  match l with
  | [] => ret true
  | x :: l' => bindM (f x) (fun b => bindM (allM f l') (fun bs => ret (b && bs)))
  end.

(* checkClauses (boundscheck.go:184-199) for one clause *)
Definition check_clause (D : decls) (trie : list T.str) (c : clause) : M bool :=
  match clet c, lookup_decl (apred (chead c)) D with
  | [], Some rows =>
      if negb (forallb (fun r => Nat.eqb (length r) (length (aargs (chead c)))) rows) then Unsupported else
      bindM (run_body D trie [[]] (cbody c)) (fun o =>
      match o with
      | None => ret false
      | Some finals =>
          allM (fun G => bindM (mapM (bterm trie G) (aargs (chead c))) (fun h => head_ok h rows)) finals
      end)
  | _, _ => Unsupported
  end.

(* the unit clauses (:175-182): the observation of a fact is the tuple of the bounds of
   its arguments *)
Definition check_fact (D : decls) (trie : list T.str) (f : fact) : M bool :=
  match lookup_decl (fst f) D with
  | Some rows =>
      if negb (forallb (fun r => Nat.eqb (length r) (length (snd f))) rows) then Unsupported else
      bindM (mapM (bconst trie) (snd f)) (fun h => head_ok h rows)
  | None => Unsupported
  end.

Definition trie_of (D : decls) : list T.str :=
  flat_map (fun d => flat_map (fun r => flat_map names_of r) (snd d)) D.

(* BoundsAnalyzer.BoundsCheck (:126): verdict of the whole program *)
Definition check_program (D : decls) (R : list clause) (init : list fact) : M bool :=
  let trie := trie_of D in
  bindM (allM (check_fact D trie) init) (fun a =>
  bindM (allM (check_clause D trie) R) (fun b => ret (a && b))).
