(* Analysis/Declarative.v - the declarative reading of one clause, independent of premise
   order and of any binding discipline: the set of substitutions over the clause's named
   variables under which every literal holds, wildcards being existential inside their
   literal (they are the fresh variables of replace_wildcards, which occur once).
   - [decl_sol]  the specification (Prop), over C01's one-literal relation Lfp.holds
   - [decl_eval] brute force over a finite domain (used by Run/C04.v on the samples)
   No proofs in this file. *)
From Coq Require Import List ZArith Bool.
From MV Require Import Datalog.Syntax Datalog.Interp Datalog.Solve Datalog.Lfp Analysis.RuleCheck.
Import ListNotations.
Open Scope Z_scope.

Fixpoint dedupZ (l : list Z) : list Z :=
  match l with
  | [] => []
  | x :: l' => if memZ x l' then dedupZ l' else x :: dedupZ l'
  end.

(* variables a solution assigns: the named variables of the body and the head variables
   that no let-statement defines *)
Definition named_vars (c : clause) : list Z :=
  dedupZ (filter (fun v => negb (Z.eqb v wild)) (flat_map premise_vars (cbody c))
          ++ filter (fun v => negb (memZ v (let_defs c))) (atom_vars (chead c))).

Definition total_on (vs : list Z) (s : subst) : Prop :=
  (forall v, In v vs -> lookup v s <> None) /\ (forall v c, In (v, c) s -> In v vs).

(* s (total on the named variables) satisfies every literal of c as written; N = facts
   negated atoms are judged against, I = facts positive atoms are matched with *)
Definition decl_sol (N I : list fact) (c : clause) (s : subst) : Prop :=
  total_on (named_vars c) s /\
  forall p, In p (cbody (replace_wildcards c)) -> exists u, holds (fun f => In f N) I p s u.

(* f is a head instance of c under the declarative reading *)
Definition decl_derives (N I : list fact) (c : clause) (f : fact) : Prop :=
  exists s, decl_sol N I c s /\ emit_head c s = Some f.

(* ---------------- brute force *)
Definition lit_holds (N I : list fact) (s : subst) (p : premise) : bool :=
  match step N I p s with
  | Some (_ :: _) => true
  | _ => false
  end.

Fixpoint assignments (vs : list Z) (dom : list const) : list subst :=
  match vs with
  | [] => [[]]
  | v :: vs' => flat_map (fun s => map (fun c => (v, c) :: s) dom) (assignments vs' dom)
  end.

Definition memf (f : fact) (l : list fact) : bool := existsb (fact_eqb f) l.
Fixpoint dedupf (l : list fact) : list fact :=
  match l with
  | [] => []
  | x :: l' => if memf x l' then dedupf l' else x :: dedupf l'
  end.
Definition memc (c : const) (l : list const) : bool := existsb (const_eqb c) l.
Fixpoint dedupc (l : list const) : list const :=
  match l with
  | [] => []
  | x :: l' => if memc x l' then dedupc l' else x :: dedupc l'
  end.

Definition decl_eval (N I : list fact) (dom : list const) (c : clause) : list fact :=
  let c' := replace_wildcards c in
  dedupf (fmap (fun s => if forallb (lit_holds N I s) (cbody c') then emit_head c' s else None)
               (assignments (named_vars c) dom)).

(* ---- the finite domain: constants of the clause and of the facts, closed [rounds]
   times under the function applications occurring in the clause *)
Fixpoint term_consts (t : term) : list const :=
  match t with
  | TVar _ => []
  | TConst c => [c]
  | TApp _ args => flat_map term_consts args
  end.
Fixpoint term_apps (t : term) : list term :=
  match t with
  | TApp _ args => t :: flat_map term_apps args
  | _ => []
  end.
Definition premise_terms (p : premise) : list term :=
  match p with
  | PAtom a | PNeg a => aargs a
  | PEq l r | PIneq l r | PCmp _ l r => [l; r]
  end.
Definition clause_terms (c : clause) : list term :=
  aargs (chead c) ++ flat_map premise_terms (cbody c) ++ map snd (clet c).

Definition dom_step (apps : list term) (dom : list const) : list const :=
  dedupc (dom ++ flat_map (fun t =>
     fmap (fun s => match eval_term s t with Some (VConst c) => Some c | _ => None end)
          (assignments (dedupZ (term_vars t)) dom)) apps).
Fixpoint iter {A} (n : nat) (f : A -> A) (x : A) : A :=
  match n with O => x | S n' => iter n' f (f x) end.

Definition domain (rounds : nat) (c : clause) (facts : list fact) : list const :=
  let ts := clause_terms c in
  iter rounds (dom_step (flat_map term_apps ts))
       (dedupc (flat_map term_consts ts ++ flat_map snd facts)).
