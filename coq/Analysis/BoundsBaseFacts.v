(* Analysis/BoundsBaseFacts.v - corollary of bounds_sound for the base facts written in the
   program text (added after the second round of seeding, seed C11-6): when the model of the
   bounds checker accepts a program with its certificates, EVERY unit clause of the text -
   of whichever predicate, at whichever textual position, whatever the unit clauses of the
   other predicates look like - is a member of a declared row of its own predicate.
   The Go code collects the observations of the unit clauses per predicate
   (newBoundsAnalyzer, analysis/boundscheck.go:64-98) and compares each one with the
   declaration of that predicate (checkClauses, boundscheck.go:168-176); the model checks
   fact by fact (Bounds.check_fact), which is the same set of comparisons. *)
From Coq Require Import List ZArith Bool.
From MV Require Import Datalog.Syntax Datalog.Interp Datalog.Solve Datalog.Lfp.
From MV Require Import Analysis.Bounds Analysis.BoundsProofs.
Import ListNotations.

Lemma base_facts_conform :
  forall (D : decls) (R : list clause) (init : list fact),
    check_program D R init = Ok (true, true) ->
    forall f, In f init ->
      match lookup_decl (fst f) D with
      | Some rows => exists r, In r rows /\ Forall2 (fun t c => T.has_type t (inj c) = true) r (snd f)
      | None => True
      end.
Proof.
  intros D R init Hchk f Hin.
  apply (bounds_sound D R init (fun g => In g init) Hchk).
  - intros g Hg. left. exact Hg.
  - apply lfp_base. exact Hin.
Qed.
