(* Analysis/BuiltinCheckProofs.v - proofs about CheckRule on built-in atoms with modes
   (model: Analysis/BuiltinCheck.v), for every mode table. *)
From Coq Require Import List ZArith Bool Permutation Lia.
From MV Require Import Datalog.Syntax Analysis.RuleCheck Analysis.RuleCheckProofs Analysis.BuiltinCheck.
Import ListNotations.
Open Scope Z_scope.

(* ================= conservative extension ================= *)
Definition plain (tbl : mtable) (p : premise) : bool :=
  match p with
  | PAtom a => match tbl (apred a) with Some _ => false | None => true end
  | _ => true
  end.

Lemma no_builtin_forallb tbl b : no_builtin tbl b = forallb (plain tbl) b.
Proof. reflexivity. Qed.

Lemma xcheck_premise_plain tbl st o p :
  plain tbl p = true -> xcheck_premise tbl st o p = check_premise st o p.
Proof.
  destruct p as [a|a|l r|l r|op l r]; simpl; try reflexivity.
  destruct (tbl (apred a)); [discriminate|reflexivity].
Qed.

Lemma xcheck_body_plain tbl origs : forall ps st,
  no_builtin tbl ps = true -> xcheck_body tbl st origs ps = check_body st origs ps.
Proof.
  induction origs as [|o origs IH]; intros ps st Hn; [reflexivity|].
  destruct ps as [|p ps]; [reflexivity|]. rewrite no_builtin_forallb in Hn. simpl in Hn.
  apply andb_true_iff in Hn as [Hp Hn].
  simpl. rewrite (xcheck_premise_plain _ _ _ _ Hp).
  destruct (check_premise st o p); [apply IH, Hn|reflexivity].
Qed.

Lemma rw_premise_plain tbl n p : plain tbl (snd (rw_premise n p)) = plain tbl p.
Proof.
  destruct p as [a|a|l r|l r|op l r]; simpl.
  - destruct (rw_terms n (aargs a)); reflexivity.
  - destruct (rw_terms n (aargs a)); reflexivity.
  - destruct (rw_term n l) as [n1 l']. destruct (rw_term n1 r). reflexivity.
  - destruct (rw_term n l) as [n1 l']. destruct (rw_term n1 r). reflexivity.
  - destruct (rw_term n l) as [n1 l']. destruct (rw_term n1 r). reflexivity.
Qed.

Lemma rw_body_plain tbl b : forall n, forallb (plain tbl) (rw_body n b) = forallb (plain tbl) b.
Proof.
  induction b as [|p b IH]; intros n; [reflexivity|]. simpl.
  pose proof (rw_premise_plain tbl n p) as Hp.
  destruct (rw_premise n p) as [n' p']. simpl in *. rewrite Hp, IH. reflexivity.
Qed.

Lemma rw_body_no_builtin tbl b n : no_builtin tbl (rw_body n b) = no_builtin tbl b.
Proof. exact (rw_body_plain tbl b n). Qed.

Lemma xcheck_conservative_lemma tbl c :
  no_builtin tbl (cbody c) = true -> xcheck tbl c = check c.
Proof.
  intros Hn. unfold xcheck, check. rewrite xcheck_body_plain; [reflexivity|].
  unfold replace_wildcards. simpl. rewrite rw_body_no_builtin. exact Hn.
Qed.

Lemma forallb_perm {A} (f : A -> bool) l l' : Permutation l l' -> forallb f l = forallb f l'.
Proof.
  induction 1; simpl.
  - reflexivity.
  - rewrite IHPermutation. reflexivity.
  - destruct (f x), (f y); reflexivity.
  - congruence.
Qed.

Lemma xaccepted_conservative_lemma tbl c :
  no_builtin tbl (cbody c) = true -> xaccepted tbl c = accepted c.
Proof.
  intros Hn. unfold xaccepted, accepted. apply xcheck_conservative_lemma.
  rewrite no_builtin_forallb in *. rewrite (forallb_perm _ _ _ (rewrite_perm_body c)). exact Hn.
Qed.

(* ================= what is bound comes from a binder to the left ================= *)
Lemma check_builtin_J st m a st' B :
  check_builtin st m a = Some st' -> J st B -> J st' (B ++ out_vars m (aargs a)).
Proof.
  unfold check_builtin. intros Hc [Hb Hu].
  destruct (mode_check (cs_bound st) m (aargs a)); [|discriminate].
  match type of Hc with context [if ?b then _ else _] => destruct b; [|discriminate] end.
  injection Hc as <-. split; simpl.
  - intros v Hv. apply in_app_or in Hv as [Hv|Hv]; apply in_or_app; auto.
  - intros v Hv. apply in_or_app. left. apply Hu, Hv.
Qed.

Lemma binder_vars_x tbl p : plain tbl p = true -> binder_vars p = xbinder_vars tbl p.
Proof.
  destruct p as [a|a|l r|l r|op l r]; simpl; try reflexivity.
  destruct (tbl (apred a)); [discriminate|reflexivity].
Qed.

Lemma xcheck_premise_J tbl st o p st' B :
  xcheck_premise tbl st o p = Some st' -> J st B -> J st' (B ++ xbinder_vars tbl p).
Proof.
  intros Hc HJ. destruct (plain tbl p) eqn:Hp.
  - rewrite xcheck_premise_plain in Hc by exact Hp. rewrite <- (binder_vars_x _ _ Hp).
    exact (proj1 (check_premise_J _ _ _ _ _ Hc HJ)).
  - destruct p as [a|a|l r|l r|op l r]; simpl in Hp; try discriminate.
    simpl in *. destruct (tbl (apred a)) as [m|]; [|discriminate].
    eapply check_builtin_J; eauto.
Qed.

Lemma xcheck_body_J tbl origs : forall ps st st' B,
  xcheck_body tbl st origs ps = Some st' -> J st B -> J st' (B ++ flat_map (xbinder_vars tbl) ps).
Proof.
  induction origs as [|o origs IH]; intros ps st st' B Hc HJ.
  - simpl in Hc. injection Hc as <-. eapply J_mono; eauto. intros v Hv. apply in_or_app; auto.
  - destruct ps as [|p ps]; simpl in Hc.
    + injection Hc as <-. simpl. rewrite app_nil_r. exact HJ.
    + destruct (xcheck_premise tbl st o p) as [st1|] eqn:E1; [|discriminate].
      pose proof (xcheck_premise_J _ _ _ _ _ _ E1 HJ) as HJ1.
      pose proof (IH ps st1 st' _ Hc HJ1) as HJ2. simpl. rewrite app_assoc. exact HJ2.
Qed.

(* the check of a body reaches every premise with the state the premises to its left produce *)
Lemma xcheck_body_split tbl p post : forall pre origs st st',
  xcheck_body tbl st origs (pre ++ p :: post) = Some st' ->
  length origs = length (pre ++ p :: post) ->
  exists st1 o st2, xcheck_body tbl st (firstn (length pre) origs) pre = Some st1
                    /\ xcheck_premise tbl st1 o p = Some st2.
Proof.
  induction pre as [|q pre IH]; intros origs st st' Hc Hl.
  - destruct origs as [|o origs]; [discriminate|]. simpl in Hc.
    destruct (xcheck_premise tbl st o p) as [st2|] eqn:E; [|discriminate].
    exists st, o, st2. split; [reflexivity|exact E].
  - destruct origs as [|o origs]; [discriminate|]. simpl in Hc, Hl.
    destruct (xcheck_premise tbl st o q) as [st2|] eqn:E; [|discriminate].
    injection Hl as Hl. destruct (IH origs st2 st' Hc Hl) as (st1 & o' & st3 & H1 & H2).
    exists st1, o', st3. split; [|exact H2]. simpl. rewrite E. exact H1.
Qed.

Lemma in_vars_terms_vars m : forall args v, In v (in_vars m args) -> In v (terms_vars args).
Proof.
  induction m as [|mo m IH]; intros args v H; [destruct args; contradiction|].
  destruct args as [|t args]; [contradiction|]. simpl in H. unfold terms_vars. simpl.
  apply in_app_or in H as [H|H]; apply in_or_app.
  - left. destruct mo; [exact H|contradiction|contradiction].
  - right. apply IH, H.
Qed.

Lemma mode_check_out_var bv m : forall args,
  mode_check bv m args = true ->
  forall i, nth_error m i = Some MOut -> exists v, nth_error args i = Some (TVar v) /\ ~ In v bv.
Proof.
  induction m as [|mo m IH]; intros args Hc i Hi; [destruct i; discriminate|].
  destruct args as [|t args]; [destruct mo; discriminate|].
  destruct i as [|i]; simpl in Hi.
  - injection Hi as ->. simpl in Hc. apply andb_true_iff in Hc as [Ht _].
    destruct t as [v| |]; try discriminate. exists v. split; [reflexivity|].
    intros Hin. apply memZ_In in Hin. rewrite Hin in Ht. discriminate.
  - simpl. apply IH; [|exact Hi]. destruct mo; simpl in Hc;
      [apply andb_true_iff in Hc as [_ Hc]|apply andb_true_iff in Hc as [_ Hc]|]; exact Hc.
Qed.

Lemma mode_check_in_var bv m : forall args,
  mode_check bv m args = true ->
  forall i v, nth_error m i = Some MIn -> nth_error args i = Some (TVar v) -> In v bv.
Proof.
  induction m as [|mo m IH]; intros args Hc i v Hi Ha; [destruct i; discriminate|].
  destruct args as [|t args]; [destruct i; discriminate|].
  destruct i as [|i]; simpl in Hi, Ha.
  - injection Hi as ->. injection Ha as ->. simpl in Hc. apply andb_true_iff in Hc as [Ht _].
    apply memZ_In, Ht.
  - eapply IH; eauto. destruct mo; simpl in Hc;
      [apply andb_true_iff in Hc as [_ Hc]|apply andb_true_iff in Hc as [_ Hc]|]; exact Hc.
Qed.

(* the state CheckRule has when it reaches the built-in atom at a given place of an accepted clause *)
Lemma xcheck_reaches tbl cr pre a post m :
  xcheck tbl cr = true ->
  cbody (replace_wildcards cr) = pre ++ PAtom a :: post ->
  tbl (apred a) = Some m ->
  exists st1 st2, J st1 (flat_map (xbinder_vars tbl) pre) /\ check_builtin st1 m a = Some st2.
Proof.
  intros Hx Hb Hm. unfold xcheck in Hx.
  set (st0 := mkCS [] (atom_vars (chead cr)) []) in *.
  destruct (xcheck_body tbl st0 (cbody cr) (cbody (replace_wildcards cr))) as [st|] eqn:Eb; [|discriminate].
  rewrite Hb in Eb.
  assert (Hl : length (cbody cr) = length (pre ++ PAtom a :: post)).
  { rewrite <- Hb. unfold replace_wildcards. simpl. symmetry. apply rw_body_length. }
  destruct (xcheck_body_split _ _ _ _ _ _ _ Eb Hl) as (st1 & o & st2 & H1 & H2).
  assert (J0 : J st0 []) by (split; simpl; intros w []).
  pose proof (xcheck_body_J _ _ _ _ _ _ H1 J0) as HJ. simpl in HJ.
  exists st1, st2. split; [exact HJ|]. simpl in H2. rewrite Hm in H2. exact H2.
Qed.

(* an input place: every variable in it (also inside a function application) that the
   atom does not bind itself at an output place comes from a binder to the left *)
Lemma builtin_input_unbound_rejected_lemma tbl cr pre a post m v :
  cbody (replace_wildcards cr) = pre ++ PAtom a :: post ->
  tbl (apred a) = Some m ->
  In v (in_vars m (aargs a)) ->
  ~ In v (out_vars m (aargs a)) ->
  ~ In v (flat_map (xbinder_vars tbl) pre) ->
  xcheck tbl cr = false.
Proof.
  intros Hb Hm Hin Hno Hnb. destruct (xcheck tbl cr) eqn:Hx; [exfalso|reflexivity].
  destruct (xcheck_reaches _ _ _ _ _ _ Hx Hb Hm) as (st1 & st2 & [HJ _] & Hc).
  unfold check_builtin in Hc.
  destruct (mode_check (cs_bound st1) m (aargs a)); [|discriminate].
  match type of Hc with context [if ?b then _ else _] => destruct b eqn:Es; [|discriminate] end.
  pose proof (subsetZ_In _ _ Es v (in_vars_terms_vars _ _ _ Hin)) as Hv. simpl in Hv.
  apply in_app_or in Hv as [Hv|Hv]; [exact (Hno Hv)|exact (Hnb (HJ _ Hv))].
Qed.

(* an input place that holds a plain variable: the variable comes from a binder to the
   left, whatever else the atom does with it *)
Lemma builtin_input_var_unbound_rejected_lemma tbl cr pre a post m i v :
  cbody (replace_wildcards cr) = pre ++ PAtom a :: post ->
  tbl (apred a) = Some m ->
  nth_error m i = Some MIn -> nth_error (aargs a) i = Some (TVar v) ->
  ~ In v (flat_map (xbinder_vars tbl) pre) ->
  xcheck tbl cr = false.
Proof.
  intros Hb Hm Hi Ha Hnb. destruct (xcheck tbl cr) eqn:Hx; [exfalso|reflexivity].
  destruct (xcheck_reaches _ _ _ _ _ _ Hx Hb Hm) as (st1 & st2 & [HJ _] & Hc).
  unfold check_builtin in Hc.
  destruct (mode_check (cs_bound st1) m (aargs a)) eqn:Em; [|discriminate].
  exact (Hnb (HJ _ (mode_check_in_var _ _ _ Em _ _ Hi Ha))).
Qed.

(* an output place holds a variable *)
Lemma builtin_output_nonvar_rejected_lemma tbl cr pre a post m i :
  cbody (replace_wildcards cr) = pre ++ PAtom a :: post ->
  tbl (apred a) = Some m ->
  nth_error m i = Some MOut ->
  (forall v, nth_error (aargs a) i <> Some (TVar v)) ->
  xcheck tbl cr = false.
Proof.
  intros Hb Hm Hi Hnv. destruct (xcheck tbl cr) eqn:Hx; [exfalso|reflexivity].
  destruct (xcheck_reaches _ _ _ _ _ _ Hx Hb Hm) as (st1 & st2 & _ & Hc).
  unfold check_builtin in Hc.
  destruct (mode_check (cs_bound st1) m (aargs a)) eqn:Em; [|discriminate].
  destruct (mode_check_out_var _ _ _ Em _ Hi) as (v & Hv & _). exact (Hnv v Hv).
Qed.
