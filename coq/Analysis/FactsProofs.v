(* Analysis/FactsProofs.v - faithfulness at the level of derived facts: for an accepted clause the
   head facts C01's eval_clause computes on the rewritten, wildcard-replaced clause are exactly the
   head instances of the clause as written under the declarative reading (decl_derives). *)
From Coq Require Import List ZArith Bool Permutation Lia.
From MV Require Import Datalog.Syntax Datalog.SyntaxProofs Datalog.Interp Datalog.Solve Datalog.Lfp
  Datalog.SolveProofs Analysis.RuleCheck Analysis.Declarative Analysis.RuleCheckProofs
  Analysis.WildcardProofs Analysis.SafeEvalProofs Analysis.FaithfulProofs Analysis.CompleteProofs.
Import ListNotations.
Open Scope Z_scope.

(* ---- the head and the transform look only at variables of the clause *)
Definition agV (V : list Z) (s u : subst) : Prop := forall v, In v V -> lookup v s = lookup v u.

Lemma agV_cons V s u x c : agV V s u -> agV V ((x, c) :: s) ((x, c) :: u).
Proof. intros H v Hv. simpl. destruct (Z.eqb v x); [reflexivity|apply H, Hv]. Qed.

Lemma run_let_coinc V stmts : forall s u,
  agV V s u -> (forall x t v, In (x, t) stmts -> In v (term_vars t) -> In v V) ->
  match run_let s stmts, run_let u stmts with
  | Some s', Some u' => agV V s' u'
  | None, None => True
  | _, _ => False
  end.
Proof.
  induction stmts as [|[x t] rest IH]; intros s u Hag Hsub; simpl; [exact Hag|].
  assert (E : eval_term s t = eval_term u t).
  { apply eval_term_coinc. intros v Hv. apply Hag. apply (Hsub x t v); [left; reflexivity|exact Hv]. }
  rewrite <- E. destruct (eval_term s t) as [[c|w]|]; try exact Logic.I.
  apply IH; [apply agV_cons, Hag|]. intros x' t' v Hin Hv. apply (Hsub x' t' v); [right; exact Hin|exact Hv].
Qed.

Lemma map_opt_ext {A B} (f g : A -> option B) l :
  (forall a, In a l -> f a = g a) -> map_opt f l = map_opt g l.
Proof.
  induction l as [|a l IH]; intros H; simpl; [reflexivity|].
  rewrite (H a) by (left; reflexivity). rewrite IH; [reflexivity|]. intros b Hb. apply H. right. exact Hb.
Qed.

Lemma emit_head_coinc c s u : agV (clause_vars c) s u -> emit_head c s = emit_head c u.
Proof.
  intros Hag. unfold emit_head.
  assert (Hh : forall t, In t (aargs (chead c)) -> forall v, In v (term_vars t) -> In v (clause_vars c)).
  { intros t Ht v Hv. unfold clause_vars. apply in_or_app. left. unfold atom_vars, terms_vars.
    apply in_flat_map. eauto. }
  assert (Ea : eval_args s (aargs (chead c)) = eval_args u (aargs (chead c))).
  { unfold eval_args. apply map_opt_ext. intros t Ht. apply eval_term_coinc. intros v Hv.
    apply Hag. eapply Hh; eauto. }
  rewrite <- Ea. destruct (eval_args s (aargs (chead c))) as [pvs|] eqn:Ep; [|reflexivity].
  pose proof (run_let_coinc (clause_vars c) (clet c) s u Hag) as Hr.
  assert (Hsub : forall x t v, In (x, t) (clet c) -> In v (term_vars t) -> In v (clause_vars c)).
  { intros x t v Hin Hv. unfold clause_vars, let_vars. apply in_or_app. right. apply in_or_app. right.
    apply in_or_app. right. apply in_flat_map. exists (x, t). auto. }
  specialize (Hr Hsub).
  destruct (run_let s (clet c)) as [s'|]; destruct (run_let u (clet c)) as [u'|]; try contradiction;
    [|reflexivity].
  rewrite (map_opt_ext (ground_value s') (ground_value u') pvs); [reflexivity|].
  intros pv Hpv. destruct pv as [d|w]; [reflexivity|]. simpl. apply Hr.
  destruct (map_opt_spec _ _ _ Ep) as [_ Hin]. apply Hin in Hpv as (t & Ht & Hev).
  apply eval_term_var_inv in Hev as [-> _]. apply (Hh (TVar w) Ht). simpl; auto.
Qed.

Lemma emit_head_rewrite c s : emit_head (replace_wildcards (rewrite c)) s = emit_head c s.
Proof. unfold emit_head. simpl. rewrite rewrite_head, rewrite_let. reflexivity. Qed.

(* ---- a solution of the join gives values only to variables of the replaced body *)
Lemma sat_dom N sel k b s0 s v :
  sat N sel k b s0 s -> bnd s v -> bnd s0 v \/ In v (flat_map premise_vars b).
Proof.
  induction 1 as [k s|k p b s u t Hh _ IH]; intros Hb; [left; exact Hb|].
  destruct (IH Hb) as [H|H]; [|right; simpl; apply in_or_app; right; exact H].
  destruct (holds_dom _ _ _ _ _ v Hh H) as [H'|H']; [left; exact H'|right; simpl; apply in_or_app; left; exact H'].
Qed.

Lemma clause_vars_rewrite c v : In v (clause_vars c) -> In v (clause_vars (rewrite c)).
Proof.
  unfold clause_vars, let_vars. rewrite rewrite_head, rewrite_let.
  intros H. apply in_app_or in H as [H|H]; [apply in_or_app; left; exact H|].
  apply in_or_app; right. apply in_app_or in H as [H|H]; [|apply in_or_app; right; exact H].
  apply in_or_app; left. apply in_flat_map in H as (o & Ho & Hv). apply in_flat_map. exists o.
  split; [|exact Hv]. eapply Permutation_in; [apply Permutation_sym, rewrite_perm_body|exact Ho].
Qed.

Lemma sols_unbound c Sneg sel sols s v :
  solve Sneg sel 0 (cbody (replace_wildcards (rewrite c))) [[]] = Some sols -> In s sols ->
  In v (clause_vars c) -> ~ In v (named_vars c) -> lookup v s = None.
Proof.
  intros Hsol Hs Hv Hnn. destruct (lookup v s) as [d|] eqn:E; [|reflexivity]. exfalso.
  apply (solve_spec _ _ _ _ _ _ Hsol) in Hs as (s0 & [<-|[]] & Hsat).
  assert (Hb : bnd s v) by (unfold bnd; congruence).
  destruct (sat_dom _ _ _ _ _ _ v Hsat Hb) as [H|H]; [apply H; reflexivity|].
  apply in_flat_map in H as (p & Hp & Hvp).
  destruct (Forall2_In_r _ _ _ _ (replace_wildcards_rel (rewrite c)) Hp) as (o & Ho & m & Hm & ->).
  pose proof (fresh_base_pos (rewrite c)) as Hb0.
  destruct (rw_premise_vars o m) as (_ & A2 & _); [lia|].
  destruct (A2 v Hvp) as [[Hvo Hnw]|Hfr].
  - apply Hnn. apply named_vars_in. left. split; [|exact Hnw]. apply in_flat_map. exists o.
    split; [|exact Hvo]. eapply Permutation_in; [apply rewrite_perm_body|exact Ho].
  - apply clause_vars_rewrite, fresh_base_gt in Hv. lia.
Qed.

(* ---- derived facts *)
Lemma accepted_facts_lemma c Sneg I fs :
  accepted c = true -> alias_free (rewrite c) = true ->
  eval_clause Sneg (fun _ => I) (replace_wildcards (rewrite c)) = Some fs ->
  forall f, In f fs <-> decl_derives Sneg I c f.
Proof.
  intros Hacc Haf Hev f. unfold eval_clause in Hev.
  destruct (solve Sneg (fun _ => I) 0 (cbody (replace_wildcards (rewrite c))) [[]]) as [sols|] eqn:Hsol;
    [|discriminate].
  destruct (map_opt_spec _ _ _ Hev) as [_ Hin]. rewrite Hin. split.
  - intros (s & Hs & He). rewrite emit_head_rewrite in He.
    exists (restrict (named_vars c) s). split; [eapply accepted_sound_lemma; eauto|].
    rewrite <- He. symmetry. apply emit_head_coinc. intros v Hv. rewrite lookup_restrict.
    destruct (memZ v (named_vars c)) eqn:E; [reflexivity|].
    eapply sols_unbound; eauto. intros X. apply memZ_In in X. congruence.
  - intros (sg & Hd & He).
    destruct (accepted_complete_lemma c Sneg I sols sg Hacc Haf Hsol Hd) as (s & Hs & Hag).
    exists s. split; [exact Hs|]. rewrite emit_head_rewrite. rewrite <- He.
    apply emit_head_coinc. intros v Hv.
    destruct (memZ v (named_vars c)) eqn:E; [apply Hag, memZ_In, E|].
    assert (Hnn : ~ In v (named_vars c)) by (intros X; apply memZ_In in X; congruence).
    rewrite (sols_unbound c Sneg _ sols s v Hsol Hs Hv Hnn).
    destruct Hd as [[_ Hkeys] _]. destruct (lookup v sg) as [d|] eqn:E2; [|reflexivity].
    exfalso. apply Hnn. eapply Hkeys. apply lookup_In. exact E2.
Qed.
