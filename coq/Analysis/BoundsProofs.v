(* Analysis/BoundsProofs.v - soundness of the model of the bounds checker
   (Analysis/Bounds.v) for the least-model semantics of Datalog/Lfp.v, on the fragment
   where the exactness flag is set. *)
From Coq Require Import List ZArith Bool Lia.
From MV Require Import Datalog.Syntax Datalog.SyntaxProofs Datalog.Interp Datalog.Solve Datalog.Lfp.
From MV Require Import Analysis.Bounds.
From MV Require Types.Types Types.TypesProofs.
Import ListNotations.
Open Scope Z_scope.

Module TP := MV.Types.TypesProofs.

(* ------------------------------------------------------------------ monad *)
Lemma bindM_true {A B} (m : M A) (f : A -> M B) b :
  bindM m f = Ok (b, true) -> exists a, m = Ok (a, true) /\ f a = Ok (b, true).
Proof.
  unfold bindM. destruct m as [[a e1]| |]; try discriminate.
  destruct (f a) as [[b' e2]| |] eqn:E; try discriminate.
  intros H. inversion H; subst. apply andb_true_iff in H2. destruct H2; subst. eauto.
Qed.

Lemma bindM_ok {A B} (m : M A) (f : A -> M B) b e :
  bindM m f = Ok (b, e) -> exists a e1 e2, m = Ok (a, e1) /\ f a = Ok (b, e2) /\ e = e1 && e2.
Proof.
  unfold bindM. destruct m as [[a e1]| |]; try discriminate.
  destruct (f a) as [[b' e2]| |] eqn:E; try discriminate.
  intros H. inversion H; subst. eauto 7.
Qed.

Lemma ret_true {A} (a b : A) e : ret a = Ok (b, e) -> a = b /\ e = true.
Proof. unfold ret. intros H; inversion H; auto. Qed.

Lemma flag_true b u : flag b = Ok (u, true) -> b = true.
Proof. unfold flag. intros H; inversion H; auto. Qed.

Lemma lift_true {A} (o : option A) a e : lift o = Ok (a, e) -> o = Some a.
Proof. unfold lift. destruct o; intros H; inversion H; auto. Qed.

Lemma mapM_true {A B} (f : A -> M B) l ys :
  mapM f l = Ok (ys, true) -> Forall2 (fun x y => f x = Ok (y, true)) l ys.
Proof.
  revert ys. induction l as [|x l IH]; simpl; intros ys H.
  - apply ret_true in H. destruct H; subst. constructor.
  - apply bindM_true in H. destruct H as [y [Hy H]].
    apply bindM_true in H. destruct H as [ys' [Hys H]].
    apply ret_true in H. destruct H; subst. constructor; auto.
Qed.

(* ------------------------------------------------------------ membership *)
Definition hast (t : T.ty) (c : const) : Prop := T.has_type t (inj c) = true.

Lemma sconf_sound a b c : sconf a b = true -> T.has_type a c = true -> T.has_type b c = true.
Proof.
  unfold sconf. destruct (T.set_conforms T.Strict a b) as [[|]|] eqn:E; try discriminate.
  intros _. eapply TP.set_conforms_strict_sound; eauto.
Qed.

Lemma cert_ub_sound ts u t c : cert_ub ts u = true -> In t ts -> T.has_type t c = true -> T.has_type u c = true.
Proof.
  unfold cert_ub. intros H Hin Ht. rewrite forallb_forall in H. specialize (H _ Hin).
  apply orb_true_iff in H. destruct H as [H|H].
  - apply TP.ty_eqb_eq in H. subst. auto.
  - eapply sconf_sound; eauto.
Qed.

Lemma has_list ts u cs :
  (forall t, In t ts -> forall c, T.has_type t c = true -> T.has_type u c = true) ->
  Forall2 hast ts cs -> T.has_type (T.TList u) (inj (list_of_consts cs)) = true.
Proof.
  intros Hu H. induction H as [|t c ts cs Htc H IH]; simpl; auto.
  apply andb_true_iff. split.
  - apply (Hu t); simpl; auto.
  - apply IH. intros t' Hin. apply Hu. simpl; auto.
Qed.

Lemma list_bound_sound ts t cs :
  list_bound ts = Ok (t, true) -> Forall2 hast ts cs -> hast t (list_of_consts cs).
Proof.
  unfold list_bound, hast. destruct ts as [|t0 ts'].
  - intros H F. apply ret_true in H. destruct H; subst. inversion F; subst. reflexivity.
  - intros H F. apply bindM_true in H. destruct H as [u [Hu H]].
    apply bindM_true in H. destruct H as [x [Hc H]]. apply flag_true in Hc.
    apply ret_true in H. destruct H; subst.
    apply has_list with (ts := t0 :: ts'); auto.
    intros t Hin c. eapply cert_ub_sound; eauto.
Qed.

Lemma better_inv s trie b :
  fold_right (better s) None trie = Some b ->
  T.is_base_const b = false /\ T.has_prefix s (b ++ [T.slash]) = true.
Proof.
  revert b. induction trie as [|x trie IH]; simpl; intros b H; try discriminate.
  unfold better in H at 1.
  destruct (negb (T.is_base_const x) && T.has_prefix s (x ++ [T.slash])) eqn:E.
  - apply andb_true_iff in E. destruct E as [E1 E2]. apply negb_true_iff in E1.
    destruct (fold_right (better s) None trie) as [b0|] eqn:F.
    + destruct (Nat.ltb (length b0) (length x)); inversion H; subst; auto.
    + inversion H; subst; auto.
  - auto.
Qed.

Lemma prefix_name_sound trie s : T.has_type (prefix_name trie s) (T.CName s) = true.
Proof.
  unfold prefix_name. destruct (fold_right (better s) None trie) as [b|] eqn:F.
  - apply better_inv in F. destruct F as [F1 F2]. simpl.
    rewrite TP.has_base_type_nonbase by auto. exact F2.
  - reflexivity.
Qed.

Lemma bconst_cons trie h t :
  bconst trie (CCons h t) =
  bindM (bconst trie h) (fun th => bindM (belems trie t) (fun r =>
    match r with Some ts => list_bound (th :: ts) | None => ret T.t_any end)).
Proof. reflexivity. Qed.

Lemma belems_cons trie h t :
  belems trie (CCons h t) =
  bindM (bconst trie h) (fun th => bindM (belems trie t) (fun r => ret (option_map (cons th) r))).
Proof. reflexivity. Qed.

Lemma bconst_belems_sound trie c :
  (forall t, bconst trie c = Ok (t, true) -> hast t c) /\
  (forall ts, belems trie c = Ok (Some ts, true) -> exists cs, c = list_of_consts cs /\ Forall2 hast ts cs).
Proof.
  induction c as [s|s|n|a IHa b IHb| |h IHh t IHt]; (split; [intros ty H|intros ts H]).
  - simpl in H. apply ret_true in H. destruct H as [H _]. subst. unfold hast. simpl. apply prefix_name_sound.
  - simpl in H. apply ret_true in H. destruct H as [H _]. discriminate.
  - simpl in H. apply ret_true in H. destruct H as [H _]. subst. reflexivity.
  - simpl in H. apply ret_true in H. destruct H as [H _]. discriminate.
  - simpl in H. apply ret_true in H. destruct H as [H _]. subst. reflexivity.
  - simpl in H. apply ret_true in H. destruct H as [H _]. discriminate.
  - simpl in H. apply ret_true in H. destruct H as [H _]. subst. reflexivity.
  - simpl in H. apply ret_true in H. destruct H as [H _]. discriminate.
  - simpl in H. apply ret_true in H. destruct H as [H _]. subst. reflexivity.
  - simpl in H. apply ret_true in H. destruct H as [H _]. inversion H; subst. exists []. split; auto.
  - rewrite bconst_cons in H.
    apply bindM_true in H. destruct H as [th [Hh H]].
    apply bindM_true in H. destruct H as [r [Hr H]].
    destruct r as [ts|].
    + destruct IHt as [_ IHt]. destruct (IHt _ Hr) as [cs [Ec F]]. subst t.
      change (CCons h (list_of_consts cs)) with (list_of_consts (h :: cs)).
      eapply list_bound_sound; eauto. constructor; auto. destruct IHh as [IHh _]. auto.
    + apply ret_true in H. destruct H; subst. reflexivity.
  - rewrite belems_cons in H.
    apply bindM_true in H. destruct H as [th [Hh H]].
    apply bindM_true in H. destruct H as [r [Hr H]].
    apply ret_true in H. destruct H as [H _].
    destruct r as [ts'|]; simpl in H; try discriminate. inversion H; subst.
    destruct IHt as [_ IHt]. destruct (IHt _ Hr) as [cs [Ec F]]. subst t.
    exists (h :: cs). split; auto. constructor; auto. destruct IHh as [IHh _]. auto.
Qed.

Lemma bconst_sound trie c t : bconst trie c = Ok (t, true) -> hast t c.
Proof. apply bconst_belems_sound. Qed.

(* -------------------------------------------------------------- disjointness *)
Lemma kind_sound t k c : kind_of_ty t = Some k -> T.has_type t c = true -> kind_of_const c = k.
Proof.
  intros Hk Hc. destruct t; try discriminate.
  - unfold kind_of_ty in Hk. simpl in Hc. unfold T.has_base_type in Hc.
    repeat (match type of Hk with context [if ?b then _ else _] => destruct b end;
            try discriminate;
            try (inversion Hk; subst; destruct c; try discriminate; reflexivity)).
  - simpl in Hk, Hc. apply TP.const_eqb_eq in Hc. subst. inversion Hk; auto.
  - simpl in Hk, Hc. inversion Hk; subst. destruct c; try discriminate; reflexivity.
  - simpl in Hk. inversion Hk; subst. destruct c; simpl in Hc; try discriminate; reflexivity.
  - simpl in Hk. inversion Hk; subst. destruct c; simpl in Hc; try discriminate; reflexivity.
Qed.

Lemma kind_eqb_refl k : kind_eqb k k = true.
Proof. destruct k; reflexivity. Qed.

Lemma prefix_comparable s : forall p q,
  T.has_prefix s p = true -> T.has_prefix s q = true -> T.has_prefix p q = true \/ T.has_prefix q p = true.
Proof.
  induction s as [|x s IH]; intros p q Hp Hq.
  - destruct p; simpl in Hp; try discriminate. right. destruct q; reflexivity.
  - destruct p as [|a p].
    + right. destruct q; reflexivity.
    + destruct q as [|b q].
      * left. reflexivity.
      * simpl in Hp, Hq. apply andb_true_iff in Hp. apply andb_true_iff in Hq.
        destruct Hp as [Hp1 Hp2]. destruct Hq as [Hq1 Hq2].
        apply Z.eqb_eq in Hp1. apply Z.eqb_eq in Hq1. subst.
        destruct (IH p q Hp2 Hq2) as [H|H]; [left|right]; simpl; rewrite Z.eqb_refl; simpl; exact H.
Qed.

Lemma prefix_disj_sound a b c :
  prefix_disj a b = true -> T.has_type a c = true -> T.has_type b c = true -> False.
Proof.
  unfold prefix_disj. destruct a; try discriminate. destruct b; try discriminate.
  intros H Ha Hb. repeat (apply andb_true_iff in H; destruct H as [H ?]).
  apply negb_true_iff in H. apply negb_true_iff in H0. apply negb_true_iff in H1. apply negb_true_iff in H2.
  simpl in Ha, Hb. rewrite TP.has_base_type_nonbase in Ha by auto. rewrite TP.has_base_type_nonbase in Hb by auto.
  destruct c; try discriminate.
  destruct (prefix_comparable _ _ _ Ha Hb) as [E|E]; congruence.
Qed.

Lemma kinds_disj_sound a b c :
  kinds_disj a b = true -> T.has_type a c = true -> T.has_type b c = true -> False.
Proof.
  unfold kinds_disj. intros H Ha Hb.
  destruct (kind_of_ty a) as [ka|] eqn:Ka; try discriminate.
  destruct (kind_of_ty b) as [kb|] eqn:Kb; try discriminate.
  pose proof (kind_sound _ _ _ Ka Ha) as E1. pose proof (kind_sound _ _ _ Kb Hb) as E2.
  subst. rewrite kind_eqb_refl in H. simpl in H. eapply prefix_disj_sound; eauto.
Qed.

Lemma disj_atom_sound a b c :
  disj_atom a b = true -> T.has_type a c = true -> T.has_type b c = true -> False.
Proof.
  intros H Ha Hb.
  assert (Hs : forall d t, negb (T.has_type t d) = true -> T.has_type (T.TSingleton d) c = true ->
                           T.has_type t c = true -> False).
  { intros d t Hn Hd Ht. simpl in Hd. apply TP.const_eqb_eq in Hd. subst.
    apply negb_true_iff in Hn. congruence. }
  destruct a; try (eapply Hs; eassumption);
    destruct b; try (eapply Hs; eassumption); simpl in H; eapply kinds_disj_sound; eauto.
Qed.

Lemma members_hit t c : T.has_type t c = true -> exists x, In x (members t) /\ T.has_type x c = true.
Proof.
  intros H. destruct t; try (eexists; split; [left; reflexivity|exact H]).
  simpl in H. apply existsb_exists in H. destruct H as [x [Hin Hx]]. exists x. split; auto.
Qed.

Lemma disjointb_sound a b c :
  disjointb a b = true -> T.has_type a c = true -> T.has_type b c = true -> False.
Proof.
  unfold disjointb. intros H Ha Hb.
  destruct (members_hit _ _ Ha) as [x [Hx Hxc]]. destruct (members_hit _ _ Hb) as [y [Hy Hyc]].
  rewrite forallb_forall in H. specialize (H _ Hx). rewrite forallb_forall in H. specialize (H _ Hy).
  eapply disj_atom_sound; eauto.
Qed.

(* ------------------------------------------------------------------ contexts *)
Definition ty_ok (s : subst) (v : Z) (t : T.ty) : Prop :=
  forall c, (lookup v s = Some c \/ lookup v s = None) -> hast t c.

Definition ctx_ok (G : ctx) (s : subst) : Prop :=
  forall v t, lookup_ctx v G = Some t -> ty_ok s v t.

Definition ext (s s' : subst) : Prop := forall v c, lookup v s = Some c -> lookup v s' = Some c.

Lemma ext_refl s : ext s s.
Proof. intros v c H; exact H. Qed.

Lemma ext_trans s1 s2 s3 : ext s1 s2 -> ext s2 s3 -> ext s1 s3.
Proof. intros A B v c H. apply B. apply A. exact H. Qed.

Lemma ty_ok_ext s s' v t : ty_ok s v t -> ext s s' -> ty_ok s' v t.
Proof.
  intros H E c Hc. destruct (lookup v s) as [d|] eqn:L.
  - pose proof (E _ _ L) as L'. destruct Hc as [Hc|Hc]; rewrite L' in Hc; try discriminate.
    inversion Hc; subst. apply H. left. exact L.
  - apply H. right. exact L.
Qed.

Lemma ctx_ok_ext G s s' : ctx_ok G s -> ext s s' -> ctx_ok G s'.
Proof. intros H E v t L. eapply ty_ok_ext; eauto. Qed.

Lemma ctx_ok_nil s : ctx_ok [] s.
Proof. intros v t L. discriminate. Qed.

Lemma lookup_ctx_app v G w t :
  lookup_ctx v (G ++ [(w, t)]) =
  match lookup_ctx v G with Some x => Some x | None => if Z.eqb v w then Some t else None end.
Proof.
  induction G as [|[u tu] G IH]; simpl; auto. destruct (Z.eqb v u); auto.
Qed.

Lemma lookup_update_same w t G old :
  lookup_ctx w G = Some old -> lookup_ctx w (update_ctx w t G) = Some t.
Proof.
  induction G as [|[u tu] G IH]; simpl; try discriminate.
  destruct (Z.eqb w u) eqn:E; simpl; rewrite E; auto.
Qed.

Lemma lookup_update_other v w t G :
  v <> w -> lookup_ctx v (update_ctx w t G) = lookup_ctx v G.
Proof.
  intros N. induction G as [|[u tu] G IH]; simpl; auto.
  destruct (Z.eqb w u) eqn:E; simpl.
  - apply Z.eqb_eq in E. subst. destruct (Z.eqb v u) eqn:E2; auto. apply Z.eqb_eq in E2. contradiction.
  - rewrite IH. reflexivity.
Qed.

Lemma witness s v : exists c : const, lookup v s = Some c \/ lookup v s = None.
Proof. destruct (lookup v s) as [c|]; [exists c; auto | exists (CNum 0); auto]. Qed.

Lemma is_empty_no_member t c : T.is_empty t = true -> T.has_type t c = false.
Proof. destruct t; try discriminate. destruct ts; try discriminate. reflexivity. Qed.

Lemma refine_sound must G s v t G' :
  ctx_ok G s -> ty_ok s v t -> add_or_refine must G v t = Ok (Some G', true) -> ctx_ok G' s.
Proof.
  intros HG Ht H. unfold add_or_refine in H.
  destruct (T.is_empty t) eqn:Et.
  { apply ret_true in H. destruct H as [H _]. discriminate. }
  destruct (lookup_ctx v G) as [old|] eqn:L.
  - apply bindM_true in H. destruct H as [r [Hr H]].
    destruct (T.is_empty r) eqn:Er.
    + apply bindM_true in H. destruct H as [u [_ H]]. apply ret_true in H. destruct H as [H _]. discriminate.
    + apply bindM_true in H. destruct H as [u [Hf H]]. apply flag_true in Hf.
      apply ret_true in H. destruct H as [H _]. inversion H; subst. clear H.
      intros w tw Lw. destruct (Z.eq_dec w v) as [E|N].
      * subst. rewrite (lookup_update_same _ _ _ _ L) in Lw. inversion Lw; subst.
        intros c Hc. pose proof (HG _ _ L c Hc) as Hold. pose proof (Ht c Hc) as Hnew.
        unfold hast in *.
        repeat (apply orb_true_iff in Hf; destruct Hf as [Hf|Hf]).
        -- apply TP.ty_eqb_eq in Hf. subst. auto.
        -- apply TP.ty_eqb_eq in Hf. subst. auto.
        -- eapply sconf_sound; eauto.
        -- eapply sconf_sound; eauto.
      * rewrite lookup_update_other in Lw by auto. apply HG. exact Lw.
  - apply ret_true in H. destruct H as [H _]. inversion H; subst. clear H.
    intros w tw Lw. rewrite lookup_ctx_app in Lw.
    destruct (lookup_ctx w G) as [x|] eqn:Lx.
    + inversion Lw; subst. apply HG. exact Lx.
    + destruct (Z.eqb w v) eqn:E; try discriminate. apply Z.eqb_eq in E. inversion Lw; subst. exact Ht.
Qed.

Lemma refine_none G s v t :
  ctx_ok G s -> ty_ok s v t -> add_or_refine true G v t = Ok (None, true) -> False.
Proof.
  intros HG Ht H. unfold add_or_refine in H.
  destruct (witness s v) as [c Hc]. pose proof (Ht c Hc) as Hnew. unfold hast in Hnew.
  destruct (T.is_empty t) eqn:Et.
  { rewrite (is_empty_no_member _ _ Et) in Hnew. discriminate. }
  destruct (lookup_ctx v G) as [old|] eqn:L.
  - apply bindM_true in H. destruct H as [r [Hr H]].
    destruct (T.is_empty r) eqn:Er.
    + apply bindM_true in H. destruct H as [u [Hf _]]. apply flag_true in Hf. simpl in Hf.
      pose proof (HG _ _ L c Hc) as Hold. eapply disjointb_sound; eauto.
    + apply bindM_true in H. destruct H as [u [_ H]]. apply ret_true in H. destruct H as [H _]. discriminate.
  - apply ret_true in H. destruct H as [H _]. discriminate.
Qed.

(* --------------------------------------------------------------------- terms *)
Section TermInd.
  Variable P : term -> Prop.
  Hypothesis HV : forall v, P (TVar v).
  Hypothesis HC : forall c, P (TConst c).
  Hypothesis HA : forall f args, Forall P args -> P (TApp f args).
  Fixpoint term_ind' (t : term) : P t :=
    match t with
    | TVar v => HV v
    | TConst c => HC c
    | TApp f args =>
        HA f args ((fix go (l : list term) : Forall P l :=
                      match l with
                      | [] => Forall_nil P
                      | a :: l' => Forall_cons a (term_ind' a) (go l')
                      end) args)
    end.
End TermInd.

Fixpoint eval_consts (s : subst) (l : list term) : option (list const) :=
  match l with
  | [] => Some []
  | a :: l' => match eval_term s a with
               | Some (VConst c) => match eval_consts s l' with Some cs => Some (c :: cs) | None => None end
               | _ => None
               end
  end.

Lemma eval_term_app s f args :
  eval_term s (TApp f args) =
  match eval_consts s args with
  | Some cs => match eval_fn f cs with Some c => Some (VConst c) | None => None end
  | None => None
  end.
Proof.
  simpl.
  match goal with |- match ?g args with _ => _ end = _ => assert (E : forall l, g l = eval_consts s l) end.
  { induction l as [|a l IH]; simpl; auto. rewrite IH. reflexivity. }
  rewrite E. reflexivity.
Qed.

Lemma eval_consts_forall2 s l cs :
  eval_consts s l = Some cs -> Forall2 (fun a c => eval_term s a = Some (VConst c)) l cs.
Proof.
  revert cs. induction l as [|a l IH]; simpl; intros cs H.
  - inversion H; constructor.
  - destruct (eval_term s a) as [[c|v]|] eqn:E; try discriminate.
    destruct (eval_consts s l) as [cs'|]; try discriminate. inversion H; subst. constructor; auto.
Qed.

(* the term denotes c under s: it evaluates to c, or it is a variable s does not bind
   (then every constant is a candidate) *)
Definition denotes (s : subst) (t : term) (c : const) : Prop :=
  eval_term s t = Some (VConst c) \/ (exists v, t = TVar v /\ lookup v s = None).

Lemma bterm_app trie G f args :
  bterm trie G (TApp f args) =
  match f with FList => bindM (mapM (bterm trie G) args) list_bound | _ => Unsupported end.
Proof. destruct f; reflexivity. Qed.

Lemma bterm_sound trie G s t : forall ty c,
  ctx_ok G s -> bterm trie G t = Ok (ty, true) -> denotes s t c -> hast ty c.
Proof.
  induction t as [v|c0|f args IH] using term_ind'; intros ty c HG H D.
  - simpl in H. apply ret_true in H. destruct H as [H _]. subst.
    assert (Hc : lookup v s = Some c \/ lookup v s = None).
    { destruct D as [D|[w [E L]]].
      - simpl in D. destruct (lookup v s); inversion D; auto.
      - inversion E; subst. auto. }
    destruct (lookup_ctx v G) as [b|] eqn:L.
    + eapply HG; eauto.
    + apply TP.has_type_any.
  - simpl in H. destruct D as [D|[w [E _]]]; try discriminate.
    simpl in D. inversion D; subst. eapply bconst_sound; eauto.
  - rewrite bterm_app in H. destruct D as [D|[w [E _]]]; try discriminate.
    destruct f; try discriminate.
    apply bindM_true in H. destruct H as [ts [Hm H]].
    rewrite eval_term_app in D.
    destruct (eval_consts s args) as [cs|] eqn:Ec; try discriminate.
    simpl in D. inversion D; subst.
    eapply list_bound_sound; eauto.
    apply mapM_true in Hm. apply eval_consts_forall2 in Ec.
    clear H D. revert ts cs Hm Ec. induction IH as [|a args Ha _ IHargs]; intros ts cs Hm Ec.
    + inversion Hm; subst. inversion Ec; subst. constructor.
    + inversion Hm; subst. inversion Ec; subst. constructor.
      * eapply Ha; eauto. left. auto.
      * apply IHargs; auto.
Qed.

(* --------------------------------------------------------------- unification *)
Definition binds (s' : subst) (a : term) (c : const) : Prop :=
  match a with TVar v => lookup v s' = Some c | _ => True end.

Lemma unify1_ext s pv c s' : unify1 s pv c = Some s' -> ext s s'.
Proof.
  unfold unify1. destruct pv as [d|v].
  - destruct (const_eqb d c); intros H; inversion H; subst. apply ext_refl.
  - destruct (lookup v s) as [d|] eqn:L.
    + destruct (const_eqb d c); intros H; inversion H; subst. apply ext_refl.
    + intros H; inversion H; subst. intros w x Hw. simpl.
      destruct (Z.eqb w v) eqn:E; auto. apply Z.eqb_eq in E. subst. congruence.
Qed.

Lemma unify_args_vars s0 : forall args pvs s cs s',
  ext s0 s -> map_opt (eval_term s0) args = Some pvs -> unify_args s pvs cs = Some s' ->
  ext s s' /\ Forall2 (binds s') args cs.
Proof.
  induction args as [|a args IH]; intros pvs s cs s' E0 Hm Hu.
  - simpl in Hm. inversion Hm; subst. destruct cs; simpl in Hu; try discriminate.
    inversion Hu; subst. split; [apply ext_refl|constructor].
  - simpl in Hm. destruct (eval_term s0 a) as [pv|] eqn:Ea; try discriminate.
    destruct (map_opt (eval_term s0) args) as [pvs'|] eqn:Em; try discriminate.
    inversion Hm; subst. destruct cs as [|c cs]; simpl in Hu; try discriminate.
    destruct (unify1 s pv c) as [s1|] eqn:U1; try discriminate.
    pose proof (unify1_ext _ _ _ _ U1) as E1.
    destruct (IH pvs' s1 cs s' (ext_trans _ _ _ E0 E1) eq_refl Hu) as [E2 F].
    split; [eapply ext_trans; eauto|]. constructor; auto.
    destruct a as [v|k|f l]; simpl; auto.
    simpl in Ea. apply E2. unfold unify1 in U1.
    destruct (lookup v s0) as [d|] eqn:L0; inversion Ea; subst.
    + destruct (const_eqb d c) eqn:Ec; try discriminate. inversion U1; subst.
      apply const_eqb_spec in Ec. subst. apply E0. exact L0.
    + destruct (lookup v s) as [d|] eqn:L.
      * destruct (const_eqb d c) eqn:Ec; try discriminate. inversion U1; subst.
        apply const_eqb_spec in Ec. subst. exact L.
      * inversion U1; subst. simpl. rewrite Z.eqb_refl. reflexivity.
Qed.

(* --------------------------------------------------------- facts and rows *)
Definition row_ok (r : row) (cs : list const) : Prop := Forall2 hast r cs.

Definition fact_ok (D : decls) (f : fact) : Prop :=
  match lookup_decl (fst f) D with
  | Some rows => exists r, In r rows /\ row_ok r (snd f)
  | None => True
  end.

Lemma binds_ty_ok s' v c t : lookup v s' = Some c -> hast t c -> ty_ok s' v t.
Proof. intros L H c' [Hc|Hc]; rewrite L in Hc; inversion Hc; subst; auto. Qed.

Lemma refine_args_sound s' : forall args G r cs G',
  ctx_ok G s' -> Forall2 (binds s') args cs -> Forall2 hast r cs ->
  refine_args G args r = Ok (G', true) -> ctx_ok G' s'.
Proof.
  induction args as [|a args IH]; intros G r cs G' HG Fb Fr H.
  - simpl in H. apply ret_true in H. destruct H; subst. auto.
  - inversion Fb as [|a0 c args0 cs0 Hb Fb']; subst. inversion Fr as [|t c0 r' cs0' Ht Fr']; subst.
    destruct a as [v|k|f l].
    + simpl in H. apply bindM_true in H. destruct H as [o [Ho H]]. simpl in Hb.
      destruct o as [G1|].
      * apply (IH G1 r' cs0 G'); auto.
        apply (refine_sound false G s' v t G1); auto. eapply binds_ty_ok; eauto.
      * apply (IH G r' cs0 G'); auto.
    + simpl in H. apply (IH G r' cs0 G'); auto.
    + simpl in H. apply (IH G r' cs0 G'); auto.
Qed.

Lemma row_disjoint_sound s' : forall args G r cs,
  ctx_ok G s' -> Forall2 (binds s') args cs -> Forall2 hast r cs -> row_disjoint G args r = true -> False.
Proof.
  induction args as [|a args IH]; intros G r cs HG Fb Fr H.
  - simpl in H. discriminate.
  - inversion Fb as [|a0 c args0 cs0 Hb Fb']; subst. inversion Fr as [|t c0 r' cs0' Ht Fr']; subst.
    destruct a as [v|k|f l]; simpl in H; try (apply (IH G r' cs0); auto; fail).
    simpl in Hb. destruct (lookup_ctx v G) as [b|] eqn:L.
    + apply orb_true_iff in H. destruct H as [H|H].
      * assert (Hbc : hast b c) by (apply (HG v b L c); auto).
        apply (disjointb_sound b t (inj c)); auto.
      * apply (IH G r' cs0); auto.
    + apply (IH G r' cs0); auto.
Qed.

Lemma atom_rows_sound s' args cs : forall rows G nexts r,
  ctx_ok G s' -> Forall2 (binds s') args cs -> In r rows -> Forall2 hast r cs ->
  atom_rows G args rows = Ok (nexts, true) -> exists G', In G' nexts /\ ctx_ok G' s'.
Proof.
  induction rows as [|r0 rows IH]; intros G nexts r HG Fb Hin Fr H.
  - destruct Hin.
  - simpl in H. destruct (negb (Nat.eqb (length r0) (length args))); try discriminate.
    apply bindM_true in H. destruct H as [f [Hf H]].
    apply bindM_true in H. destruct H as [here [Hh H]].
    apply bindM_true in H. destruct H as [rest [Hr H]].
    apply ret_true in H. destruct H as [H _]. subst nexts.
    destruct Hin as [E|Hin].
    + subst r0. destruct f.
      * apply bindM_true in Hh. destruct Hh as [G' [Hg Hh]]. apply ret_true in Hh. destruct Hh as [Hh _]. subst here.
        exists G'. split; [apply in_or_app; left; simpl; auto|]. eapply refine_args_sound; eauto.
      * assert (Hfl : row_disjoint G args r = true).
        { unfold bindM, flag, ret in Hh. destruct (row_disjoint G args r); [reflexivity|]. simpl in Hh. inversion Hh. }
        exfalso. apply (row_disjoint_sound s' args G r cs); auto.
    + destruct (IH G rest r HG Fb Hin Fr Hr) as [G' [Hi Hc]].
      exists G'. split; auto. apply in_or_app. right. exact Hi.
Qed.

(* ------------------------------------------------------------- equalities *)
Lemma eval_var s t v : eval_term s t = Some (VVar v) -> t = TVar v /\ lookup v s = None.
Proof.
  destruct t as [w|c|f args].
  - simpl. destruct (lookup w s) eqn:L; intros H; inversion H; subst. auto.
  - simpl. intros H; inversion H.
  - rewrite eval_term_app. destruct (eval_consts s args); try discriminate.
    destruct (eval_fn f l); discriminate.
Qed.

Lemma lookup_cons_other v w (c : const) s : v <> w -> lookup v ((w, c) :: s) = lookup v s.
Proof. intros N. simpl. destruct (Z.eqb v w) eqn:E; auto. apply Z.eqb_eq in E. contradiction. Qed.

Lemma ext_cons v (c : const) s : lookup v s = None -> ext s ((v, c) :: s).
Proof.
  intros L w x Hw. simpl. destruct (Z.eqb w v) eqn:E; auto. apply Z.eqb_eq in E. subst. congruence.
Qed.

Lemma peq_denotes l r s us u :
  step_pure (PEq l r) s = Some us -> In u us ->
  ext s u /\
  (forall v, l = TVar v -> forall c, (lookup v u = Some c \/ lookup v u = None) -> denotes s r c) /\
  (forall w, r = TVar w -> forall c, (lookup w u = Some c \/ lookup w u = None) -> denotes s l c).
Proof.
  simpl. destruct (eval_term s l) as [[a|v]|] eqn:El; try discriminate;
    destruct (eval_term s r) as [[b|w]|] eqn:Er; try discriminate.
  - (* both constants *)
    destruct (const_eqb a b) eqn:E; intros H; inversion H; subst; intros Hin.
    2: { destruct Hin. }
    destruct Hin as [Hin|[]]; subst.
    apply const_eqb_spec in E. subst. split; [apply ext_refl|]. split.
    + intros v Ev c Hc. subst l. simpl in El. destruct (lookup v u) eqn:L; inversion El; subst.
      destruct Hc as [Hc|Hc]; inversion Hc; subst. left. exact Er.
    + intros w Ew c Hc. subst r. simpl in Er. destruct (lookup w u) eqn:L; inversion Er; subst.
      destruct Hc as [Hc|Hc]; inversion Hc; subst. left. exact El.
  - (* constant = unbound variable *)
    intros H; inversion H; subst. intros [Hin|[]]. subst u.
    apply eval_var in Er. destruct Er as [Er Lw]. subst r.
    split; [apply ext_cons; auto|]. split.
    + intros v Ev c Hc. right. exists w. auto.
    + intros w' Ew c Hc. inversion Ew; subst w'. simpl in Hc. rewrite Z.eqb_refl in Hc.
      destruct Hc as [Hc|Hc]; inversion Hc; subst. left. exact El.
  - (* unbound variable = constant *)
    intros H; inversion H; subst. intros [Hin|[]]. subst u.
    apply eval_var in El. destruct El as [El Lv]. subst l.
    split; [apply ext_cons; auto|]. split.
    + intros v' Ev c Hc. inversion Ev; subst v'. simpl in Hc. rewrite Z.eqb_refl in Hc.
      destruct Hc as [Hc|Hc]; inversion Hc; subst. left. exact Er.
    + intros w Ew c Hc. right. exists v. auto.
  - (* the same unbound variable on both sides *)
    destruct (Z.eqb v w) eqn:E; try discriminate. apply Z.eqb_eq in E. subst w.
    intros H; inversion H; subst. intros [Hin|[]]. subst u.
    apply eval_var in El. destruct El as [El Lv]. apply eval_var in Er. destruct Er as [Er _]. subst l r.
    split; [apply ext_refl|]. split; intros x Ex c Hc; right; exists v; auto.
Qed.

(* ------------------------------------------------------------ one premise *)
Lemma peq_sound D trie G s l r us u o :
  ctx_ok G s -> step_pure (PEq l r) s = Some us -> In u us ->
  step_premise D trie (PEq l r) G = Ok (o, true) ->
  ext s u /\ exists nexts, o = Some nexts /\ exists G', In G' nexts /\ ctx_ok G' u.
Proof.
  intros HG Hs Hin H.
  destruct (peq_denotes _ _ _ _ _ Hs Hin) as [E [DL DR]].
  split; auto.
  pose proof (ctx_ok_ext _ _ _ HG E) as HGu.
  unfold step_premise in H. apply bindM_true in H. destruct H as [o1 [H1 H]].
  (* the left side *)
  assert (S1 : exists G1, o1 = Some G1 /\ ctx_ok G1 u).
  { destruct l as [v|k|f args].
    - apply bindM_true in H1. destruct H1 as [t [Ht H1]].
      assert (Hty : ty_ok u v t).
      { intros c Hc. apply (bterm_sound trie G s r t c HG Ht). apply (DL v eq_refl c Hc). }
      destruct o1 as [G1|].
      + exists G1. split; auto. apply (refine_sound true G u v t G1); auto.
      + exfalso. apply (refine_none G u v t); auto.
    - apply ret_true in H1. destruct H1 as [H1 _]. subst. eauto.
    - apply ret_true in H1. destruct H1 as [H1 _]. subst. eauto. }
  destruct S1 as [G1 [E1 HG1]]. subst o1.
  destruct r as [w|k|f args].
  - apply bindM_true in H. destruct H as [t [Ht H]].
    apply bindM_true in H. destruct H as [o2 [H2 H]].
    apply ret_true in H. destruct H as [H _].
    assert (Hty : ty_ok u w t).
    { intros c Hc. apply (bterm_sound trie G s l t c HG Ht). apply (DR w eq_refl c Hc). }
    destruct o2 as [G2|].
    + subst o. exists [G2]. split; auto. exists G2. split; [left; auto|].
      apply (refine_sound true G1 u w t G2); auto.
    + exfalso. apply (refine_none G1 u w t); auto.
  - apply ret_true in H. destruct H as [H _]. subst o. exists [G1]. split; auto. exists G1. split; [left; auto|auto].
  - apply ret_true in H. destruct H as [H _]. subst o. exists [G1]. split; auto. exists G1. split; [left; auto|auto].
Qed.

Lemma step_premise_sound D trie N I p s u G o :
  (forall f, In f I -> fact_ok D f) ->
  ctx_ok G s -> holds N I p s u -> step_premise D trie p G = Ok (o, true) ->
  ext s u /\ exists nexts, o = Some nexts /\ exists G', In G' nexts /\ ctx_ok G' u.
Proof.
  intros HI HG Hh H. destruct Hh as [a s pvs f u Hev Hin Hm | a s pvs Hev Hno | p s us u Hs Hin].
  - (* a positive atom *)
    unfold step_premise in H.
    destruct (negb (supported_args (aargs a))); try discriminate.
    destruct (lookup_decl (apred a) D) as [rows|] eqn:LD; try discriminate.
    apply bindM_true in H. destruct H as [nexts [Hr H]].
    unfold match_fact in Hm. destruct (Z.eqb (fst f) (apred a)) eqn:Ep; try discriminate.
    apply Z.eqb_eq in Ep.
    destruct (unify_args_vars s (aargs a) pvs s (snd f) u (ext_refl s) Hev Hm) as [E Fb].
    split; auto.
    pose proof (HI _ Hin) as Hf. unfold fact_ok in Hf. rewrite Ep, LD in Hf.
    destruct Hf as [r [Hrin Hrow]].
    destruct (atom_rows_sound u (aargs a) (snd f) rows G nexts r (ctx_ok_ext _ _ _ HG E) Fb Hrin Hrow Hr)
      as [G' [Hi Hc]].
    exists nexts. split.
    + destruct nexts; [destruct Hi|]. apply ret_true in H. destruct H as [H _]. auto.
    + eauto.
  - (* a negated atom *)
    unfold step_premise in H. destruct (lookup_decl (apred a) D); try discriminate.
    apply ret_true in H. destruct H as [H _]. subst o.
    split; [apply ext_refl|]. exists [G]. split; auto. exists G. split; [left; auto|auto].
  - (* equality, inequality *)
    destruct p as [a|a|l r|l r|op l r]; try (simpl in Hs; discriminate).
    + eapply peq_sound; eauto.
    + assert (E : u = s).
      { simpl in Hs. destruct (eval_term s l) as [[x|x]|]; try discriminate;
          destruct (eval_term s r) as [[y|y]|]; try discriminate;
          try (destruct (const_eqb x y)); inversion Hs; subst; simpl in Hin; intuition congruence. }
      subst u. unfold step_premise in H. apply ret_true in H. destruct H as [H _]. subst o.
      split; [apply ext_refl|]. exists [G]. split; auto. exists G. split; [left; auto|auto].
Qed.

(* --------------------------------------------------------------- the body *)
Lemma Forall2_in_l {A B} (R : A -> B -> Prop) l l' x :
  Forall2 R l l' -> In x l -> exists y, In y l' /\ R x y.
Proof.
  intros F. induction F as [|a b l l' Hab F IH]; intros Hin; [destruct Hin|]. destruct Hin as [E|Hin].
  - subst. exists b. split; [left; auto|auto].
  - destruct (IH Hin) as [y [Hy Hr]]. exists y. split; [right; auto|auto].
Qed.

Lemma run_body_sound D trie N sel :
  (forall k f, In f (sel k) -> fact_ok D f) ->
  forall k body s t, sat N sel k body s t ->
  forall Gs o, (exists G, In G Gs /\ ctx_ok G s) ->
  run_body D trie Gs body = Ok (o, true) ->
  exists finals, o = Some finals /\ exists G', In G' finals /\ ctx_ok G' t.
Proof.
  intros Hsel k body s t Hsat.
  induction Hsat as [k s | k p b s u t Hh Hsat IH]; intros Gs o [G [HinG HG]] H.
  - simpl in H. apply ret_true in H. destruct H as [H _]. subst o. eauto.
  - simpl in H. apply bindM_true in H. destruct H as [nexts [Hm H]].
    apply mapM_true in Hm.
    destruct (Forall2_in_l _ _ _ _ Hm HinG) as [oG [HoG Hstep]].
    destruct (step_premise_sound D trie N (sel k) p s u G oG (Hsel k) HG Hh Hstep)
      as [_ [l [El [G' [HinG' HG']]]]].
    subst oG.
    assert (Hfl : In G' (flatten_levels nexts)).
    { unfold flatten_levels. apply in_flat_map. exists (Some l). split; auto. }
    destruct (flatten_levels nexts) as [|g0 lvl] eqn:Efl; [destruct Hfl|].
    apply (IH (g0 :: lvl) o); eauto.
Qed.

(* --------------------------------------------------------------- the head *)
Lemma all2b_sconf_sound : forall hs r cs,
  all2b sconf hs r = true -> Forall2 hast hs cs -> Forall2 hast r cs.
Proof.
  induction hs as [|h hs IH]; intros r cs H F; destruct r as [|t r]; simpl in H; try discriminate.
  - inversion F; subst. constructor.
  - inversion F; subst. apply andb_true_iff in H. destruct H as [Hc1 Hc2]. constructor.
    + unfold hast in *. eapply sconf_sound; eauto.
    + apply IH; auto.
Qed.

Lemma head_ok_sound h rows cs :
  head_ok h rows = Ok (true, true) -> Forall2 hast h cs -> exists r, In r rows /\ Forall2 hast r cs.
Proof.
  unfold head_ok. intros H F.
  apply bindM_true in H. destruct H as [b [Hb H]].
  apply bindM_true in H. destruct H as [x [Hf H]]. apply flag_true in Hf.
  apply ret_true in H. destruct H as [H _]. subst b. simpl in Hf.
  apply existsb_exists in Hf. destruct Hf as [r [Hin Hr]].
  exists r. split; auto. eapply all2b_sconf_sound; eauto.
Qed.

Lemma head_terms_sound trie G t : forall args hs pvs cs,
  ctx_ok G t ->
  Forall2 (fun a h => bterm trie G a = Ok (h, true)) args hs ->
  map_opt (eval_term t) args = Some pvs -> map_opt (ground_value t) pvs = Some cs ->
  Forall2 hast hs cs.
Proof.
  induction args as [|a args IH]; intros hs pvs cs HG F Hm Hg.
  - inversion F; subst. simpl in Hm. inversion Hm; subst. simpl in Hg. inversion Hg; subst. constructor.
  - inversion F as [|a0 h args0 hs0 Hb F']; subst.
    simpl in Hm. destruct (eval_term t a) as [pv|] eqn:Ea; try discriminate.
    destruct (map_opt (eval_term t) args) as [pvs'|] eqn:Em; try discriminate. inversion Hm; subst.
    simpl in Hg. destruct (ground_value t pv) as [c|] eqn:Eg; try discriminate.
    destruct (map_opt (ground_value t) pvs') as [cs'|] eqn:Egs; try discriminate. inversion Hg; subst.
    constructor.
    + destruct pv as [c0|v]; simpl in Eg.
      * inversion Eg; subst. eapply bterm_sound; eauto. left. exact Ea.
      * apply eval_var in Ea. destruct Ea as [_ L]. congruence.
    + eapply IH; eauto.
Qed.

Lemma allM_true {A} (f : A -> M bool) l :
  allM f l = Ok (true, true) -> forall x, In x l -> f x = Ok (true, true).
Proof.
  induction l as [|a l IH]; simpl; intros H x Hin; [destruct Hin|].
  apply bindM_true in H. destruct H as [b [Hb H]].
  apply bindM_true in H. destruct H as [bs [Hbs H]].
  apply ret_true in H. destruct H as [H _]. apply andb_true_iff in H. destruct H; subst.
  destruct Hin as [E|Hin]; subst; auto.
Qed.

Lemma check_clause_sound D trie B I c f :
  (forall g, In g I -> fact_ok D g) ->
  check_clause D trie c = Ok (true, true) -> derives B I c f -> fact_ok D f.
Proof.
  intros HI H [t [Hsat Hemit]].
  unfold check_clause in H.
  destruct (clet c) eqn:Elet; try discriminate.
  destruct (lookup_decl (apred (chead c)) D) as [rows|] eqn:LD; try discriminate.
  destruct (negb (forallb (fun r => Nat.eqb (length r) (length (aargs (chead c)))) rows)); try discriminate.
  apply bindM_true in H. destruct H as [o [Hrun H]].
  destruct (run_body_sound D trie B (fun _ => I) (fun _ g Hg => HI g Hg) 0%nat (cbody c) [] t Hsat [[]] o)
    as [finals [Eo [G' [HinG' HG']]]]; auto.
  { exists []. split; [left; auto|apply ctx_ok_nil]. }
  subst o.
  pose proof (allM_true _ _ H G' HinG') as HG.
  apply bindM_true in HG. destruct HG as [hs [Hhs Hok]].
  apply mapM_true in Hhs.
  unfold emit_head in Hemit. unfold eval_args in Hemit.
  destruct (map_opt (eval_term t) (aargs (chead c))) as [pvs|] eqn:Em; try discriminate.
  rewrite Elet in Hemit. simpl in Hemit.
  destruct (map_opt (ground_value t) pvs) as [cs|] eqn:Eg; try discriminate.
  inversion Hemit; subst f.
  unfold fact_ok. simpl. rewrite LD.
  eapply head_ok_sound; eauto. eapply head_terms_sound; eauto.
Qed.

Lemma check_fact_sound D trie f : check_fact D trie f = Ok (true, true) -> fact_ok D f.
Proof.
  unfold check_fact, fact_ok. destruct (lookup_decl (fst f) D) as [rows|]; try discriminate.
  destruct (negb (forallb (fun r => Nat.eqb (length r) (length (snd f))) rows)); try discriminate.
  intros H. apply bindM_true in H. destruct H as [hs [Hhs Hok]].
  apply mapM_true in Hhs. eapply head_ok_sound; eauto.
  clear Hok. induction Hhs as [|c h cs hs Hc F IH]; constructor; auto. eapply bconst_sound; eauto.
Qed.

(* ------------------------------------------------------------ the program *)
Lemma bounds_sound_rules D trie R (B : factset) :
  (forall c, In c R -> check_clause D trie c = Ok (true, true)) ->
  (forall f, B f -> fact_ok D f) ->
  forall f, lfp R B f -> fact_ok D f.
Proof.
  intros HR HB f Hf. induction Hf as [f Hf | I c f HI IH Hc Hd]; auto.
  eapply check_clause_sound; eauto.
Qed.

Lemma check_program_inv D R init :
  check_program D R init = Ok (true, true) ->
  (forall f, In f init -> fact_ok D f) /\
  (forall c, In c R -> check_clause D (trie_of D) c = Ok (true, true)).
Proof.
  intros H. unfold check_program in H.
  apply bindM_true in H. destruct H as [a [Ha H]].
  apply bindM_true in H. destruct H as [b [Hb H]].
  apply ret_true in H. destruct H as [H _]. apply andb_true_iff in H. destruct H; subst.
  split.
  - intros f Hin. eapply check_fact_sound. eapply allM_true in Ha; eauto.
  - intros c Hin. eapply allM_true in Hb; eauto.
Qed.

Theorem bounds_sound D R init (B : factset) :
  check_program D R init = Ok (true, true) ->
  (forall f, B f -> In f init \/ fact_ok D f) ->
  forall f, lfp R B f -> fact_ok D f.
Proof.
  intros H HB. destruct (check_program_inv _ _ _ H) as [Hi Hc].
  apply bounds_sound_rules with (trie := trie_of D); auto.
  intros f Hf. destruct (HB f Hf); auto.
Qed.

(* stratified programs: every layer is evaluated over the completed lower ones *)
Theorem bounds_sound_strata D P init :
  check_program D P init = Ok (true, true) ->
  forall layers (B : factset),
  (forall f, B f -> In f init \/ fact_ok D f) ->
  forall f, slfp P layers B f -> fact_ok D f.
Proof.
  intros H. destruct (check_program_inv _ _ _ H) as [Hi Hc].
  assert (G : forall layers (B : factset), (forall f, B f -> fact_ok D f) ->
                forall f, slfp P layers B f -> fact_ok D f).
  { induction layers as [|ps rest IH]; intros B HB f Hf; simpl in Hf; auto.
    apply (IH (lfp (layer_rules P ps) B)); auto.
    apply bounds_sound_rules with (trie := trie_of D); auto.
    intros c Hin. apply Hc. unfold layer_rules in Hin. apply filter_In in Hin. tauto. }
  intros layers B HB. apply G. intros f Hf. destruct (HB f Hf); auto.
Qed.
