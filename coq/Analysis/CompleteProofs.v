(* Analysis/CompleteProofs.v - completeness half of faithfulness: every declarative solution of
   the clause as written is found by the left-to-right join on the rewritten, wildcard-replaced
   clause (when the join returns without error). With FaithfulProofs.accepted_sound_lemma:
   order independence of conjunction for the orders CheckRule accepts. *)
From Coq Require Import List ZArith Bool Permutation Lia.
From MV Require Import Datalog.Syntax Datalog.SyntaxProofs Datalog.Interp Datalog.Solve Datalog.Lfp
  Datalog.SolveProofs Analysis.RuleCheck Analysis.Declarative Analysis.RuleCheckProofs
  Analysis.WildcardProofs Analysis.SafeEvalProofs Analysis.FaithfulProofs.
Import ListNotations.
Open Scope Z_scope.

(* s gives the named variables (those below n0) the values sg gives them *)
Definition agree (n0 : Z) (s sg : subst) : Prop :=
  forall v c, lookup v s = Some c -> v < n0 -> lookup v sg = Some c.

Lemma agree_cons n0 s sg x c :
  agree n0 s sg -> (x < n0 -> lookup x sg = Some c) -> agree n0 ((x, c) :: s) sg.
Proof.
  intros Ha Hx v d Hl Hv. simpl in Hl. destruct (Z.eqb_spec v x) as [->|].
  - injection Hl as <-. apply Hx, Hv.
  - apply Ha; auto.
Qed.

Lemma eval_term_mono_on s u t c :
  (forall v d, In v (term_vars t) -> lookup v s = Some d -> lookup v u = Some d) ->
  eval_term s t = Some (VConst c) -> eval_term u t = Some (VConst c).
Proof.
  intros Hx He. rewrite <- He. symmetry. apply eval_term_coinc. intros v Hv.
  pose proof (eval_term_const_bound s t c He v Hv) as Hb. unfold bnd in Hb.
  destruct (lookup v s) as [d|] eqn:E; [|congruence]. symmetry. apply Hx; auto.
Qed.

Lemma eval_agree n0 s sg t c :
  agree n0 s sg -> (forall v, In v (term_vars t) -> v < n0) ->
  eval_term s t = Some (VConst c) -> eval_term sg t = Some (VConst c).
Proof. intros Ha Hlt. apply eval_term_mono_on. intros v d Hv Hl. apply (Ha v d Hl (Hlt v Hv)). Qed.

Lemma eval_var_const s x c : eval_term s (TVar x) = Some (VConst c) -> lookup x s = Some c.
Proof. simpl. destruct (lookup x s); intros H; injection H as H; congruence. Qed.

Lemma rw_terms_cons_snd m t args :
  snd (rw_terms m (t :: args)) = snd (rw_term m t) :: snd (rw_terms (fst (rw_term m t)) args).
Proof. simpl. destruct (rw_term m t) as [n1 t']. simpl. destruct (rw_terms n1 args). reflexivity. Qed.

(* matching a replaced atom under a less instantiated substitution *)
Lemma unify_rw_gen n0 sg s0 : lookup wild s0 = None -> agree n0 s0 sg ->
  forall args0 cs, Forall2 (arg_matches sg) args0 cs ->
  (forall v, In v (terms_vars args0) -> v < n0) ->
  forall m s pvs, n0 <= m -> 0 <= m -> unb_from s0 m -> unb_from s m -> agree n0 s sg ->
  map_opt (eval_term s0) (snd (rw_terms m args0)) = Some pvs ->
  exists u, unify_args s pvs cs = Some u /\ agree n0 u sg.
Proof.
  intros Hw Hag0 args0 cs HF.
  induction HF as [|t c args0 cs Ht _ IH]; intros Hlt m s pvs Hnm Hm Hu0 Hus Hag Hmap.
  - simpl in Hmap. injection Hmap as <-. exists s. split; [reflexivity|exact Hag].
  - rewrite rw_terms_cons_snd in Hmap. simpl in Hmap.
    destruct (eval_term s0 (snd (rw_term m t))) as [pv|] eqn:Ea; [|discriminate].
    destruct (map_opt (eval_term s0) (snd (rw_terms (fst (rw_term m t)) args0))) as [pvs'|] eqn:Em;
      [|discriminate].
    injection Hmap as <-.
    destruct (rw_term_vars t m Hm) as (A1 & _).
    assert (Hlt' : forall v, In v (terms_vars args0) -> v < n0).
    { intros v Hv. apply Hlt. unfold terms_vars in *. simpl. apply in_or_app. right. exact Hv. }
    assert (Hltt : forall v, In v (term_vars t) -> v < n0).
    { intros v Hv. apply Hlt. unfold terms_vars in *. simpl. apply in_or_app. left. exact Hv. }
    set (n1 := fst (rw_term m t)) in *.
    assert (Hn1 : 0 <= n1) by lia.
    assert (Hnn1 : n0 <= n1) by lia.
    simpl.
    destruct (term_is_wild t) as [->|Hnw].
    + rewrite rw_term_wild in Ea. simpl in Ea. rewrite (Hu0 m) in Ea by lia. injection Ea as <-.
      simpl. rewrite (Hus m) by lia.
      apply (IH Hlt' n1 ((m, c) :: s) pvs' Hnn1 Hn1 (unb_from_le _ _ _ Hu0 A1)); auto.
      * intros w Hwn. simpl. unfold n1 in Hwn. rewrite rw_term_wild in Hwn. simpl in Hwn.
        destruct (Z.eqb_spec w m); [lia|]. apply Hus. lia.
      * apply agree_cons; [exact Hag|]. intros X. lia.
    + destruct Ht as [->|He]; [congruence|].
      destruct (eval_rw s0 Hw t m Hm Hu0) as [_ Ev]. rewrite (Ev Hnw) in Ea.
      destruct pv as [d|x].
      * pose proof (eval_agree _ _ _ _ _ Hag0 Hltt Ea) as Hd. rewrite Hd in He. injection He as ->.
        simpl. rewrite const_eqb_refl.
        apply (IH Hlt' n1 s pvs' Hnn1 Hn1 (unb_from_le _ _ _ Hu0 A1) (unb_from_le _ _ _ Hus A1) Hag Em).
      * apply eval_term_var_inv in Ea as [-> Hl0]. apply eval_var_const in He.
        assert (Hx : x < n0) by (apply Hltt; simpl; auto).
        simpl. destruct (lookup x s) as [d|] eqn:El.
        -- rewrite (Hag x d El Hx) in He. injection He as ->. rewrite const_eqb_refl.
           apply (IH Hlt' n1 s pvs' Hnn1 Hn1 (unb_from_le _ _ _ Hu0 A1) (unb_from_le _ _ _ Hus A1) Hag Em).
        -- apply (IH Hlt' n1 ((x, c) :: s) pvs' Hnn1 Hn1 (unb_from_le _ _ _ Hu0 A1)); auto.
           ++ intros w Hwn. simpl. destruct (Z.eqb_spec w x); [lia|]. apply Hus. lia.
           ++ apply agree_cons; [exact Hag|]. intros _. exact He.
Qed.

(* one step of the join finds the continuation that agrees with a declarative solution *)
Lemma lit_true_step Sneg I n0 sg st o n s st' us :
  0 <= n -> n0 <= n -> (forall v, In v (premise_vars o) -> v < n0) ->
  unb_from s n -> lookup wild s = None -> agree n0 s sg ->
  check_premise st o (snd (rw_premise n o)) = Some st' -> Inv st s ->
  step Sneg I (snd (rw_premise n o)) s = Some us -> lit_true Sneg I o sg ->
  exists u, In u us /\ agree n0 u sg.
Proof.
  intros Hn Hn0 Hlt Hu Hw Hag Hc Hi Hst Ht. destruct o as [a|a|l r|l r|op l r].
  - (* positive atom *)
    simpl in Hst. destruct (rw_terms n (aargs a)) as [n' args'] eqn:Er. simpl in Hst.
    destruct (eval_args s args') as [pvs|] eqn:Ev; [|discriminate]. injection Hst as <-.
    simpl in Ht. destruct Ht as (cs & Hin & HF).
    assert (Ev' : map_opt (eval_term s) (snd (rw_terms n (aargs a))) = Some pvs) by (rewrite Er; exact Ev).
    destruct (unify_rw_gen n0 sg s Hw Hag (aargs a) cs HF Hlt n s pvs Hn0 Hn Hu Hu Hag Ev')
      as (u & Hun & Hag').
    exists u. split; [|exact Hag']. apply in_fmap. exists (apred a, cs). split; [exact Hin|].
    unfold match_fact. simpl. rewrite Z.eqb_refl. exact Hun.
  - (* negated atom *)
    simpl in Hst, Hc. destruct (rw_terms n (aargs a)) as [n' args'] eqn:Er. simpl in Hst, Hc.
    match type of Hc with context [if ?b then _ else _] => destruct b eqn:Eb; [|discriminate] end.
    rewrite forallb_forall in Eb.
    destruct (eval_args s args') as [pvs|] eqn:Ev; [|discriminate]. injection Hst as <-.
    assert (Ev' : map_opt (eval_term s) (snd (rw_terms n (aargs a))) = Some pvs) by (rewrite Er; exact Ev).
    destruct (existsb (fun f => is_some (match_fact (apred a) pvs s f)) Sneg) eqn:Ex;
      [exfalso|exists s; split; [left; reflexivity|exact Hag]].
    apply existsb_exists in Ex as (f & Hf & Hm).
    destruct (match_fact (apred a) pvs s f) as [u'|] eqn:Em; [|discriminate].
    unfold match_fact in Em. destruct (Z.eqb_spec (fst f) (apred a)) as [Ep|]; [|discriminate].
    destruct (unify_rw_sound s Hw (aargs a) n s pvs (snd f) u' Hn Hu (valext_refl s) Ev' Em) as [Hx HF].
    assert (P1 : forall t, In t (aargs a) -> t = TVar wild \/ exists c, eval_term s t = Some (VConst c)).
    { eapply neg_args_part1; eauto. intros t Ht' Hnw v Hv _. eapply has_value_bnd; eauto.
      apply Eb. unfold terms_vars. apply in_flat_map. exists t. split; [|exact Hv].
      apply filter_In. split; [exact Ht'|]. destruct t as [x| |]; auto.
      destruct (Z.eqb_spec x wild); [subst; congruence|reflexivity]. }
    simpl in Ht. destruct Ht as [_ P2]. apply P2. exists (snd f). split.
    + destruct f as [fp fa]. simpl in *. subst fp. exact Hf.
    + pose proof (arg_matches_back s u' (aargs a) (snd f) Hx P1 (HF u' (valext_refl u'))) as HFs.
      eapply Forall2_impl_in; [|exact HFs]. intros t c Ht' [->|He]; [left; reflexivity|right].
      eapply eval_agree; eauto. intros v Hv. apply Hlt. simpl. unfold atom_vars, terms_vars.
      apply in_flat_map. eauto.
  - (* equality *)
    destruct (rw2_facts s l r n Hw Hn Hu) as (Hn1 & Cl & Cr & El & Er).
    assert (Hll : forall v, In v (term_vars l) -> v < n0) by (intros v Hv; apply Hlt; simpl; apply in_or_app; auto).
    assert (Hlr : forall v, In v (term_vars r) -> v < n0) by (intros v Hv; apply Hlt; simpl; apply in_or_app; auto).
    simpl in Hst. destruct (rw_term n l) as [n1 l'] eqn:E1. simpl in *.
    destruct (rw_term n1 r) as [n2 r'] eqn:E2. simpl in *.
    change (step_pure (PEq l' r') s = Some us) in Hst. rewrite step_pure_eq_unfold in Hst.
    assert (LS : forall a, eval_term s l' = Some (VConst a) -> eval_term sg l = Some (VConst a)).
    { intros a Ha. eapply eval_agree; eauto. apply cval_some. rewrite <- Cl. apply cval_of. exact Ha. }
    assert (RS : forall b, eval_term s r' = Some (VConst b) -> eval_term sg r = Some (VConst b)).
    { intros b Hb. eapply eval_agree; eauto. apply cval_some. rewrite <- Cr. apply cval_of. exact Hb. }
    assert (WL : l = TVar wild -> eval_term s l' = Some (VVar n)).
    { intros ->. rewrite rw_term_wild in E1. injection E1 as <- <-. simpl. rewrite (Hu n) by lia. reflexivity. }
    assert (WR : r = TVar wild -> eval_term s r' = Some (VVar n1)).
    { intros ->. rewrite rw_term_wild in E2. injection E2 as <- <-. simpl. rewrite (Hu n1) by lia. reflexivity. }
    destruct (eval_term s l') as [[a|x]|] eqn:Evl; destruct (eval_term s r') as [[b|y]|] eqn:Evr;
      try discriminate.
    + injection Hst as <-. pose proof (LS a eq_refl) as Hsa. pose proof (RS b eq_refl) as Hsb.
      destruct Ht as [[Hwl _]|[[Hwr _]|(c & Hl & Hr)]].
      * specialize (WL Hwl). discriminate.
      * specialize (WR Hwr). discriminate.
      * rewrite Hsa in Hl. rewrite Hsb in Hr. injection Hl as <-. injection Hr as <-.
        rewrite const_eqb_refl. exists s. split; [left; reflexivity|exact Hag].
    + (* const = unbound variable *)
      injection Hst as <-. exists ((y, a) :: s). split; [left; reflexivity|].
      apply agree_cons; [exact Hag|]. intros Hy. pose proof (LS a eq_refl) as Hsa.
      destruct (term_is_wild r) as [Hwr|Hnw].
      * specialize (WR Hwr). injection WR as ->. lia.
      * pose proof (Er Hnw) as X. symmetry in X. apply eval_term_var_inv in X as [-> _].
        destruct Ht as [[Hwl _]|[[Hwr _]|(c & Hl & Hr)]].
        -- specialize (WL Hwl). discriminate.
        -- congruence.
        -- rewrite Hsa in Hl. injection Hl as <-. apply eval_var_const, Hr.
    + (* unbound variable = const *)
      injection Hst as <-. exists ((x, b) :: s). split; [left; reflexivity|].
      apply agree_cons; [exact Hag|]. intros Hx. pose proof (RS b eq_refl) as Hsb.
      destruct (term_is_wild l) as [Hwl|Hnw].
      * specialize (WL Hwl). injection WL as ->. lia.
      * pose proof (El Hnw) as X. symmetry in X. apply eval_term_var_inv in X as [-> _].
        destruct Ht as [[Hwl _]|[[Hwr _]|(c & Hl & Hr)]].
        -- congruence.
        -- specialize (WR Hwr). discriminate.
        -- rewrite Hsb in Hr. injection Hr as <-. apply eval_var_const, Hl.
    + destruct (Z.eqb x y); [|discriminate]. injection Hst as <-.
      exists s. split; [left; reflexivity|exact Hag].
  - (* inequality *)
    destruct (rw2_facts s l r n Hw Hn Hu) as (Hn1 & Cl & Cr & El & Er).
    assert (Hll : forall v, In v (term_vars l) -> v < n0) by (intros v Hv; apply Hlt; simpl; apply in_or_app; auto).
    assert (Hlr : forall v, In v (term_vars r) -> v < n0) by (intros v Hv; apply Hlt; simpl; apply in_or_app; auto).
    simpl in Hst, Hc. destruct (rw_term n l) as [n1 l'] eqn:E1. simpl in *.
    destruct (rw_term n1 r) as [n2 r'] eqn:E2. simpl in *.
    match type of Hc with context [if ?b then _ else _] => destruct b eqn:Eb; [|discriminate] end.
    rewrite forallb_forall in Eb.
    assert (Hb : forall v, In v (term_vars l' ++ term_vars r') -> bnd s v)
      by (intros v Hv; eapply has_value_bnd; eauto).
    change (step_pure (PIneq l' r') s = Some us) in Hst. rewrite step_pure_ineq_unfold in Hst.
    destruct Ht as (a' & b' & Ha' & Hb' & Hne).
    destruct (eval_term s l') as [[a|x]|] eqn:Evl; destruct (eval_term s r') as [[b|y]|] eqn:Evr;
      try discriminate.
    + injection Hst as <-.
      assert (Hsa : eval_term sg l = Some (VConst a)).
      { eapply eval_agree; eauto. apply cval_some. rewrite <- Cl. apply cval_of. assumption. }
      assert (Hsb : eval_term sg r = Some (VConst b)).
      { eapply eval_agree; eauto. apply cval_some. rewrite <- Cr. apply cval_of. assumption. }
      rewrite Hsa in Ha'. rewrite Hsb in Hb'. injection Ha' as <-. injection Hb' as <-.
      rewrite Hne. exists s. split; [left; reflexivity|exact Hag].
    + exfalso. apply eval_term_var_inv in Evr as [-> Hl]. apply (Hb y); [apply in_or_app; simpl; auto|exact Hl].
    + exfalso. apply eval_term_var_inv in Evl as [-> Hl]. apply (Hb x); [apply in_or_app; simpl; auto|exact Hl].
    + exfalso. apply eval_term_var_inv in Evl as [-> Hl]. apply (Hb x); [apply in_or_app; simpl; auto|exact Hl].
  - (* comparison *)
    destruct (rw2_facts s l r n Hw Hn Hu) as (Hn1 & Cl & Cr & El & Er).
    assert (Hll : forall v, In v (term_vars l) -> v < n0) by (intros v Hv; apply Hlt; simpl; apply in_or_app; auto).
    assert (Hlr : forall v, In v (term_vars r) -> v < n0) by (intros v Hv; apply Hlt; simpl; apply in_or_app; auto).
    simpl in Hst. destruct (rw_term n l) as [n1 l'] eqn:E1. simpl in *.
    destruct (rw_term n1 r) as [n2 r'] eqn:E2. simpl in *.
    change (step_pure (PCmp op l' r') s = Some us) in Hst. rewrite step_pure_cmp_unfold in Hst.
    destruct Ht as (a' & b' & Ha' & Hb' & Hcmp).
    destruct (eval_term s l') as [[a|x]|] eqn:Evl; destruct (eval_term s r') as [[b|y]|] eqn:Evr;
      try discriminate.
    assert (Hsa : eval_term sg l = Some (VConst a)).
    { eapply eval_agree; eauto. apply cval_some. rewrite <- Cl. apply cval_of. assumption. }
    assert (Hsb : eval_term sg r = Some (VConst b)).
    { eapply eval_agree; eauto. apply cval_some. rewrite <- Cr. apply cval_of. assumption. }
    rewrite Hsa in Ha'. rewrite Hsb in Hb'. injection Ha' as <-. injection Hb' as <-.
    rewrite Hcmp in Hst. injection Hst as <-. exists s. split; [left; reflexivity|exact Hag].
Qed.

Lemma chain_complete Sneg I n0 sg b : forall n st st' k sols0 sols s0,
  0 <= n -> n0 <= n -> (forall o v, In o b -> In v (premise_vars o) -> v < n0) ->
  check_body st b (rw_body n b) = Some st' -> alias_free_body st b (rw_body n b) = true ->
  solve Sneg (fun _ => I) k (rw_body n b) sols0 = Some sols ->
  In s0 sols0 -> Inv st s0 -> lookup wild s0 = None -> unb_from s0 n -> agree n0 s0 sg ->
  (forall o, In o b -> lit_true Sneg I o sg) ->
  exists s, In s sols /\ agree n0 s sg.
Proof.
  induction b as [|o b IH]; intros n st st' k sols0 sols s0 Hn Hn0 Hlt Hc Ha Hs Hin Hi Hw Hu Hag Hall.
  - simpl in Hs. injection Hs as <-. exists s0. auto.
  - simpl in Hs, Hc, Ha. destruct (rw_premise n o) as [n' p] eqn:E.
    assert (Ep : p = snd (rw_premise n o)) by (rewrite E; reflexivity).
    assert (En : n' = fst (rw_premise n o)) by (rewrite E; reflexivity).
    simpl in Hs, Hc, Ha.
    destruct (check_premise st o p) as [st1|] eqn:Ec; [|discriminate].
    apply andb_true_iff in Ha as [Ha1 Ha2].
    destruct (flat_map_opt (step Sneg I p) sols0) as [sols1|] eqn:Ef; [|discriminate].
    destruct (flat_map_opt_spec _ _ _ Ef) as [Hdef Hspec].
    destruct (Hdef s0 Hin) as (us & Hst).
    rewrite Ep in Hst, Ec, Ha1.
    assert (Hlto : forall v, In v (premise_vars o) -> v < n0) by (intros v Hv; apply (Hlt o v); [left; reflexivity|exact Hv]).
    destruct (lit_true_step Sneg I n0 sg st o n s0 st1 us Hn Hn0 Hlto Hu Hw Hag Ec Hi Hst
                (Hall o (or_introl eq_refl))) as (u & Hu_in & Hag1).
    assert (Hu1 : In u sols1).
    { apply Hspec. exists s0, us. rewrite Ep. auto. }
    pose proof (check_premise_inv _ _ _ _ Sneg I _ _ _ Ec Ha1 Hi Hst Hu_in) as Hi1.
    assert (Hh : holds (inset Sneg) I (snd (rw_premise n o)) s0 u) by (eapply step_spec; eauto).
    assert (Hlton : forall v, In v (premise_vars o) -> v < n) by (intros v Hv; specialize (Hlto v Hv); lia).
    destruct (dom_step _ _ o n s0 u Hn Hlton Hw Hu Hh) as [Hw1 Hu1'].
    rewrite <- En in Hu1'.
    destruct (rw_premise_vars o n Hn) as (A1 & _). rewrite <- En in A1.
    assert (Hn' : 0 <= n') by lia.
    assert (Hn0' : n0 <= n') by lia.
    apply (IH n' st1 st' (S k) sols1 sols u Hn' Hn0'); auto.
    + intros o' v Ho' Hv. apply (Hlt o' v); [right; exact Ho'|exact Hv].
    + intros o' Ho'. apply Hall. right. exact Ho'.
Qed.

(* ================= from the declarative reading to lit_true ================= *)
(* holds_lit_true with the two facts it takes from CheckRule stated directly: the named
   variables of the non-wildcard arguments of a negated atom have values, and an equality
   does not see the same unbound variable on both sides *)
Lemma holds_lit_true_core Sneg I o n s u :
  0 <= n -> unb_from s n -> lookup wild s = None ->
  match o with
  | PNeg a => forall t, In t (aargs a) -> t <> TVar wild ->
                        forall v, In v (term_vars t) -> v <> wild -> bnd s v
  | _ => True
  end ->
  match snd (rw_premise n o) with
  | PEq l' r' => ~ (exists x, eval_term s l' = Some (VVar x) /\ eval_term s r' = Some (VVar x))
  | _ => True
  end ->
  holds (inset Sneg) I (snd (rw_premise n o)) s u -> valext s u /\ lit_true Sneg I o u.
Proof.
  intros Hn Hu Hw H1 H2 Hh. destruct o as [a|a|l r|l r|op l r].
  - simpl in Hh. destruct (rw_terms n (aargs a)) as [n' args'] eqn:Er. simpl in Hh.
    apply holds_atom_inv in Hh as (pvs & f & Hev & Hf & Hm). simpl in Hev, Hm.
    unfold match_fact in Hm. destruct (Z.eqb_spec (fst f) (apred a)) as [Ep|]; [|discriminate].
    assert (Hev' : map_opt (eval_term s) (snd (rw_terms n (aargs a))) = Some pvs) by (rewrite Er; exact Hev).
    destruct (unify_rw_sound s Hw (aargs a) n s pvs (snd f) u Hn Hu (valext_refl s) Hev' Hm) as [Hx HF].
    split; [exact Hx|]. simpl. exists (snd f). split.
    + destruct f as [fp fa]. simpl in *. subst fp. exact Hf.
    + apply HF. apply valext_refl.
  - simpl in Hh. destruct (rw_terms n (aargs a)) as [n' args'] eqn:Er. simpl in Hh.
    apply holds_neg_inv in Hh as (-> & pvs & Hev & Hall). simpl in Hev, Hall.
    assert (Hev' : map_opt (eval_term s) (snd (rw_terms n (aargs a))) = Some pvs) by (rewrite Er; exact Hev).
    split; [apply valext_refl|]. simpl.
    assert (P1 : forall t, In t (aargs a) -> t = TVar wild \/ exists c, eval_term s t = Some (VConst c)).
    { eapply neg_args_part1; eauto. }
    split; [exact P1|]. intros (cs & Hin & HF).
    destruct (unify_rw_complete s Hw (aargs a) cs HF n s Hn Hu Hu) as (pvs' & u' & Hm & Hun).
    rewrite Hev' in Hm. injection Hm as <-.
    specialize (Hall (apred a, cs) Hin). unfold match_fact in Hall. simpl in Hall.
    rewrite Z.eqb_refl in Hall. congruence.
  - destruct (rw2_facts s l r n Hw Hn Hu) as (Hn1 & Cl & Cr & El & Er).
    simpl in Hh, H2. destruct (rw_term n l) as [n1 l'] eqn:E1. simpl in *.
    destruct (rw_term n1 r) as [n2 r'] eqn:E2. simpl in *.
    apply holds_pure_inv in Hh as (us & Hst & Hin); try (intros; discriminate).
    rewrite step_pure_eq_unfold in Hst.
    destruct (eval_term s l') as [[a|x]|] eqn:Evl; destruct (eval_term s r') as [[b|y]|] eqn:Evr;
      try discriminate.
    + injection Hst as <-. destruct (const_eqb a b) eqn:Eab; [|destruct Hin].
      destruct Hin as [<-|[]]. apply const_eqb_spec in Eab. subst b.
      split; [apply valext_refl|]. simpl. right. right. exists a.
      split; apply cval_some; [rewrite <- Cl|rewrite <- Cr]; apply cval_of; assumption.
    + injection Hst as <-. destruct Hin as [<-|[]].
      assert (Hry : r <> TVar wild -> r = TVar y).
      { intros Hnw. pose proof (Er Hnw) as X. symmetry in X.
        apply eval_term_var_inv in X as [-> _]. reflexivity. }
      apply eval_term_var_inv in Evr as [-> Hly].
      assert (Hx : valext s ((y, a) :: s)) by (apply valext_cons; exact Hly).
      split; [exact Hx|]. simpl.
      assert (Hl : eval_term ((y, a) :: s) l = Some (VConst a)).
      { eapply eval_term_mono; [exact Hx|]. apply cval_some. rewrite <- Cl. apply cval_of. assumption. }
      destruct (term_is_wild r) as [->|Hnw].
      * right. left. split; [reflexivity|eauto].
      * right. right. exists a. split; [exact Hl|].
        rewrite (Hry Hnw). simpl. rewrite Z.eqb_refl. reflexivity.
    + injection Hst as <-. destruct Hin as [<-|[]].
      assert (Hlx' : l <> TVar wild -> l = TVar x).
      { intros Hnw. pose proof (El Hnw) as X. symmetry in X.
        apply eval_term_var_inv in X as [-> _]. reflexivity. }
      apply eval_term_var_inv in Evl as [-> Hlx].
      assert (Hx : valext s ((x, b) :: s)) by (apply valext_cons; exact Hlx).
      split; [exact Hx|]. simpl.
      assert (Hr : eval_term ((x, b) :: s) r = Some (VConst b)).
      { eapply eval_term_mono; [exact Hx|]. apply cval_some. rewrite <- Cr. apply cval_of. assumption. }
      destruct (term_is_wild l) as [->|Hnw].
      * left. split; [reflexivity|eauto].
      * right. right. exists b. split; [|exact Hr].
        rewrite (Hlx' Hnw). simpl. rewrite Z.eqb_refl. reflexivity.
    + exfalso. destruct (Z.eqb_spec x y) as [->|]; [|discriminate]. apply H2. exists y. auto.
  - destruct (rw2_facts s l r n Hw Hn Hu) as (Hn1 & Cl & Cr & El & Er).
    simpl in Hh. destruct (rw_term n l) as [n1 l'] eqn:E1. simpl in *.
    destruct (rw_term n1 r) as [n2 r'] eqn:E2. simpl in *.
    apply holds_pure_inv in Hh as (us & Hst & Hin); try (intros; discriminate).
    rewrite step_pure_ineq_unfold in Hst.
    destruct (eval_term s l') as [[a|x]|] eqn:Evl; destruct (eval_term s r') as [[b|y]|] eqn:Evr;
      try discriminate; injection Hst as <-; try (destruct Hin; fail).
    destruct (const_eqb a b) eqn:Eab; [destruct Hin|]. destruct Hin as [<-|[]].
    split; [apply valext_refl|]. simpl. exists a, b.
    split; [apply cval_some; rewrite <- Cl; apply cval_of; assumption|].
    split; [apply cval_some; rewrite <- Cr; apply cval_of; assumption|exact Eab].
  - destruct (rw2_facts s l r n Hw Hn Hu) as (Hn1 & Cl & Cr & El & Er).
    simpl in Hh. destruct (rw_term n l) as [n1 l'] eqn:E1. simpl in *.
    destruct (rw_term n1 r) as [n2 r'] eqn:E2. simpl in *.
    apply holds_pure_inv in Hh as (us & Hst & Hin); try (intros; discriminate).
    rewrite step_pure_cmp_unfold in Hst.
    destruct (eval_term s l') as [[a|x]|] eqn:Evl; destruct (eval_term s r') as [[b|y]|] eqn:Evr;
      try discriminate.
    destruct (eval_cmp op a b) as [[|]|] eqn:Ec; try discriminate; injection Hst as <-; [|destruct Hin].
    destruct Hin as [<-|[]].
    split; [apply valext_refl|]. simpl. exists a, b.
    split; [apply cval_some; rewrite <- Cl; apply cval_of; assumption|].
    split; [apply cval_some; rewrite <- Cr; apply cval_of; assumption|exact Ec].
Qed.

Lemma lookup_In v c (s : subst) : lookup v s = Some c -> In (v, c) s.
Proof.
  induction s as [|[w d] s IH]; simpl; [discriminate|].
  destruct (Z.eqb_spec v w) as [->|]; [intros [= ->]; left; reflexivity|intros H; right; auto].
Qed.

(* an accepted clause has no wildcard in its head *)
Lemma accepted_head_nowild c : accepted c = true -> ~ In wild (atom_vars (chead c)).
Proof.
  intros Hacc Hw. unfold accepted in Hacc.
  assert (X : check (rewrite c) = false).
  { apply (unsafe_rejected_lemma (rewrite c) wild).
    - intros Hin. apply in_flat_map in Hin as (p & Hp & Hv). apply binder_vars_sub in Hv.
      exact (replace_wildcards_nowild _ _ Hp Hv).
    - left. split; [rewrite rewrite_head; exact Hw|].
      unfold let_defs. rewrite filter_In. intros [_ Y]. rewrite Z.eqb_refl in Y. discriminate. }
  congruence.
Qed.

(* a declarative solution makes every literal as written true *)
Lemma decl_sol_lit_true c Sneg I sg :
  accepted c = true -> decl_sol Sneg I c sg ->
  lookup wild sg = None /\ unb_from sg (fresh_base c) /\
  forall o, In o (cbody c) -> lit_true Sneg I o sg.
Proof.
  intros Hacc [[Htot Hkeys] Hlits].
  assert (Hsw : lookup wild sg = None).
  { destruct (lookup wild sg) as [d|] eqn:E; [|reflexivity]. exfalso.
    apply lookup_In, Hkeys, named_vars_in in E as [[_ X]|[X _]]; [congruence|].
    exact (accepted_head_nowild c Hacc X). }
  assert (Hsu : unb_from sg (fresh_base c)).
  { intros w Hwb. destruct (lookup w sg) as [d|] eqn:E; [|reflexivity]. exfalso.
    apply lookup_In, Hkeys, named_vars_clause, fresh_base_gt in E. lia. }
  split; [exact Hsw|]. split; [exact Hsu|]. intros o Ho.
  destruct (Forall2_In_l _ _ _ _ (replace_wildcards_rel c) Ho) as (p & Hc & m & Hm & ->).
  apply in_combine_r in Hc. destruct (Hlits _ Hc) as (u & Hh).
  pose proof (fresh_base_pos c) as Hb0.
  assert (Hm0 : 0 <= m) by lia.
  assert (Hum : unb_from sg m) by (eapply unb_from_le; eauto).
  assert (Hnamed : forall v, In v (premise_vars o) -> v <> wild -> bnd sg v).
  { intros v Hv Hnw. apply Htot. apply named_vars_in. left. split; [apply in_flat_map; eauto|exact Hnw]. }
  assert (Hlto : forall v, In v (premise_vars o) -> v < m).
  { intros v Hv. assert (v < fresh_base c); [|lia]. apply fresh_base_gt. unfold clause_vars.
    apply in_or_app; right. apply in_or_app; left. apply in_flat_map. eauto. }
  destruct (holds_lit_true_core Sneg I o m sg u Hm0 Hum Hsw) as [Hx Hlt]; [| |exact Hh|].
  - destruct o as [a|a|l r|l r|op l r]; auto. intros t Ht Hnw v Hv Hvw. apply Hnamed; [|exact Hvw].
    simpl. unfold atom_vars, terms_vars. apply in_flat_map. eauto.
  - destruct o as [a|a|l r|l r|op l r]; simpl.
    + destruct (rw_terms m (aargs a)); simpl; exact Logic.I.
    + destruct (rw_terms m (aargs a)); simpl; exact Logic.I.
    + destruct (rw2_facts sg l r m Hsw Hm0 Hum) as (Hn1 & Cl & Cr & El & Er).
      destruct (rw_term m l) as [n1 l'] eqn:E1. simpl in *.
      destruct (rw_term n1 r) as [n2 r'] eqn:E2. simpl in *.
      intros (x & Hxl & Hxr).
      assert (Lw : l = TVar wild).
      { destruct (term_is_wild l) as [H|Hnw]; [exact H|exfalso].
        rewrite (El Hnw) in Hxl. apply eval_term_var_inv in Hxl as [-> Hl].
        apply (Hnamed x); [simpl; auto|intros ->; apply Hnw; reflexivity|exact Hl]. }
      assert (Rw : r = TVar wild).
      { destruct (term_is_wild r) as [H|Hnw]; [exact H|exfalso].
        rewrite (Er Hnw) in Hxr. apply eval_term_var_inv in Hxr as [-> Hl].
        apply (Hnamed x); [simpl; apply in_or_app; right; simpl; auto|intros ->; apply Hnw; reflexivity|exact Hl]. }
      subst l r. rewrite rw_term_wild in E1. injection E1 as <- <-.
      rewrite rw_term_wild in E2. injection E2 as <- <-.
      apply eval_term_var_inv in Hxl as [Hx1 _]. apply eval_term_var_inv in Hxr as [Hx2 _].
      injection Hx1 as Hx1. injection Hx2 as Hx2. lia.
    + destruct (rw_term m l) as [n1 l']. destruct (rw_term n1 r). simpl. exact Logic.I.
    + destruct (rw_term m l) as [n1 l']. destruct (rw_term n1 r). simpl. exact Logic.I.
  - (* back from u to sg: u only adds fresh names *)
    apply (lit_true_coinc _ _ _ u); [|exact Hlt]. intros v Hv.
    destruct (lookup v sg) as [d|] eqn:E; [apply Hx, E|].
    destruct (lookup v u) as [d|] eqn:E2; [|reflexivity]. exfalso.
    assert (Hbu : bnd u v) by (unfold bnd; congruence).
    destruct (holds_dom _ _ _ _ _ v Hh Hbu) as [H|H]; [exact (H E)|].
    destruct (rw_premise_vars o m Hm0) as (_ & A2 & _).
    destruct (A2 v H) as [[Hvo Hnw]|Hfr].
    + exact (Hnamed v Hvo Hnw E).
    + specialize (Hlto v Hv). lia.
Qed.

Lemma named_vars_lt_rewrite c v : In v (named_vars c) -> v < fresh_base (rewrite c).
Proof.
  intros Hv. apply fresh_base_gt. unfold clause_vars.
  apply named_vars_in in Hv as [[Hb _]|[Hh _]].
  - apply in_or_app; right. apply in_or_app; left.
    apply in_flat_map in Hb as (o & Ho & Hvo). apply in_flat_map. exists o. split; [|exact Hvo].
    eapply Permutation_in; [apply Permutation_sym, rewrite_perm_body|exact Ho].
  - apply in_or_app; left. rewrite rewrite_head. exact Hh.
Qed.

Lemma accepted_complete_lemma c Sneg I sols sg :
  accepted c = true -> alias_free (rewrite c) = true ->
  solve Sneg (fun _ => I) 0 (cbody (replace_wildcards (rewrite c))) [[]] = Some sols ->
  decl_sol Sneg I c sg ->
  exists s, In s sols /\ forall v, In v (named_vars c) -> lookup v s = lookup v sg.
Proof.
  intros Hacc Haf Hsol Hd.
  destruct (decl_sol_lit_true c Sneg I sg Hacc Hd) as (Hsw & Hsu & Hlit).
  pose proof (rewrite_perm_body c) as HP.
  pose proof (fresh_base_pos (rewrite c)) as Hbase.
  pose proof Hacc as Hchk. unfold accepted in Hchk. unfold check in Hchk.
  destruct (check_body (mkCS [] (atom_vars (chead (rewrite c))) []) (cbody (rewrite c))
              (cbody (replace_wildcards (rewrite c)))) as [st|] eqn:Eb; [|discriminate].
  assert (Hlt : forall o v, In o (cbody (rewrite c)) -> In v (premise_vars o) -> v < fresh_base (rewrite c)).
  { intros o v Ho Hv. apply fresh_base_gt. unfold clause_vars. apply in_or_app; right.
    apply in_or_app; left. apply in_flat_map. eauto. }
  assert (Hi0 : Inv (mkCS [] (atom_vars (chead (rewrite c))) []) []) by (split; simpl; intros w []).
  assert (Hu0 : unb_from [] (fresh_base (rewrite c))) by (intros w _; reflexivity).
  assert (Hag0 : agree (fresh_base (rewrite c)) [] sg) by (intros v d Hl; discriminate).
  assert (Hlit' : forall o, In o (cbody (rewrite c)) -> lit_true Sneg I o sg).
  { intros o Ho. apply Hlit. eapply Permutation_in; [exact HP|exact Ho]. }
  destruct (chain_complete Sneg I (fresh_base (rewrite c)) sg (cbody (rewrite c)) (fresh_base (rewrite c))
              _ st 0%nat [[]] sols [] Hbase (Z.le_refl _) Hlt Eb Haf Hsol (or_introl eq_refl) Hi0
              eq_refl Hu0 Hag0 Hlit') as (s & Hs & Hag).
  exists s. split; [exact Hs|]. intros v Hv.
  destruct (accepted_sound_lemma c Sneg I sols s Hacc Haf Hsol Hs) as [[Htot _] _].
  specialize (Htot v Hv). rewrite lookup_restrict in Htot. rewrite (proj2 (memZ_In _ _) Hv) in Htot.
  destruct (lookup v s) as [d|] eqn:E; [|congruence].
  symmetry. apply (Hag v d E). apply named_vars_lt_rewrite, Hv.
Qed.
