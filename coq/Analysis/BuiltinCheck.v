(* Analysis/BuiltinCheck.v - CheckRule on built-in predicate atoms with modes
   (analysis/rulecheck.go:150-165, ast.Mode.Check ast/decl.go:159, the mode table
   builtin.Predicates builtin/builtin.go:32).

   Datalog/Syntax.v has no constructor for a built-in predicate atom other than the
   comparisons (PCmp). A built-in atom is written here as a positive atom [PAtom] whose
   predicate number is one the mode table knows; [PNeg] of such an atom is a negated
   built-in. This matches the Go code, where a built-in goal is an ast.Atom whose
   Predicate.IsBuiltin(): RewriteClause treats it like every other positive atom (all
   its variables count as bound afterwards - [RuleCheck.rewrite] is reused unchanged),
   CheckRule's NegAtom case does not look at modes ([RuleCheck.check_premise] is reused
   for every premise that is not a positive built-in atom).

   Everything is parametric in the mode table, so the theorems hold for whatever table
   builtin.Predicates contains; [go_table] is the table of the unchanged tree for the
   built-ins the correspondence stream generates.
   No proofs in this file. *)
From Coq Require Import List ZArith Bool.
From MV Require Import Datalog.Syntax Analysis.RuleCheck.
Import ListNotations.
Open Scope Z_scope.

(* ast.ArgMode: ArgModeInput "+", ArgModeOutput "-", ArgModeInputOutput "?" *)
Inductive bmode := MIn | MOut | MAny.
Definition mtable := Z -> option (list bmode).

(* ast.Mode.Check (ast/decl.go:159): an input argument must not be a free variable, an
   output argument must be a free variable, "?" constrains nothing; the lengths agree *)
Fixpoint mode_check (bv : list Z) (m : list bmode) (args : list term) : bool :=
  match m, args with
  | [], [] => true
  | MIn :: m', t :: args' =>
      match t with TVar v => memZ v bv | _ => true end && mode_check bv m' args'
  | MOut :: m', t :: args' =>
      match t with TVar v => negb (memZ v bv) | _ => false end && mode_check bv m' args'
  | MAny :: m', _ :: args' => mode_check bv m' args'
  | _, _ => false
  end.

(* variablesForArgMode(p, mode, ArgModeOutput|ArgModeInputOutput) (rulecheck.go:28): the
   arguments at "-" and "?" places that are plain variables *)
Fixpoint out_vars (m : list bmode) (args : list term) : list Z :=
  match m, args with
  | mo :: m', t :: args' =>
      match mo, t with
      | MIn, _ => []
      | _, TVar v => [v]
      | _, _ => []
      end ++ out_vars m' args'
  | _, _ => []
  end.

(* the variables of the arguments at "+" places (function applications included) *)
Fixpoint in_vars (m : list bmode) (args : list term) : list Z :=
  match m, args with
  | mo :: m', t :: args' =>
      match mo with MIn => term_vars t | _ => [] end ++ in_vars m' args'
  | _, _ => []
  end.

(* rulecheck.go:150-165: Mode.Check against boundVars, the "-"/"?" variables become
   bound, then every variable of the goal has to be bound *)
Definition check_builtin (st : cstate) (m : list bmode) (a : atom) : option cstate :=
  if mode_check (cs_bound st) m (aargs a) then
    let st2 := bind (see st (atom_vars a)) (out_vars m (aargs a)) in
    if subsetZ (atom_vars a) (cs_bound st2) then Some st2 else None
  else None.

Definition xcheck_premise (tbl : mtable) (st : cstate) (orig p : premise) : option cstate :=
  match p with
  | PAtom a => match tbl (apred a) with
               | Some m => check_builtin st m a
               | None => check_premise st orig p
               end
  | _ => check_premise st orig p
  end.

Fixpoint xcheck_body (tbl : mtable) (st : cstate) (origs ps : list premise) : option cstate :=
  match origs, ps with
  | o :: origs', p :: ps' =>
      match xcheck_premise tbl st o p with
      | Some st' => xcheck_body tbl st' origs' ps'
      | None => None
      end
  | _, _ => Some st
  end.

Definition xcheck (tbl : mtable) (c : clause) : bool :=
  let c' := replace_wildcards c in
  match xcheck_body tbl (mkCS [] (atom_vars (chead c)) []) (cbody c) (cbody c') with
  | None => false
  | Some st => check_final c st && negb (is_nil (cbody c) && negb (is_nil (clet c)))
  end.

Definition xaccepted (tbl : mtable) (c : clause) : bool := xcheck tbl (rewrite c).

(* ---- builtin.Predicates of the unchanged tree, for the built-ins of the generated
   fragment. Predicate numbers 100.. are reserved for them (the extensional predicates
   of the generated clauses are p0..p11). *)
Definition b_match_pair : Z := 100.       (* :match_pair  (+,-,-) *)
Definition b_match_cons : Z := 101.       (* :match_cons  (+,-,-) *)
Definition b_match_nil : Z := 102.        (* :match_nil   (+)     *)
Definition b_match_field : Z := 103.      (* :match_field (+,+,-) *)
Definition b_match_entry : Z := 104.      (* :match_entry (+,+,-) *)
Definition b_list_member : Z := 105.      (* :list:member (-,+)   *)
Definition b_within_distance : Z := 106.  (* :within_distance (+,+,+) *)
Definition b_match_prefix : Z := 107.     (* :match_prefix (+,+) *)
Definition b_starts_with : Z := 108.      (* :string:starts_with (+,+) *)
Definition b_ends_with : Z := 109.        (* :string:ends_with (+,+) *)
Definition b_contains : Z := 110.         (* :string:contains (+,+) *)
Definition b_filter : Z := 111.           (* :filter (+) *)
Definition b_lt : Z := 112.               (* :lt :le :gt :ge written as atoms (+,+); "X < Y" is PCmp *)
Definition b_le : Z := 113.
Definition b_gt : Z := 114.
Definition b_ge : Z := 115.
(* 116..124 :interval:before after meets overlaps during contains starts finishes equals (+,+)
   125..128 :time:lt le gt ge (+,+)     129..132 :duration:lt le gt ge (+,+) *)

Definition go_table : mtable := fun p =>
  if (p =? b_match_pair) || (p =? b_match_cons) then Some [MIn; MOut; MOut]
  else if (p =? b_match_nil) || (p =? b_filter) then Some [MIn]
  else if (p =? b_match_field) || (p =? b_match_entry) then Some [MIn; MIn; MOut]
  else if p =? b_list_member then Some [MOut; MIn]
  else if p =? b_within_distance then Some [MIn; MIn; MIn]
  else if (107 <=? p) && (p <=? 132) then Some [MIn; MIn]
  else None.

(* the table of seeded change C04-3: the key and value places of :match_entry relaxed to "?" *)
Definition relaxed_table : mtable := fun p =>
  if p =? b_match_entry then Some [MIn; MAny; MAny] else go_table p.

(* no positive atom of the body is a built-in of the table *)
Definition no_builtin (tbl : mtable) (b : list premise) : bool :=
  forallb (fun p => match p with
                    | PAtom a => match tbl (apred a) with Some _ => false | None => true end
                    | _ => true
                    end) b.

(* what can give a variable a value when built-ins are present: a positive atom of an
   extensional predicate (all its variables), an equality, a built-in atom at its
   "-" / "?" places *)
Definition xbinder_vars (tbl : mtable) (p : premise) : list Z :=
  match p with
  | PAtom a => match tbl (apred a) with
               | Some m => out_vars m (aargs a)
               | None => atom_vars a
               end
  | PEq _ _ => premise_vars p
  | _ => []
  end.
