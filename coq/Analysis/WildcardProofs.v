(* Analysis/WildcardProofs.v - ReplaceWildcards (rw_term / rw_premise / rw_body) only renames:
   the variables of a replaced premise are the named variables of the premise as written plus
   fresh ones from the counter range it consumed. With rewrite_perm this carries the rejection
   theorem from the clause CheckRule receives back to the clause as written. *)
From Coq Require Import List ZArith Bool Permutation Lia.
From MV Require Import Datalog.Syntax Datalog.Interp Datalog.Solve Datalog.Lfp Datalog.SolveProofs
  Analysis.RuleCheck Analysis.RuleCheckProofs.
Import ListNotations.
Open Scope Z_scope.

Lemma rw_term_app n f args :
  rw_term n (TApp f args) = (fst (rw_terms n args), TApp f (snd (rw_terms n args))).
Proof.
  simpl.
  match goal with |- (fst (?g n args), _) = _ =>
    assert (E : forall l m, g m l = rw_terms m l)
  end.
  { induction l as [|a l IH]; intros m; simpl; [reflexivity|].
    destruct (rw_term m a) as [n1 a']. rewrite IH. reflexivity. }
  rewrite E. reflexivity.
Qed.

(* what replacement does to the variables of a term *)
Definition rw_term_ok (t : term) : Prop := forall n, 0 <= n ->
  n <= fst (rw_term n t) /\
  (forall v, In v (term_vars (snd (rw_term n t))) ->
     (In v (term_vars t) /\ v <> wild) \/ (n <= v < fst (rw_term n t))) /\
  (forall v, In v (term_vars t) -> v <> wild -> In v (term_vars (snd (rw_term n t)))).

Definition rw_terms_ok (args : list term) : Prop := forall n, 0 <= n ->
  n <= fst (rw_terms n args) /\
  (forall v, In v (terms_vars (snd (rw_terms n args))) ->
     (In v (terms_vars args) /\ v <> wild) \/ (n <= v < fst (rw_terms n args))) /\
  (forall v, In v (terms_vars args) -> v <> wild -> In v (terms_vars (snd (rw_terms n args)))).

Lemma rw_terms_ok_F args : Forall rw_term_ok args -> rw_terms_ok args.
Proof.
  induction 1 as [|a args Ha _ IH]; intros n Hn.
  - simpl. split; [lia|]. split; [intros v []|intros v []].
  - simpl. destruct (rw_term n a) as [n1 a'] eqn:E1.
    destruct (rw_terms n1 args) as [n2 l2] eqn:E2. simpl.
    destruct (Ha n Hn) as (A1 & A2 & A3). rewrite E1 in A1, A2, A3. simpl in A1, A2, A3.
    assert (Hn1 : 0 <= n1) by lia.
    destruct (IH n1 Hn1) as (B1 & B2 & B3). rewrite E2 in B1, B2, B3. simpl in B1, B2, B3.
    split; [lia|]. unfold terms_vars in *. simpl. split.
    + intros v Hv. apply in_app_or in Hv as [Hv|Hv].
      * destruct (A2 v Hv) as [[P Q]|P]; [left; split; [apply in_or_app; auto|auto]|right; lia].
      * destruct (B2 v Hv) as [[P Q]|P]; [left; split; [apply in_or_app; auto|auto]|right; lia].
    + intros v Hv Hw. apply in_app_or in Hv as [Hv|Hv]; apply in_or_app; auto.
Qed.

Lemma rw_term_vars t : rw_term_ok t.
Proof.
  induction t as [w|d|f args IH] using term_ind2; intros n Hn.
  - simpl. destruct (Z.eqb_spec w wild) as [->|Hw]; simpl.
    + split; [lia|]. split; [intros v [<-|[]]; right; lia|intros v [<-|[]] H; contradiction].
    + split; [lia|]. split; [intros v [<-|[]]; left; auto|intros v Hv _; exact Hv].
  - simpl. split; [lia|]. split; [intros v []|intros v []].
  - rewrite rw_term_app. simpl. exact (rw_terms_ok_F args IH n Hn).
Qed.

Lemma rw_terms_vars args : rw_terms_ok args.
Proof. apply rw_terms_ok_F. apply Forall_forall. intros t _. apply rw_term_vars. Qed.

Lemma rw_premise_vars p n : 0 <= n ->
  n <= fst (rw_premise n p) /\
  (forall v, In v (premise_vars (snd (rw_premise n p))) ->
     (In v (premise_vars p) /\ v <> wild) \/ (n <= v < fst (rw_premise n p))) /\
  (forall v, In v (premise_vars p) -> v <> wild -> In v (premise_vars (snd (rw_premise n p)))).
Proof.
  intros Hn.
  assert (T2 : forall l r, let (n1, l') := rw_term n l in let (n2, r') := rw_term n1 r in
     n <= n2 /\
     (forall v, In v (term_vars l' ++ term_vars r') ->
        (In v (term_vars l ++ term_vars r) /\ v <> wild) \/ (n <= v < n2)) /\
     (forall v, In v (term_vars l ++ term_vars r) -> v <> wild -> In v (term_vars l' ++ term_vars r'))).
  { intros l r. destruct (rw_term n l) as [n1 l'] eqn:E1. destruct (rw_term n1 r) as [n2 r'] eqn:E2.
    destruct (rw_term_vars l n Hn) as (A1 & A2 & A3). rewrite E1 in A1, A2, A3. simpl in A1, A2, A3.
    assert (Hn1 : 0 <= n1) by lia.
    destruct (rw_term_vars r n1 Hn1) as (B1 & B2 & B3). rewrite E2 in B1, B2, B3. simpl in B1, B2, B3.
    split; [lia|]. split.
    - intros v Hv. apply in_app_or in Hv as [Hv|Hv].
      + destruct (A2 v Hv) as [[P Q]|P]; [left; split; [apply in_or_app; auto|auto]|right; lia].
      + destruct (B2 v Hv) as [[P Q]|P]; [left; split; [apply in_or_app; auto|auto]|right; lia].
    - intros v Hv Hw. apply in_app_or in Hv as [Hv|Hv]; apply in_or_app; auto. }
  destruct p as [a|a|l r|l r|op l r]; simpl.
  - pose proof (rw_terms_vars (aargs a) n Hn) as H. destruct (rw_terms n (aargs a)) as [n' args']. exact H.
  - pose proof (rw_terms_vars (aargs a) n Hn) as H. destruct (rw_terms n (aargs a)) as [n' args']. exact H.
  - specialize (T2 l r). destruct (rw_term n l) as [n1 l']. destruct (rw_term n1 r) as [n2 r']. exact T2.
  - specialize (T2 l r). destruct (rw_term n l) as [n1 l']. destruct (rw_term n1 r) as [n2 r']. exact T2.
  - specialize (T2 l r). destruct (rw_term n l) as [n1 l']. destruct (rw_term n1 r) as [n2 r']. exact T2.
Qed.

(* replacement keeps the kind of a premise *)
Definition same_kind (p q : premise) : Prop :=
  match p, q with
  | PAtom a, PAtom b | PNeg a, PNeg b => apred a = apred b /\ length (aargs a) = length (aargs b)
  | PEq _ _, PEq _ _ | PIneq _ _, PIneq _ _ => True
  | PCmp o _ _, PCmp o' _ _ => o = o'
  | _, _ => False
  end.

Lemma rw_terms_length args : forall n, length (snd (rw_terms n args)) = length args.
Proof.
  induction args as [|a args IH]; intros n; simpl; [reflexivity|].
  destruct (rw_term n a) as [n1 a']. specialize (IH n1). destruct (rw_terms n1 args) as [n2 l2].
  simpl in *. rewrite IH. reflexivity.
Qed.

Lemma rw_premise_kind p n : same_kind p (snd (rw_premise n p)).
Proof.
  destruct p as [a|a|l r|l r|op l r]; simpl.
  - pose proof (rw_terms_length (aargs a) n) as H. destruct (rw_terms n (aargs a)). simpl in *. auto.
  - pose proof (rw_terms_length (aargs a) n) as H. destruct (rw_terms n (aargs a)). simpl in *. auto.
  - destruct (rw_term n l) as [n1 l']. destruct (rw_term n1 r). exact I.
  - destruct (rw_term n l) as [n1 l']. destruct (rw_term n1 r). exact I.
  - destruct (rw_term n l) as [n1 l']. destruct (rw_term n1 r). reflexivity.
Qed.

Lemma rw_premise_binder p n v : 0 <= n ->
  In v (binder_vars (snd (rw_premise n p))) -> (In v (binder_vars p) /\ v <> wild) \/ n <= v.
Proof.
  intros Hn Hv. destruct (rw_premise_vars p n Hn) as (_ & A & _).
  pose proof (rw_premise_kind p n) as K.
  destruct p as [a|a|l r|l r|op l r]; destruct (snd (rw_premise n _)) as [a'|a'|l' r'|l' r'|op' l' r'];
    simpl in K; try contradiction; simpl in Hv; try contradiction;
    (destruct (A v Hv) as [P|P]; [left; exact P|right; lia]).
Qed.

(* a term without the wildcard is left alone *)
Lemma rw_terms_nowild_F args :
  Forall (fun t => ~ In wild (term_vars t) -> forall n, rw_term n t = (n, t)) args ->
  ~ In wild (terms_vars args) -> forall n, rw_terms n args = (n, args).
Proof.
  induction 1 as [|a args Ha _ IH]; intros Hw n; [reflexivity|].
  unfold terms_vars in Hw. simpl in Hw. simpl.
  rewrite Ha by (intros X; apply Hw, in_or_app; auto).
  rewrite IH by (intros X; apply Hw, in_or_app; auto). reflexivity.
Qed.

Lemma rw_term_nowild t : ~ In wild (term_vars t) -> forall n, rw_term n t = (n, t).
Proof.
  induction t as [w|d|f args IH] using term_ind2; intros Hw n.
  - simpl in *. destruct (Z.eqb_spec w wild) as [->|_]; [exfalso; auto|reflexivity].
  - reflexivity.
  - rewrite rw_term_app. rewrite (rw_terms_nowild_F args IH Hw). reflexivity.
Qed.

(* ---- the body: premise i of rw_body is premise i of the body, replaced at some counter *)
Lemma rw_body_rel b : forall n0 n, 0 <= n0 <= n ->
  Forall2 (fun o p => exists m, n0 <= m /\ p = snd (rw_premise m o)) b (rw_body n b).
Proof.
  induction b as [|p b IH]; intros n0 n Hn; simpl; [constructor|].
  destruct (rw_premise n p) as [n' p'] eqn:E. constructor.
  - exists n. rewrite E. split; [lia|reflexivity].
  - apply IH. destruct (rw_premise_vars p n) as (A & _); [lia|]. rewrite E in A. simpl in A. lia.
Qed.

Lemma Forall2_In_l {A B} (R : A -> B -> Prop) l l' x :
  Forall2 R l l' -> In x l -> exists y, In (x, y) (combine l l') /\ R x y.
Proof.
  induction 1 as [|a b l l' Hab _ IH]; intros Hx; [destruct Hx|].
  destruct Hx as [<-|Hx].
  - exists b. split; [left; reflexivity|exact Hab].
  - destruct (IH Hx) as (y & Hy & Hr). exists y. split; [right; exact Hy|exact Hr].
Qed.

Lemma Forall2_In_r {A B} (R : A -> B -> Prop) l l' y :
  Forall2 R l l' -> In y l' -> exists x, In x l /\ R x y.
Proof.
  induction 1 as [|a b l l' Hab _ IH]; intros Hy; [destruct Hy|].
  destruct Hy as [<-|Hy].
  - exists a. split; [left; reflexivity|exact Hab].
  - destruct (IH Hy) as (x & Hx & Hr). exists x. split; [right; exact Hx|exact Hr].
Qed.

Lemma le_fold_max l x : In x l -> x <= fold_right Z.max 0 l.
Proof.
  induction l as [|y l IH]; intros H; [destruct H|].
  simpl. destruct H as [<-|H]; [lia|]. specialize (IH H). lia.
Qed.

Lemma fresh_base_pos c : 0 <= fresh_base c.
Proof.
  unfold fresh_base.
  assert (0 <= fold_right Z.max 0 (clause_vars c)) by (induction (clause_vars c); simpl; lia). lia.
Qed.

Lemma fresh_base_gt c x : In x (clause_vars c) -> x < fresh_base c.
Proof. intros H. apply le_fold_max in H. unfold fresh_base. lia. Qed.

Lemma replace_wildcards_rel c :
  Forall2 (fun o p => exists m, fresh_base c <= m /\ p = snd (rw_premise m o))
          (cbody c) (cbody (replace_wildcards c)).
Proof. simpl. apply rw_body_rel. pose proof (fresh_base_pos c). lia. Qed.

(* no variable of the replaced body is the wildcard *)
Lemma replace_wildcards_nowild c p :
  In p (cbody (replace_wildcards c)) -> ~ In wild (premise_vars p).
Proof.
  intros Hp Hw. destruct (Forall2_In_r _ _ _ _ (replace_wildcards_rel c) Hp) as (o & _ & m & Hm & ->).
  pose proof (fresh_base_pos c).
  destruct (rw_premise_vars o m) as (_ & A & _); [lia|].
  destruct (A wild Hw) as [[_ X]|X]; [congruence|]. unfold wild in X. lia.
Qed.

(* ================= unsafe_rejected on the clause as written ================= *)
Lemma needs_vars p x : needs p p x -> In x (premise_vars p).
Proof.
  destruct p as [a|a|l r|l r|op l r]; simpl; try tauto.
  unfold atom_vars, terms_vars. rewrite !in_flat_map. intros (t & Ht & Hx).
  apply filter_In in Ht as [Ht _]. eauto.
Qed.

Lemma let_defs_rewrite c : let_defs (rewrite c) = let_defs c.
Proof. unfold let_defs. rewrite rewrite_let. reflexivity. Qed.

Lemma unsafe_rejected_orig c x :
  x <> wild ->
  ~ In x (flat_map binder_vars (cbody c)) ->
  (In x (atom_vars (chead c)) /\ ~ In x (let_defs c)) \/ (exists p, In p (cbody c) /\ needs p p x) ->
  accepted c = false.
Proof.
  intros Hw Hnb Hcase. unfold accepted.
  pose proof (rewrite_perm_body c) as HP.
  assert (Hcv : In x (clause_vars (rewrite c))).
  { unfold clause_vars. destruct Hcase as [[Hh _]|(p & Hp & Hn)].
    - apply in_or_app. left. rewrite rewrite_head. exact Hh.
    - apply in_or_app. right. apply in_or_app. left. apply in_flat_map. exists p. split.
      + eapply Permutation_in; [apply Permutation_sym; exact HP|exact Hp].
      + apply needs_vars, Hn. }
  apply (unsafe_rejected_lemma (rewrite c) x).
  - intros Hin. apply in_flat_map in Hin as (p' & Hp' & Hx).
    destruct (Forall2_In_r _ _ _ _ (replace_wildcards_rel (rewrite c)) Hp') as (o & Ho & m & Hm & ->).
    pose proof (fresh_base_pos (rewrite c)).
    destruct (rw_premise_binder o m x) as [[P _]|P]; [lia|exact Hx| |].
    + apply Hnb. apply in_flat_map. exists o. split; [|exact P].
      eapply Permutation_in; [exact HP|exact Ho].
    + apply fresh_base_gt in Hcv. lia.
  - destruct Hcase as [[Hh Hd]|(p & Hp & Hn)].
    + left. rewrite rewrite_head, let_defs_rewrite. auto.
    + right. assert (Hp2 : In p (cbody (rewrite c)))
        by (eapply Permutation_in; [apply Permutation_sym; exact HP|exact Hp]).
      destruct (Forall2_In_l _ _ _ _ (replace_wildcards_rel (rewrite c)) Hp2) as (p' & Hc & m & Hm & ->).
      exists p, (snd (rw_premise m p)). split; [exact Hc|].
      pose proof (fresh_base_pos (rewrite c)).
      destruct (rw_premise_vars p m) as (_ & _ & A); [lia|].
      pose proof (rw_premise_kind p m) as K.
      destruct p as [a|a|l r|l r|op l r]; destruct (snd (rw_premise m _)) as [a'|a'|l' r'|l' r'|op' l' r'];
        simpl in K; try contradiction; simpl in Hn; try contradiction; simpl.
      * exact Hn.
      * apply A; [exact Hn|exact Hw].
      * apply A; [exact Hn|exact Hw].
Qed.
