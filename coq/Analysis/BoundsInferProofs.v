(* Analysis/BoundsInferProofs.v - soundness for programs with undeclared predicates
   (model Analysis/BoundsInfer.v): the environment the inference builds extends the
   declarations, and when the whole program passes the checker of Bounds.v under that
   environment (certificate `certified`), every fact of the least model with a DECLARED
   predicate is a member of a declared row. *)
From Coq Require Import List ZArith Bool Lia.
From MV Require Import Datalog.Syntax Datalog.Interp Datalog.Solve Datalog.Lfp.
From MV Require Import Analysis.Bounds Analysis.BoundsProofs Analysis.BoundsInfer.
Import ListNotations.
Open Scope Z_scope.

(* E gives every predicate declared in D the rows D gives it *)
Definition extends (D E : decls) : Prop :=
  forall p rows, lookup_decl p D = Some rows -> lookup_decl p E = Some rows.

Lemma extends_refl D : extends D D.
Proof. intros p rows H. exact H. Qed.

Lemma extends_trans D E F : extends D E -> extends E F -> extends D F.
Proof. intros H1 H2 p rows H. apply H2. apply H1. exact H. Qed.

Lemma extends_cons E q rows : lookup_decl q E = None -> extends E ((q, rows) :: E).
Proof.
  intros Hq p rs H. cbn [lookup_decl]. destruct (Z.eqb p q) eqn:Epq; auto.
  apply Z.eqb_eq in Epq. subst. rewrite Hq in H. discriminate.
Qed.

Lemma fact_ok_restrict D E f : extends D E -> fact_ok E f -> fact_ok D f.
Proof.
  unfold fact_ok. intros H HE. destruct (lookup_decl (fst f) D) as [rows|] eqn:L; auto.
  rewrite (H _ _ L) in HE. exact HE.
Qed.

Lemma fact_ok_extend D E f :
  extends D E -> is_declared D (fst f) = true -> fact_ok D f -> fact_ok E f.
Proof.
  unfold fact_ok, is_declared. intros H Hd HD.
  destruct (lookup_decl (fst f) D) as [rows|] eqn:L; try discriminate.
  rewrite (H _ _ L). exact HD.
Qed.

Lemma infer_all_extends trie R init sched :
  forall E E' e, infer_all E trie R init sched = Ok (Some E', e) -> extends E E'.
Proof.
  induction sched as [|[[q ar] top] sched IH]; intros E E' e H.
  - cbn [infer_all] in H. unfold ret in H. inversion H; subst. apply extends_refl.
  - cbn [infer_all] in H. destruct (lookup_decl q E) eqn:Lq; try discriminate.
    apply bindM_ok in H. destruct H as [o [e1 [e2 [Ho [H _]]]]].
    destruct o as [rows|].
    + apply IH in H. eapply extends_trans; [|exact H]. apply extends_cons. exact Lq.
    + unfold ret in H. inversion H.
Qed.

Lemma certified_inv E R init : certified E R init = true -> check_program E R init = Ok (true, true).
Proof.
  unfold certified. destruct (check_program E R init) as [[[|] [|]]| |]; try discriminate. reflexivity.
Qed.

(* any environment E that extends the declarations (the inferred relation types are one)
   and certifies the whole program *)
Theorem bounds_sound_env D E R init (B : factset) :
  extends D E ->
  certified E R init = true ->
  (forall f, B f -> In f init \/ (is_declared D (fst f) = true /\ fact_ok D f)) ->
  forall f, lfp R B f -> fact_ok D f.
Proof.
  intros Hext Hc HB f Hf. apply (fact_ok_restrict D E f Hext).
  apply (bounds_sound E R init B (certified_inv _ _ _ Hc)); auto.
  intros g Hg. destruct (HB g Hg) as [Hi|[Hd Hok]]; auto.
  right. eapply fact_ok_extend; eauto.
Qed.

(* the environment computed by the model of BoundsCheck *)
Theorem bounds_sound_inferred D R init sched E e (B : factset) :
  check_program_inf D R init sched = Ok ((true, Some E), e) ->
  certified E R init = true ->
  (forall f, B f -> In f init \/ (is_declared D (fst f) = true /\ fact_ok D f)) ->
  forall f, lfp R B f -> fact_ok D f.
Proof.
  intros H. unfold check_program_inf in H.
  apply bindM_ok in H. destruct H as [o [e1 [e2 [Ho [H _]]]]].
  destruct o as [E0|].
  - apply bindM_ok in H. destruct H as [v [e3 [e4 [_ [H _]]]]].
    unfold ret in H. inversion H; subst.
    apply infer_all_extends in Ho. apply bounds_sound_env. exact Ho.
  - unfold ret in H. inversion H.
Qed.

Theorem bounds_sound_inferred_strata D P init sched E e :
  check_program_inf D P init sched = Ok ((true, Some E), e) ->
  certified E P init = true ->
  forall layers (B : factset),
  (forall f, B f -> In f init \/ (is_declared D (fst f) = true /\ fact_ok D f)) ->
  forall f, slfp P layers B f -> fact_ok D f.
Proof.
  intros H Hc layers B HB f Hf. unfold check_program_inf in H.
  apply bindM_ok in H. destruct H as [o [e1 [e2 [Ho [H _]]]]].
  destruct o as [E0|].
  - apply bindM_ok in H. destruct H as [v [e3 [e4 [_ [H _]]]]].
    unfold ret in H. inversion H; subst.
    apply infer_all_extends in Ho. apply (fact_ok_restrict D E f Ho).
    apply (bounds_sound_strata E P init (certified_inv _ _ _ Hc) layers B); auto.
    intros g Hg. destruct (HB g Hg) as [Hi|[Hd Hok]]; auto.
    right. eapply fact_ok_extend; eauto.
  - unfold ret in H. inversion H.
Qed.
