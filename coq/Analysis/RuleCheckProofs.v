(* Analysis/RuleCheckProofs.v - proofs about the model of RewriteClause / CheckRule. *)
From Coq Require Import List ZArith Bool Permutation Lia.
From MV Require Import Datalog.Syntax Datalog.Interp Datalog.Solve Datalog.Lfp Datalog.SolveProofs Analysis.RuleCheck.
Import ListNotations.
Open Scope Z_scope.

(* ================= rewrite is a permutation ================= *)
Lemma filter_split_perm {A} (f : A -> bool) (l : list A) :
  Permutation (filter f l ++ filter (fun x => negb (f x)) l) l.
Proof.
  induction l as [|x l IH]; simpl; [constructor|].
  destruct (f x); simpl.
  - constructor. exact IH.
  - eapply Permutation_trans; [apply Permutation_sym, Permutation_middle|]. constructor. exact IH.
Qed.

Definition negs (d : list (atom * list Z)) : list premise := map (fun d => PNeg (fst d)) d.

Lemma rewrite_emit_perm bv' (delayed : list (atom * list Z)) p rest tail :
  Permutation tail (negs (filter (fun d => negb (dready bv' d)) delayed) ++ rest) ->
  Permutation (p :: negs (filter (dready bv') delayed) ++ tail) (negs delayed ++ p :: rest).
Proof.
  intros H.
  eapply Permutation_trans; [|apply Permutation_middle].
  constructor.
  eapply Permutation_trans; [apply Permutation_app_head; exact H|].
  rewrite app_assoc. apply Permutation_app_tail.
  unfold negs. rewrite <- map_app. apply Permutation_map. apply filter_split_perm.
Qed.

Lemma rewrite_go_perm body : forall bv delayed,
  Permutation (rewrite_go bv delayed body) (negs delayed ++ body).
Proof.
  induction body as [|p rest IH]; intros bv delayed.
  - simpl. rewrite app_nil_r. apply Permutation_refl.
  - destruct p as [a|a|l r|l r|op l r];
      try (simpl; apply rewrite_emit_perm; apply IH).
    simpl. destruct (is_nil (neg_to_bind bv a)).
    + apply rewrite_emit_perm. apply IH.
    + eapply Permutation_trans; [apply IH|].
      unfold negs. rewrite map_app. simpl. rewrite <- app_assoc. simpl. apply Permutation_refl.
Qed.

Lemma rewrite_perm_body c : Permutation (cbody (rewrite c)) (cbody c).
Proof.
  unfold rewrite. destruct (cbody c) as [|p b] eqn:E.
  - rewrite E. constructor.
  - simpl. apply (rewrite_go_perm (p :: b) [] []).
Qed.

Lemma rewrite_head c : chead (rewrite c) = chead c.
Proof. unfold rewrite. destruct (cbody c); reflexivity. Qed.
Lemma rewrite_let c : clet (rewrite c) = clet c.
Proof. unfold rewrite. destruct (cbody c); reflexivity. Qed.

(* ================= accepted clauses: every variable has a value where it is needed ================= *)
Definition bnd (s : subst) (v : Z) : Prop := lookup v s <> None.
Definition ext (s u : subst) : Prop := forall v, bnd s v -> bnd u v.

Lemma ext_refl s : ext s s. Proof. intros v H; exact H. Qed.
Lemma ext_trans s u t : ext s u -> ext u t -> ext s t. Proof. intros A B v H. apply B, A, H. Qed.
Lemma bnd_cons_same v c s : bnd ((v, c) :: s) v.
Proof. unfold bnd. simpl. rewrite Z.eqb_refl. discriminate. Qed.
Lemma ext_cons v c s : ext s ((v, c) :: s).
Proof. intros w H. unfold bnd in *. simpl. destruct (Z.eqb w v); [discriminate|exact H]. Qed.

Lemma memZ_In x l : memZ x l = true <-> In x l.
Proof.
  unfold memZ. rewrite existsb_exists. split.
  - intros (y & Hy & E). apply Z.eqb_eq in E. subst. exact Hy.
  - intros H. exists x. split; [exact H|apply Z.eqb_refl].
Qed.
Lemma subsetZ_In a b : subsetZ a b = true -> forall v, In v a -> In v b.
Proof. unfold subsetZ. rewrite forallb_forall. intros H v Hv. apply memZ_In, H, Hv. Qed.

Lemma term_ind2 (P : term -> Prop) :
  (forall v, P (TVar v)) -> (forall c, P (TConst c)) ->
  (forall f args, Forall P args -> P (TApp f args)) -> forall t, P t.
Proof.
  intros Hv Hc Ha. fix IH 1. intros [v|c|f args]; [apply Hv|apply Hc|].
  apply Ha. induction args as [|a args IHa]; constructor; [apply IH|exact IHa].
Qed.

Definition eval_consts (s : subst) : list term -> option (list const) :=
  fix go (l : list term) : option (list const) :=
    match l with
    | [] => Some []
    | a :: l' => match eval_term s a with
                 | Some (VConst c) => match go l' with Some cs => Some (c :: cs) | None => None end
                 | _ => None
                 end
    end.
Lemma eval_term_app s f args :
  eval_term s (TApp f args) =
  match eval_consts s args with
  | Some cs => match eval_fn f cs with Some c => Some (VConst c) | None => None end
  | None => None
  end.
Proof. reflexivity. Qed.

Lemma eval_consts_all s args cs :
  eval_consts s args = Some cs -> forall a, In a args -> exists c, eval_term s a = Some (VConst c).
Proof.
  revert cs. induction args as [|a args IH]; intros cs H b Hb; [destruct Hb|].
  simpl in H. destruct (eval_term s a) as [[c|w]|] eqn:E; try discriminate.
  destruct (eval_consts s args) as [cs'|] eqn:E2; [|discriminate].
  destruct Hb as [<-|Hb]; [eauto|]. eapply IH; eauto.
Qed.

Lemma eval_term_const_bound s t : forall c,
  eval_term s t = Some (VConst c) -> forall v, In v (term_vars t) -> bnd s v.
Proof.
  induction t as [w|d|f args IH] using term_ind2; intros c H v Hv.
  - simpl in Hv. destruct Hv as [<-|[]]. simpl in H. unfold bnd.
    destruct (lookup w s); [discriminate|discriminate].
  - destruct Hv.
  - rewrite eval_term_app in H. destruct (eval_consts s args) as [cs|] eqn:E; [|discriminate].
    simpl in Hv. apply in_flat_map in Hv as (a & Ha & Hva).
    destruct (eval_consts_all _ _ _ E a Ha) as (ca & Hca).
    rewrite Forall_forall in IH. eapply IH; eauto.
Qed.

Lemma eval_term_var_inv s t w : eval_term s t = Some (VVar w) -> t = TVar w /\ lookup w s = None.
Proof.
  destruct t as [x|d|f args]; intros H.
  - simpl in H. destruct (lookup x s) eqn:E; [discriminate|]. injection H as <-. auto.
  - discriminate.
  - rewrite eval_term_app in H. destruct (eval_consts s args); [|discriminate].
    destruct (eval_fn f l); discriminate.
Qed.

Lemma unify1_ext s pv c u : unify1 s pv c = Some u -> ext s u.
Proof.
  destruct pv as [d|w]; simpl.
  - destruct (const_eqb d c); [|discriminate]. intros [= <-]. apply ext_refl.
  - destruct (lookup w s) as [d|].
    + destruct (const_eqb d c); [|discriminate]. intros [= <-]. apply ext_refl.
    + intros [= <-]. apply ext_cons.
Qed.

Lemma unify_args_binds ts : forall pvs s0 s cs u,
  map_opt (eval_term s0) ts = Some pvs -> ext s0 s -> unify_args s pvs cs = Some u ->
  ext s u /\ forall v, In v (terms_vars ts) -> bnd u v.
Proof.
  induction ts as [|t ts IH]; intros pvs s0 s cs u He Hx Hu.
  - simpl in He. injection He as <-. destruct cs; [|discriminate]. simpl in Hu. injection Hu as <-.
    split; [apply ext_refl|intros v []].
  - simpl in He. destruct (eval_term s0 t) as [pv|] eqn:Et; [|discriminate].
    destruct (map_opt (eval_term s0) ts) as [pvs'|] eqn:Em; [|discriminate]. injection He as <-.
    destruct cs as [|c cs]; [discriminate|]. simpl in Hu.
    destruct (unify1 s pv c) as [s1|] eqn:E1; [|discriminate].
    pose proof (unify1_ext _ _ _ _ E1) as Hx1.
    destruct (IH pvs' s0 s1 cs u Em (ext_trans _ _ _ Hx Hx1) Hu) as [Hx2 Hb].
    split; [eapply ext_trans; eauto|].
    intros v Hv. unfold terms_vars in Hv. simpl in Hv. apply in_app_or in Hv as [Hv|Hv]; [|apply Hb, Hv].
    destruct pv as [d|w].
    + apply Hx2, Hx1, Hx. eapply eval_term_const_bound; eauto.
    + apply eval_term_var_inv in Et as [-> _]. simpl in Hv. destruct Hv as [<-|[]].
      apply Hx2. simpl in E1. destruct (lookup w s) as [d|] eqn:El.
      * destruct (const_eqb d c); [|discriminate]. injection E1 as <-. unfold bnd. rewrite El. discriminate.
      * injection E1 as <-. apply bnd_cons_same.
Qed.

(* the invariant: whatever CheckRule counts as bound (or has put into its union-find) has a value *)
Definition Inv (st : cstate) (s : subst) : Prop :=
  (forall v, In v (cs_bound st) -> bnd s v) /\ (forall v, In v (map fst (cs_uf st)) -> bnd s v).

Lemma uf_find_In u v r : uf_find u v = Some r -> In v (map fst u).
Proof.
  induction u as [|[w q] u IH]; simpl; [discriminate|].
  destruct (Z.eqb v w) eqn:E; [apply Z.eqb_eq in E; auto|auto].
Qed.
Lemma uf_ensure_dom u v w : In w (map fst (uf_ensure u v)) -> w = v \/ In w (map fst u).
Proof. unfold uf_ensure. destruct (uf_find u v); simpl; intuition. Qed.
Lemma uf_union_dom u x y w : In w (map fst (uf_union u x y)) -> w = x \/ w = y \/ In w (map fst u).
Proof.
  unfold uf_union. set (u1 := uf_ensure (uf_ensure u x) y).
  assert (H1 : In w (map fst u1) -> w = x \/ w = y \/ In w (map fst u)).
  { intros H. apply uf_ensure_dom in H as [->|H]; auto. apply uf_ensure_dom in H as [->|H]; auto. }
  destruct (Z.eqb (uf_get u1 x) (uf_get u1 y)); [exact H1|].
  rewrite map_map. simpl. exact H1.
Qed.

Lemma has_value_bnd st s v : Inv st s -> has_value st v = true -> bnd s v.
Proof.
  intros [Hb Hu] H. unfold has_value in H. apply orb_true_iff in H as [H|H].
  - apply Hb, memZ_In, H.
  - unfold uf_get in H. destruct (uf_find (cs_uf st) v) eqn:E.
    + apply Hu. eapply uf_find_In; eauto.
    + apply Hb, memZ_In, H.
Qed.

Lemma Inv_ext st s u : Inv st s -> ext s u -> Inv st u.
Proof. intros [A B] H. split; intros v Hv; apply H; auto. Qed.
Lemma Inv_see st vs s : Inv (see st vs) s <-> Inv st s.
Proof. unfold Inv, see. simpl. tauto. Qed.
Lemma Inv_bind st vs s : Inv st s -> (forall v, In v vs -> bnd s v) -> Inv (bind st vs) s.
Proof.
  intros [A B] H. split; simpl; auto. intros v Hv. apply in_app_or in Hv as [Hv|Hv]; auto.
Qed.

Lemma step_pure_eq_ext l r s us u :
  step_pure (PEq l r) s = Some us -> In u us -> ext s u.
Proof.
  simpl. destruct (eval_term s l) as [[a|x]|]; [| |discriminate];
    (destruct (eval_term s r) as [[b|y]|]; [| |discriminate]); intros H Hu.
  - injection H as <-. destruct (const_eqb a b); [destruct Hu as [<-|[]]; apply ext_refl|destruct Hu].
  - injection H as <-. destruct Hu as [<-|[]]. apply ext_cons.
  - injection H as <-. destruct Hu as [<-|[]]. apply ext_cons.
  - destruct (Z.eqb x y); [|discriminate]. injection H as <-. destruct Hu as [<-|[]]. apply ext_refl.
Qed.

(* after "l = r" succeeded, a variable side is bound as soon as the other side evaluated to a constant *)
Lemma step_pure_eq_binds_r l v s us u c :
  step_pure (PEq l (TVar v)) s = Some us -> In u us -> eval_term s l = Some (VConst c) -> bnd u v.
Proof.
  simpl. intros H Hu El. rewrite El in H. destruct (lookup v s) as [d|] eqn:E.
  - injection H as <-. destruct (const_eqb c d); [destruct Hu as [<-|[]]|destruct Hu]. unfold bnd. rewrite E. discriminate.
  - injection H as <-. destruct Hu as [<-|[]]. apply bnd_cons_same.
Qed.
Lemma step_pure_eq_binds_l r v s us u c :
  step_pure (PEq (TVar v) r) s = Some us -> In u us -> eval_term s r = Some (VConst c) -> bnd u v.
Proof.
  simpl. intros H Hu Er. rewrite Er in H. destruct (lookup v s) as [d|] eqn:E.
  - injection H as <-. destruct (const_eqb d c); [destruct Hu as [<-|[]]|destruct Hu]. unfold bnd. rewrite E. discriminate.
  - injection H as <-. destruct Hu as [<-|[]]. apply bnd_cons_same.
Qed.

Lemma eval_app_const s f args val : eval_term s (TApp f args) = Some val -> exists c, val = VConst c.
Proof.
  rewrite eval_term_app. destruct (eval_consts s args); [|discriminate].
  destruct (eval_fn f l); [|discriminate]. intros [= <-]. eauto.
Qed.

Lemma step_pure_eq_defined l r s us : step_pure (PEq l r) s = Some us ->
  exists a b, eval_term s l = Some a /\ eval_term s r = Some b.
Proof.
  simpl. destruct (eval_term s l) as [a|]; [|destruct (eval_term s r); discriminate].
  destruct (eval_term s r) as [b|]; [eauto|destruct a; discriminate].
Qed.

Lemma bnd_eval_var s v : bnd s v -> exists c, eval_term s (TVar v) = Some (VConst c).
Proof. unfold bnd. simpl. destruct (lookup v s) as [c|]; [eauto|congruence]. Qed.

Ltac dif H := match type of H with context [if ?b then _ else _] => destruct b; simpl in H; try discriminate end.

Lemma check_eq_inv st l r st' s us u :
  check_eq st l r = Some st' -> alias_ok st (PEq l r) = true -> Inv st s ->
  step_pure (PEq l r) s = Some us -> In u us -> Inv st' u.
Proof.
  intros Hc Ha Hi Hs Hu.
  pose proof (step_pure_eq_ext _ _ _ _ _ Hs Hu) as Hx.
  pose proof (Inv_ext _ _ _ Hi Hx) as Hi'.
  destruct (step_pure_eq_defined _ _ _ _ Hs) as (a & b & Ea & Eb).
  assert (BR : forall v c, r = TVar v -> a = VConst c -> Inv (bind st [v]) u).
  { intros v c -> ->. apply Inv_bind; auto. intros w [<-|[]]. eapply step_pure_eq_binds_r; eauto. }
  assert (BL : forall v c, l = TVar v -> b = VConst c -> Inv (bind st [v]) u).
  { intros v c -> ->. apply Inv_bind; auto. intros w [<-|[]]. eapply step_pure_eq_binds_l; eauto. }
  destruct l as [x|cl|fl al]; destruct r as [y|cr|fr ar]; simpl in Hc.
  - (* var = var *)
    injection Hc as <-. destruct Hi' as [Hb Hf]. split; simpl; auto.
    intros w Hw. apply uf_union_dom in Hw as [->|[->|Hw]]; auto.
    + destruct Hi as [Hb0 _]. simpl in Ha. apply orb_true_iff in Ha as [Ha|Ha]; apply memZ_In in Ha.
      * apply Hx. apply Hb0, Ha.
      * destruct (bnd_eval_var s y (Hb0 _ Ha)) as (c & Ec).
        rewrite Ec in Eb. injection Eb as <-. eapply step_pure_eq_binds_l; eauto.
    + destruct Hi as [Hb0 _]. simpl in Ha. apply orb_true_iff in Ha as [Ha|Ha]; apply memZ_In in Ha.
      * destruct (bnd_eval_var s x (Hb0 _ Ha)) as (c & Ec).
        rewrite Ec in Ea. injection Ea as <-. eapply step_pure_eq_binds_r; eauto.
      * apply Hx. apply Hb0, Ha.
  - injection Hc as <-. simpl in Eb. injection Eb as <-. eapply BL; eauto.
  - (* var = app *)
    dif Hc.
    injection Hc as <-. destruct (eval_app_const _ _ _ _ Eb) as (c & ->). eapply BL; eauto.
  - injection Hc as <-. simpl in Ea. injection Ea as <-. eapply BR; eauto.
  - injection Hc as <-. exact Hi'.
  - dif Hc.
    injection Hc as <-. exact Hi'.
  - (* app = var *)
    dif Hc.
    injection Hc as <-. destruct (eval_app_const _ _ _ _ Ea) as (c & ->). eapply BR; eauto.
  - dif Hc.
    injection Hc as <-. exact Hi'.
  - dif Hc.
    dif Hc.
    injection Hc as <-. exact Hi'.
Qed.

Lemma check_premise_inv st o p st' Sneg Spos s us u :
  check_premise st o p = Some st' -> alias_ok st p = true -> Inv st s ->
  step Sneg Spos p s = Some us -> In u us -> Inv st' u.
Proof.
  intros Hc Ha Hi Hs Hu. destruct p as [a|a|l r|l r|op l r].
  - (* positive atom: binds all its variables *)
    simpl in Hc. injection Hc as <-. simpl in Hs.
    destruct (eval_args s (aargs a)) as [pvs|] eqn:Ea; [|discriminate]. injection Hs as <-.
    apply in_fmap in Hu as (f & _ & Hm). unfold match_fact in Hm.
    destruct (Z.eqb (fst f) (apred a)); [|discriminate].
    destruct (unify_args_binds _ _ _ _ _ _ Ea (ext_refl s) Hm) as [Hx Hb].
    apply Inv_bind; [|exact Hb]. apply Inv_see. eapply Inv_ext; eauto.
  - (* negated atom: no binding *)
    simpl in Hc. destruct o as [a0| a0 | | |]; try discriminate. dif Hc. injection Hc as <-.
    simpl in Hs. destruct (eval_args s (aargs a)); [|discriminate]. injection Hs as <-.
    apply Inv_see. destruct (existsb _ Sneg); [destruct Hu|]. destruct Hu as [<-|[]]. exact Hi.
  - simpl in Hc. eapply check_eq_inv; eauto; apply Inv_see; exact Hi.
  - simpl in Hc. dif Hc. injection Hc as <-. apply Inv_see. simpl in Hs.
    destruct (eval_term s l) as [[x|x]|]; try discriminate;
      destruct (eval_term s r) as [[y|y]|]; try discriminate; injection Hs as <-;
      try (destruct Hu; fail).
    destruct (const_eqb x y); [destruct Hu|]. destruct Hu as [<-|[]]. exact Hi.
  - simpl in Hc. dif Hc. injection Hc as <-. apply Inv_see. simpl in Hs.
    destruct (eval_term s l) as [[x|x]|]; try discriminate;
      destruct (eval_term s r) as [[y|y]|]; try discriminate.
    destruct (eval_cmp op x y) as [[|]|]; try discriminate; injection Hs as <-; [|destruct Hu].
    destruct Hu as [<-|[]]. exact Hi.
Qed.

Lemma check_body_inv origs : forall ps st st' Sneg sel k sols0 sols,
  length origs = length ps ->
  check_body st origs ps = Some st' -> alias_free_body st origs ps = true ->
  (forall s, In s sols0 -> Inv st s) ->
  solve Sneg sel k ps sols0 = Some sols ->
  forall s, In s sols -> Inv st' s.
Proof.
  induction origs as [|o origs IH]; intros ps st st' Sneg sel k sols0 sols Hl Hc Ha H0 Hs s Hin.
  - destruct ps; [|discriminate]. simpl in Hc, Hs. injection Hc as <-. injection Hs as <-. auto.
  - destruct ps as [|p ps]; [discriminate|]. simpl in Hl. injection Hl as Hl.
    simpl in Hc. destruct (check_premise st o p) as [st1|] eqn:E1; [|discriminate].
    simpl in Ha. rewrite E1 in Ha. apply andb_true_iff in Ha as [Ha1 Ha2].
    simpl in Hs. destruct (flat_map_opt (step Sneg (sel k) p) sols0) as [sols1|] eqn:Ef; [|discriminate].
    destruct (flat_map_opt_spec _ _ _ Ef) as [_ Hspec].
    eapply (IH ps st1 st' Sneg sel (S k) sols1 sols); eauto.
    intros u Hu. apply Hspec in Hu as (s0 & us & Hs0 & Hst & Huus).
    eapply check_premise_inv; eauto.
Qed.

Lemma rw_body_length b : forall n, length (rw_body n b) = length b.
Proof.
  induction b as [|p b IH]; intros n; simpl; [reflexivity|].
  destruct (rw_premise n p) as [n' p']. simpl. rewrite IH. reflexivity.
Qed.

Lemma see_seen_mono st vs v : In v (cs_seen st) -> In v (cs_seen (see st vs)).
Proof. simpl. intros H. apply in_or_app. right. exact H. Qed.

Lemma check_eq_seen st l r st' : check_eq st l r = Some st' -> cs_seen st' = cs_seen st.
Proof.
  intros H. destruct l as [x|cl|fl al]; destruct r as [y|cr|fr ar]; simpl in H;
    repeat dif H; try (injection H as <-; reflexivity).
Qed.

Lemma check_premise_seen st o p st' v :
  check_premise st o p = Some st' -> In v (cs_seen st) -> In v (cs_seen st').
Proof.
  intros Hc Hv. destruct p as [a|a|l r|l r|op l r]; simpl in Hc.
  - injection Hc as <-. simpl. apply in_or_app. right. exact Hv.
  - destruct o; try discriminate. dif Hc. injection Hc as <-. apply see_seen_mono, Hv.
  - apply check_eq_seen in Hc. rewrite Hc. apply see_seen_mono, Hv.
  - dif Hc. injection Hc as <-. apply see_seen_mono, Hv.
  - dif Hc. injection Hc as <-. apply see_seen_mono, Hv.
Qed.

Lemma check_body_seen origs : forall ps st st' v,
  check_body st origs ps = Some st' -> In v (cs_seen st) -> In v (cs_seen st').
Proof.
  induction origs as [|o origs IH]; intros ps st st' v Hc Hv.
  - simpl in Hc. injection Hc as <-. exact Hv.
  - destruct ps as [|p ps]; simpl in Hc; [injection Hc as <-; exact Hv|].
    destruct (check_premise st o p) as [st1|] eqn:E1; [|discriminate].
    eapply IH; eauto. eapply check_premise_seen; eauto.
Qed.

(* the main statement about one accepted clause cr (= the clause CheckRule is given, i.e.
   the rewritten one): on every store, in every solution the left-to-right join computes,
   all variables CheckRule counted as bound - in particular every head variable that the
   transform does not define - have a value. *)
Lemma accepted_binds_lemma cr Sneg sel sols :
  check cr = true -> alias_free cr = true ->
  solve Sneg sel 0 (cbody (replace_wildcards cr)) [[]] = Some sols ->
  forall s, In s sols ->
  forall v, In v (atom_vars (chead cr)) -> ~ In v (let_defs cr) -> lookup v s <> None.
Proof.
  unfold check, alias_free. intros Hc Ha Hs s Hin v Hv Hnd.
  set (st0 := mkCS [] (atom_vars (chead cr)) []) in *.
  destruct (check_body st0 (cbody cr) (cbody (replace_wildcards cr))) as [st|] eqn:Eb; [|discriminate].
  apply andb_true_iff in Hc as [Hf _].
  assert (HI : Inv st s).
  { assert (Hlen : length (cbody cr) = length (cbody (replace_wildcards cr)))
      by (simpl; symmetry; apply rw_body_length).
    assert (H0 : forall s0 : subst, In s0 [[]] -> Inv st0 s0)
      by (intros s0 [<-|[]]; split; simpl; intros w []).
    exact (check_body_inv (cbody cr) _ st0 st Sneg sel 0%nat [[]] sols Hlen Eb Ha H0 Hs s Hin). }
  unfold check_final in Hf. apply andb_true_iff in Hf as [Hf _]. apply andb_true_iff in Hf as [_ Hf].
  rewrite forallb_forall in Hf.
  assert (Hseen : In v (cs_seen st)) by (eapply check_body_seen; eauto).
  specialize (Hf v Hseen). apply orb_true_iff in Hf as [Hf|Hf].
  - apply andb_true_iff in Hf as [_ Hd]. apply memZ_In in Hd. contradiction.
  - eapply has_value_bnd; eauto.
Qed.

(* ================= unsafe clauses are rejected ================= *)
(* the only premises that can give a variable a value: positive atoms and equalities *)
Definition binder_vars (p : premise) : list Z :=
  match p with
  | PAtom _ | PEq _ _ => premise_vars p
  | _ => []
  end.

(* what a premise needs a value for (o = the premise before wildcard replacement) *)
Definition needs (o p : premise) (v : Z) : Prop :=
  match p with
  | PCmp _ _ _ | PIneq _ _ => In v (premise_vars p)
  | PNeg _ => match o with
              | PNeg a => In v (terms_vars (filter (fun t => match t with TVar w => negb (Z.eqb w wild) | _ => true end) (aargs a)))
              | _ => False
              end
  | _ => False
  end.

Definition J (st : cstate) (B : list Z) : Prop :=
  (forall v, In v (cs_bound st) -> In v B) /\ (forall v, In v (map fst (cs_uf st)) -> In v B).

Lemma J_has_value st B v : J st B -> has_value st v = true -> In v B.
Proof.
  intros [Hb Hu] H. unfold has_value in H. apply orb_true_iff in H as [H|H].
  - apply Hb, memZ_In, H.
  - unfold uf_get in H. destruct (uf_find (cs_uf st) v) eqn:E.
    + apply Hu. eapply uf_find_In; eauto.
    + apply Hb, memZ_In, H.
Qed.

Lemma J_mono st B B' : J st B -> (forall v, In v B -> In v B') -> J st B'.
Proof. intros [A C] H. split; intros v Hv; apply H; auto. Qed.

Lemma check_eq_J st l r st' B :
  check_eq st l r = Some st' -> J st B -> J st' (B ++ term_vars l ++ term_vars r).
Proof.
  intros Hc [Hb Hu].
  assert (K : J st (B ++ term_vars l ++ term_vars r)).
  { split; intros v Hv; apply in_or_app; left; auto. }
  assert (KB : forall x, In x (term_vars l ++ term_vars r) -> J (bind st [x]) (B ++ term_vars l ++ term_vars r)).
  { intros x Hx. destruct K as [K1 K2]. split; simpl; auto.
    intros v [<-|Hv]; [apply in_or_app; right; exact Hx|apply K1, Hv]. }
  assert (INL : forall x t, In x (term_vars (TVar x) ++ t)) by (intros; simpl; auto).
  assert (INR : forall x t, In x (t ++ term_vars (TVar x))) by (intros; apply in_or_app; right; simpl; auto).
  destruct l as [x|cl|fl al]; destruct r as [y|cr|fr ar]; simpl in Hc; repeat dif Hc; injection Hc as <-;
    try exact K; try (apply KB; first [apply INL | apply INR]).
  (* var = var *)
  destruct K as [K1 K2]. split; simpl; auto.
  intros v Hv. apply uf_union_dom in Hv as [->|[->|Hv]]; auto; apply in_or_app; right; simpl; auto.
Qed.

Lemma check_premise_J st o p st' B :
  check_premise st o p = Some st' -> J st B ->
  J st' (B ++ binder_vars p) /\ (forall v, needs o p v -> In v B).
Proof.
  intros Hc HJ. destruct p as [a|a|l r|l r|op l r]; simpl in Hc.
  - injection Hc as <-. split; [|intros v []]. destruct HJ as [Hb Hu]. split; simpl.
    + intros v Hv. apply in_app_or in Hv as [Hv|Hv]; apply in_or_app; auto.
    + intros v Hv. apply in_or_app; auto.
  - destruct o as [|a0| | |]; try discriminate.
    match type of Hc with context [if ?b then _ else _] => destruct b eqn:Eb; [|discriminate] end.
    injection Hc as <-. simpl. rewrite app_nil_r. split; [exact HJ|].
    intros v Hv. rewrite forallb_forall in Eb. eapply J_has_value; eauto.
  - split; [|intros v []]. simpl. eapply check_eq_J; eauto.
  - match type of Hc with context [if ?b then _ else _] => destruct b eqn:Eb; [|discriminate] end.
    injection Hc as <-. simpl. rewrite app_nil_r. split; [exact HJ|].
    intros v Hv. rewrite forallb_forall in Eb. eapply J_has_value; eauto.
  - match type of Hc with context [if ?b then _ else _] => destruct b eqn:Eb; [|discriminate] end.
    injection Hc as <-. simpl. rewrite app_nil_r. split; [exact HJ|].
    intros v Hv. destruct HJ as [Hb _]. apply Hb. eapply subsetZ_In; eauto.
Qed.

Lemma check_body_J origs : forall ps st st' B,
  check_body st origs ps = Some st' -> J st B ->
  J st' (B ++ flat_map binder_vars ps) /\
  (forall o p v, In (o, p) (combine origs ps) -> needs o p v -> In v (B ++ flat_map binder_vars ps)).
Proof.
  induction origs as [|o origs IH]; intros ps st st' B Hc HJ.
  - simpl in Hc. injection Hc as <-. split; [|intros o p v []].
    eapply J_mono; eauto. intros v Hv. apply in_or_app; auto.
  - destruct ps as [|p ps]; simpl in Hc.
    + injection Hc as <-. simpl. rewrite app_nil_r. split; [exact HJ|intros o' p' v []].
    + destruct (check_premise st o p) as [st1|] eqn:E1; [|discriminate].
      destruct (check_premise_J _ _ _ _ _ E1 HJ) as [HJ1 Hn1].
      destruct (IH ps st1 st' _ Hc HJ1) as [HJ2 Hn2].
      simpl. rewrite app_assoc. split; [exact HJ2|].
      intros o' p' v [Heq|Hin] Hn.
      * injection Heq as <- <-. apply in_or_app. left. apply in_or_app. left. apply Hn1, Hn.
      * eapply Hn2; eauto.
Qed.

Lemma unsafe_rejected_lemma cr v :
  ~ In v (flat_map binder_vars (cbody (replace_wildcards cr))) ->
  (In v (atom_vars (chead cr)) /\ ~ In v (let_defs cr))
  \/ (exists o p, In (o, p) (combine (cbody cr) (cbody (replace_wildcards cr))) /\ needs o p v) ->
  check cr = false.
Proof.
  intros Hnb Hcase. destruct (check cr) eqn:Hc; [|reflexivity]. exfalso.
  unfold check in Hc.
  set (st0 := mkCS [] (atom_vars (chead cr)) []) in *.
  destruct (check_body st0 (cbody cr) (cbody (replace_wildcards cr))) as [st|] eqn:Eb; [|discriminate].
  assert (J0 : J st0 []) by (split; simpl; intros w []).
  destruct (check_body_J _ _ _ _ _ Eb J0) as [HJ Hn]. simpl in HJ, Hn.
  destruct Hcase as [[Hv Hnd]|(o & p & Hin & Hneed)].
  - apply andb_true_iff in Hc as [Hf _]. unfold check_final in Hf.
    apply andb_true_iff in Hf as [Hf _]. apply andb_true_iff in Hf as [_ Hf].
    rewrite forallb_forall in Hf.
    assert (Hseen : In v (cs_seen st)) by (eapply check_body_seen; eauto).
    specialize (Hf v Hseen). apply orb_true_iff in Hf as [Hf|Hf].
    + apply andb_true_iff in Hf as [_ Hd]. apply memZ_In in Hd. contradiction.
    + apply Hnb. eapply J_has_value; eauto.
  - apply Hnb. eapply Hn; eauto.
Qed.
