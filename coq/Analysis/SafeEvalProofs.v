(* Analysis/SafeEvalProofs.v - evaluation of an accepted clause never fails for want of a value.
   C01's engine model (Datalog/Solve.v) returns None for every Go error. Here the errors are
   classified: [fn_error] / [value_error] = a function (or a comparison) was applied to GROUND
   arguments and rejected them (wrong type, division by zero, unknown function). The lemmas show
   that for a clause CheckRule accepts every None of solve / emit_head is such an error - never a
   variable without a value inside a function application, comparison, negated atom or the head. *)
From Coq Require Import List ZArith Bool Permutation Lia.
From MV Require Import Datalog.Syntax Datalog.Interp Datalog.Solve Datalog.Lfp Datalog.SolveProofs
  Analysis.RuleCheck Analysis.Declarative Analysis.RuleCheckProofs Analysis.WildcardProofs.
Import ListNotations.
Open Scope Z_scope.

(* a function application inside t whose arguments all evaluate to constants is rejected by
   the interpretation table *)
Inductive fn_error (s : subst) : term -> Prop :=
| fe_here f args cs :
    Forall2 (fun a c => eval_term s a = Some (VConst c)) args cs -> eval_fn f cs = None ->
    fn_error s (TApp f args)
| fe_sub f args a : In a args -> fn_error s a -> fn_error s (TApp f args).

(* the premise p fails under s although nothing lacks a value: a function error in one of its
   terms, or a comparison of two constants that are not both numbers *)
Definition value_error (s : subst) (p : premise) : Prop :=
  (exists t, In t (premise_terms p) /\ fn_error s t) \/
  (exists op l r a b, p = PCmp op l r /\ eval_term s l = Some (VConst a) /\
                      eval_term s r = Some (VConst b) /\ eval_cmp op a b = None).

(* ---- the two hypotheses that exclude the recorded findings N61 / N64 / N65 (clauses CheckRule
   accepts although evaluation needs a value that is not there). Like alias_free they follow the
   states of CheckRule. *)
(* N61: a function application inside a positive atom uses only variables that have a value
   before the atom is evaluated *)
Definition apps_ok (st : cstate) (p : premise) : bool :=
  match p with
  | PAtom a => forallb (fun t => negb (is_app t) || forallb (has_value st) (term_vars t)) (aargs a)
  | _ => true
  end.
Fixpoint apps_ok_body (st : cstate) (origs ps : list premise) : bool :=
  match origs, ps with
  | o :: origs', p :: ps' =>
      apps_ok st p && match check_premise st o p with
                      | Some st' => apps_ok_body st' origs' ps'
                      | None => true
                      end
  | _, _ => true
  end.
Definition atom_apps_bound (c : clause) : bool :=
  apps_ok_body (mkCS [] (atom_vars (chead c)) []) (cbody c) (cbody (replace_wildcards c)).

(* the state of CheckRule after the body *)
Definition final_state (c : clause) : option cstate :=
  check_body (mkCS [] (atom_vars (chead c)) []) (cbody c) (cbody (replace_wildcards c)).

(* N64: a let-statement uses only variables the body gives a value and variables defined by
   EARLIER statements *)
Fixpoint let_ok (avail : Z -> bool) (stmts : list (Z * term)) : bool :=
  match stmts with
  | [] => true
  | (v, t) :: rest =>
      forallb avail (term_vars t)
      && let_ok (fun w => (negb (Z.eqb w wild) && Z.eqb w v) || avail w) rest
  end.
Definition let_ordered (c : clause) : bool :=
  match final_state c with
  | Some st => let_ok (has_value st) (clet c)
  | None => true
  end.
(* N65: a function application in the head uses no variable defined by the transform (the head
   is evaluated before the transform) *)
Definition head_apps_ok (c : clause) : bool :=
  forallb (fun t => negb (is_app t) || forallb (fun v => negb (memZ v (let_defs c))) (term_vars t))
          (aargs (chead c)).

(* ================= terms ================= *)
Lemma eval_consts_F2 s args cs :
  eval_consts s args = Some cs -> Forall2 (fun a c => eval_term s a = Some (VConst c)) args cs.
Proof.
  revert cs. induction args as [|a args IH]; intros cs H; simpl in H.
  - injection H as <-. constructor.
  - destruct (eval_term s a) as [[c|w]|] eqn:E; try discriminate.
    destruct (eval_consts s args) as [cs'|] eqn:E2; [|discriminate]. injection H as <-.
    constructor; auto.
Qed.

Lemma eval_consts_none s args :
  eval_consts s args = None ->
  exists a, In a args /\ (eval_term s a = None \/ exists w, eval_term s a = Some (VVar w)).
Proof.
  induction args as [|a args IH]; intros H; simpl in H; [discriminate|].
  destruct (eval_term s a) as [[c|w]|] eqn:E.
  - destruct (eval_consts s args) as [cs'|] eqn:E2; [discriminate|].
    destruct (IH eq_refl) as (b & Hb & Hc). exists b. split; [right; exact Hb|exact Hc].
  - exists a. split; [left; reflexivity|right; eauto].
  - exists a. split; [left; reflexivity|left; exact E].
Qed.

Lemma eval_term_none s t :
  eval_term s t = None -> (forall v, In v (term_vars t) -> bnd s v) -> fn_error s t.
Proof.
  induction t as [w|d|f args IH] using term_ind2; intros H Hb.
  - simpl in H. discriminate.
  - discriminate.
  - rewrite eval_term_app in H. destruct (eval_consts s args) as [cs|] eqn:E.
    + destruct (eval_fn f cs) eqn:Ef; [discriminate|].
      eapply fe_here; [apply eval_consts_F2; exact E|exact Ef].
    + apply eval_consts_none in E as (a & Ha & [Hn|(w & Hw)]).
      * eapply fe_sub; [exact Ha|]. rewrite Forall_forall in IH. apply IH; auto.
        intros v Hv. apply Hb. simpl. apply in_flat_map. eauto.
      * apply eval_term_var_inv in Hw as [-> Hl]. exfalso.
        assert (Hbw : bnd s w) by (apply Hb; simpl; apply in_flat_map; exists (TVar w); simpl; auto).
        exact (Hbw Hl).
Qed.

Lemma eval_term_bound_cases s t :
  (forall v, In v (term_vars t) -> bnd s v) ->
  (exists c, eval_term s t = Some (VConst c)) \/ fn_error s t.
Proof.
  intros Hb. destruct (eval_term s t) as [[c|w]|] eqn:E.
  - left. eauto.
  - apply eval_term_var_inv in E as [-> Hl]. exfalso. apply (Hb w); simpl; auto.
  - right. apply eval_term_none; auto.
Qed.

Lemma eval_term_none_app s t : eval_term s t = None -> is_app t = true.
Proof. destruct t; simpl; [discriminate|discriminate|reflexivity]. Qed.

Lemma map_opt_none {A B} (f : A -> option B) l :
  map_opt f l = None -> exists a, In a l /\ f a = None.
Proof.
  induction l as [|a l IH]; simpl; [discriminate|].
  destruct (f a) eqn:E; [|intros _; exists a; auto].
  destruct (map_opt f l); [discriminate|]. intros _.
  destruct (IH eq_refl) as (a0 & Hb & Hn). exists a0. auto.
Qed.

Lemma map_opt_some {A B} (f : A -> option B) l :
  (forall a, In a l -> f a <> None) -> exists r, map_opt f l = Some r.
Proof.
  induction l as [|a l IH]; intros H; simpl; [eauto|].
  destruct (f a) eqn:E; [|exfalso; apply (H a); [left; reflexivity|exact E]].
  assert (H' : forall a0, In a0 l -> f a0 <> None) by (intros a0 Hb; apply H; right; exact Hb).
  destruct (IH H') as (r & ->). simpl. eauto.
Qed.

Lemma flat_map_opt_none {A B} (f : A -> option (list B)) l :
  flat_map_opt f l = None -> exists a, In a l /\ f a = None.
Proof.
  induction l as [|a l IH]; simpl; [discriminate|].
  destruct (f a) eqn:E; [|intros _; exists a; auto].
  destruct (flat_map_opt f l); [discriminate|]. intros _.
  destruct (IH eq_refl) as (a0 & Hb & Hn). exists a0. auto.
Qed.

(* ================= one premise ================= *)
Lemma step_pure_eq_none l r s :
  step_pure (PEq l r) s = None ->
  eval_term s l = None \/ eval_term s r = None \/
  exists v w, eval_term s l = Some (VVar v) /\ eval_term s r = Some (VVar w) /\ v <> w.
Proof.
  simpl. destruct (eval_term s l) as [[a|v]|]; destruct (eval_term s r) as [[b|w]|];
    try discriminate; auto.
  destruct (Z.eqb_spec v w); [discriminate|]. intros _. right. right. eauto.
Qed.

Lemma step_pure_ineq_none l r s :
  step_pure (PIneq l r) s = None -> eval_term s l = None \/ eval_term s r = None.
Proof.
  simpl. destruct (eval_term s l) as [[a|v]|]; destruct (eval_term s r) as [[b|w]|];
    try discriminate; auto.
Qed.

Lemma step_pure_cmp_none op l r s :
  step_pure (PCmp op l r) s = None ->
  eval_term s l = None \/ eval_term s r = None \/
  (exists w, eval_term s l = Some (VVar w)) \/ (exists w, eval_term s r = Some (VVar w)) \/
  exists a b, eval_term s l = Some (VConst a) /\ eval_term s r = Some (VConst b) /\ eval_cmp op a b = None.
Proof.
  simpl. destruct (eval_term s l) as [[a|v]|]; destruct (eval_term s r) as [[b|w]|]; eauto 6.
  destruct (eval_cmp op a b) as [[|]|] eqn:E; try discriminate. intros _. do 4 right. eauto.
Qed.

Lemma check_eq_strict st l r st' :
  check_eq st l r = Some st' ->
  (is_app l = true -> subsetZ (term_vars l) (cs_bound st) = true) /\
  (is_app r = true -> subsetZ (term_vars r) (cs_bound st) = true).
Proof.
  intros H.
  destruct l as [x|cl|fl al]; destruct r as [y|cr|fr ar]; split; intros A; try discriminate A;
    unfold check_eq in H; cbn [is_app andb negb] in H;
    repeat match type of H with
           | context [subsetZ ?a ?b] => destruct (subsetZ a b) eqn:?; cbn [negb andb] in H
           end; try discriminate H; try assumption; try reflexivity.
Qed.

Lemma strict_bnd st s t :
  Inv st s -> subsetZ (term_vars t) (cs_bound st) = true -> forall v, In v (term_vars t) -> bnd s v.
Proof. intros [Hb _] H v Hv. apply Hb. eapply subsetZ_In; eauto. Qed.

Lemma check_eq_no_unbound st l r st' s :
  check_eq st l r = Some st' -> alias_ok st (PEq l r) = true -> Inv st s ->
  step_pure (PEq l r) s = None -> value_error s (PEq l r).
Proof.
  intros Hc Ha Hi Hs. destruct (check_eq_strict _ _ _ _ Hc) as [SL SR].
  apply step_pure_eq_none in Hs as [Hn|[Hn|(v & w & Hv & Hw & Hne)]].
  - left. exists l. split; [simpl; auto|]. apply eval_term_none; [exact Hn|].
    eapply strict_bnd; eauto. apply SL. eapply eval_term_none_app; eauto.
  - left. exists r. split; [simpl; auto|]. apply eval_term_none; [exact Hn|].
    eapply strict_bnd; eauto. apply SR. eapply eval_term_none_app; eauto.
  - exfalso. apply eval_term_var_inv in Hv as [-> Hlv]. apply eval_term_var_inv in Hw as [-> Hlw].
    simpl in Ha. destruct Hi as [Hb _].
    apply orb_true_iff in Ha as [Ha|Ha]; apply memZ_In in Ha; apply Hb in Ha; [exact (Ha Hlv)|exact (Ha Hlw)].
Qed.

(* the arguments of a negated atom after wildcard replacement: a bare wildcard became a fresh
   variable (evaluates to itself), every other argument is unchanged and has all its values *)
Lemma neg_args_eval s args0 : forall n,
  (forall t, In t args0 ->
     t = TVar wild \/ (~ In wild (term_vars t) /\ forall v, In v (term_vars t) -> bnd s v)) ->
  eval_args s (snd (rw_terms n args0)) = None ->
  exists t', In t' (snd (rw_terms n args0)) /\ fn_error s t'.
Proof.
  induction args0 as [|a args0 IH]; intros n Hall Hn.
  - simpl in Hn. discriminate.
  - simpl in *. destruct (rw_term n a) as [n1 a'] eqn:E1.
    specialize (IH n1). destruct (rw_terms n1 args0) as [n2 l2] eqn:E2. simpl in *.
    unfold eval_args in *. simpl in Hn.
    destruct (eval_term s a') as [pv|] eqn:Ea.
    + destruct (map_opt (eval_term s) l2) eqn:Em; [discriminate|].
      destruct IH as (t' & Ht & He); auto. exists t'. auto.
    + exists a'. split; [auto|].
      destruct (Hall a (or_introl eq_refl)) as [->|[Hw Hb]].
      * simpl in E1. injection E1 as <- <-. simpl in Ea. discriminate.
      * rewrite (rw_term_nowild a Hw) in E1. injection E1 as <- <-. apply eval_term_none; auto.
Qed.

Lemma step_no_unbound st o p st' n Sneg Spos s :
  check_premise st o p = Some st' -> alias_ok st p = true -> apps_ok st p = true ->
  p = snd (rw_premise n o) -> (forall v, has_value st v = true -> v <> wild) ->
  Inv st s -> step Sneg Spos p s = None -> value_error s p.
Proof.
  intros Hc Ha Hap Hrel Hnw Hi Hs. destruct p as [a|a|l r|l r|op l r].
  - (* positive atom *)
    simpl in Hs. destruct (eval_args s (aargs a)) as [pvs|] eqn:Ea; [discriminate|].
    apply map_opt_none in Ea as (t & Ht & Hn). left. exists t. split; [exact Ht|].
    apply eval_term_none; [exact Hn|]. simpl in Hap. rewrite forallb_forall in Hap.
    specialize (Hap t Ht). rewrite (eval_term_none_app _ _ Hn) in Hap. simpl in Hap.
    rewrite forallb_forall in Hap. intros v Hv. eapply has_value_bnd; eauto.
  - (* negated atom *)
    simpl in Hc. destruct o as [a0|a0|l0 r0|l0 r0|op0 l0 r0]; try discriminate.
    match type of Hc with context [if ?b then _ else _] => destruct b eqn:Eb; [|discriminate] end.
    rewrite forallb_forall in Eb.
    simpl in Hrel. destruct (rw_terms n (aargs a0)) as [n' args'] eqn:Er. simpl in Hrel.
    injection Hrel as ->. simpl in Hs. simpl.
    destruct (eval_args s args') as [pvs|] eqn:Ea; [discriminate|].
    assert (Er' : args' = snd (rw_terms n (aargs a0))) by (rewrite Er; reflexivity). rewrite Er' in Ea.
    destruct (neg_args_eval s (aargs a0) n) as (t' & Ht' & He); [|exact Ea|].
    + intros t Ht.
      assert (Hkeep : t = TVar wild \/
                (fun t => match t with TVar v => negb (Z.eqb v wild) | _ => true end) t = true).
      { destruct t as [v| |]; auto. destruct (Z.eqb_spec v wild) as [->|]; auto. }
      destruct Hkeep as [->|Hk]; [left; reflexivity|right].
      assert (Hvs : forall v, In v (term_vars t) -> has_value st v = true).
      { intros v Hv. apply Eb. unfold terms_vars. apply in_flat_map. exists t. split; [|exact Hv].
        apply filter_In. auto. }
      split.
      * intros Hw. apply (Hnw wild (Hvs _ Hw)). reflexivity.
      * intros v Hv. eapply has_value_bnd; eauto.
    + left. exists t'. split; [|exact He]. simpl. rewrite Er'. exact Ht'.
  - (* equality *)
    simpl in Hc. simpl in Hs. eapply check_eq_no_unbound; eauto.
  - (* inequality *)
    simpl in Hc.
    match type of Hc with context [if ?b then _ else _] => destruct b eqn:Eb; [|discriminate] end.
    rewrite forallb_forall in Eb.
    assert (Hb : forall v, In v (term_vars l ++ term_vars r) -> bnd s v)
      by (intros v Hv; eapply has_value_bnd; eauto).
    change (step_pure (PIneq l r) s = None) in Hs. apply step_pure_ineq_none in Hs as [Hn|Hn].
    + left. exists l. split; [simpl; auto|]. apply eval_term_none; auto. intros v Hv. apply Hb, in_or_app; auto.
    + left. exists r. split; [simpl; auto|]. apply eval_term_none; auto. intros v Hv. apply Hb, in_or_app; auto.
  - (* comparison *)
    simpl in Hc.
    match type of Hc with context [if ?b then _ else _] => destruct b eqn:Eb; [|discriminate] end.
    assert (Hb : forall v, In v (term_vars l ++ term_vars r) -> bnd s v).
    { intros v Hv. destruct Hi as [Hi _]. apply Hi. eapply subsetZ_In; eauto. }
    change (step_pure (PCmp op l r) s = None) in Hs.
    apply step_pure_cmp_none in Hs as [Hn|[Hn|[(w & Hw)|[(w & Hw)|(a & b & Ea & Eb' & Ec)]]]].
    + left. exists l. split; [simpl; auto|]. apply eval_term_none; auto. intros v Hv. apply Hb, in_or_app; auto.
    + left. exists r. split; [simpl; auto|]. apply eval_term_none; auto. intros v Hv. apply Hb, in_or_app; auto.
    + exfalso. apply eval_term_var_inv in Hw as [-> Hl]. apply (Hb w); [simpl; auto|exact Hl].
    + exfalso. apply eval_term_var_inv in Hw as [-> Hl]. apply (Hb w); [apply in_or_app; simpl; auto|exact Hl].
    + right. exists op, l, r, a, b. auto.
Qed.

(* ================= the body ================= *)
Lemma binder_vars_sub p v : In v (binder_vars p) -> In v (premise_vars p).
Proof. destruct p; simpl; tauto. Qed.

Lemma check_body_no_unbound origs : forall ps st st' B Sneg sel k sols0,
  Forall2 (fun o p => exists n, p = snd (rw_premise n o)) origs ps ->
  (forall p, In p ps -> ~ In wild (premise_vars p)) ->
  check_body st origs ps = Some st' -> alias_free_body st origs ps = true ->
  apps_ok_body st origs ps = true ->
  J st B -> ~ In wild B ->
  (forall s, In s sols0 -> Inv st s) ->
  solve Sneg sel k ps sols0 = None ->
  exists j p s0 s, nth_error ps j = Some p /\ In s0 sols0 /\
                   sat (inset Sneg) sel k (firstn j ps) s0 s /\ value_error s p.
Proof.
  induction origs as [|o origs IH]; intros ps st st' B Sneg sel k sols0 HF Hnw Hc Ha Hap HJ HB H0 Hs.
  - inversion HF; subst. simpl in Hs. discriminate.
  - inversion HF as [|o' p origs' ps' (n & Hrel) HF' E1 E2]; subst.
    simpl in Hc. destruct (check_premise st o (snd (rw_premise n o))) as [st1|] eqn:Ec; [|discriminate].
    simpl in Ha. rewrite Ec in Ha. apply andb_true_iff in Ha as [Ha1 Ha2].
    simpl in Hap. rewrite Ec in Hap. apply andb_true_iff in Hap as [Hap1 Hap2].
    simpl in Hs.
    destruct (flat_map_opt (step Sneg (sel k) (snd (rw_premise n o))) sols0) as [sols1|] eqn:Ef.
    + destruct (flat_map_opt_spec _ _ _ Ef) as [_ Hspec].
      destruct (check_premise_J _ _ _ _ _ Ec HJ) as [HJ1 _].
      destruct (IH ps' st1 st' (B ++ binder_vars (snd (rw_premise n o))) Sneg sel (S k) sols1)
        as (j & p & s1 & s & Hn & Hs1 & Hsat & Hve); auto.
      * intros q Hq. apply Hnw. right. exact Hq.
      * intros Hw. apply in_app_or in Hw as [Hw|Hw]; [exact (HB Hw)|].
        apply binder_vars_sub in Hw. apply (Hnw (snd (rw_premise n o))); [left; reflexivity|exact Hw].
      * intros u Hu. apply Hspec in Hu as (s0 & us & Hs0 & Hst & Huus). eapply check_premise_inv; eauto.
      * apply Hspec in Hs1 as (s0 & us & Hs0 & Hst & Huus).
        exists (S j), p, s0, s. simpl. repeat split; auto.
        econstructor; [|exact Hsat]. eapply step_spec; eauto.
    + apply flat_map_opt_none in Ef as (s0 & Hs0 & Hn).
      exists O, (snd (rw_premise n o)), s0, s0. simpl. repeat split; auto; [constructor|].
      eapply step_no_unbound; eauto.
      intros v Hv ->. apply HB. eapply J_has_value; eauto.
Qed.

Lemma replace_wildcards_rel' c :
  Forall2 (fun o p => exists n, p = snd (rw_premise n o)) (cbody c) (cbody (replace_wildcards c)).
Proof.
  pose proof (replace_wildcards_rel c) as H.
  induction H as [|o p l l' (m & _ & ->) _ IH]; constructor; eauto.
Qed.

Lemma accepted_no_unbound_error_lemma cr Sneg sel :
  check cr = true -> alias_free cr = true -> atom_apps_bound cr = true ->
  solve Sneg sel 0 (cbody (replace_wildcards cr)) [[]] = None ->
  exists j p s, nth_error (cbody (replace_wildcards cr)) j = Some p /\
                sat (fun f => In f Sneg) sel 0 (firstn j (cbody (replace_wildcards cr))) [] s /\
                value_error s p.
Proof.
  unfold check, alias_free, atom_apps_bound. intros Hc Ha Hap Hs.
  set (st0 := mkCS [] (atom_vars (chead cr)) []) in *.
  destruct (check_body st0 (cbody cr) (cbody (replace_wildcards cr))) as [st|] eqn:Eb; [|discriminate].
  destruct (check_body_no_unbound (cbody cr) (cbody (replace_wildcards cr)) st0 st [] Sneg sel 0%nat [[]])
    as (j & p & s0 & s & Hn & Hs0 & Hsat & Hve); auto.
  - apply replace_wildcards_rel'.
  - apply replace_wildcards_nowild.
  - split; simpl; intros w [].
  - intros s [<-|[]]. split; simpl; intros w [].
  - destruct Hs0 as [<-|[]]. exists j, p, s. auto.
Qed.

(* ================= the head and the transform ================= *)
Lemma run_let_none stmts : forall s avail,
  (forall v, avail v = true -> bnd s v) -> let_ok avail stmts = true -> run_let s stmts = None ->
  exists j v t s', nth_error stmts j = Some (v, t) /\ run_let s (firstn j stmts) = Some s' /\ fn_error s' t.
Proof.
  induction stmts as [|[v t] rest IH]; intros s avail Hav Hok Hr; simpl in Hr; [discriminate|].
  simpl in Hok. apply andb_true_iff in Hok as [Hok1 Hok2]. rewrite forallb_forall in Hok1.
  destruct (eval_term_bound_cases s t) as [(c & Ec)|He]; [intros w Hw; apply Hav, Hok1, Hw| |].
  - rewrite Ec in Hr.
    assert (Hav' : forall w, (fun w => (negb (Z.eqb w wild) && Z.eqb w v) || avail w) w = true ->
                             bnd ((v, c) :: s) w).
    { intros w Hw. apply orb_true_iff in Hw as [Hw|Hw].
      * apply andb_true_iff in Hw as [_ Hw]. apply Z.eqb_eq in Hw. subst. apply bnd_cons_same.
      * apply ext_cons. apply Hav, Hw. }
    destruct (IH ((v, c) :: s) _ Hav' Hok2 Hr) as (j & v' & t' & s' & Hn & Hrl & Hfe).
    exists (S j), v', t', s'. simpl. rewrite Ec. auto.
  - exists O, v, t, s. simpl. auto.
Qed.

Lemma run_let_some stmts : forall s s',
  run_let s stmts = Some s' -> ext s s' /\ forall v, In v (map fst stmts) -> bnd s' v.
Proof.
  induction stmts as [|[v t] rest IH]; intros s s' H; simpl in H.
  - injection H as <-. split; [apply ext_refl|intros v []].
  - destruct (eval_term s t) as [[c|w]|]; try discriminate.
    destruct (IH _ _ H) as [Hx Hb]. split.
    + eapply ext_trans; [apply ext_cons|exact Hx].
    + intros w [<-|Hw]; [apply Hx, bnd_cons_same|apply Hb, Hw].
Qed.

Lemma emit_head_cases cr st s :
  check_final cr st = true -> Inv st s ->
  (forall v, In v (atom_vars (chead cr)) -> In v (cs_seen st)) ->
  head_apps_ok cr = true -> let_ok (has_value st) (clet cr) = true ->
  (exists f, emit_head cr s = Some f)
  \/ (exists t, In t (aargs (chead cr)) /\ fn_error s t)
  \/ (exists j v t s', nth_error (clet cr) j = Some (v, t) /\
                       run_let s (firstn j (clet cr)) = Some s' /\ fn_error s' t).
Proof.
  intros Hf Hi Hseen Hh Hl.
  unfold check_final in Hf. apply andb_true_iff in Hf as [Hf _]. apply andb_true_iff in Hf as [_ Hf].
  rewrite forallb_forall in Hf.
  assert (Hhv : forall v, In v (atom_vars (chead cr)) -> In v (let_defs cr) \/ bnd s v).
  { intros v Hv. specialize (Hf v (Hseen v Hv)). apply orb_true_iff in Hf as [Hf|Hf].
    - apply andb_true_iff in Hf as [_ Hd]. left. apply memZ_In, Hd.
    - right. eapply has_value_bnd; eauto. }
  unfold emit_head. destruct (eval_args s (aargs (chead cr))) as [pvs|] eqn:Ea.
  - destruct (run_let s (clet cr)) as [s'|] eqn:Er.
    + left. destruct (run_let_some _ _ _ Er) as [Hx Hb].
      destruct (map_opt_some (ground_value s') pvs) as (cs & ->); [|eauto].
      intros pv Hpv. destruct (map_opt_spec _ _ _ Ea) as [_ Hin].
      apply Hin in Hpv as (t & Ht & Hev). destruct pv as [c|w]; simpl; [discriminate|].
      apply eval_term_var_inv in Hev as [-> Hlw].
      assert (Hw : In w (atom_vars (chead cr))).
      { unfold atom_vars, terms_vars. apply in_flat_map. exists (TVar w). simpl. auto. }
      destruct (Hhv w Hw) as [Hd|Hbw].
      * apply Hb. unfold let_defs in Hd. apply filter_In in Hd as [Hd _]. exact Hd.
      * apply Hx, Hbw.
    + right. right. eapply run_let_none; eauto. intros v Hv. eapply has_value_bnd; eauto.
  - right. left. apply map_opt_none in Ea as (t & Ht & Hn). exists t. split; [exact Ht|].
    apply eval_term_none; [exact Hn|]. intros v Hv.
    unfold head_apps_ok in Hh. rewrite forallb_forall in Hh. specialize (Hh t Ht).
    rewrite (eval_term_none_app _ _ Hn) in Hh. simpl in Hh. rewrite forallb_forall in Hh.
    specialize (Hh v Hv). apply negb_true_iff in Hh.
    assert (Hw : In v (atom_vars (chead cr))).
    { unfold atom_vars, terms_vars. apply in_flat_map. eauto. }
    destruct (Hhv v Hw) as [Hd|Hbv]; [|exact Hbv].
    apply memZ_In in Hd. congruence.
Qed.

Lemma accepted_final cr Sneg sel sols :
  check cr = true -> alias_free cr = true ->
  solve Sneg sel 0 (cbody (replace_wildcards cr)) [[]] = Some sols ->
  exists st, final_state cr = Some st /\ check_final cr st = true /\
             (forall s, In s sols -> Inv st s) /\
             (forall v, In v (atom_vars (chead cr)) -> In v (cs_seen st)).
Proof.
  unfold check, alias_free, final_state. intros Hc Ha Hs.
  set (st0 := mkCS [] (atom_vars (chead cr)) []) in *.
  destruct (check_body st0 (cbody cr) (cbody (replace_wildcards cr))) as [st|] eqn:Eb; [|discriminate].
  apply andb_true_iff in Hc as [Hf _]. exists st. split; [reflexivity|]. split; [exact Hf|]. split.
  - assert (Hlen : length (cbody cr) = length (cbody (replace_wildcards cr)))
      by (simpl; symmetry; apply rw_body_length).
    assert (H0 : forall s0 : subst, In s0 [[]] -> Inv st0 s0)
      by (intros s0 [<-|[]]; split; simpl; intros w []).
    exact (check_body_inv (cbody cr) _ st0 st Sneg sel 0%nat [[]] sols Hlen Eb Ha H0 Hs).
  - intros v Hv. eapply check_body_seen; eauto.
Qed.

Lemma accepted_head_ground_lemma cr Sneg sel sols :
  check cr = true -> alias_free cr = true -> head_apps_ok cr = true -> let_ordered cr = true ->
  solve Sneg sel 0 (cbody (replace_wildcards cr)) [[]] = Some sols ->
  forall s, In s sols ->
  (exists f, emit_head cr s = Some f)
  \/ (exists t, In t (aargs (chead cr)) /\ fn_error s t)
  \/ (exists j v t s', nth_error (clet cr) j = Some (v, t) /\
                       run_let s (firstn j (clet cr)) = Some s' /\ fn_error s' t).
Proof.
  intros Hc Ha Hh Hl Hs s Hin.
  destruct (accepted_final cr Sneg sel sols Hc Ha Hs) as (st & Hfs & Hf & Hi & Hseen).
  unfold let_ordered in Hl. rewrite Hfs in Hl.
  eapply emit_head_cases; eauto.
Qed.

(* ================= the whole clause ================= *)
Lemma emit_head_replace cr s : emit_head (replace_wildcards cr) s = emit_head cr s.
Proof. reflexivity. Qed.

Lemma accepted_eval_no_unbound_error_lemma cr Sneg sel :
  check cr = true -> alias_free cr = true -> atom_apps_bound cr = true ->
  head_apps_ok cr = true -> let_ordered cr = true ->
  eval_clause Sneg sel (replace_wildcards cr) = None ->
  (exists j p s, nth_error (cbody (replace_wildcards cr)) j = Some p /\
                 sat (fun f => In f Sneg) sel 0 (firstn j (cbody (replace_wildcards cr))) [] s /\
                 value_error s p)
  \/ (exists s, sat (fun f => In f Sneg) sel 0 (cbody (replace_wildcards cr)) [] s /\
        ((exists t, In t (aargs (chead cr)) /\ fn_error s t)
         \/ (exists j v t s', nth_error (clet cr) j = Some (v, t) /\
                              run_let s (firstn j (clet cr)) = Some s' /\ fn_error s' t))).
Proof.
  intros Hc Ha Hap Hh Hl He. unfold eval_clause in He.
  destruct (solve Sneg sel 0 (cbody (replace_wildcards cr)) [[]]) as [sols|] eqn:Hs.
  - right. apply map_opt_none in He as (s & Hin & Hn). rewrite emit_head_replace in Hn.
    exists s. split.
    + apply (solve_spec _ _ _ _ _ _ Hs) in Hin as (s0 & [<-|[]] & Hsat). exact Hsat.
    + destruct (accepted_head_ground_lemma cr Sneg sel sols Hc Ha Hh Hl Hs s Hin) as [(f & Hf)|H];
        [congruence|exact H].
  - left. apply accepted_no_unbound_error_lemma; auto.
Qed.
