(* Analysis/RuleCheck.v - model of the per-clause part of analysis for the clause
   fragment of Datalog/Syntax.v (no declarations, hence no modes; no temporal literals;
   let-transforms only):
     rewrite            analysis.RewriteClause   (analysis/rewriteclause.go:36), after fixes F3a-c
     rewrite_prefix     the same function before the fixes (for the refutation witnesses)
     replace_wildcards  ast.Clause.ReplaceWildcards (ast/ast.go:1307)
     check              Analyzer.CheckRule       (analysis/rulecheck.go:55), after fixes F3/N19
   The wildcard "_" is the variable [wild] (in Go it is ast.Variable{"_"}); clauses given to
   [rewrite] and [check] still contain it, CheckRule replaces every occurrence in the body
   by a fresh variable first.
   No proofs in this file. *)
From Coq Require Import List ZArith Bool.
From MV Require Import Datalog.Syntax.
Import ListNotations.
Open Scope Z_scope.

Definition wild : Z := -1.

(* ---- ast.AddVars (ast/ast.go:1405); order is irrelevant (Go collects into a map) *)
Fixpoint term_vars (t : term) : list Z :=
  match t with
  | TVar v => [v]
  | TConst _ => []
  | TApp _ args => flat_map term_vars args
  end.
Definition terms_vars (ts : list term) : list Z := flat_map term_vars ts.
Definition atom_vars (a : atom) : list Z := terms_vars (aargs a).
Definition premise_vars (p : premise) : list Z :=
  match p with
  | PAtom a | PNeg a => atom_vars a
  | PEq l r | PIneq l r | PCmp _ l r => term_vars l ++ term_vars r
  end.

Definition subsetZ (a b : list Z) : bool := forallb (fun v => memZ v b) a.

(* ================= RewriteClause ================= *)
(* the local boundVars of RewriteClause: every variable of a positive atom (built-in
   comparison atoms included: they are ast.Atom too) and of an equality counts as bound *)
Definition rw_bound_after (bv : list Z) (p : premise) : list Z :=
  match p with
  | PAtom _ | PCmp _ _ _ | PEq _ _ => premise_vars p ++ bv
  | PNeg _ | PIneq _ _ => bv
  end.

(* varToBind of a negated atom: its variables not bound yet; the wildcard never delays (fix F3a) *)
Definition neg_to_bind (bv : list Z) (a : atom) : list Z :=
  filter (fun v => negb (Z.eqb v wild) && negb (memZ v bv)) (atom_vars a).

Definition dready (bv : list Z) (d : atom * list Z) : bool := subsetZ (snd d) bv.
Definition is_nil {A} (l : list A) : bool := match l with [] => true | _ => false end.

(* the premise loop :50-117. delayed = delayNegAtom/delayVars. A premise that is not
   delayed is emitted, followed by every delayed atom that has become ready (in delay
   order, fix F3c: the others stay delayed); what is still delayed at the end is appended
   (fix F3b) so that [check] sees it. *)
Fixpoint rewrite_go (bv : list Z) (delayed : list (atom * list Z)) (body : list premise) : list premise :=
  match body with
  | [] => map (fun d => PNeg (fst d)) delayed
  | p :: rest =>
      let tb := match p with PNeg a => neg_to_bind bv a | _ => [] end in
      match p, is_nil tb with
      | PNeg a, false => rewrite_go bv (delayed ++ [(a, tb)]) rest
      | _, _ =>
          let bv' := rw_bound_after bv p in
          p :: map (fun d => PNeg (fst d)) (filter (dready bv') delayed)
            ++ rewrite_go bv' (filter (fun d => negb (dready bv' d)) delayed) rest
      end
  end.

Definition rewrite (c : clause) : clause :=
  match cbody c with
  | [] => c
  | b => mkClause (chead c) (rewrite_go [] [] b) (clet c)
  end.

(* ---- before the fixes: the wildcard delays like a named variable (F3a), the indices
   collected in toRemove are not used - the loop "for i := range toRemove" removes the
   positions 0,1,.. of the delay list (F3c), and what is still delayed at the end is
   dropped (F3b). *)
Definition neg_to_bind_prefix (bv : list Z) (a : atom) : list Z :=
  filter (fun v => negb (memZ v bv)) (atom_vars a).
Definition remove_at {A} (i : nat) (l : list A) : list A := firstn i l ++ skipn (S i) l.
Fixpoint remove_positions {A} (n : nat) (i : nat) (l : list A) : list A :=
  match n with
  | O => l
  | S n' => remove_positions n' (S i) (remove_at i l)
  end.

Fixpoint rewrite_go_prefix (bv : list Z) (delayed : list (atom * list Z)) (body : list premise) : list premise :=
  match body with
  | [] => []
  | p :: rest =>
      let tb := match p with PNeg a => neg_to_bind_prefix bv a | _ => [] end in
      match p, is_nil tb with
      | PNeg a, false => rewrite_go_prefix bv (delayed ++ [(a, tb)]) rest
      | _, _ =>
          let bv' := rw_bound_after bv p in
          let ready := filter (dready bv') delayed in
          p :: map (fun d => PNeg (fst d)) ready
            ++ rewrite_go_prefix bv' (remove_positions (length ready) 0 delayed) rest
      end
  end.

Definition rewrite_prefix (c : clause) : clause :=
  match cbody c with
  | [] => c
  | b => mkClause (chead c) (rewrite_go_prefix [] [] b) (clet c)
  end.

(* ================= ReplaceWildcards ================= *)
(* every occurrence of the wildcard in the body gets its own fresh variable n, n+1, ...
   (Go: X0, X1, ... skipping used names); the head and the transform are left alone *)
Fixpoint rw_term (n : Z) (t : term) : Z * term :=
  match t with
  | TVar v => if Z.eqb v wild then (n + 1, TVar n) else (n, t)
  | TConst _ => (n, t)
  | TApp f args =>
      let r := (fix go (n : Z) (l : list term) : Z * list term :=
                  match l with
                  | [] => (n, [])
                  | a :: l' => let (n1, a') := rw_term n a in
                               let (n2, l'') := go n1 l' in (n2, a' :: l'')
                  end) n args in
      (fst r, TApp f (snd r))
  end.
Fixpoint rw_terms (n : Z) (l : list term) : Z * list term :=
  match l with
  | [] => (n, [])
  | a :: l' => let (n1, a') := rw_term n a in
               let (n2, l'') := rw_terms n1 l' in (n2, a' :: l'')
  end.
Definition rw_premise (n : Z) (p : premise) : Z * premise :=
  match p with
  | PAtom a => let (n', args) := rw_terms n (aargs a) in (n', PAtom (mkAtom (apred a) args))
  | PNeg a => let (n', args) := rw_terms n (aargs a) in (n', PNeg (mkAtom (apred a) args))
  | PEq l r => let (n1, l') := rw_term n l in let (n2, r') := rw_term n1 r in (n2, PEq l' r')
  | PIneq l r => let (n1, l') := rw_term n l in let (n2, r') := rw_term n1 r in (n2, PIneq l' r')
  | PCmp op l r => let (n1, l') := rw_term n l in let (n2, r') := rw_term n1 r in (n2, PCmp op l' r')
  end.
Fixpoint rw_body (n : Z) (b : list premise) : list premise :=
  match b with
  | [] => []
  | p :: b' => let (n', p') := rw_premise n p in p' :: rw_body n' b'
  end.

Definition let_vars (c : clause) : list Z :=
  map fst (clet c) ++ flat_map (fun vt => term_vars (snd vt)) (clet c).
Definition clause_vars (c : clause) : list Z :=
  atom_vars (chead c) ++ flat_map premise_vars (cbody c) ++ let_vars c.
Definition fresh_base (c : clause) : Z := 1 + fold_right Z.max 0 (clause_vars c).

Definition replace_wildcards (c : clause) : clause :=
  mkClause (chead c) (rw_body (fresh_base c) (cbody c)) (clet c).

(* ================= CheckRule ================= *)
(* the union-find of CheckRule only ever receives variable = variable equalities
   (rulecheck.go "if l is Variable and r is Variable"). It is kept as the list
   variable -> root. unionfind.union(xroot, yroot) makes yroot the root of the merged class. *)
Definition ufmap := list (Z * Z).
Fixpoint uf_find (u : ufmap) (v : Z) : option Z :=
  match u with
  | [] => None
  | (w, r) :: u' => if Z.eqb v w then Some r else uf_find u' v
  end.
Definition uf_get (u : ufmap) (v : Z) : Z := match uf_find u v with Some r => r | None => v end.
Definition uf_ensure (u : ufmap) (v : Z) : ufmap := match uf_find u v with Some _ => u | None => (v, v) :: u end.
Definition uf_union (u : ufmap) (x y : Z) : ufmap :=
  let u1 := uf_ensure (uf_ensure u x) y in
  let rx := uf_get u1 x in
  let ry := uf_get u1 y in
  if Z.eqb rx ry then u1 else map (fun vr => (fst vr, if Z.eqb (snd vr) rx then ry else snd vr)) u1.

Record cstate := mkCS { cs_bound : list Z; cs_seen : list Z; cs_uf : ufmap }.

(* hasValue (added by fix F3): bound, or unified with a bound variable *)
Definition has_value (st : cstate) (v : Z) : bool :=
  memZ v (cs_bound st) || memZ (uf_get (cs_uf st) v) (cs_bound st).

Definition is_const (t : term) : bool := match t with TConst _ => true | _ => false end.
Definition is_app (t : term) : bool := match t with TApp _ _ => true | _ => false end.
Definition bind (st : cstate) (vs : list Z) : cstate := mkCS (vs ++ cs_bound st) (cs_seen st) (cs_uf st).
Definition see (st : cstate) (vs : list Z) : cstate := mkCS (cs_bound st) (vs ++ cs_seen st) (cs_uf st).

(* the Eq case :157-205, with its fall-through structure *)
Definition check_eq (st : cstate) (l r : term) : option cstate :=
  match l, r with
  | TConst _, TVar v => Some (bind st [v])
  | TVar v, TConst _ => Some (bind st [v])
  | _, _ =>
      let strict t := subsetZ (term_vars t) (cs_bound st) in
      if is_app l && negb (strict l) then None
      else match is_app l, r with
      | true, TVar v => Some (bind st [v])
      | _, _ =>
          if is_app r && negb (strict r) then None
          else match is_app r, l with
          | true, TVar v => Some (bind st [v])
          | _, _ =>
              match l, r with
              | TVar x, TVar y => Some (mkCS (cs_bound st) (cs_seen st) (uf_union (cs_uf st) x y))
              | _, _ => Some st
              end
          end
      end
  end.

(* one premise; orig = the same premise before ReplaceWildcards. None = CheckRule returns an error *)
Definition check_premise (st : cstate) (orig p : premise) : option cstate :=
  match p with
  | PAtom a => Some (bind (see st (premise_vars p)) (atom_vars a))
  | PCmp _ l r =>
      (* built-in with mode (+,+): Mode.Check, then every variable must be bound *)
      if subsetZ (premise_vars p) (cs_bound st) then Some (see st (premise_vars p)) else None
  | PEq l r => check_eq (see st (premise_vars p)) l r
  | PIneq l r =>
      (* fix N19: every variable needs a value here *)
      if forallb (has_value st) (premise_vars p) then Some (see st (premise_vars p)) else None
  | PNeg _ =>
      (* fix F3: wildcard arguments are skipped (read existentially), every other
         variable needs a value here; only those are recorded as seen *)
      match orig with
      | PNeg a =>
          let args := filter (fun t => match t with TVar v => negb (Z.eqb v wild) | _ => true end) (aargs a) in
          let vs := terms_vars args in
          if forallb (has_value st) vs then Some (see st vs) else None
      | _ => None
      end
  end.

Fixpoint check_body (st : cstate) (origs ps : list premise) : option cstate :=
  match origs, ps with
  | o :: origs', p :: ps' =>
      match check_premise st o p with
      | Some st' => check_body st' origs' ps'
      | None => None
      end
  | _, _ => Some st
  end.

(* the final part :210-256 *)
Definition let_defs (c : clause) : list Z := filter (fun v => negb (Z.eqb v wild)) (map fst (clet c)).
Definition let_uses (c : clause) : list Z := flat_map (fun vt => term_vars (snd vt)) (clet c).

Definition check_final (c : clause) (st : cstate) : bool :=
  let defs := let_defs c in
  let hv := atom_vars (chead c) in
  forallb (fun v => negb (memZ v (cs_bound st))) defs
  && forallb (fun v => (memZ v hv && memZ v defs) || has_value st v) (cs_seen st)
  && forallb (fun v => memZ v (cs_seen st) || memZ v defs) (let_uses c).

(* CheckRule on a clause (normally the result of [rewrite]); a let-transform needs a body *)
Definition check (c : clause) : bool :=
  let c' := replace_wildcards c in
  match check_body (mkCS [] (atom_vars (chead c)) []) (cbody c) (cbody c') with
  | None => false
  | Some st => check_final c st && negb (is_nil (cbody c) && negb (is_nil (clet c)))
  end.

(* ---- CheckRule before fixes F3/N19: negated atoms and inequalities are only "seen" *)
Definition check_premise_prefix (st : cstate) (p : premise) : option cstate :=
  match p with
  | PNeg _ | PIneq _ _ => Some (see st (premise_vars p))
  | _ => check_premise st p p
  end.
Fixpoint check_body_prefix (st : cstate) (ps : list premise) : option cstate :=
  match ps with
  | [] => Some st
  | p :: ps' => match check_premise_prefix st p with
                | Some st' => check_body_prefix st' ps'
                | None => None
                end
  end.
Definition check_prefix (c : clause) : bool :=
  let c' := replace_wildcards c in
  match check_body_prefix (mkCS [] (atom_vars (chead c)) []) (cbody c') with
  | None => false
  | Some st => check_final c st && negb (is_nil (cbody c) && negb (is_nil (clet c)))
  end.

(* ---- not part of the Go code: clauses on which C01's engine model (Datalog/Solve.v) is
   exact. That model has no variable-variable aliasing: "X = Y" with neither side bound is
   an error there, while the Go engine unifies the two variables. alias_free c = every
   variable = variable equality of c has a side that CheckRule counts as bound at that point. *)
Definition alias_ok (st : cstate) (p : premise) : bool :=
  match p with
  | PEq (TVar x) (TVar y) => memZ x (cs_bound st) || memZ y (cs_bound st)
  | _ => true
  end.
Fixpoint alias_free_body (st : cstate) (origs ps : list premise) : bool :=
  match origs, ps with
  | o :: origs', p :: ps' =>
      alias_ok st p && match check_premise st o p with
                       | Some st' => alias_free_body st' origs' ps'
                       | None => true
                       end
  | _, _ => true
  end.
Definition alias_free (c : clause) : bool :=
  alias_free_body (mkCS [] (atom_vars (chead c)) []) (cbody c) (cbody (replace_wildcards c)).

(* analysis of one clause: validation.go:306-321 *)
Definition accepted (c : clause) : bool := check (rewrite c).
Definition accepted_prefix (c : clause) : bool := check_prefix (rewrite_prefix c).
