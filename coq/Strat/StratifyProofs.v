(* Proofs about Strat/Stratify.v: reachability is decided, the observer is exact,
   neg_cycle is exact, a valid layering exists iff there is no negative cycle, the
   reference produces one. *)
From Coq Require Import List ZArith Bool Arith Lia Sorted.
From MV Require Import Strat.DepGraph Strat.Stratify.
Import ListNotations.
Open Scope nat_scope.

(* ------------------------------------------------------------ specification *)
Inductive path (g : graph) : pred -> pred -> Prop :=
| path_refl : forall u, path g u u
| path_step : forall u v w b, In (u, v, b) (arcs g) -> path g v w -> path g u w.

Definition in_layer (layers : list (list pred)) (i : nat) (p : pred) : Prop :=
  exists l, nth_error layers i = Some l /\ In p l.

Definition valid_layering (g : graph) (layers : list (list pred)) (m : list (pred * nat)) : Prop :=
  (forall p, In p (nodes g) -> exists i, in_layer layers i p) /\
  (forall p i j, in_layer layers i p -> in_layer layers j p -> i = j) /\
  (forall p i, in_layer layers i p -> In p (nodes g)) /\
  (forall p i, In (p, i) m <-> in_layer layers i p) /\
  (forall u v b i j, In (u, v, b) (arcs g) -> in_layer layers i u -> in_layer layers j v ->
                     j <= i /\ (b = true -> j < i)) /\
  (forall u v i j, in_layer layers i u -> in_layer layers j v ->
                   (i = j <-> path g u v /\ path g v u)).

(* ------------------------------------------------------------------- basics *)
Lemma memb_In x l : memb x l = true <-> In x l.
Proof.
  unfold memb. rewrite existsb_exists. split.
  - intros [y [Hy He]]. apply Z.eqb_eq in He. subst. exact Hy.
  - intros H. exists x. split; [exact H | apply Z.eqb_refl].
Qed.

Lemma memb_false x l : memb x l = false <-> ~ In x l.
Proof.
  rewrite <- memb_In. destruct (memb x l); split; intro H; try congruence; try tauto.
Qed.

Lemma path_trans g u v w : path g u v -> path g v w -> path g u w.
Proof. induction 1; intros; eauto using path. Qed.

Lemma path_arc g u v b : In (u, v, b) (arcs g) -> path g u v.
Proof. intros. eapply path_step; eauto using path. Qed.

Lemma arc_nodes g u v b : In (u, v, b) (arcs g) -> In u (nodes g) /\ In v (nodes g).
Proof.
  intros H. unfold nodes. split; apply in_or_app; right; apply in_flat_map;
    exists (u, v, b); simpl; auto.
Qed.

Lemma succs_In g u v : In v (succs g u) <-> exists b, In (u, v, b) (arcs g).
Proof.
  unfold succs. rewrite in_map_iff. split.
  - intros [[[a c] b] [He Hf]]. apply filter_In in Hf. destruct Hf as [Hin Heq].
    simpl in *. apply Z.eqb_eq in Heq. subst. exists b. exact Hin.
  - intros [b Hb]. exists (u, v, b). split; [reflexivity|]. apply filter_In. split; [exact Hb|].
    simpl. apply Z.eqb_refl.
Qed.

(* add_new *)
Lemma add_new_In cs : forall seen x, In x (add_new seen cs) <-> In x seen \/ In x cs.
Proof.
  induction cs as [|c cs IH]; intros seen x; simpl.
  - tauto.
  - destruct (memb c seen) eqn:E.
    + rewrite IH. apply memb_In in E. split; [tauto|]. intros [H|[H|H]]; subst; auto.
    + rewrite IH. simpl. tauto.
Qed.

Lemma add_new_nodup cs : forall seen, NoDup seen -> NoDup (add_new seen cs).
Proof.
  induction cs as [|c cs IH]; intros seen Hnd; simpl; auto.
  destruct (memb c seen) eqn:E; auto.
  apply IH. constructor; auto. apply memb_false; exact E.
Qed.

Lemma add_new_len cs : forall seen, length seen <= length (add_new seen cs).
Proof.
  induction cs as [|c cs IH]; intros seen; simpl; auto.
  destruct (memb c seen); auto. specialize (IH (c :: seen)). simpl in IH. lia.
Qed.

Lemma add_new_len_eq cs : forall seen, length (add_new seen cs) = length seen ->
  forall x, In x cs -> In x seen.
Proof.
  induction cs as [|c cs IH]; intros seen Hlen x Hx; simpl in *.
  - tauto.
  - destruct (memb c seen) eqn:E.
    + destruct Hx as [Hx|Hx]; [subst; apply memb_In; exact E | eauto].
    + exfalso. pose proof (add_new_len cs (c :: seen)) as Hl. simpl in Hl. lia.
Qed.

(* ------------------------------------------------------------- reachability *)
Lemma closure_sound g u : forall fuel seen s,
  (forall x, In x seen -> path g u x) -> closure fuel g seen = Some s ->
  forall x, In x s -> path g u x.
Proof.
  induction fuel as [|f IH]; intros seen s Hseen Hc x Hx; simpl in Hc; [discriminate|].
  destruct (length (add_new seen (flat_map (succs g) seen)) =? length seen) eqn:E.
  - inversion Hc; subst. auto.
  - eapply IH; [| exact Hc | exact Hx].
    intros y Hy. apply add_new_In in Hy. destruct Hy as [Hy|Hy]; auto.
    apply in_flat_map in Hy. destruct Hy as [z [Hz Hzy]].
    apply succs_In in Hzy. destruct Hzy as [b Hb].
    eapply path_trans; [apply Hseen; exact Hz | eapply path_arc; exact Hb].
Qed.

Lemma closure_closed g : forall fuel seen s, closure fuel g seen = Some s ->
  incl seen s /\ (forall x y b, In x s -> In (x, y, b) (arcs g) -> In y s).
Proof.
  induction fuel as [|f IH]; intros seen s Hc; simpl in Hc; [discriminate|].
  destruct (length (add_new seen (flat_map (succs g) seen)) =? length seen) eqn:E.
  - inversion Hc; subst. split; [apply incl_refl|].
    intros x y b Hx Hb. apply Nat.eqb_eq in E.
    eapply add_new_len_eq; [exact E|]. apply in_flat_map. exists x. split; auto.
    apply succs_In. eauto.
  - apply IH in Hc. destruct Hc as [Hi Hcl]. split; auto.
    intros x Hx. apply Hi. apply add_new_In. auto.
Qed.

Lemma closure_fuel g U : (forall x y b, In x U -> In (x, y, b) (arcs g) -> In y U) ->
  forall fuel seen, NoDup seen -> incl seen U -> length U < fuel + length seen ->
  closure fuel g seen <> None.
Proof.
  intros HU. induction fuel as [|f IH]; intros seen Hnd Hincl Hlen; simpl.
  - pose proof (NoDup_incl_length Hnd Hincl). lia.
  - destruct (length (add_new seen (flat_map (succs g) seen)) =? length seen) eqn:E; [discriminate|].
    apply IH.
    + apply add_new_nodup; exact Hnd.
    + intros x Hx. apply add_new_In in Hx. destruct Hx as [Hx|Hx]; auto.
      apply in_flat_map in Hx. destruct Hx as [z [Hz Hzx]]. apply succs_In in Hzx.
      destruct Hzx as [b Hb]. eapply HU; [apply Hincl; exact Hz | exact Hb].
    + apply Nat.eqb_neq in E. pose proof (add_new_len (flat_map (succs g) seen) seen). lia.
Qed.

Lemma reach_list_some g u : exists s, closure (S (S (length (nodes g)))) g [u] = Some s.
Proof.
  destruct (closure (S (S (length (nodes g)))) g [u]) eqn:E; eauto.
  exfalso. revert E. apply closure_fuel with (U := u :: nodes g).
  - intros x y b _ Hb. right. apply arc_nodes in Hb. tauto.
  - constructor; [simpl; tauto | constructor].
  - intros x [Hx|[]]. subst. left. reflexivity.
  - simpl. lia.
Qed.

Lemma reach_list_exact g u v : In v (reach_list g u) <-> path g u v.
Proof.
  unfold reach_list. destruct (reach_list_some g u) as [s Hs]. rewrite Hs. split.
  - eapply closure_sound; [| exact Hs]. intros x [Hx|[]]. subst. constructor.
  - intros Hp. apply closure_closed in Hs. destruct Hs as [Hi Hcl].
    assert (Hu : In u s) by (apply Hi; left; reflexivity).
    clear Hi. induction Hp; eauto.
Qed.

Lemma reach_exact g u v : reach g u v = true <-> path g u v.
Proof. unfold reach. rewrite memb_In. apply reach_list_exact. Qed.

Lemma reach_false g u v : reach g u v = false <-> ~ path g u v.
Proof.
  rewrite <- reach_exact. destruct (reach g u v); split; intro H; try congruence; try tauto.
Qed.

Lemma mutual_exact g u v : mutual g u v = true <-> path g u v /\ path g v u.
Proof. unfold mutual. rewrite andb_true_iff, !reach_exact. tauto. Qed.

(* ---------------------------------------------------------------- neg_cycle *)
Lemma neg_cycle_exact g :
  neg_cycle g = true <-> exists u v, In (u, v, true) (arcs g) /\ path g v u.
Proof.
  unfold neg_cycle. rewrite existsb_exists. split.
  - intros [[[u v] b] [Hin H]]. simpl in H. apply andb_true_iff in H. destruct H as [Hb Hr].
    subst. exists u, v. split; [exact Hin | apply reach_exact; exact Hr].
  - intros [u [v [Hin Hp]]]. exists (u, v, true). split; [exact Hin|]. simpl.
    apply reach_exact. exact Hp.
Qed.

Lemma neg_cycle_false g : neg_cycle g = false ->
  forall u v, In (u, v, true) (arcs g) -> ~ path g v u.
Proof.
  intros H u v Hin Hp. assert (neg_cycle g = true) by (apply neg_cycle_exact; eauto). congruence.
Qed.

(* ----------------------------------------------------------------- observer *)
Lemma unodes_In g p : In p (unodes g) <-> In p (nodes g).
Proof. unfold unodes. rewrite add_new_In. simpl. tauto. Qed.

Lemma in_layer_0 l ls p : in_layer (l :: ls) 0 p <-> In p l.
Proof.
  unfold in_layer. simpl. split.
  - intros [l' [H Hin]]. inversion H; subst. exact Hin.
  - intros H. eauto.
Qed.

Lemma in_layer_S l ls i p : in_layer (l :: ls) (S i) p <-> in_layer ls i p.
Proof. unfold in_layer. simpl. tauto. Qed.

Lemma in_layer_0_fwd l ls p : in_layer (l :: ls) 0 p -> In p l.
Proof. apply in_layer_0. Qed.
Lemma in_layer_0_bwd l ls p : In p l -> in_layer (l :: ls) 0 p.
Proof. apply in_layer_0. Qed.
Lemma in_layer_S_fwd l ls i p : in_layer (l :: ls) (S i) p -> in_layer ls i p.
Proof. apply in_layer_S. Qed.
Lemma in_layer_S_bwd l ls i p : in_layer ls i p -> in_layer (l :: ls) (S i) p.
Proof. apply in_layer_S. Qed.

Lemma lidx_sound layers : forall p i, lidx layers p = Some i -> in_layer layers i p.
Proof.
  induction layers as [|l ls IH]; intros p i H; simpl in H; [discriminate|].
  destruct (memb p l) eqn:E.
  - inversion H; subst. apply in_layer_0_bwd. apply memb_In. exact E.
  - destruct (lidx ls p) eqn:E2; simpl in H; [|discriminate].
    inversion H; subst. apply in_layer_S_bwd. apply IH. exact E2.
Qed.

Lemma lidx_complete layers : forall p i, in_layer layers i p -> exists j, lidx layers p = Some j.
Proof.
  induction layers as [|l ls IH]; intros p i H.
  - destruct H as [l [H _]]. destruct i; discriminate.
  - simpl. destruct (memb p l) eqn:E; [eauto|].
    destruct i.
    + apply in_layer_0_fwd in H. apply memb_In in H. congruence.
    + apply in_layer_S_fwd in H. destruct (IH _ _ H) as [j Hj]. rewrite Hj. simpl. eauto.
Qed.

Lemma count_zero layers p : count_layers layers p = 0 <-> forall i, ~ in_layer layers i p.
Proof.
  unfold count_layers. induction layers as [|l ls IH]; simpl.
  - split; auto. intros _ i [l [H _]]. destruct i; discriminate.
  - destruct (memb p l) eqn:E; simpl.
    + split; [discriminate|]. intros H. exfalso. apply (H 0). apply in_layer_0_bwd. apply memb_In. exact E.
    + rewrite IH. split.
      * intros H [|i] Hi; [apply in_layer_0_fwd in Hi; apply memb_In in Hi; congruence|].
        apply in_layer_S_fwd in Hi. eapply H; eauto.
      * intros H i Hi. apply (H (S i)). apply in_layer_S_bwd. exact Hi.
Qed.

Lemma count_one layers p : count_layers layers p = 1 <->
  (exists i, in_layer layers i p) /\ (forall i j, in_layer layers i p -> in_layer layers j p -> i = j).
Proof.
  induction layers as [|l ls IH].
  - unfold count_layers. simpl. split; [discriminate|]. intros [[i [l [H _]]] _]. destruct i; discriminate.
  - assert (Hc : count_layers (l :: ls) p = (if memb p l then 1 else 0) + count_layers ls p).
    { unfold count_layers. simpl. destruct (memb p l); reflexivity. }
    rewrite Hc. destruct (memb p l) eqn:E.
    + assert (H0 : in_layer (l :: ls) 0 p) by (apply in_layer_0_bwd; apply memb_In; exact E).
      split.
      * intros H. assert (Hz : count_layers ls p = 0) by lia. rewrite count_zero in Hz.
        split; [eauto|]. intros [|i] [|j] Hi Hj; auto.
        -- apply in_layer_S_fwd in Hj. exfalso. eapply Hz; eauto.
        -- apply in_layer_S_fwd in Hi. exfalso. eapply Hz; eauto.
        -- apply in_layer_S_fwd in Hi. exfalso. eapply Hz; eauto.
      * intros [_ Hu]. assert (Hz : count_layers ls p = 0).
        { apply count_zero. intros i Hi. apply (in_layer_S_bwd l) in Hi.
          specialize (Hu _ _ H0 Hi). discriminate. }
        lia.
    + simpl. rewrite IH. split.
      * intros [[i Hi] Hu]. split.
        -- exists (S i). apply in_layer_S_bwd. exact Hi.
        -- intros [|a] [|b] Ha Hb.
           ++ reflexivity.
           ++ apply in_layer_0_fwd in Ha. apply memb_In in Ha. congruence.
           ++ apply in_layer_0_fwd in Hb. apply memb_In in Hb. congruence.
           ++ apply in_layer_S_fwd in Ha. apply in_layer_S_fwd in Hb. f_equal. eauto.
      * intros [[i Hi] Hu]. split.
        -- destruct i; [apply in_layer_0_fwd in Hi; apply memb_In in Hi; congruence|].
           apply in_layer_S_fwd in Hi. eauto.
        -- intros a b Ha Hb. apply (in_layer_S_bwd l) in Ha. apply (in_layer_S_bwd l) in Hb.
           specialize (Hu _ _ Ha Hb). lia.
Qed.

Lemma in_map_exact p i m : in_map p i m = true <-> In (p, i) m.
Proof.
  unfold in_map. rewrite existsb_exists. split.
  - intros [[q j] [Hin H]]. simpl in H. apply andb_true_iff in H. destruct H as [H1 H2].
    apply Z.eqb_eq in H1. apply Nat.eqb_eq in H2. subst. exact Hin.
  - intros H. exists (p, i). split; [exact H|]. simpl. rewrite Z.eqb_refl, Nat.eqb_refl. reflexivity.
Qed.

Lemma assoc_tbl {B} (f : pred -> B) u l : In u l -> assoc u (map (fun x => (x, f x)) l) = Some (f u).
Proof.
  induction l as [|a l IH]; intros H; simpl; [destruct H|].
  destruct (a =? u)%Z eqn:E.
  - apply Z.eqb_eq in E. subst. reflexivity.
  - destruct H as [H|H]; [subst; rewrite Z.eqb_refl in E; discriminate | auto].
Qed.

Lemma nth_layer layers i p :
  match nth_error layers i with Some l => memb p l | None => false end = true <-> in_layer layers i p.
Proof.
  unfold in_layer. destruct (nth_error layers i) as [l|].
  - rewrite memb_In. split; [eauto|]. intros [l' [H Hin]]. inversion H; subst. exact Hin.
  - split; [discriminate|]. intros [l' [H _]]. discriminate.
Qed.

(* the six checks of valid_layers as propositions *)
Definition checks (g : graph) (layers : list (list pred)) (m : list (pred * nat)) : Prop :=
  (forall p, In p (nodes g) -> count_layers layers p = 1) /\
  (forall l p, In l layers -> In p l -> In p (nodes g)) /\
  (forall p i, In (p, i) m -> in_layer layers i p) /\
  (forall p, In p (nodes g) -> exists i, lidx layers p = Some i /\ In (p, i) m) /\
  (forall u v b, In (u, v, b) (arcs g) -> exists i j, lidx layers u = Some i /\ lidx layers v = Some j /\
                 (if b then j < i else j <= i)) /\
  (forall u v, In u (nodes g) -> In v (nodes g) -> exists i j, lidx layers u = Some i /\ lidx layers v = Some j /\
               (i = j <-> path g u v /\ path g v u)).

Lemma valid_layers_checks g layers m : valid_layers g layers m = true <-> checks g layers m.
Proof.
  unfold valid_layers, checks. rewrite !andb_true_iff, !forallb_forall.
  assert (Hrch : forall u v, In u (unodes g) ->
            match assoc u (map (fun u0 => (u0, reach_list g u0)) (unodes g)) with
            | Some l => memb v l | None => false end = reach g u v).
  { intros u v Hu. rewrite (assoc_tbl (reach_list g) u (unodes g) Hu). reflexivity. }
  split.
  - intros [[[[[C1 C2] C3] C4] C5] C6]. repeat split.
    + intros p Hp. apply Nat.eqb_eq. apply C1. apply unodes_In. exact Hp.
    + intros l p Hl Hp. specialize (C2 l Hl). rewrite forallb_forall in C2.
      apply unodes_In. apply memb_In. auto.
    + intros p i Hpi. specialize (C3 (p, i) Hpi). simpl in C3. apply nth_layer. exact C3.
    + intros p Hp. apply unodes_In in Hp. specialize (C4 p Hp).
      destruct (lidx layers p) as [i|]; [|discriminate]. exists i. split; auto. apply in_map_exact. exact C4.
    + intros u v b Hb. specialize (C5 (u, v, b) Hb). simpl in C5.
      destruct (lidx layers u) as [i|]; [|discriminate]. destruct (lidx layers v) as [j|]; [|discriminate].
      exists i, j. repeat split; auto. destruct b; [apply Nat.ltb_lt | apply Nat.leb_le]; exact C5.
    + intros u v Hu Hv. apply unodes_In in Hu. apply unodes_In in Hv.
      specialize (C6 u Hu). rewrite forallb_forall in C6. specialize (C6 v Hv).
      destruct (lidx layers u) as [i|]; [|discriminate]. destruct (lidx layers v) as [j|]; [|discriminate].
      exists i, j. split; [reflexivity|]. split; [reflexivity|]. split.
      * intros Hij. rewrite (Hrch u v Hu), (Hrch v u Hv) in C6. apply eqb_prop in C6.
        apply mutual_exact. unfold mutual. rewrite <- C6. apply Nat.eqb_eq. exact Hij.
      * intros Hm. rewrite (Hrch u v Hu), (Hrch v u Hv) in C6. apply eqb_prop in C6.
        apply Nat.eqb_eq. rewrite C6. apply mutual_exact. exact Hm.
  - intros [C1 [C2 [C3 [C4 [C5 C6]]]]]. repeat split.
    + intros p Hp. apply Nat.eqb_eq. apply C1. apply unodes_In. exact Hp.
    + intros l Hl. apply forallb_forall. intros p Hp. apply memb_In. apply unodes_In. eauto.
    + intros [p i] Hpi. simpl. apply nth_layer. auto.
    + intros p Hp. apply unodes_In in Hp. destruct (C4 p Hp) as [i [Hi Hm]]. rewrite Hi.
      apply in_map_exact. exact Hm.
    + intros [[u v] b] Hb. simpl. destruct (C5 u v b Hb) as [i [j [Hi [Hj H]]]]. rewrite Hi, Hj.
      destruct b; [apply Nat.ltb_lt | apply Nat.leb_le]; exact H.
    + intros u Hu. apply forallb_forall. intros v Hv.
      rewrite (Hrch u v Hu), (Hrch v u Hv).
      apply unodes_In in Hu. apply unodes_In in Hv.
      destruct (C6 u v Hu Hv) as [i [j [Hi [Hj H]]]]. rewrite Hi, Hj.
      fold (mutual g u v). destruct (mutual g u v) eqn:Em.
      * apply mutual_exact in Em. apply H in Em. subst. rewrite Nat.eqb_refl. reflexivity.
      * destruct (i =? j) eqn:Eij; [|reflexivity]. apply Nat.eqb_eq in Eij. apply H in Eij.
        apply mutual_exact in Eij. congruence.
Qed.

Lemma checks_valid g layers m : checks g layers m <-> valid_layering g layers m.
Proof.
  unfold checks, valid_layering. split.
  - intros [C1 [C2 [C3 [C4 [C5 C6]]]]].
    assert (Hc : forall p i, in_layer layers i p -> In p (nodes g)).
    { intros p i [l [Hn Hin]]. apply nth_error_In in Hn. eauto. }
    assert (Hu : forall p i j, in_layer layers i p -> in_layer layers j p -> i = j).
    { intros p i j Hi Hj. apply (proj1 (count_one layers p)); auto. apply C1. eauto. }
    assert (Hl : forall p i j, lidx layers p = Some i -> in_layer layers j p -> i = j).
    { intros p i j Hi Hj. apply lidx_sound in Hi. eauto. }
    split; [|split; [|split; [|split; [|split]]]].
    + intros p Hp. apply (proj1 (count_one layers p)). auto.
    + exact Hu.
    + exact Hc.
    + intros p i. split; [apply C3|].
      intros Hi. destruct (C4 p (Hc _ _ Hi)) as [j [Hj Hm]]. rewrite <- (Hl _ _ _ Hj Hi). exact Hm.
    + intros u v b i j Hb Hi Hj. destruct (C5 u v b Hb) as [i' [j' [Hi' [Hj' Hr]]]].
      rewrite <- (Hl _ _ _ Hi' Hi), <- (Hl _ _ _ Hj' Hj).
      destruct b; (split; [lia|]); [intros _; exact Hr | discriminate].
    + intros u v i j Hi Hj. destruct (C6 u v (Hc _ _ Hi) (Hc _ _ Hj)) as [i' [j' [Hi' [Hj' Hr]]]].
      rewrite <- (Hl _ _ _ Hi' Hi), <- (Hl _ _ _ Hj' Hj). exact Hr.
  - intros [Va [Vb [Vc [Vd [Ve Vf]]]]].
    assert (Hl : forall p, In p (nodes g) -> exists i, lidx layers p = Some i /\ in_layer layers i p).
    { intros p Hp. destruct (Va p Hp) as [i Hi]. destruct (lidx_complete _ _ _ Hi) as [j Hj].
      exists j. split; auto. apply lidx_sound. exact Hj. }
    split; [|split; [|split; [|split; [|split]]]].
    + intros p Hp. apply count_one. split; [auto|]. apply Vb.
    + intros l p Hin Hp. apply In_nth_error in Hin. destruct Hin as [i Hi]. apply (Vc p i). exists l. auto.
    + intros p i. apply Vd.
    + intros p Hp. destruct (Hl p Hp) as [i [Hi Hin]]. exists i. split; auto. apply Vd. exact Hin.
    + intros u v b Hb. destruct (arc_nodes _ _ _ _ Hb) as [Hu Hv].
      destruct (Hl u Hu) as [i [Hi Hiu]]. destruct (Hl v Hv) as [j [Hj Hjv]].
      exists i, j. split; [exact Hi|]. split; [exact Hj|].
      destruct (Ve u v b i j Hb Hiu Hjv) as [H1 H2]. destruct b; auto.
    + intros u v Hu Hv. destruct (Hl u Hu) as [i [Hi Hiu]]. destruct (Hl v Hv) as [j [Hj Hjv]].
      exists i, j. split; [exact Hi|]. split; [exact Hj|]. apply (Vf u v i j Hiu Hjv).
Qed.

Theorem valid_layers_exact_proof g layers m :
  valid_layers g layers m = true <-> valid_layering g layers m.
Proof. rewrite valid_layers_checks. apply checks_valid. Qed.

(* ------------------------------------------- no layering with a negative cycle *)
Lemma layering_path_mono g layers m : valid_layering g layers m ->
  forall x y, path g x y -> forall i j, in_layer layers i x -> in_layer layers j y -> j <= i.
Proof.
  intros [Va [Vb [Vc [Vd [Ve Vf]]]]] x y Hp. induction Hp as [u | u v w b Hb Hp IH]; intros i j Hi Hj.
  - rewrite (Vb _ _ _ Hi Hj). lia.
  - destruct (arc_nodes _ _ _ _ Hb) as [_ Hv]. destruct (Va v Hv) as [k Hk].
    destruct (Ve u v b i k Hb Hi Hk) as [H1 _]. specialize (IH k j Hk Hj). lia.
Qed.

Lemma layering_no_neg_cycle g layers m : valid_layering g layers m -> neg_cycle g = false.
Proof.
  intros V. destruct (neg_cycle g) eqn:E; [|reflexivity]. exfalso.
  apply neg_cycle_exact in E. destruct E as [u [v [Hb Hp]]].
  pose proof V as [Va [Vb [Vc [Vd [Ve Vf]]]]].
  destruct (arc_nodes _ _ _ _ Hb) as [Hu Hv].
  destruct (Va u Hu) as [i Hi]. destruct (Va v Hv) as [j Hj].
  destruct (Ve u v true i j Hb Hi Hj) as [_ H2]. specialize (H2 eq_refl).
  pose proof (layering_path_mono g layers m V v u Hp j i Hj Hi). lia.
Qed.

(* ---------------------------------------------------------------- reference *)
Lemma filter_len_le {A} (f h : A -> bool) l :
  (forall x, In x l -> f x = true -> h x = true) -> length (filter f l) <= length (filter h l).
Proof.
  induction l as [|a l IH]; intros H; simpl; auto.
  assert (IH' : length (filter f l) <= length (filter h l)) by (apply IH; intros; apply H; simpl; auto).
  destruct (f a) eqn:Ef.
  - rewrite (H a (or_introl eq_refl) Ef). simpl. lia.
  - destruct (h a); simpl; lia.
Qed.

Lemma filter_len_lt {A} (f h : A -> bool) l x :
  (forall y, In y l -> f y = true -> h y = true) -> In x l -> f x = false -> h x = true ->
  length (filter f l) < length (filter h l).
Proof.
  induction l as [|a l IH]; intros H Hin Hf Hh; simpl; [destruct Hin|].
  assert (Hle : length (filter f l) <= length (filter h l))
    by (apply filter_len_le; intros; apply H; simpl; auto).
  destruct Hin as [Hin|Hin].
  - subst. rewrite Hf, Hh. simpl. lia.
  - assert (IH' : length (filter f l) < length (filter h l))
      by (apply IH; auto; intros; apply H; simpl; auto).
    destruct (f a) eqn:Ef.
    + rewrite (H a (or_introl eq_refl) Ef). simpl. lia.
    + destruct (h a); simpl; lia.
Qed.

Lemma filter_ext_len {A} (f h : A -> bool) l :
  (forall x, In x l -> f x = h x) -> length (filter f l) = length (filter h l).
Proof.
  intros H. apply Nat.le_antisymm; apply filter_len_le; intros x Hx Hf.
  - rewrite <- (H x Hx). exact Hf.
  - rewrite (H x Hx). exact Hf.
Qed.

Lemma find_index_ext {A} (f h : A -> bool) l :
  (forall x, In x l -> f x = h x) -> find_index f l = find_index h l.
Proof.
  induction l as [|a l IH]; intros H; simpl; auto.
  rewrite <- (H a (or_introl eq_refl)). destruct (f a); auto. f_equal. apply IH. intros; apply H; simpl; auto.
Qed.

Lemma find_index_le {A} (f : A -> bool) l : find_index f l <= length l.
Proof. induction l as [|a l IH]; simpl; auto. destruct (f a); lia. Qed.

Lemma find_index_found {A} (f : A -> bool) l x : In x l -> f x = true ->
  exists y, nth_error l (find_index f l) = Some y /\ f y = true.
Proof.
  induction l as [|a l IH]; intros Hin Hf; [destruct Hin|]. simpl.
  destruct (f a) eqn:E.
  - exists a. auto.
  - destruct Hin as [Hin|Hin]; [subst; congruence|]. simpl. auto.
Qed.

Lemma reach_ext g u v : path g u v -> path g v u -> forall x, reach g u x = reach g v x.
Proof.
  intros Huv Hvu x. destruct (reach g v x) eqn:E.
  - apply reach_exact. apply reach_exact in E. eapply path_trans; eauto.
  - apply reach_false. apply reach_false in E. intros Hp. apply E. eapply path_trans; eauto.
Qed.

Lemma mutual_ext g u v : path g u v -> path g v u -> forall x, mutual g u x = mutual g v x.
Proof.
  intros Huv Hvu x. destruct (mutual g v x) eqn:E.
  - apply mutual_exact. apply mutual_exact in E. destruct E. split; eapply path_trans; eauto.
  - destruct (mutual g u x) eqn:E2; [|reflexivity]. apply mutual_exact in E2. destruct E2.
    assert (mutual g v x = true) by (apply mutual_exact; split; eapply path_trans; eauto). congruence.
Qed.

Lemma mul_add_unique a b c d n : b <= n -> d <= n -> a * S n + b = c * S n + d -> a = c /\ b = d.
Proof.
  intros Hb Hd H. destruct (Nat.lt_trichotomy a c) as [Hl|[He|Hl]].
  - exfalso. assert (Hm : S a * S n <= c * S n) by (apply Nat.mul_le_mono_r; lia).
    rewrite Nat.mul_succ_l in Hm. lia.
  - subst. split; [reflexivity | lia].
  - exfalso. assert (Hm : S c * S n <= a * S n) by (apply Nat.mul_le_mono_r; lia).
    rewrite Nat.mul_succ_l in Hm. lia.
Qed.

Lemma mul_add_lt a b c d n : a < c -> b <= n -> a * S n + b < c * S n + d.
Proof.
  intros Hl Hb. assert (Hm : S a * S n <= c * S n) by (apply Nat.mul_le_mono_r; lia).
  rewrite Nat.mul_succ_l in Hm. lia.
Qed.

Lemma rep_le g u : rep g u <= length (unodes g).
Proof. apply find_index_le. Qed.

Lemma sidx_mutual g u v : In u (nodes g) -> In v (nodes g) ->
  (sidx g u = sidx g v <-> path g u v /\ path g v u).
Proof.
  intros Hu Hv. unfold sidx. split.
  - intros H. pose proof (rep_le g u). pose proof (rep_le g v).
    assert (Hr : rep g u = rep g v) by (eapply mul_add_unique; eauto).
    unfold rep in Hr.
    destruct (find_index_found (mutual g u) (unodes g) u) as [y [Hy Hmy]].
    { apply unodes_In. exact Hu. } { apply mutual_exact. split; constructor. }
    destruct (find_index_found (mutual g v) (unodes g) v) as [z [Hz Hmz]].
    { apply unodes_In. exact Hv. } { apply mutual_exact. split; constructor. }
    rewrite Hr in Hy. rewrite Hy in Hz. inversion Hz; subst z.
    apply mutual_exact in Hmy. apply mutual_exact in Hmz. destruct Hmy, Hmz.
    split; eapply path_trans; eauto.
  - intros [Huv Hvu]. f_equal.
    + f_equal. unfold rank. apply filter_ext_len. intros x _. apply reach_ext; auto.
    + unfold rep. apply find_index_ext. intros x _. apply mutual_ext; auto.
Qed.

Lemma sidx_arc g u v b : In (u, v, b) (arcs g) ->
  sidx g v <= sidx g u /\ (~ path g v u -> sidx g v < sidx g u).
Proof.
  intros Hb. destruct (arc_nodes _ _ _ _ Hb) as [Hu Hv].
  assert (Hsub : forall x, In x (unodes g) -> reach g v x = true -> reach g u x = true).
  { intros x _ Hx. apply reach_exact. apply reach_exact in Hx. eapply path_step; eauto. }
  destruct (reach g v u) eqn:E.
  - apply reach_exact in E. assert (Heq : sidx g u = sidx g v).
    { apply sidx_mutual; auto. split; [eapply path_arc; eauto | exact E]. }
    split; [lia | tauto].
  - assert (Hlt : rank g v < rank g u).
    { unfold rank. apply filter_len_lt with (x := u); auto.
      - apply unodes_In. exact Hu.
      - apply reach_exact. constructor. }
    pose proof (rep_le g v) as Hrv. unfold sidx.
    pose proof (mul_add_lt (rank g v) (rep g v) (rank g u) (rep g u) (length (unodes g)) Hlt Hrv).
    split; [lia | intros _; lia].
Qed.

Lemma seq_sorted : forall len start, StronglySorted lt (seq start len).
Proof.
  induction len as [|len IH]; intros start; simpl; constructor; auto.
  apply Forall_forall. intros x Hx. apply in_seq in Hx. lia.
Qed.

Lemma filter_sorted (f : nat -> bool) l : StronglySorted lt l -> StronglySorted lt (filter f l).
Proof.
  induction 1 as [|a l Hs IH Hall]; simpl; [constructor|].
  destruct (f a); auto. constructor; auto.
  rewrite Forall_forall in *. intros x Hx. apply filter_In in Hx. apply Hall. tauto.
Qed.

Lemma sorted_nth_lt ks : StronglySorted lt ks -> forall i j a b,
  nth_error ks i = Some a -> nth_error ks j = Some b -> i < j -> a < b.
Proof.
  induction 1 as [|x l Hs IH Hall]; intros i j a b Hi Hj Hlt.
  - destruct i; discriminate.
  - destruct j; [lia|]. destruct i; simpl in *.
    + inversion Hi; subst. apply nth_error_In in Hj. rewrite Forall_forall in Hall. auto.
    + eapply IH; eauto. lia.
Qed.

Lemma sorted_nth_inj ks : StronglySorted lt ks -> forall i j a,
  nth_error ks i = Some a -> nth_error ks j = Some a -> i = j.
Proof.
  intros Hs i j a Hi Hj. destruct (Nat.lt_trichotomy i j) as [H|[H|H]]; auto.
  - pose proof (sorted_nth_lt ks Hs _ _ _ _ Hi Hj H). lia.
  - pose proof (sorted_nth_lt ks Hs _ _ _ _ Hj Hi H). lia.
Qed.

Lemma keys_sorted g : StronglySorted lt (keys g).
Proof. unfold keys. apply filter_sorted. apply seq_sorted. Qed.

Lemma rank_le g u : rank g u <= length (unodes g).
Proof.
  unfold rank. induction (unodes g) as [|a l IH]; simpl; auto. destruct (reach g u a); simpl; lia.
Qed.

Lemma keys_In g p : In p (nodes g) -> In (sidx g p) (keys g).
Proof.
  intros Hp. unfold keys. apply filter_In. split.
  - apply in_seq. pose proof (rank_le g p) as Hr. pose proof (rep_le g p) as Hp'. unfold sidx.
    assert (Hm : rank g p * S (length (unodes g)) <= length (unodes g) * S (length (unodes g)))
      by (apply Nat.mul_le_mono_r; exact Hr).
    rewrite Nat.mul_succ_l. lia.
  - apply existsb_exists. exists p. split; [apply unodes_In; exact Hp | apply Nat.eqb_refl].
Qed.

Lemma pos_of_nth k ks : In k ks -> nth_error ks (pos_of k ks) = Some k.
Proof.
  intros H. unfold pos_of. destruct (find_index_found (Nat.eqb k) ks k H (Nat.eqb_refl k)) as [y [Hy He]].
  apply Nat.eqb_eq in He. subst. exact Hy.
Qed.

Definition ref_layers (g : graph) : list (list pred) :=
  map (fun k => filter (fun p => sidx g p =? k) (unodes g)) (keys g).
Definition ref_map (g : graph) : list (pred * nat) :=
  map (fun p => (p, pos_of (sidx g p) (keys g))) (unodes g).

Lemma in_ref_layer g i p :
  in_layer (ref_layers g) i p <-> In p (nodes g) /\ nth_error (keys g) i = Some (sidx g p).
Proof.
  unfold in_layer, ref_layers. split.
  - intros [l [Hn Hin]]. rewrite nth_error_map in Hn.
    destruct (nth_error (keys g) i) as [k|] eqn:E; simpl in Hn; [|discriminate].
    inversion Hn; subst. apply filter_In in Hin. destruct Hin as [Hin He].
    apply Nat.eqb_eq in He. subst. split; auto. apply unodes_In. exact Hin.
  - intros [Hp Hn]. exists (filter (fun q => sidx g q =? sidx g p) (unodes g)). split.
    + rewrite nth_error_map, Hn. reflexivity.
    + apply filter_In. split; [apply unodes_In; exact Hp | apply Nat.eqb_refl].
Qed.

Lemma ref_valid g : neg_cycle g = false -> valid_layering g (ref_layers g) (ref_map g).
Proof.
  intros Hnc. pose proof (keys_sorted g) as Hs. unfold valid_layering.
  split; [|split; [|split; [|split; [|split]]]].
  - intros p Hp. destruct (In_nth_error _ _ (keys_In g p Hp)) as [i Hi].
    exists i. apply in_ref_layer. auto.
  - intros p i j Hi Hj. apply in_ref_layer in Hi. apply in_ref_layer in Hj.
    eapply sorted_nth_inj; [exact Hs | apply Hi | apply Hj].
  - intros p i Hi. apply in_ref_layer in Hi. tauto.
  - intros p i. split.
    + unfold ref_map. intros H. apply in_map_iff in H. destruct H as [q [He Hq]].
      inversion He; subst. apply unodes_In in Hq. apply in_ref_layer. split; auto.
      apply pos_of_nth. apply keys_In. exact Hq.
    + intros H. apply in_ref_layer in H. destruct H as [Hp Hn].
      unfold ref_map. apply in_map_iff. exists p. split; [|apply unodes_In; exact Hp].
      f_equal. eapply sorted_nth_inj; [exact Hs | | exact Hn]. apply pos_of_nth. apply keys_In. exact Hp.
  - intros u v b i j Hb Hi Hj. apply in_ref_layer in Hi. apply in_ref_layer in Hj.
    destruct Hi as [_ Hi]. destruct Hj as [_ Hj].
    destruct (sidx_arc g u v b Hb) as [Hle Hlt]. split.
    + destruct (Nat.le_gt_cases j i) as [|Hgt]; auto.
      pose proof (sorted_nth_lt _ Hs _ _ _ _ Hi Hj Hgt). lia.
    + intros Hbt. subst b. specialize (Hlt (neg_cycle_false g Hnc u v Hb)).
      destruct (Nat.lt_ge_cases j i) as [|Hge]; auto.
      destruct (proj1 (Nat.lt_eq_cases i j) Hge) as [Hl|He].
      * pose proof (sorted_nth_lt _ Hs _ _ _ _ Hi Hj Hl). lia.
      * subst. rewrite Hi in Hj. inversion Hj. lia.
  - intros u v i j Hi Hj. apply in_ref_layer in Hi. apply in_ref_layer in Hj.
    destruct Hi as [Hu Hi]. destruct Hj as [Hv Hj]. split.
    + intros Hij. subst j. rewrite Hi in Hj. inversion Hj.
      apply (proj1 (sidx_mutual g u v Hu Hv)). auto.
    + intros Hm. apply (proj2 (sidx_mutual g u v Hu Hv)) in Hm. rewrite Hm in Hi.
      eapply sorted_nth_inj; eauto.
Qed.

Lemma stratify_ref_spec g :
  match stratify_ref g with
  | Some (layers, m) => neg_cycle g = false /\ valid_layering g layers m
  | None => neg_cycle g = true
  end.
Proof.
  unfold stratify_ref. destruct (neg_cycle g) eqn:E; [reflexivity|].
  split; [reflexivity|]. apply (ref_valid g E).
Qed.

Lemma stratifiable_iff_proof g :
  (exists layers m, valid_layering g layers m) <-> neg_cycle g = false.
Proof.
  split.
  - intros [layers [m V]]. eapply layering_no_neg_cycle; eauto.
  - intros H. exists (ref_layers g), (ref_map g). apply ref_valid. exact H.
Qed.
