(* Reference model + observer for analysis.Stratify (analysis/stratification.go:79).
   Go's result (Kosaraju over Go maps, then a DFS topological sort) is one of many
   legal answers selected by map iteration order, so the algorithm is not mirrored;
   instead: a fuelled reachability [reach], the failure criterion [neg_cycle], a
   reference stratification [stratify_ref] and the observer [valid_layers] that
   judges the layers / predicate->layer map Go returned.
   Executable definitions only; proofs are in StratifyProofs.v. *)
From Coq Require Import List ZArith Bool Arith.
From MV Require Import Strat.DepGraph.
Import ListNotations.
Open Scope nat_scope.

(* successors of u: the keys of dep[u] *)
Definition succs (g : graph) (u : pred) : list pred :=
  map (fun e => snd (fst e)) (filter (fun e => (fst (fst e) =? u)%Z) (arcs g)).

(* add the candidates that are not there yet *)
Fixpoint add_new (seen cands : list pred) : list pred :=
  match cands with
  | [] => seen
  | c :: cs => if memb c seen then add_new seen cs else add_new (c :: seen) cs
  end.

(* Closure of a set under successors. Out of fuel = None; with fuel larger than
   the number of vertices this does not happen (closure_fuel). *)
Fixpoint closure (fuel : nat) (g : graph) (seen : list pred) : option (list pred) :=
  match fuel with
  | O => None
  | S f => let seen' := add_new seen (flat_map (succs g) seen) in
           if length seen' =? length seen then Some seen else closure f g seen'
  end.

Definition reach_list (g : graph) (u : pred) : list pred :=
  match closure (S (S (length (nodes g)))) g [u] with Some s => s | None => [] end.

(* v reachable from u by a path of length >= 0 *)
Definition reach (g : graph) (u v : pred) : bool := memb v (reach_list g u).

Definition mutual (g : graph) (u v : pred) : bool := reach g u v && reach g v u.

(* Stratify returns an error iff some negative arc u -> v lies on a cycle (v reaches u);
   stratification.go:87-96 tests this as "negative arc inside one SCC". *)
Definition neg_cycle (g : graph) : bool :=
  existsb (fun e => snd e && reach g (snd (fst e)) (fst (fst e))) (arcs g).

(* vertices without repetition *)
Definition unodes (g : graph) : list pred := add_new [] (nodes g).

(* ---------------------------------------------------------------- observer *)
Fixpoint lidx (layers : list (list pred)) (p : pred) : option nat :=
  match layers with
  | [] => None
  | l :: ls => if memb p l then Some O else option_map S (lidx ls p)
  end.

Definition count_layers (layers : list (list pred)) (p : pred) : nat :=
  length (filter (memb p) layers).

Fixpoint assoc {B} (u : pred) (t : list (pred * B)) : option B :=
  match t with
  | [] => None
  | (k, x) :: t' => if (k =? u)%Z then Some x else assoc u t'
  end.

Definition in_map (p : pred) (i : nat) (m : list (pred * nat)) : bool :=
  existsb (fun qj => (fst qj =? p)%Z && (snd qj =? i)) m.

(* layers: Go's []Nodeset, each set as a list; m: Go's map predicate -> stratum *)
Definition valid_layers (g : graph) (layers : list (list pred)) (m : list (pred * nat)) : bool :=
  let un := unodes g in
  let tbl := map (fun u => (u, reach_list g u)) un in
  let rch u v := match assoc u tbl with Some l => memb v l | None => false end in
  forallb (fun p => count_layers layers p =? 1) un
  && forallb (forallb (fun p => memb p un)) layers
  && forallb (fun pi => match nth_error layers (snd pi) with
                        | Some l => memb (fst pi) l | None => false end) m
  && forallb (fun p => match lidx layers p with
                       | Some i => in_map p i m | None => false end) un
  && forallb (fun e : pred * pred * bool => match lidx layers (fst (fst e)), lidx layers (snd (fst e)) with
                       | Some i, Some j => if snd e then Nat.ltb j i else Nat.leb j i
                       | _, _ => false end) (arcs g)
  && forallb (fun u => forallb (fun v =>
                match lidx layers u, lidx layers v with
                | Some i, Some j => Bool.eqb (i =? j) (rch u v && rch v u)
                | _, _ => false end) un) un.

(* --------------------------------------------------------------- reference *)
Fixpoint find_index {A} (f : A -> bool) (l : list A) : nat :=
  match l with
  | [] => O
  | x :: r => if f x then O else S (find_index f r)
  end.

(* number of vertices reachable from u: smaller for everything u depends on
   outside its own component *)
Definition rank (g : graph) (u : pred) : nat := length (filter (reach g u) (unodes g)).
(* position of the first vertex of u's component *)
Definition rep (g : graph) (u : pred) : nat := find_index (mutual g u) (unodes g).
(* equal exactly inside one component, not increasing along arcs *)
Definition sidx (g : graph) (u : pred) : nat := rank g u * S (length (unodes g)) + rep g u.

Definition keys (g : graph) : list nat :=
  let n := S (length (unodes g)) in
  filter (fun k => existsb (fun p => sidx g p =? k) (unodes g)) (seq 0 (n * n)).

Definition pos_of (k : nat) (ks : list nat) : nat := find_index (Nat.eqb k) ks.

Definition stratify_ref (g : graph) : option (list (list pred) * list (pred * nat)) :=
  if neg_cycle g then None
  else let un := unodes g in
       let ks := keys g in
       Some (map (fun k => filter (fun p => sidx g p =? k) un) ks,
             map (fun p => (p, pos_of (sidx g p) ks)) un).
