(* Model of the dependency graph of analysis/stratification.go (after fix F4).
   Executable definitions only; proofs are in StratifyProofs.v.

   Predicates (ast.PredicateSym = symbol + arity) are abstracted to integers; the
   harness maps an integer to a distinct (symbol, arity) pair. *)
From Coq Require Import List ZArith Bool.
Import ListNotations.
Open Scope Z_scope.

Definition pred := Z.

Definition memb (x : pred) (l : list pred) : bool := existsb (Z.eqb x) l.

(* ast.Clause as far as makeDepGraph looks at it. *)
Inductive premise :=
| PAtom (p : pred)                    (* ast.Atom *)
| PNeg (p : pred)                     (* ast.NegAtom *)
| PTempLit (negated : bool) (p : pred)(* ast.TemporalLiteral{Literal: Atom | NegAtom} *)
| PTempAtom (p : pred)                (* ast.TemporalAtom *)
| POther.                             (* ast.Eq, ast.Ineq, ... : no case in the switch *)

Inductive tkind :=
| TNone   (* rule.Transform == nil *)
| TLet    (* rule.Transform.IsLetTransform() *)
| TDo.    (* do-transform *)

Record rule := mkRule { head : pred; body : list premise; xform : tkind }.

(* analysis.Program (stratification.go:34) plus the global builtin.Predicates table.
   IdbPredicates is not read by Stratify. *)
Record program := mkProgram { builtins : list pred; edb : list pred; rules : list rule }.

(* depGraph = map[pred]edgeMap, edgeMap = map[pred]bool (true = negated).
   Association lists with unique keys, in insertion order. *)
Definition edgemap := list (pred * bool).
Definition depgraph := list (pred * edgemap).

Fixpoint em_get (m : edgemap) (d : pred) : option bool :=
  match m with
  | [] => None
  | (k, b) :: m' => if k =? d then Some b else em_get m' d
  end.
Fixpoint em_set (m : edgemap) (d : pred) (b : bool) : edgemap :=
  match m with
  | [] => [(d, b)]
  | (k, c) :: m' => if k =? d then (k, b) :: m' else (k, c) :: em_set m' d b
  end.

Fixpoint dg_get (g : depgraph) (s : pred) : option edgemap :=
  match g with
  | [] => None
  | (k, m) :: g' => if k =? s then Some m else dg_get g' s
  end.
Fixpoint dg_set (g : depgraph) (s : pred) (m : edgemap) : depgraph :=
  match g with
  | [] => [(s, m)]
  | (k, c) :: g' => if k =? s then (k, m) :: g' else (k, c) :: dg_set g' s m
  end.

(* stratification.go:103 initNode *)
Definition init_node (g : depgraph) (s : pred) : depgraph :=
  match dg_get g s with Some _ => g | None => dg_set g s [] end.

(* stratification.go:109 addEdge: a negative label is never overwritten. The source
   always has a node (makeDepGraph calls initNode on the head first). *)
Definition add_edge (g : depgraph) (s d : pred) (negated : bool) : depgraph :=
  let edges := match dg_get g s with Some m => m | None => [] end in
  if negated then dg_set g s (em_set edges d true)
  else match em_get edges d with
       | Some true => g
       | _ => dg_set g s (em_set edges d false)
       end.

(* case ast.Atom of makeDepGraph (stratification.go:50-62; helper addAtom after F4) *)
Definition add_atom (P : program) (r : rule) (g : depgraph) (p : pred) : depgraph :=
  if memb p (builtins P) then g
  else if memb p (edb P) then g
  else match xform r with
       | TDo => add_edge g (head r) p true
       | _ => add_edge g (head r) p false
       end.

(* case ast.NegAtom (stratification.go:63-66; helper addNegAtom after F4): no
   builtin test here, as in the Go code. *)
Definition add_negatom (P : program) (r : rule) (g : depgraph) (p : pred) : depgraph :=
  if memb p (edb P) then g else add_edge g (head r) p true.

(* [temporal = false] is the code before fix F4: TemporalLiteral / TemporalAtom
   premises fall through the switch. *)
Definition add_premise (temporal : bool) (P : program) (r : rule) (g : depgraph) (q : premise) : depgraph :=
  match q with
  | PAtom p => add_atom P r g p
  | PNeg p => add_negatom P r g p
  | PTempLit false p => if temporal then add_atom P r g p else g
  | PTempLit true p => if temporal then add_negatom P r g p else g
  | PTempAtom p => if temporal then add_atom P r g p else g
  | POther => g
  end.

Definition add_rule (temporal : bool) (P : program) (g : depgraph) (r : rule) : depgraph :=
  fold_left (add_premise temporal P r) (body r) (init_node g (head r)).

(* stratification.go:43 makeDepGraph (after F4) *)
Definition make_dep_graph_gen (temporal : bool) (P : program) : depgraph :=
  fold_left (add_rule temporal P) (rules P) [].
Definition make_dep_graph := make_dep_graph_gen true.
Definition make_dep_graph_prefix := make_dep_graph_gen false.

(* The graph the stratification theory talks about: vertices that have a node of
   their own (rule heads) and labelled arcs; a predicate that only occurs as a
   target is a vertex too (sccs() visits it). *)
Record graph := mkGraph { verts : list pred; arcs : list (pred * pred * bool) }.

Definition graph_of (d : depgraph) : graph :=
  mkGraph (map fst d)
          (flat_map (fun sm => map (fun db => (fst sm, fst db, snd db)) (snd sm)) d).

Definition nodes (g : graph) : list pred :=
  verts g ++ flat_map (fun e => [fst (fst e); snd (fst e)]) (arcs g).
