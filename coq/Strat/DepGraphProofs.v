(* Proofs about Strat/DepGraph.v: a mention inside a temporally annotated body
   literal gives the same dependency graph as the plain literal. *)
From Coq Require Import List ZArith Bool.
From MV Require Import Strat.DepGraph.
Import ListNotations.
Open Scope Z_scope.

(* forget the temporal annotations of a rule set *)
Definition strip_premise (q : premise) : premise :=
  match q with
  | PTempLit false p => PAtom p
  | PTempLit true p => PNeg p
  | PTempAtom p => PAtom p
  | _ => q
  end.
Definition strip_rule (r : rule) : rule := mkRule (head r) (map strip_premise (body r)) (xform r).
Definition strip_temporal (P : program) : program :=
  mkProgram (builtins P) (edb P) (map strip_rule (rules P)).

Lemma add_premise_strip P r g q :
  add_premise true P r g q = add_premise true (strip_temporal P) (strip_rule r) g (strip_premise q).
Proof. destruct q as [p|p|[|] p|p|]; reflexivity. Qed.

Lemma fold_left_map_ext {A B C} (f : A -> B -> A) (f' : A -> C -> A) (h : B -> C) l :
  (forall a x, f a x = f' a (h x)) -> forall a, fold_left f l a = fold_left f' (map h l) a.
Proof.
  intros H. induction l as [|x l IH]; intros a; simpl; [reflexivity|]. rewrite H. apply IH.
Qed.

Lemma add_rule_strip P g r :
  add_rule true P g r = add_rule true (strip_temporal P) g (strip_rule r).
Proof.
  unfold add_rule. simpl. apply fold_left_map_ext. intros a x. apply add_premise_strip.
Qed.

Lemma temporal_counts_proof P : make_dep_graph P = make_dep_graph (strip_temporal P).
Proof.
  unfold make_dep_graph, make_dep_graph_gen. simpl. apply fold_left_map_ext.
  intros a x. apply add_rule_strip.
Qed.

(* without the temporal cases (code before F4) the temporal premises contribute nothing *)
Definition drop_temporal (r : rule) : rule :=
  mkRule (head r)
         (filter (fun q => match q with PTempLit _ _ | PTempAtom _ => false | _ => true end) (body r))
         (xform r).

Lemma prefix_ignores_temporal_rule P P' g r :
  builtins P' = builtins P -> edb P' = edb P ->
  add_rule false P g r = add_rule true P' g (drop_temporal r).
Proof.
  intros Hb He. unfold add_rule. simpl. generalize (init_node g (head r)).
  induction (body r) as [|q l IH]; intros d; simpl; [reflexivity|].
  destruct q as [p|p|[|] p|p|]; simpl; try apply IH.
  - rewrite IH. f_equal. unfold add_atom. simpl. rewrite Hb, He. reflexivity.
  - rewrite IH. f_equal. unfold add_negatom. simpl. rewrite He. reflexivity.
Qed.

Lemma prefix_ignores_temporal_proof P :
  make_dep_graph_prefix P = make_dep_graph (mkProgram (builtins P) (edb P) (map drop_temporal (rules P))).
Proof.
  unfold make_dep_graph_prefix, make_dep_graph, make_dep_graph_gen. simpl.
  apply fold_left_map_ext. intros a x. apply prefix_ignores_temporal_rule; reflexivity.
Qed.
