(* Proofs about Strat/DepGraph.v: a mention inside a temporally annotated body
   literal gives the same dependency graph as the plain literal. *)
From Coq Require Import List ZArith Bool Lia.
From MV Require Import Strat.DepGraph.
Import ListNotations.
Open Scope Z_scope.

(* forget the temporal annotations of a rule set *)
Definition strip_premise (q : premise) : premise :=
  match q with
  | PTempLit false p => PAtom p
  | PTempLit true p => PNeg p
  | PTempAtom p => PAtom p
  | _ => q
  end.
Definition strip_rule (r : rule) : rule := mkRule (head r) (map strip_premise (body r)) (xform r).
Definition strip_temporal (P : program) : program :=
  mkProgram (builtins P) (edb P) (map strip_rule (rules P)).

Lemma add_premise_strip P r g q :
  add_premise true P r g q = add_premise true (strip_temporal P) (strip_rule r) g (strip_premise q).
Proof. destruct q as [p|p|[|] p|p|]; reflexivity. Qed.

Lemma fold_left_map_ext {A B C} (f : A -> B -> A) (f' : A -> C -> A) (h : B -> C) l :
  (forall a x, f a x = f' a (h x)) -> forall a, fold_left f l a = fold_left f' (map h l) a.
Proof.
  intros H. induction l as [|x l IH]; intros a; simpl; [reflexivity|]. rewrite H. apply IH.
Qed.

Lemma add_rule_strip P g r :
  add_rule true P g r = add_rule true (strip_temporal P) g (strip_rule r).
Proof.
  unfold add_rule. simpl. apply fold_left_map_ext. intros a x. apply add_premise_strip.
Qed.

Lemma temporal_counts_proof P : make_dep_graph P = make_dep_graph (strip_temporal P).
Proof.
  unfold make_dep_graph, make_dep_graph_gen. simpl. apply fold_left_map_ext.
  intros a x. apply add_rule_strip.
Qed.

(* without the temporal cases (code before F4) the temporal premises contribute nothing *)
Definition drop_temporal (r : rule) : rule :=
  mkRule (head r)
         (filter (fun q => match q with PTempLit _ _ | PTempAtom _ => false | _ => true end) (body r))
         (xform r).

Lemma prefix_ignores_temporal_rule P P' g r :
  builtins P' = builtins P -> edb P' = edb P ->
  add_rule false P g r = add_rule true P' g (drop_temporal r).
Proof.
  intros Hb He. unfold add_rule. simpl. generalize (init_node g (head r)).
  induction (body r) as [|q l IH]; intros d; simpl; [reflexivity|].
  destruct q as [p|p|[|] p|p|]; simpl; try apply IH.
  - rewrite IH. f_equal. unfold add_atom. simpl. rewrite Hb, He. reflexivity.
  - rewrite IH. f_equal. unfold add_negatom. simpl. rewrite He. reflexivity.
Qed.

Lemma prefix_ignores_temporal_proof P :
  make_dep_graph_prefix P = make_dep_graph (mkProgram (builtins P) (edb P) (map drop_temporal (rules P))).
Proof.
  unfold make_dep_graph_prefix, make_dep_graph, make_dep_graph_gen. simpl.
  apply fold_left_map_ext. intros a x. apply prefix_ignores_temporal_rule; reflexivity.
Qed.

(* ====================================================================================
   depgraph_edges_exact: the graph make_dep_graph builds has exactly the arcs the rule
   set mentions. Plan: (1) the two association lists are instances of one generic one
   (aget/aset) with the usual get/set laws and key uniqueness; (2) init_node / add_edge
   in terms of the lookup lk g s d : option bool and the node test isn g s; (3) the
   construction is a left fold of elementary operations (OInit / OEdge) over the list
   ops P; (4) the lookup after a fold is a boolean function of the lookup before and of
   the operations folded ("negative wins"); (5) read off arcs and verts. *)

(* ---- (1) generic association lists *)
Section Assoc.
Context {V : Type}.
Fixpoint aget (m : list (pred * V)) (d : pred) : option V :=
  match m with
  | [] => None
  | (k, b) :: m' => if k =? d then Some b else aget m' d
  end.
Fixpoint aset (m : list (pred * V)) (d : pred) (b : V) : list (pred * V) :=
  match m with
  | [] => [(d, b)]
  | (k, c) :: m' => if k =? d then (k, b) :: m' else (k, c) :: aset m' d b
  end.

Lemma aget_aset m d v d' : aget (aset m d v) d' = if d =? d' then Some v else aget m d'.
Proof.
  induction m as [|[k c] m IH]; simpl.
  - reflexivity.
  - destruct (Z.eqb_spec k d) as [->|Hkd]; simpl.
    + destruct (d =? d'); reflexivity.
    + rewrite IH. destruct (Z.eqb_spec k d') as [->|Hkd'].
      * destruct (Z.eqb_spec d d'); [congruence|reflexivity].
      * reflexivity.
Qed.

Lemma aset_keys m d v k : In k (map fst (aset m d v)) <-> k = d \/ In k (map fst m).
Proof.
  induction m as [|[k0 c] m IH]; simpl.
  - intuition.
  - destruct (Z.eqb_spec k0 d) as [->|Hne]; simpl.
    + intuition.
    + rewrite IH. intuition.
Qed.

Lemma aset_nodup m d v : NoDup (map fst m) -> NoDup (map fst (aset m d v)).
Proof.
  induction m as [|[k0 c] m IH]; simpl; intros Hnd.
  - constructor; [intros []|constructor].
  - inversion Hnd as [|? ? Hn Hnd']; subst. destruct (Z.eqb_spec k0 d) as [->|Hne]; simpl.
    + constructor; auto.
    + constructor; [|auto]. rewrite aset_keys. intros [->|H]; [congruence|auto].
Qed.

Lemma aget_some_in m k v : aget m k = Some v -> In (k, v) m.
Proof.
  induction m as [|[k0 c] m IH]; simpl; [discriminate|].
  destruct (Z.eqb_spec k0 k) as [->|Hne]; [intros [= ->]; auto|auto].
Qed.

Lemma aget_in m : NoDup (map fst m) -> forall k v, In (k, v) m <-> aget m k = Some v.
Proof.
  intros Hnd k v. split; [|apply aget_some_in].
  induction m as [|[k0 c] m IH]; simpl; [intros []|]. simpl in Hnd.
  inversion Hnd as [|? ? Hn Hnd']; subst.
  intros [[= -> ->]|Hin].
  - rewrite Z.eqb_refl. reflexivity.
  - destruct (Z.eqb_spec k0 k) as [->|Hne]; [|auto].
    exfalso. apply Hn. apply in_map_iff. exists (k, v). auto.
Qed.

Lemma aget_key m k : In k (map fst m) <-> exists v, aget m k = Some v.
Proof.
  induction m as [|[k0 c] m IH]; simpl.
  - split; [intros []|intros [v Hv]; discriminate].
  - destruct (Z.eqb_spec k0 k) as [->|Hne].
    + split; [eauto|auto].
    + rewrite <- IH. intuition.
Qed.
End Assoc.

Lemma em_get_a m d : em_get m d = aget m d.
Proof. induction m as [|[k b] m IH]; simpl; [reflexivity|rewrite IH; reflexivity]. Qed.
Lemma em_set_a m d b : em_set m d b = aset m d b.
Proof. induction m as [|[k c] m IH]; simpl; [reflexivity|rewrite IH; reflexivity]. Qed.
Lemma dg_get_a g s : dg_get g s = aget g s.
Proof. induction g as [|[k b] g IH]; simpl; [reflexivity|rewrite IH; reflexivity]. Qed.
Lemma dg_set_a g s m : dg_set g s m = aset g s m.
Proof. induction g as [|[k c] g IH]; simpl; [reflexivity|rewrite IH; reflexivity]. Qed.

(* ---- (2) lookup, node test, well-formedness *)
Definition lk (g : depgraph) (s d : pred) : option bool :=
  match aget g s with Some m => aget m d | None => None end.
Definition isn (g : depgraph) (s : pred) : bool :=
  match aget g s with Some _ => true | None => false end.
Definition wf (g : depgraph) : Prop :=
  NoDup (map fst g) /\ forall s m, aget g s = Some m -> NoDup (map fst m).

Definition is_t (o : option bool) : bool := match o with Some true => true | _ => false end.
Definition is_f (o : option bool) : bool := match o with Some false => true | _ => false end.

Lemma init_node_a g s : init_node g s = match aget g s with Some _ => g | None => aset g s [] end.
Proof. unfold init_node. rewrite dg_get_a, dg_set_a. reflexivity. Qed.

Lemma add_edge_a g s d neg :
  add_edge g s d neg =
  let edges := match aget g s with Some m => m | None => [] end in
  if neg then aset g s (aset edges d true)
  else match aget edges d with
       | Some true => g
       | _ => aset g s (aset edges d false)
       end.
Proof. unfold add_edge. rewrite dg_get_a, em_get_a, !dg_set_a, !em_set_a. reflexivity. Qed.

Lemma lk_init_node g s s' d' : lk (init_node g s) s' d' = lk g s' d'.
Proof.
  rewrite init_node_a. destruct (aget g s) eqn:E; [reflexivity|].
  unfold lk. rewrite aget_aset. destruct (Z.eqb_spec s s') as [<-|]; [rewrite E|]; reflexivity.
Qed.

Lemma isn_init_node g s s' : isn (init_node g s) s' = (s =? s') || isn g s'.
Proof.
  rewrite init_node_a. unfold isn. destruct (aget g s) eqn:E.
  - destruct (Z.eqb_spec s s') as [<-|]; [rewrite E|]; reflexivity.
  - rewrite aget_aset. destruct (s =? s'); reflexivity.
Qed.

Lemma wf_aset g s m : wf g -> NoDup (map fst m) -> wf (aset g s m).
Proof.
  intros [H1 H2] Hm. split; [apply aset_nodup; exact H1|].
  intros s' m'. rewrite aget_aset. destruct (s =? s'); [intros [= <-]; exact Hm|apply H2].
Qed.

Lemma wf_init_node g s : wf g -> wf (init_node g s).
Proof.
  intros H. rewrite init_node_a. destruct (aget g s); [exact H|].
  apply wf_aset; [exact H|constructor].
Qed.

Lemma edges_nodup (g : depgraph) s : wf g -> NoDup (map fst (match aget g s with Some m => m | None => [] end)).
Proof. intros [_ H2]. destruct (aget g s) eqn:E; [eapply H2; eauto|constructor]. Qed.

Lemma wf_add_edge g s d neg : wf g -> wf (add_edge g s d neg).
Proof.
  intros H. rewrite add_edge_a. cbv zeta.
  assert (Hs : forall b, wf (aset g s (aset (match aget g s with Some m => m | None => [] end) d b))).
  { intros b. apply wf_aset; [exact H|]. apply aset_nodup. apply edges_nodup. exact H. }
  destruct neg; [apply Hs|].
  destruct (aget _ d) as [[|]|]; [exact H|apply Hs|apply Hs].
Qed.

Lemma edges_lk (g : depgraph) s d : aget (match aget g s with Some m => m | None => [] end) d = lk g s d.
Proof. unfold lk. destruct (aget g s); reflexivity. Qed.

(* addEdge: the label of (s, d) becomes "negated now, or negative before" *)
Lemma lk_add_edge g s d neg s' d' :
  lk (add_edge g s d neg) s' d' =
  if (s =? s') && (d =? d') then Some (neg || is_t (lk g s d)) else lk g s' d'.
Proof.
  rewrite add_edge_a. cbv zeta.
  assert (Hs : forall b, lk (aset g s (aset (match aget g s with Some m => m | None => [] end) d b)) s' d' =
                         if (s =? s') && (d =? d') then Some b else lk g s' d').
  { intros b. unfold lk at 1. rewrite aget_aset. destruct (Z.eqb_spec s s') as [<-|]; [|reflexivity].
    rewrite aget_aset, edges_lk. destruct (d =? d'); reflexivity. }
  destruct neg; [rewrite Hs; reflexivity|].
  rewrite edges_lk. destruct (lk g s d) as [[|]|] eqn:E; simpl.
  - destruct (Z.eqb_spec s s') as [<-|]; [|reflexivity].
    destruct (Z.eqb_spec d d') as [Hd|]; [subst; exact E|reflexivity].
  - apply Hs.
  - apply Hs.
Qed.

Lemma isn_add_edge g s d neg s' : isn (add_edge g s d neg) s' = (s =? s') || isn g s'.
Proof.
  rewrite add_edge_a. cbv zeta.
  assert (Hs : forall M, isn (aset g s M) s' = (s =? s') || isn g s').
  { intros M. unfold isn. rewrite aget_aset. destruct (s =? s'); reflexivity. }
  destruct neg; [apply Hs|].
  destruct (aget _ d) as [[|]|] eqn:E; [|apply Hs|apply Hs].
  unfold isn. destruct (Z.eqb_spec s s') as [He|]; [subst s'|reflexivity].
  destruct (aget g s); [reflexivity|discriminate E].
Qed.

(* ---- (3) the construction as a fold of elementary operations *)
Inductive op := OInit (s : pred) | OEdge (s d : pred) (b : bool) | ONop.

Definition apply_op (g : depgraph) (o : op) : depgraph :=
  match o with
  | OInit s => init_node g s
  | OEdge s d b => add_edge g s d b
  | ONop => g
  end.

(* what one body premise pm of rule r says: Some (mentioned predicate, negative?) or None.
   A positive mention (plain or temporally annotated) of a built-in or EDB predicate is
   skipped and is negative exactly in a do-transform rule; a negated mention of an EDB
   predicate is skipped (there is no built-in test on that path, as in the Go code). *)
Definition mention (P : program) (r : rule) (pm : premise) : option (pred * bool) :=
  match pm with
  | PAtom q | PTempLit false q | PTempAtom q =>
      if memb q (builtins P) || memb q (edb P) then None
      else Some (q, match xform r with TDo => true | _ => false end)
  | PNeg q | PTempLit true q => if memb q (edb P) then None else Some (q, true)
  | POther => None
  end.

Definition prem_op (P : program) (r : rule) (pm : premise) : op :=
  match mention P r pm with Some (q, b) => OEdge (head r) q b | None => ONop end.
Definition rule_ops (P : program) (r : rule) : list op := OInit (head r) :: map (prem_op P r) (body r).
Definition ops (P : program) : list op := flat_map (rule_ops P) (rules P).

Lemma add_premise_op P r g pm : add_premise true P r g pm = apply_op g (prem_op P r pm).
Proof.
  unfold prem_op, mention.
  destruct pm as [p|p|[|] p|p|]; simpl; unfold add_atom, add_negatom;
    try (destruct (memb p (builtins P)), (memb p (edb P)); simpl; try reflexivity; destruct (xform r); reflexivity);
    try (destruct (memb p (edb P)); reflexivity).
  reflexivity.
Qed.

Lemma add_rule_ops P g r : add_rule true P g r = fold_left apply_op (rule_ops P r) g.
Proof.
  unfold add_rule, rule_ops. simpl. apply fold_left_map_ext. intros a x. apply add_premise_op.
Qed.

Lemma fold_left_flat_map {A B C} (f : A -> C -> A) (h : B -> list C) l :
  forall a, fold_left f (flat_map h l) a = fold_left (fun a x => fold_left f (h x) a) l a.
Proof. induction l as [|x l IH]; intros a; simpl; [reflexivity|]. rewrite fold_left_app. apply IH. Qed.

Lemma fold_left_ext {A B} (f f' : A -> B -> A) l : (forall a x, f a x = f' a x) ->
  forall a, fold_left f l a = fold_left f' l a.
Proof. intros H. induction l as [|x l IH]; intros a; simpl; [reflexivity|]. rewrite H. apply IH. Qed.

Lemma make_dep_graph_ops P : make_dep_graph P = fold_left apply_op (ops P) [].
Proof.
  unfold make_dep_graph, make_dep_graph_gen, ops. rewrite fold_left_flat_map.
  apply fold_left_ext. intros a x. apply add_rule_ops.
Qed.

(* ---- (4) the state after a fold *)
Definition eb (s d : pred) (b : bool) (o : op) : bool :=
  match o with OEdge s' d' b' => (s' =? s) && (d' =? d) && Bool.eqb b' b | _ => false end.
Definition src (s : pred) (o : op) : bool :=
  match o with OInit s' => s' =? s | OEdge s' _ _ => s' =? s | ONop => false end.
Definition combine (old : option bool) (anyneg anypos : bool) : option bool :=
  if is_t old || anyneg then Some true else if is_f old || anypos then Some false else None.

Lemma lk_fold : forall l g s d,
  lk (fold_left apply_op l g) s d =
  combine (lk g s d) (existsb (eb s d true) l) (existsb (eb s d false) l).
Proof.
  induction l as [|o l IH]; intros g s d; simpl.
  - unfold combine. destruct (lk g s d) as [[|]|]; reflexivity.
  - rewrite IH. destruct o as [s'|s' d' b'|]; simpl.
    + rewrite lk_init_node. reflexivity.
    + rewrite lk_add_edge. destruct ((s' =? s) && (d' =? d)) eqn:E; simpl; [|reflexivity].
      apply andb_true_iff in E as [E1 E2]. apply Z.eqb_eq in E1, E2. subst s' d'.
      unfold combine.
      destruct b', (lk g s d) as [[|]|], (existsb (eb s d true) l), (existsb (eb s d false) l); reflexivity.
    + reflexivity.
Qed.

Lemma isn_fold : forall l g s, isn (fold_left apply_op l g) s = isn g s || existsb (src s) l.
Proof.
  induction l as [|o l IH]; intros g s; simpl.
  - rewrite orb_false_r. reflexivity.
  - rewrite IH. destruct o as [s'|s' d' b'|]; simpl.
    + rewrite isn_init_node. destruct (s' =? s), (isn g s); reflexivity.
    + rewrite isn_add_edge. destruct (s' =? s), (isn g s); reflexivity.
    + reflexivity.
Qed.

Lemma wf_fold : forall l g, wf g -> wf (fold_left apply_op l g).
Proof.
  induction l as [|o l IH]; intros g Hg; simpl; [exact Hg|]. apply IH.
  destruct o; simpl; [apply wf_init_node|apply wf_add_edge|]; exact Hg.
Qed.

Lemma wf_nil : wf [].
Proof. split; [constructor|intros s m H; discriminate H]. Qed.

(* ---- (5) reading the graph *)
Lemma arcs_lk g : wf g -> forall h q b, In (h, q, b) (arcs (graph_of g)) <-> lk g h q = Some b.
Proof.
  intros [H1 H2] h q b. unfold graph_of. simpl. rewrite in_flat_map. unfold lk. split.
  - intros ([s m] & Hsm & Hin). simpl in Hin. apply in_map_iff in Hin as ([d c] & [= -> -> ->] & Hdc).
    apply (aget_in g H1) in Hsm. rewrite Hsm. apply aget_in; [eapply H2; eauto|exact Hdc].
  - destruct (aget g h) as [m|] eqn:E; [|discriminate]. intros Hq.
    exists (h, m). split; [apply aget_some_in; exact E|].
    simpl. apply in_map_iff. exists (q, b). split; [reflexivity|apply aget_some_in; exact Hq].
Qed.

Lemma verts_isn g h : In h (verts (graph_of g)) <-> isn g h = true.
Proof.
  unfold graph_of, isn. simpl. rewrite aget_key. split.
  - intros [v ->]. reflexivity.
  - destruct (aget g h); [eauto|discriminate].
Qed.

Definition mentioned (P : program) (h q : pred) (b : bool) : Prop :=
  exists r pm, In r (rules P) /\ head r = h /\ In pm (body r) /\ mention P r pm = Some (q, b).

Lemma ops_eb P h q b : existsb (eb h q b) (ops P) = true <-> mentioned P h q b.
Proof.
  rewrite existsb_exists. unfold ops, mentioned. split.
  - intros (o & Ho & He). apply in_flat_map in Ho as (r & Hr & Ho). exists r.
    destruct Ho as [<-|Ho]; [discriminate He|].
    apply in_map_iff in Ho as (pm & <- & Hpm). exists pm. unfold prem_op in He.
    destruct (mention P r pm) as [[q' b']|]; [|discriminate He]. simpl in He.
    apply andb_true_iff in He as [He Hb]. apply andb_true_iff in He as [E1 E2].
    apply Z.eqb_eq in E1, E2. apply Bool.eqb_prop in Hb. subst. auto.
  - intros (r & pm & Hr & Hh & Hpm & Hm). exists (OEdge h q b). split.
    + apply in_flat_map. exists r. split; [exact Hr|]. right. apply in_map_iff. exists pm.
      unfold prem_op. rewrite Hm, Hh. auto.
    + simpl. rewrite !Z.eqb_refl, Bool.eqb_reflx. reflexivity.
Qed.

Lemma ops_src P h : existsb (src h) (ops P) = true <-> exists r, In r (rules P) /\ head r = h.
Proof.
  rewrite existsb_exists. unfold ops. split.
  - intros (o & Ho & He). apply in_flat_map in Ho as (r & Hr & Ho). exists r. split; [exact Hr|].
    destruct Ho as [<-|Ho]; [apply Z.eqb_eq; exact He|].
    apply in_map_iff in Ho as (pm & <- & Hpm). unfold prem_op in He.
    destruct (mention P r pm) as [[q' b']|]; [apply Z.eqb_eq; exact He|discriminate He].
  - intros (r & Hr & Hh). exists (OInit h). split; [|simpl; apply Z.eqb_refl].
    apply in_flat_map. exists r. split; [exact Hr|]. left. rewrite Hh. reflexivity.
Qed.

Theorem depgraph_edges_exact_proof P :
  let g := graph_of (make_dep_graph P) in
  (forall h, In h (verts g) <-> exists r, In r (rules P) /\ head r = h) /\
  NoDup (verts g) /\
  (forall h q, In (h, q, true) (arcs g) <-> mentioned P h q true) /\
  (forall h q, In (h, q, false) (arcs g) <-> mentioned P h q false /\ ~ mentioned P h q true) /\
  (forall h q b b', In (h, q, b) (arcs g) -> In (h, q, b') (arcs g) -> b = b').
Proof.
  cbv zeta. rewrite make_dep_graph_ops.
  assert (Hwf : wf (fold_left apply_op (ops P) [])) by (apply wf_fold, wf_nil).
  assert (Hlk : forall h q, lk (fold_left apply_op (ops P) []) h q =
                            combine None (existsb (eb h q true) (ops P)) (existsb (eb h q false) (ops P)))
    by (intros h q; apply lk_fold).
  split; [|split; [|split; [|split]]].
  - intros h. rewrite verts_isn, isn_fold. simpl. apply ops_src.
  - destruct Hwf as [H1 _]. exact H1.
  - intros h q. rewrite (arcs_lk _ Hwf), Hlk, <- ops_eb. unfold combine. simpl.
    destruct (existsb (eb h q true) (ops P)), (existsb (eb h q false) (ops P)); simpl;
      split; intros H; try reflexivity; discriminate H.
  - intros h q. rewrite (arcs_lk _ Hwf), Hlk, <- !ops_eb. unfold combine. simpl.
    destruct (existsb (eb h q true) (ops P)), (existsb (eb h q false) (ops P)); simpl;
      split; intros H; try reflexivity; try discriminate H;
      try match type of H with _ /\ _ =>
            destruct H as [Ha Hb]; first [discriminate Ha | exfalso; apply Hb; reflexivity] end.
    split; [reflexivity|discriminate].
  - intros h q b b'. rewrite !(arcs_lk _ Hwf). intros -> [= ->]. reflexivity.
Qed.
