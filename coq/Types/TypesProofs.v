(* Proofs about the model coq/Types/Types.v: the strict conformance judgement
   is sound for membership; the bounds are bounds. *)
From Coq Require Import List BinInt Bool PeanoNat.
From MV Require Import Types.Types.
Import ListNotations.
Open Scope Z_scope.

(* ------------------------------------------------------------------ strings *)
Lemma str_eqb_eq : forall a b, str_eqb a b = true -> a = b.
Proof.
  induction a as [|x a IH]; destruct b as [|y b]; simpl; intros H; try discriminate; auto.
  apply andb_true_iff in H. destruct H as [H1 H2]. apply Z.eqb_eq in H1. subst. f_equal. auto.
Qed.

Lemma str_eqb_refl : forall a, str_eqb a a = true.
Proof. induction a; simpl; auto. rewrite Z.eqb_refl. auto. Qed.

Lemma str_eqb_sym : forall a b, str_eqb a b = str_eqb b a.
Proof.
  intros a b. destruct (str_eqb a b) eqn:E.
  - apply str_eqb_eq in E. subst. symmetry. apply str_eqb_refl.
  - destruct (str_eqb b a) eqn:E2; auto. apply str_eqb_eq in E2. subst. rewrite str_eqb_refl in E. discriminate.
Qed.

Lemma has_prefix_app : forall p s, has_prefix s p = true -> exists r, s = p ++ r.
Proof.
  induction p as [|y p IH]; simpl; intros s H.
  - exists s. reflexivity.
  - destruct s as [|x s]; try discriminate. apply andb_true_iff in H. destruct H as [H1 H2].
    apply Z.eqb_eq in H1. subst. destruct (IH _ H2) as [r Hr]. exists r. subst. reflexivity.
Qed.

Lemma has_prefix_intro : forall p r, has_prefix (p ++ r) p = true.
Proof. induction p; simpl; intros; auto. rewrite Z.eqb_refl. simpl. auto. Qed.

Lemma prefix_trans_slash : forall cs ls rs,
  has_prefix ls (rs ++ [slash]) = true -> has_prefix cs (ls ++ [slash]) = true ->
  has_prefix cs (rs ++ [slash]) = true.
Proof.
  intros cs ls rs H1 H2. apply has_prefix_app in H1. apply has_prefix_app in H2.
  destruct H1 as [r1 H1]. destruct H2 as [r2 H2]. subst.
  repeat rewrite <- app_assoc. rewrite app_assoc. apply has_prefix_intro.
Qed.

(* ---------------------------------------------------------------- constants *)
Lemma const_eqb_eq : forall a b, const_eqb a b = true -> a = b.
Proof.
  induction a; destruct b; simpl; intros H; try discriminate; auto;
    repeat match goal with
           | H : _ && _ = true |- _ => apply andb_true_iff in H; destruct H
           | H : str_eqb _ _ = true |- _ => apply str_eqb_eq in H
           | H : (_ =? _) = true |- _ => apply Z.eqb_eq in H
           end; subst; f_equal; auto.
Qed.

(* ------------------------------------------------- induction principle of ty *)
Section TyInd.
  Variable P : ty -> Prop.
  Hypothesis HConst : forall s, P (TConst s).
  Hypothesis HSing : forall c, P (TSingleton c).
  Hypothesis HPair : forall a b, P a -> P b -> P (TPair a b).
  Hypothesis HTuple : forall ts, Forall P ts -> P (TTuple ts).
  Hypothesis HList : forall e, P e -> P (TList e).
  Hypothesis HMap : forall k v, P k -> P v -> P (TMap k v).
  Hypothesis HStruct : forall req opt, Forall (fun kt => P (snd kt)) req -> Forall (fun kt => P (snd kt)) opt ->
                                       P (TStruct req opt).
  Hypothesis HUnion : forall ts, Forall P ts -> P (TUnion ts).
  Hypothesis HTagged : forall tag vs, Forall (fun kt => P (snd kt)) vs -> P (TTagged tag vs).

  Fixpoint ty_ind' (t : ty) : P t :=
    match t with
    | TConst s => HConst s
    | TSingleton c => HSing c
    | TPair a b => HPair a b (ty_ind' a) (ty_ind' b)
    | TTuple ts => HTuple ts ((fix go (l : list ty) : Forall P l :=
                                 match l with [] => Forall_nil _ | x :: l' => Forall_cons x (ty_ind' x) (go l') end) ts)
    | TList e => HList e (ty_ind' e)
    | TMap k v => HMap k v (ty_ind' k) (ty_ind' v)
    | TStruct req opt =>
        HStruct req opt
          ((fix go (l : list (str * ty)) : Forall (fun kt => P (snd kt)) l :=
              match l with [] => Forall_nil _ | x :: l' => Forall_cons x (ty_ind' (snd x)) (go l') end) req)
          ((fix go (l : list (str * ty)) : Forall (fun kt => P (snd kt)) l :=
              match l with [] => Forall_nil _ | x :: l' => Forall_cons x (ty_ind' (snd x)) (go l') end) opt)
    | TUnion ts => HUnion ts ((fix go (l : list ty) : Forall P l :=
                                 match l with [] => Forall_nil _ | x :: l' => Forall_cons x (ty_ind' x) (go l') end) ts)
    | TTagged tag vs =>
        HTagged tag vs
          ((fix go (l : list (str * ty)) : Forall (fun kt => P (snd kt)) l :=
              match l with [] => Forall_nil _ | x :: l' => Forall_cons x (ty_ind' (snd x)) (go l') end) vs)
    end.
End TyInd.

Lemma list_eqb_eq : forall {A} (eqb : A -> A -> bool) (xs ys : list A),
  Forall (fun x => forall y, eqb x y = true -> x = y) xs -> list_eqb eqb xs ys = true -> xs = ys.
Proof.
  intros A eqb xs. induction xs as [|x xs IH]; destruct ys as [|y ys]; simpl; intros HF H; try discriminate; auto.
  apply andb_true_iff in H. destruct H as [H1 H2]. inversion HF; subst. f_equal; auto.
Qed.

Definition field_eqb (p q : str * ty) : bool := str_eqb (fst p) (fst q) && ty_eqb (snd p) (snd q).

Lemma fields_forall : forall (l : list (str * ty)),
  Forall (fun kt => forall b, ty_eqb (snd kt) b = true -> snd kt = b) l ->
  Forall (fun x => forall y, field_eqb x y = true -> x = y) l.
Proof.
  intros l H. induction H as [|x l Hx Hl IH]; constructor; auto.
  intros [k2 t2] E. destruct x as [k1 t1]. unfold field_eqb in E. simpl in *.
  apply andb_true_iff in E. destruct E as [E1 E2]. apply str_eqb_eq in E1. apply Hx in E2. subst. reflexivity.
Qed.

Lemma ty_eqb_eq : forall a b, ty_eqb a b = true -> a = b.
Proof.
  induction a as [s|c|a1 IH1 a2 IH2|ts IH|e IH|k IHk v IHv|req opt IHr IHo|ts IH|tag vs IH] using ty_ind';
    destruct b; simpl; intros E; try discriminate.
  - apply str_eqb_eq in E. subst. reflexivity.
  - apply const_eqb_eq in E. subst. reflexivity.
  - apply andb_true_iff in E. destruct E as [E1 E2]. f_equal; auto.
  - f_equal. eapply list_eqb_eq; eauto.
  - f_equal. auto.
  - apply andb_true_iff in E. destruct E as [E1 E2]. f_equal; auto.
  - apply andb_true_iff in E. destruct E as [E1 E2]. f_equal.
    + eapply (list_eqb_eq field_eqb); eauto. apply fields_forall. assumption.
    + eapply (list_eqb_eq field_eqb); eauto. apply fields_forall. assumption.
  - f_equal. eapply list_eqb_eq; eauto.
  - apply andb_true_iff in E. destruct E as [E1 E2]. apply str_eqb_eq in E1. subst. f_equal.
    eapply (list_eqb_eq field_eqb); eauto. apply fields_forall. assumption.
Qed.

(* -------------------------------------------------- option-bool combinators *)
Lemma andthen_true : forall a b, andthen a b = Some true -> a = Some true /\ b = Some true.
Proof. intros [[|]|] b H; simpl in H; try discriminate. auto. Qed.

Lemma all_o_In : forall {A} (f : A -> option bool) l, all_o f l = Some true -> forall x, In x l -> f x = Some true.
Proof.
  induction l as [|y l IH]; simpl; intros H x Hin. contradiction.
  apply andthen_true in H. destruct H as [H1 H2]. destruct Hin as [->|Hin]; auto.
Qed.

Lemma any_o_true : forall {A} (f : A -> option bool) l, any_o f l = Some true -> exists x, In x l /\ f x = Some true.
Proof.
  induction l as [|y l IH]; simpl; intros H. discriminate.
  destruct (f y) as [[|]|] eqn:E; try discriminate.
  - exists y. auto.
  - destruct (IH H) as [x [Hx Hf]]. exists x. auto.
Qed.

Lemma tuple_all_forall2 : forall (f : ty -> ty -> option bool) ls rs,
  length ls = length rs -> tuple_all f ls rs = Some true -> Forall2 (fun l r => f l r = Some true) ls rs.
Proof.
  induction ls as [|l ls IH]; destruct rs as [|r rs]; simpl; intros HL H; try discriminate; constructor.
  - apply andthen_true in H. tauto.
  - apply IH. congruence. apply andthen_true in H. tauto.
Qed.

(* ---------------------------------------------------------- membership: mono *)
Lemma list_all_mono : forall (f g : const -> bool), (forall x, f x = true -> g x = true) ->
  forall c, list_all f c = true -> list_all g c = true.
Proof.
  intros f g Hfg. induction c; simpl; intros H; try discriminate; auto.
  apply andb_true_iff in H. destruct H as [H1 H2]. apply andb_true_iff. split; auto.
Qed.

Lemma map_all_mono : forall (fk fv gv : const -> bool), (forall x, fv x = true -> gv x = true) ->
  forall c, map_all fk fv c = true -> map_all fk gv c = true.
Proof.
  intros fk fv gv Hfg. induction c; simpl; intros H; try discriminate; auto.
  apply andb_true_iff in H. destruct H as [H1 H3]. apply andb_true_iff in H1. destruct H1 as [H1 H2].
  rewrite H1. rewrite (Hfg _ H2). simpl. auto.
Qed.

Fixpoint tup_has (ts : list ty) (c : const) {struct ts} : bool :=
  match ts with
  | [] => false
  | a :: ts' =>
      match ts' with
      | [] => false
      | b :: ts'' =>
          match c with
          | CPair x y => has_type a x && match ts'' with [] => has_type b y | _ => tup_has ts' y end
          | _ => false
          end
      end
  end.

Lemma has_type_tuple : forall ts c, has_type (TTuple ts) c = tup_has ts c.
Proof. intros. reflexivity. Qed.

Lemma tup_mono : forall ls rs,
  Forall2 (fun l r => forall c, has_type l c = true -> has_type r c = true) ls rs ->
  forall c, tup_has ls c = true -> tup_has rs c = true.
Proof.
  induction 1 as [|l r ls rs Hlr HF IH]; intros c Hc. discriminate.
  destruct HF as [|l2 r2 ls2 rs2 Hlr2 HF2]. discriminate.
  simpl in Hc. destruct c; try discriminate. apply andb_true_iff in Hc. destruct Hc as [H1 H2].
  simpl. apply andb_true_iff. split. auto.
  destruct HF2 as [|l3 r3 ls3 rs3 Hlr3 HF3]. auto.
  apply IH. assumption.
Qed.

(* ------------------------------------------------------------ field lookups *)
Lemma mem_str_In : forall k l, mem_str k l = true <-> In k l.
Proof.
  intros k l. unfold mem_str. rewrite existsb_exists. split.
  - intros [x [Hx E]]. apply str_eqb_eq in E. subst. assumption.
  - intros H. exists k. split; auto. apply str_eqb_refl.
Qed.

Lemma lookup_last_app : forall {A} k (a b : list (str * A)),
  lookup_last k (a ++ b) = match lookup_last k b with Some x => Some x | None => lookup_last k a end.
Proof.
  induction a as [|[k' x] a IH]; simpl; intros.
  - destruct (lookup_last k b); auto.
  - rewrite IH. destruct (lookup_last k b); auto.
Qed.

Lemma lookup_last_map : forall {A B} (g : A -> B) k (l : list (str * A)),
  lookup_last k (map (fun kt => (fst kt, g (snd kt))) l) = option_map g (lookup_last k l).
Proof.
  induction l as [|[k' x] l IH]; simpl; auto. rewrite IH.
  destruct (lookup_last k l); simpl; auto. destruct (str_eqb k k'); auto.
Qed.

Lemma lookup_last_In : forall {A} k (l : list (str * A)) a, lookup_last k l = Some a -> In (k, a) l.
Proof.
  induction l as [|[k' x] l IH]; simpl; intros a H. discriminate.
  destruct (lookup_last k l) eqn:E.
  - inversion H; subst. right. auto.
  - destruct (str_eqb k k') eqn:E2; try discriminate. inversion H; subst. apply str_eqb_eq in E2. subst. left. reflexivity.
Qed.

Lemma mem_lookup_some : forall {A} k (l : list (str * A)), mem_str k (map fst l) = true -> exists a, lookup_last k l = Some a.
Proof.
  induction l as [|[k' x] l IH]; simpl; intros H. discriminate.
  destruct (lookup_last k l) eqn:E. eauto.
  destruct (str_eqb k k') eqn:E2. eauto. simpl in H. destruct (IH H) as [a Ha]. discriminate.
Qed.

Lemma lookup_some_mem : forall {A} k (l : list (str * A)) a, lookup_last k l = Some a -> mem_str k (map fst l) = true.
Proof.
  intros A k l a H. apply lookup_last_In in H. apply mem_str_In. apply (in_map fst) in H. assumption.
Qed.

Lemma mem_app : forall k a b, mem_str k (a ++ b) = mem_str k a || mem_str k b.
Proof. intros. unfold mem_str. apply existsb_app. Qed.

Lemma nodup_app_disj : forall k a b, nodup_str (a ++ b) = true -> mem_str k a = true -> mem_str k b = false.
Proof.
  induction a as [|x a IH]; simpl; intros b H Hm. discriminate.
  apply andb_true_iff in H. destruct H as [H1 H2]. apply negb_true_iff in H1.
  destruct (str_eqb k x) eqn:E.
  - apply str_eqb_eq in E. subst. rewrite mem_app in H1. apply orb_false_iff in H1. tauto.
  - simpl in Hm. auto.
Qed.

Lemma nodup_count : forall l, nodup_str l = true -> count_distinct l = length l.
Proof.
  induction l as [|x l IH]; simpl; intros H; auto.
  apply andb_true_iff in H. destruct H as [H1 H2]. apply negb_true_iff in H1. rewrite H1. f_equal. auto.
Qed.

(* ------------------------------------------------------------------ structs *)
Definition chk_le (L R : list (str * (const -> bool))) : Prop :=
  forall k f, lookup_last k L = Some f ->
              exists g, lookup_last k R = Some g /\ forall v, f v = true -> g v = true.

Lemma struct_walk_mono : forall L R, chk_le L R ->
  forall c seen, struct_walk L c = Some seen -> struct_walk R c = Some seen.
Proof.
  intros L R HLR. induction c; simpl; intros seen H; try discriminate; auto.
  destruct c1; try discriminate.
  destruct (lookup_last s L) as [f|] eqn:El; try discriminate.
  destruct (f c2) eqn:Ef; try discriminate.
  destruct (struct_walk L c3) as [seen'|] eqn:Ew; try discriminate.
  destruct (HLR _ _ El) as [g [Hg Hfg]]. rewrite Hg. rewrite (Hfg _ Ef). rewrite (IHc3 _ eq_refl). assumption.
Qed.

Lemma struct_has_mono : forall L R, chk_le L R ->
  count_distinct (map fst L) = count_distinct (map fst R) -> (L = [] -> R = []) ->
  forall c, struct_has L c = true -> struct_has R c = true.
Proof.
  intros L R HLR Hcnt Hnil c H. destruct c; simpl in *; try discriminate.
  - destruct L; try discriminate. rewrite Hnil; auto.
  - destruct c1; try discriminate.
    destruct (lookup_last s L) as [f|] eqn:El; try discriminate.
    destruct (f c2) eqn:Ef; try discriminate.
    destruct (struct_walk L c3) as [seen'|] eqn:Ew; try discriminate.
    destruct (HLR _ _ El) as [g [Hg Hfg]]. rewrite Hg. rewrite (Hfg _ Ef).
    rewrite (struct_walk_mono _ _ HLR _ _ Ew). rewrite <- Hcnt. assumption.
Qed.

Definition fchk (kt : str * ty) : str * (const -> bool) := (fst kt, has_type (snd kt)).

Lemma has_type_struct : forall req opt c, has_type (TStruct req opt) c = struct_has (map fchk (req ++ opt)) c.
Proof. intros. rewrite map_app. reflexivity. Qed.

Lemma map_fst_fchk : forall l, map fst (map fchk l) = map fst l.
Proof. intros. rewrite map_map. apply map_ext. reflexivity. Qed.

(* ---------------------------------------------------------------- base types *)
Lemma has_type_any : forall c, has_type t_any c = true.
Proof. intros. reflexivity. Qed.

Lemma has_type_bot : forall c, has_type (TConst s_bot) c = false.
Proof. intros. reflexivity. Qed.

Lemma is_const_eq : forall s t, is_const s t = true -> t = TConst s.
Proof. intros s [] H; simpl in H; try discriminate. apply str_eqb_eq in H. subst. reflexivity. Qed.

Lemma has_base_type_nonbase : forall s c, is_base_const s = false ->
  has_base_type s c = match c with CName cs => has_prefix cs (s ++ [slash]) | _ => false end.
Proof.
  intros s c H. unfold is_base_const in H.
  repeat (apply orb_false_iff in H; destruct H as [H ?]).
  unfold has_base_type.
  repeat match goal with E : str_eqb s _ = false |- _ => rewrite E; clear E end.
  reflexivity.
Qed.

Lemma has_type_name : forall cs, has_type (TConst s_name) (CName cs) = true.
Proof. intros. reflexivity. Qed.

Lemma const_rule_sound : forall ls rs, const_rule Strict ls rs = true ->
  forall c, has_type (TConst ls) c = true -> has_type (TConst rs) c = true.
Proof.
  intros ls rs H c Hc. unfold const_rule in H.
  destruct (is_base_const ls) eqn:El; try discriminate.
  simpl in Hc. rewrite (has_base_type_nonbase _ _ El) in Hc.
  destruct c; try discriminate.
  destruct (str_eqb rs s_name) eqn:En.
  - apply str_eqb_eq in En. subst. reflexivity.
  - destruct (is_base_const rs) eqn:Er; try discriminate.
    simpl. rewrite (has_base_type_nonbase _ _ Er). eapply prefix_trans_slash; eauto.
Qed.

Lemma shortcut_sound : forall l r, ty_eqb l r || is_const s_any r || is_const s_bot l = true ->
  forall c, has_type l c = true -> has_type r c = true.
Proof.
  intros l r H c Hc. apply orb_true_iff in H. destruct H as [H|H].
  - apply orb_true_iff in H. destruct H as [H|H].
    + apply ty_eqb_eq in H. subst. assumption.
    + apply is_const_eq in H. subst. reflexivity.
  - apply is_const_eq in H. subst. rewrite has_type_bot in Hc. discriminate.
Qed.

(* --------------------------------------------------- struct rule (Strict) *)
Lemma struct_rule_sound : forall n'
  (IH : forall l r, tc Strict n' l r = Some true -> forall c, has_type l c = true -> has_type r c = true)
  lreq lopt rreq ropt,
  same_fields (map fst (lreq ++ lopt)) (map fst (rreq ++ ropt)) = true ->
  all_o (fun krt : str * ty =>
           match lookup_last (fst krt) lreq with
           | Some lt => tc Strict n' lt (snd krt)
           | None => Some false
           end) rreq = Some true ->
  all_o (fun krt : str * ty =>
           match lookup_last (fst krt) lreq with
           | Some lt => tc Strict n' lt (snd krt)
           | None => match lookup_last (fst krt) lopt with
                     | Some lt => tc Strict n' lt (snd krt)
                     | None => Some true
                     end
           end) ropt = Some true ->
  forall c, has_type (TStruct lreq lopt) c = true -> has_type (TStruct rreq ropt) c = true.
Proof.
  intros n' IH lreq lopt rreq ropt Hsf HA HB c Hc.
  rewrite has_type_struct in *.
  unfold same_fields in Hsf.
  repeat (apply andb_true_iff in Hsf; destruct Hsf as [Hsf ?]).
  rename Hsf into HndL. rename H into HLR. rename H0 into HRL. rename H1 into Hlen. rename H2 into HndR.
  apply Nat.eqb_eq in Hlen.
  assert (Hkey : forall k lt rt, lookup_last k (lreq ++ lopt) = Some lt -> In (k, rt) (rreq ++ ropt) ->
                                 tc Strict n' lt rt = Some true).
  { intros k lt rt El Hin. apply in_app_or in Hin. destruct Hin as [Hin|Hin].
    - pose proof (all_o_In _ _ HA _ Hin) as Hx. simpl in Hx.
      destruct (lookup_last k lreq) as [lt'|] eqn:E1; try discriminate.
      rewrite lookup_last_app in El.
      assert (lookup_last k lopt = None) as E2.
      { destruct (lookup_last k lopt) eqn:E2; auto.
        apply lookup_some_mem in E1. apply lookup_some_mem in E2.
        rewrite map_app in HndL. rewrite (nodup_app_disj _ _ _ HndL E1) in E2. discriminate. }
      rewrite E2, E1 in El. inversion El; subst. assumption.
    - pose proof (all_o_In _ _ HB _ Hin) as Hx. simpl in Hx.
      rewrite lookup_last_app in El.
      destruct (lookup_last k lreq) as [lt'|] eqn:E1.
      + assert (lookup_last k lopt = None) as E2.
        { destruct (lookup_last k lopt) eqn:E2; auto.
          apply lookup_some_mem in E1. apply lookup_some_mem in E2.
          rewrite map_app in HndL. rewrite (nodup_app_disj _ _ _ HndL E1) in E2. discriminate. }
        rewrite E2 in El. inversion El; subst. assumption.
      + destruct (lookup_last k lopt) as [lt'|] eqn:E2; try discriminate.
        inversion El; subst. assumption. }
  eapply struct_has_mono; [ | | | exact Hc].
  - intros k f Hf. unfold fchk in Hf. rewrite lookup_last_map in Hf.
    destruct (lookup_last k (lreq ++ lopt)) as [lt|] eqn:El; simpl in Hf; try discriminate.
    inversion Hf; subst f.
    assert (mem_str k (map fst (rreq ++ ropt)) = true) as Hm.
    { apply lookup_some_mem in El. apply mem_str_In in El.
      rewrite forallb_forall in HLR. apply HLR. assumption. }
    destruct (mem_lookup_some _ _ Hm) as [rt Er].
    exists (has_type rt). split.
    + unfold fchk. rewrite lookup_last_map. rewrite Er. reflexivity.
    + apply IH. eapply Hkey; eauto. apply lookup_last_In. assumption.
  - repeat rewrite map_fst_fchk. repeat rewrite nodup_count; auto.
  - intros E. apply map_eq_nil in E. rewrite E in Hlen. simpl in Hlen.
    symmetry in Hlen. apply length_zero_iff_nil in Hlen. apply map_eq_nil in Hlen. rewrite Hlen. reflexivity.
Qed.

(* ------------------------------------------------ TypeConforms (Strict) sound *)
Lemma Forall2_imp : forall {A B} (R1 R2 : A -> B -> Prop) l l',
  (forall a b, R1 a b -> R2 a b) -> Forall2 R1 l l' -> Forall2 R2 l l'.
Proof. intros A B R1 R2 l l' H HF. induction HF; constructor; auto. Qed.

Lemma tc_sound : forall n l r, tc Strict n l r = Some true ->
  forall c, has_type l c = true -> has_type r c = true.
Proof.
  induction n as [|n IH]; intros l r H c Hc. discriminate.
  simpl in H.
  destruct (ty_eqb l r || is_const s_any r || is_const s_bot l) eqn:Esc.
  { eapply shortcut_sound; eauto. }
  destruct l.
  - (* both constants *)
    destruct r; try discriminate. injection H as H1. eapply const_rule_sound; [exact H1 | exact Hc].
  - (* singleton on the left: membership of the constant *)
    assert (has_type r c0 = true) as Hr by (destruct r; injection H as H1; exact H1).
    simpl in Hc. apply const_eqb_eq in Hc. subst. assumption.
  - (* pair *)
    destruct r; try discriminate. apply andthen_true in H. destruct H as [H1 H2].
    simpl in *. destruct c; try discriminate. apply andb_true_iff in Hc. destruct Hc as [Hc1 Hc2].
    rewrite (IH _ _ H1 _ Hc1). rewrite (IH _ _ H2 _ Hc2). reflexivity.
  - (* tuple *)
    destruct r; try discriminate.
    destruct (Nat.eqb (length ts) (length ts0)) eqn:El; try discriminate.
    apply Nat.eqb_eq in El. apply tuple_all_forall2 in H; auto.
    rewrite has_type_tuple in *. eapply tup_mono; [|eassumption].
    eapply Forall2_imp; [|eassumption]. intros a b Hab x Hx. simpl in Hab. eapply IH; eauto.
  - (* list *)
    destruct r; try discriminate. simpl in *. eapply list_all_mono; [|eassumption].
    intros x Hx. eapply IH; eauto.
  - (* map: equal key types *)
    destruct r; try discriminate.
    destruct (ty_eqb l1 r1) eqn:Ek; try discriminate. apply ty_eqb_eq in Ek. subst.
    simpl in *. eapply map_all_mono; [|eassumption]. intros x Hx. eapply IH; eauto.
  - (* struct: same field set *)
    destruct r; try discriminate.
    destruct (same_fields (map fst (req ++ opt)) (map fst (req0 ++ opt0))) eqn:Esf; simpl in H; try discriminate.
    destruct (Nat.ltb (length req) (length req0)); try discriminate.
    apply andthen_true in H. destruct H as [HA HB].
    eapply struct_rule_sound; eauto.
  - destruct r; discriminate.
  - destruct r; discriminate.
Qed.

(* -------------------------------------------------- tagged union = expansion *)
Lemma existsb_ext_map : forall {A B} (f : A -> bool) (g : B -> bool) (h : A -> B) l,
  (forall x, f x = g (h x)) -> existsb f l = existsb g (map h l).
Proof. intros A B f g h l H. induction l as [|x l IH]; simpl; auto. rewrite H, IH. reflexivity. Qed.

Lemma has_type_expand : forall tag vs c,
  has_type (TTagged tag vs) c = has_type (expand_tagged true tag vs) c.
Proof.
  intros tag vs c. unfold expand_tagged.
  change (has_type (TTagged tag vs) c) with
    (existsb (fun v : str * ty =>
                match snd v with
                | TStruct rq op =>
                    struct_has (((tag, fun c' => const_eqb c' (CName (fst v))) ::
                                 map (fun kt => (fst kt, has_type (snd kt))) rq) ++
                                map (fun kt => (fst kt, has_type (snd kt))) op) c
                | _ => struct_has [(tag, fun c' => const_eqb c' (CName (fst v)))] c
                end) vs).
  change (has_type (TUnion ?l) c) with (existsb (fun t' => has_type t' c) l).
  apply existsb_ext_map. intros [vt st]. destruct st; reflexivity.
Qed.

(* --------------------------------------------------- SetConforms (Strict) sound *)
Section ScArms.
  Variable n : nat.
  Hypothesis IH : forall l r, sc Strict n l r = Some true -> forall c, has_type l c = true -> has_type r c = true.

  Lemma arm_right_union : forall l rs,
    match any_o (fun y => sc Strict n l y) rs with
    | Some true => Some true
    | Some false => tc Strict n l (TUnion rs)
    | None => None
    end = Some true ->
    forall c, has_type l c = true -> has_type (TUnion rs) c = true.
  Proof.
    intros l rs H c Hc. destruct (any_o (fun y => sc Strict n l y) rs) as [[|]|] eqn:E; try discriminate.
    - apply any_o_true in E. destruct E as [y [Hy Hs]]. simpl. apply existsb_exists. exists y. split; auto.
      eapply IH; eauto.
    - eapply tc_sound; eauto.
  Qed.

  Lemma arm_left_union : forall ls r, all_o (fun x => sc Strict n x r) ls = Some true ->
    forall c, has_type (TUnion ls) c = true -> has_type r c = true.
  Proof.
    intros ls r H c Hc. simpl in Hc. apply existsb_exists in Hc. destruct Hc as [x [Hx Hxc]].
    eapply IH; [|eassumption]. eapply all_o_In in H; eauto.
  Qed.

  Lemma arm_right_tagged : forall l tag vs, sc Strict n l (expand_tagged true tag vs) = Some true ->
    forall c, has_type l c = true -> has_type (TTagged tag vs) c = true.
  Proof. intros l tag vs H c Hc. rewrite has_type_expand. eapply IH; eauto. Qed.

  Lemma arm_left_tagged : forall tag vs r, sc Strict n (expand_tagged true tag vs) r = Some true ->
    forall c, has_type (TTagged tag vs) c = true -> has_type r c = true.
  Proof. intros tag vs r H c Hc. rewrite has_type_expand in Hc. eapply IH; eauto. Qed.
End ScArms.

Lemma sc_sound : forall n l r, sc Strict n l r = Some true ->
  forall c, has_type l c = true -> has_type r c = true.
Proof.
  induction n as [|n IH]; intros l r H c Hc. discriminate.
  simpl in H.
  destruct (ty_eqb l r || is_const s_any r || is_const s_bot l) eqn:Esc.
  { eapply shortcut_sound; eauto. }
  destruct l;
    try (destruct r;
         first [ eapply tc_sound; eassumption
               | eapply arm_right_union; eassumption
               | eapply arm_right_tagged; eassumption
               | eapply arm_left_union; eassumption ]).
  eapply arm_left_tagged; eassumption.
Qed.

(* ------------------------------------------------------------------- bounds *)
Definition hit (red : list ty) (c : const) : Prop := exists e, In e red /\ has_type e c = true.

Lemma has_type_union_hit : forall ts c, has_type (TUnion ts) c = true <-> hit ts c.
Proof.
  intros ts c. simpl. rewrite existsb_exists. unfold hit. tauto.
Qed.

Lemma collect_o_spec : forall {A} (f : A -> option (list ty)) xs res,
  collect_o f xs = Some res -> forall u, In u res -> exists x l, In x xs /\ f x = Some l /\ In u l.
Proof.
  induction xs as [|x xs IH]; simpl; intros res H u Hu.
  - inversion H; subst. contradiction.
  - destruct (f x) as [l|] eqn:Ef; try discriminate.
    destruct (collect_o f xs) as [r|] eqn:Er; try discriminate.
    inversion H; subst. apply in_app_or in Hu. destruct Hu as [Hu|Hu].
    + exists x, l. auto.
    + destruct (IH _ eq_refl _ Hu) as [x' [l' [H1 [H2 H3]]]]. exists x', l'. auto.
Qed.

Section BoundsProofs.
  Variable conf : ty -> ty -> option bool.
  Variable srt : list ty -> list ty.
  Hypothesis conf_sound : forall a b, conf a b = Some true ->
                                      forall c, has_type a c = true -> has_type b c = true.
  Hypothesis srt_in : forall l x, In x (srt l) <-> In x l.

  Lemma ub_insert_spec : forall t red red', ub_insert conf t red = Some red' ->
    (forall c, hit red c -> hit red' c) /\
    (forall c, has_type t c = true -> hit red' c) /\
    (forall e, In e red' -> In e red \/ e = t).
  Proof.
    intros t. induction red as [|e r IH]; simpl; intros red' H.
    - inversion H; subst. split; [|split].
      + intros c [e [[] _]].
      + intros c Hc. exists t. simpl. auto.
      + intros e [->|[]]. auto.
    - destruct (conf t e) as [[|]|] eqn:E1; try discriminate.
      + inversion H; subst. split; [|split]; auto.
        intros c Hc. exists e. split. left; reflexivity. eapply conf_sound; eauto.
      + destruct (conf e t) as [[|]|] eqn:E2; try discriminate.
        * inversion H; subst. split; [|split].
          -- intros c [e0 [[->|Hin] Hc]].
             ++ exists t. split. left; reflexivity. eapply conf_sound; eauto.
             ++ exists e0. split. right; assumption. assumption.
          -- intros c Hc. exists t. split. left; reflexivity. assumption.
          -- intros e0 [->|Hin]. auto. left. right. assumption.
        * destruct (ub_insert conf t r) as [r0|] eqn:E3; try discriminate.
          inversion H; subst. destruct (IH _ eq_refl) as [I1 [I2 I3]]. split; [|split].
          -- intros c [e0 [[->|Hin] Hc]].
             ++ exists e0. split. left; reflexivity. assumption.
             ++ destruct (I1 c) as [e1 [H1 H2]]. exists e0; auto. exists e1. split. right; assumption. assumption.
          -- intros c Hc. destruct (I2 c Hc) as [e1 [H1 H2]]. exists e1. split. right; assumption. assumption.
          -- intros e0 [->|Hin]. left; left; reflexivity.
             destruct (I3 _ Hin) as [H1|H1]. left; right; assumption. right; assumption.
  Qed.

  Lemma ub_loop_spec : forall wl red red', ub_loop conf wl red = Some red' ->
    (forall c, hit red c -> hit red' c) /\
    (forall t, In t wl -> forall c, has_type t c = true -> hit red' c) /\
    (forall e, In e red' -> In e red \/ In e wl).
  Proof.
    induction wl as [|t wl IH]; simpl; intros red red' H.
    - inversion H; subst. split; [|split]; auto. intros t [].
    - destruct (ub_insert conf t red) as [r|] eqn:E; try discriminate.
      destruct (ub_insert_spec _ _ _ E) as [A1 [A2 A3]].
      destruct (IH _ _ H) as [B1 [B2 B3]]. split; [|split].
      + intros c Hc. auto.
      + intros t0 [->|Hin] c Hc. auto. eapply B2; eauto.
      + intros e He. destruct (B3 _ He) as [H1|H1].
        * destruct (A3 _ H1) as [H2|H2]. auto. subst. right. left. reflexivity.
        * right. right. assumption.
  Qed.

  Lemma worklist_hit : forall ts t c, In t ts -> has_type t c = true -> hit (ub_worklist ts) c.
  Proof.
    intros ts t c Hin Hc. unfold ub_worklist, hit.
    assert (forall e, In e (match t with TUnion xs => xs | _ => [t] end) -> In e (flat_map (fun t => match t with TUnion xs => xs | _ => [t] end) ts)) as Hsub.
    { intros e He. apply in_flat_map. exists t. auto. }
    destruct t;
      try (eexists; split; [apply Hsub; left; reflexivity | assumption]).
    apply has_type_union_hit in Hc. destruct Hc as [e [He Hec]]. exists e. split; auto.
  Qed.

  Lemma worklist_back : forall ts e c, In e (ub_worklist ts) -> has_type e c = true ->
    exists t, In t ts /\ has_type t c = true.
  Proof.
    intros ts e c Hin Hc. unfold ub_worklist in Hin. apply in_flat_map in Hin.
    destruct Hin as [t [Ht He]]. exists t. split; auto.
    destruct t; try (destruct He as [<-|[]]; assumption).
    apply has_type_union_hit. exists e. auto.
  Qed.

  Lemma upper_bound_spec : forall ts U, upper_bound conf srt ts = Some U ->
    (forall t, In t ts -> forall c, has_type t c = true -> has_type U c = true) /\
    (forall c, has_type U c = true -> exists t, In t ts /\ has_type t c = true).
  Proof.
    intros ts U H. unfold upper_bound in H.
    destruct (existsb (is_const s_any) ts) eqn:Eany.
    { inversion H; subst. split. reflexivity.
      intros c _. apply existsb_exists in Eany. destruct Eany as [t [Ht Hc]].
      apply is_const_eq in Hc. subst. exists (TConst s_any). auto. }
    destruct (ub_worklist ts) as [|w rest] eqn:Ewl.
    { inversion H; subst. split.
      - intros t Ht c Hc. destruct (worklist_hit _ _ _ Ht Hc) as [e [He _]]. rewrite Ewl in He. contradiction.
      - intros c Hc. discriminate. }
    destruct (ub_loop conf rest [w]) as [red|] eqn:Eloop; try discriminate.
    destruct (ub_loop_spec _ _ _ Eloop) as [L1 [L2 L3]].
    assert (forall c, has_type U c = true <-> hit red c) as HU.
    { intros c. destruct red as [|x [|y l]]; inversion H; subst.
      - rewrite has_type_union_hit. unfold hit. split; intros [e [He Hc]]; exists e; split; auto; apply srt_in; auto.
      - unfold hit. split. intros Hc. exists U. simpl; auto. intros [e [[->|[]] Hc]]. assumption.
      - rewrite has_type_union_hit. unfold hit. split; intros [e [He Hc]]; exists e; split; auto; apply srt_in; auto. }
    split.
    - intros t Ht c Hc. apply HU. destruct (worklist_hit _ _ _ Ht Hc) as [e [He Hec]]. rewrite Ewl in He.
      destruct He as [->|He].
      + apply L1. exists e. simpl; auto.
      + eapply L2; eauto.
    - intros c Hc. apply HU in Hc. destruct Hc as [e [He Hec]].
      eapply worklist_back; [|eassumption]. rewrite Ewl. destruct (L3 _ He) as [[->|[]]|H1].
      left; reflexivity. right; assumption.
  Qed.

  Lemma intersect_unfold : forall a b, intersect conf srt a b =
    if ty_eqb a b then Some a
    else if is_const s_any a then Some b
    else if is_const s_any b then Some a
    else
      match conf a b with
      | None => None
      | Some true => Some a
      | Some false =>
        match conf b a with
        | None => None
        | Some true => Some b
        | Some false =>
          match a with
          | TUnion xs =>
              match collect_o (fun x => match intersect conf srt x b with
                                        | None => None
                                        | Some u => Some (if is_empty u then [] else [u])
                                        end) xs with
              | None => None
              | Some res => upper_bound conf srt res
              end
          | _ =>
            match b with
            | TUnion ys =>
                match collect_o (fun y => match conf a y with
                                          | None => None
                                          | Some true => Some [a]
                                          | Some false =>
                                              match conf y a with
                                              | None => None
                                              | Some true => Some [y]
                                              | Some false => Some []
                                              end
                                          end) ys with
                | None => None
                | Some res => upper_bound conf srt res
                end
            | _ => Some t_empty
            end
          end
        end
      end.
  Proof. destruct a; reflexivity. Qed.

  Lemma isect_right_union_spec : forall a ys res,
    collect_o (fun y => match conf a y with
                        | None => None
                        | Some true => Some [a]
                        | Some false =>
                            match conf y a with
                            | None => None
                            | Some true => Some [y]
                            | Some false => Some []
                            end
                        end) ys = Some res ->
    forall u, In u res -> forall c, has_type u c = true -> has_type a c = true /\ has_type (TUnion ys) c = true.
  Proof.
    intros a ys res Ecol u Hu c Huc.
    destruct (collect_o_spec _ _ _ Ecol _ Hu) as [y [l [Hy [Hf Hul]]]]. simpl in Hf.
    destruct (conf a y) as [[|]|] eqn:F1; try discriminate.
    - inversion Hf; subst. destruct Hul as [<-|[]]. split; auto.
      apply has_type_union_hit. exists y. split; auto. eapply conf_sound; eauto.
    - destruct (conf y a) as [[|]|] eqn:F2; try discriminate; inversion Hf; subst.
      + destruct Hul as [<-|[]]. split. eapply conf_sound; eauto. apply has_type_union_hit. exists y. auto.
      + destruct Hul.
  Qed.

  Lemma intersect_spec : forall a b r, intersect conf srt a b = Some r ->
    forall c, has_type r c = true -> has_type a c = true /\ has_type b c = true.
  Proof.
    induction a as [s|c0|a1 a2 IH1 IH2|ts IH|e IH|k v IHk IHv|req opt IHr IHo|ts IH|tag vs IH] using ty_ind';
      intros b r H c Hc; rewrite intersect_unfold in H;
      match type of H with
      | (if ty_eqb ?A b then _ else _) = _ =>
          destruct (ty_eqb A b) eqn:Eq;
          [ apply ty_eqb_eq in Eq; inversion H; subst; auto | ];
          destruct (is_const s_any A) eqn:EanyA;
          [ apply is_const_eq in EanyA; inversion H; subst; rewrite EanyA; auto | ];
          destruct (is_const s_any b) eqn:EanyB;
          [ apply is_const_eq in EanyB; inversion H; subst; auto | ];
          destruct (conf A b) as [[|]|] eqn:E1; try discriminate;
          [ inversion H; subst; split; [assumption | eapply conf_sound; eauto] | ];
          destruct (conf b A) as [[|]|] eqn:E2; try discriminate;
          [ inversion H; subst; split; [eapply conf_sound; eauto | assumption] | ]
      end; cbv iota in H.
    all: try (destruct b; try (injection H as <-; simpl in Hc; discriminate Hc);
              match type of H with
              | match collect_o ?F ?ys with _ => _ end = _ =>
                  destruct (collect_o F ys) as [res|] eqn:Ecol; try discriminate;
                  destruct (upper_bound_spec _ _ H) as [_ Htight];
                  destruct (Htight _ Hc) as [u [Hu Huc]];
                  eapply isect_right_union_spec; eauto
              end; fail).
    (* a is a union *)
    destruct (collect_o (fun x => match intersect conf srt x b with
                                  | Some u => Some (if is_empty u then [] else [u])
                                  | None => None
                                  end) ts) as [res|] eqn:Ecol; try discriminate.
    destruct (upper_bound_spec _ _ H) as [_ Htight].
    destruct (Htight _ Hc) as [u [Hu Huc]].
    destruct (collect_o_spec _ _ _ Ecol _ Hu) as [x [l [Hx [Hf Hul]]]].
    simpl in Hf. destruct (intersect conf srt x b) as [u'|] eqn:Ei; try discriminate.
    inversion Hf; subst. destruct (is_empty u'); [destruct Hul|]. destruct Hul as [<-|[]].
    rewrite Forall_forall in IH. destruct (IH _ Hx _ _ Ei _ Huc) as [H1 H2].
    split; auto. apply has_type_union_hit. exists x. auto.
  Qed.

  Lemma lb_loop_spec : forall ts acc r, lb_loop conf srt acc ts = Some r ->
    forall c, has_type r c = true -> has_type acc c = true /\ forall t, In t ts -> has_type t c = true.
  Proof.
    induction ts as [|t ts IH]; simpl; intros acc r H c Hc.
    - inversion H; subst. split; auto.
    - destruct (intersect conf srt acc t) as [a'|] eqn:Ei; try discriminate.
      destruct (is_empty a') eqn:Ee.
      + inversion H; subst. discriminate.
      + destruct (IH _ _ H _ Hc) as [H1 H2]. destruct (intersect_spec _ _ _ Ei _ H1) as [H3 H4].
        split; auto. intros t0 [<-|Hin]; auto.
  Qed.

  Lemma lower_bound_spec : forall ts L, lower_bound conf srt ts = Some L ->
    forall c, has_type L c = true -> forall t, In t ts -> has_type t c = true.
  Proof. intros ts L H c Hc. unfold lower_bound in H. apply (lb_loop_spec _ _ _ H _ Hc). Qed.
End BoundsProofs.

(* ------------------------------------------------------------ the sort model *)
Lemma insert_by_in : forall key t l x, In x (insert_by key t l) <-> x = t \/ In x l.
Proof.
  intros key t. induction l as [|y l IH]; simpl; intros x.
  - split. intros [<-|[]]; auto. intros [->|[]]; auto.
  - destruct (key t <? key y); simpl.
    + split. intros [<-|H]; auto. intros [->|H]; auto.
    + rewrite IH. split. intros [<-|[->|H]]; auto. intros [->|[<-|H]]; auto.
Qed.

Lemma rank_srt_in : forall rank l x, In x (rank_srt rank l) <-> In x l.
Proof.
  intros rank l x. unfold rank_srt.
  assert (forall acc, In x (fold_left (fun acc t => insert_by (fun t0 => index_of t0 rank 0) t acc) l acc)
                      <-> In x acc \/ In x l) as G.
  { induction l as [|t l IH]; simpl; intros acc. tauto.
    rewrite IH. rewrite insert_by_in. split. intros [[->|H]|H]; auto. intros [H|[<-|H]]; auto. }
  rewrite G. simpl. tauto.
Qed.

(* --------------------------------------------------------------- corollaries *)
Lemma set_conforms_strict_sound : forall S T c,
  set_conforms Strict S T = Some true -> has_type S c = true -> has_type T c = true.
Proof. intros S T c H. unfold set_conforms in H. eapply sc_sound; eauto. Qed.

Lemma type_conforms_strict_sound : forall S T c,
  type_conforms Strict S T = Some true -> has_type S c = true -> has_type T c = true.
Proof. intros S T c H. unfold type_conforms in H. eapply tc_sound; eauto. Qed.

Lemma set_conforms_nice_sound : forall S T c, nice S T ->
  set_conforms Fixed S T = Some true -> has_type S c = true -> has_type T c = true.
Proof. intros S T c Hn H. unfold nice in Hn. rewrite Hn in H. eapply set_conforms_strict_sound; eauto. Qed.

Lemma niceb_nice : forall S T, niceb S T = true -> nice S T.
Proof.
  intros S T H. unfold niceb, nice in *.
  destruct (set_conforms Fixed S T) as [a|]; destruct (set_conforms Strict S T) as [b|]; try discriminate.
  apply eqb_prop in H. subst. reflexivity.
Qed.

Lemma upper_bound_strict_sound : forall srt ts U, (forall l x, In x (srt l) <-> In x l) ->
  upper_bound (set_conforms Strict) srt ts = Some U ->
  forall t c, In t ts -> has_type t c = true -> has_type U c = true.
Proof.
  intros srt ts U Hs H t c Ht Hc.
  destruct (upper_bound_spec (set_conforms Strict) srt (fun a b Hab c => set_conforms_strict_sound a b c Hab) Hs _ _ H) as [A _].
  eauto.
Qed.

Lemma upper_bound_strict_tight : forall srt ts U, (forall l x, In x (srt l) <-> In x l) ->
  upper_bound (set_conforms Strict) srt ts = Some U ->
  forall c, has_type U c = true -> exists t, In t ts /\ has_type t c = true.
Proof.
  intros srt ts U Hs H c Hc.
  destruct (upper_bound_spec (set_conforms Strict) srt (fun a b Hab c => set_conforms_strict_sound a b c Hab) Hs _ _ H) as [_ B].
  eauto.
Qed.

Lemma lower_bound_strict_sound : forall srt ts L, (forall l x, In x (srt l) <-> In x l) ->
  lower_bound (set_conforms Strict) srt ts = Some L ->
  forall t c, In t ts -> has_type L c = true -> has_type t c = true.
Proof.
  intros srt ts L Hs H t c Ht Hc.
  eapply (lower_bound_spec (set_conforms Strict) srt (fun a b Hab c => set_conforms_strict_sound a b c Hab) Hs); eauto.
Qed.
