(* Executable model of the type level of mangle: symbols/symbols.go and
   symbols/typeexprs.go (closed first-order type expressions, no type
   variables, no fn:Fun / fn:Rel / fn:Option).

   No proofs in this file.  Every definition names the Go function it mirrors.

   Modes of the conformance judgement:
     Legacy  the code before the fixes F7a (constant-vs-constant rule) and F7e
             (tuple length) - kept only for the `_refuted` witnesses;
     Fixed   the code as it is after the fixes (what the harness runs);
     Strict  Fixed, but a map pair must have equal key types, a struct pair the
             same duplicate-free field set, and a tagged union on the right is
             expanded precisely.  Strict is sound for membership on all inputs;
             `nice S T` = Fixed and Strict give the same answer on (S,T). *)
From Coq Require Import List BinInt Bool.   (* kept light: this file is loaded by every generated cases file *)
Import ListNotations.
Open Scope Z_scope.

(* ---------------------------------------------------------------- strings *)
Definition str := list Z.   (* bytes of a Go string *)

Fixpoint str_eqb (a b : str) : bool :=
  match a, b with
  | [], [] => true
  | x :: a', y :: b' => (x =? y) && str_eqb a' b'
  | _, _ => false
  end.

(* strings.HasPrefix s p *)
Fixpoint has_prefix (s p : str) {struct p} : bool :=
  match p with
  | [] => true
  | y :: p' => match s with [] => false | x :: s' => (x =? y) && has_prefix s' p' end
  end.

Definition slash : Z := 47.

Definition s_any : str := [47; 97; 110; 121].   (* "/any" *)
Definition s_bot : str := [47; 98; 111; 116].   (* "/bot" *)
Definition s_float64 : str := [47; 102; 108; 111; 97; 116; 54; 52].   (* "/float64" *)
Definition s_name : str := [47; 110; 97; 109; 101].   (* "/name" *)
Definition s_number : str := [47; 110; 117; 109; 98; 101; 114].   (* "/number" *)
Definition s_string : str := [47; 115; 116; 114; 105; 110; 103].   (* "/string" *)
Definition s_bytes : str := [47; 98; 121; 116; 101; 115].   (* "/bytes" *)
Definition s_time : str := [47; 116; 105; 109; 101].   (* "/time" *)
Definition s_duration : str := [47; 100; 117; 114; 97; 116; 105; 111; 110].   (* "/duration" *)

(* -------------------------------------------------------------- constants *)
(* ast.Constant (ast/ast.go:257) with its cons-cell shapes: a list is
   ListNil / ListCons, a map MapNil / MapCons(key,val,rest), a struct
   StructNil / StructCons(label,val,rest).  Numbers, times, durations carry
   their int64, floats their IEEE bit pattern (NumValue). *)
Inductive const :=
| CName (s : str)
| CString (s : str)
| CBytes (s : str)
| CNum (n : Z)
| CFloat (bits : Z)
| CTime (n : Z)
| CDur (n : Z)
| CPair (a b : const)
| CListNil
| CListCons (h t : const)
| CMapNil
| CMapCons (k v rest : const)
| CStructNil
| CStructCons (k v rest : const).

(* Constant.Equals (ast/ast.go:746): equal Type and hash, then structural. *)
Fixpoint const_eqb (a b : const) : bool :=
  match a, b with
  | CName x, CName y => str_eqb x y
  | CString x, CString y => str_eqb x y
  | CBytes x, CBytes y => str_eqb x y
  | CNum x, CNum y => x =? y
  | CFloat x, CFloat y => x =? y
  | CTime x, CTime y => x =? y
  | CDur x, CDur y => x =? y
  | CPair a1 a2, CPair b1 b2 => const_eqb a1 b1 && const_eqb a2 b2
  | CListNil, CListNil => true
  | CListCons a1 a2, CListCons b1 b2 => const_eqb a1 b1 && const_eqb a2 b2
  | CMapNil, CMapNil => true
  | CMapCons a1 a2 a3, CMapCons b1 b2 b3 => const_eqb a1 b1 && const_eqb a2 b2 && const_eqb a3 b3
  | CStructNil, CStructNil => true
  | CStructCons a1 a2 a3, CStructCons b1 b2 b3 => const_eqb a1 b1 && const_eqb a2 b2 && const_eqb a3 b3
  | _, _ => false
  end.

(* ------------------------------------------------------- type expressions *)
(* A struct type is kept as (required fields, optional fields): the Go code
   itself separates fn:Struct arguments this way (StructTypeRequiredArgs /
   StructTypeOptionaArgs, typeexprs.go:282,296).  The encoders emit required
   fields first, so the representation is one-to-one on what is generated. *)
Inductive ty :=
| TConst (s : str)                    (* a name constant: base type or name prefix type *)
| TSingleton (c : const)              (* fn:Singleton(c) *)
| TPair (a b : ty)                    (* fn:Pair *)
| TTuple (ts : list ty)               (* fn:Tuple, more than 2 arguments when well-formed *)
| TList (e : ty)                      (* fn:List *)
| TMap (k v : ty)                     (* fn:Map *)
| TStruct (req opt : list (str * ty)) (* fn:Struct(k1,t1,...,fn:opt(k,t),...) *)
| TUnion (ts : list ty)               (* fn:Union; fn:Union() is EmptyType *)
| TTagged (tag : str) (vs : list (str * ty)).
                                      (* fn:TaggedUnion(tag, vtag1, fn:Struct(..), ...); a variant type
                                         that is not a TStruct is not well-formed and is read as
                                         the empty struct type *)

Definition fields := list (str * ty).
Definition variant := (str * ty)%type.
Definition vreq (t : ty) : fields := match t with TStruct r _ => r | _ => [] end.
Definition vopt (t : ty) : fields := match t with TStruct _ o => o | _ => [] end.

Definition t_any := TConst s_any.
Definition t_empty := TUnion [].

Definition is_const (s : str) (t : ty) : bool :=
  match t with TConst x => str_eqb x s | _ => false end.
Definition is_empty (t : ty) : bool :=
  match t with TUnion [] => true | _ => false end.

Section ListEqb.
  Context {A : Type} (eqb : A -> A -> bool).
  Fixpoint list_eqb (a b : list A) : bool :=
    match a, b with
    | [], [] => true
    | x :: a', y :: b' => eqb x y && list_eqb a' b'
    | _, _ => false
    end.
End ListEqb.

(* ApplyFn.Equals / Constant.Equals on type expressions (ast/ast.go:1160). *)
Fixpoint ty_eqb (a b : ty) {struct a} : bool :=
  match a, b with
  | TConst x, TConst y => str_eqb x y
  | TSingleton c, TSingleton d => const_eqb c d
  | TPair a1 a2, TPair b1 b2 => ty_eqb a1 b1 && ty_eqb a2 b2
  | TTuple xs, TTuple ys => list_eqb ty_eqb xs ys
  | TList x, TList y => ty_eqb x y
  | TMap a1 a2, TMap b1 b2 => ty_eqb a1 b1 && ty_eqb a2 b2
  | TStruct r1 o1, TStruct r2 o2 =>
      list_eqb (fun p q => str_eqb (fst p) (fst q) && ty_eqb (snd p) (snd q)) r1 r2 &&
      list_eqb (fun p q => str_eqb (fst p) (fst q) && ty_eqb (snd p) (snd q)) o1 o2
  | TUnion xs, TUnion ys => list_eqb ty_eqb xs ys
  | TTagged t1 v1, TTagged t2 v2 =>
      str_eqb t1 t2 &&
      list_eqb (fun p q => str_eqb (fst p) (fst q) && ty_eqb (snd p) (snd q)) v1 v2
  | _, _ => false
  end.

(* ------------------------------------------------------------- membership *)
(* hasBaseType (symbols.go:552), after fix F7d (/bytes, /bot cases). *)
Definition has_base_type (s : str) (c : const) : bool :=
  if str_eqb s s_any then true
  else if str_eqb s s_float64 then match c with CFloat _ => true | _ => false end
  else if str_eqb s s_name then match c with CName _ => true | _ => false end
  else if str_eqb s s_number then match c with CNum _ => true | _ => false end
  else if str_eqb s s_string then match c with CString _ => true | _ => false end
  else if str_eqb s s_time then match c with CTime _ => true | _ => false end
  else if str_eqb s s_duration then match c with CDur _ => true | _ => false end
  else if str_eqb s s_bytes then match c with CBytes _ => true | _ => false end
  else if str_eqb s s_bot then false
  else match c with CName cs => has_prefix cs (s ++ [slash]) | _ => false end.

(* hasBaseType before fix F7d: /bytes and /bot fall into the name prefix case. *)
Definition has_base_type_legacy (s : str) (c : const) : bool :=
  if str_eqb s s_any then true
  else if str_eqb s s_float64 then match c with CFloat _ => true | _ => false end
  else if str_eqb s s_name then match c with CName _ => true | _ => false end
  else if str_eqb s s_number then match c with CNum _ => true | _ => false end
  else if str_eqb s s_string then match c with CString _ => true | _ => false end
  else if str_eqb s s_time then match c with CTime _ => true | _ => false end
  else if str_eqb s s_duration then match c with CDur _ => true | _ => false end
  else match c with CName cs => has_prefix cs (s ++ [slash]) | _ => false end.

(* Constant.ListValues with a per-element check (ast.go:495). *)
Fixpoint list_all (f : const -> bool) (c : const) : bool :=
  match c with
  | CListNil => true
  | CListCons h t => f h && list_all f t
  | _ => false
  end.

(* Constant.MapValues with per-entry checks (ast.go:522); MapNil is accepted first. *)
Fixpoint map_all (fk fv : const -> bool) (c : const) : bool :=
  match c with
  | CMapNil => true
  | CMapCons k v rest => fk k && fv v && map_all fk fv rest
  | _ => false
  end.

(* Go map assignment in order: a later entry for the same key wins. *)
Fixpoint lookup_last {A} (k : str) (l : list (str * A)) : option A :=
  match l with
  | [] => None
  | (k', a) :: l' =>
      match lookup_last k l' with
      | Some x => Some x
      | None => if str_eqb k k' then Some a else None
      end
  end.

Definition mem_str (k : str) (l : list str) : bool := existsb (str_eqb k) l.

Fixpoint count_distinct (l : list str) : nat :=
  match l with
  | [] => O
  | k :: l' => if mem_str k l' then count_distinct l' else S (count_distinct l')
  end.

(* The StructValues walk of HasType (symbols.go:517): every label must be a
   name constant found in fieldTpeMap and its value must pass; returns the
   labels seen. *)
Fixpoint struct_walk (chk : list (str * (const -> bool))) (c : const) : option (list str) :=
  match c with
  | CStructNil => Some []
  | CStructCons (CName s) v rest =>
      match lookup_last s chk with
      | Some f => if f v then
                    match struct_walk chk rest with Some seen => Some (s :: seen) | None => None end
                  else None
      | None => None
      end
  | _ => None
  end.

(* HasType, case StructType (symbols.go:493-530); chk is fieldTpeMap written as
   the list of assignments (required fields, then optional ones). *)
Definition struct_has (chk : list (str * (const -> bool))) (c : const) : bool :=
  match c with
  | CStructNil => match chk with [] => true | _ => false end
  | _ => match struct_walk chk c with
         | Some seen => Nat.eqb (count_distinct (List.map fst chk)) (count_distinct seen)
         | None => false
         end
  end.

(* TypeHandle.HasType (symbols.go:443).  fn:Tuple is read through
   expandTupleType (symbols.go:953), fn:TaggedUnion through
   ExpandTaggedUnionType (typeexprs.go:178): a union of
   fn:Struct(tag, fn:Singleton(vtag), variant fields...). *)
Fixpoint has_type (t : ty) (c : const) {struct t} : bool :=
  match t with
  | TConst s => has_base_type s c
  | TSingleton d => const_eqb c d
  | TPair a b => match c with CPair x y => has_type a x && has_type b y | _ => false end
  | TTuple ts =>
      (fix tup (ts : list ty) (c : const) {struct ts} : bool :=
         match ts with
         | [] => false                       (* Go panics; never well-formed *)
         | a :: ts' =>
             match ts' with
             | [] => false                   (* Go panics; never well-formed *)
             | b :: ts'' =>
                 match c with
                 | CPair x y =>
                     has_type a x &&
                     match ts'' with
                     | [] => has_type b y
                     | _ => tup ts' y
                     end
                 | _ => false
                 end
             end
         end) ts c
  | TList e => list_all (has_type e) c
  | TMap k v => map_all (has_type k) (has_type v) c
  | TStruct req opt =>
      struct_has (List.map (fun kt => (fst kt, has_type (snd kt))) req ++
                  List.map (fun kt => (fst kt, has_type (snd kt))) opt) c
  | TUnion ts => existsb (fun t' => has_type t' c) ts
  | TTagged tag vs =>
      existsb (fun v =>
                 match snd v with
                 | TStruct rq op =>
                     struct_has (((tag, fun c' => const_eqb c' (CName (fst v))) ::
                                  List.map (fun kt => (fst kt, has_type (snd kt))) rq) ++
                                 List.map (fun kt => (fst kt, has_type (snd kt))) op) c
                 | _ => struct_has [(tag, fun c' => const_eqb c' (CName (fst v)))] c
                 end) vs
  end.

(* ExpandTaggedUnionType (typeexprs.go:178) for precise = true,
   expandTaggedUnionForBounds (typeexprs.go:202) for precise = false. *)
Definition expand_tagged (precise : bool) (tag : str) (vs : list variant) : ty :=
  TUnion (List.map (fun v : variant =>
                      TStruct ((tag, if precise then TSingleton (CName (fst v)) else TConst s_name)
                                 :: vreq (snd v)) (vopt (snd v))) vs).

(* ------------------------------------------------------------ conformance *)
Inductive mode := Legacy | Fixed | Strict.

Definition is_strict (m : mode) : bool := match m with Strict => true | _ => false end.

(* isBaseTypeConstant (added by fix F7a). *)
Definition is_base_const (s : str) : bool :=
  str_eqb s s_any || str_eqb s s_bot || str_eqb s s_float64 || str_eqb s s_name ||
  str_eqb s s_number || str_eqb s s_string || str_eqb s s_bytes || str_eqb s s_time ||
  str_eqb s s_duration.

(* TypeConforms, both sides constants (symbols.go:806).  Reached only when the
   sides differ, right is not /any and left is not /bot. *)
Definition const_rule (m : mode) (ls rs : str) : bool :=
  match m with
  | Legacy => has_prefix ls rs || str_eqb rs s_name
  | _ => if is_base_const ls then false
         else if str_eqb rs s_name then true
         else if is_base_const rs then false
         else has_prefix ls (rs ++ [slash])
  end.

(* three-valued results: None = the model ran out of fuel (or, Legacy tuple
   rule only, the Go code panics).  Theorems are about Some-results. *)
Definition andthen (a b : option bool) : option bool :=
  match a with
  | Some true => b
  | Some false => Some false
  | None => None
  end.

Fixpoint all_o {A} (f : A -> option bool) (l : list A) : option bool :=
  match l with
  | [] => Some true
  | x :: l' => andthen (f x) (all_o f l')
  end.

Fixpoint any_o {A} (f : A -> option bool) (l : list A) : option bool :=
  match l with
  | [] => Some false
  | x :: l' => match f x with
               | Some true => Some true
               | Some false => any_o f l'
               | None => None
               end
  end.

Fixpoint nodup_str (l : list str) : bool :=
  match l with
  | [] => true
  | k :: l' => negb (mem_str k l') && nodup_str l'
  end.

(* Strict only: both field lists duplicate-free and equal as sets. *)
Definition same_fields (lk rk : list str) : bool :=
  nodup_str lk && nodup_str rk && Nat.eqb (List.length lk) (List.length rk) &&
  forallb (fun k => mem_str k lk) rk && forallb (fun k => mem_str k rk) lk.

(* the fn:Tuple loop of TypeConforms (symbols.go:939): componentwise over the
   left arguments, indexing the right ones. *)
Fixpoint tuple_all (f : ty -> ty -> option bool) (ls rs : list ty) : option bool :=
  match ls with
  | [] => Some true
  | l :: ls' => match rs with
                | [] => None           (* Legacy: index out of range panic *)
                | r :: rs' => andthen (f l r) (tuple_all f ls' rs')
                end
  end.

(* TypeConforms (symbols.go:802) on closed first-order types. *)
Fixpoint tc (m : mode) (n : nat) (l r : ty) {struct n} : option bool :=
  match n with
  | O => None
  | S n' =>
    if ty_eqb l r || is_const s_any r || is_const s_bot l then Some true else
    match l, r with
    | TConst ls, TConst rs => Some (const_rule m ls rs)
    | TSingleton c, _ => Some (has_type r c)
    | TList a, TList b => tc m n' a b
    | TMap lk lv, TMap rk rv =>
        if is_strict m then (if ty_eqb lk rk then tc m n' lv rv else Some false)
        else andthen (tc m n' rk lk) (tc m n' lv rv)
    | TStruct lreq lopt, TStruct rreq ropt =>
        if is_strict m && negb (same_fields (List.map fst (lreq ++ lopt)) (List.map fst (rreq ++ ropt)))
        then Some false
        else if Nat.ltb (List.length lreq) (List.length rreq) then Some false
        else andthen
               (all_o (fun krt : str * ty =>
                         match lookup_last (fst krt) lreq with
                         | Some lt => tc m n' lt (snd krt)
                         | None => Some false
                         end) rreq)
               (all_o (fun krt : str * ty =>
                         match lookup_last (fst krt) lreq with
                         | Some lt => tc m n' lt (snd krt)
                         | None => match lookup_last (fst krt) lopt with
                                   | Some lt => tc m n' lt (snd krt)
                                   | None => Some true
                                   end
                         end) ropt)
    | TPair a b, TPair c d => andthen (tc m n' a c) (tc m n' b d)
    | TTuple ls, TTuple rs =>
        match m with
        | Legacy => tuple_all (tc m n') ls rs
        | _ => if Nat.eqb (List.length ls) (List.length rs) then tuple_all (tc m n') ls rs
               else Some false
        end
    | _, _ => Some false
    end
  end.

(* SetConforms (symbols.go:750) on closed first-order types. *)
Fixpoint sc (m : mode) (n : nat) (l r : ty) {struct n} : option bool :=
  match n with
  | O => None
  | S n' =>
    if ty_eqb l r || is_const s_any r || is_const s_bot l then Some true else
    match l with
    | TTagged tag vs => sc m n' (expand_tagged true tag vs) r
    | _ =>
      match r with
      | TTagged tag vs => sc m n' l (expand_tagged (is_strict m) tag vs)
      | _ =>
        match l with
        | TUnion ls => all_o (fun x => sc m n' x r) ls
        | _ =>
          match r with
          | TUnion rs =>
              match any_o (fun y => sc m n' l y) rs with
              | Some true => Some true
              | Some false => tc m n' l r
              | None => None
              end
          | _ => tc m n' l r
          end
        end
      end
    end
  end.

(* size, used only to choose the fuel *)
Fixpoint ty_size (t : ty) : nat :=
  match t with
  | TConst _ | TSingleton _ => 1
  | TPair a b => S (ty_size a + ty_size b)
  | TTuple ts => S (fold_right (fun t acc => ty_size t + acc) 0 ts)%nat
  | TList e => S (ty_size e)
  | TMap k v => S (ty_size k + ty_size v)
  | TStruct req opt =>
      S (fold_right (fun kt acc => ty_size (snd kt) + acc) 0 req +
         fold_right (fun kt acc => ty_size (snd kt) + acc) 0 opt)%nat
  | TUnion ts => S (fold_right (fun t acc => ty_size t + acc) 0 ts)%nat
  | TTagged _ vs =>
      S (fold_right (fun v acc => 4 + ty_size (snd v) + acc) 0 vs)%nat
  end.

Definition fuel_for (l r : ty) : nat := (2 * (ty_size l + ty_size r) + 8)%nat.

Definition type_conforms (m : mode) (l r : ty) : option bool := tc m (fuel_for l r) l r.
Definition set_conforms (m : mode) (l r : ty) : option bool := sc m (fuel_for l r) l r.

(* `nice`: the pair lies in the fragment where the code's judgement coincides
   with the strict one (no map pair with different key types, no struct pair
   with different field sets, no imprecise tagged-union expansion matters). *)
Definition nice (S T : ty) : Prop := set_conforms Fixed S T = set_conforms Strict S T.
Definition niceb (S T : ty) : bool :=
  match set_conforms Fixed S T, set_conforms Strict S T with
  | Some a, Some b => Bool.eqb a b
  | _, _ => false
  end.

(* ------------------------------------------------------------------ bounds *)
(* The bounds are written over an arbitrary conformance function `conf` (the
   theorems need only its soundness) and an arbitrary `srt` standing for
   sort.Slice by Hash() (symbols.go:995). *)
Section CollectO.
  Context {A : Type} (f : A -> option (list ty)).
  Fixpoint collect_o (xs : list A) : option (list ty) :=
    match xs with
    | [] => Some []
    | x :: xs' => match f x with
                  | None => None
                  | Some l => match collect_o xs' with
                              | None => None
                              | Some r => Some (l ++ r)
                              end
                  end
    end.
End CollectO.

Section Bounds.
  Variable conf : ty -> ty -> option bool.
  Variable srt : list ty -> list ty.

  (* inner loop of UpperBound (symbols.go:981-990) for one typeExpr *)
  Fixpoint ub_insert (t : ty) (reduced : list ty) : option (list ty) :=
    match reduced with
    | [] => Some [t]
    | e :: red' =>
        match conf t e with
        | None => None
        | Some true => Some reduced
        | Some false =>
            match conf e t with
            | None => None
            | Some true => Some (t :: red')
            | Some false => match ub_insert t red' with
                            | Some r => Some (e :: r)
                            | None => None
                            end
            end
        end
    end.

  Fixpoint ub_loop (wl : list ty) (reduced : list ty) : option (list ty) :=
    match wl with
    | [] => Some reduced
    | t :: wl' => match ub_insert t reduced with
                  | Some r => ub_loop wl' r
                  | None => None
                  end
    end.

  Definition ub_worklist (ts : list ty) : list ty :=
    flat_map (fun t => match t with TUnion xs => xs | _ => [t] end) ts.

  (* UpperBound (symbols.go:962) *)
  Definition upper_bound (ts : list ty) : option ty :=
    if existsb (is_const s_any) ts then Some t_any else
    match ub_worklist ts with
    | [] => Some t_empty
    | w :: rest =>
        match ub_loop rest [w] with
        | None => None
        | Some [x] => Some x
        | Some red => Some (TUnion (srt red))
        end
    end.

  (* intersectType (symbols.go:999).  The two loops over union members collect
     zero or one type per member (collect_o). *)
  Fixpoint intersect (a b : ty) {struct a} : option ty :=
    if ty_eqb a b then Some a
    else if is_const s_any a then Some b
    else if is_const s_any b then Some a
    else
      match conf a b with
      | None => None
      | Some true => Some a
      | Some false =>
        match conf b a with
        | None => None
        | Some true => Some b
        | Some false =>
          match a with
          | TUnion xs =>
              match collect_o (fun x => match intersect x b with
                                        | None => None
                                        | Some u => Some (if is_empty u then [] else [u])
                                        end) xs with
              | None => None
              | Some res => upper_bound res
              end
          | _ =>
            match b with
            | TUnion ys =>
                match collect_o (fun y => match conf a y with
                                          | None => None
                                          | Some true => Some [a]
                                          | Some false =>
                                              match conf y a with
                                              | None => None
                                              | Some true => Some [y]
                                              | Some false => Some []
                                              end
                                          end) ys with
                | None => None
                | Some res => upper_bound res
                end
            | _ => Some t_empty
            end
          end
        end
      end.

  (* LowerBound (symbols.go:1054) *)
  Fixpoint lb_loop (acc : ty) (ts : list ty) : option ty :=
    match ts with
    | [] => Some acc
    | t :: ts' => match intersect acc t with
                  | None => None
                  | Some a' => if is_empty a' then Some t_empty else lb_loop a' ts'
                  end
    end.

  Definition lower_bound (ts : list ty) : option ty := lb_loop t_any ts.
End Bounds.

Definition id_srt (l : list ty) : list ty := l.

(* sort.Slice by Hash(): the harness reports the pool types and their union members ordered
   by Hash(); the model sorts by position in that list (stable). *)
Fixpoint index_of (t : ty) (rank : list ty) (i : Z) : Z :=
  match rank with
  | [] => i
  | r :: rank' => if ty_eqb t r then i else index_of t rank' (i + 1)
  end.
Fixpoint insert_by (key : ty -> Z) (t : ty) (l : list ty) : list ty :=
  match l with
  | [] => [t]
  | x :: l' => if key t <? key x then t :: l else x :: insert_by key t l'
  end.
Definition rank_srt (rank : list ty) (l : list ty) : list ty :=
  fold_left (fun acc t => insert_by (fun t => index_of t rank 0) t acc) l [].

