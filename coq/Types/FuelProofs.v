(* Fuel sufficiency for the type-level model (Types/Types.v).

   tc / sc run on fuel; set_conforms / type_conforms call them with
   fuel_for l r = 2 * (ty_size l + ty_size r) + 8.  Here:

   1. monotonicity: more fuel never changes a Some answer (tc_mono, sc_mono);
   2. sufficiency: in the modes Fixed and Strict (Legacy has a genuine None =
      the index-out-of-range panic of the tuple rule, fix F7e) tc answers with
      fuel >= ty_size l + ty_size r, sc with fuel > mu l + mu r where
      mu t = 2 * ty_size t (+ 1 for a tagged union, which is first expanded to
      a union of no larger size); fuel_for l r is above both;
   3. hence tc / sc with any fuel >= fuel_for l r equal type_conforms /
      set_conforms (fuel independence), and both are total;
   4. upper_bound / intersect / lower_bound over a total conformance function
      are total (they are structural; their only None is a None of conf).

   No well-formedness hypothesis is needed: the statements hold for every
   value of the model type `ty`. *)
From Coq Require Import List Bool PeanoNat Lia.
From MV Require Import Types.Types Types.TypesProofs.
Import ListNotations.

(* ------------------------------------------------------- one-step unfoldings *)
(* the bodies of tc and sc with the recursive calls abstracted *)
Definition tc_body (m : mode) (rec : ty -> ty -> option bool) (l r : ty) : option bool :=
    if ty_eqb l r || is_const s_any r || is_const s_bot l then Some true else
    match l, r with
    | TConst ls, TConst rs => Some (const_rule m ls rs)
    | TSingleton c, _ => Some (has_type r c)
    | TList a, TList b => rec a b
    | TMap lk lv, TMap rk rv =>
        if is_strict m then (if ty_eqb lk rk then rec lv rv else Some false)
        else andthen (rec rk lk) (rec lv rv)
    | TStruct lreq lopt, TStruct rreq ropt =>
        if is_strict m && negb (same_fields (List.map fst (lreq ++ lopt)) (List.map fst (rreq ++ ropt)))
        then Some false
        else if Nat.ltb (List.length lreq) (List.length rreq) then Some false
        else andthen
               (all_o (fun krt : str * ty =>
                         match lookup_last (fst krt) lreq with
                         | Some lt => rec lt (snd krt)
                         | None => Some false
                         end) rreq)
               (all_o (fun krt : str * ty =>
                         match lookup_last (fst krt) lreq with
                         | Some lt => rec lt (snd krt)
                         | None => match lookup_last (fst krt) lopt with
                                   | Some lt => rec lt (snd krt)
                                   | None => Some true
                                   end
                         end) ropt)
    | TPair a b, TPair c d => andthen (rec a c) (rec b d)
    | TTuple ls, TTuple rs =>
        match m with
        | Legacy => tuple_all rec ls rs
        | _ => if Nat.eqb (List.length ls) (List.length rs) then tuple_all rec ls rs
               else Some false
        end
    | _, _ => Some false
    end.

Lemma tc_S : forall m n l r, tc m (S n) l r = tc_body m (tc m n) l r.
Proof. reflexivity. Qed.

Definition sc_body (m : mode) (recs rect : ty -> ty -> option bool) (l r : ty) : option bool :=
    if ty_eqb l r || is_const s_any r || is_const s_bot l then Some true else
    match l with
    | TTagged tag vs => recs (expand_tagged true tag vs) r
    | _ =>
      match r with
      | TTagged tag vs => recs l (expand_tagged (is_strict m) tag vs)
      | _ =>
        match l with
        | TUnion ls => all_o (fun x => recs x r) ls
        | _ =>
          match r with
          | TUnion rs =>
              match any_o (fun y => recs l y) rs with
              | Some true => Some true
              | Some false => rect l r
              | None => None
              end
          | _ => rect l r
          end
        end
      end
    end.

Lemma sc_S : forall m n l r, sc m (S n) l r = sc_body m (sc m n) (tc m n) l r.
Proof. reflexivity. Qed.

(* ------------------------------------------------- option-valued combinators *)
Definition ole (f g : ty -> ty -> option bool) : Prop :=
  forall l r b, f l r = Some b -> g l r = Some b.

Lemma andthen_mono : forall a a' b b' v,
  (forall x, a = Some x -> a' = Some x) -> (forall x, b = Some x -> b' = Some x) ->
  andthen a b = Some v -> andthen a' b' = Some v.
Proof.
  intros a a' b b' v Ha Hb H. destruct a as [[|]|]; simpl in H; try discriminate.
  - rewrite (Ha true eq_refl). simpl. auto.
  - rewrite (Ha false eq_refl). simpl. assumption.
Qed.

Lemma all_o_mono : forall {A} (f g : A -> option bool),
  (forall x v, f x = Some v -> g x = Some v) ->
  forall l v, all_o f l = Some v -> all_o g l = Some v.
Proof.
  intros A f g Hfg. induction l as [|x l IH]; simpl; intros v H. assumption.
  eapply andthen_mono; [| |exact H]. apply Hfg. apply IH.
Qed.

Lemma any_o_mono : forall {A} (f g : A -> option bool),
  (forall x v, f x = Some v -> g x = Some v) ->
  forall l v, any_o f l = Some v -> any_o g l = Some v.
Proof.
  intros A f g Hfg. induction l as [|x l IH]; simpl; intros v H. assumption.
  destruct (f x) as [[|]|] eqn:E; try discriminate.
  - rewrite (Hfg _ _ E). assumption.
  - rewrite (Hfg _ _ E). apply IH. assumption.
Qed.

Lemma tuple_all_mono : forall (f g : ty -> ty -> option bool), ole f g ->
  forall ls rs v, tuple_all f ls rs = Some v -> tuple_all g ls rs = Some v.
Proof.
  intros f g Hfg. unfold ole in Hfg. induction ls as [|a ls IH]; simpl; intros rs v H. assumption.
  destruct rs as [|b rs]; try discriminate.
  eapply andthen_mono; [| |exact H]. apply Hfg. apply IH.
Qed.

Lemma andthen_def : forall a b, a <> None -> b <> None -> andthen a b <> None.
Proof. intros [[|]|] b Ha Hb; simpl; congruence. Qed.

Lemma all_o_def : forall {A} (f : A -> option bool) l,
  (forall x, In x l -> f x <> None) -> all_o f l <> None.
Proof.
  intros A f. induction l as [|x l IH]; simpl; intros H. discriminate.
  apply andthen_def. apply H; auto. apply IH. intros y Hy. apply H; auto.
Qed.

Lemma any_o_def : forall {A} (f : A -> option bool) l,
  (forall x, In x l -> f x <> None) -> any_o f l <> None.
Proof.
  intros A f. induction l as [|x l IH]; simpl; intros H. discriminate.
  destruct (f x) as [[|]|] eqn:E.
  - discriminate.
  - apply IH. intros y Hy. apply H; auto.
  - exfalso. apply (H x); auto.
Qed.

Lemma tuple_all_def : forall (f : ty -> ty -> option bool) ls rs,
  length ls = length rs ->
  (forall a b, In a ls -> In b rs -> f a b <> None) -> tuple_all f ls rs <> None.
Proof.
  intros f. induction ls as [|a ls IH]; simpl; intros rs Hlen H. discriminate.
  destruct rs as [|b rs]; simpl in Hlen; try discriminate.
  apply andthen_def. apply H; simpl; auto. apply IH. congruence.
  intros x y Hx Hy. apply H; simpl; auto.
Qed.

(* ----------------------------------------------------------------- monotone *)
Lemma tc_body_mono : forall m f g, ole f g -> ole (tc_body m f) (tc_body m g).
Proof.
  intros m f g Hfg l r v. unfold ole in Hfg. unfold tc_body.
  destruct (ty_eqb l r || is_const s_any r || is_const s_bot l); [auto|].
  destruct l; destruct r; auto.
  - (* pair *) intros H. eapply andthen_mono; [| |exact H]; apply Hfg.
  - (* tuple *) destruct m; [apply tuple_all_mono; assumption | |];
      (destruct (Nat.eqb (length ts) (length ts0)); [apply tuple_all_mono; assumption | auto]).
  - (* map *) destruct (is_strict m).
    + destruct (ty_eqb l1 r1); [apply Hfg | auto].
    + intros H. eapply andthen_mono; [| |exact H]; apply Hfg.
  - (* struct *)
    destruct (is_strict m && negb (same_fields (map fst (req ++ opt)) (map fst (req0 ++ opt0)))); [auto|].
    destruct (Nat.ltb (length req) (length req0)); [auto|].
    intros H. eapply andthen_mono; [| |exact H]; apply all_o_mono; intros x w.
    + destruct (lookup_last (fst x) req); [apply Hfg | auto].
    + destruct (lookup_last (fst x) req); [apply Hfg | ].
      destruct (lookup_last (fst x) opt); [apply Hfg | auto].
Qed.

Lemma tc_mono_S : forall m n, ole (tc m n) (tc m (S n)).
Proof.
  intros m. induction n as [|n IH]; intros l r v H. discriminate.
  rewrite tc_S in H. rewrite tc_S. revert H. apply tc_body_mono. exact IH.
Qed.

Lemma tc_mono : forall m n n' l r b, n <= n' -> tc m n l r = Some b -> tc m n' l r = Some b.
Proof.
  intros m n n' l r b Hle. induction Hle as [|k Hle IH]; intros H. assumption.
  apply tc_mono_S. auto.
Qed.

Lemma sc_body_mono : forall m fs gs ft gt, ole fs gs -> ole ft gt ->
  ole (sc_body m fs ft) (sc_body m gs gt).
Proof.
  intros m fs gs ft gt Hs Ht l r v. unfold ole in Hs, Ht. unfold sc_body.
  destruct (ty_eqb l r || is_const s_any r || is_const s_bot l); [auto|].
  assert (forall l rs, match any_o (fun y => fs l y) rs with
                       | Some true => Some true | Some false => ft l (TUnion rs) | None => None end = Some v ->
                       match any_o (fun y => gs l y) rs with
                       | Some true => Some true | Some false => gt l (TUnion rs) | None => None end = Some v) as Hany.
  { intros l0 rs H. destruct (any_o (fun y => fs l0 y) rs) as [[|]|] eqn:E; try discriminate.
    - rewrite (any_o_mono (fun y => fs l0 y) (fun y => gs l0 y) (fun x w => Hs l0 x w) _ _ E). assumption.
    - rewrite (any_o_mono (fun y => fs l0 y) (fun y => gs l0 y) (fun x w => Hs l0 x w) _ _ E). apply Ht. assumption. }
  destruct l;
    try (destruct r;
         first [ apply Ht | apply Hs | apply Hany
               | apply all_o_mono; intros x w; apply Hs ]).
Qed.

Lemma sc_mono_S : forall m n, ole (sc m n) (sc m (S n)).
Proof.
  intros m. induction n as [|n IH]; intros l r v H. discriminate.
  rewrite sc_S in H. rewrite sc_S. revert H. apply sc_body_mono. exact IH. apply tc_mono_S.
Qed.

Lemma sc_mono : forall m n n' l r b, n <= n' -> sc m n l r = Some b -> sc m n' l r = Some b.
Proof.
  intros m n n' l r b Hle. induction Hle as [|k Hle IH]; intros H. assumption.
  apply sc_mono_S. auto.
Qed.

(* -------------------------------------------------------------------- sizes *)
Definition lsum (ts : list ty) : nat := fold_right (fun t acc => ty_size t + acc) 0 ts.
Definition fsum (fs : list (str * ty)) : nat := fold_right (fun kt acc => ty_size (snd kt) + acc) 0 fs.
Definition vsum (vs : list (str * ty)) : nat := fold_right (fun v acc => 4 + ty_size (snd v) + acc) 0 vs.

Lemma ty_size_tuple : forall ts, ty_size (TTuple ts) = S (lsum ts).  Proof. reflexivity. Qed.
Lemma ty_size_union : forall ts, ty_size (TUnion ts) = S (lsum ts).  Proof. reflexivity. Qed.
Lemma ty_size_struct : forall rq op, ty_size (TStruct rq op) = S (fsum rq + fsum op).  Proof. reflexivity. Qed.
Lemma ty_size_tagged : forall tag vs, ty_size (TTagged tag vs) = S (vsum vs).  Proof. reflexivity. Qed.
Lemma ty_size_pair : forall a b, ty_size (TPair a b) = S (ty_size a + ty_size b).  Proof. reflexivity. Qed.
Lemma ty_size_map : forall a b, ty_size (TMap a b) = S (ty_size a + ty_size b).  Proof. reflexivity. Qed.
Lemma ty_size_list : forall a, ty_size (TList a) = S (ty_size a).  Proof. reflexivity. Qed.

Lemma ty_size_pos : forall t, 1 <= ty_size t.
Proof. destruct t; simpl; lia. Qed.

Lemma In_lsum : forall x ts, In x ts -> ty_size x <= lsum ts.
Proof.
  intros x. induction ts as [|t ts IH]; simpl; intros H. contradiction.
  destruct H as [->|H]. lia. apply IH in H. lia.
Qed.

Lemma In_fsum : forall kt fs, In kt fs -> ty_size (snd kt) <= fsum fs.
Proof.
  intros kt. induction fs as [|t fs IH]; simpl; intros H. contradiction.
  destruct H as [->|H]. lia. apply IH in H. lia.
Qed.

Lemma lookup_fsum : forall k fs t, lookup_last k fs = Some t -> ty_size t <= fsum fs.
Proof. intros k fs t H. apply lookup_last_In in H. apply In_fsum in H. exact H. Qed.

Lemma expand_size : forall p tag vs, ty_size (expand_tagged p tag vs) <= ty_size (TTagged tag vs).
Proof.
  intros p tag vs. unfold expand_tagged. rewrite ty_size_union, ty_size_tagged.
  apply le_n_S. induction vs as [|v vs IH]. simpl. lia.
  change (ty_size (TStruct ((tag, if p then TSingleton (CName (fst v)) else TConst s_name) :: vreq (snd v)) (vopt (snd v))) +
          lsum (map (fun v0 : variant =>
                       TStruct ((tag, if p then TSingleton (CName (fst v0)) else TConst s_name) :: vreq (snd v0))
                               (vopt (snd v0))) vs)
          <= 4 + ty_size (snd v) + vsum vs).
  assert (ty_size (TStruct ((tag, if p then TSingleton (CName (fst v)) else TConst s_name) :: vreq (snd v)) (vopt (snd v)))
          <= 4 + ty_size (snd v)) as Hv.
  { rewrite ty_size_struct.
    change (fsum ((tag, if p then TSingleton (CName (fst v)) else TConst s_name) :: vreq (snd v)))
      with (ty_size (if p then TSingleton (CName (fst v)) else TConst s_name) + fsum (vreq (snd v))).
    assert (ty_size (if p then TSingleton (CName (fst v)) else TConst s_name) = 1) as -> by (destruct p; reflexivity).
    destruct (snd v); try (simpl; lia). rewrite ty_size_struct. simpl. lia. }
  lia.
Qed.

(* the measure of sc: a tagged union counts one more than its expansion *)
Definition mu (t : ty) : nat :=
  2 * ty_size t + match t with TTagged _ _ => 1 | _ => 0 end.

Lemma mu_le : forall t, mu t <= 2 * ty_size t + 1.
Proof. intros t. unfold mu. destruct t; lia. Qed.

Lemma mu_ge : forall t, 2 * ty_size t <= mu t.
Proof. intros t. unfold mu. lia. Qed.

Lemma mu_expand : forall p tag vs, mu (expand_tagged p tag vs) < mu (TTagged tag vs).
Proof.
  intros p tag vs. pose proof (expand_size p tag vs) as H.
  unfold mu at 1. unfold expand_tagged at 2. unfold mu. lia.
Qed.

Lemma mu_union_in : forall x ts, In x ts -> mu x < mu (TUnion ts).
Proof.
  intros x ts H. apply In_lsum in H. pose proof (mu_le x) as Hx.
  unfold mu at 2. rewrite ty_size_union. lia.
Qed.

(* -------------------------------------------------------------- sufficiency *)
Lemma tc_body_def : forall m rec l r, m <> Legacy ->
  (forall a b, ty_size a + ty_size b < ty_size l + ty_size r -> rec a b <> None) ->
  tc_body m rec l r <> None.
Proof.
  intros m rec l r Hm Hrec. unfold tc_body.
  destruct (ty_eqb l r || is_const s_any r || is_const s_bot l); [discriminate|].
  destruct l; destruct r; try discriminate.
  - (* pair *) rewrite !ty_size_pair in Hrec. apply andthen_def; apply Hrec; lia.
  - (* tuple *) rewrite !ty_size_tuple in Hrec.
    assert (Nat.eqb (length ts) (length ts0) = true -> tuple_all rec ts ts0 <> None) as HT.
    { intros E. apply Nat.eqb_eq in E. apply tuple_all_def; auto.
      intros a b Ha Hb. apply Hrec. apply In_lsum in Ha. apply In_lsum in Hb. lia. }
    destruct m; [congruence | |];
      (destruct (Nat.eqb (length ts) (length ts0)); [auto | discriminate]).
  - (* list *) rewrite !ty_size_list in Hrec. apply Hrec. lia.
  - (* map *) rewrite !ty_size_map in Hrec. destruct (is_strict m).
    + destruct (ty_eqb l1 r1); [apply Hrec; lia | discriminate].
    + apply andthen_def; apply Hrec; lia.
  - (* struct *) rewrite !ty_size_struct in Hrec.
    destruct (is_strict m && negb (same_fields (map fst (req ++ opt)) (map fst (req0 ++ opt0)))); [discriminate|].
    destruct (Nat.ltb (length req) (length req0)); [discriminate|].
    apply andthen_def; apply all_o_def; intros x Hx; apply In_fsum in Hx.
    + destruct (lookup_last (fst x) req) eqn:E; [|discriminate].
      apply lookup_fsum in E. apply Hrec. lia.
    + destruct (lookup_last (fst x) req) eqn:E.
      * apply lookup_fsum in E. apply Hrec. lia.
      * destruct (lookup_last (fst x) opt) eqn:E2; [|discriminate].
        apply lookup_fsum in E2. apply Hrec. lia.
Qed.

Lemma tc_def : forall m, m <> Legacy ->
  forall n l r, ty_size l + ty_size r <= n -> tc m n l r <> None.
Proof.
  intros m Hm. induction n as [|n IH]; intros l r Hn.
  - pose proof (ty_size_pos l). lia.
  - rewrite tc_S. apply tc_body_def; auto. intros a b Hab. apply IH. lia.
Qed.

Lemma sc_body_def : forall m recs rect l r,
  (forall a b, mu a + mu b < mu l + mu r -> recs a b <> None) ->
  rect l r <> None ->
  sc_body m recs rect l r <> None.
Proof.
  intros m recs rect l r Hrecs Hrect. unfold sc_body.
  destruct (ty_eqb l r || is_const s_any r || is_const s_bot l); [discriminate|].
  assert (forall tag vs, l = TTagged tag vs -> recs (expand_tagged true tag vs) r <> None) as HLT.
  { intros tag vs ->. apply Hrecs. pose proof (mu_expand true tag vs). lia. }
  assert (forall tag vs, r = TTagged tag vs -> recs l (expand_tagged (is_strict m) tag vs) <> None) as HRT.
  { intros tag vs ->. apply Hrecs. pose proof (mu_expand (is_strict m) tag vs). lia. }
  assert (forall ls, l = TUnion ls -> all_o (fun x => recs x r) ls <> None) as HLU.
  { intros ls ->. apply all_o_def. intros x Hx. apply Hrecs. pose proof (mu_union_in _ _ Hx). lia. }
  assert (forall rs, r = TUnion rs ->
                     match any_o (fun y => recs l y) rs with
                     | Some true => Some true | Some false => rect l (TUnion rs) | None => None end <> None) as HRU.
  { intros rs ->. destruct (any_o (fun y => recs l y) rs) as [[|]|] eqn:E.
    - discriminate.
    - exact Hrect.
    - exfalso. revert E. apply any_o_def. intros y Hy. apply Hrecs. pose proof (mu_union_in _ _ Hy). lia. }
  destruct l;
    try (destruct r;
         first [ exact Hrect | apply HRT; reflexivity | apply HLU; reflexivity | apply HRU; reflexivity ]).
  apply HLT; reflexivity.
Qed.

Lemma sc_def : forall m, m <> Legacy ->
  forall n l r, mu l + mu r < n -> sc m n l r <> None.
Proof.
  intros m Hm. induction n as [|n IH]; intros l r Hn. lia.
  rewrite sc_S. apply sc_body_def.
  - intros a b Hab. apply IH. lia.
  - apply tc_def; auto. pose proof (mu_ge l). pose proof (mu_ge r). lia.
Qed.

Lemma fuel_for_tc : forall l r, ty_size l + ty_size r <= fuel_for l r.
Proof. intros l r. unfold fuel_for. lia. Qed.

Lemma fuel_for_sc : forall l r, mu l + mu r < fuel_for l r.
Proof. intros l r. unfold fuel_for. pose proof (mu_le l). pose proof (mu_le r). lia. Qed.

Lemma not_none_some : forall {A} (o : option A), o <> None -> exists b, o = Some b.
Proof. intros A [b|] H. exists b; reflexivity. congruence. Qed.

Lemma type_conforms_total : forall m l r, m <> Legacy -> exists b, type_conforms m l r = Some b.
Proof. intros m l r Hm. apply not_none_some. unfold type_conforms. apply tc_def; auto. apply fuel_for_tc. Qed.

Lemma set_conforms_total : forall m l r, m <> Legacy -> exists b, set_conforms m l r = Some b.
Proof. intros m l r Hm. apply not_none_some. unfold set_conforms. apply sc_def; auto. apply fuel_for_sc. Qed.

(* the answer does not depend on the fuel once it is at least fuel_for *)
Lemma tc_fuel_independent : forall m n l r, m <> Legacy -> fuel_for l r <= n ->
  tc m n l r = type_conforms m l r.
Proof.
  intros m n l r Hm Hn. destruct (type_conforms_total m l r Hm) as [b Hb]. rewrite Hb.
  eapply tc_mono; [exact Hn | exact Hb].
Qed.

Lemma sc_fuel_independent : forall m n l r, m <> Legacy -> fuel_for l r <= n ->
  sc m n l r = set_conforms m l r.
Proof.
  intros m n l r Hm Hn. destruct (set_conforms_total m l r Hm) as [b Hb]. rewrite Hb.
  eapply sc_mono; [exact Hn | exact Hb].
Qed.

(* ------------------------------------- fuel independence in every mode *)
(* Also in mode Legacy the answer - including None, there the panic of the
   tuple rule - is the same for every fuel >= fuel_for: a None of set_conforms
   Legacy is never an artefact of the fuel. *)
Lemma all_o_ext : forall {A} (f g : A -> option bool) l,
  (forall x, In x l -> f x = g x) -> all_o f l = all_o g l.
Proof.
  intros A f g. induction l as [|x l IH]; simpl; intros H. reflexivity.
  rewrite (H x) by auto. rewrite IH. reflexivity. intros y Hy. apply H; auto.
Qed.

Lemma any_o_ext : forall {A} (f g : A -> option bool) l,
  (forall x, In x l -> f x = g x) -> any_o f l = any_o g l.
Proof.
  intros A f g. induction l as [|x l IH]; simpl; intros H. reflexivity.
  rewrite (H x) by auto. rewrite IH. reflexivity. intros y Hy. apply H; auto.
Qed.

Lemma tuple_all_ext : forall (f g : ty -> ty -> option bool) ls rs,
  (forall a b, In a ls -> In b rs -> f a b = g a b) -> tuple_all f ls rs = tuple_all g ls rs.
Proof.
  intros f g. induction ls as [|a ls IH]; simpl; intros rs H. reflexivity.
  destruct rs as [|b rs]. reflexivity.
  rewrite (H a b) by (simpl; auto). rewrite (IH rs). reflexivity.
  intros x y Hx Hy. apply H; simpl; auto.
Qed.

Lemma tc_body_ext : forall m f g l r,
  (forall a b, ty_size a + ty_size b < ty_size l + ty_size r -> f a b = g a b) ->
  tc_body m f l r = tc_body m g l r.
Proof.
  intros m f g l r H. unfold tc_body.
  destruct (ty_eqb l r || is_const s_any r || is_const s_bot l); [reflexivity|].
  destruct l; destruct r; try reflexivity.
  - (* pair *) rewrite !ty_size_pair in H. f_equal; apply H; lia.
  - (* tuple *) rewrite !ty_size_tuple in H.
    assert (tuple_all f ts ts0 = tuple_all g ts ts0) as HT.
    { apply tuple_all_ext. intros a b Ha Hb. apply H. apply In_lsum in Ha. apply In_lsum in Hb. lia. }
    destruct m; [exact HT | |];
      (destruct (Nat.eqb (length ts) (length ts0)); [exact HT | reflexivity]).
  - (* list *) rewrite !ty_size_list in H. apply H. lia.
  - (* map *) rewrite !ty_size_map in H. destruct (is_strict m).
    + destruct (ty_eqb l1 r1); [apply H; lia | reflexivity].
    + f_equal; apply H; lia.
  - (* struct *) rewrite !ty_size_struct in H.
    destruct (is_strict m && negb (same_fields (map fst (req ++ opt)) (map fst (req0 ++ opt0)))); [reflexivity|].
    destruct (Nat.ltb (length req) (length req0)); [reflexivity|].
    f_equal; apply all_o_ext; intros x Hx; apply In_fsum in Hx.
    + destruct (lookup_last (fst x) req) eqn:E; [|reflexivity].
      apply lookup_fsum in E. apply H. lia.
    + destruct (lookup_last (fst x) req) eqn:E.
      * apply lookup_fsum in E. apply H. lia.
      * destruct (lookup_last (fst x) opt) eqn:E2; [|reflexivity].
        apply lookup_fsum in E2. apply H. lia.
Qed.

Lemma tc_fuel_eq : forall m k l r n n', ty_size l + ty_size r <= k -> k <= n -> k <= n' ->
  tc m n l r = tc m n' l r.
Proof.
  intros m. induction k as [|k IH]; intros l r n n' Hk Hn Hn'.
  - pose proof (ty_size_pos l). lia.
  - destruct n as [|n]; [lia|]. destruct n' as [|n']; [lia|].
    rewrite !tc_S. apply tc_body_ext. intros a b Hab. apply (IH a b); lia.
Qed.

Lemma sc_body_ext : forall m fs gs ft gt l r,
  (forall a b, mu a + mu b < mu l + mu r -> fs a b = gs a b) ->
  ft l r = gt l r ->
  sc_body m fs ft l r = sc_body m gs gt l r.
Proof.
  intros m fs gs ft gt l r Hs Ht. unfold sc_body.
  destruct (ty_eqb l r || is_const s_any r || is_const s_bot l); [reflexivity|].
  assert (forall tag vs, l = TTagged tag vs ->
                         fs (expand_tagged true tag vs) r = gs (expand_tagged true tag vs) r) as HLT.
  { intros tag vs ->. apply Hs. pose proof (mu_expand true tag vs). lia. }
  assert (forall tag vs, r = TTagged tag vs ->
                         fs l (expand_tagged (is_strict m) tag vs) = gs l (expand_tagged (is_strict m) tag vs)) as HRT.
  { intros tag vs ->. apply Hs. pose proof (mu_expand (is_strict m) tag vs). lia. }
  assert (forall ls, l = TUnion ls -> all_o (fun x => fs x r) ls = all_o (fun x => gs x r) ls) as HLU.
  { intros ls ->. apply all_o_ext. intros x Hx. apply Hs. pose proof (mu_union_in _ _ Hx). lia. }
  assert (forall rs, r = TUnion rs ->
                     match any_o (fun y => fs l y) rs with
                     | Some true => Some true | Some false => ft l (TUnion rs) | None => None end =
                     match any_o (fun y => gs l y) rs with
                     | Some true => Some true | Some false => gt l (TUnion rs) | None => None end) as HRU.
  { intros rs E. rewrite <- E, Ht. subst r.
    rewrite (any_o_ext (fun y => fs l y) (fun y => gs l y)). reflexivity.
    intros y Hy. apply Hs. pose proof (mu_union_in _ _ Hy). lia. }
  destruct l;
    try (destruct r;
         first [ exact Ht | apply HRT; reflexivity | apply HLU; reflexivity | apply HRU; reflexivity ]).
  apply HLT; reflexivity.
Qed.

Lemma sc_fuel_eq : forall m k l r n n', mu l + mu r < k -> k <= n -> k <= n' ->
  sc m n l r = sc m n' l r.
Proof.
  intros m. induction k as [|k IH]; intros l r n n' Hk Hn Hn'. lia.
  destruct n as [|n]; [lia|]. destruct n' as [|n']; [lia|].
  rewrite !sc_S. apply sc_body_ext.
  - intros a b Hab. apply (IH a b); lia.
  - pose proof (mu_ge l). pose proof (mu_ge r).
    apply (tc_fuel_eq m (ty_size l + ty_size r)); lia.
Qed.

Lemma tc_fuel_independent_all : forall m n l r, fuel_for l r <= n -> tc m n l r = type_conforms m l r.
Proof.
  intros m n l r Hn. unfold type_conforms. pose proof (fuel_for_tc l r).
  apply (tc_fuel_eq m (ty_size l + ty_size r)); lia.
Qed.

Lemma sc_fuel_independent_all : forall m n l r, fuel_for l r <= n -> sc m n l r = set_conforms m l r.
Proof.
  intros m n l r Hn. unfold set_conforms. pose proof (fuel_for_sc l r).
  apply (sc_fuel_eq m (fuel_for l r)); lia.
Qed.

(* ------------------------------------------------------------------- bounds *)
Lemma collect_o_def : forall {A} (f : A -> option (list ty)) xs,
  (forall x, In x xs -> f x <> None) -> collect_o f xs <> None.
Proof.
  intros A f. induction xs as [|x xs IH]; simpl; intros H. discriminate.
  destruct (f x) eqn:E; [|exfalso; apply (H x); auto].
  destruct (collect_o f xs) eqn:E2; [discriminate|]. exfalso. apply IH; auto.
Qed.

Section BoundsTotal.
  Variable conf : ty -> ty -> option bool.
  Variable srt : list ty -> list ty.
  Hypothesis conf_total : forall a b, conf a b <> None.

  Lemma ub_insert_def : forall t red, ub_insert conf t red <> None.
  Proof.
    intros t. induction red as [|e red IH]; simpl. discriminate.
    destruct (conf t e) as [[|]|] eqn:E1; [discriminate| |destruct (conf_total _ _ E1)].
    destruct (conf e t) as [[|]|] eqn:E2; [discriminate| |destruct (conf_total _ _ E2)].
    destruct (ub_insert conf t red); [discriminate|exact IH].
  Qed.

  Lemma ub_loop_def : forall wl red, ub_loop conf wl red <> None.
  Proof.
    induction wl as [|t wl IH]; simpl; intros red. discriminate.
    destruct (ub_insert conf t red) eqn:E; [apply IH | destruct (ub_insert_def _ _ E)].
  Qed.

  Lemma upper_bound_def : forall ts, upper_bound conf srt ts <> None.
  Proof.
    intros ts. unfold upper_bound.
    destruct (existsb (is_const s_any) ts); [discriminate|].
    destruct (ub_worklist ts) as [|w rest]; [discriminate|].
    destruct (ub_loop conf rest [w]) as [red|] eqn:E; [|destruct (ub_loop_def _ _ E)].
    destruct red as [|x [|y red]]; discriminate.
  Qed.

  (* the part of intersectType after the shortcuts, for a left side that is not a union *)
  Lemma intersect_right_def : forall a b,
    match b with
    | TUnion ys =>
        match collect_o (fun y => match conf a y with
                                  | None => None
                                  | Some true => Some [a]
                                  | Some false =>
                                      match conf y a with
                                      | None => None
                                      | Some true => Some [y]
                                      | Some false => Some []
                                      end
                                  end) ys with
        | None => None
        | Some res => upper_bound conf srt res
        end
    | _ => Some t_empty
    end <> None.
  Proof.
    intros a b. destruct b; try discriminate.
    match goal with |- match ?c with _ => _ end <> None => destruct c eqn:E end.
    - apply upper_bound_def.
    - exfalso. revert E. apply collect_o_def. intros y _.
      destruct (conf a y) as [[|]|] eqn:E1; [discriminate| |destruct (conf_total _ _ E1)].
      destruct (conf y a) as [[|]|] eqn:E2; [discriminate|discriminate|destruct (conf_total _ _ E2)].
  Qed.

  Lemma intersect_def : forall a b, intersect conf srt a b <> None.
  Proof.
    induction a using ty_ind'; intros b; cbn [intersect];
      (destruct (ty_eqb _ b); [discriminate|]);
      (destruct (is_const s_any _); [discriminate|]);
      (destruct (is_const s_any b); [discriminate|]);
      match goal with |- match conf ?x ?y with _ => _ end <> None =>
        let E := fresh "E" in destruct (conf x y) as [[|]|] eqn:E; [discriminate| |destruct (conf_total _ _ E)] end;
      match goal with |- match conf ?x ?y with _ => _ end <> None =>
        let E := fresh "E" in destruct (conf x y) as [[|]|] eqn:E; [discriminate| |destruct (conf_total _ _ E)] end;
      try apply intersect_right_def.
    (* left side a union *)
    match goal with |- match ?c with _ => _ end <> None => destruct c eqn:Ec end.
    - apply upper_bound_def.
    - exfalso. revert Ec. apply collect_o_def. intros x Hx.
      rewrite Forall_forall in H. specialize (H x Hx b).
      destruct (intersect conf srt x b); [discriminate | destruct (H eq_refl)].
  Qed.

  Lemma lb_loop_def : forall ts acc, lb_loop conf srt acc ts <> None.
  Proof.
    induction ts as [|t ts IH]; simpl; intros acc. discriminate.
    destruct (intersect conf srt acc t) as [a'|] eqn:E; [|destruct (intersect_def _ _ E)].
    destruct (is_empty a'); [discriminate | apply IH].
  Qed.

  Lemma lower_bound_def : forall ts, lower_bound conf srt ts <> None.
  Proof. intros ts. unfold lower_bound. apply lb_loop_def. Qed.
End BoundsTotal.

Lemma set_conforms_def : forall m, m <> Legacy -> forall a b, set_conforms m a b <> None.
Proof. intros m Hm a b. unfold set_conforms. apply sc_def; auto. apply fuel_for_sc. Qed.

Lemma upper_bound_total : forall m srt ts, m <> Legacy ->
  exists U, upper_bound (set_conforms m) srt ts = Some U.
Proof. intros m srt ts Hm. apply not_none_some. apply upper_bound_def. apply set_conforms_def; assumption. Qed.

Lemma intersect_total : forall m srt a b, m <> Legacy ->
  exists t, intersect (set_conforms m) srt a b = Some t.
Proof. intros m srt a b Hm. apply not_none_some. apply intersect_def. apply set_conforms_def; assumption. Qed.

Lemma lower_bound_total : forall m srt ts, m <> Legacy ->
  exists L, lower_bound (set_conforms m) srt ts = Some L.
Proof. intros m srt ts Hm. apply not_none_some. apply lower_bound_def. apply set_conforms_def; assumption. Qed.

(* --------------------------------------- the property theorems, made total *)
(* SetConforms always answers, and an affirmative answer is sound *)
Lemma set_conforms_strict_decides : forall S T,
  set_conforms Strict S T = Some false \/
  (set_conforms Strict S T = Some true /\ forall c, has_type S c = true -> has_type T c = true).
Proof.
  intros S T. destruct (set_conforms_total Strict S T) as [[|] H]; [discriminate| |left; exact H].
  right. split. exact H. intros c. apply set_conforms_strict_sound. exact H.
Qed.

Lemma type_conforms_strict_decides : forall S T,
  type_conforms Strict S T = Some false \/
  (type_conforms Strict S T = Some true /\ forall c, has_type S c = true -> has_type T c = true).
Proof.
  intros S T. destruct (type_conforms_total Strict S T) as [[|] H]; [discriminate| |left; exact H].
  right. split. exact H. intros c. apply type_conforms_strict_sound. exact H.
Qed.

Lemma set_conforms_nice_decides : forall S T,
  set_conforms Fixed S T = set_conforms Strict S T ->
  set_conforms Fixed S T = Some false \/
  (set_conforms Fixed S T = Some true /\ forall c, has_type S c = true -> has_type T c = true).
Proof.
  intros S T Hn. destruct (set_conforms_total Fixed S T) as [[|] H]; [discriminate| |left; exact H].
  right. split. exact H. intros c. apply set_conforms_nice_sound; assumption.
Qed.

Lemma upper_bound_strict_total_sound : forall srt ts, (forall l x, In x (srt l) <-> In x l) ->
  exists U, upper_bound (set_conforms Strict) srt ts = Some U /\
            (forall t c, In t ts -> has_type t c = true -> has_type U c = true) /\
            (forall c, has_type U c = true -> exists t, In t ts /\ has_type t c = true).
Proof.
  intros srt ts Hs. destruct (upper_bound_total Strict srt ts) as [U HU]; [discriminate|].
  exists U. split; [exact HU|split].
  - exact (upper_bound_strict_sound srt ts U Hs HU).
  - exact (upper_bound_strict_tight srt ts U Hs HU).
Qed.

Lemma lower_bound_strict_total_sound : forall srt ts, (forall l x, In x (srt l) <-> In x l) ->
  exists L, lower_bound (set_conforms Strict) srt ts = Some L /\
            forall t c, In t ts -> has_type L c = true -> has_type t c = true.
Proof.
  intros srt ts Hs. destruct (lower_bound_total Strict srt ts) as [L HL]; [discriminate|].
  exists L. split; [exact HL|]. exact (lower_bound_strict_sound srt ts L Hs HL).
Qed.

Lemma upper_bound_fixed_total_sound : forall srt ts, (forall l x, In x (srt l) <-> In x l) ->
  upper_bound (set_conforms Fixed) srt ts = upper_bound (set_conforms Strict) srt ts ->
  exists U, upper_bound (set_conforms Fixed) srt ts = Some U /\
            forall t c, In t ts -> has_type t c = true -> has_type U c = true.
Proof.
  intros srt ts Hs Hn. destruct (upper_bound_total Fixed srt ts) as [U HU]; [discriminate|].
  exists U. split; [exact HU|]. rewrite Hn in HU. exact (upper_bound_strict_sound srt ts U Hs HU).
Qed.

Lemma lower_bound_fixed_total_sound : forall srt ts, (forall l x, In x (srt l) <-> In x l) ->
  lower_bound (set_conforms Fixed) srt ts = lower_bound (set_conforms Strict) srt ts ->
  exists L, lower_bound (set_conforms Fixed) srt ts = Some L /\
            forall t c, In t ts -> has_type L c = true -> has_type t c = true.
Proof.
  intros srt ts Hs Hn. destruct (lower_bound_total Fixed srt ts) as [L HL]; [discriminate|].
  exists L. split; [exact HL|]. rewrite Hn in HL. exact (lower_bound_strict_sound srt ts L Hs HL).
Qed.
