(* Proofs about the simple-column model (Serde/SimpleColumn.v). *)
From Coq Require Import List ZArith Bool Arith Ascii Lia Permutation.
From Coq Require String DecimalString Decimal DecimalN.
From MV Require Import Serde.SimpleColumn.
Import ListNotations.
Open Scope Z_scope.

(* ------------------------------------------------------------------ bytes *)
Lemma bytes_eqb_eq : forall a b, bytes_eqb a b = true <-> a = b.
Proof.
  induction a as [|x a IH]; destruct b as [|y b]; simpl; split; intro H; try discriminate; auto.
  - apply andb_true_iff in H. destruct H as [H1 H2]. apply Z.eqb_eq in H1. apply IH in H2. congruence.
  - inversion H; subst. apply andb_true_iff. split; [apply Z.eqb_refl | apply IH; reflexivity].
Qed.

Lemma bytes_eqb_refl : forall a, bytes_eqb a a = true.
Proof. intro a. apply bytes_eqb_eq. reflexivity. Qed.

Lemma psym_eqb_eq : forall a b : psym, psym_eqb a b = true <-> a = b.
Proof.
  intros [s1 a1] [s2 a2]. unfold psym_eqb. simpl. rewrite andb_true_iff, bytes_eqb_eq, Nat.eqb_eq.
  split; [intros [-> ->]; reflexivity | intro H; inversion H; auto].
Qed.

(* ---------------------------------------------------------------- decimal *)
Lemma ascii_byte_roundtrip : forall a, ascii_of_byte (byte_of_ascii a) = a.
Proof.
  intro a. unfold ascii_of_byte, byte_of_ascii. rewrite N2Z.id. apply ascii_N_embedding.
Qed.

Lemma byte_of_ascii_range : forall a, is_byte (byte_of_ascii a) = true.
Proof.
  intro a. unfold is_byte, byte_of_ascii.
  pose proof (N_ascii_bounded a) as H.
  apply andb_true_iff. split; [apply Z.leb_le; lia | apply Z.ltb_lt; lia].
Qed.

Lemma string_of_uint_nonempty : forall m : N,
  String.list_ascii_of_string (DecimalString.NilEmpty.string_of_uint (N.to_uint m)) <> [].
Proof.
  intros m H.
  assert (E : DecimalString.NilEmpty.string_of_uint (N.to_uint m) = String.EmptyString).
  { rewrite <- (String.string_of_list_ascii_of_string (DecimalString.NilEmpty.string_of_uint (N.to_uint m))).
    rewrite H. reflexivity. }
  pose proof (DecimalString.NilEmpty.usu (N.to_uint m)) as U. rewrite E in U. simpl in U.
  inversion U as [U1].
  pose proof (DecimalN.Unsigned.of_to m) as OT. rewrite <- U1 in OT. simpl in OT. subst m.
  discriminate U1.
Qed.

Lemma undec_dec : forall n, 0 <= n -> undec (dec n) = Some n.
Proof.
  intros n Hn. unfold undec, dec.
  set (s := DecimalString.NilEmpty.string_of_uint (N.to_uint (Z.to_N n))).
  destruct (map byte_of_ascii (String.list_ascii_of_string s)) eqn:E.
  - exfalso. apply map_eq_nil in E. exact (string_of_uint_nonempty _ E).
  - rewrite <- E.
    assert (F : forallb is_byte (map byte_of_ascii (String.list_ascii_of_string s)) = true).
    { apply forallb_forall. intros x Hx. apply in_map_iff in Hx. destruct Hx as [a [<- _]]. apply byte_of_ascii_range. }
    rewrite F. rewrite map_map.
    rewrite (map_ext _ (fun a => a) ascii_byte_roundtrip), map_id.
    rewrite String.string_of_list_ascii_of_string. unfold s.
    rewrite DecimalString.NilEmpty.usu, DecimalN.Unsigned.of_to, Z2N.id by exact Hn. reflexivity.
Qed.

Definition is_digit (b : Z) : Prop := 48 <= b <= 57.

Lemma string_of_uint_digits : forall d,
  Forall is_digit (map byte_of_ascii (String.list_ascii_of_string (DecimalString.NilEmpty.string_of_uint d))).
Proof.
  induction d; simpl; constructor; auto; unfold is_digit; vm_compute; split; discriminate.
Qed.

Lemma dec_digits : forall n, Forall is_digit (dec n).
Proof. intro n. apply string_of_uint_digits. Qed.

Lemma dec_not_in : forall n b, ~ is_digit b -> ~ In b (dec n).
Proof.
  intros n b Hb Hin. pose proof (dec_digits n) as F. rewrite Forall_forall in F. auto.
Qed.

Lemma dec_nonempty : forall n, dec n <> [].
Proof.
  intros n H. unfold dec in H. apply map_eq_nil in H. exact (string_of_uint_nonempty _ H).
Qed.

(* ------------------------------------------------------------------ lines *)
Definition line_ok (l : bytes) : Prop :=
  ~ In 10 l /\ last l 0 <> 13 /\ Z.of_nat (length l) < max_token.

Lemma dropcr_rev_ok : forall l, last l 0 <> 13 -> dropcr_rev (rev l) = l.
Proof.
  intros l H. unfold dropcr_rev.
  destruct l as [|x l] using rev_ind; [reflexivity|].
  rewrite rev_app_distr. simpl. rewrite last_last in H.
  destruct (Z.eq_dec x 13) as [->|Hx]; [congruence|].
  assert (E : rev (x :: rev l) = l ++ [x]) by (simpl; rewrite rev_involutive; reflexivity).
  destruct x as [|p|p]; try exact E.
  repeat (destruct p as [p|p|]; try exact E). congruence.
Qed.

Lemma split_lines_line : forall l cur n rest,
  ~ In 10 l ->
  split_lines cur n (l ++ 10 :: rest) =
  if max_token <=? n + Z.of_nat (length l) then []
  else dropcr_rev (rev l ++ cur) :: split_lines [] 0 rest.
Proof.
  induction l as [|c l IH]; intros cur n rest Hl.
  - simpl. rewrite Z.add_0_r. reflexivity.
  - assert (Hc : c <> 10) by (intro; apply Hl; left; auto).
    assert (Hl' : ~ In 10 l) by (intro; apply Hl; right; auto).
    change ((c :: l) ++ 10 :: rest) with (c :: (l ++ 10 :: rest)).
    cbn [split_lines]. apply Z.eqb_neq in Hc. rewrite Hc.
    rewrite IH by exact Hl'. cbn [length rev]. rewrite <- app_assoc. simpl.
    replace (n + 1 + Z.of_nat (length l)) with (n + Z.pos (Pos.of_succ_nat (length l))) by lia.
    reflexivity.
Qed.

Lemma scan_unlines : forall ls, Forall line_ok ls -> scan_lines (unlines ls) = ls.
Proof.
  unfold scan_lines. induction ls as [|l ls IH]; intro F; [reflexivity|].
  inversion F as [|? ? [H1 [H2 H3]] F']; subst.
  unfold unlines. cbn [flat_map]. rewrite <- app_assoc. simpl app.
  rewrite split_lines_line by exact H1.
  destruct (max_token <=? 0 + Z.of_nat (length l)) eqn:E; [apply Z.leb_le in E; lia|].
  rewrite app_nil_r, dropcr_rev_ok by exact H2. f_equal. apply IH. exact F'.
Qed.

(* ----------------------------------------------------------------- escape *)
Lemma unescape_escape : forall t, unescape (escape t) = Some t.
Proof.
  induction t as [|c t IH]; [reflexivity|].
  cbn [escape]. destruct (c =? 37) eqn:E1.
  - apply Z.eqb_eq in E1. subst c. cbn [unescape]. simpl Z.eqb. cbn iota.
    change (is_hex 50 && is_hex 53) with true. cbn iota. rewrite IH. reflexivity.
  - destruct (c =? 43) eqn:E2.
    + apply Z.eqb_eq in E2. subst c. cbn [unescape]. simpl Z.eqb. cbn iota.
      change (is_hex 50 && is_hex 66) with true. cbn iota. rewrite IH. reflexivity.
    + cbn [unescape]. rewrite E1, IH, E2. reflexivity.
Qed.

Lemma escape_head : forall t, escape (47 :: t) = 47 :: escape t.
Proof. reflexivity. Qed.

Lemma escape_no_nl : forall t, ~ In 10 t -> ~ In 10 (escape t).
Proof.
  induction t as [|c t IH]; intros H; [exact H|].
  assert (Hc : c <> 10) by (intro; apply H; left; auto).
  assert (Ht : ~ In 10 t) by (intro; apply H; right; auto).
  cbn [escape]. destruct (c =? 37); [|destruct (c =? 43)]; simpl; intros [F|[F|[F|F]]] || intros [F|F];
    try discriminate; try congruence; apply (IH Ht); assumption.
Qed.

Lemma last_cons_ne : forall (x : Z) l d, l <> [] -> last (x :: l) d = last l d.
Proof. intros x l d H. destruct l; [congruence|reflexivity]. Qed.

Lemma escape_nonempty : forall t, t <> [] -> escape t <> [].
Proof.
  intros [|c t] H; [congruence|]. cbn [escape]. destruct (c =? 37); [|destruct (c =? 43)]; discriminate.
Qed.

Lemma escape_last : forall t, t <> [] -> last t 0 <> 13 -> last (escape t) 0 <> 13.
Proof.
  induction t as [|c t IH]; intros Hne H; [congruence|].
  destruct t as [|d t].
  - cbn [escape]. simpl in H. destruct (c =? 37); [|destruct (c =? 43)]; simpl; try discriminate; exact H.
  - assert (D : d :: t <> []) by discriminate.
    rewrite last_cons_ne in H by exact D.
    pose proof (IH D H) as IH'. pose proof (escape_nonempty _ D) as NE.
    cbn [escape]. cbn [escape] in IH', NE.
    destruct (c =? 37); [|destruct (c =? 43)].
    + rewrite !last_cons_ne; try exact IH'; try exact NE; discriminate.
    + rewrite !last_cons_ne; try exact IH'; try exact NE; discriminate.
    + rewrite last_cons_ne; try exact IH'; exact NE.
Qed.

(* ----------------------------------------------------------------- header *)
Lemma split_sp_token : forall a cur rest,
  ~ In 32 a -> split_sp cur (a ++ 32 :: rest) = (rev cur ++ a) :: split_sp [] rest.
Proof.
  induction a as [|c a IH]; intros cur rest H.
  - simpl. rewrite app_nil_r. reflexivity.
  - assert (Hc : c <> 32) by (intro; apply H; left; auto).
    assert (Ha : ~ In 32 a) by (intro; apply H; right; auto).
    change ((c :: a) ++ 32 :: rest) with (c :: (a ++ 32 :: rest)).
    cbn [split_sp]. apply Z.eqb_neq in Hc. rewrite Hc. rewrite IH by exact Ha.
    simpl. rewrite <- app_assoc. reflexivity.
Qed.

Lemma split_sp_last : forall a cur, ~ In 32 a -> split_sp cur a = [rev cur ++ a].
Proof.
  induction a as [|c a IH]; intros cur H.
  - simpl. rewrite app_nil_r. reflexivity.
  - assert (Hc : c <> 32) by (intro; apply H; left; auto).
    assert (Ha : ~ In 32 a) by (intro; apply H; right; auto).
    cbn [split_sp]. apply Z.eqb_neq in Hc. rewrite Hc. rewrite IH by exact Ha.
    simpl. rewrite <- app_assoc. reflexivity.
Qed.

Lemma not_digit_32 : ~ is_digit 32. Proof. unfold is_digit. lia. Qed.
Lemma not_digit_10 : ~ is_digit 10. Proof. unfold is_digit. lia. Qed.
Lemma not_digit_13 : ~ is_digit 13. Proof. unfold is_digit. lia. Qed.

Lemma parse_header_line_ok : forall (p : psym) n,
  fst p <> [] -> ~ In 32 (fst p) ->
  Z.of_nat (snd p) <= max_arity -> 0 <= n <= max_facts ->
  parse_header_line (header_line p n) = Some (p, n).
Proof.
  intros [s a] n Hne H32 Ha Hn. simpl in *. unfold parse_header_line, header_line. simpl fst. simpl snd.
  change (s ++ [32] ++ dec (Z.of_nat a) ++ [32] ++ dec n)
    with (s ++ 32 :: (dec (Z.of_nat a) ++ 32 :: dec n)).
  rewrite split_sp_token by exact H32.
  rewrite split_sp_token by (apply dec_not_in, not_digit_32).
  rewrite split_sp_last by (apply dec_not_in, not_digit_32).
  simpl rev. simpl app.
  destruct s as [|c s]; [congruence|].
  rewrite !undec_dec by lia.
  destruct (max_arity <? Z.of_nat a) eqn:E1; [apply Z.ltb_lt in E1; lia|].
  destruct (max_facts <? n) eqn:E2; [apply Z.ltb_lt in E2; lia|].
  simpl. rewrite Nat2Z.id. reflexivity.
Qed.

Lemma header_line_ok_shape : forall (p : psym) n,
  ~ In 10 (fst p) -> ~ In 10 (header_line p n) /\ last (header_line p n) 0 <> 13.
Proof.
  intros [s a] n H. unfold header_line. simpl fst in *. simpl snd. split.
  - rewrite !in_app_iff. simpl. intros [F|[[F|[]]|[F|[[F|[]]|F]]]]; try discriminate; try (apply H; exact F);
      eapply dec_not_in; try exact F; apply not_digit_10.
  - rewrite !app_assoc. pose proof (dec_nonempty n) as NE. pose proof (dec_digits n) as D.
    destruct (dec n) as [|x l] using rev_ind; [congruence|].
    rewrite app_assoc, last_last. rewrite Forall_forall in D.
    assert (is_digit x) by (apply D; rewrite in_app_iff; right; left; reflexivity).
    unfold is_digit in *. lia.
Qed.

(* the first line of a file: the number of predicates, at most 65536 (finite sweep) *)
Lemma dec_small_length : forall n, 0 <= n <= max_num_preds -> Z.of_nat (length (dec n)) < max_token.
Proof.
  assert (F : forallb (fun k => Z.of_nat (length (dec (Z.of_nat k))) <? 10) (seq 0 (Z.to_nat 65537)) = true)
    by (vm_compute; reflexivity).
  intros n Hn. rewrite forallb_forall in F.
  specialize (F (Z.to_nat n)). rewrite Z2Nat.id in F by lia.
  assert (I : In (Z.to_nat n) (seq 0 (Z.to_nat 65537))).
  { apply in_seq. unfold max_num_preds in Hn. lia. }
  apply F in I. apply Z.ltb_lt in I. unfold max_token. lia.
Qed.

Lemma dec_last : forall n, last (dec n) 0 <> 13.
Proof.
  intro n. pose proof (dec_nonempty n) as NE. pose proof (dec_digits n) as D.
  destruct (dec n) as [|x l] using rev_ind; [congruence|].
  rewrite last_last. rewrite Forall_forall in D.
  assert (is_digit x) by (apply D; rewrite in_app_iff; right; left; reflexivity).
  unfold is_digit in *. lia.
Qed.

Section Proofs.
  Variable const : Type.
  Variable const_eqb : const -> const -> bool.
  Variable print : const -> bytes.
  Variable parse : bytes -> option const.
  Variable fhash : bytes -> list const -> Z.
  Hypothesis const_eqb_spec : forall a b, const_eqb a b = true <-> a = b.

  Notation row := (list const).
  Notation pstore := (pstore const).
  Notation fact := (fact const).

  (* a constant whose printed form can stand on a line and parses back *)
  Definition const_ok (c : const) : Prop :=
    print c <> [] /\ ~ In 10 (print c) /\ last (print c) 0 <> 13 /\
    Z.of_nat (length (esc_line fixed (print c))) < max_token /\
    parse (print c) = Some c.

  Lemma esc_line_ok : forall c, const_ok c -> line_ok (esc_line fixed (print c)).
  Proof.
    intros c (Hne & Hnl & Hcr & Hlen & _). unfold line_ok. split; [|split]; try exact Hlen.
    - unfold esc_line. destruct (print c) as [|x t] eqn:E; [congruence|].
      destruct (Z.eq_dec x 47) as [->|Hx].
      + simpl esc_names. cbv iota. apply escape_no_nl. exact Hnl.
      + destruct x as [|q|q]; try exact Hnl. repeat (destruct q as [q|q|]; try exact Hnl). congruence.
    - unfold esc_line. destruct (print c) as [|x t] eqn:E; [congruence|].
      destruct (Z.eq_dec x 47) as [->|Hx].
      + simpl esc_names. cbv iota. apply escape_last; [discriminate|exact Hcr].
      + destruct x as [|q|q]; try exact Hcr. repeat (destruct q as [q|q|]; try exact Hcr). congruence.
  Qed.

  Lemma read_cell_esc : forall c, const_ok c -> read_cell const parse (esc_line fixed (print c)) = Some c.
  Proof.
    intros c (Hne & _ & _ & _ & Hp). unfold esc_line, read_cell.
    destruct (print c) as [|x t] eqn:E; [congruence|].
    destruct (Z.eq_dec x 47) as [->|Hx].
    - simpl esc_names. cbv iota. rewrite escape_head. rewrite <- escape_head, unescape_escape. exact Hp.
    - destruct x as [|q|q]; try exact Hp. repeat (destruct q as [q|q|]; try exact Hp). congruence.
  Qed.

  (* ------------------------------------------------- column-major reading *)
  Notation args_match := (args_match const const_eqb).
  Notation cellf := (cell const print fixed).

  (* state of a row after the columns with the filter entries [fp] have been read *)
  Definition st (fp : list (option const)) (r : row) : rowst const :=
    if args_match fp r then Some (rev (firstn (length fp) r)) else None.

  Lemma args_match_snoc : forall fp r f c,
    nth_error r (length fp) = Some c ->
    args_match (fp ++ [f]) r = args_match fp r && match f with Some w => const_eqb w c | None => true end.
  Proof.
    induction fp as [|g fp IH]; intros r f c H.
    - destruct r as [|x r]; [discriminate|]. simpl in H. inversion H; subst.
      simpl. destruct f; [rewrite andb_true_r|]; reflexivity.
    - destruct r as [|x r]; [discriminate|]. simpl in H. simpl app.
      cbn [SimpleColumn.args_match]. destruct g.
      + rewrite (IH r f c H). rewrite andb_assoc. reflexivity.
      + apply IH. exact H.
  Qed.

  Lemma firstn_snoc : forall (r : row) j c, nth_error r j = Some c -> firstn (S j) r = firstn j r ++ [c].
  Proof.
    induction r as [|x r IH]; intros j c H; [destruct j; discriminate|].
    destruct j; simpl in *.
    - inversion H; reflexivity.
    - f_equal. apply IH. exact H.
  Qed.

  Lemma st_snoc : forall fp r f c,
    nth_error r (length fp) = Some c ->
    st (fp ++ [f]) r =
    match st fp r with
    | None => None
    | Some acc => match f with
                  | Some w => if const_eqb w c then Some (c :: acc) else None
                  | None => Some (c :: acc)
                  end
    end.
  Proof.
    intros fp r f c Hc. unfold st. rewrite (args_match_snoc fp r f c Hc).
    rewrite app_length. simpl length. rewrite Nat.add_1_r. rewrite (firstn_snoc r _ c Hc), rev_app_distr. simpl.
    destruct (args_match fp r); [|reflexivity].
    destruct f as [w|]; [destruct (const_eqb w c)|]; reflexivity.
  Qed.

  Lemma read_column_step : forall f fp rows,
    (forall r, In r rows -> exists c, nth_error r (length fp) = Some c /\ const_ok c) ->
    read_column const const_eqb parse f (map (st fp) rows) (map (fun r => cellf r (length fp)) rows)
    = Some (map (st (fp ++ [f])) rows).
  Proof.
    intros f fp. induction rows as [|r rows IH]; intro H; [reflexivity|].
    destruct (H r (or_introl eq_refl)) as [c [Hc Hok]].
    assert (IH' := IH (fun r' Hr' => H r' (or_intror Hr'))). clear IH.
    cbn [map]. rewrite (st_snoc fp r f c Hc).
    destruct (st fp r) as [acc|]; cbn [read_column].
    - unfold cell at 1. rewrite Hc. rewrite (read_cell_esc c Hok). rewrite IH'. reflexivity.
    - rewrite IH'. reflexivity.
  Qed.

  Definition col_lines (rows : list row) (a n : nat) : list bytes :=
    flat_map (fun j => map (fun r => cellf r j) rows) (seq a n).

  Lemma col_lines_length : forall rows n a, length (col_lines rows a n) = (n * length rows)%nat.
  Proof.
    unfold col_lines. induction n as [|n IH]; intro a; [reflexivity|].
    cbn [seq flat_map]. rewrite app_length, map_length, IH. reflexivity.
  Qed.

  Lemma firstn_app_exact : forall {A} (l m : list A), firstn (length l) (l ++ m) = l.
  Proof. intros. rewrite firstn_app, Nat.sub_diag, firstn_all. simpl. apply app_nil_r. Qed.
  Lemma skipn_app_exact : forall {A} (l m : list A), skipn (length l) (l ++ m) = m.
  Proof. intros. rewrite skipn_app, Nat.sub_diag, skipn_all. reflexivity. Qed.

  Lemma read_columns_all : forall fs fp rows rest,
    (forall r, In r rows -> length r = (length fp + length fs)%nat /\ Forall const_ok r) ->
    read_columns const const_eqb parse fs (length rows) (map (st fp) rows)
                 (col_lines rows (length fp) (length fs) ++ rest)
    = Some (map (st (fp ++ fs)) rows, rest).
  Proof.
    induction fs as [|f fs IH]; intros fp rows rest H.
    - simpl. rewrite app_nil_r. reflexivity.
    - unfold col_lines. cbn [length seq flat_map read_columns]. rewrite <- app_assoc.
      set (col := map (fun r => cellf r (length fp)) rows).
      assert (L : length col = length rows) by (unfold col; apply map_length).
      rewrite <- L at 1. rewrite firstn_app_exact. unfold col at 1.
      rewrite read_column_step.
      + rewrite <- L. rewrite skipn_app_exact.
        replace (S (length fp)) with (length (fp ++ [f])) by (rewrite app_length; simpl; lia).
        fold (col_lines rows (length (fp ++ [f])) (length fs)).
        rewrite L. rewrite IH.
        * rewrite <- app_assoc. reflexivity.
        * intros r Hr. destruct (H r Hr) as [Hl Hf]. split; [|exact Hf].
          rewrite app_length. simpl in *. lia.
      + intros r Hr. destruct (H r Hr) as [Hl Hf]. simpl in Hl.
        destruct (nth_error r (length fp)) as [c|] eqn:E.
        * exists c. split; [reflexivity|]. rewrite Forall_forall in Hf. apply Hf. eapply nth_error_In. exact E.
        * apply nth_error_None in E. lia.
  Qed.

  Lemma kept_st : forall FS rows,
    (forall r, In r rows -> length r = length FS) ->
    kept const (map (st FS) rows) = filter (args_match FS) rows.
  Proof.
    intros FS. induction rows as [|r rows IH]; intro H; [reflexivity|].
    cbn [map filter]. unfold st at 1. destruct (args_match FS r).
    - cbn [kept]. rewrite <- (H r (or_introl eq_refl)), firstn_all, rev_involutive.
      f_equal. apply IH. intros r' Hr'. apply H. right. exact Hr'.
    - cbn [kept]. apply IH. intros r' Hr'. apply H. right. exact Hr'.
  Qed.

  Lemma repeat_map_st : forall rows, repeat (Some (@nil const)) (length rows) = map (st []) rows.
  Proof. induction rows as [|r rows IH]; [reflexivity|]. simpl. rewrite IH. reflexivity. Qed.

  Definition rows_ok (ar : nat) (rows : list row) : Prop :=
    forall r, In r rows -> length r = ar /\ Forall const_ok r.

  Lemma read_pred_ok : forall ar FS rows rest,
    length FS = ar -> rows_ok ar rows ->
    read_pred const const_eqb parse ar (count const rows) FS (col_lines rows 0 ar ++ rest)
    = Some (filter (args_match FS) rows, rest).
  Proof.
    intros ar FS rows rest HFS Hrows. unfold read_pred, SimpleColumn.row in *.
    rewrite HFS, Nat.eqb_refl. cbn [negb].
    rewrite app_length, col_lines_length. unfold count. unfold SimpleColumn.row in *.
    destruct (Z.of_nat (ar * length rows + length rest) <? Z.of_nat (length rows) * Z.of_nat ar) eqn:E;
      [apply Z.ltb_lt in E; lia|].
    rewrite Nat2Z.id, repeat_map_st. subst ar.
    pose proof (read_columns_all FS [] rows rest) as R. cbn [length app Nat.add] in R.
    rewrite R.
    - rewrite kept_st; [reflexivity|]. intros r Hr. apply (Hrows r Hr).
    - intros r Hr. apply (Hrows r Hr).
  Qed.

  (* --------------------------------------------------- whole files, eager *)
  Notation entry := (fun e : psym * list row => (fst e, count const (snd e))).

  (* what the model requires of one listed predicate with its facts *)
  Definition pred_ok (e : psym * list row) : Prop :=
    fst (fst e) <> [] /\ ~ In 32 (fst (fst e)) /\ ~ In 10 (fst (fst e)) /\
    Z.of_nat (length (header_line (fst e) (count const (snd e)))) < max_token /\
    Z.of_nat (snd (fst e)) <= max_arity /\ count const (snd e) <= max_facts /\
    rows_ok (snd (fst e)) (snd e) /\
    (snd (fst e) = O -> (length (snd e) <= 1)%nat).

  Definition body_lines (St : pstore) : list bytes :=
    flat_map (fun e => match snd (fst e) with O => [] | Datatypes.S _ => col_lines (snd e) 0 (snd (fst e)) end) St.

  Lemma body_ok : forall St, Forall pred_ok St -> body const print fixed St = Some (body_lines St).
  Proof.
    induction St as [|e St IH]; intro F; [reflexivity|].
    inversion F as [|? ? He F']; subst. destruct e as [[s a] rows].
    destruct He as (_ & _ & _ & _ & _ & _ & Hrows & _). simpl fst in *. simpl snd in *.
    cbn [body body_lines flat_map fst snd]. rewrite (IH F').
    unfold pred_body. cbn [fst snd]. destruct a as [|k]; [reflexivity|].
    match goal with |- context [forallb ?f ?l] => assert (C : forallb f l = true) end.
    { apply forallb_forall. intros r Hr. apply Nat.eqb_eq. apply (Hrows r Hr). }
    rewrite C. reflexivity.
  Qed.

  Lemma args_match_none : forall n r, length r = n -> args_match (repeat None n) r = true.
  Proof.
    induction n as [|n IH]; intros r H; [reflexivity|].
    destruct r as [|c r]; [discriminate|]. simpl. apply IH. simpl in H. lia.
  Qed.

  Lemma filter_all : forall {A} (f : A -> bool) l, (forall x, In x l -> f x = true) -> filter f l = l.
  Proof.
    induction l as [|x l IH]; intro H; [reflexivity|]. simpl. rewrite (H x (or_introl eq_refl)).
    f_equal. apply IH. intros y Hy. apply H. right. exact Hy.
  Qed.

  Lemma read_preds_ok : forall St rest0,
    Forall pred_ok St ->
    read_preds const const_eqb parse fixed (map entry St) (body_lines St ++ rest0) = Some (facts_of St).
  Proof.
    induction St as [|e St IH]; intros rest0 F; [reflexivity|].
    inversion F as [|? ? He F']; subst.
    destruct He as (_ & _ & _ & _ & _ & _ & Hrows & Hzero).
    destruct e as [[s a] rows]. simpl fst in *. simpl snd in *.
    unfold facts_of. cbn [flat_map fst snd]. fold (facts_of St).
    cbn [map body_lines flat_map fst snd]. fold (body_lines St).
    destruct a as [|k].
    - cbn [read_preds fst snd app]. rewrite (IH rest0 F'). simpl zero_count. cbn [andb].
      specialize (Hzero eq_refl).
      destruct rows as [|r [|r' rows]].
      + reflexivity.
      + destruct (Hrows r (or_introl eq_refl)) as [Hl _]. destruct r; [|discriminate]. reflexivity.
      + simpl in Hzero. lia.
    - cbn [read_preds fst snd]. rewrite <- app_assoc.
      rewrite (read_pred_ok (Datatypes.S k) (repeat None (Datatypes.S k)) rows (body_lines St ++ rest0)
                            (repeat_length _ _) Hrows).
      rewrite (IH rest0 F').
      rewrite filter_all; [reflexivity|].
      intros r Hr. apply args_match_none. apply (Hrows r Hr).
  Qed.

  Lemma read_header_lines_ok : forall St rest0,
    Forall pred_ok St ->
    read_header_lines (length St) (map (fun e => header_line (fst e) (count const (snd e))) St ++ rest0)
    = Some (map entry St, rest0).
  Proof.
    induction St as [|e St IH]; intros rest0 F; [reflexivity|].
    inversion F as [|? ? He F']; subst.
    destruct He as (H1 & H2 & _ & _ & H5 & H6 & _ & _).
    cbn [length map app read_header_lines].
    rewrite parse_header_line_ok; auto.
    - rewrite (IH rest0 F'). reflexivity.
    - split; [unfold count; apply Nat2Z.is_nonneg | exact H6].
  Qed.

  Lemma read_header_ok : forall St rest0,
    Forall pred_ok St -> Z.of_nat (length St) <= max_num_preds ->
    read_header (header const St ++ rest0) = Some (map entry St, rest0).
  Proof.
    intros St rest0 F L. unfold header, read_header. cbn [app].
    rewrite undec_dec by lia.
    match goal with |- context [if ?c then _ else _] => destruct c eqn:E end;
      [apply Z.ltb_lt in E; unfold SimpleColumn.pstore, SimpleColumn.row in *; lia|].
    rewrite Nat2Z.id. apply read_header_lines_ok. exact F.
  Qed.

  Lemma col_lines_ok : forall rows n a,
    (forall r, In r rows -> length r = (a + n)%nat /\ Forall const_ok r) ->
    Forall line_ok (col_lines rows a n).
  Proof.
    unfold col_lines. intros rows. induction n as [|n IH]; intros a H; [constructor|].
    cbn [seq flat_map]. apply Forall_app. split.
    - apply Forall_forall. intros l Hl. apply in_map_iff in Hl. destruct Hl as [r [<- Hr]].
      destruct (H r Hr) as [Hlen Hf]. unfold cell.
      destruct (nth_error r a) as [c|] eqn:E.
      + apply esc_line_ok. rewrite Forall_forall in Hf. apply Hf. eapply nth_error_In. exact E.
      + apply nth_error_None in E. lia.
    - apply IH. intros r Hr. destruct (H r Hr) as [Hlen Hf]. split; [lia|exact Hf].
  Qed.

  Lemma file_lines_ok : forall St,
    Forall pred_ok St -> Z.of_nat (length St) <= max_num_preds ->
    Forall line_ok (header const St ++ body_lines St).
  Proof.
    intros St F L. apply Forall_app. split.
    - unfold header. constructor.
      + unfold line_ok. split; [apply dec_not_in, not_digit_10|]. split.
        * apply dec_last.
        * apply dec_small_length. unfold SimpleColumn.pstore, SimpleColumn.row in *. lia.
      + apply Forall_forall. intros l Hl. apply in_map_iff in Hl. destruct Hl as [e [<- He]].
        rewrite Forall_forall in F. destruct (F e He) as (_ & _ & H3 & H4 & _).
        destruct (header_line_ok_shape (fst e) (count const (snd e)) H3) as [A B].
        unfold line_ok. auto.
    - unfold body_lines. induction St as [|e St IH]; [constructor|].
      inversion F as [|? ? He F']; subst. destruct e as [[s a] rows].
      cbn [flat_map fst snd]. apply Forall_app. split.
      + destruct He as (_ & _ & _ & _ & _ & _ & Hrows & _). simpl fst in *. simpl snd in *.
        destruct a as [|k]; [constructor|].
        apply col_lines_ok. intros r Hr. apply (Hrows r Hr).
      + apply IH; [exact F'|]. simpl length in L. unfold SimpleColumn.pstore, SimpleColumn.row in *. lia.
  Qed.

  Lemma write_listing : forall St,
    Forall pred_ok St -> Z.of_nat (length St) <= max_num_preds ->
    write const print fhash fixed false St = Some (header const St ++ body_lines St).
  Proof.
    intros St F L. unfold write.
    match goal with |- context [if ?c then _ else _] => destruct c eqn:E end;
      [apply Z.ltb_lt in E; unfold SimpleColumn.pstore, SimpleColumn.row in *; lia|].
    cbn [ordered].
    match goal with |- context [forallb ?f ?l] => assert (C : forallb f l = true) end.
    { apply forallb_forall. intros e He. rewrite Forall_forall in F.
      destruct (F e He) as (_ & _ & _ & _ & H5 & H6 & _).
      apply andb_true_iff. split; apply Z.leb_le; assumption. }
    rewrite C, (body_ok St F). reflexivity.
  Qed.

  (* what is written in listing order comes back, fact for fact, in the same order *)
  Lemma read_write_listing : forall St,
    Forall pred_ok St -> Z.of_nat (length St) <= max_num_preds ->
    exists ls, write const print fhash fixed false St = Some ls /\
               read_into const const_eqb parse fixed (scan_lines (unlines ls)) = Some (facts_of St).
  Proof.
    intros St F L. exists (header const St ++ body_lines St). split; [apply write_listing; assumption|].
    rewrite scan_unlines by (apply file_lines_ok; assumption).
    unfold read_into. rewrite read_header_ok by assumption.
    rewrite <- (app_nil_r (body_lines St)). apply read_preds_ok. exact F.
  Qed.

  (* ------------------------------------------ the deterministic option *)
  Lemma insert_perm : forall {A} (lt : A -> A -> bool) x l, Permutation (insert lt x l) (x :: l).
  Proof.
    induction l as [|y l IH]; [apply Permutation_refl|]. simpl. destruct (lt y x).
    - eapply Permutation_trans; [apply perm_skip, IH | apply perm_swap].
    - apply Permutation_refl.
  Qed.

  Lemma isort_perm : forall {A} (lt : A -> A -> bool) l, Permutation (isort lt l) l.
  Proof.
    induction l as [|x l IH]; [apply Permutation_refl|]. simpl.
    eapply Permutation_trans; [apply insert_perm | apply perm_skip, IH].
  Qed.

  Lemma ordered_length : forall det (St : pstore), length (ordered print fhash det St) = length St.
  Proof.
    intros [|] St; [|reflexivity]. unfold ordered. rewrite map_length.
    apply Permutation_length, isort_perm.
  Qed.

  Lemma write_ordered : forall V det (St : pstore),
    write const print fhash V det St = write const print fhash V false (ordered print fhash det St).
  Proof.
    intros V det St. unfold write. rewrite ordered_length. reflexivity.
  Qed.

  (* the facts are the same, whatever the order they are written in *)
  Lemma ordered_same_facts : forall det (St : pstore) f,
    In f (facts_of (ordered print fhash det St)) <-> In f (facts_of St).
  Proof.
    intros [|] St f; [|reflexivity]. unfold ordered, facts_of.
    rewrite !in_flat_map. split.
    - intros [e [He Hf]]. apply in_map_iff in He. destruct He as [e0 [<- He0]].
      exists e0. split.
      + eapply Permutation_in; [apply isort_perm | exact He0].
      + simpl in Hf. apply in_map_iff in Hf. destruct Hf as [r [<- Hr]].
        apply in_map. eapply Permutation_in; [apply isort_perm | exact Hr].
    - intros [e [He Hf]].
      exists (fst e, isort (fact_ltb const print fhash (fst (fst e))) (snd e)). split.
      + apply in_map_iff. exists e. split; [reflexivity|].
        eapply Permutation_in; [apply Permutation_sym, isort_perm | exact He].
      + simpl. apply in_map_iff in Hf. destruct Hf as [r [<- Hr]].
        apply in_map. eapply Permutation_in; [apply Permutation_sym, isort_perm | exact Hr].
  Qed.

  Theorem read_write_exact_all : forall (St : pstore) det,
    Forall pred_ok (ordered print fhash det St) -> Z.of_nat (length St) <= max_num_preds ->
    exists ls, write const print fhash fixed det St = Some ls /\
               read_into const const_eqb parse fixed (scan_lines (unlines ls))
               = Some (facts_of (ordered print fhash det St)).
  Proof.
    intros St det F L. rewrite write_ordered. apply read_write_listing; [exact F|].
    rewrite ordered_length. exact L.
  Qed.
End Proofs.
