(* The four cell cases of ParseConstProofs.parse_all (PP_pair, PP_list, PP_map, PP_struct)
   restated for ANY text after the constant: a compound constant ends with ')' ']' or '}', so
   nothing about what follows is needed (the proofs there do not use their [follow rest]).
   Used for an (in)equality with a compound constant right before the final '.' of a clause. *)
From Coq Require Import List ZArith Bool Lia.
From MV Require Import Term.Hash Term.Const Term.ConstProofs Term.Print Term.PrintProofs Term.EscProofs
  Term.PrintInjProofs Term.MkMap Term.Atom Term.AtomPrintProofs.
From MV Require Import Serde.Escape Serde.Lexer Serde.Parse Serde.ParseProofs Serde.ParseTokProofs Serde.ParseConstProofs.
Import ListNotations.
Open Scope Z_scope.

Section Cell.
  Variable parse_float : list Z -> option Z.
  Variables fmt_float fmt_time fmt_dur : Z -> list Z.

  Hypothesis float_rt : forall b, float_special b = false ->
    parse_float (format_float64 fmt_float b) = Some b.
  Hypothesis float_shape : forall b, float_special b = false ->
    exists sign ip fp, format_float64 fmt_float b = sign ++ ip ++ 46 :: fp /\
      (sign = [] \/ sign = [45]) /\ ip <> [] /\ fp <> [] /\
      forallb is_digit ip = true /\ forallb is_digit fp = true.
  Hypothesis time_plain : forall n, int64_ok n = true ->
    ~ In 34 (fmt_time n) /\ ~ In 92 (fmt_time n) /\ ~ In 13 (fmt_time n).
  Hypothesis dur_plain : forall n, int64_ok n = true ->
    ~ In 34 (fmt_dur n) /\ ~ In 92 (fmt_dur n) /\ ~ In 13 (fmt_dur n).

  Local Notation pt := (parse_term parse_float).
  Local Notation pr := (print fmt_float fmt_time fmt_dur).
  Local Notation ltail := (print_ltail fmt_time fmt_dur (format_float64 fmt_float)).
  Local Notation mtail := (print_mtail fmt_time fmt_dur (format_float64 fmt_float)).
  Local Notation expr_of := (expr_of fmt_time fmt_dur).
  Local Notation ALL := (parse_all parse_float fmt_float fmt_time fmt_dur float_rt float_shape time_plain dur_plain).
  Local Notation pr_cons := (pr_cons fmt_float fmt_time fmt_dur float_shape).
  Local Notation expr_base := (expr_base fmt_time fmt_dur).

  Lemma parse_cell_any : forall t n a b f rest,
    wf (CCell t n a b) = true -> valid (CCell t n a b) = true -> (need (CCell t n a b) <= f)%nat ->
    pt f (pr (CCell t n a b) ++ rest) = POk (expr_of (CCell t n a b)) rest.
  Proof.
    intros t n a b f rest W V N.
    destruct (ALL a) as (Pa & _ & _ & Sa). destruct (ALL b) as (Pb & Plb & Pmb & _).
    destruct (wf_cell_type _ _ _ _ W) as [->|[->|[->| ->]]].
    - (* pair *)
      destruct (wf_pair_cell _ _ _ W) as (Wa & Wb & _). destruct (valid_cell _ _ _ _ V) as [Va Vb].
      cbn [need] in N. destruct f as [|[|[|f]]]; try lia.
      rewrite pr_pair, <- !app_assoc.
      rewrite (pt_name_call _ _ _ _ _ _ (tok_pair _) (tok_lparen _)).
      assert (A : pt (S f) (pr a ++ s_comma ++ pr b ++ [41] ++ rest) = POk (expr_of a) (s_comma ++ pr b ++ [41] ++ rest)).
      { apply Pa; [exact Wa|exact Va|apply follow_comma|lia]. }
      rewrite (elems_step _ _ TRParen _ _ _ A (expr_base a)).
      unfold elems_post at 1. rewrite tok_comma.
      assert (B : pt f (32 :: pr b ++ [41] ++ rest) = POk (expr_of b) (41 :: rest)).
      { rewrite pt_blank. apply Pb; [exact Wb|exact Vb|exact eq_refl|lia]. }
      rewrite (elems_step _ _ TRParen _ _ _ B (expr_base b)).
      rewrite (elems_post_close _ f TRParen 41 _ rest) by (right; left; split; reflexivity).
      reflexivity.
    - (* list *)
      destruct (wf_list_cell _ _ _ W) as (Wx & Wt & _). destruct (valid_cell _ _ _ _ V) as [Vx Vt].
      cbn [need] in N. destruct f as [|f]; try lia.
      rewrite pr_list, <- app_comm_cons, <- !app_assoc.
      destruct (pr_cons a Wx Vx) as (y & t & E).
      assert (A : pt f (after_bracket (pr a) ++ ltail b ++ [93] ++ rest) = POk (expr_of a) (ltail b ++ 93 :: rest)).
      { rewrite pt_after_bracket. apply Pa; [exact Wx|exact Vx| |lia].
        apply (follow_ltail_c fmt_float fmt_time fmt_dur b TRBracket). left; split; reflexivity. }
      assert (T : next_token (91 :: after_bracket (pr a) ++ ltail b ++ [93] ++ rest)
                  = LTok TLBracket (after_bracket (pr a) ++ ltail b ++ [93] ++ rest)).
      { rewrite E. apply tok_lbracket. }
      rewrite (pt_lbracket _ _ _ _ _ _ T A (expr_base a)).
      apply list_post_elems. apply Plb; [left; split; reflexivity|exact Wt|exact Vt|lia].
    - (* map *)
      destruct (wf_entry_cell MapS _ _ _ (or_introl eq_refl) W) as (We & Wt & _ & Ht & m & k & v & ->).
      destruct (wf_pair_cell _ _ _ We) as (Wk & Wv & _).
      destruct (valid_cell _ _ _ _ V) as [Ve Vt]. destruct (valid_cell _ _ _ _ Ve) as [Vk Vv].
      cbn [PPsub] in Sa. destruct Sa as [Pk Pv].
      cbn [need] in N. destruct f as [|f]; try lia.
      rewrite pr_map, <- app_comm_cons, <- !app_assoc. rewrite (entry_text fmt_float fmt_time fmt_dur float_shape m k v _ Wk Vk).
      destruct (pr_cons k Wk Vk) as (y & t & E).
      assert (A : pt f (after_bracket (pr k) ++ s_colon ++ pr v ++ mtail b ++ [93] ++ rest)
                  = POk (expr_of k) (s_colon ++ pr v ++ mtail b ++ [93] ++ rest)).
      { rewrite pt_after_bracket. apply Pk; [exact Wk|exact Vk|apply follow_colon|lia]. }
      assert (T : next_token (91 :: after_bracket (pr k) ++ s_colon ++ pr v ++ mtail b ++ [93] ++ rest)
                  = LTok TLBracket (after_bracket (pr k) ++ s_colon ++ pr v ++ mtail b ++ [93] ++ rest)).
      { rewrite E. apply tok_lbracket. }
      rewrite (pt_lbracket _ _ _ _ _ _ T A (expr_base k)).
      unfold list_post. rewrite tok_colon.
      assert (B : pt f (32 :: pr v ++ mtail b ++ [93] ++ rest) = POk (expr_of v) (mtail b ++ 93 :: rest)).
      { rewrite pt_blank. apply Pv; [exact Wv|exact Vv| |lia].
        apply (follow_mtail_c fmt_float fmt_time fmt_dur b TRBracket). left; split; reflexivity. }
      rewrite B, (expr_base v). cbn [negb].
      apply map_post_kvs.
      apply (Pmb MapS); [left; reflexivity|left; split; reflexivity|exact Wt|exact Vt|exact Ht|lia].
    - (* struct *)
      destruct (wf_entry_cell StructS _ _ _ (or_intror eq_refl) W) as (We & Wt & _ & Ht & m & k & v & ->).
      destruct (wf_pair_cell _ _ _ We) as (Wk & Wv & _).
      destruct (valid_cell _ _ _ _ V) as [Ve Vt]. destruct (valid_cell _ _ _ _ Ve) as [Vk Vv].
      cbn [PPsub] in Sa. destruct Sa as [Pk Pv].
      cbn [need] in N. destruct f as [|[|f]]; try lia.
      rewrite pr_struct, <- app_comm_cons, <- !app_assoc. cbn [print_entry]. rewrite <- !app_assoc.
      rewrite (pt_lbrace _ _ _ _ (tok_lbrace _)).
      assert (A : pt f (pr k ++ s_colon ++ pr v ++ mtail b ++ [125] ++ rest)
                  = POk (expr_of k) (s_colon ++ pr v ++ mtail b ++ [125] ++ rest)).
      { apply Pk; [exact Wk|exact Vk|apply follow_colon|lia]. }
      assert (B : pt f (32 :: pr v ++ mtail b ++ [125] ++ rest) = POk (expr_of v) (mtail b ++ 125 :: rest)).
      { rewrite pt_blank. apply Pv; [exact Wv|exact Vv| |lia].
        apply (follow_mtail_c fmt_float fmt_time fmt_dur b TRBrace). right; right; split; reflexivity. }
      rewrite (kvs_step _ _ TRBrace _ _ _ _ _ _ A (expr_base k) (tok_colon _) B (expr_base v)).
      rewrite (Pmb StructS f TRBrace 125 (expr_of k) (expr_of v) rest);
        [reflexivity|right; reflexivity|right; right; split; reflexivity|exact Wt|exact Vt|exact Ht|lia].
  Qed.
End Cell.
