(* Token lemmas for the clause level that ParseTokProofs.v does not have: NAME tokens with
   the leading ':' (the built-in comparison atoms :lt :le :gt :ge), and what the lexer makes of
   a variable, a number or a float when the final '.' of a clause follows it directly. *)
From Coq Require Import List ZArith Bool Lia.
From MV Require Import Term.Hash Term.Const Term.ConstProofs Term.Print Term.PrintProofs Term.EscProofs
  Term.PrintInjProofs Term.MkMap Term.Atom Term.AtomPrintProofs.
From MV Require Import Serde.Escape Serde.Lexer Serde.Parse Serde.ParseTokProofs.
Import ListNotations.
Open Scope Z_scope.

(* what may follow the final '.': nothing, or a character that is no NAME_CHAR (letter,
   digit, ':' or '_'; a digit would make ".5" a FLOAT, a capital ".T" a DOT_TYPE, and after a
   variable "X.y" is a TYPENAME) *)
Definition clause_follow (rest : list Z) : Prop :=
  match rest with [] => True | c :: _ => lex_name_char c = false end.

Lemma clause_follow_digit : forall rest, clause_follow rest -> stops is_digit rest.
Proof.
  intros [|c r] F; [exact I|]. cbn [clause_follow] in F. cbn [stops]. unfold lex_name_char in F.
  destruct (is_digit c); [|reflexivity]. rewrite orb_true_r in F. discriminate F.
Qed.

(* ---- NAME with the optional leading ':' -------------------------------------------- *)
(* a word 'a'..'z' ( NAME_CHAR | '.' NAME_CHAR )* followed by '(' : NAME or keyword *)
Lemma lex_lower_word : forall c r X, 97 <= c <= 122 -> name_tail_ok r = true ->
  lex_lower (c :: r ++ 40 :: X) =
  if mem_bytes (c :: r) keywords then LTok (TKeyword (c :: r)) (40 :: X) else LTok (TName (c :: r)) (40 :: X).
Proof.
  intros c r X L T. unfold lex_lower.
  assert (Sp : span_dotted lex_name_char (r ++ 40 :: X) = (r, 40 :: X)).
  { apply (span_dotted_app (length r)); [lia|exact T|]. split; [reflexivity|lia]. }
  rewrite Sp.
  destruct (c =? 98) eqn:B; [|reflexivity].
  destruct r as [|q r']; cbn [app]; [reflexivity|].
  assert (Q : is_quote q = false).
  { cbn [name_tail_ok] in T. unfold is_quote. destruct (lex_name_char q) eqn:N.
    - unfold lex_name_char in N. destruct (Z.eqb_spec q 34); [subst; discriminate N|].
      destruct (Z.eqb_spec q 39); [subst; discriminate N|]. destruct (Z.eqb_spec q 96); [subst; discriminate N|].
      reflexivity.
    - destruct (Z.eqb_spec q 46); [subst; reflexivity|discriminate T]. }
  rewrite Q. reflexivity.
Qed.

(* one NAME token: [pred_lex_valid], or ':' 'a'..'z' ( NAME_CHAR | '.' NAME_CHAR )*
   (after the colon a keyword is a name: the rule NAME is longer than the keyword) *)
Definition name_lex_valid (s : list Z) : bool :=
  pred_lex_valid s ||
  match s with
  | 58 :: c :: r => is_lower c && name_tail_ok r
  | _ => false
  end.

Lemma next_token_name_tok : forall s X, name_lex_valid s = true ->
  next_token (s ++ 40 :: X) = LTok (TName s) (40 :: X).
Proof.
  intros s X V. unfold name_lex_valid in V. apply orb_true_iff in V. destruct V as [V|V].
  - apply next_token_pred. exact V.
  - destruct s as [|c0 [|c r]]; try discriminate V.
    + destruct c0; try discriminate V. repeat (destruct p; try discriminate V).
    + destruct (Z.eqb_spec c0 58) as [->|NE].
      2:{ destruct c0; try discriminate V. repeat (destruct p; try discriminate V). contradiction NE; reflexivity. }
      apply andb_true_iff in V. destruct V as [L T]. apply is_lower_range in L.
      cbn [app].
      change (next_token (58 :: c :: r ++ 40 :: X)) with
        (if 45 =? c then LTok TColonDash (r ++ 40 :: X)
         else if is_lower c then
           match lex_lower (c :: r ++ 40 :: X) with
           | LTok (TName w) r2 => LTok (TName (58 :: w)) r2
           | LTok (TKeyword w) r2 => LTok (TName (58 :: w)) r2
           | _ =>
               match c :: r ++ 40 :: X with
               | b :: r' => let (t, r2) := span_dotted lex_name_char r' in LTok (TName (58 :: b :: t)) r2
               | [] => LErr
               end
           end
         else LTok TColon (c :: r ++ 40 :: X)).
      rewrite (eqb_false 45 c) by lia.
      replace (is_lower c) with true by (symmetry; apply in_range_iff; exact L).
      rewrite (lex_lower_word c r X L T). destruct (mem_bytes (c :: r) keywords); reflexivity.
Qed.

Lemma name_first : forall s, name_lex_valid s = true -> exists c r, s = c :: r /\ c <> 61.
Proof.
  intros s V. unfold name_lex_valid in V. apply orb_true_iff in V. destruct V as [V|V].
  - destruct s as [|c r]; [discriminate V|]. cbn [pred_lex_valid] in V.
    apply andb_true_iff in V. destruct V as [V _]. apply andb_true_iff in V. destruct V as [L _].
    apply is_lower_range in L. exists c, r. split; [reflexivity|lia].
  - destruct s as [|c0 r]; [discriminate V|]. exists c0, r. split; [reflexivity|].
    intro E. subst c0. discriminate V.
Qed.

(* ---- a variable followed by the final '.' ------------------------------------------ *)
Lemma span_dotted_dot : forall n s rest, (length s <= n)%nat -> name_tail_ok s = true -> clause_follow rest ->
  span_dotted lex_name_char (s ++ 46 :: rest) = (s, 46 :: rest).
Proof.
  assert (Base : forall rest, clause_follow rest -> span_dotted lex_name_char (46 :: rest) = ([], 46 :: rest)).
  { intros [|d r] F; [reflexivity|]. cbn [clause_follow] in F. cbn [span_dotted].
    change (lex_name_char 46) with false. change (46 =? 46) with true. cbv iota. rewrite F. reflexivity. }
  induction n as [|n IH]; intros s rest L T E.
  - destruct s; [|cbn [length] in L; lia]. cbn [app]. apply Base. exact E.
  - destruct s as [|c s].
    + cbn [app]. apply Base. exact E.
    + cbn [length] in L. cbn [name_tail_ok] in T. cbn [app span_dotted].
      destruct (lex_name_char c) eqn:C.
      * rewrite (IH s rest); [reflexivity|lia|exact T|exact E].
      * destruct (c =? 46) eqn:D; [|discriminate T].
        destruct s as [|d s]; [discriminate T|]. apply andb_true_iff in T. destruct T as [T1 T2].
        cbn [app]. rewrite T1. cbn [length] in L. rewrite (IH s rest); [reflexivity|lia|exact T2|exact E].
Qed.

Lemma next_token_var_dot : forall x rest, var_lex_valid x = true -> clause_follow rest ->
  next_token (x ++ 46 :: rest) = LTok (TVariable x) (46 :: rest).
Proof.
  intros x rest V E. unfold var_lex_valid in V. apply andb_true_iff in V. destruct V as [V K].
  destruct x as [|c r]; [discriminate V|]. cbn [var_valid] in V. apply orb_true_iff in V. destruct V as [V|V].
  - apply andb_true_iff in V. destruct V as [V1 V2]. apply Z.eqb_eq in V1. apply is_nil_true in V2. subst c r.
    reflexivity.
  - apply andb_true_iff in V. destruct V as [V1 V2]. apply in_range_iff in V1.
    cbn [app]. rewrite next_token_vis; [|unfold is_blank; rewrite !eqb_false by lia; reflexivity|lia].
    unfold lex_visible.
    replace (is_digit c) with false by (symmetry; apply in_range_false; lia).
    rewrite (eqb_false c 45), (eqb_false c 46), (eqb_false c 47) by lia.
    replace (is_quote c) with false by (unfold is_quote; rewrite !eqb_false by lia; reflexivity).
    replace (is_lower c) with false by (symmetry; apply in_range_false; lia).
    replace (is_upper c) with true by (symmetry; apply in_range_iff; exact V1).
    unfold lex_upper.
    rewrite (span_app var_char r (46 :: rest) V2 eq_refl).
    assert (T : name_tail_ok r = true).
    { clear - V2. induction r as [|y r IH]; [reflexivity|]. cbn [forallb] in V2. apply andb_true_iff in V2.
      destruct V2 as [A B]. cbn [name_tail_ok]. unfold lex_name_char. unfold var_char in A. rewrite A. cbn [orb]. apply IH. exact B. }
    rewrite (span_dotted_dot (length r) r rest (le_n _) T E).
    rewrite Nat.ltb_irrefl. apply negb_true_iff in K. rewrite K. reflexivity.
Qed.

(* ---- a number or a float followed by the final '.' ---------------------------------- *)
Lemma next_token_numeric : forall neg d Y, (neg = [] \/ neg = [45]) -> 48 <= d <= 57 ->
  next_token (neg ++ d :: Y) = lex_numeric (neg ++ d :: Y).
Proof.
  intros neg d Y N Hd. destruct N as [-> | ->]; cbn [app].
  - destruct (digit_vis d Hd) as [B H]. rewrite (next_token_vis _ _ B H).
    unfold lex_visible. replace (is_digit d) with true by (symmetry; apply is_digit_range; exact Hd). reflexivity.
  - rewrite next_token_vis by (try reflexivity; lia).
    unfold lex_visible. replace (is_digit 45) with false by reflexivity. replace (45 =? 45) with true by reflexivity.
    cbn [head_is]. replace (is_digit d) with true by (symmetry; apply is_digit_range; exact Hd). reflexivity.
Qed.

Lemma next_token_number_dot : forall neg d ds rest,
  (neg = [] \/ neg = [45]) -> forallb is_digit (d :: ds) = true -> clause_follow rest ->
  next_token (neg ++ d :: ds ++ 46 :: rest) = LTok (TNumber (neg ++ d :: ds)) (46 :: rest).
Proof.
  intros neg d ds rest N D F.
  assert (Hd : 48 <= d <= 57).
  { cbn [forallb] in D. apply andb_true_iff in D. destruct D as [D _]. apply is_digit_range. exact D. }
  rewrite (next_token_numeric neg d _ N Hd).
  pose proof (span_app is_digit (d :: ds) (46 :: rest) D eq_refl) as Sp. rewrite <- app_comm_cons in Sp.
  pose proof (span_app is_digit [] rest eq_refl (clause_follow_digit _ F)) as S0. cbn [app] in S0.
  unfold lex_numeric.
  destruct N as [-> | ->]; cbn [app].
  - rewrite (eqb_false d 45) by lia. rewrite Sp. change (46 =? 46) with true. cbv iota. rewrite S0. reflexivity.
  - replace (45 =? 45) with true by reflexivity. rewrite Sp. change (46 =? 46) with true. cbv iota. rewrite S0. reflexivity.
Qed.

Lemma next_token_print_number_dot : forall n rest, clause_follow rest ->
  next_token (print_number n ++ 46 :: rest) = LTok (TNumber (print_number n)) (46 :: rest).
Proof.
  intros n rest F. destruct (print_number_shape n) as (neg & d & ds & -> & N & D).
  rewrite <- app_assoc, <- app_comm_cons. apply next_token_number_dot; assumption.
Qed.

Lemma next_token_float_dot : forall neg d ds f fs rest,
  (neg = [] \/ neg = [45]) -> forallb is_digit (d :: ds) = true -> forallb is_digit (f :: fs) = true ->
  next_token (neg ++ (d :: ds) ++ 46 :: (f :: fs) ++ 46 :: rest)
  = LTok (TFloat (neg ++ (d :: ds) ++ 46 :: f :: fs)) (46 :: rest).
Proof.
  intros neg d ds f fs rest N D Fs.
  assert (Hd : 48 <= d <= 57).
  { cbn [forallb] in D. apply andb_true_iff in D. destruct D as [D _]. apply is_digit_range. exact D. }
  rewrite <- app_comm_cons. rewrite (next_token_numeric neg d _ N Hd).
  assert (S1 : span is_digit ((d :: ds) ++ 46 :: (f :: fs) ++ 46 :: rest) = (d :: ds, 46 :: (f :: fs) ++ 46 :: rest)).
  { apply span_app; [exact D|reflexivity]. }
  pose proof (span_app is_digit (f :: fs) (46 :: rest) Fs eq_refl) as S2.
  rewrite <- app_comm_cons in S1.
  unfold lex_numeric.
  destruct N as [-> | ->].
  - cbn [app] in *. rewrite (eqb_false d 45) by lia. rewrite S1.
    replace (46 =? 46) with true by reflexivity. rewrite S2. reflexivity.
  - cbn [app] in *. replace (45 =? 45) with true by reflexivity. rewrite S1.
    replace (46 =? 46) with true by reflexivity. rewrite S2. reflexivity.
Qed.
