(* The library laws assumed by the print / parse theorems (ParseConstProofs.v,
   ParseAtomProofs.v) are jointly satisfiable: formatters made from the decimal printer
   (C08's toy_float, print_number) with parsers that read the decimal text back. *)
From Coq Require Import List ZArith Bool Lia.
From MV Require Import Term.Hash Term.Const Term.Print Term.PrintProofs Term.PrintInjProofs.
From MV Require Import Serde.Lexer Serde.Parse Serde.ParseTokProofs.
Import ListNotations.
Open Scope Z_scope.

Definition toy_parse_float (s : list Z) : option Z := Some (num_value (firstn (length s - 2) s)).
Definition toy_parse_int (s : list Z) : option Z := Some (num_value s).

Lemma toy_format : forall b, float_special b = false -> format_float64 toy_float b = print_number b ++ [46; 48].
Proof.
  intros b F. unfold format_float64. rewrite F. cbn [orb].
  replace (has_byte 46 (toy_float b)) with true; [reflexivity|].
  symmetry. apply has_byte_In. unfold toy_float. apply in_or_app. right. left. reflexivity.
Qed.

Lemma print_number_plain : forall n, ~ In 34 (print_number n) /\ ~ In 92 (print_number n) /\ ~ In 13 (print_number n).
Proof.
  intro n. destruct (print_number_numc n) as [A _]. rewrite forallb_forall in A.
  repeat split; intro I; apply A in I; apply numc_range in I; lia.
Qed.

Lemma toy_parse_laws :
  (forall b, float_special b = false -> toy_parse_float (format_float64 toy_float b) = Some b) /\
  (forall b, float_special b = false ->
     exists sign ip fp, format_float64 toy_float b = sign ++ ip ++ 46 :: fp /\
       (sign = [] \/ sign = [45]) /\ ip <> [] /\ fp <> [] /\
       forallb is_digit ip = true /\ forallb is_digit fp = true) /\
  (forall n, int64_ok n = true ->
     ~ In 34 (print_number n) /\ ~ In 92 (print_number n) /\ ~ In 13 (print_number n)) /\
  (forall n, int64_ok n = true -> toy_parse_int (print_number n) = Some n).
Proof.
  split; [|split; [|split]].
  - intros b F. rewrite (toy_format b F). unfold toy_parse_float. rewrite app_length. cbn [length].
    replace (length (print_number b) + 2 - 2)%nat with (length (print_number b)) by lia.
    rewrite firstn_app, firstn_all, Nat.sub_diag. cbn [firstn]. rewrite app_nil_r, num_value_print_number. reflexivity.
  - intros b F. rewrite (toy_format b F). destruct (print_number_shape b) as (neg & d & ds & E & N & D).
    exists neg, (d :: ds), [48]. rewrite E, <- app_assoc. split; [reflexivity|]. split; [exact N|].
    split; [discriminate|]. split; [discriminate|]. split; [exact D|reflexivity].
  - intros n _. apply print_number_plain.
  - intros n _. unfold toy_parse_int. rewrite num_value_print_number. reflexivity.
Qed.
