(* Model of the parser above rule `term`: rules `clause`, `clauseBody`, `literalOrFml`,
   `transform`, `letStmt` of parse/gen/Mangle.g4 with the visitors VisitClause (parse/parse.go:327),
   VisitClauseBody (:346), VisitTransform (:368), VisitLetStmt (:386), VisitLiteralOrFml (:398),
   VisitAtom (:613), as a recursive-descent parser on top of Parse.parse_term that pulls tokens
   from Lexer.next_token. parse.Clause (:678) runs rule `clause` and does not look at what
   follows the final '.'; the model returns the rest of the input.
   Every error a visitor adds (p.errors) and every syntax error is [RErr].
   Not modelled ([RUnsup] as soon as the parser meets one): temporal annotations `@[...]` and the
   temporal operators `<-[..] [-[..] <+[..] [+[..]`; the long arrow U+27F8 for `:-` (the lexer
   model has no such token).
   Executable definitions only; proofs are in ClauseProofs.v / ClauseParseProofs.v. *)
From Coq Require Import List ZArith Bool String.
From MV Require Export Serde.Parse Serde.Clause.
Import ListNotations.
Open Scope Z_scope.

(* what the visitors return. An ast.Atom is a name that does not start with "fn:" applied to
   base terms (arity = number of arguments); ast.ApplyFn a name that does. *)
Inductive pprem :=
| QAtom (n : list Z) (args : list pterm)
| QNeg (n : list Z) (args : list pterm)
| QEq (l r : pterm)
| QIneq (l r : pterm).
Record pstmt := PStmt { ps_var : option (list Z); ps_fn : list Z; ps_args : list pterm }.
Record pclause := PClause {
  pc_sym : list Z; pc_args : list pterm;
  pc_prem : option (list pprem);            (* None: Premises = nil *)
  pc_trans : list (list pstmt) }.           (* the chain Transform, Next, ... ; [] = nil *)

Inductive res (A : Type) :=
| RFuel                          (* out of fuel: never with clause_fuel *)
| RErr                           (* syntax error, or an error added by a visitor *)
| RUnsup                         (* temporal syntax: outside the model *)
| ROk (x : A) (rest : list Z).
Arguments RFuel {A}. Arguments RErr {A}. Arguments RUnsup {A}. Arguments ROk {A} x rest.

Definition kw_do : list Z := Eval vm_compute in bs "do".
Definition kw_let : list Z := Eval vm_compute in bs "let".
Definition s_lt : list Z := Eval vm_compute in bs ":lt".
Definition s_le : list Z := Eval vm_compute in bs ":le".
Definition s_gt : list Z := Eval vm_compute in bs ":gt".
Definition s_ge : list Z := Eval vm_compute in bs ":ge".

(* (EQ | BANGEQ | LESS | LESSEQ | GREATER | GREATEREQ) and what VisitLiteralOrFml builds *)
Definition cmp_of (t : token) : option (pterm -> pterm -> pprem) :=
  match t with
  | TEq => Some QEq
  | TBangEq => Some QIneq
  | TLess => Some (fun l r => QAtom s_lt [l; r])
  | TLessEq => Some (fun l r => QAtom s_le [l; r])
  | TGreater => Some (fun l r => QAtom s_gt [l; r])
  | TGreaterEq => Some (fun l r => QAtom s_ge [l; r])
  | _ => None
  end.

Definition is_temporal_op (t : token) : bool :=
  match t with TDiamondMinus | TDiamondPlus | TBoxMinus | TBoxPlus => true | _ => false end.

Section ClauseParse.
  Variable parse_float : list Z -> option Z.
  Local Notation pt := (parse_term parse_float).

  (* term.(ast.Atom): VisitAppl returns an Atom unless the name starts with "fn:" *)
  Definition as_atom {A} (k : list Z -> list pterm -> A) (t : pterm) : option A :=
    match t with
    | PApply n args => if is_prefix s_fn n then None else Some (k n args)
    | _ => None
    end.
  (* term.(ast.ApplyFn) *)
  Definition as_fn {A} (k : list Z -> list pterm -> A) (t : pterm) : option A :=
    match t with
    | PApply n args => if is_prefix s_fn n then Some (k n args) else None
    | _ => None
    end.

  (* literalOrFml : temporalOperator? term temporalAnnotation? (cmp term)? | '!' term *)
  Definition parse_lit (fuel : nat) (s : list Z) : res pprem :=
    match next_token s with
    | LTok TBang r =>
        match pt fuel r with
        | POk t r1 => match as_atom QNeg t with Some q => ROk q r1 | None => RErr end
        | PErr => RErr
        | PFuel => RFuel
        end
    | LTok tk0 _ =>
        if is_temporal_op tk0 then RUnsup else
        match pt fuel s with
        | POk t r1 =>
            let plain := match as_atom QAtom t with Some q => ROk q r1 | None => RErr end in
            match next_token r1 with
            | LTok TAt _ => RUnsup
            | LTok tk r2 =>
                match cmp_of tk with
                | Some mk =>
                    match pt fuel r2 with
                    | POk u r3 => if is_base t && is_base u then ROk (mk t u) r3 else RErr
                    | PErr => RErr
                    | PFuel => RFuel
                    end
                | None => plain
                end
            | _ => plain
            end
        | PErr => RErr
        | PFuel => RFuel
        end
    | _ => RErr
    end.

  (* literalOrFml {',' literalOrFml} [','] : after a comma the list goes on unless the body
     ends there ('|>' or '.') *)
  Fixpoint parse_lits (fuel : nat) (s : list Z) : res (list pprem) :=
    match fuel with
    | O => RFuel
    | S f =>
        match parse_lit f s with
        | ROk p r =>
            match next_token r with
            | LTok TComma r1 =>
                let more := match parse_lits f r1 with
                            | ROk l r2 => ROk (p :: l) r2
                            | RErr => RErr | RFuel => RFuel | RUnsup => RUnsup
                            end in
                match next_token r1 with
                | LTok TPipeGreater _ => ROk [p] r1
                | LTok TDot _ => ROk [p] r1
                | _ => more
                end
            | _ => ROk [p] r
            end
        | RErr => RErr | RFuel => RFuel | RUnsup => RUnsup
        end
    end.

  (* letStmt : 'let' VARIABLE '=' term ; the term must be a function application *)
  Definition parse_let (fuel : nat) (s : list Z) : res pstmt :=
    match next_token s with
    | LTok (TKeyword k) r =>
        if negb (bytes_eqb k kw_let) then RErr else
        match next_token r with
        | LTok (TVariable v) r1 =>
            match next_token r1 with
            | LTok TEq r2 =>
                match pt fuel r2 with
                | POk t r3 => match as_fn (PStmt (Some v)) t with Some st => ROk st r3 | None => RErr end
                | PErr => RErr
                | PFuel => RFuel
                end
            | _ => RErr
            end
        | _ => RErr
        end
    | _ => RErr
    end.

  (* {',' letStmt} *)
  Fixpoint parse_lets (fuel : nat) (s : list Z) : res (list pstmt) :=
    match fuel with
    | O => RFuel
    | S f =>
        match next_token s with
        | LTok TComma r =>
            match parse_let f r with
            | ROk st r1 =>
                match parse_lets f r1 with
                | ROk l r2 => ROk (st :: l) r2
                | RErr => RErr | RFuel => RFuel | RUnsup => RUnsup
                end
            | RErr => RErr | RFuel => RFuel | RUnsup => RUnsup
            end
        | _ => ROk [] s
        end
    end.

  (* transform : 'do' term [',' letStmt {',' letStmt}] | letStmt {',' letStmt} *)
  Definition parse_transform (fuel : nat) (s : list Z) : res (list pstmt) :=
    match next_token s with
    | LTok (TKeyword k) r =>
        if bytes_eqb k kw_do then
          match pt fuel r with
          | POk t r1 =>
              match as_fn (PStmt None) t with
              | Some st =>
                  match parse_lets fuel r1 with
                  | ROk l r2 => ROk (st :: l) r2
                  | RErr => RErr | RFuel => RFuel | RUnsup => RUnsup
                  end
              | None => RErr
              end
          | PErr => RErr
          | PFuel => RFuel
          end
        else
          match parse_let fuel s with
          | ROk st r1 =>
              match parse_lets fuel r1 with
              | ROk l r2 => ROk (st :: l) r2
              | RErr => RErr | RFuel => RFuel | RUnsup => RUnsup
              end
          | RErr => RErr | RFuel => RFuel | RUnsup => RUnsup
          end
    | _ => RErr
    end.

  (* {'|>' transform} *)
  Fixpoint parse_stages (fuel : nat) (s : list Z) : res (list (list pstmt)) :=
    match fuel with
    | O => RFuel
    | S f =>
        match next_token s with
        | LTok TPipeGreater r =>
            match parse_transform f r with
            | ROk st r1 =>
                match parse_stages f r1 with
                | ROk l r2 => ROk (st :: l) r2
                | RErr => RErr | RFuel => RFuel | RUnsup => RUnsup
                end
            | RErr => RErr | RFuel => RFuel | RUnsup => RUnsup
            end
        | _ => ROk [] s
        end
    end.

  (* clause : atom temporalAnnotation? (':-' clauseBody)? '.' *)
  Definition parse_clause (fuel : nat) (s : list Z) : res pclause :=
    match pt fuel s with
    | POk t r =>
        match as_atom (fun n args => (n, args)) t with
        | None => RErr
        | Some (n, args) =>
            match next_token r with
            | LTok TAt _ => RUnsup
            | LTok TDot r1 => ROk (PClause n args None []) r1
            | LTok TColonDash r1 =>
                match parse_lits fuel r1 with
                | ROk ps r2 =>
                    match parse_stages fuel r2 with
                    | ROk ts r3 =>
                        match next_token r3 with
                        | LTok TDot r4 => ROk (PClause n args (Some ps) ts) r4
                        | _ => RErr
                        end
                    | RErr => RErr | RFuel => RFuel | RUnsup => RUnsup
                    end
                | RErr => RErr | RFuel => RFuel | RUnsup => RUnsup
                end
            | _ => RErr
            end
        end
    | PErr => RErr
    | PFuel => RFuel
    end.

  (* the fuel of Parse.parse_term_all *)
  Definition clause_fuel (s : list Z) : nat := fuel_for s.
  Definition parse_clause_text (s : list Z) : res pclause := parse_clause (clause_fuel s) s.
End ClauseParse.

(* ---- when a parsed clause denotes a syntax tree ---------------------------------
   A constant comes back as a constructor expression that evaluates to it ([ev] =
   Parse.eval with the library readers), a variable as itself, a function application /
   atom with the same symbol and argument by argument. *)
Section Denote.
  Variable ev : pterm -> option const.

  Fixpoint bexp_denotes (e : bexp) (p : pterm) : Prop :=
    match e with
    | BConst c => ev p = Some c
    | BVar x => p = PVar x
    | BApp fn args =>
        match p with
        | PApply n l =>
            n = fn /\
            (fix go (a : list bexp) (l : list pterm) : Prop :=
               match a, l with
               | [], [] => True
               | x :: a', y :: l' => bexp_denotes x y /\ go a' l'
               | _, _ => False
               end) args l
        | _ => False
        end
    end.
  Fixpoint bexps_denote (a : list bexp) (l : list pterm) : Prop :=
    match a, l with
    | [], [] => True
    | x :: a', y :: l' => bexp_denotes x y /\ bexps_denote a' l'
    | _, _ => False
    end.

  Definition premise_denotes (p : premise) (q : pprem) : Prop :=
    match p, q with
    | LAtom a, QAtom n l => n = ca_sym a /\ bexps_denote (ca_args a) l
    | LNeg a, QNeg n l => n = ca_sym a /\ bexps_denote (ca_args a) l
    | LEq x y, QEq u v => bexp_denotes x u /\ bexp_denotes y v
    | LIneq x y, QIneq u v => bexp_denotes x u /\ bexp_denotes y v
    | _, _ => False
    end.
  Definition stmt_denotes (s : tstmt) (q : pstmt) : Prop :=
    ts_var s = ps_var q /\ ps_fn q = ts_fn s /\ bexps_denote (ts_args s) (ps_args q).

  Definition clause_denotes (c : clause) (q : pclause) : Prop :=
    pc_sym q = ca_sym (cl_head c) /\ bexps_denote (ca_args (cl_head c)) (pc_args q) /\
    match cl_prem c, pc_prem q with
    | None, None => True
    | Some ps, Some qs => Forall2 premise_denotes ps qs
    | _, _ => False
    end /\
    Forall2 (Forall2 stmt_denotes) (cl_trans c) (pc_trans q).
End Denote.
