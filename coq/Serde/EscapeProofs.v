(* Proofs about Escape.v / Utf8.v: unescaping an escaped text returns the text. *)
From Coq Require Import List ZArith Bool Lia.
From MV Require Import Serde.Escape.
Import ListNotations.
Open Scope Z_scope.

Definition byte (c : Z) : Prop := 0 <= c < 256.

(* ---- enumeration of small ranges ---------------------------------------- *)
Lemma in_range_seq : forall n c, 0 <= c < Z.of_nat n -> In c (map Z.of_nat (seq 0 n)).
Proof.
  intros n c H. apply in_map_iff. exists (Z.to_nat c). split; [lia|].
  apply in_seq. lia.
Qed.

(* ---- the skip counter ---------------------------------------------------- *)
Lemma unescape_loop_skip : forall b pre rest,
  unescape_loop b (length pre) (pre ++ rest) = unescape_loop b 0 rest.
Proof.
  intros b pre; induction pre as [|c pre IH]; intros rest; [reflexivity|].
  simpl. apply IH.
Qed.

Lemma unescape_loop_nil : forall b k, unescape_loop b k [] = Some [].
Proof. intros b k; destruct k; reflexivity. Qed.

(* ---- clean texts: what Escape writes -------------------------------------- *)
(* ASCII without carriage return *)
Definition clean_char (c : Z) : bool := (0 <=? c) && (c <? 128) && negb (c =? 13).
Definition clean (e : list Z) : bool := forallb clean_char e.

Lemma clean_app : forall a b, clean (a ++ b) = clean a && clean b.
Proof. intros; apply forallb_app. Qed.

Lemma replace_newlines_clean : forall e, clean e = true -> replace_newlines false e = e.
Proof.
  induction e as [|c e IH]; intros H; [reflexivity|].
  simpl in H. apply andb_prop in H. destruct H as [Hc He].
  unfold clean_char in Hc. apply andb_prop in Hc. destruct Hc as [Hc Hcr].
  simpl. apply negb_true_iff in Hcr. rewrite Hcr.
  replace ((c =? 10) && false) with false by (destruct (c =? 10); reflexivity).
  f_equal. apply IH. exact He.
Qed.

(* a clean text without backslash passes through the loop unchanged *)
Lemma unescape_loop_plain : forall b e,
  clean e = true -> has_byte 92 e = false -> unescape_loop b 0 e = Some e.
Proof.
  intros b e; induction e as [|c e IH]; intros Hc Hb; [reflexivity|].
  simpl in Hc. apply andb_prop in Hc. destruct Hc as [Hc He].
  simpl in Hb. apply orb_false_iff in Hb. destruct Hb as [Hcb Heb].
  unfold clean_char in Hc. apply andb_prop in Hc. destruct Hc as [Hc _].
  apply andb_prop in Hc. destruct Hc as [H0 H128].
  apply Z.leb_le in H0. apply Z.ltb_lt in H128.
  cbn [unescape_loop]. unfold unescape_char_prefix.
  replace (128 <=? c) with false by (symmetry; apply Z.leb_gt; lia).
  rewrite Hcb. cbn [negb Nat.pred].
  rewrite (IH He Heb). unfold emit.
  replace (c <? 128) with true by (symmetry; apply Z.ltb_lt; lia).
  cbn. rewrite Z.mod_small by lia. reflexivity.
Qed.

Lemma unescape_clean : forall b e, clean e = true -> unescape b e = unescape_loop b 0 e.
Proof.
  intros b e Hc. unfold unescape.
  assert (He : (if b then e else replace_newlines false e) = e).
  { destruct b; [reflexivity | apply replace_newlines_clean; exact Hc]. }
  rewrite He. destruct (has_byte 92 e) eqn:Hb; [reflexivity|].
  symmetry. apply unescape_loop_plain; assumption.
Qed.

(* ---- byte strings --------------------------------------------------------- *)
Lemma escape_byte_step : forall c, byte c -> forall rest,
  unescape_loop true 0 (escape_byte true c ++ rest) = option_map (cons c) (unescape_loop true 0 rest).
Proof.
  intros c Hc. apply (in_range_seq 256) in Hc. vm_compute in Hc.
  repeat (destruct Hc as [Hc|Hc]; [subst c; intros rest; reflexivity|]).
  contradiction.
Qed.

Lemma escape_byte_clean : forall c, byte c -> clean (escape_byte true c) = true.
Proof.
  intros c Hc. apply (in_range_seq 256) in Hc. vm_compute in Hc.
  repeat (destruct Hc as [Hc|Hc]; [subst c; reflexivity|]).
  contradiction.
Qed.

Lemma escape_bytes_clean : forall s, Forall byte s -> clean (escape_bytes s) = true.
Proof.
  induction 1 as [|c s Hc Hs IH]; [reflexivity|].
  unfold escape_bytes, escape_bytes_go in *. simpl. rewrite clean_app, IH, escape_byte_clean by exact Hc.
  reflexivity.
Qed.

Lemma unescape_loop_escape_bytes : forall s, Forall byte s ->
  unescape_loop true 0 (escape_bytes s) = Some s.
Proof.
  induction 1 as [|c s Hc Hs IH]; [reflexivity|].
  unfold escape_bytes, escape_bytes_go in *. simpl.
  rewrite escape_byte_step by exact Hc. rewrite IH. reflexivity.
Qed.

Lemma unescape_escape_bytes_lemma : forall s, Forall byte s ->
  unescape true (escape_bytes s) = Some s.
Proof.
  intros s H. rewrite unescape_clean by (apply escape_bytes_clean; exact H).
  apply unescape_loop_escape_bytes; exact H.
Qed.

(* ---- strings: the ASCII part ---------------------------------------------- *)
Lemma esc_ascii_step : forall c, 0 <= c < 128 -> forall rest,
  unescape_loop false 0 (esc_ascii_go true false c ++ rest) = option_map (cons c) (unescape_loop false 0 rest).
Proof.
  intros c Hc. apply (in_range_seq 128) in Hc. vm_compute in Hc.
  repeat (destruct Hc as [Hc|Hc]; [subst c; intros rest; reflexivity|]).
  contradiction.
Qed.

Lemma esc_ascii_clean : forall c, 0 <= c < 128 -> clean (esc_ascii_go true false c) = true.
Proof.
  intros c Hc. apply (in_range_seq 128) in Hc. vm_compute in Hc.
  repeat (destruct Hc as [Hc|Hc]; [subst c; reflexivity|]).
  contradiction.
Qed.

(* ---- strings: \u{hhhhhh} --------------------------------------------------- *)
Lemma unhex_hexdigit : forall n, 0 <= n < 16 -> unhex (hexdigit n) = Some n.
Proof.
  intros n Hn. apply (in_range_seq 16) in Hn. vm_compute in Hn.
  repeat (destruct Hn as [Hn|Hn]; [subst n; reflexivity|]).
  contradiction.
Qed.

Lemma hexdigit_not_brace : forall n, 0 <= n < 16 -> (hexdigit n =? 125) = false.
Proof.
  intros n Hn. apply (in_range_seq 16) in Hn. vm_compute in Hn.
  repeat (destruct Hn as [Hn|Hn]; [subst n; reflexivity|]).
  contradiction.
Qed.

Lemma hexdigit_clean : forall n, 0 <= n < 16 -> clean_char (hexdigit n) = true.
Proof.
  intros n Hn. apply (in_range_seq 16) in Hn. vm_compute in Hn.
  repeat (destruct Hn as [Hn|Hn]; [subst n; reflexivity|]).
  contradiction.
Qed.

Lemma u_digits_step : forall k x s v n, 0 <= x < 16 ->
  u_digits (S k) (hexdigit x :: s) v n = u_digits k s (v * 16 + x) (S n).
Proof.
  intros. cbn [u_digits]. rewrite hexdigit_not_brace, unhex_hexdigit by assumption. reflexivity.
Qed.

Lemma nibbles : forall b, 0 <= b < 256 -> 0 <= b / 16 < 16 /\ 0 <= b mod 16 < 16.
Proof.
  intros b Hb. split; [split; [apply Z.div_pos; lia | apply Z.div_lt_upper_bound; lia] | apply Z.mod_pos_bound; lia].
Qed.

Lemma u_digits_hex2 : forall k b s v n, 0 <= b < 256 ->
  u_digits (S (S k)) (hex2 b ++ s) v n = u_digits k s (v * 256 + b) (S (S n)).
Proof.
  intros k b s v n Hb. destruct (nibbles b Hb) as [Hh Hl].
  unfold hex2. cbn [app]. rewrite !u_digits_step by assumption.
  f_equal. rewrite (Z.div_mod b 16) at 3 by lia. lia.
Qed.

Lemma rune_bytes : forall r, 0 <= r < 16777216 ->
  0 <= (r / 65536) mod 256 < 256 /\ 0 <= (r / 256) mod 256 < 256 /\ 0 <= r mod 256 < 256 /\
  (((r / 65536) mod 256) * 256 + (r / 256) mod 256) * 256 + r mod 256 = r.
Proof.
  intros r Hr.
  repeat split; try (apply Z.mod_pos_bound; lia).
  Z.div_mod_to_equations. lia.
Qed.

Lemma esc_rune_length : forall r, length (esc_rune r) = 10%nat.
Proof. intros; reflexivity. Qed.

Lemma esc_rune_step : forall r, 128 <= r <= max_rune -> forall rest,
  unescape_loop false 0 (esc_rune r ++ rest) =
  option_map (app (utf8_encode r)) (unescape_loop false 0 rest).
Proof.
  intros r Hr rest. unfold max_rune in Hr.
  destruct (rune_bytes r ltac:(lia)) as (Ha & Hb & Hc & Hsum).
  assert (Hlen : length (esc_rune r) = 10%nat) by reflexivity.
  remember (esc_rune r) as er eqn:Her.
  assert (Hshape : er = 92 :: 117 :: 123 :: (hex2 ((r / 65536) mod 256) ++ hex2 ((r / 256) mod 256) ++ hex2 (r mod 256) ++ [125])).
  { subst er. reflexivity. }
  (* one step of the loop on the first character *)
  assert (Hpre : unescape_char_prefix false (er ++ rest) = UOk r true 10).
  { rewrite Hshape. cbn [app unescape_char_prefix].
    replace (128 <=? 92) with false by reflexivity.
    replace (92 =? 92) with true by reflexivity.
    cbn [negb].
    replace ((117 =? 10) || (117 =? 110)) with false by reflexivity.
    replace (117 =? 116) with false by reflexivity.
    replace (117 =? 92) with false by reflexivity.
    replace (117 =? 39) with false by reflexivity.
    replace (117 =? 34) with false by reflexivity.
    replace (117 =? 96) with false by reflexivity.
    replace (117 =? 120) with false by reflexivity.
    replace (117 =? 117) with true by reflexivity.
    replace (123 =? 123) with true by reflexivity.
    rewrite <- !app_assoc.
    rewrite (u_digits_hex2 5) by assumption.
    rewrite (u_digits_hex2 3) by assumption.
    rewrite (u_digits_hex2 1) by assumption.
    cbn [app u_digits]. replace (125 =? 125) with true by reflexivity.
    replace ((0 * 256 + (r / 65536) mod 256) * 256 + (r / 256) mod 256) with
      (((r / 65536) mod 256) * 256 + (r / 256) mod 256) by lia.
    rewrite Hsum.
    replace (max_rune <? r) with false by (symmetry; apply Z.ltb_ge; unfold max_rune; lia).
    reflexivity. }
  destruct er as [|c0 er']; [discriminate Hlen|].
  cbn [app]. cbn [unescape_loop].
  change (c0 :: er' ++ rest) with ((c0 :: er') ++ rest). rewrite Hpre.
  cbn [Nat.pred].
  assert (Hl9 : length er' = 9%nat) by (simpl in Hlen; lia).
  rewrite <- Hl9. rewrite unescape_loop_skip.
  unfold emit. replace (r <? 128) with false by (symmetry; apply Z.ltb_ge; lia).
  reflexivity.
Qed.

Lemma esc_rune_clean : forall r, 0 <= r < 16777216 -> clean (esc_rune r) = true.
Proof.
  intros r Hr. destruct (rune_bytes r Hr) as (Ha & Hb & Hc & _).
  destruct (nibbles _ Ha) as [A1 A2]. destruct (nibbles _ Hb) as [B1 B2]. destruct (nibbles _ Hc) as [C1 C2].
  unfold esc_rune, hex2, clean. cbn [app forallb].
  rewrite !hexdigit_clean by assumption. reflexivity.
Qed.

(* ---- UTF-8: encoding a decoded rune gives the bytes back ------------------ *)
Lemma in_range_true : forall lo hi x, in_range lo hi x = true -> lo <= x <= hi.
Proof. intros lo hi x H. unfold in_range in H. apply andb_prop in H. destruct H as [A B]. apply Z.leb_le in A. apply Z.leb_le in B. lia. Qed.

Lemma utf8_decode_encode : forall s r n,
  utf8_decode s = Some (r, n) ->
  128 <= r <= max_rune /\ firstn n s = utf8_encode r /\ (n <= length s)%nat /\ (1 <= n)%nat.
Proof.
  intros s r n H. unfold utf8_decode in H.
  destruct s as [|b0 [|b1 r1]]; try discriminate.
  destruct (in_range 194 223 b0) eqn:E2.
  { destruct (cont b1) eqn:C1; [|discriminate]. inversion H; subst; clear H.
    apply in_range_true in E2. unfold cont in C1. apply in_range_true in C1.
    unfold max_rune. split; [lia|]. split; [|simpl; lia].
    unfold utf8_encode.
    replace ((b0 - 192) * 64 + (b1 - 128) <? 0) with false by (symmetry; apply Z.ltb_ge; lia).
    replace ((b0 - 192) * 64 + (b1 - 128) <? 128) with false by (symmetry; apply Z.ltb_ge; lia).
    replace ((b0 - 192) * 64 + (b1 - 128) <? 2048) with true by (symmetry; apply Z.ltb_lt; lia).
    cbn [firstn].
    replace (((b0 - 192) * 64 + (b1 - 128)) / 64) with (b0 - 192)
      by (Z.div_mod_to_equations; lia).
    replace (((b0 - 192) * 64 + (b1 - 128)) mod 64) with (b1 - 128)
      by (Z.div_mod_to_equations; lia).
    f_equal; [lia | f_equal; lia]. }
  destruct (in_range 224 239 b0) eqn:E3.
  { destruct r1 as [|b2 r2]; [discriminate|].
    destruct (in_range (if b0 =? 224 then 160 else 128) (if b0 =? 237 then 159 else 191) b1 && cont b2) eqn:C; [|discriminate].
    inversion H; subst; clear H.
    apply andb_prop in C. destruct C as [C1 C2].
    apply in_range_true in E3. apply in_range_true in C1. unfold cont in C2. apply in_range_true in C2.
    assert (Hb1 : 128 <= b1 <= 191) by (destruct (b0 =? 224), (b0 =? 237); lia).
    assert (Hlo : b0 = 224 -> 160 <= b1) by (intros ->; simpl in C1; lia).
    assert (Hhi : b0 = 237 -> b1 <= 159).
    { intros ->. replace (237 =? 237) with true in C1 by reflexivity. lia. }
    set (v := (b0 - 224) * 4096 + (b1 - 128) * 64 + (b2 - 128)).
    assert (Hv : 2048 <= v < 65536) by (unfold v; destruct (Z.eq_dec b0 224); [specialize (Hlo e)|]; lia).
    assert (Hns : ~ (55296 <= v <= 57343)).
    { unfold v. destruct (Z.eq_dec b0 237) as [e|ne]; [specialize (Hhi e); lia|]. lia. }
    unfold max_rune. split; [lia|]. split; [|simpl; lia].
    unfold utf8_encode. fold v.
    replace (v <? 0) with false by (symmetry; apply Z.ltb_ge; lia).
    replace (v <? 128) with false by (symmetry; apply Z.ltb_ge; lia).
    replace (v <? 2048) with false by (symmetry; apply Z.ltb_ge; lia).
    replace (max_rune <? v) with false by (symmetry; apply Z.ltb_ge; unfold max_rune; lia).
    replace ((55296 <=? v) && (v <=? 57343)) with false.
    2:{ symmetry. apply andb_false_iff. destruct (Z_le_gt_dec 55296 v); [right; apply Z.leb_gt; lia | left; apply Z.leb_gt; lia]. }
    cbn [orb]. replace (v <? 65536) with true by (symmetry; apply Z.ltb_lt; lia).
    cbn [firstn].
    assert (D1 : v / 4096 = b0 - 224) by (symmetry; apply Z.div_unique with (r := (b1 - 128) * 64 + (b2 - 128)); unfold v; lia).
    assert (D2 : v / 64 = (b0 - 224) * 64 + (b1 - 128)) by (unfold v; Z.div_mod_to_equations; lia).
    assert (D3 : v mod 64 = b2 - 128) by (symmetry; apply Z.mod_unique with (q := (b0 - 224) * 64 + (b1 - 128)); unfold v; lia).
    assert (D4 : (v / 64) mod 64 = b1 - 128) by (rewrite D2; Z.div_mod_to_equations; lia).
    rewrite D1, D4, D3. f_equal; [lia | f_equal; [lia | f_equal; lia]]. }
  destruct (in_range 240 244 b0) eqn:E4; [|discriminate].
  destruct r1 as [|b2 [|b3 r3]]; try discriminate.
  destruct (in_range (if b0 =? 240 then 144 else 128) (if b0 =? 244 then 143 else 191) b1 && cont b2 && cont b3) eqn:C; [|discriminate].
  inversion H; subst; clear H.
  apply andb_prop in C. destruct C as [C C3]. apply andb_prop in C. destruct C as [C1 C2].
  apply in_range_true in E4. apply in_range_true in C1.
  unfold cont in C2, C3. apply in_range_true in C2. apply in_range_true in C3.
  assert (Hb1 : 128 <= b1 <= 191) by (destruct (b0 =? 240), (b0 =? 244); lia).
  assert (Hlo : b0 = 240 -> 144 <= b1) by (intros ->; simpl in C1; lia).
  assert (Hhi : b0 = 244 -> b1 <= 143).
  { intros ->. replace (244 =? 244) with true in C1 by reflexivity. lia. }
  set (v := (b0 - 240) * 262144 + (b1 - 128) * 4096 + (b2 - 128) * 64 + (b3 - 128)).
  assert (Hv : 65536 <= v <= 1114111).
  { unfold v. destruct (Z.eq_dec b0 240) as [e|ne]; [specialize (Hlo e)|];
    (destruct (Z.eq_dec b0 244) as [e'|ne']; [specialize (Hhi e')|]); lia. }
  unfold max_rune. split; [lia|]. split; [|simpl; lia].
  unfold utf8_encode. fold v.
  replace (v <? 0) with false by (symmetry; apply Z.ltb_ge; lia).
  replace (v <? 128) with false by (symmetry; apply Z.ltb_ge; lia).
  replace (v <? 2048) with false by (symmetry; apply Z.ltb_ge; lia).
  replace (max_rune <? v) with false by (symmetry; apply Z.ltb_ge; unfold max_rune; lia).
  replace ((55296 <=? v) && (v <=? 57343)) with false.
  2:{ symmetry. apply andb_false_iff. right. apply Z.leb_gt. lia. }
  cbn [orb]. replace (v <? 65536) with false by (symmetry; apply Z.ltb_ge; lia).
  cbn [firstn].
  assert (D1 : v / 262144 = b0 - 240)
    by (unfold v; Z.div_mod_to_equations; lia).
  assert (D2 : v / 4096 = (b0 - 240) * 64 + (b1 - 128))
    by (unfold v; Z.div_mod_to_equations; lia).
  assert (D3 : v / 64 = (b0 - 240) * 4096 + (b1 - 128) * 64 + (b2 - 128))
    by (unfold v; Z.div_mod_to_equations; lia).
  assert (D4 : v mod 64 = b3 - 128)
    by (symmetry; apply Z.mod_unique with (q := (b0 - 240) * 4096 + (b1 - 128) * 64 + (b2 - 128)); unfold v; lia).
  assert (D5 : (v / 4096) mod 64 = b1 - 128) by (rewrite D2; Z.div_mod_to_equations; lia).
  assert (D6 : (v / 64) mod 64 = b2 - 128)
    by (rewrite D3; Z.div_mod_to_equations; lia).
  rewrite D1, D5, D6, D4. f_equal; [lia | f_equal; [lia | f_equal; [lia | f_equal; lia]]].
Qed.

(* ---- strings: the whole text ---------------------------------------------- *)
Lemma escape_string_skip : forall cr k s,
  escape_string_go cr k s = escape_string_go cr 0 (skipn k s).
Proof.
  intros cr k; induction k as [|k IH]; intros s; [reflexivity|].
  destruct s as [|c r]; [reflexivity|]. simpl. apply IH.
Qed.

Lemma escape_string_sound : forall n s e, (length s <= n)%nat -> Forall byte s ->
  escape_string_go true 0 s = Some e ->
  clean e = true /\ unescape_loop false 0 e = Some s.
Proof.
  induction n as [|n IH]; intros s e Hlen Hb He.
  { destruct s; [|simpl in Hlen; lia]. inversion He; subst. split; reflexivity. }
  destruct s as [|c r]; [inversion He; subst; split; reflexivity|].
  inversion Hb as [|? ? Hc Hr]; subst.
  cbn [escape_string_go] in He.
  destruct (c <? 128) eqn:Hlt.
  - apply Z.ltb_lt in Hlt. unfold byte in Hc.
    destruct (escape_string_go true 0 r) as [e'|] eqn:Hr'; [|discriminate].
    cbn [option_map] in He. injection He as He. subst e.
    destruct (IH r e' ltac:(simpl in Hlen; lia) Hr Hr') as [Hce Hloop].
    split.
    + rewrite clean_app, Hce, esc_ascii_clean by lia. reflexivity.
    + rewrite esc_ascii_step by lia. rewrite Hloop. reflexivity.
  - destruct (utf8_decode (c :: r)) as [[rune k]|] eqn:Hd; [|discriminate].
    destruct (utf8_decode_encode _ _ _ Hd) as (Hrange & Hfirst & Hk & Hk1).
    destruct (escape_string_go true (Nat.pred k) r) as [e'|] eqn:Hr'; [|discriminate].
    remember (esc_rune rune) as er eqn:Her in He. cbn [option_map] in He. injection He as He. subst e er.
    rewrite escape_string_skip in Hr'.
    assert (Hskip : skipn (Nat.pred k) r = skipn k (c :: r)) by (destruct k; [lia | reflexivity]).
    rewrite Hskip in Hr'.
    assert (Hsb : Forall byte (skipn k (c :: r))).
    { rewrite <- (firstn_skipn k (c :: r)) in Hb. apply Forall_app in Hb. apply Hb. }
    assert (Hsl : (length (skipn k (c :: r)) <= n)%nat).
    { rewrite skipn_length. change (length (c :: r)) with (S (length r)) in *. lia. }
    destruct (IH _ e' Hsl Hsb Hr') as [Hce Hloop].
    unfold max_rune in Hrange.
    split.
    + rewrite clean_app, Hce, esc_rune_clean by lia. reflexivity.
    + rewrite esc_rune_step by (unfold max_rune; lia). rewrite Hloop. cbn [option_map].
      rewrite <- Hfirst. rewrite firstn_skipn. reflexivity.
Qed.

Lemma unescape_escape_string_lemma : forall s e, Forall byte s ->
  escape_string s = Some e -> unescape false e = Some s.
Proof.
  intros s e Hb He. unfold escape_string in He.
  destruct (escape_string_sound (length s) s e (le_n _) Hb He) as [Hc Hl].
  rewrite unescape_clean by exact Hc. exact Hl.
Qed.
