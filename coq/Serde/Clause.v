(* Model of the clause level of the printer: the syntax trees ast.Clause (ast/ast.go:1256),
   ast.Atom / ast.NegAtom / ast.Eq / ast.Ineq as premises, ast.ApplyFn (:1150) as a base term,
   ast.Transform / ast.TransformStmt (:1127, :1139), and their String methods
   Clause.String (:1265, after fix N53), endsWithName (:1291), Transform.String (:1305, after
   fix N50), ApplyFn.String (:1161), NegAtom.String (:1079), Eq.String (:1216), Ineq.String (:1240),
   Atom.String (:981). The built-in comparisons are atoms with the predicate symbols :lt :le
   :gt :ge and print as such (the parser alone knows the infix spellings).
   Not modelled: HeadTime, ast.TemporalLiteral (temporal annotations and operators).
   Executable definitions only; proofs are in ClauseProofs.v. *)
From Coq Require Import List ZArith Bool String.
From MV Require Export Term.Atom.
Import ListNotations.
Open Scope Z_scope.

(* ast.BaseTerm: Constant, Variable, ApplyFn{Function: FunctionSym{Symbol, Arity}, Args} *)
Inductive bexp :=
| BConst (c : const)
| BVar (x : list Z)
| BApp (fn : list Z) (args : list bexp).

(* ast.Atom with base terms as arguments (Term/Atom.v has constants and variables only);
   the arity of NewAtom is the number of arguments *)
Record catom := CAtom { ca_sym : list Z; ca_args : list bexp }.

(* a premise: the cases of ast.Term that Clause.Premises holds, without TemporalLiteral *)
Inductive premise :=
| LAtom (a : catom)
| LNeg (a : catom)
| LEq (l r : bexp)
| LIneq (l r : bexp).

(* ast.TransformStmt{Var *Variable, Fn ApplyFn}: Var = nil is a do-statement *)
Record tstmt := TStmt { ts_var : option (list Z); ts_fn : list Z; ts_args : list bexp }.
(* ast.Transform{Statements, Next}: the chain Transform, Transform.Next, ... as the list of
   its Statements slices; the nil pointer is the empty list *)
Definition transform := list (list tstmt).

(* ast.Clause{Head, HeadTime = nil, Premises, Transform}: Premises = nil is None *)
Record clause := Clause { cl_head : catom; cl_prem : option (list premise); cl_trans : transform }.

Definition s_eq : list Z := Eval vm_compute in bs " = ".
Definition s_neq : list Z := Eval vm_compute in bs " != ".
Definition s_do : list Z := Eval vm_compute in bs "do ".
Definition s_let : list Z := Eval vm_compute in bs "let ".
Definition s_pipe : list Z := Eval vm_compute in bs " |> ".
Definition s_if : list Z := Eval vm_compute in bs " :- ".
Definition s_sp_dot : list Z := Eval vm_compute in bs " .".

(* strings.Builder loop "if i > 0 { write(sep) }; write(item)" *)
Fixpoint join (sep : list Z) (l : list (list Z)) : list Z :=
  match l with
  | [] => []
  | [x] => x
  | x :: r => x ++ sep ++ join sep r
  end.

Section ClausePrint.
  Variable fmt_float fmt_time fmt_dur : Z -> list Z.

  (* BaseTerm.String: Constant.String, Variable.String = Symbol, ApplyFn.String =
     Symbol "(" args joined by "," ")" *)
  Fixpoint print_bexp (e : bexp) : list Z :=
    match e with
    | BConst c => print fmt_float fmt_time fmt_dur c
    | BVar x => x
    | BApp fn args =>
        fn ++ 40 :: (fix go (l : list bexp) : list Z :=
                       match l with
                       | [] => []
                       | x :: r => match r with [] => print_bexp x | _ :: _ => print_bexp x ++ 44 :: go r end
                       end) args ++ [41]
    end.
  Fixpoint print_bexps (l : list bexp) : list Z :=
    match l with
    | [] => []
    | x :: r => match r with [] => print_bexp x | _ :: _ => print_bexp x ++ 44 :: print_bexps r end
    end.
  Definition print_call (fn : list Z) (args : list bexp) : list Z := fn ++ 40 :: print_bexps args ++ [41].
  (* Atom.String *)
  Definition print_catom (a : catom) : list Z := print_call (ca_sym a) (ca_args a).

  Definition print_premise (p : premise) : list Z :=
    match p with
    | LAtom a => print_catom a
    | LNeg a => 33 :: print_catom a
    | LEq l r => print_bexp l ++ s_eq ++ print_bexp r
    | LIneq l r => print_bexp l ++ s_neq ++ print_bexp r
    end.

  (* one statement of Transform.String *)
  Definition print_stmt (s : tstmt) : list Z :=
    match ts_var s with
    | None => s_do ++ print_call (ts_fn s) (ts_args s)
    | Some v => s_let ++ v ++ s_eq ++ print_call (ts_fn s) (ts_args s)
    end.
  Definition print_stage (l : list tstmt) : list Z := join s_comma (map print_stmt l).
  (* Transform.String on a non-nil chain: the stages joined by " |> " (fix N50) *)
  Definition print_transform (t : transform) : list Z := join s_pipe (map print_stage t).
  (* before fix N50: the first stage only *)
  Definition print_transform_prefix (t : transform) : list Z :=
    match t with [] => [] | s :: _ => print_stage s end.

  (* endsWithName *)
  Definition ends_with_name (p : premise) : bool :=
    match p with
    | LEq _ (BConst c) | LIneq _ (BConst c) => ctype_eqb (ctype_of c) NameT
    | _ => false
    end.
  (* len(c.Premises) > 0 && endsWithName(c.Premises[len(c.Premises)-1]) *)
  Fixpoint last_ends_with_name (l : list premise) : bool :=
    match l with
    | [] => false
    | p :: r => match r with [] => ends_with_name p | _ :: _ => last_ends_with_name r end
    end.

  (* Clause.String; [n50] / [n53] = with the fix *)
  Definition print_clause_gen (n50 n53 : bool) (c : clause) : list Z :=
    let head := print_catom (cl_head c) in
    match cl_prem c with
    | None => head ++ [46]
    | Some ps =>
        let body := join s_comma (map print_premise ps) in
        match cl_trans c with
        | [] => head ++ s_if ++ body ++ (if n53 && last_ends_with_name ps then s_sp_dot else [46])
        | t => head ++ s_if ++ body ++ s_pipe ++ (if n50 then print_transform t else print_transform_prefix t) ++ [46]
        end
    end.
  Definition print_clause : clause -> list Z := print_clause_gen true true.
End ClausePrint.

(* Term/Atom.v atoms and arguments as clause-level ones *)
Definition bexp_of_bterm (t : bterm) : bexp := match t with TConst c => BConst c | TVar x => BVar x end.
Definition catom_of_atom (a : atom) : catom := CAtom (a_sym a) (map bexp_of_bterm (a_args a)).
