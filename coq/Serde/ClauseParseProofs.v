(* Proofs about ClauseParse.v, part 2: parsing the text Clause.String (Clause.v print_clause)
   writes returns a clause that denotes the printed one. Built on ClauseProofs.v. *)
From Coq Require Import List ZArith Bool Lia.
From MV Require Import Term.Hash Term.Const Term.ConstProofs Term.Print Term.PrintProofs Term.EscProofs
  Term.PrintInjProofs Term.MkMap Term.Atom Term.AtomPrintProofs.
From MV Require Import Serde.Escape Serde.Lexer Serde.Parse Serde.ParseTokProofs Serde.ParseConstProofs
  Serde.ParseAtomProofs.
From MV Require Import Serde.Clause Serde.ClauseParse Serde.ClauseTokProofs Serde.ClauseProofs.
Import ListNotations.
Open Scope Z_scope.

(* ---- tokens of the clause level -------------------------------------------------- *)
Lemma tok_eq_sp : forall X, next_token (s_eq ++ X) = LTok TEq (32 :: X).
Proof. reflexivity. Qed.
Lemma tok_neq_sp : forall X, next_token (s_neq ++ X) = LTok TBangEq (32 :: X).
Proof. reflexivity. Qed.
Lemma tok_pipe : forall X, next_token (s_pipe ++ X) = LTok TPipeGreater (32 :: X).
Proof. reflexivity. Qed.
Lemma tok_if : forall X, next_token (s_if ++ X) = LTok TColonDash (32 :: X).
Proof. reflexivity. Qed.
Lemma tok_do : forall X, next_token (s_do ++ X) = LTok (TKeyword kw_do) (32 :: X).
Proof. reflexivity. Qed.
Lemma tok_let : forall X, next_token (s_let ++ X) = LTok (TKeyword kw_let) (32 :: X).
Proof. reflexivity. Qed.

Lemma tok_dot : forall rest, clause_follow rest -> next_token (46 :: rest) = LTok TDot rest.
Proof.
  intros [|c r] F; [reflexivity|]. cbn [clause_follow] in F.
  unfold lex_name_char in F. apply orb_false_iff in F. destruct F as [F _]. apply orb_false_iff in F. destruct F as [F _].
  apply orb_false_iff in F. destruct F as [F1 F2].
  change (next_token (46 :: c :: r)) with (if is_digit c then lex_numeric (46 :: c :: r) else if is_upper c then
          match c :: r with
          | u :: r' => let (t, r2) := span_dotted lex_name_char r' in LTok (TDotType (46 :: u :: t)) r2
          | [] => LErr
          end else LTok TDot (c :: r)).
  rewrite F2. unfold is_letter in F1. apply orb_false_iff in F1. destruct F1 as [F1 _]. unfold is_upper. rewrite F1. reflexivity.
Qed.

Lemma tok_bang : forall c r, c <> 61 -> next_token (33 :: c :: r) = LTok TBang (c :: r).
Proof.
  intros c r H. change (next_token (33 :: c :: r)) with (if 61 =? c then LTok TBangEq r else LTok TBang (c :: r)).
  rewrite (eqb_false 61 c) by lia. reflexivity.
Qed.

(* ---- lists printed with a separator ------------------------------------------------ *)
Lemma join_cons2 : forall sep (x y : list Z) l, join sep (x :: y :: l) = x ++ sep ++ join sep (y :: l).
Proof. reflexivity. Qed.

Lemma join_flat : forall sep l (x : list Z), join sep (x :: l) = x ++ flat_map (fun y => sep ++ y) l.
Proof.
  intros sep l. induction l as [|y l IH]; intro x; [cbn [join flat_map]; rewrite app_nil_r; reflexivity|].
  rewrite join_cons2, IH. cbn [flat_map]. rewrite <- app_assoc. reflexivity.
Qed.

(* ---- generic steps of the parser model --------------------------------------------- *)
Section Steps.
  Variable parse_float : list Z -> option Z.
  Local Notation pt := (parse_term parse_float).
  Local Notation plit := (parse_lit parse_float).
  Local Notation plits := (parse_lits parse_float).
  Local Notation plet := (parse_let parse_float).
  Local Notation plets := (parse_lets parse_float).
  Local Notation ptrans := (parse_transform parse_float).
  Local Notation pstages := (parse_stages parse_float).

  (* the first token of a term *)
  Definition term_start (tk : token) : Prop :=
    match tk with
    | TVariable _ | TName _ | TConstant _ | TNumber _ | TFloat _ | TString _ | TByteString _
    | TLBracket | TLBrace => True
    | _ => False
    end.

  Lemma pt_first : forall f s x r1, pt f s = POk x r1 ->
    exists tk r, next_token s = LTok tk r /\ term_start tk.
  Proof.
    intros [|f] s x r1 H; [discriminate H|]. rewrite pt_S in H.
    destruct (next_token s) as [| |tk r]; try discriminate H.
    exists tk, r. split; [reflexivity|]. destruct tk; try discriminate H; exact I.
  Qed.

  Lemma plit_blank : forall f s, plit f (32 :: s) = plit f s.
  Proof. intros f s. unfold parse_lit. rewrite next_token_blank, pt_blank. reflexivity. Qed.
  Lemma plits_blank : forall f s, plits f (32 :: s) = plits f s.
  Proof. intros [|f] s; [reflexivity|]. cbn [parse_lits]. rewrite plit_blank. reflexivity. Qed.
  Lemma plet_blank : forall f s, plet f (32 :: s) = plet f s.
  Proof. intros f s. unfold parse_let. rewrite next_token_blank. reflexivity. Qed.
  Lemma ptrans_blank : forall f s, ptrans f (32 :: s) = ptrans f s.
  Proof. intros f s. unfold parse_transform. rewrite next_token_blank, plet_blank. reflexivity. Qed.

  (* the token after a literal that is an atom: no '@', no comparison operator *)
  Definition lit_end (X : list Z) : Prop :=
    match next_token X with LTok tk _ => tk <> TAt /\ cmp_of tk = None | _ => True end.

  Lemma lit_plain : forall f s n args r1,
    pt f s = POk (PApply n args) r1 -> is_prefix s_fn n = false -> lit_end r1 ->
    plit f s = ROk (QAtom n args) r1.
  Proof.
    intros f s n args r1 A Fn E. destruct (pt_first _ _ _ _ A) as (tk & r & T & S).
    unfold parse_lit. rewrite T.
    assert (B : (if is_temporal_op tk then @RUnsup pprem else
                 match pt f s with
                 | POk t r1 =>
                     let plain := match as_atom QAtom t with Some q => ROk q r1 | None => RErr end in
                     match next_token r1 with
                     | LTok TAt _ => RUnsup
                     | LTok tk r2 =>
                         match cmp_of tk with
                         | Some mk =>
                             match pt f r2 with
                             | POk u r3 => if is_base t && is_base u then ROk (mk t u) r3 else RErr
                             | PErr => RErr
                             | PFuel => RFuel
                             end
                         | None => plain
                         end
                     | _ => plain
                     end
                 | PErr => RErr
                 | PFuel => RFuel
                 end) = ROk (QAtom n args) r1).
    { replace (is_temporal_op tk) with false by (destruct tk; try reflexivity; contradiction S).
      rewrite A. cbn [as_atom]. rewrite Fn. unfold lit_end in E.
      destruct (next_token r1) as [| |tk1 r2]; try reflexivity.
      destruct E as [E1 E2]. rewrite E2. destruct tk1; try reflexivity. contradiction E1; reflexivity. }
    destruct tk; try exact B; contradiction S.
  Qed.

  Lemma lit_neg : forall f s r n args r1,
    next_token s = LTok TBang r -> pt f r = POk (PApply n args) r1 -> is_prefix s_fn n = false ->
    plit f s = ROk (QNeg n args) r1.
  Proof. intros f s r n args r1 T A Fn. unfold parse_lit. rewrite T, A. cbn [as_atom]. rewrite Fn. reflexivity. Qed.

  Lemma lit_cmp : forall f s t r1 tk1 r2 mk u r3,
    pt f s = POk t r1 -> next_token r1 = LTok tk1 r2 -> cmp_of tk1 = Some mk ->
    pt f r2 = POk u r3 -> is_base t = true -> is_base u = true ->
    plit f s = ROk (mk t u) r3.
  Proof.
    intros f s t r1 tk1 r2 mk u r3 A T1 C B Bt Bu. destruct (pt_first _ _ _ _ A) as (tk & r & T & S).
    unfold parse_lit. rewrite T.
    assert (G : (if is_temporal_op tk then @RUnsup pprem else
                 match pt f s with
                 | POk t r1 =>
                     let plain := match as_atom QAtom t with Some q => ROk q r1 | None => RErr end in
                     match next_token r1 with
                     | LTok TAt _ => RUnsup
                     | LTok tk r2 =>
                         match cmp_of tk with
                         | Some mk =>
                             match pt f r2 with
                             | POk u r3 => if is_base t && is_base u then ROk (mk t u) r3 else RErr
                             | PErr => RErr
                             | PFuel => RFuel
                             end
                         | None => plain
                         end
                     | _ => plain
                     end
                 | PErr => RErr
                 | PFuel => RFuel
                 end) = ROk (mk t u) r3).
    { replace (is_temporal_op tk) with false by (destruct tk; try reflexivity; contradiction S).
      rewrite A. cbv zeta. rewrite T1.
      destruct tk1; try discriminate C; rewrite C, B, Bt, Bu; reflexivity. }
    destruct tk; try exact G; contradiction S.
  Qed.

  (* a literal does not start with '|>' or '.' *)
  Definition not_end_tok (Y : list Z) : Prop :=
    forall tk r, next_token Y = LTok tk r -> tk <> TPipeGreater /\ tk <> TDot.

  Lemma plit_first : forall f Y q r, plit f Y = ROk q r -> not_end_tok Y.
  Proof.
    intros f Y q r H tk r0 T. unfold parse_lit in H. rewrite T in H.
    split; intro E; subst tk; cbn [is_temporal_op] in H; destruct f as [|f]; try discriminate H;
      rewrite pt_S, T in H; discriminate H.
  Qed.

  Lemma plits_first : forall f Y l r, plits f Y = ROk l r -> not_end_tok Y.
  Proof.
    intros [|f] Y l r H; [discriminate H|]. cbn [parse_lits] in H.
    destruct (plit f Y) as [| | |q r1] eqn:E; try discriminate H. exact (plit_first _ _ _ _ E).
  Qed.

  Lemma more_lits : forall (A : Type) (a b : A) Y, not_end_tok Y ->
    match next_token Y with LTok TPipeGreater _ => a | LTok TDot _ => a | _ => b end = b.
  Proof.
    intros A a b Y N. unfold not_end_tok in N. destruct (next_token Y) as [| |tk r]; try reflexivity.
    destruct (N tk r eq_refl) as [N1 N2]. destruct tk; try reflexivity; [contradiction N2|contradiction N1]; reflexivity.
  Qed.

  Definition not_comma (X : list Z) : Prop :=
    match next_token X with LTok TComma _ => False | _ => True end.

  Lemma plits_last : forall f s p X, plit f s = ROk p X -> not_comma X -> plits (S f) s = ROk [p] X.
  Proof.
    intros f s p X A N. cbn [parse_lits]. rewrite A. unfold not_comma in N.
    destruct (next_token X) as [| |tk r]; try reflexivity. destruct tk; try reflexivity. contradiction N.
  Qed.

  Lemma plits_step : forall f s p Y l X,
    plit f s = ROk p (s_comma ++ Y) -> plits f Y = ROk l X -> plits (S f) s = ROk (p :: l) X.
  Proof.
    intros f s p Y l X A B. cbn [parse_lits]. rewrite A, tok_comma, plits_blank, B.
    rewrite next_token_blank. apply more_lits. exact (plits_first _ _ _ _ B).
  Qed.

  Lemma plets_end : forall f X, not_comma X -> plets (S f) X = ROk [] X.
  Proof.
    intros f X N. cbn [parse_lets]. unfold not_comma in N.
    destruct (next_token X) as [| |tk r]; try reflexivity. destruct tk; try reflexivity. contradiction N.
  Qed.

  Lemma plets_step : forall f Y st Z l X,
    plet f Y = ROk st Z -> plets f Z = ROk l X -> plets (S f) (s_comma ++ Y) = ROk (st :: l) X.
  Proof. intros f Y st Z l X A B. cbn [parse_lets]. rewrite tok_comma, plet_blank, A, B. reflexivity. Qed.

  Definition not_pipe (X : list Z) : Prop :=
    match next_token X with LTok TPipeGreater _ => False | _ => True end.

  Lemma pstages_end : forall f X, not_pipe X -> pstages (S f) X = ROk [] X.
  Proof.
    intros f X N. cbn [parse_stages]. unfold not_pipe in N.
    destruct (next_token X) as [| |tk r]; try reflexivity. destruct tk; try reflexivity. contradiction N.
  Qed.

  Lemma pstages_step : forall f Y st Z l X,
    ptrans f Y = ROk st Z -> pstages f Z = ROk l X -> pstages (S f) (s_pipe ++ Y) = ROk (st :: l) X.
  Proof. intros f Y st Z l X A B. cbn [parse_stages]. rewrite tok_pipe, ptrans_blank, A, B. reflexivity. Qed.
End Steps.
