(* Hash ties under the deterministic option (added when C19 was strengthened after seeding).
   The comparison of WriteTo is (Atom.Hash, then Atom.String). A writer that sorts on the hash
   alone (seeded change C19-3: one precomputed hash per fact, no tie-break) is modelled here as
   [write_hash_only]; two listings of one fact set whose facts share a hash but differ in their
   printed form then come out differently, although they satisfy every hypothesis of
   deterministic_bytes. *)
From Coq Require Import List ZArith Bool Arith.
From MV Require Import Serde.SimpleColumn.
Import ListNotations.
Open Scope Z_scope.

Section HashOnly.
  Variable const : Type.
  Variable print : const -> bytes.
  Variable fhash : bytes -> list const -> Z.

  Definition fact_ltb_hash_only (sym : bytes) (a b : list const) : bool := fhash sym a <? fhash sym b.

  Definition ordered_hash_only (S : pstore const) : pstore const :=
    map (fun e => (fst e, isort (fact_ltb_hash_only (fst (fst e))) (snd e)))
        (isort (fun a b => pred_ltb (fst a) (fst b)) S).

  (* SimpleColumn{Deterministic: true}.WriteTo with the hash-only comparison; everything else as [write] *)
  Definition write_hash_only (V : ver) (S : pstore const) : option (list bytes) :=
    if max_num_preds <? Z.of_nat (length S) then None
    else
      let S' := ordered_hash_only S in
      if forallb (fun e => (Z.of_nat (snd (fst e)) <=? max_arity) && (count const (snd e) <=? max_facts)) S'
      then match body const print V S' with
           | Some b => Some (header const S' ++ b)
           | None => None
           end
      else None.
End HashOnly.

(* p("/a") and p(/a): one hash (the constant hash of a name and of a string is the hash of the
   text), different printed forms. Constants are their printed forms here. *)
Definition tie_a : bytes := [34; 47; 97; 34].      (* "/a" *)
Definition tie_b : bytes := [47; 97].              (* /a   *)
Definition tie_s1 : pstore bytes := [ (([112], 1%nat), [[tie_a]; [tie_b]]) ].
Definition tie_s2 : pstore bytes := [ (([112], 1%nat), [[tie_b]; [tie_a]]) ].
Definition tie_hash (_ : bytes) (_ : list bytes) : Z := 7.

Lemma tie_stores_in_scope :
  tie_s1 <> tie_s2 /\
  NoDup (map fst tie_s1) /\ (forall e, In e tie_s1 -> NoDup (snd e)) /\
  NoDup (map fst tie_s2) /\ (forall e, In e tie_s2 -> NoDup (snd e)) /\
  (forall p, In p (map fst tie_s1) <-> In p (map fst tie_s2)) /\
  (forall f, In f (facts_of tie_s1) <-> In f (facts_of tie_s2)) /\
  (forall p rows r1 r2, In (p, rows) tie_s1 -> In r1 rows -> In r2 rows ->
     tie_hash (fst p) r1 = tie_hash (fst p) r2 ->
     atom_string bytes (fun c => c) (fst p) r1 = atom_string bytes (fun c => c) (fst p) r2 -> r1 = r2).
Proof.
  split; [discriminate|].
  split; [cbn; repeat (constructor; [cbn; intuition discriminate|]); constructor|].
  split; [intros e [<-|[]]; cbn; repeat (constructor; [cbn; intuition discriminate|]); constructor|].
  split; [cbn; repeat (constructor; [cbn; intuition discriminate|]); constructor|].
  split; [intros e [<-|[]]; cbn; repeat (constructor; [cbn; intuition discriminate|]); constructor|].
  split; [intro p; cbn; tauto|].
  split; [intro f; cbn; tauto|].
  intros p rows r1 r2 HI H1 H2 _ HS.
  destruct HI as [E|[]]; inversion E; subst; clear E; cbn in H1, H2;
    repeat match goal with
           | H : _ \/ _ |- _ => destruct H
           | H : False |- _ => destruct H
           end; subst; try reflexivity; vm_compute in HS; discriminate.
Qed.

Lemma tie_written_equal :
  write bytes (fun c => c) tie_hash fixed true tie_s1 = write bytes (fun c => c) tie_hash fixed true tie_s2 /\
  write bytes (fun c => c) tie_hash fixed true tie_s1 <> None.
Proof. split; vm_compute; [reflexivity | discriminate]. Qed.

Lemma hash_only_differs :
  write_hash_only bytes (fun c => c) tie_hash fixed tie_s1 <> write_hash_only bytes (fun c => c) tie_hash fixed tie_s2.
Proof. vm_compute. discriminate. Qed.
