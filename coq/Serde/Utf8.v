(* Model of the two functions of unicode/utf8 that ast/serde.go uses:
   utf8.EncodeRune (Unescape, serde.go:115) and utf8.DecodeRuneInString
   (unescapeCharPrefix, serde.go:132). The decoder of well-formed sequences is
   the one of Term/Print.v (utf8_decode); here it is completed to the total
   function of the library (RuneError, width 1 on malformed input).
   Executable definitions only; proofs are in Utf8Proofs.v. *)
From Coq Require Import List ZArith Bool.
From MV Require Export Term.Print.
Import ListNotations.
Open Scope Z_scope.

Definition rune_error : Z := 65533.       (* U+FFFD *)
Definition max_rune : Z := 1114111.       (* U+10FFFF *)
Definition s_rune_error : list Z := [239; 191; 189].

(* utf8.EncodeRune: negative values, values above MaxRune and surrogates are
   written as RuneError *)
Definition utf8_encode (r : Z) : list Z :=
  if r <? 0 then s_rune_error
  else if r <? 128 then [r]
  else if r <? 2048 then [192 + r / 64; 128 + r mod 64]
  else if (max_rune <? r) || ((55296 <=? r) && (r <=? 57343)) then s_rune_error
  else if r <? 65536 then [224 + r / 4096; 128 + (r / 64) mod 64; 128 + r mod 64]
  else [240 + r / 262144; 128 + (r / 4096) mod 64; 128 + (r / 64) mod 64; 128 + r mod 64].

(* utf8.DecodeRuneInString on a string whose first byte is >= 0x80 *)
Definition decode_rune (s : list Z) : Z * nat :=
  match utf8_decode s with
  | Some (r, n) => (r, n)
  | None => (rune_error, 1%nat)
  end.
