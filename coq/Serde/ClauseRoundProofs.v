(* Proofs about ClauseParse.v, part 3: premises, bodies, transforms, clauses - the lemma behind
   theorem parse_print_clause of Props/C09.v. Built on ClauseProofs.v / ClauseParseProofs.v. *)
From Coq Require Import List ZArith Bool Lia.
From MV Require Import Term.Hash Term.Const Term.ConstProofs Term.Print Term.PrintProofs Term.EscProofs
  Term.PrintInjProofs Term.MkMap Term.Atom Term.AtomPrintProofs.
From MV Require Import Serde.Escape Serde.Lexer Serde.Parse Serde.ParseTokProofs Serde.ParseConstProofs
  Serde.ParseAtomProofs.
From MV Require Import Serde.Clause Serde.ClauseParse Serde.ClauseTokProofs Serde.ClauseProofs Serde.ClauseParseProofs.
Import ListNotations.
Open Scope Z_scope.

(* ---- the domain ----------------------------------------------------------------- *)
Definition catom_ok (a : catom) : bool := sym_ok (ca_sym a) && forallb bexp_ok (ca_args a).
Definition premise_ok (p : premise) : bool :=
  match p with
  | LAtom a | LNeg a => catom_ok a
  | LEq l r | LIneq l r => bexp_ok l && bexp_ok r
  end.
(* `do` only as the first statement of a stage *)
Definition stmt_ok (first : bool) (s : tstmt) : bool :=
  fn_ok (ts_fn s) && forallb bexp_ok (ts_args s) &&
  match ts_var s with Some v => var_lex_valid v | None => first end.
Definition stage_ok (l : list tstmt) : bool :=
  match l with [] => false | s :: r => stmt_ok true s && forallb (stmt_ok false) r end.
(* the text before the final '.' of a body without transform: an atom, or the right side of an
   (in)equality - a function application, a variable, a name constant (then the printer writes
   " ."), or any other constant. Always true on the domain (end_ok_all). *)
Definition end_ok (p : premise) : bool :=
  match p with
  | LAtom _ | LNeg _ => true
  | LEq _ r | LIneq _ r =>
      match r with
      | BApp _ _ => true
      | BConst c => ctype_eqb (ctype_of c) NameT || leaf_dot_ok c
      | BVar _ => true
      end
  end.
Fixpoint last_end_ok (l : list premise) : bool :=
  match l with
  | [] => true
  | p :: r => match r with [] => end_ok p | _ :: _ => last_end_ok r end
  end.
Lemma end_ok_all : forall p, end_ok p = true.
Proof.
  intros [a|a|l r|l r]; try reflexivity; destruct r as [c|x|fn args]; try reflexivity;
    destruct c as [t s n|t n f g]; cbn [end_ok ctype_of leaf_dot_ok]; try apply orb_true_r;
    destruct (ctype_eqb t NameT); reflexivity.
Qed.
Lemma last_end_ok_all : forall ps, last_end_ok ps = true.
Proof.
  induction ps as [|p ps IH]; [reflexivity|]. cbn [last_end_ok]. destruct ps; [apply end_ok_all|exact IH].
Qed.
Definition clause_ok (c : clause) : bool :=
  catom_ok (cl_head c) &&
  match cl_prem c with
  | None => is_nil (cl_trans c)
  | Some ps => negb (is_nil ps) && forallb premise_ok ps && forallb stage_ok (cl_trans c)
  end.

(* ---- fuel -------------------------------------------------------------------------- *)
Definition need_lit (p : premise) : nat :=
  match p with
  | LAtom a | LNeg a => S (need_bexps (ca_args a))
  | LEq l r | LIneq l r => Nat.max (need_bexp l) (need_bexp r)
  end.
Fixpoint need_lits (l : list premise) : nat :=
  match l with [] => 0%nat | p :: r => S (Nat.max (need_lit p) (need_lits r)) end.
Definition need_stmt (s : tstmt) : nat := S (need_bexps (ts_args s)).
Fixpoint need_lets (l : list tstmt) : nat :=
  match l with [] => 1%nat | s :: r => S (Nat.max (need_stmt s) (need_lets r)) end.
Definition need_stage (l : list tstmt) : nat :=
  match l with [] => 0%nat | s :: r => Nat.max (need_stmt s) (need_lets r) end.
Fixpoint need_stages (t : transform) : nat :=
  match t with [] => 1%nat | st :: r => S (Nat.max (need_stage st) (need_stages r)) end.
Definition need_clause (c : clause) : nat :=
  Nat.max (S (need_bexps (ca_args (cl_head c))))
          (match cl_prem c with
           | None => 0%nat
           | Some ps => Nat.max (need_lits ps) (need_stages (cl_trans c))
           end).


Section CR.
  Variable parse_float : list Z -> option Z.
  Variables parse_time parse_dur : list Z -> option Z.
  Variables fmt_float fmt_time fmt_dur : Z -> list Z.

  Hypothesis float_rt : forall b, float_special b = false ->
    parse_float (format_float64 fmt_float b) = Some b.
  Hypothesis float_shape : forall b, float_special b = false ->
    exists sign ip fp, format_float64 fmt_float b = sign ++ ip ++ 46 :: fp /\
      (sign = [] \/ sign = [45]) /\ ip <> [] /\ fp <> [] /\
      forallb is_digit ip = true /\ forallb is_digit fp = true.
  Hypothesis time_plain : forall n, int64_ok n = true ->
    ~ In 34 (fmt_time n) /\ ~ In 92 (fmt_time n) /\ ~ In 13 (fmt_time n).
  Hypothesis dur_plain : forall n, int64_ok n = true ->
    ~ In 34 (fmt_dur n) /\ ~ In 92 (fmt_dur n) /\ ~ In 13 (fmt_dur n).
  Hypothesis time_rt : forall n, int64_ok n = true -> parse_time (fmt_time n) = Some n.
  Hypothesis dur_rt : forall n, int64_ok n = true -> parse_dur (fmt_dur n) = Some n.

  Local Notation pt := (parse_term parse_float).
  Local Notation plit := (parse_lit parse_float).
  Local Notation plits := (parse_lits parse_float).
  Local Notation plet := (parse_let parse_float).
  Local Notation plets := (parse_lets parse_float).
  Local Notation ptrans := (parse_transform parse_float).
  Local Notation pstages := (parse_stages parse_float).
  Local Notation pb := (print_bexp fmt_float fmt_time fmt_dur).
  Local Notation pcall := (print_call fmt_float fmt_time fmt_dur).
  Local Notation pprem := (print_premise fmt_float fmt_time fmt_dur).
  Local Notation pstmt := (print_stmt fmt_float fmt_time fmt_dur).
  Local Notation pstage := (print_stage fmt_float fmt_time fmt_dur).
  Local Notation bx := (bexp_expr fmt_time fmt_dur).
  Local Notation ev := (eval parse_time parse_dur).

  Local Notation PCALL := (parse_call parse_float fmt_float fmt_time fmt_dur float_rt float_shape time_plain dur_plain).
  Local Notation PBEXP := (parse_bexp parse_float fmt_float fmt_time fmt_dur float_rt float_shape time_plain dur_plain).

  (* ---- what the parser returns ---------------------------------------------------- *)
  Definition prem_expr (p : premise) : ClauseParse.pprem :=
    match p with
    | LAtom a => QAtom (ca_sym a) (map bx (ca_args a))
    | LNeg a => QNeg (ca_sym a) (map bx (ca_args a))
    | LEq l r => QEq (bx l) (bx r)
    | LIneq l r => QIneq (bx l) (bx r)
    end.
  Definition stmt_expr (s : tstmt) : ClauseParse.pstmt := PStmt (ts_var s) (ts_fn s) (map bx (ts_args s)).
  Definition clause_expr (c : clause) : pclause :=
    PClause (ca_sym (cl_head c)) (map bx (ca_args (cl_head c)))
            (option_map (map prem_expr) (cl_prem c)) (map (map stmt_expr) (cl_trans c)).

  (* ---- premises ------------------------------------------------------------------- *)
  (* what follows the right-hand side of an (in)equality *)
  Definition sep_start (X : list Z) : Prop := exists ch rest, X = ch :: rest /\ sepc ch.
  Definition dot_end (X : list Z) : Prop := exists rest, X = 46 :: rest /\ clause_follow rest.
  Definition rhs_follow (r : bexp) (X : list Z) : Prop :=
    match r with
    | BApp _ _ => True
    | BVar _ => sep_start X \/ dot_end X
    | BConst c => sep_start X \/ (dot_end X /\ leaf_dot_ok c = true)
    end.
  Definition prem_follow (p : premise) (X : list Z) : Prop :=
    match p with
    | LAtom _ => lit_end X
    | LNeg _ => True
    | LEq _ r | LIneq _ r => rhs_follow r X
    end.

  Lemma parse_rhs : forall r f X, bexp_ok r = true -> rhs_follow r X -> (need_bexp r <= f)%nat ->
    pt f (pb r ++ X) = POk (bx r) X.
  Proof.
    intros r f X O F N. destruct r as [c|x|fn args].
    - destruct F as [(ch & rest & -> & Hc)|((rest & -> & Fr) & L)]; [apply PBEXP; assumption|].
      cbn [bexp_ok print_bexp need_bexp bexp_expr] in *.
      apply andb_true_iff in O. destruct O as [O C]. apply andb_true_iff in O. destruct O as [W V].
      apply (parse_leaf_dot parse_float fmt_float fmt_time fmt_dur float_rt float_shape time_plain dur_plain); assumption.
    - destruct F as [(ch & rest & -> & Hc)|(rest & -> & Fr)]; [apply PBEXP; assumption|].
      cbn [bexp_ok print_bexp need_bexp bexp_expr] in *.
      destruct f as [|f]; [lia|]. rewrite pt_S, (next_token_var_dot x rest O Fr). reflexivity.
    - rewrite pb_app. rewrite need_bexp_app in N. cbn [bexp_ok] in O. apply andb_true_iff in O. destruct O as [Of Oa].
      unfold fn_ok in Of. apply andb_true_iff in Of. destruct Of as [Ps _].
      cbn [bexp_expr]. apply PCALL; try assumption. apply pred_name_valid; exact Ps.
  Qed.

  Lemma parse_cmp : forall l r f X (tok : token) (mk : pterm -> pterm -> ClauseParse.pprem) sepr,
    (forall Y, next_token (sepr ++ Y) = LTok tok (32 :: Y)) -> (exists t, sepr = 32 :: t) ->
    cmp_of tok = Some mk ->
    bexp_ok l = true -> bexp_ok r = true -> rhs_follow r X -> (Nat.max (need_bexp l) (need_bexp r) <= f)%nat ->
    plit f (pb l ++ sepr ++ pb r ++ X) = ROk (mk (bx l) (bx r)) X.
  Proof.
    intros l r f X tok mk sepr T (t & St) C Ol Or F N.
    assert (A : pt f (pb l ++ sepr ++ pb r ++ X) = POk (bx l) (sepr ++ pb r ++ X)).
    { rewrite St. rewrite <- app_comm_cons. apply PBEXP; [exact Ol|right; right; reflexivity|lia]. }
    assert (B : pt f (32 :: pb r ++ X) = POk (bx r) X).
    { rewrite pt_blank. apply parse_rhs; [exact Or|exact F|lia]. }
    exact (lit_cmp parse_float f _ _ _ _ _ _ _ _ A (T _) C B
             (bexp_expr_base fmt_time fmt_dur l Ol) (bexp_expr_base fmt_time fmt_dur r Or)).
  Qed.

  Lemma parse_premise : forall p f X, premise_ok p = true -> prem_follow p X -> (need_lit p <= f)%nat ->
    plit f (pprem p ++ X) = ROk (prem_expr p) X.
  Proof.
    intros [a|a|l r|l r] f X O F N; cbn [premise_ok prem_follow need_lit print_premise prem_expr] in *.
    - unfold catom_ok, sym_ok in O. apply andb_true_iff in O. destruct O as [Os Oa].
      apply andb_true_iff in Os. destruct Os as [Ps Nf]. apply negb_true_iff in Nf.
      unfold print_catom. apply lit_plain; [apply PCALL; assumption|exact Nf|exact F].
    - unfold catom_ok, sym_ok in O. apply andb_true_iff in O. destruct O as [Os Oa].
      apply andb_true_iff in Os. destruct Os as [Ps Nf]. apply negb_true_iff in Nf.
      unfold print_catom. destruct (name_first _ Ps) as (c & r & E & L).
      assert (T : next_token ((33 :: pcall (ca_sym a) (ca_args a)) ++ X)
                  = LTok TBang (pcall (ca_sym a) (ca_args a) ++ X)).
      { unfold print_call. rewrite E. cbn [app]. apply tok_bang. exact L. }
      exact (lit_neg parse_float f _ _ _ _ _ T (PCALL _ _ f X Ps Oa N) Nf).
    - apply andb_true_iff in O. destruct O as [Ol Or]. rewrite <- !app_assoc.
      apply (parse_cmp l r f X TEq QEq s_eq tok_eq_sp); try assumption; [eexists; reflexivity|reflexivity].
    - apply andb_true_iff in O. destruct O as [Ol Or]. rewrite <- !app_assoc.
      apply (parse_cmp l r f X TBangEq QIneq s_neq tok_neq_sp); try assumption; [eexists; reflexivity|reflexivity].
  Qed.

  (* a premise may be followed by ", " *)
  Lemma prem_follow_comma : forall p Y, prem_follow p (s_comma ++ Y).
  Proof.
    intros [a|a|l r|l r] Y; cbn [prem_follow].
    - unfold lit_end. rewrite tok_comma. split; [discriminate|reflexivity].
    - exact I.
    - destruct r; cbn [rhs_follow]; try exact I; left; exists 44, (32 :: Y); (split; [reflexivity|left; reflexivity]).
    - destruct r; cbn [rhs_follow]; try exact I; left; exists 44, (32 :: Y); (split; [reflexivity|left; reflexivity]).
  Qed.

  (* ---- bodies --------------------------------------------------------------------- *)
  Definition pbody (ps : list premise) : list Z := join s_comma (map pprem ps).
  Fixpoint last_follow (ps : list premise) (X : list Z) : Prop :=
    match ps with
    | [] => True
    | p :: r => match r with [] => prem_follow p X | _ :: _ => last_follow r X end
    end.

  Lemma parse_body : forall ps f X, ps <> [] -> forallb premise_ok ps = true ->
    last_follow ps X -> not_comma X -> (need_lits ps <= f)%nat ->
    plits f (pbody ps ++ X) = ROk (map prem_expr ps) X.
  Proof.
    induction ps as [|p ps IH]; intros f X NE O F NC N; [contradiction NE; reflexivity|].
    cbn [forallb] in O. apply andb_true_iff in O. destruct O as [Op Ops].
    cbn [need_lits] in N. destruct f as [|f]; [lia|].
    destruct ps as [|q ps].
    - unfold pbody. cbn [map join last_follow] in *.
      apply plits_last; [|exact NC]. apply parse_premise; [exact Op|exact F|lia].
    - unfold pbody. cbn [map]. rewrite join_cons2, <- !app_assoc.
      apply (plits_step parse_float f _ (prem_expr p) (join s_comma (map pprem (q :: ps)) ++ X) (map prem_expr (q :: ps)) X).
      + apply parse_premise; [exact Op|apply prem_follow_comma|lia].
      + apply (IH f X); [discriminate|exact Ops|exact F|exact NC|lia].
  Qed.

  (* ---- transforms ------------------------------------------------------------------ *)
  Lemma parse_let_stmt : forall s f X, stmt_ok false s = true -> (need_stmt s <= f)%nat ->
    plet f (pstmt s ++ X) = ROk (stmt_expr s) X.
  Proof.
    intros [v fn args] f X O N. unfold stmt_ok in O. cbn [ts_var ts_fn ts_args] in O.
    apply andb_true_iff in O. destruct O as [O Ov]. apply andb_true_iff in O. destruct O as [Of Oa].
    destruct v as [v|]; [|discriminate Ov].
    unfold fn_ok in Of. apply andb_true_iff in Of. destruct Of as [Ps Pf].
    unfold need_stmt in N. cbn [ts_args] in N.
    unfold print_stmt, stmt_expr. cbn [ts_var ts_fn ts_args]. rewrite <- !app_assoc.
    unfold parse_let. rewrite tok_let. change (bytes_eqb kw_let kw_let) with true. cbn [negb].
    rewrite next_token_blank.
    rewrite (next_token_var v (s_eq ++ pcall fn args ++ X) Ov); [|split; [reflexivity|discriminate]|discriminate].
    rewrite tok_eq_sp, pt_blank, (PCALL fn args f X (pred_name_valid _ Ps) Oa N). cbn [as_fn]. rewrite Pf. reflexivity.
  Qed.

  Definition plets_text (l : list tstmt) : list Z := flat_map (fun y => s_comma ++ y) (map pstmt l).

  Lemma parse_let_stmts : forall l f X, forallb (stmt_ok false) l = true -> not_comma X ->
    (need_lets l <= f)%nat -> plets f (plets_text l ++ X) = ROk (map stmt_expr l) X.
  Proof.
    induction l as [|s l IH]; intros f X O NC N; cbn [need_lets] in N; (destruct f as [|f]; [lia|]).
    - apply plets_end. exact NC.
    - cbn [forallb] in O. apply andb_true_iff in O. destruct O as [Os Ol].
      unfold plets_text. cbn [map flat_map]. rewrite <- !app_assoc.
      apply (plets_step parse_float f _ (stmt_expr s) (plets_text l ++ X) (map stmt_expr l) X).
      + apply parse_let_stmt; [exact Os|lia].
      + apply IH; [exact Ol|exact NC|lia].
  Qed.

  Lemma pstage_cons : forall s l, pstage (s :: l) = pstmt s ++ plets_text l.
  Proof. intros s l. unfold print_stage, plets_text. cbn [map]. apply join_flat. Qed.

  Lemma parse_stage : forall st f X, stage_ok st = true -> not_comma X -> (need_stage st <= f)%nat ->
    ptrans f (pstage st ++ X) = ROk (map stmt_expr st) X.
  Proof.
    intros [|s l] f X O NC N; [discriminate O|]. cbn [stage_ok] in O. apply andb_true_iff in O. destruct O as [Os Ol].
    cbn [need_stage] in N. rewrite pstage_cons, <- app_assoc. cbn [map].
    destruct s as [[v|] fn args].
    - (* let first *)
      assert (Os' : stmt_ok false (TStmt (Some v) fn args) = true) by exact Os.
      pose proof (parse_let_stmt (TStmt (Some v) fn args) f (plets_text l ++ X) Os' ltac:(lia)) as A.
      unfold parse_transform.
      assert (T : next_token (pstmt (TStmt (Some v) fn args) ++ plets_text l ++ X)
                  = LTok (TKeyword kw_let) (32 :: v ++ s_eq ++ pcall fn args ++ plets_text l ++ X)).
      { unfold print_stmt. cbn [ts_var ts_fn ts_args]. rewrite <- !app_assoc. apply tok_let. }
      rewrite T. change (bytes_eqb kw_let kw_do) with false. cbv iota. rewrite A.
      rewrite (parse_let_stmts l f X Ol NC) by lia. reflexivity.
    - (* do first *)
      unfold stmt_ok in Os. cbn [ts_var ts_fn ts_args] in Os.
      apply andb_true_iff in Os. destruct Os as [Os _]. apply andb_true_iff in Os. destruct Os as [Of Oa].
      unfold fn_ok in Of. apply andb_true_iff in Of. destruct Of as [Ps Pf].
      unfold need_stmt in N. cbn [ts_args] in N.
      unfold print_stmt, stmt_expr. cbn [ts_var ts_fn ts_args]. rewrite <- !app_assoc.
      unfold parse_transform. rewrite tok_do. change (bytes_eqb kw_do kw_do) with true. cbv iota.
      rewrite pt_blank, (PCALL fn args f (plets_text l ++ X) (pred_name_valid _ Ps) Oa) by lia. cbn [as_fn]. rewrite Pf.
      rewrite (parse_let_stmts l f X Ol NC) by lia. reflexivity.
  Qed.

  Definition pstages_text (t : transform) : list Z := flat_map (fun y => s_pipe ++ y) (map pstage t).

  Lemma not_comma_pipe : forall Y, not_comma (s_pipe ++ Y).
  Proof. intro Y. unfold not_comma. rewrite tok_pipe. exact I. Qed.

  Lemma parse_stages_ok : forall t f X, forallb stage_ok t = true -> not_comma X -> not_pipe X ->
    (need_stages t <= f)%nat -> pstages f (pstages_text t ++ X) = ROk (map (map stmt_expr) t) X.
  Proof.
    induction t as [|st t IH]; intros f X O NC NP N; cbn [need_stages] in N; (destruct f as [|f]; [lia|]).
    - apply pstages_end. exact NP.
    - cbn [forallb] in O. apply andb_true_iff in O. destruct O as [Os Ot].
      unfold pstages_text. cbn [map flat_map]. rewrite <- !app_assoc.
      apply (pstages_step parse_float f _ (map stmt_expr st) (pstages_text t ++ X) (map (map stmt_expr) t) X).
      + apply parse_stage; [exact Os| |lia].
        destruct t as [|st2 t2]; [exact NC|]. unfold pstages_text. cbn [map flat_map]. rewrite <- !app_assoc.
        apply not_comma_pipe.
      + apply IH; [exact Ot|exact NC|exact NP|lia].
  Qed.

  Lemma ptransform_text : forall t, t <> [] ->
    s_pipe ++ print_transform fmt_float fmt_time fmt_dur t = pstages_text t.
  Proof.
    intros [|st t] NE; [contradiction NE; reflexivity|]. unfold print_transform, pstages_text.
    cbn [map flat_map]. rewrite join_flat. reflexivity.
  Qed.
End CR.
