(* Model of the simple-column file format: factstore/simplecolumn.go.

     write        SimpleColumn.WriteTo (:264) with writeHeader (:247)
     scan_lines   bufio.Scanner with bufio.ScanLines as used by every reader
     read_header  readHeader (:395)
     read_pred    readPred (:337), including the filter / skip logic
     read_into    SimpleColumn.ReadInto (:439)
     lz_new       NewSimpleColumnStore (:233)
     lz_get_facts SimpleColumnStore.GetFacts (:127-174), the skip arithmetic

   A constant is an abstract value; its printed form (ast.Constant.String) and
   the decoding of a line (parse.BaseTerm + functional.EvalExpr) are parameters
   [print] / [parse] of the model, Constant.Equals is [const_eqb], Atom.Hash is
   [fhash]. Everything else - header layout, decimal numbers, column-major body,
   percent escape / unescape of lines that start with '/', the sort orders of
   the deterministic option, line splitting, offsets - is modelled here.

   [ver] selects repairs of /repo that this property needed:
     esc_names   (F12)  WriteTo escapes '%' and '+' in lines starting with '/'
                        (readPred has always percent-unescaped such lines)
     zero_count  (N40)  ReadInto adds the fact of a zero-arity predicate only if
                        the header count is positive (the lazy store always did)
   The third repair (N41: WriteTo sorted the slice returned by ListPredicates in
   place) is not visible in a functional model; the model sorts a copy.

   Errors and panics of the Go code are all mapped to [None].
   No proofs in this file. *)
From Coq Require Import List ZArith Bool Arith Ascii.
From Coq Require String DecimalString Decimal DecimalN.
Import ListNotations.
Open Scope Z_scope.

Definition bytes := list Z.

Record ver := { esc_names : bool; zero_count : bool }.
Definition fixed : ver := {| esc_names := true; zero_count := true |}.
Definition original : ver := {| esc_names := false; zero_count := false |}.

(* ------------------------------------------------------------ byte strings *)
Fixpoint bytes_eqb (a b : bytes) : bool :=
  match a, b with
  | [], [] => true
  | x :: a', y :: b' => (x =? y) && bytes_eqb a' b'
  | _, _ => false
  end.

(* Go's < on strings: bytewise lexicographic *)
Fixpoint bytes_ltb (a b : bytes) : bool :=
  match a, b with
  | _, [] => false
  | [], _ :: _ => true
  | x :: a', y :: b' => if x <? y then true else if y <? x then false else bytes_ltb a' b'
  end.

(* ----------------------------------------------------- decimal (fmt %d, Atoi) *)
Definition byte_of_ascii (a : ascii) : Z := Z.of_N (N_of_ascii a).
Definition ascii_of_byte (z : Z) : ascii := ascii_of_N (Z.to_N z).
Definition is_byte (z : Z) : bool := (0 <=? z) && (z <? 256).

(* fmt "%d" of a non-negative int *)
Definition dec (n : Z) : bytes :=
  map byte_of_ascii (String.list_ascii_of_string (DecimalString.NilEmpty.string_of_uint (N.to_uint (Z.to_N n)))).

(* strconv.Atoi / Sscanf %d restricted to unsigned digit strings (all the writer produces) *)
Definition undec (b : bytes) : option Z :=
  match b with
  | [] => None
  | _ => if forallb is_byte b then
           match DecimalString.NilEmpty.uint_of_string (String.string_of_list_ascii (map ascii_of_byte b)) with
           | Some u => Some (Z.of_N (N.of_uint u))
           | None => None
           end
         else None
  end.

(* ------------------------------------------------------------------- lines *)
Definition max_token : Z := 65536.     (* bufio.MaxScanTokenSize *)

Definition unlines (ls : list bytes) : bytes := flat_map (fun l => l ++ [10]) ls.

(* one trailing CR of a line is dropped (bufio.dropCR); [r] is the line reversed *)
Definition dropcr_rev (r : bytes) : bytes := match r with 13 :: t => rev t | _ => rev r end.

(* bufio.ScanLines over the whole input. [cur] = current line reversed, [n] its
   length. A line of max_token bytes or more makes Scan return false
   (bufio.ErrTooLong): the scan ends there, exactly as at the end of input. *)
Fixpoint split_lines (cur : bytes) (n : Z) (s : bytes) : list bytes :=
  match s with
  | [] => match cur with [] => [] | _ => if max_token <=? n then [] else [dropcr_rev cur] end
  | c :: t =>
      if c =? 10 then
        if max_token <=? n then [] else dropcr_rev cur :: split_lines [] 0 t
      else split_lines (c :: cur) (n + 1) t
  end.
Definition scan_lines (s : bytes) : list bytes := split_lines [] 0 s.

(* --------------------------------------------- percent escape / unescape *)
Definition is_hex (c : Z) : bool :=
  ((48 <=? c) && (c <=? 57)) || ((97 <=? c) && (c <=? 102)) || ((65 <=? c) && (c <=? 70)).
Definition unhex (c : Z) : Z :=
  if (48 <=? c) && (c <=? 57) then c - 48
  else if (97 <=? c) && (c <=? 102) then c - 97 + 10
  else c - 65 + 10.

(* url.QueryUnescape: "%XX" -> byte, '+' -> ' ', error on a malformed escape *)
Fixpoint unescape (s : bytes) : option bytes :=
  match s with
  | [] => Some []
  | c :: r =>
      if c =? 37 then
        match r with
        | h1 :: h2 :: r' =>
            if is_hex h1 && is_hex h2
            then match unescape r' with Some u => Some (unhex h1 * 16 + unhex h2 :: u) | None => None end
            else None
        | _ => None
        end
      else match unescape r with
           | Some u => Some ((if c =? 43 then 32 else c) :: u)
           | None => None
           end
  end.

(* escapeLine (F12): '%' -> "%25", '+' -> "%2B" *)
Fixpoint escape (s : bytes) : bytes :=
  match s with
  | [] => []
  | c :: r => if c =? 37 then 37 :: 50 :: 53 :: escape r
              else if c =? 43 then 37 :: 50 :: 66 :: escape r
              else c :: escape r
  end.

Definition esc_line (V : ver) (t : bytes) : bytes :=
  match t with
  | 47 :: _ => if esc_names V then escape t else t
  | _ => t
  end.

(* --------------------------------------------------------------- predicates *)
Definition psym := (bytes * nat)%type.          (* ast.PredicateSym{Symbol, Arity} *)
Definition psym_eqb (a b : psym) : bool := bytes_eqb (fst a) (fst b) && Nat.eqb (snd a) (snd b).

Definition max_num_preds : Z := 65536.
Definition max_facts : Z := 4294967296.
Definition max_arity : Z := 1024.

(* sort.Slice(preds, ...): arity, then symbol *)
Definition pred_ltb (a b : psym) : bool :=
  Nat.ltb (snd a) (snd b) || (Nat.eqb (snd a) (snd b) && bytes_ltb (fst a) (fst b)).

(* sort.Slice is not stable; on pairwise distinct keys under a strict total order
   every correct sort returns the same list, the one insertion sort returns *)
Fixpoint insert {A} (lt : A -> A -> bool) (x : A) (l : list A) : list A :=
  match l with
  | [] => [x]
  | y :: r => if lt y x then y :: insert lt x r else x :: l
  end.
Definition isort {A} (lt : A -> A -> bool) (l : list A) : list A := fold_right (insert lt) [] l.

Fixpoint intercalate (sep : bytes) (l : list bytes) : bytes :=
  match l with
  | [] => []
  | [x] => x
  | x :: r => x ++ sep ++ intercalate sep r
  end.

(* "%s %d %d" *)
Definition header_line (p : psym) (n : Z) : bytes :=
  fst p ++ [32] ++ dec (Z.of_nat (snd p)) ++ [32] ++ dec n.

(* split at blanks *)
Fixpoint split_sp (cur : bytes) (l : bytes) : list bytes :=
  match l with
  | [] => [rev cur]
  | c :: r => if c =? 32 then rev cur :: split_sp [] r else split_sp (c :: cur) r
  end.

(* fmt.Sscanf(text, "%s %d %d") + the range checks of readHeader, on lines of the
   shape the writer produces (name, blank, digits, blank, digits) *)
Definition parse_header_line (l : bytes) : option (psym * Z) :=
  match split_sp [] l with
  | [name; a; c] =>
      match name with
      | [] => None
      | _ => match undec a, undec c with
             | Some ar, Some nf =>
                 if (max_arity <? ar) || (max_facts <? nf) then None
                 else Some ((name, Z.to_nat ar), nf)
             | _, _ => None
             end
      end
  | _ => None
  end.

(* the loop of readHeader; returns the entries and the unread lines *)
Fixpoint read_header_lines (n : nat) (ls : list bytes) : option (list (psym * Z) * list bytes) :=
  match n with
  | O => Some ([], ls)
  | S n' =>
      match ls with
      | [] => None
      | l :: ls' =>
          match parse_header_line l with
          | None => None
          | Some e =>
              match read_header_lines n' ls' with
              | Some (es, r) => Some (e :: es, r)
              | None => None
              end
          end
      end
  end.

Definition read_header (ls : list bytes) : option (list (psym * Z) * list bytes) :=
  match ls with
  | [] => None
  | l0 :: rest =>
      match undec l0 with
      | None => None
      | Some np => if max_num_preds <? np then None else read_header_lines (Z.to_nat np) rest
      end
  end.

Section Model.
  Variable const : Type.
  Variable const_eqb : const -> const -> bool.      (* ast.Constant.Equals *)
  Variable print : const -> bytes.                  (* ast.Constant.String *)
  Variable parse : bytes -> option const.           (* parse.BaseTerm + functional.EvalExpr *)
  Variable fhash : bytes -> list const -> Z.        (* ast.Atom.Hash of symbol(args) *)

  Definition row := list const.
  Definition fact := (psym * row)%type.
  (* a ReadOnlyFactStore as WriteTo sees it: ListPredicates() in its order, and for
     each predicate the atoms GetFacts(NewQuery(p)) yields, in its order *)
  Definition pstore := list (psym * list row).

  Definition facts_of (S : pstore) : list fact :=
    flat_map (fun e => map (fun r => (fst e, r)) (snd e)) S.

  (* ast.Atom.String *)
  Definition atom_string (sym : bytes) (r : row) : bytes :=
    sym ++ [40] ++ intercalate [44] (map print r) ++ [41].

  (* the comparison of the deterministic option: hash, then String() *)
  Definition fact_ltb (sym : bytes) (a b : row) : bool :=
    let h1 := fhash sym a in let h2 := fhash sym b in
    if h1 =? h2 then bytes_ltb (atom_string sym a) (atom_string sym b) else h1 <? h2.

  (* the order in which WriteTo emits predicates and facts *)
  Definition ordered (det : bool) (S : pstore) : pstore :=
    if det then
      map (fun e => (fst e, isort (fact_ltb (fst (fst e))) (snd e)))
          (isort (fun a b => pred_ltb (fst a) (fst b)) S)
    else S.

  Definition cell (V : ver) (r : row) (j : nat) : bytes :=
    match nth_error r j with Some c => esc_line V (print c) | None => [] end.

  (* the column-major block of one predicate *)
  Definition pred_body (V : ver) (p : psym) (rows : list row) : option (list bytes) :=
    match snd p with
    | O => Some []
    | _ => if forallb (fun r => Nat.eqb (length r) (snd p)) rows
           then Some (flat_map (fun j => map (fun r => cell V r j) rows) (seq 0 (snd p)))
           else None                                     (* "malformed fact" *)
    end.

  Fixpoint body (V : ver) (S : pstore) : option (list bytes) :=
    match S with
    | [] => Some []
    | e :: S' =>
        match pred_body V (fst e) (snd e), body V S' with
        | Some b, Some bs => Some (b ++ bs)
        | _, _ => None
        end
    end.

  Definition count (rows : list row) : Z := Z.of_nat (length rows).

  Definition header (S : pstore) : list bytes :=
    dec (Z.of_nat (length S)) :: map (fun e => header_line (fst e) (count (snd e))) S.

  (* SimpleColumn{det}.WriteTo: the lines written (each followed by '\n') *)
  Definition write (V : ver) (det : bool) (S : pstore) : option (list bytes) :=
    if max_num_preds <? Z.of_nat (length S) then None
    else
      let S' := ordered det S in
      if forallb (fun e => (Z.of_nat (snd (fst e)) <=? max_arity) && (count (snd e) <=? max_facts)) S'
      then match body V S' with
           | Some b => Some (header S' ++ b)
           | None => None
           end
      else None.

  Definition write_bytes (V : ver) (det : bool) (S : pstore) : option bytes :=
    option_map unlines (write V det S).

  (* ------------------------------------------------------------- reading *)
  (* one body line: text[0] == '/' -> percentUnescape; parse; evaluate *)
  Definition read_cell (t : bytes) : option const :=
    match t with
    | [] => None
    | 47 :: _ => match unescape t with Some u => parse u | None => None end
    | _ => parse t
    end.

  (* per fact: None = skip[i] is set, Some acc = the arguments read so far, reversed *)
  Definition rowst := option (list const).

  (* one column of readPred: line i belongs to fact i; [f] is the filter entry of
     this column (Some w = the query has the constant w here) *)
  Fixpoint read_column (f : option const) (sts : list rowst) (ls : list bytes) : option (list rowst) :=
    match sts with
    | [] => Some []
    | st :: sts' =>
        match ls with
        | [] => None                                   (* scanner.Scan() false *)
        | l :: ls' =>
            match st with
            | None => match read_column f sts' ls' with Some r => Some (None :: r) | None => None end
            | Some acc =>
                match read_cell l with
                | None => None
                | Some c =>
                    let st' := match f with
                               | Some w => if const_eqb w c then Some (c :: acc) else None
                               | None => Some (c :: acc)
                               end in
                    match read_column f sts' ls' with Some r => Some (st' :: r) | None => None end
                end
            end
        end
    end.

  (* the outer loop over the columns; [n] = numFacts *)
  Fixpoint read_columns (fs : list (option const)) (n : nat) (sts : list rowst) (ls : list bytes)
    : option (list rowst * list bytes) :=
    match fs with
    | [] => Some (sts, ls)
    | f :: fs' =>
        match read_column f sts (firstn n ls) with
        | None => None
        | Some sts' => read_columns fs' n sts' (skipn n ls)
        end
    end.

  Fixpoint kept (sts : list rowst) : list row :=
    match sts with
    | [] => []
    | Some acc :: r => rev acc :: kept r
    | None :: r => kept r
    end.

  (* readPred for arity > 0; [fs] has one entry per column (all None when filter == nil).
     A header count beyond the lines present fails while scanning. *)
  Definition read_pred (ar : nat) (nf : Z) (fs : list (option const)) (ls : list bytes)
    : option (list row * list bytes) :=
    if negb (Nat.eqb (length fs) ar) then None              (* filter[j] out of range *)
    else if Z.of_nat (length ls) <? nf * Z.of_nat ar then None
    else
      let n := Z.to_nat nf in
      match read_columns fs n (repeat (Some []) n) ls with
      | Some (sts, rest) => Some (kept sts, rest)
      | None => None
      end.

  (* the loop of ReadInto; the result is the sequence of store.Add calls *)
  Fixpoint read_preds (V : ver) (ps : list (psym * Z)) (ls : list bytes) : option (list fact) :=
    match ps with
    | [] => Some []
    | (p, nf) :: ps' =>
        match snd p with
        | O => match read_preds V ps' ls with
               | Some r => Some (if zero_count V && negb (0 <? nf) then r else (p, []) :: r)
               | None => None
               end
        | _ => match read_pred (snd p) nf (repeat None (snd p)) ls with
               | None => None
               | Some (rows, rest) =>
                   match read_preds V ps' rest with
                   | Some r => Some (map (fun a => (p, a)) rows ++ r)
                   | None => None
                   end
               end
        end
    end.

  Definition read_into (V : ver) (ls : list bytes) : option (list fact) :=
    match read_header ls with
    | Some (ps, rest) => read_preds V ps rest
    | None => None
    end.

  (* ----------------------------------------------------------- lazy store *)
  Record lazy := { lz_preds : list (psym * Z); lz_data : bytes }.

  Definition lz_new (data : bytes) : option lazy :=
    match read_header (scan_lines data) with
    | Some (ps, _) => Some {| lz_preds := ps; lz_data := data |}
    | None => None
    end.

  Inductive located :=
  | LZero (present : bool)        (* zero-arity predicate *)
  | LEmpty                        (* found, no facts *)
  | LFound (nf : Z) (skip : Z)    (* found: count and lines to skip *)
  | LAbsent (skip : Z).           (* not in the header: numFacts stays 0 *)

  (* the loop of GetFacts :131-149 *)
  Fixpoint locate (pred : psym) (hs : list (psym * Z)) (to_skip : Z) : located :=
    match hs with
    | [] => LAbsent to_skip
    | (p, c) :: hs' =>
        if psym_eqb p pred then
          match snd p with
          | O => LZero (0 <? c)
          | _ => if c =? 0 then LEmpty else LFound c to_skip
          end
        else
          match snd p with
          | O => locate pred hs' to_skip
          | _ => locate pred hs' (to_skip + c * Z.of_nat (snd p))
          end
    end.

  Definition pattern := (psym * list (option const))%type.   (* query atom: Some c = constant, None = variable *)

  (* `for i := 0; i < toSkip; i++ { scanner.Scan() }` *)
  Definition skip_lines (k : Z) (ls : list bytes) : option (list bytes) :=
    if Z.of_nat (length ls) <? k then None else Some (skipn (Z.to_nat k) ls).

  Definition lz_get_facts (s : lazy) (q : pattern) : option (list fact) :=
    let pred := fst q in
    match locate pred (lz_preds s) (1 + Z.of_nat (length (lz_preds s))) with
    | LZero present => Some (if present then [(pred, [])] else [])
    | LEmpty => Some []
    | LFound nf k =>
        match skip_lines k (scan_lines (lz_data s)) with
        | None => None
        | Some ls =>
            match read_pred (snd pred) nf (snd q) ls with
            | Some (rows, _) => Some (map (fun a => (pred, a)) rows)
            | None => None
            end
        end
    | LAbsent k =>
        match skip_lines k (scan_lines (lz_data s)) with
        | None => None
        | Some ls =>
            match read_pred (snd pred) 0 (snd q) ls with
            | Some (rows, _) => Some (map (fun a => (pred, a)) rows)
            | None => None
            end
        end
    end.

  (* factstore.Matches: only constant positions constrain *)
  Fixpoint args_match (fs : list (option const)) (r : row) : bool :=
    match fs, r with
    | [], _ => true
    | Some w :: fs', c :: r' => const_eqb w c && args_match fs' r'
    | None :: fs', _ :: r' => args_match fs' r'
    | _ :: _, [] => false
    end.
  Definition matches (q : pattern) (f : fact) : bool :=
    psym_eqb (fst f) (fst q) && args_match (snd q) (snd f).
End Model.

Arguments facts_of {const}.
Arguments ordered {const}.
Arguments matches {const}.
