(* Proofs about Parse.v: parsing the text Atom.String (Term/Atom.v print_atom) writes for
   an atom whose predicate name is one NAME token, whose constant arguments are
   well-formed valid constants and whose variable arguments are VARIABLE tokens returns
   NAME(args) with one parsed argument per printed argument: the variable itself, or a
   constructor expression that evaluates to the constant. Built on ParseConstProofs.v. *)
From Coq Require Import List ZArith Bool Lia.
From MV Require Import Term.Hash Term.Const Term.ConstProofs Term.Print Term.PrintProofs Term.EscProofs
  Term.PrintInjProofs Term.MkMap Term.Atom Term.AtomPrintProofs.
From MV Require Import Serde.Escape Serde.Lexer Serde.Parse Serde.ParseTokProofs Serde.ParseConstProofs.
Import ListNotations.
Open Scope Z_scope.

(* the arguments covered: well-formed valid constants in the order of ast.Map / ast.Struct,
   and variables the lexer reads as one VARIABLE token *)
Definition arg_ok (t : bterm) : bool :=
  match t with
  | TConst c => wf c && valid c && canon c
  | TVar x => var_lex_valid x
  end.

Definition need_arg (t : bterm) : nat :=
  match t with TConst c => need c | TVar _ => 1 end.
Fixpoint need_args (l : list bterm) : nat :=
  match l with
  | [] => 1
  | a :: r => 1 + Nat.max (need_arg a) (need_args r)
  end.

Lemma tok_comma1 : forall X, next_token (44 :: X) = LTok TComma X.
Proof. reflexivity. Qed.

Section PA.
  Variable parse_float : list Z -> option Z.
  Variables parse_time parse_dur : list Z -> option Z.
  Variables fmt_float fmt_time fmt_dur : Z -> list Z.

  Hypothesis float_rt : forall b, float_special b = false ->
    parse_float (format_float64 fmt_float b) = Some b.
  Hypothesis float_shape : forall b, float_special b = false ->
    exists sign ip fp, format_float64 fmt_float b = sign ++ ip ++ 46 :: fp /\
      (sign = [] \/ sign = [45]) /\ ip <> [] /\ fp <> [] /\
      forallb is_digit ip = true /\ forallb is_digit fp = true.
  Hypothesis time_plain : forall n, int64_ok n = true ->
    ~ In 34 (fmt_time n) /\ ~ In 92 (fmt_time n) /\ ~ In 13 (fmt_time n).
  Hypothesis dur_plain : forall n, int64_ok n = true ->
    ~ In 34 (fmt_dur n) /\ ~ In 92 (fmt_dur n) /\ ~ In 13 (fmt_dur n).
  Hypothesis time_rt : forall n, int64_ok n = true -> parse_time (fmt_time n) = Some n.
  Hypothesis dur_rt : forall n, int64_ok n = true -> parse_dur (fmt_dur n) = Some n.

  Local Notation pt := (parse_term parse_float).
  Local Notation pel := (parse_elems parse_float).
  Local Notation pr := (print fmt_float fmt_time fmt_dur).
  Local Notation pb := (print_bterm fmt_float fmt_time fmt_dur).
  Local Notation pargs := (print_args fmt_float fmt_time fmt_dur).
  Local Notation ev := (eval parse_time parse_dur).
  Local Notation expr := (expr_of fmt_time fmt_dur).

  (* the parsed form of an argument *)
  Definition arg_expr (t : bterm) : pterm :=
    match t with TConst c => expr c | TVar x => PVar x end.
  (* the parsed argument denotes the printed one *)
  Definition arg_denotes (t : bterm) (p : pterm) : Prop :=
    match t with TConst c => ev p = Some c | TVar x => p = PVar x end.

  Lemma arg_expr_base : forall a, is_base (arg_expr a) = true.
  Proof. intros [c|x]; [apply expr_base|reflexivity]. Qed.

  Lemma arg_denotes_expr : forall a, arg_ok a = true -> arg_denotes a (arg_expr a).
  Proof.
    intros [c|x] O; [|reflexivity]. cbn [arg_ok] in O. apply andb_true_iff in O. destruct O as [O C].
    apply andb_true_iff in O. destruct O as [W V]. cbn [arg_denotes arg_expr].
    exact (eval_expr parse_time parse_dur fmt_time fmt_dur time_rt dur_rt c W C).
  Qed.

  (* one argument, followed by ',' or ')' *)
  Lemma parse_arg : forall a f ch rest, arg_ok a = true -> ch = 44 \/ ch = 41 -> (need_arg a <= f)%nat ->
    pt f (pb a ++ ch :: rest) = POk (arg_expr a) (ch :: rest).
  Proof.
    intros [c|x] f ch rest O Hc N; cbn [arg_ok print_bterm need_arg arg_expr] in *.
    - apply andb_true_iff in O. destruct O as [O C]. apply andb_true_iff in O. destruct O as [W V].
      apply (parse_print_expr parse_float fmt_float fmt_time fmt_dur float_rt float_shape time_plain dur_plain);
        try assumption.
      destruct Hc as [-> | ->]; exact eq_refl.
    - destruct f as [|f]; [lia|]. rewrite pt_S.
      rewrite (next_token_var x (ch :: rest) O); [reflexivity| |discriminate].
      destruct Hc as [-> | ->]; (split; [reflexivity|lia]).
  Qed.

  Lemma pargs_cons2 : forall a b l, pargs (a :: b :: l) = pb a ++ 44 :: pargs (b :: l).
  Proof. reflexivity. Qed.

  (* the argument list up to the closing parenthesis *)
  Lemma parse_args : forall l f rest, forallb arg_ok l = true -> (need_args l <= f)%nat ->
    pel f TRParen (pargs l ++ 41 :: rest) = LsOk (map arg_expr l) rest.
  Proof.
    induction l as [|a l IH]; intros f rest O N.
    - cbn [need_args] in N. destruct f as [|f]; [lia|]. cbn [print_args app map].
      rewrite pel_S, tok_rparen. reflexivity.
    - cbn [forallb] in O. apply andb_true_iff in O. destruct O as [Oa Ol].
      cbn [need_args] in N. destruct f as [|f]; [lia|].
      destruct l as [|b l].
      + cbn [print_args map].
        assert (A : pt f (pb a ++ 41 :: rest) = POk (arg_expr a) (41 :: rest)).
        { apply parse_arg; [exact Oa|right; reflexivity|lia]. }
        rewrite (elems_step _ _ TRParen _ _ _ A (arg_expr_base a)).
        apply elems_post_close. right; left; split; reflexivity.
      + rewrite pargs_cons2, <- app_assoc, <- app_comm_cons.
        assert (A : pt f (pb a ++ 44 :: pargs (b :: l) ++ 41 :: rest)
                    = POk (arg_expr a) (44 :: pargs (b :: l) ++ 41 :: rest)).
        { apply parse_arg; [exact Oa|left; reflexivity|lia]. }
        rewrite (elems_step _ _ TRParen _ _ _ A (arg_expr_base a)).
        unfold elems_post. rewrite tok_comma1. rewrite (IH f rest Ol) by lia. reflexivity.
  Qed.

  Lemma parse_print_atom_need : forall sym args f rest,
    pred_lex_valid sym = true -> forallb arg_ok args = true -> (S (need_args args) <= f)%nat ->
    pt f (print_atom fmt_float fmt_time fmt_dur (new_atom sym args) ++ rest)
    = POk (PApply sym (map arg_expr args)) rest.
  Proof.
    intros sym args f rest Ps O N. destruct f as [|f]; [lia|].
    unfold print_atom, new_atom. cbn [a_sym a_args].
    rewrite <- app_assoc, <- app_comm_cons, <- app_assoc. cbn [app].
    rewrite (pt_name_call _ _ _ _ _ _ (next_token_pred sym _ Ps) (tok_lparen _)).
    rewrite (parse_args args f rest O) by lia. reflexivity.
  Qed.

  (* ---- the fuel of parse_term_all suffices --------------------------------------- *)
  Lemma need_arg_le : forall a, arg_ok a = true -> (need_arg a <= 2 * length (pb a) + 2)%nat.
  Proof.
    intros [c|x] O; cbn [arg_ok need_arg print_bterm] in *.
    - apply andb_true_iff in O. destruct O as [O _]. apply andb_true_iff in O. destruct O as [W V].
      exact (proj1 (need_all fmt_float fmt_time fmt_dur float_shape c) W V).
    - lia.
  Qed.

  Lemma need_args_le : forall l, forallb arg_ok l = true -> (need_args l <= 2 * length (pargs l) + 3)%nat.
  Proof.
    induction l as [|a l IH]; intro O; [cbn [need_args]; lia|].
    cbn [forallb] in O. apply andb_true_iff in O. destruct O as [Oa Ol].
    pose proof (need_arg_le a Oa) as Na. specialize (IH Ol). cbn [need_args].
    destruct l as [|b l].
    - cbn [print_args need_args] in *. lia.
    - rewrite pargs_cons2, app_length. cbn [length]. lia.
  Qed.

  Lemma parse_print_atom_lemma : forall sym args rest f,
    pred_lex_valid sym = true -> forallb arg_ok args = true ->
    (fuel_for (print_atom fmt_float fmt_time fmt_dur (new_atom sym args) ++ rest) <= f)%nat ->
    exists l, pt f (print_atom fmt_float fmt_time fmt_dur (new_atom sym args) ++ rest) = POk (PApply sym l) rest
              /\ Forall2 arg_denotes args l.
  Proof.
    intros sym args rest f Ps O N. exists (map arg_expr args). split.
    - apply parse_print_atom_need; try assumption.
      pose proof (need_args_le args O) as A. unfold fuel_for, print_atom, new_atom in N. cbn [a_sym a_args] in N.
      rewrite !app_length in N. cbn [length] in N. rewrite app_length in N. cbn [length] in N. lia.
    - clear N. induction args as [|a l IH]; [constructor|].
      cbn [forallb] in O. apply andb_true_iff in O. destruct O as [Oa Ol]. cbn [map].
      constructor; [apply arg_denotes_expr; exact Oa|apply IH; exact Ol].
  Qed.

  Lemma parse_all_print_atom : forall sym args,
    pred_lex_valid sym = true -> forallb arg_ok args = true ->
    exists l, parse_term_all parse_float (print_atom fmt_float fmt_time fmt_dur (new_atom sym args)) = POk (PApply sym l) []
              /\ Forall2 arg_denotes args l.
  Proof.
    intros sym args Ps O.
    destruct (parse_print_atom_lemma sym args [] _ Ps O (le_n _)) as (l & H & D).
    exists l. split; [|exact D]. rewrite app_nil_r in H. unfold parse_term_all. rewrite H. reflexivity.
  Qed.
End PA.
