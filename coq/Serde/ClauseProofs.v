(* Proofs about Clause.v / ClauseParse.v, part 1: base terms with function applications
   (any nesting), calls NAME(args), and the generic steps of the literal parser.
   Built on ParseConstProofs.v / ParseAtomProofs.v. *)
From Coq Require Import List ZArith Bool Lia.
From MV Require Import Term.Hash Term.Const Term.ConstProofs Term.Print Term.PrintProofs Term.EscProofs
  Term.PrintInjProofs Term.MkMap Term.Atom Term.AtomPrintProofs.
From MV Require Import Serde.Escape Serde.Lexer Serde.Parse Serde.ParseProofs Serde.ParseTokProofs Serde.ParseConstProofs
  Serde.ParseAtomProofs.
From MV Require Import Serde.Clause Serde.ClauseParse Serde.ClauseTokProofs Serde.ClauseCellProofs.
Import ListNotations.
Open Scope Z_scope.

(* ---- the domain ----------------------------------------------------------------- *)
(* a function symbol: one NAME token that starts with "fn:"; a predicate symbol: one that does not *)
Definition fn_ok (s : list Z) : bool := pred_lex_valid s && is_prefix s_fn s.
Definition sym_ok (s : list Z) : bool := name_lex_valid s && negb (is_prefix s_fn s).

Lemma pred_name_valid : forall s, pred_lex_valid s = true -> name_lex_valid s = true.
Proof. intros s H. unfold name_lex_valid. rewrite H. reflexivity. Qed.

Fixpoint bexp_ok (e : bexp) : bool :=
  match e with
  | BConst c => wf c && valid c && canon c
  | BVar x => var_lex_valid x
  | BApp fn args => fn_ok fn && forallb bexp_ok args
  end.

(* fuel a base term needs *)
Fixpoint need_bexp (e : bexp) : nat :=
  match e with
  | BConst c => need c
  | BVar _ => 1
  | BApp _ args =>
      S ((fix nl (l : list bexp) : nat :=
            match l with [] => 1%nat | a :: r => S (Nat.max (need_bexp a) (nl r)) end) args)
  end.
Fixpoint need_bexps (l : list bexp) : nat :=
  match l with [] => 1%nat | a :: r => S (Nat.max (need_bexp a) (need_bexps r)) end.

Lemma need_bexp_app : forall fn args, need_bexp (BApp fn args) = S (need_bexps args).
Proof.
  intros fn args. reflexivity.
Qed.

Lemma bexp_ind' (P : bexp -> Prop) :
  (forall c, P (BConst c)) -> (forall x, P (BVar x)) ->
  (forall fn args, Forall P args -> P (BApp fn args)) -> forall e, P e.
Proof.
  intros Hc Hv Ha. fix IH 1. intros [c|x|fn args]; [apply Hc|apply Hv|].
  apply Ha. induction args as [|a l IHl]; constructor; [apply IH|exact IHl].
Qed.

(* what may follow a base term inside a clause: ',' ')' or a blank *)
Definition sepc (ch : Z) : Prop := ch = 44 \/ ch = 41 \/ ch = 32.

Lemma sepc_follow : forall ch rest, sepc ch -> follow (ch :: rest).
Proof. intros ch rest [-> |[-> | ->]]; exact eq_refl. Qed.
Lemma sepc_word_end : forall ch rest, sepc ch -> word_end (ch :: rest).
Proof. intros ch rest [-> |[-> | ->]]; (split; [reflexivity|lia]). Qed.

Section CP.
  Variable parse_float : list Z -> option Z.
  Variables parse_time parse_dur : list Z -> option Z.
  Variables fmt_float fmt_time fmt_dur : Z -> list Z.

  Hypothesis float_rt : forall b, float_special b = false ->
    parse_float (format_float64 fmt_float b) = Some b.
  Hypothesis float_shape : forall b, float_special b = false ->
    exists sign ip fp, format_float64 fmt_float b = sign ++ ip ++ 46 :: fp /\
      (sign = [] \/ sign = [45]) /\ ip <> [] /\ fp <> [] /\
      forallb is_digit ip = true /\ forallb is_digit fp = true.
  Hypothesis time_plain : forall n, int64_ok n = true ->
    ~ In 34 (fmt_time n) /\ ~ In 92 (fmt_time n) /\ ~ In 13 (fmt_time n).
  Hypothesis dur_plain : forall n, int64_ok n = true ->
    ~ In 34 (fmt_dur n) /\ ~ In 92 (fmt_dur n) /\ ~ In 13 (fmt_dur n).
  Hypothesis time_rt : forall n, int64_ok n = true -> parse_time (fmt_time n) = Some n.
  Hypothesis dur_rt : forall n, int64_ok n = true -> parse_dur (fmt_dur n) = Some n.

  Local Notation pt := (parse_term parse_float).
  Local Notation pel := (parse_elems parse_float).
  Local Notation pr := (print fmt_float fmt_time fmt_dur).
  Local Notation pb := (print_bexp fmt_float fmt_time fmt_dur).
  Local Notation pbs := (print_bexps fmt_float fmt_time fmt_dur).
  Local Notation pcall := (print_call fmt_float fmt_time fmt_dur).
  Local Notation ev := (eval parse_time parse_dur).
  Local Notation expr := (expr_of fmt_time fmt_dur).

  (* the parsed form of a base term *)
  Fixpoint bexp_expr (e : bexp) : pterm :=
    match e with
    | BConst c => expr c
    | BVar x => PVar x
    | BApp fn args => PApply fn (map bexp_expr args)
    end.

  Lemma pb_app : forall fn args, pb (BApp fn args) = pcall fn args.
  Proof.
    intros fn args. reflexivity.
  Qed.

  Lemma pbs_cons2 : forall a b l, pbs (a :: b :: l) = pb a ++ 44 :: pbs (b :: l).
  Proof. reflexivity. Qed.

  Lemma bexp_expr_base : forall e, bexp_ok e = true -> is_base (bexp_expr e) = true.
  Proof.
    intros [c|x|fn args] O; [apply expr_base|reflexivity|].
    cbn [bexp_ok] in O. apply andb_true_iff in O. destruct O as [O _].
    unfold fn_ok in O. apply andb_true_iff in O. destruct O as [_ O]. exact O.
  Qed.

  (* a base term followed by ',' ')' or a blank *)
  Definition PB (e : bexp) : Prop := forall f ch rest,
    bexp_ok e = true -> sepc ch -> (need_bexp e <= f)%nat ->
    pt f (pb e ++ ch :: rest) = POk (bexp_expr e) (ch :: rest).

  (* the argument list up to the closing parenthesis *)
  Lemma parse_bexps_gen : forall l, Forall PB l -> forall f rest,
    forallb bexp_ok l = true -> (need_bexps l <= f)%nat ->
    pel f TRParen (pbs l ++ 41 :: rest) = LsOk (map bexp_expr l) rest.
  Proof.
    induction l as [|a l IH]; intros HP f rest O N.
    - cbn [need_bexps] in N. destruct f as [|f]; [lia|]. cbn [print_bexps app map].
      rewrite pel_S, tok_rparen. reflexivity.
    - cbn [forallb] in O. apply andb_true_iff in O. destruct O as [Oa Ol].
      inversion HP as [|? ? Pa Pl]; subst.
      cbn [need_bexps] in N. destruct f as [|f]; [lia|].
      destruct l as [|b l].
      + cbn [print_bexps map].
        assert (A : pt f (pb a ++ 41 :: rest) = POk (bexp_expr a) (41 :: rest)).
        { apply Pa; [exact Oa|right; left; reflexivity|lia]. }
        rewrite (elems_step _ _ TRParen _ _ _ A (bexp_expr_base a Oa)).
        apply elems_post_close. right; left; split; reflexivity.
      + rewrite pbs_cons2, <- app_assoc, <- app_comm_cons.
        assert (A : pt f (pb a ++ 44 :: pbs (b :: l) ++ 41 :: rest)
                    = POk (bexp_expr a) (44 :: pbs (b :: l) ++ 41 :: rest)).
        { apply Pa; [exact Oa|left; reflexivity|lia]. }
        rewrite (elems_step _ _ TRParen _ _ _ A (bexp_expr_base a Oa)).
        unfold elems_post. rewrite tok_comma1. rewrite (IH Pl f rest Ol) by lia. reflexivity.
  Qed.

  (* NAME(args) for a NAME token, followed by anything *)
  Lemma parse_call_gen : forall sym args f rest, Forall PB args ->
    name_lex_valid sym = true -> forallb bexp_ok args = true -> (S (need_bexps args) <= f)%nat ->
    pt f (pcall sym args ++ rest) = POk (PApply sym (map bexp_expr args)) rest.
  Proof.
    intros sym args f rest HP Ps O N. destruct f as [|f]; [lia|].
    unfold print_call. rewrite <- app_assoc, <- app_comm_cons, <- app_assoc. cbn [app].
    rewrite (pt_name_call _ _ _ _ _ _ (next_token_name_tok sym _ Ps) (tok_lparen _)).
    rewrite (parse_bexps_gen args HP f rest O) by lia. reflexivity.
  Qed.

  Lemma parse_bexp : forall e, PB e.
  Proof.
    induction e as [c|x|fn args IH] using bexp_ind'; intros f ch rest O Hc N.
    - cbn [bexp_ok print_bexp need_bexp bexp_expr] in *.
      apply andb_true_iff in O. destruct O as [O C]. apply andb_true_iff in O. destruct O as [W V].
      apply (parse_print_expr parse_float fmt_float fmt_time fmt_dur float_rt float_shape time_plain dur_plain);
        try assumption.
      apply sepc_follow; exact Hc.
    - cbn [bexp_ok print_bexp need_bexp bexp_expr] in *.
      destruct f as [|f]; [lia|]. rewrite pt_S.
      rewrite (next_token_var x (ch :: rest) O); [reflexivity|apply sepc_word_end; exact Hc|discriminate].
    - rewrite pb_app. rewrite need_bexp_app in N. cbn [bexp_ok] in O. apply andb_true_iff in O. destruct O as [Of Oa].
      unfold fn_ok in Of. apply andb_true_iff in Of. destruct Of as [Ps _].
      cbn [bexp_expr]. apply parse_call_gen; try assumption. apply pred_name_valid; exact Ps.
  Qed.

  Lemma all_PB : forall l, Forall PB l.
  Proof. induction l; constructor; [apply parse_bexp|assumption]. Qed.

  Lemma parse_call : forall sym args f rest,
    name_lex_valid sym = true -> forallb bexp_ok args = true -> (S (need_bexps args) <= f)%nat ->
    pt f (pcall sym args ++ rest) = POk (PApply sym (map bexp_expr args)) rest.
  Proof. intros. apply parse_call_gen; try assumption. apply all_PB. Qed.

  (* ---- a constant other than a name, followed by the final '.' of a clause ----------- *)
  Definition leaf_dot_ok (c : const) : bool :=
    match c with CLeaf t _ _ => negb (ctype_eqb t NameT) | CCell _ _ _ _ => true end.

  Lemma parse_leaf_dot : forall c f rest, wf c = true -> valid c = true -> leaf_dot_ok c = true ->
    clause_follow rest -> (need c <= f)%nat ->
    pt f (pr c ++ 46 :: rest) = POk (expr c) (46 :: rest).
  Proof.
    intros [t s n|t n a b] f rest W V L F N.
    2:{ cbn [expr_of]. exact (parse_cell_any parse_float fmt_float fmt_time fmt_dur float_rt float_shape time_plain dur_plain
                                t n a b f (46 :: rest) W V N). }
    cbn [need] in N. destruct f as [|[|[|f]]]; try lia. clear N.
    destruct t; [discriminate L| | | | | | |discriminate W| | |].
    - (* string *)
      cbn [valid] in V. apply andb_true_iff in V. destruct V as [Vb Ve].
      destruct (esc_string 0 s) as [e|] eqn:E; [|discriminate Ve].
      cbn [wf] in W. apply Z.eqb_eq in W. subst n.
      rewrite esc_string_eq in E.
      exact (parse_print_string_lemma parse_float fmt_float fmt_time fmt_dur _ s e _ (forallb_byte _ Vb) E).
    - (* bytes *)
      cbn [valid] in V. cbn [wf] in W. apply Z.eqb_eq in W. subst n.
      exact (parse_print_bytes_lemma parse_float fmt_float fmt_time fmt_dur _ s _ (forallb_byte _ V)).
    - (* number *)
      rewrite pr_number. cbn [wf] in W. apply andb_true_iff in W. destruct W as [W1 W2]. apply is_nil_true in W1. subst s.
      rewrite pt_S, (next_token_print_number_dot n rest F), (parse_int_print_number n W2). reflexivity.
    - (* float *)
      rewrite pr_float. cbn [wf] in W. apply andb_true_iff in W. destruct W as [W1 W2]. apply is_nil_true in W1. subst s.
      cbn [valid] in V. apply negb_true_iff in V.
      destruct (float_shape _ V) as (sg & ip & fp & E & Sg & I1 & I2 & D1 & D2).
      destruct ip as [|d ds]; [contradiction|]. destruct fp as [|g gs]; [contradiction|].
      pose proof (next_token_float_dot sg d ds g gs rest Sg D1 D2) as T.
      rewrite pt_S. rewrite E at 1. rewrite <- !app_assoc. cbn [app] in T |- *. rewrite T.
      replace (sg ++ d :: ds ++ 46 :: g :: gs) with (format_float64 fmt_float (to_uint64 n))
        by (rewrite E; cbn [app]; reflexivity).
      rewrite (float_rt _ V). cbn [expr_of]. unfold mk_float. rewrite (to_int64_uint64 n W2). reflexivity.
    - (* time *)
      rewrite pr_time, <- !app_assoc. cbn [wf] in W. apply andb_true_iff in W. destruct W as [W1 W2].
      apply is_nil_true in W1. subst s. destruct (time_plain n W2) as (Q & B & C).
      exact (pt_string_call parse_float f s_fn_time (fmt_time n) _ _ (tok_time _) Q B C).
    - (* duration *)
      rewrite pr_dur, <- !app_assoc. cbn [wf] in W. apply andb_true_iff in W. destruct W as [W1 W2].
      apply is_nil_true in W1. subst s. destruct (dur_plain n W2) as (Q & B & C).
      exact (pt_string_call parse_float f s_fn_dur (fmt_dur n) _ _ (tok_dur _) Q B C).
    - (* [] *)
      change (pr (CLeaf ListS s n)) with s_list_nil. rewrite pt_S, tok_list_nil, tok_rbracket. reflexivity.
    - (* fn:map() *)
      change (pr (CLeaf MapS s n)) with s_map_nil.
      rewrite (pt_name_call _ _ _ _ _ _ (tok_map_nil _) (tok_lparen _)).
      rewrite pel_S, tok_rparen. reflexivity.
    - (* {} *)
      change (pr (CLeaf StructS s n)) with s_struct_nil. change (s_struct_nil ++ 46 :: rest) with (123 :: 125 :: 46 :: rest).
      rewrite (pt_lbrace _ _ _ _ (tok_lbrace _)). rewrite pkv_S, tok_rbrace. reflexivity.
  Qed.

  (* ---- the parsed base term denotes the printed one -------------------------------- *)
  Lemma bexp_denotes_expr : forall e, bexp_ok e = true -> bexp_denotes ev e (bexp_expr e).
  Proof.
    induction e as [c|x|fn args IH] using bexp_ind'; intro O.
    - cbn [bexp_ok] in O. apply andb_true_iff in O. destruct O as [O C]. apply andb_true_iff in O. destruct O as [W V].
      cbn [bexp_denotes bexp_expr]. exact (eval_expr parse_time parse_dur fmt_time fmt_dur time_rt dur_rt c W C).
    - reflexivity.
    - cbn [bexp_ok] in O. apply andb_true_iff in O. destruct O as [_ Oa].
      cbn [bexp_denotes bexp_expr]. split; [reflexivity|].
      induction args as [|a l IHl]; [exact I|]. cbn [forallb] in Oa. apply andb_true_iff in Oa. destruct Oa as [O1 O2].
      inversion IH as [|? ? P1 P2]; subst. cbn [map]. split; [apply P1; exact O1|apply IHl; assumption].
  Qed.

  Lemma bexps_denote_expr : forall l, forallb bexp_ok l = true -> bexps_denote ev l (map bexp_expr l).
  Proof.
    induction l as [|a l IH]; intro O; [exact I|]. cbn [forallb] in O. apply andb_true_iff in O. destruct O as [O1 O2].
    cbn [map bexps_denote]. split; [apply bexp_denotes_expr; exact O1|apply IH; exact O2].
  Qed.

  (* ---- fuel: what a term needs is bounded by the length of its text -------------------- *)
  Definition NBe (e : bexp) : Prop := bexp_ok e = true -> (need_bexp e <= 2 * length (pb e) + 2)%nat.

  Lemma need_bexps_le_gen : forall l, Forall NBe l -> forallb bexp_ok l = true ->
    (need_bexps l <= 2 * length (pbs l) + 3)%nat.
  Proof.
    induction l as [|a l IH]; intros HP O; [cbn [need_bexps]; lia|].
    cbn [forallb] in O. apply andb_true_iff in O. destruct O as [Oa Ol].
    inversion HP as [|? ? Pa Pl]; subst. pose proof (Pa Oa) as Na. specialize (IH Pl Ol). cbn [need_bexps].
    destruct l as [|b l].
    - cbn [print_bexps need_bexps] in *. lia.
    - rewrite pbs_cons2, app_length. cbn [length]. lia.
  Qed.

  Lemma need_bexp_le : forall e, NBe e.
  Proof.
    induction e as [c|x|fn args IH] using bexp_ind'; intro O.
    - cbn [bexp_ok need_bexp print_bexp] in *.
      apply andb_true_iff in O. destruct O as [O _]. apply andb_true_iff in O. destruct O as [W V].
      exact (proj1 (need_all fmt_float fmt_time fmt_dur float_shape c) W V).
    - cbn [need_bexp]. lia.
    - rewrite pb_app, need_bexp_app. cbn [bexp_ok] in O. apply andb_true_iff in O. destruct O as [_ Oa].
      pose proof (need_bexps_le_gen args IH Oa) as A. unfold print_call.
      rewrite app_length. cbn [length]. rewrite app_length. cbn [length]. lia.
  Qed.

  Lemma need_bexps_le : forall l, forallb bexp_ok l = true -> (need_bexps l <= 2 * length (pbs l) + 3)%nat.
  Proof.
    intros l O. apply need_bexps_le_gen; [|exact O]. clear O. induction l; constructor; [apply need_bexp_le|assumption].
  Qed.

  Lemma need_call_le : forall sym args, forallb bexp_ok args = true ->
    (S (need_bexps args) <= 2 * length (pcall sym args) + 2)%nat.
  Proof.
    intros sym args O. pose proof (need_bexps_le args O) as A. unfold print_call.
    rewrite app_length. cbn [length]. rewrite app_length. cbn [length]. lia.
  Qed.
End CP.
