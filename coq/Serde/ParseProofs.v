(* Proofs about Parse.v: parsing the text the printer (Term/Print.v) writes for
   a string or byte-string constant returns that constant, whatever follows. *)
From Coq Require Import List ZArith Bool Lia.
From MV Require Import Serde.Escape Serde.EscapeProofs Serde.Lexer Serde.LexerProofs Serde.Parse.
Import ListNotations.
Open Scope Z_scope.

(* the escapes of Term/Print.v (C08's printer) are the ones of Escape.v *)
Lemma esc_ascii_eq : forall b c, esc_ascii b c = esc_ascii_go true b c.
Proof. intros b c. unfold esc_ascii, esc_ascii_go. rewrite andb_true_r. reflexivity. Qed.

Lemma esc_string_eq : forall s k, esc_string k s = escape_string_go true k s.
Proof.
  induction s as [|c r IH]; intros k; [reflexivity|].
  cbn [esc_string escape_string_go]. destruct k as [|k]; [|apply IH].
  rewrite esc_ascii_eq. rewrite IH.
  destruct (c <? 128); [reflexivity|].
  destruct (utf8_decode (c :: r)) as [[rune n]|]; [|reflexivity]. rewrite IH. reflexivity.
Qed.

Lemma esc_bytes_eq : forall s, esc_bytes s = escape_bytes s.
Proof.
  induction s as [|c r IH]; [reflexivity|].
  unfold esc_bytes, escape_bytes, escape_bytes_go in *. cbn [flat_map]. rewrite IH. f_equal.
  unfold esc_byte, escape_byte. rewrite esc_ascii_eq. reflexivity.
Qed.

Section PP.
  Variable parse_float : list Z -> option Z.
  Variables fmt_float fmt_time fmt_dur : Z -> list Z.

  Lemma parse_print_string_lemma : forall f s e rest, Forall byte s -> escape_string s = Some e ->
    parse_term parse_float (S f) (print fmt_float fmt_time fmt_dur (mk_string s) ++ rest)
    = POk (PConst (mk_string s)) rest.
  Proof.
    intros f s e rest Hb He.
    unfold print, mk_string. cbn [print_gen print_scalar].
    rewrite esc_string_eq. unfold escape_string in He. rewrite He.
    cbn [app]. rewrite <- app_assoc. cbn [app].
    cbn [parse_term]. rewrite (next_token_string s e rest Hb He).
    rewrite (unescape_escape_string_lemma s e Hb He). reflexivity.
  Qed.

  Lemma parse_print_bytes_lemma : forall f s rest, Forall byte s ->
    parse_term parse_float (S f) (print fmt_float fmt_time fmt_dur (mk_bytes s) ++ rest)
    = POk (PConst (mk_bytes s)) rest.
  Proof.
    intros f s rest Hb.
    unfold print, mk_bytes. cbn [print_gen print_scalar].
    rewrite esc_bytes_eq.
    cbn [app]. rewrite <- app_assoc. cbn [app].
    cbn [parse_term]. rewrite (next_token_bytestring s rest Hb).
    rewrite (unescape_escape_bytes_lemma s Hb). reflexivity.
  Qed.
End PP.
