(* Proofs about Parse.v: parsing the text the printer (Term/Print.v) writes for a
   well-formed valid constant of any kind and any nesting depth, followed by nothing or
   by a character outside names and numbers, returns a constructor expression
   ([expr_of]) and the rest of the text; evaluating that expression (the constructor
   cases of functional.EvalApplyFn) gives the constant back when the entries of
   every map / struct are listed by strictly descending key hash ([canon]: what
   ast.Map / ast.Struct build).
   Structure: P c (constants), Pl c (c as the tail of a list), Pm c (c as the tail of
   a map / struct), Psub c (both children of a cell), by structural induction. *)
From Coq Require Import List ZArith Bool Lia.
From MV Require Import Term.Hash Term.Const Term.ConstProofs Term.Print Term.PrintProofs Term.EscProofs
  Term.PrintInjProofs Term.MkMap.
From MV Require Import Serde.Escape Serde.EscapeProofs Serde.Lexer Serde.LexerProofs Serde.Parse Serde.ParseProofs
  Serde.ParseTokProofs.
Import ListNotations.
Open Scope Z_scope.

(* fuel that suffices for the recursive descent: three per level of cells *)
Fixpoint need (c : const) : nat :=
  match c with
  | CLeaf _ _ _ => 3
  | CCell _ _ f s => 3 + Nat.max (need f) (need s)
  end.

(* the entries of a map / struct constant, in the order of the cells *)
Fixpoint entries (c : const) : list kv :=
  match c with
  | CCell _ _ (CCell _ _ k v) s => (k, v) :: entries s
  | _ => []
  end.

(* strictly descending *)
Fixpoint desc (l : list Z) : bool :=
  match l with
  | [] => true
  | a :: r => forallb (fun b => b <? a) r && desc r
  end.

(* every map / struct inside lists its entries by strictly descending key hash: the
   order in which ast.Map / ast.Struct (MkMap.mk_map, mk_struct) leave them *)
Fixpoint canon (c : const) : bool :=
  match c with
  | CLeaf _ _ _ => true
  | CCell t _ f s =>
      canon f && canon s &&
      match t with
      | MapS | StructS => desc (map kv_key (entries c))
      | _ => true
      end
  end.

(* ---- fixed texts -------------------------------------------------------------- *)
Lemma tok_time : forall X, next_token (s_time_open ++ X) = LTok (TName s_fn_time) (40 :: 34 :: X).
Proof. intro X. vm_compute. reflexivity. Qed.
Lemma tok_dur : forall X, next_token (s_dur_open ++ X) = LTok (TName s_fn_dur) (40 :: 34 :: X).
Proof. intro X. vm_compute. reflexivity. Qed.
Lemma tok_pair : forall X, next_token (s_pair_open ++ X) = LTok (TName s_fn_pair) (40 :: X).
Proof. intro X. vm_compute. reflexivity. Qed.
Lemma tok_map_nil : forall X, next_token (s_map_nil ++ X) = LTok (TName s_fn_map) (40 :: 41 :: X).
Proof. intro X. vm_compute. reflexivity. Qed.
Lemma tok_lparen : forall X, next_token (40 :: X) = LTok TLParen X.
Proof. reflexivity. Qed.
Lemma tok_rparen : forall X, next_token (41 :: X) = LTok TRParen X.
Proof. reflexivity. Qed.
Lemma tok_rbracket : forall X, next_token (93 :: X) = LTok TRBracket X.
Proof. reflexivity. Qed.
Lemma tok_rbrace : forall X, next_token (125 :: X) = LTok TRBrace X.
Proof. reflexivity. Qed.
Lemma tok_lbrace : forall X, next_token (123 :: X) = LTok TLBrace X.
Proof. reflexivity. Qed.
Lemma tok_comma : forall X, next_token (s_comma ++ X) = LTok TComma (32 :: X).
Proof. reflexivity. Qed.
Lemma tok_colon : forall X, next_token (s_colon ++ X) = LTok TColon (32 :: X).
Proof. reflexivity. Qed.
Lemma tok_list_nil : forall X, next_token (s_list_nil ++ X) = LTok TLBracket (93 :: X).
Proof. reflexivity. Qed.

Lemma after_bracket_app : forall y t Z, after_bracket ((y :: t) ++ Z) = after_bracket (y :: t) ++ Z.
Proof. intros y t Z. unfold after_bracket. cbn [app]. destruct ((y =? 45) || (y =? 43)); reflexivity. Qed.

Lemma tok_lbracket : forall y t Z,
  next_token (91 :: after_bracket (y :: t) ++ Z) = LTok TLBracket (after_bracket (y :: t) ++ Z).
Proof.
  intros y t Z. unfold after_bracket. destruct ((y =? 45) || (y =? 43)) eqn:E; [reflexivity|].
  apply orb_false_iff in E. destruct E as [E1 E2]. apply Z.eqb_neq in E1, E2.
  cbn [app]. rewrite next_token_vis by (try reflexivity; lia). unfold lex_visible.
  replace (is_digit 91) with false by reflexivity.
  replace (91 =? 45) with false by reflexivity. replace (91 =? 46) with false by reflexivity.
  replace (91 =? 47) with false by reflexivity. replace (is_quote 91) with false by reflexivity.
  replace (is_lower 91) with false by reflexivity. replace (is_upper 91) with false by reflexivity.
  replace (91 =? 95) with false by reflexivity. replace (91 =? 58) with false by reflexivity.
  replace (91 =? 91) with true by reflexivity. cbn [head_is].
  rewrite (eqb_false 45 y), (eqb_false 43 y) by lia. reflexivity.
Qed.

Definition closer (close : token) (ch : Z) : Prop :=
  (close = TRBracket /\ ch = 93) \/ (close = TRParen /\ ch = 41) \/ (close = TRBrace /\ ch = 125).

Lemma closer_tok : forall close ch X, closer close ch ->
  next_token (ch :: X) = LTok close X /\ is_close close close = true /\ follow (ch :: X).
Proof. intros close ch X [[-> ->]|[[-> ->]|[-> ->]]]; repeat split; reflexivity. Qed.

Section PC.
  Variable parse_float : list Z -> option Z.
  Variables parse_time parse_dur : list Z -> option Z.
  Variables fmt_float fmt_time fmt_dur : Z -> list Z.

  Local Notation pt := (parse_term parse_float).
  Local Notation pel := (parse_elems parse_float).
  Local Notation pkv := (parse_kvs parse_float).
  Local Notation pr := (print fmt_float fmt_time fmt_dur).
  Local Notation ltail := (print_ltail fmt_time fmt_dur (format_float64 fmt_float)).
  Local Notation mtail := (print_mtail fmt_time fmt_dur (format_float64 fmt_float)).
  Local Notation pentry := (print_entry fmt_float fmt_time fmt_dur).
  Local Notation ev := (eval parse_time parse_dur).

  (* ---- one step of the three parsing functions ------------------------------- *)
  Definition elems_post (f : nat) (close : token) (x : pterm) (r1 : list Z) : lres :=
    match next_token r1 with
    | LTok TComma r2 => match pel f close r2 with LsOk l r3 => LsOk (x :: l) r3 | e => e end
    | LTok t2 r2 => if is_close close t2 then LsOk [x] r2 else LsErr
    | _ => LsErr
    end.
  Definition kvs_post (f : nat) (close : token) (k v : pterm) (r3 : list Z) : lres :=
    match next_token r3 with
    | LTok TComma r4 => match pkv f close r4 with LsOk l r5 => LsOk (k :: v :: l) r5 | e => e end
    | LTok t4 r4 => if is_close close t4 then LsOk [k; v] r4 else LsErr
    | _ => LsErr
    end.
  Definition map_post (f : nat) (x v : pterm) (r3 : list Z) : pres :=
    match next_token r3 with
    | LTok TRBracket r4 => POk (PApply s_fn_map [x; v]) r4
    | LTok TComma r4 =>
        match pkv f TRBracket r4 with
        | LsOk l r5 => POk (PApply s_fn_map (x :: v :: l)) r5
        | LsErr => PErr
        | LsFuel => PFuel
        end
    | _ => PErr
    end.
  Definition list_post (f : nat) (x : pterm) (r1 : list Z) : pres :=
    match next_token r1 with
    | LTok TRBracket r2 => POk (PApply s_fn_list [x]) r2
    | LTok TComma r2 =>
        match pel f TRBracket r2 with
        | LsOk l r3 => POk (PApply s_fn_list (x :: l)) r3
        | LsErr => PErr
        | LsFuel => PFuel
        end
    | LTok TColon r2 =>
        match pt f r2 with
        | POk v r3 => if negb (is_base v) then PErr else map_post f x v r3
        | e => e
        end
    | _ => PErr
    end.
  Lemma pt_S : forall f s, pt (S f) s =
        match next_token s with
        | LTok (TVariable v) r => POk (PVar v) r
        | LTok (TConstant c) r => if name_ok c then POk (PConst (mk_name c)) r else PErr
        | LTok (TNumber t) r =>
            match parse_int t with Some n => POk (PConst (mk_number n)) r | None => PErr end
        | LTok (TFloat t) r =>
            match parse_float t with Some b => POk (PConst (mk_float b)) r | None => PErr end
        | LTok (TString t) r =>
            match unescape false t with Some u => POk (PConst (mk_string u)) r | None => PErr end
        | LTok (TByteString t) r =>
            match unescape true t with Some u => POk (PConst (mk_bytes u)) r | None => PErr end
        | LTok TLBracket r =>
            match next_token r with
            | LTok TRBracket r' => POk (PApply s_fn_list []) r'
            | _ =>
                match pt f r with
                | POk x r1 => if negb (is_base x) then PErr else list_post f x r1
                | e => e
                end
            end
        | LTok TLBrace r =>
            match pkv f TRBrace r with
            | LsOk l r' => POk (PApply s_fn_struct l) r'
            | LsErr => PErr
            | LsFuel => PFuel
            end
        | LTok (TName n) r =>
            match next_token r with
            | LTok TLParen r1 =>
                match pel f TRParen r1 with
                | LsOk l r2 => POk (PApply n l) r2
                | LsErr => PErr
                | LsFuel => PFuel
                end
            | _ => PErr
            end
        | _ => PErr
        end.
  Proof. reflexivity. Qed.
  Lemma pel_S : forall f close s, pel (S f) close s =
        match next_token s with
        | LEof => LsErr
        | LErr => LsErr
        | LTok t r =>
            if is_close close t then LsOk [] r else
            match pt f s with
            | POk x r1 => if negb (is_base x) then LsErr else elems_post f close x r1
            | PErr => LsErr
            | PFuel => LsFuel
            end
        end.
  Proof. reflexivity. Qed.
  Lemma pkv_S : forall f close s, pkv (S f) close s =
        match next_token s with
        | LEof => LsErr
        | LErr => LsErr
        | LTok t r =>
            if is_close close t then LsOk [] r else
            match pt f s with
            | POk k r1 =>
                if negb (is_base k) then LsErr else
                match next_token r1 with
                | LTok TColon r2 =>
                    match pt f r2 with
                    | POk v r3 => if negb (is_base v) then LsErr else kvs_post f close k v r3
                    | PErr => LsErr
                    | PFuel => LsFuel
                    end
                | _ => LsErr
                end
            | PErr => LsErr
            | PFuel => LsFuel
            end
        end.
  Proof. reflexivity. Qed.

  Lemma pt_blank : forall f s, pt f (32 :: s) = pt f s.
  Proof. intros [|f] s; reflexivity. Qed.

  Lemma pt_after_bracket : forall f t Z, pt f (after_bracket t ++ Z) = pt f (t ++ Z).
  Proof.
    intros f [|y t] Z; [reflexivity|]. unfold after_bracket.
    destruct ((y =? 45) || (y =? 43)); [apply pt_blank|reflexivity].
  Qed.

  (* a term never starts with a closing token *)
  Lemma pt_ok_tok : forall f s x r1, pt f s = POk x r1 ->
    exists t r, next_token s = LTok t r /\ forall close, is_close close t = false.
  Proof.
    intros [|f] s x r1 H; [discriminate H|]. rewrite pt_S in H.
    destruct (next_token s) as [| |t r]; try discriminate H.
    exists t, r. split; [reflexivity|]. intro close. destruct t; try discriminate H; destruct close; reflexivity.
  Qed.

  Lemma elems_step : forall f close s x r1, pt f s = POk x r1 -> is_base x = true ->
    pel (S f) close s = elems_post f close x r1.
  Proof.
    intros f close s x r1 H B. destruct (pt_ok_tok _ _ _ _ H) as (t & r & T & C).
    rewrite pel_S, T, (C close), H, B. reflexivity.
  Qed.

  Lemma kvs_step : forall f close s k r1 r2 v r3, pt f s = POk k r1 -> is_base k = true ->
    next_token r1 = LTok TColon r2 -> pt f r2 = POk v r3 -> is_base v = true ->
    pkv (S f) close s = kvs_post f close k v r3.
  Proof.
    intros f close s k r1 r2 v r3 H B H2 H3 B3. destruct (pt_ok_tok _ _ _ _ H) as (t & r & T & C).
    rewrite pkv_S, T, (C close), H, B. cbn [negb]. rewrite H2, H3, B3. reflexivity.
  Qed.

  Lemma pt_name_call : forall f s n r r1, next_token s = LTok (TName n) r -> next_token r = LTok TLParen r1 ->
    pt (S f) s = match pel f TRParen r1 with
                 | LsOk l r2 => POk (PApply n l) r2
                 | LsErr => PErr
                 | LsFuel => PFuel
                 end.
  Proof. intros f s n r r1 H H1. rewrite pt_S, H, H1. reflexivity. Qed.

  Lemma pt_lbrace : forall f s r, next_token s = LTok TLBrace r ->
    pt (S f) s = match pkv f TRBrace r with
                 | LsOk l r' => POk (PApply s_fn_struct l) r'
                 | LsErr => PErr
                 | LsFuel => PFuel
                 end.
  Proof. intros f s r H. rewrite pt_S, H. reflexivity. Qed.

  Lemma pt_lbracket : forall f s r x r1, next_token s = LTok TLBracket r -> pt f r = POk x r1 ->
    is_base x = true -> pt (S f) s = list_post f x r1.
  Proof.
    intros f s r x r1 H H1 B. destruct (pt_ok_tok _ _ _ _ H1) as (t & r' & T & C). specialize (C TRBracket).
    rewrite pt_S, H, T. destruct t; try discriminate C; rewrite H1, B; reflexivity.
  Qed.

  Lemma list_post_elems : forall f x r1 l rest, elems_post f TRBracket x r1 = LsOk l rest ->
    list_post f x r1 = POk (PApply s_fn_list l) rest.
  Proof.
    intros f x r1 l rest. unfold elems_post, list_post.
    destruct (next_token r1) as [| |t r]; try (intro H; discriminate H).
    destruct t; cbn [is_close]; intro H; try discriminate H;
      try (injection H as <- <-; reflexivity).
    destruct (pel f TRBracket r) as [| |l' r']; try discriminate H. injection H as <- <-. reflexivity.
  Qed.

  Lemma map_post_kvs : forall f k v r3 l rest, kvs_post f TRBracket k v r3 = LsOk l rest ->
    map_post f k v r3 = POk (PApply s_fn_map l) rest.
  Proof.
    intros f k v r3 l rest. unfold kvs_post, map_post.
    destruct (next_token r3) as [| |t r]; try (intro H; discriminate H).
    destruct t; cbn [is_close]; intro H; try discriminate H;
      try (injection H as <- <-; reflexivity).
    destruct (pkv f TRBracket r) as [| |l' r']; try discriminate H. injection H as <- <-. reflexivity.
  Qed.

  Lemma elems_post_close : forall f close ch x rest, closer close ch ->
    elems_post f close x (ch :: rest) = LsOk [x] rest.
  Proof.
    intros f close ch x rest [[-> ->]|[[-> ->]|[-> ->]]]; reflexivity.
  Qed.

  Lemma kvs_post_close : forall f close ch k v rest, closer close ch ->
    kvs_post f close k v (ch :: rest) = LsOk [k; v] rest.
  Proof.
    intros f close ch k v rest [[-> ->]|[[-> ->]|[-> ->]]]; reflexivity.
  Qed.

  (* ---- the expression the parser returns for a printed constant ---------------- *)
  Fixpoint expr_of (c : const) : pterm :=
    match c with
    | CLeaf t s n =>
        match t with
        | TimeT => PApply s_fn_time [PConst (mk_string (fmt_time n))]
        | DurationT => PApply s_fn_dur [PConst (mk_string (fmt_dur n))]
        | ListS => PApply s_fn_list []
        | MapS => PApply s_fn_map []
        | StructS => PApply s_fn_struct []
        | _ => PConst c
        end
    | CCell t n f s =>
        match t with
        | PairS => PApply s_fn_pair [expr_of f; expr_of s]
        | ListS => PApply s_fn_list (expr_of f :: elems s)
        | MapS => PApply s_fn_map (match f with
                                   | CCell _ _ k v => [expr_of k; expr_of v]
                                   | CLeaf _ _ _ => []
                                   end ++ kvs s)
        | StructS => PApply s_fn_struct (match f with
                                         | CCell _ _ k v => [expr_of k; expr_of v]
                                         | CLeaf _ _ _ => []
                                         end ++ kvs s)
        | _ => PConst c
        end
    end
  with elems (c : const) : list pterm :=
    match c with
    | CLeaf _ _ _ => []
    | CCell _ _ f s => expr_of f :: elems s
    end
  with kvs (c : const) : list pterm :=
    match c with
    | CLeaf _ _ _ => []
    | CCell _ _ e s =>
        match e with
        | CCell _ _ k v => [expr_of k; expr_of v]
        | CLeaf _ _ _ => []
        end ++ kvs s
    end.

  Lemma expr_base : forall c, is_base (expr_of c) = true.
  Proof. intros [t s n|t n f s]; destruct t; reflexivity. Qed.

  (* ---- laws of the library (sampled on the real library by the harness) -------- *)
  (* strconv.ParseFloat reads back what the repaired FormatFloat64 wrote, and that text
     is -?digits.digits *)
  Hypothesis float_rt : forall b, float_special b = false ->
    parse_float (format_float64 fmt_float b) = Some b.
  Hypothesis float_shape : forall b, float_special b = false ->
    exists sign ip fp, format_float64 fmt_float b = sign ++ ip ++ 46 :: fp /\
      (sign = [] \/ sign = [45]) /\ ip <> [] /\ fp <> [] /\
      forallb is_digit ip = true /\ forallb is_digit fp = true.
  (* the RFC3339 text of a time and the text of a duration contain no quote, backslash
     or carriage return *)
  Hypothesis time_plain : forall n, int64_ok n = true ->
    ~ In 34 (fmt_time n) /\ ~ In 92 (fmt_time n) /\ ~ In 13 (fmt_time n).
  Hypothesis dur_plain : forall n, int64_ok n = true ->
    ~ In 34 (fmt_dur n) /\ ~ In 92 (fmt_dur n) /\ ~ In 13 (fmt_dur n).

  Lemma digits_numc : forall l, forallb is_digit l = true -> forallb numc l = true.
  Proof.
    intros l H. apply forallb_forall. intros x I. rewrite forallb_forall in H. unfold numc. rewrite (H x I). reflexivity.
  Qed.

  Lemma float_alpha : forall b, float_special b = false -> forallb numc (fmt_float b) = true.
  Proof.
    intros b F. destruct (float_shape b F) as (sg & ip & fp & E & S & _ & _ & D1 & D2).
    assert (A : forallb numc (format_float64 fmt_float b) = true).
    { rewrite E, !forallb_app. cbn [forallb]. rewrite (digits_numc _ D1), (digits_numc _ D2).
      destruct S as [-> | ->]; reflexivity. }
    unfold format_float64 in A. rewrite F in A. cbn [orb] in A.
    destruct (has_byte 46 (fmt_float b)); [exact A|].
    rewrite forallb_app in A. apply andb_true_iff in A. exact (proj1 A).
  Qed.

  Lemma pr_cons : forall c, wf c = true -> valid c = true -> exists y t, pr c = y :: t.
  Proof.
    intros c W V. destruct (pr_head fmt_float fmt_time fmt_dur float_alpha c W V) as (y & t & E & _).
    exists y, t. exact E.
  Qed.

  (* ---- what is proved, for constants, list tails, map / struct tails ----------- *)
  Definition PP (c : const) : Prop := forall f rest,
    wf c = true -> valid c = true -> follow rest -> (need c <= f)%nat ->
    pt f (pr c ++ rest) = POk (expr_of c) rest.

  Definition PPl (c : const) : Prop := forall f close ch x rest, closer close ch ->
    wf c = true -> valid c = true -> (need c <= S f)%nat ->
    elems_post f close x (ltail c ++ ch :: rest) = LsOk (x :: elems c) rest.

  Definition PPm (c : const) : Prop := forall T f close ch k v rest, T = MapS \/ T = StructS ->
    closer close ch -> wf c = true -> valid c = true -> ctype_of c = T -> (need c <= S f)%nat ->
    kvs_post f close k v (mtail c ++ ch :: rest) = LsOk (k :: v :: kvs c) rest.

  Definition PPsub (c : const) : Prop :=
    match c with CCell _ _ k v => PP k /\ PP v | CLeaf _ _ _ => True end.

  Lemma follow_ltail_c : forall s close ch rest, closer close ch -> follow (ltail s ++ ch :: rest).
  Proof.
    intros s close ch rest C. destruct s; [|exact eq_refl].
    rewrite ltail_leaf. exact (proj2 (proj2 (closer_tok close ch rest C))).
  Qed.
  Lemma follow_mtail_c : forall s close ch rest, closer close ch -> follow (mtail s ++ ch :: rest).
  Proof.
    intros s close ch rest C. destruct s as [|? ? e ?]; [|destruct e; exact eq_refl].
    rewrite mtail_leaf. exact (proj2 (proj2 (closer_tok close ch rest C))).
  Qed.

  Lemma forallb_byte : forall s, forallb byte_ok s = true -> Forall byte s.
  Proof.
    intros s H. apply Forall_forall. intros x I. rewrite forallb_forall in H. apply byte_ok_range. apply H. exact I.
  Qed.

  Lemma to_int64_uint64 : forall n, int64_ok n = true -> to_int64 (to_uint64 n) = n.
  Proof.
    intros n H. unfold int64_ok in H. apply andb_true_iff in H. destruct H as [H1 H2].
    apply Z.leb_le in H1. apply Z.ltb_lt in H2. unfold to_int64, to_uint64, two64.
    destruct (Z_lt_dec n 0) as [N|N].
    - replace (n mod 2 ^ 64) with (n + 2 ^ 64).
      + destruct (Z.ltb_spec (n + 2 ^ 64) (2 ^ 63)); lia.
      + symmetry. rewrite <- (Z.mod_add n 1 (2 ^ 64)) by lia. rewrite Z.mul_1_l. apply Z.mod_small. lia.
    - rewrite Z.mod_small by lia. destruct (Z.ltb_spec n (2 ^ 63)); lia.
  Qed.

  (* a call with one plain string argument: fn:time:parse_rfc3339("...") and fn:duration:parse("...") *)
  Lemma pt_string_call : forall f name T rest X,
    next_token X = LTok (TName name) (40 :: 34 :: T ++ s_call_close ++ rest) ->
    ~ In 34 T -> ~ In 92 T -> ~ In 13 T ->
    pt (S (S (S f))) X = POk (PApply name [PConst (mk_string T)]) rest.
  Proof.
    intros f name T rest X H Q B C.
    rewrite (pt_name_call _ _ _ _ _ H (tok_lparen _)).
    assert (A : pt (S f) (34 :: T ++ s_call_close ++ rest) = POk (PConst (mk_string T)) (41 :: rest)).
    { rewrite pt_S. change (s_call_close ++ rest) with (34 :: 41 :: rest).
      rewrite (next_token_plain_string T (41 :: rest) Q B), (unescape_plain T B C). reflexivity. }
    rewrite (elems_step _ TRParen _ _ _ A eq_refl).
    rewrite (elems_post_close (S f) TRParen 41 _ rest) by (right; left; split; reflexivity).
    reflexivity.
  Qed.

  (* ---- leaves ------------------------------------------------------------------ *)
  Lemma PP_leaf : forall t s n, PP (CLeaf t s n).
  Proof.
    intros t s n f rest W V F N. cbn [need] in N.
    destruct f as [|[|[|f]]]; try lia. clear N.
    destruct t; [| | | | | | |discriminate W| | |].
    - (* name *)
      rewrite pr_name. cbn [valid] in V. destruct (next_token_name s rest V F) as [T O].
      rewrite pt_S, T, O. cbn [wf] in W. apply Z.eqb_eq in W. subst n. reflexivity.
    - (* string *)
      cbn [valid] in V. apply andb_true_iff in V. destruct V as [Vb Ve].
      destruct (esc_string 0 s) as [e|] eqn:E; [|discriminate Ve].
      cbn [wf] in W. apply Z.eqb_eq in W. subst n.
      rewrite esc_string_eq in E.
      exact (parse_print_string_lemma parse_float fmt_float fmt_time fmt_dur _ s e rest (forallb_byte _ Vb) E).
    - (* bytes *)
      cbn [valid] in V. cbn [wf] in W. apply Z.eqb_eq in W. subst n.
      exact (parse_print_bytes_lemma parse_float fmt_float fmt_time fmt_dur _ s rest (forallb_byte _ V)).
    - (* number *)
      rewrite pr_number. cbn [wf] in W. apply andb_true_iff in W. destruct W as [W1 W2]. apply is_nil_true in W1. subst s.
      rewrite pt_S, (next_token_print_number n rest F), (parse_int_print_number n W2). reflexivity.
    - (* float *)
      rewrite pr_float. cbn [wf] in W. apply andb_true_iff in W. destruct W as [W1 W2]. apply is_nil_true in W1. subst s.
      cbn [valid] in V. apply negb_true_iff in V.
      destruct (float_shape _ V) as (sg & ip & fp & E & Sg & I1 & I2 & D1 & D2).
      destruct ip as [|d ds]; [contradiction|]. destruct fp as [|g gs]; [contradiction|].
      pose proof (next_token_float sg d ds g gs rest Sg D1 D2 F) as T.
      rewrite pt_S. rewrite E at 1. rewrite <- !app_assoc. cbn [app] in T |- *. rewrite T.
      replace (sg ++ d :: ds ++ 46 :: g :: gs) with (format_float64 fmt_float (to_uint64 n))
        by (rewrite E; cbn [app]; reflexivity).
      rewrite (float_rt _ V). cbn [expr_of]. unfold mk_float. rewrite (to_int64_uint64 n W2). reflexivity.
    - (* time *)
      rewrite pr_time, <- !app_assoc. cbn [wf] in W. apply andb_true_iff in W. destruct W as [W1 W2].
      apply is_nil_true in W1. subst s. destruct (time_plain n W2) as (Q & B & C).
      exact (pt_string_call f s_fn_time (fmt_time n) rest _ (tok_time _) Q B C).
    - (* duration *)
      rewrite pr_dur, <- !app_assoc. cbn [wf] in W. apply andb_true_iff in W. destruct W as [W1 W2].
      apply is_nil_true in W1. subst s. destruct (dur_plain n W2) as (Q & B & C).
      exact (pt_string_call f s_fn_dur (fmt_dur n) rest _ (tok_dur _) Q B C).
    - (* [] *)
      change (pr (CLeaf ListS s n)) with s_list_nil. rewrite pt_S, tok_list_nil, tok_rbracket. reflexivity.
    - (* fn:map() *)
      change (pr (CLeaf MapS s n)) with s_map_nil.
      rewrite (pt_name_call _ _ _ _ _ (tok_map_nil rest) (tok_lparen _)).
      rewrite pel_S, tok_rparen. reflexivity.
    - (* {} *)
      change (pr (CLeaf StructS s n)) with s_struct_nil. change (s_struct_nil ++ rest) with (123 :: 125 :: rest).
      rewrite (pt_lbrace _ _ _ (tok_lbrace _)). rewrite pkv_S, tok_rbrace. reflexivity.
  Qed.

  (* ---- cells ------------------------------------------------------------------- *)
  Lemma PP_pair : forall n a b, PP a -> PP b -> PP (CCell PairS n a b).
  Proof.
    intros n a b Pa Pb f rest W V F N.
    destruct (wf_pair_cell _ _ _ W) as (Wa & Wb & _). destruct (valid_cell _ _ _ _ V) as [Va Vb].
    cbn [need] in N. destruct f as [|[|[|f]]]; try lia.
    rewrite pr_pair, <- !app_assoc.
    rewrite (pt_name_call _ _ _ _ _ (tok_pair _) (tok_lparen _)).
    assert (A : pt (S f) (pr a ++ s_comma ++ pr b ++ [41] ++ rest) = POk (expr_of a) (s_comma ++ pr b ++ [41] ++ rest)).
    { apply Pa; [exact Wa|exact Va|apply follow_comma|lia]. }
    rewrite (elems_step _ TRParen _ _ _ A (expr_base a)).
    unfold elems_post at 1. rewrite tok_comma.
    assert (B : pt f (32 :: pr b ++ [41] ++ rest) = POk (expr_of b) (41 :: rest)).
    { rewrite pt_blank. apply Pb; [exact Wb|exact Vb|exact eq_refl|lia]. }
    rewrite (elems_step _ TRParen _ _ _ B (expr_base b)).
    rewrite (elems_post_close f TRParen 41 _ rest) by (right; left; split; reflexivity).
    reflexivity.
  Qed.

  Lemma PP_list : forall n x tl, PP x -> PPl tl -> PP (CCell ListS n x tl).
  Proof.
    intros n x tl Px Ptl f rest W V F N.
    destruct (wf_list_cell _ _ _ W) as (Wx & Wt & _). destruct (valid_cell _ _ _ _ V) as [Vx Vt].
    cbn [need] in N. destruct f as [|f]; try lia.
    rewrite pr_list, <- app_comm_cons, <- !app_assoc.
    destruct (pr_cons x Wx Vx) as (y & t & E).
    assert (A : pt f (after_bracket (pr x) ++ ltail tl ++ [93] ++ rest) = POk (expr_of x) (ltail tl ++ 93 :: rest)).
    { rewrite pt_after_bracket. apply Px; [exact Wx|exact Vx| |lia].
      apply (follow_ltail_c tl TRBracket). left; split; reflexivity. }
    assert (T : next_token (91 :: after_bracket (pr x) ++ ltail tl ++ [93] ++ rest)
                = LTok TLBracket (after_bracket (pr x) ++ ltail tl ++ [93] ++ rest)).
    { rewrite E. apply tok_lbracket. }
    rewrite (pt_lbracket _ _ _ _ _ T A (expr_base x)).
    apply list_post_elems. apply Ptl; [left; split; reflexivity|exact Wt|exact Vt|lia].
  Qed.

  Lemma entry_text : forall m k v Z, wf k = true -> valid k = true ->
    after_bracket (pentry (CCell PairS m k v)) ++ Z = after_bracket (pr k) ++ s_colon ++ pr v ++ Z.
  Proof.
    intros m k v Z Wk Vk. cbn [print_entry]. destruct (pr_cons k Wk Vk) as (y & t & ->).
    rewrite after_bracket_app, <- !app_assoc. reflexivity.
  Qed.

  Lemma PP_map : forall n e tl, PPsub e -> PPm tl -> PP (CCell MapS n e tl).
  Proof.
    intros n e tl Pe Ptl f rest W V F N.
    destruct (wf_entry_cell MapS _ _ _ (or_introl eq_refl) W) as (We & Wt & _ & Ht & m & k & v & ->).
    destruct (wf_pair_cell _ _ _ We) as (Wk & Wv & _).
    destruct (valid_cell _ _ _ _ V) as [Ve Vt]. destruct (valid_cell _ _ _ _ Ve) as [Vk Vv].
    cbn [PPsub] in Pe. destruct Pe as [Pk Pv].
    cbn [need] in N. destruct f as [|f]; try lia.
    rewrite pr_map, <- app_comm_cons, <- !app_assoc. rewrite (entry_text m k v _ Wk Vk).
    destruct (pr_cons k Wk Vk) as (y & t & E).
    assert (A : pt f (after_bracket (pr k) ++ s_colon ++ pr v ++ mtail tl ++ [93] ++ rest)
                = POk (expr_of k) (s_colon ++ pr v ++ mtail tl ++ [93] ++ rest)).
    { rewrite pt_after_bracket. apply Pk; [exact Wk|exact Vk|apply follow_colon|lia]. }
    assert (T : next_token (91 :: after_bracket (pr k) ++ s_colon ++ pr v ++ mtail tl ++ [93] ++ rest)
                = LTok TLBracket (after_bracket (pr k) ++ s_colon ++ pr v ++ mtail tl ++ [93] ++ rest)).
    { rewrite E. apply tok_lbracket. }
    rewrite (pt_lbracket _ _ _ _ _ T A (expr_base k)).
    unfold list_post. rewrite tok_colon.
    assert (B : pt f (32 :: pr v ++ mtail tl ++ [93] ++ rest) = POk (expr_of v) (mtail tl ++ 93 :: rest)).
    { rewrite pt_blank. apply Pv; [exact Wv|exact Vv| |lia].
      apply (follow_mtail_c tl TRBracket). left; split; reflexivity. }
    rewrite B, (expr_base v). cbn [negb].
    apply map_post_kvs.
    apply (Ptl MapS); [left; reflexivity|left; split; reflexivity|exact Wt|exact Vt|exact Ht|lia].
  Qed.

  Lemma PP_struct : forall n e tl, PPsub e -> PPm tl -> PP (CCell StructS n e tl).
  Proof.
    intros n e tl Pe Ptl f rest W V F N.
    destruct (wf_entry_cell StructS _ _ _ (or_intror eq_refl) W) as (We & Wt & _ & Ht & m & k & v & ->).
    destruct (wf_pair_cell _ _ _ We) as (Wk & Wv & _).
    destruct (valid_cell _ _ _ _ V) as [Ve Vt]. destruct (valid_cell _ _ _ _ Ve) as [Vk Vv].
    cbn [PPsub] in Pe. destruct Pe as [Pk Pv].
    cbn [need] in N. destruct f as [|[|f]]; try lia.
    rewrite pr_struct, <- app_comm_cons, <- !app_assoc. cbn [print_entry]. rewrite <- !app_assoc.
    rewrite (pt_lbrace _ _ _ (tok_lbrace _)).
    assert (A : pt f (pr k ++ s_colon ++ pr v ++ mtail tl ++ [125] ++ rest)
                = POk (expr_of k) (s_colon ++ pr v ++ mtail tl ++ [125] ++ rest)).
    { apply Pk; [exact Wk|exact Vk|apply follow_colon|lia]. }
    assert (B : pt f (32 :: pr v ++ mtail tl ++ [125] ++ rest) = POk (expr_of v) (mtail tl ++ 125 :: rest)).
    { rewrite pt_blank. apply Pv; [exact Wv|exact Vv| |lia].
      apply (follow_mtail_c tl TRBrace). right; right; split; reflexivity. }
    rewrite (kvs_step _ TRBrace _ _ _ _ _ _ A (expr_base k) (tok_colon _) B (expr_base v)).
    rewrite (Ptl StructS f TRBrace 125 (expr_of k) (expr_of v) rest);
      [reflexivity|right; reflexivity|right; right; split; reflexivity|exact Wt|exact Vt|exact Ht|lia].
  Qed.

  (* ---- tails ------------------------------------------------------------------- *)
  Lemma PPl_leaf : forall t s n, PPl (CLeaf t s n).
  Proof. intros t s n f close ch x rest C _ _ _. rewrite ltail_leaf. apply (elems_post_close f close ch x rest C). Qed.

  Lemma PPl_cell : forall t n y tl, PP y -> PPl tl -> PPl (CCell t n y tl).
  Proof.
    intros t n y tl Py Ptl f close ch x rest C W V N.
    destruct (wf_cell_inv _ _ _ _ W) as (Wy & Wt & _). destruct (valid_cell _ _ _ _ V) as [Vy Vt].
    cbn [need] in N. destruct f as [|f]; try lia.
    rewrite ltail_cell, <- !app_assoc. unfold elems_post at 1. rewrite tok_comma.
    assert (A : pt f (32 :: pr y ++ ltail tl ++ ch :: rest) = POk (expr_of y) (ltail tl ++ ch :: rest)).
    { rewrite pt_blank. apply Py; [exact Wy|exact Vy|apply (follow_ltail_c tl close); exact C|lia]. }
    rewrite (elems_step _ close _ _ _ A (expr_base y)).
    rewrite (Ptl f close ch (expr_of y) rest C Wt Vt) by lia. reflexivity.
  Qed.

  Lemma PPm_leaf : forall t s n, PPm (CLeaf t s n).
  Proof.
    intros t s n T f close ch k v rest _ C _ _ _ _. rewrite mtail_leaf. apply (kvs_post_close f close ch k v rest C).
  Qed.

  Lemma PPm_cell : forall t n e tl, PPsub e -> PPm tl -> PPm (CCell t n e tl).
  Proof.
    intros t n e tl Pe Ptl T f close ch k0 v0 rest HT C W V Ht N. cbn [ctype_of] in Ht. subst t.
    destruct (wf_entry_cell T _ _ _ HT W) as (We & Wt & _ & Htl & m & k & v & ->).
    destruct (wf_pair_cell _ _ _ We) as (Wk & Wv & _).
    destruct (valid_cell _ _ _ _ V) as [Ve Vt]. destruct (valid_cell _ _ _ _ Ve) as [Vk Vv].
    cbn [PPsub] in Pe. destruct Pe as [Pk Pv].
    cbn [need] in N. destruct f as [|f]; try lia.
    rewrite mtail_cell, <- !app_assoc. cbn [print_entry]. rewrite <- !app_assoc.
    unfold kvs_post at 1. rewrite tok_comma.
    assert (A : pt f (32 :: pr k ++ s_colon ++ pr v ++ mtail tl ++ ch :: rest)
                = POk (expr_of k) (s_colon ++ pr v ++ mtail tl ++ ch :: rest)).
    { rewrite pt_blank. apply Pk; [exact Wk|exact Vk|apply follow_colon|lia]. }
    assert (B : pt f (32 :: pr v ++ mtail tl ++ ch :: rest) = POk (expr_of v) (mtail tl ++ ch :: rest)).
    { rewrite pt_blank. apply Pv; [exact Wv|exact Vv|apply (follow_mtail_c tl close); exact C|lia]. }
    rewrite (kvs_step _ close _ _ _ _ _ _ A (expr_base k) (tok_colon _) B (expr_base v)).
    rewrite (Ptl T f close ch (expr_of k) (expr_of v) rest HT C Wt Vt Htl) by lia. reflexivity.
  Qed.

  Lemma parse_all : forall c, PP c /\ PPl c /\ PPm c /\ PPsub c.
  Proof.
    induction c as [t s n|t n f IHf s IHs].
    - split; [apply PP_leaf|]. split; [apply PPl_leaf|]. split; [apply PPm_leaf|exact I].
    - destruct IHf as (Pf & _ & _ & Sf). destruct IHs as (Ps & Pls & Pms & _).
      split; [|split; [|split]].
      + intros f0 rest W. destruct (wf_cell_type _ _ _ _ W) as [->|[->|[->| ->]]]; revert f0 rest W.
        * apply PP_pair; assumption.
        * apply PP_list; assumption.
        * apply PP_map; assumption.
        * apply PP_struct; assumption.
      + apply PPl_cell; assumption.
      + apply PPm_cell; assumption.
      + split; assumption.
  Qed.

  Lemma parse_print_expr : forall c f rest, wf c = true -> valid c = true -> follow rest -> (need c <= f)%nat ->
    pt f (pr c ++ rest) = POk (expr_of c) rest.
  Proof. intros c f rest W V F N. exact (proj1 (parse_all c) f rest W V F N). Qed.

  (* ---- evaluation of the parsed expression ------------------------------------- *)
  (* time.Parse(RFC3339) / time.ParseDuration read back what FormatTime / FormatDuration wrote *)
  Hypothesis time_rt : forall n, int64_ok n = true -> parse_time (fmt_time n) = Some n.
  Hypothesis dur_rt : forall n, int64_ok n = true -> parse_dur (fmt_dur n) = Some n.

  Definition evals (l : list pterm) : option (list const) := all_some (map ev l).

  Lemma ev_apply : forall n args, ev (PApply n args) =
    match evals args with Some vs => apply_ctor parse_time parse_dur n vs | None => None end.
  Proof. reflexivity. Qed.
  Lemma evals_cons : forall x l, evals (x :: l) =
    match ev x with Some v => option_map (cons v) (evals l) | None => None end.
  Proof. reflexivity. Qed.

  Lemma ctor_list : forall vs, apply_ctor parse_time parse_dur s_fn_list vs = Some (mk_list vs).
  Proof. reflexivity. Qed.
  Lemma ctor_pair : forall a b, apply_ctor parse_time parse_dur s_fn_pair [a; b] = Some (mk_pair a b).
  Proof. reflexivity. Qed.
  Lemma ctor_map : forall vs, apply_ctor parse_time parse_dur s_fn_map vs = option_map mk_map (pair_up vs).
  Proof. reflexivity. Qed.
  Lemma ctor_struct : forall vs, apply_ctor parse_time parse_dur s_fn_struct vs = option_map mk_struct (pair_up vs).
  Proof. reflexivity. Qed.
  Lemma ctor_time : forall s n, apply_ctor parse_time parse_dur s_fn_time [CLeaf StringT s n] = option_map mk_time (parse_time s).
  Proof. reflexivity. Qed.
  Lemma ctor_dur : forall s n, apply_ctor parse_time parse_dur s_fn_dur [CLeaf StringT s n] = option_map mk_duration (parse_dur s).
  Proof. reflexivity. Qed.

  (* ast.Map / ast.Struct on entries supplied by strictly descending key hash *)
  Lemma insert_last : forall x m, Forall (fun y => kv_key y < kv_key x) m -> insert_kv x m = m ++ [x].
  Proof.
    induction m as [|y m IH]; intro F; [reflexivity|]. inversion F as [|? ? Fy Fm]; subst.
    cbn [insert_kv app]. destruct (Z.leb_spec (kv_key x) (kv_key y)); [lia|]. rewrite (IH Fm). reflexivity.
  Qed.

  Lemma sort_desc : forall l, desc (map kv_key l) = true -> sort_kv l = rev l.
  Proof.
    induction l as [|x l IH]; intro D; [reflexivity|]. cbn [map desc] in D. apply andb_true_iff in D.
    destruct D as [D1 D2]. unfold sort_kv in *. cbn [fold_right rev]. rewrite (IH D2). apply insert_last.
    apply Forall_forall. intros y I. apply in_rev in I. rewrite forallb_forall in D1.
    specialize (D1 (kv_key y) (in_map kv_key l y I)). apply Z.ltb_lt in D1. exact D1.
  Qed.

  Lemma mk_shape_desc : forall cons nil l, desc (map kv_key l) = true ->
    mk_shape cons nil l = fold_right (fun e m => cons (fst e) (snd e) m) nil l.
  Proof.
    intros cons nil l D. unfold mk_shape. rewrite (sort_desc l D).
    rewrite <- (rev_involutive l) at 2. rewrite fold_left_rev_right. reflexivity.
  Qed.

  Lemma rebuild : forall T, T = MapS \/ T = StructS -> forall c, wf c = true -> ctype_of c = T ->
    fold_right (fun e m => mk_cell T (mk_pair (fst e) (snd e)) m) (CLeaf T [] 0) (entries c) = c.
  Proof.
    intros T HT. induction c as [t s n|t n f _ s IHs]; intros W Ht; cbn [ctype_of] in Ht; subst t.
    - cbn [entries fold_right].
      destruct (wf_nil_leaf T s n) as [-> ->]; [destruct HT as [-> | ->]; auto|exact W|reflexivity].
    - destruct (wf_entry_cell T _ _ _ HT W) as (We & Ws & Hn & Hs & m & k & v & ->).
      destruct (wf_pair_cell _ _ _ We) as (_ & _ & Hm).
      cbn [entries fold_right fst snd]. rewrite (IHs Ws Hs). unfold mk_pair, mk_cell. rewrite <- Hm, <- Hn. reflexivity.
  Qed.

  Lemma canon_cell : forall t n f s, canon (CCell t n f s) = true ->
    canon f = true /\ canon s = true /\
    (t = MapS \/ t = StructS -> desc (map kv_key (entries (CCell t n f s))) = true).
  Proof.
    intros t n f s H. cbn [canon] in H. apply andb_true_iff in H. destruct H as [H H3].
    apply andb_true_iff in H. destruct H as [H1 H2]. split; [exact H1|]. split; [exact H2|].
    intros [-> | ->]; exact H3.
  Qed.

  Definition EE (c : const) : Prop := wf c = true -> canon c = true -> ev (expr_of c) = Some c.
  Definition EEl (c : const) : Prop := wf c = true -> canon c = true -> ctype_of c = ListS ->
    exists vs, evals (elems c) = Some vs /\ mk_list vs = c.
  Definition EEm (c : const) : Prop := forall T, T = MapS \/ T = StructS ->
    wf c = true -> canon c = true -> ctype_of c = T ->
    exists vs, evals (kvs c) = Some vs /\ pair_up vs = Some (entries c).
  Definition EEsub (c : const) : Prop :=
    match c with CCell _ _ k v => EE k /\ EE v | CLeaf _ _ _ => True end.

  Lemma EE_leaf : forall t s n, EE (CLeaf t s n).
  Proof.
    intros t s n W _. destruct t; try reflexivity; try discriminate W.
    - (* time *)
      cbn [wf] in W. apply andb_true_iff in W. destruct W as [W1 W2]. apply is_nil_true in W1. subst s.
      cbn [expr_of]. rewrite ev_apply. change (evals [PConst (mk_string (fmt_time n))]) with (Some [mk_string (fmt_time n)]).
      unfold mk_string. rewrite ctor_time, (time_rt n W2). reflexivity.
    - (* duration *)
      cbn [wf] in W. apply andb_true_iff in W. destruct W as [W1 W2]. apply is_nil_true in W1. subst s.
      cbn [expr_of]. rewrite ev_apply. change (evals [PConst (mk_string (fmt_dur n))]) with (Some [mk_string (fmt_dur n)]).
      unfold mk_string. rewrite ctor_dur, (dur_rt n W2). reflexivity.
    - destruct (wf_nil_leaf ListS s n (or_introl eq_refl) W) as [-> ->]. reflexivity.
    - destruct (wf_nil_leaf MapS s n (or_intror (or_introl eq_refl)) W) as [-> ->]. reflexivity.
    - destruct (wf_nil_leaf StructS s n (or_intror (or_intror eq_refl)) W) as [-> ->]. reflexivity.
  Qed.

  Lemma EE_pair : forall n a b, EE a -> EE b -> EE (CCell PairS n a b).
  Proof.
    intros n a b Ea Eb W C. destruct (wf_pair_cell _ _ _ W) as (Wa & Wb & Hn).
    destruct (canon_cell _ _ _ _ C) as (Ca & Cb & _).
    cbn [expr_of]. rewrite ev_apply, !evals_cons, (Ea Wa Ca), (Eb Wb Cb).
    change (evals []) with (Some (@nil const)). cbn [option_map]. rewrite ctor_pair.
    unfold mk_pair, mk_cell. rewrite <- Hn. reflexivity.
  Qed.

  Lemma EEl_leaf : forall t s n, EEl (CLeaf t s n).
  Proof.
    intros t s n W _ Ht. cbn [ctype_of] in Ht. subst t. exists []. split; [reflexivity|].
    destruct (wf_nil_leaf ListS s n (or_introl eq_refl) W) as [-> ->]. reflexivity.
  Qed.

  Lemma EEl_cell : forall t n y tl, EE y -> EEl tl -> EEl (CCell t n y tl).
  Proof.
    intros t n y tl Ey Etl W C Ht. cbn [ctype_of] in Ht. subst t.
    destruct (wf_list_cell _ _ _ W) as (Wy & Wt & Hn & Htl). destruct (canon_cell _ _ _ _ C) as (Cy & Ct & _).
    destruct (Etl Wt Ct Htl) as (vs & E1 & E2). exists (y :: vs). split.
    - cbn [elems]. rewrite evals_cons, (Ey Wy Cy), E1. reflexivity.
    - cbn [mk_list fold_right]. change (fold_right list_cons list_nil vs) with (mk_list vs). rewrite E2.
      unfold list_cons, mk_cell. rewrite <- Hn. reflexivity.
  Qed.

  Lemma EE_list : forall n x tl, EEl (CCell ListS n x tl) -> EE (CCell ListS n x tl).
  Proof.
    intros n x tl El W C. destruct (El W C eq_refl) as (vs & E1 & E2).
    change (expr_of (CCell ListS n x tl)) with (PApply s_fn_list (elems (CCell ListS n x tl))).
    rewrite ev_apply, E1, ctor_list, E2. reflexivity.
  Qed.

  Lemma EEm_leaf : forall t s n, EEm (CLeaf t s n).
  Proof. intros t s n T _ _ _ _. exists []. split; reflexivity. Qed.

  Lemma EEm_cell : forall t n e tl, EEsub e -> EEm tl -> EEm (CCell t n e tl).
  Proof.
    intros t n e tl Ee Etl T HT W C Ht. cbn [ctype_of] in Ht. subst t.
    destruct (wf_entry_cell T _ _ _ HT W) as (We & Wt & _ & Htl & m & k & v & ->).
    destruct (wf_pair_cell _ _ _ We) as (Wk & Wv & _).
    destruct (canon_cell _ _ _ _ C) as (Ce & Ct & _). destruct (canon_cell _ _ _ _ Ce) as (Ck & Cv & _).
    cbn [EEsub] in Ee. destruct Ee as [Ek Ev].
    destruct (Etl T HT Wt Ct Htl) as (vs & E1 & E2). exists (k :: v :: vs). split.
    - cbn [kvs app]. rewrite !evals_cons, (Ek Wk Ck), (Ev Wv Cv), E1. reflexivity.
    - cbn [pair_up entries]. rewrite E2. reflexivity.
  Qed.

  Lemma kvs_args : forall n e tl,
    match e with CCell _ _ k v => [expr_of k; expr_of v] | CLeaf _ _ _ => [] end ++ kvs tl
    = kvs (CCell MapS n e tl).
  Proof. reflexivity. Qed.

  Lemma EE_map : forall n e tl, EEm (CCell MapS n e tl) -> EE (CCell MapS n e tl).
  Proof.
    intros n e tl Em W C. destruct (Em MapS (or_introl eq_refl) W C eq_refl) as (vs & E1 & E2).
    destruct (canon_cell _ _ _ _ C) as (_ & _ & D). specialize (D (or_introl eq_refl)).
    cbn [expr_of]. rewrite (kvs_args n e tl), ev_apply, E1, ctor_map, E2. cbn [option_map]. f_equal.
    unfold mk_map. rewrite (mk_shape_desc _ _ _ D).
    exact (rebuild MapS (or_introl eq_refl) _ W eq_refl).
  Qed.

  Lemma EE_struct : forall n e tl, EEm (CCell StructS n e tl) -> EE (CCell StructS n e tl).
  Proof.
    intros n e tl Em W C. destruct (Em StructS (or_intror eq_refl) W C eq_refl) as (vs & E1 & E2).
    destruct (canon_cell _ _ _ _ C) as (_ & _ & D). specialize (D (or_intror eq_refl)).
    cbn [expr_of]. rewrite (kvs_args n e tl). change (kvs (CCell MapS n e tl)) with (kvs (CCell StructS n e tl)).
    rewrite ev_apply, E1, ctor_struct, E2. cbn [option_map]. f_equal.
    unfold mk_struct. rewrite (mk_shape_desc _ _ _ D).
    exact (rebuild StructS (or_intror eq_refl) _ W eq_refl).
  Qed.

  Lemma eval_all : forall c, EE c /\ EEl c /\ EEm c /\ EEsub c.
  Proof.
    induction c as [t s n|t n f IHf s IHs].
    - split; [apply EE_leaf|]. split; [apply EEl_leaf|]. split; [apply EEm_leaf|exact I].
    - destruct IHf as (Ef & _ & _ & Sf). destruct IHs as (Es & Els & Ems & _).
      assert (L : EEl (CCell t n f s)) by (apply EEl_cell; assumption).
      assert (M : EEm (CCell t n f s)) by (apply EEm_cell; assumption).
      split; [|split; [exact L|split; [exact M|split; assumption]]].
      intros W. destruct (wf_cell_type _ _ _ _ W) as [->|[->|[->| ->]]]; revert W.
      + apply EE_pair; assumption.
      + apply EE_list; assumption.
      + apply EE_map; assumption.
      + apply EE_struct; assumption.
  Qed.

  Lemma eval_expr : forall c, wf c = true -> canon c = true -> ev (expr_of c) = Some c.
  Proof. intros c W C. exact (proj1 (eval_all c) W C). Qed.

  (* ---- the fuel of parse_term_all suffices -------------------------------------- *)
  Lemma after_bracket_length : forall t, (length t <= length (after_bracket t))%nat.
  Proof.
    intros [|y t]; [apply le_n|]. unfold after_bracket. destruct ((y =? 45) || (y =? 43)); cbn [length]; lia.
  Qed.

  Definition NB (c : const) : Prop := wf c = true -> valid c = true -> (need c <= 2 * length (pr c) + 2)%nat.
  Definition NBl (c : const) : Prop := wf c = true -> valid c = true -> (need c <= 2 * length (ltail c) + 3)%nat.
  Definition NBm (c : const) : Prop := forall T, T = MapS \/ T = StructS ->
    wf c = true -> valid c = true -> ctype_of c = T -> (need c <= 2 * length (mtail c) + 3)%nat.
  Definition NBsub (c : const) : Prop :=
    match c with CCell _ _ k v => NB k /\ NB v | CLeaf _ _ _ => True end.

  Lemma need_all : forall c, NB c /\ NBl c /\ NBm c /\ NBsub c.
  Proof.
    assert (L2 : length s_comma = 2%nat) by reflexivity.
    assert (L3 : length s_colon = 3%nat) by reflexivity.
    assert (L8 : length s_pair_open = 8%nat) by reflexivity.
    induction c as [t s n|t n f IHf s IHs].
    - split; [|split; [|split; [|exact I]]].
      + intros W V. destruct (pr_cons _ W V) as (y & t0 & ->). cbn [need length]. lia.
      + intros _ _. rewrite ltail_leaf. cbn [need length]. lia.
      + intros T _ _ _ _. rewrite mtail_leaf. cbn [need length]. lia.
    - destruct IHf as (Nf & _ & _ & Sf). destruct IHs as (Ns & Nls & Nms & _).
      split; [|split; [|split; [|split; assumption]]].
      + intros W V. destruct (valid_cell _ _ _ _ V) as [Vf Vs].
        destruct (wf_cell_type _ _ _ _ W) as [->|[->|[->| ->]]].
        * destruct (wf_pair_cell _ _ _ W) as (Wf & Ws & _).
          specialize (Nf Wf Vf). specialize (Ns Ws Vs).
          rewrite pr_pair, !app_length, L2, L8. cbn [need length]. lia.
        * destruct (wf_list_cell _ _ _ W) as (Wf & Ws & _).
          specialize (Nf Wf Vf). specialize (Nls Ws Vs). pose proof (after_bracket_length (pr f)) as A.
          rewrite pr_list. cbn [length]. rewrite !app_length. cbn [need length]. lia.
        * destruct (wf_entry_cell MapS _ _ _ (or_introl eq_refl) W) as (Wf & Ws & _ & Hs & m & k & v & ->).
          destruct (wf_pair_cell _ _ _ Wf) as (Wk & Wv & _). destruct (valid_cell _ _ _ _ Vf) as [Vk Vv].
          cbn [NBsub] in Sf. destruct Sf as [Nk Nv]. specialize (Nk Wk Vk). specialize (Nv Wv Vv).
          specialize (Nms MapS (or_introl eq_refl) Ws Vs Hs).
          pose proof (after_bracket_length (pentry (CCell PairS m k v))) as A.
          rewrite pr_map. cbn [length]. rewrite !app_length. cbn [print_entry] in A |- *.
          rewrite !app_length, L3 in A. cbn [need length]. lia.
        * destruct (wf_entry_cell StructS _ _ _ (or_intror eq_refl) W) as (Wf & Ws & _ & Hs & m & k & v & ->).
          destruct (wf_pair_cell _ _ _ Wf) as (Wk & Wv & _). destruct (valid_cell _ _ _ _ Vf) as [Vk Vv].
          cbn [NBsub] in Sf. destruct Sf as [Nk Nv]. specialize (Nk Wk Vk). specialize (Nv Wv Vv).
          specialize (Nms StructS (or_intror eq_refl) Ws Vs Hs).
          rewrite pr_struct. cbn [length print_entry]. rewrite !app_length, L3. cbn [need length]. lia.
      + intros W V. destruct (valid_cell _ _ _ _ V) as [Vf Vs]. destruct (wf_cell_inv _ _ _ _ W) as (Wf & Ws & _).
        specialize (Nf Wf Vf). specialize (Nls Ws Vs).
        rewrite ltail_cell, !app_length, L2. cbn [need]. lia.
      + intros T HT W V Ht. cbn [ctype_of] in Ht. subst t. destruct (valid_cell _ _ _ _ V) as [Vf Vs].
        destruct (wf_entry_cell T _ _ _ HT W) as (Wf & Ws & _ & Hs & m & k & v & ->).
        destruct (wf_pair_cell _ _ _ Wf) as (Wk & Wv & _). destruct (valid_cell _ _ _ _ Vf) as [Vk Vv].
        cbn [NBsub] in Sf. destruct Sf as [Nk Nv]. specialize (Nk Wk Vk). specialize (Nv Wv Vv).
        specialize (Nms T HT Ws Vs Hs).
        rewrite mtail_cell. cbn [print_entry]. rewrite !app_length, L2, L3. cbn [need]. lia.
  Qed.

  Lemma need_fuel_for : forall c rest, wf c = true -> valid c = true -> (need c <= fuel_for (pr c ++ rest))%nat.
  Proof.
    intros c rest W V. pose proof (proj1 (need_all c) W V) as N. unfold fuel_for. rewrite app_length. lia.
  Qed.

  (* ---- print, parse, evaluate --------------------------------------------------- *)
  Lemma parse_print_const_lemma : forall c rest f,
    wf c = true -> valid c = true -> canon c = true -> follow rest ->
    (fuel_for (pr c ++ rest) <= f)%nat ->
    exists t, pt f (pr c ++ rest) = POk t rest /\ ev t = Some c.
  Proof.
    intros c rest f W V C F N. exists (expr_of c). split.
    - apply parse_print_expr; try assumption. pose proof (need_fuel_for c rest W V). lia.
    - apply eval_expr; assumption.
  Qed.

  Lemma parse_all_print_const : forall c, wf c = true -> valid c = true -> canon c = true ->
    exists t, parse_term_all parse_float (pr c) = POk t [] /\ ev t = Some c.
  Proof.
    intros c W V C. exists (expr_of c). split; [|apply eval_expr; assumption].
    unfold parse_term_all.
    pose proof (parse_print_expr c (fuel_for (pr c)) [] W V I) as H. rewrite app_nil_r in H.
    rewrite H; [reflexivity|]. pose proof (need_fuel_for c [] W V) as N. rewrite app_nil_r in N. exact N.
  Qed.
End PC.
