(* Model of the parser for terms: rule `term` of parse/gen/Mangle.g4 with the
   visitors of parse/parse.go (VisitVar :470 ... VisitList :597, VisitAppl :529)
   as a recursive-descent parser that pulls tokens from Lexer.next_token, and of
   the constructor cases of functional.EvalApplyFn (functional/functional.go:104:
   fn:pair, fn:list, fn:map, fn:struct, fn:time:parse_rfc3339, fn:duration:parse)
   with which a parsed constructor expression is turned into a constant.
   `.Type<...>` syntax (DotType) is not modelled (the parser model rejects it).

   strconv.ParseFloat, time.Parse(RFC3339) and time.ParseDuration are library
   code: they enter as the section variables [parse_float], [parse_time],
   [parse_dur] (instantiated per case from tables observed on the Go side).
   Executable definitions only; proofs are in ParseProofs.v. *)
From Coq Require Import List ZArith Bool String.
From MV Require Export Serde.Lexer Term.MkMap.
Import ListNotations.
Open Scope Z_scope.

(* what parse.Term returns, as far as it is modelled: ast.Variable, a leaf
   ast.Constant (name, number, float, string, bytes), and NAME(args) - an
   ast.ApplyFn when the name starts with "fn:", an ast.Atom otherwise; list,
   map and struct literals are ApplyFn of fn:list, fn:map, fn:struct *)
Inductive pterm :=
| PVar (name : list Z)
| PConst (c : const)
| PApply (name : list Z) (args : list pterm).

Definition s_fn : list Z := Eval vm_compute in bs "fn:"%string.
Definition s_fn_list : list Z := Eval vm_compute in bs "fn:list"%string.
Definition s_fn_map : list Z := Eval vm_compute in bs "fn:map"%string.
Definition s_fn_struct : list Z := Eval vm_compute in bs "fn:struct"%string.
Definition s_fn_pair : list Z := Eval vm_compute in bs "fn:pair"%string.
Definition s_fn_time : list Z := Eval vm_compute in bs "fn:time:parse_rfc3339"%string.
Definition s_fn_dur : list Z := Eval vm_compute in bs "fn:duration:parse"%string.

Fixpoint is_prefix (p s : list Z) : bool :=
  match p, s with
  | [], _ => true
  | x :: p', y :: s' => (x =? y) && is_prefix p' s'
  | _ :: _, [] => false
  end.

(* ast.BaseTerm: Constant, Variable, ApplyFn - not Atom *)
Definition is_base (t : pterm) : bool :=
  match t with
  | PApply n _ => is_prefix s_fn n
  | _ => true
  end.

(* strconv.ParseInt(text, 10, 64) on a NUMBER token: '-'? DIGIT+ *)
Fixpoint digits_value (s : list Z) (acc : Z) : Z :=
  match s with [] => acc | c :: r => digits_value r (acc * 10 + (c - 48)) end.
Definition parse_int (s : list Z) : option Z :=
  let v := match s with
           | c :: r => if c =? 45 then - digits_value r 0 else digits_value s 0
           | [] => 0
           end in
  if int64_ok v then Some v else None.

Inductive pres :=
| PFuel                          (* out of fuel: never with the fuel of parse_term_all *)
| PErr                           (* syntax error, or an error added by a visitor *)
| POk (t : pterm) (rest : list Z).

Inductive lres :=
| LsFuel | LsErr | LsOk (l : list pterm) (rest : list Z).

Section Parse.
  (* strconv.ParseFloat(text, 64) on a FLOAT token: Some bits, None = error *)
  Variable parse_float : list Z -> option Z.

  Definition is_close (close t : token) : bool :=
    match close, t with
    | TRBracket, TRBracket => true
    | TRBrace, TRBrace => true
    | TRParen, TRParen => true
    | _, _ => false
    end.

  (* parse_term: rule term. parse_elems close: (term ',')* term? close.
     parse_kvs close: (term ':' term ',')* (term ':' term)? close, flattened
     as the visitors do (ctx.AllTerm()). *)
  Fixpoint parse_term (fuel : nat) (s : list Z) : pres :=
    match fuel with
    | O => PFuel
    | S f =>
        match next_token s with
        | LTok (TVariable v) r => POk (PVar v) r
        | LTok (TConstant c) r => if name_ok c then POk (PConst (mk_name c)) r else PErr
        | LTok (TNumber t) r =>
            match parse_int t with Some n => POk (PConst (mk_number n)) r | None => PErr end
        | LTok (TFloat t) r =>
            match parse_float t with Some b => POk (PConst (mk_float b)) r | None => PErr end
        | LTok (TString t) r =>
            match unescape false t with Some u => POk (PConst (mk_string u)) r | None => PErr end
        | LTok (TByteString t) r =>
            match unescape true t with Some u => POk (PConst (mk_bytes u)) r | None => PErr end
        | LTok TLBracket r =>
            (* list or map: decided after the first element *)
            match next_token r with
            | LTok TRBracket r' => POk (PApply s_fn_list []) r'
            | _ =>
                match parse_term f r with
                | POk x r1 =>
                    if negb (is_base x) then PErr else
                    match next_token r1 with
                    | LTok TRBracket r2 => POk (PApply s_fn_list [x]) r2
                    | LTok TComma r2 =>
                        match parse_elems f TRBracket r2 with
                        | LsOk l r3 => POk (PApply s_fn_list (x :: l)) r3
                        | LsErr => PErr
                        | LsFuel => PFuel
                        end
                    | LTok TColon r2 =>
                        match parse_term f r2 with
                        | POk v r3 =>
                            if negb (is_base v) then PErr else
                            match next_token r3 with
                            | LTok TRBracket r4 => POk (PApply s_fn_map [x; v]) r4
                            | LTok TComma r4 =>
                                match parse_kvs f TRBracket r4 with
                                | LsOk l r5 => POk (PApply s_fn_map (x :: v :: l)) r5
                                | LsErr => PErr
                                | LsFuel => PFuel
                                end
                            | _ => PErr
                            end
                        | e => e
                        end
                    | _ => PErr
                    end
                | e => e
                end
            end
        | LTok TLBrace r =>
            match parse_kvs f TRBrace r with
            | LsOk l r' => POk (PApply s_fn_struct l) r'
            | LsErr => PErr
            | LsFuel => PFuel
            end
        | LTok (TName n) r =>
            match next_token r with
            | LTok TLParen r1 =>
                match parse_elems f TRParen r1 with
                | LsOk l r2 => POk (PApply n l) r2
                | LsErr => PErr
                | LsFuel => PFuel
                end
            | _ => PErr
            end
        | _ => PErr
        end
    end
  with parse_elems (fuel : nat) (close : token) (s : list Z) : lres :=
    match fuel with
    | O => LsFuel
    | S f =>
        match next_token s with
        | LEof => LsErr
        | LErr => LsErr
        | LTok t r =>
            if is_close close t then LsOk [] r else
            match parse_term f s with
            | POk x r1 =>
                if negb (is_base x) then LsErr else
                match next_token r1 with
                | LTok TComma r2 =>
                    match parse_elems f close r2 with
                    | LsOk l r3 => LsOk (x :: l) r3
                    | e => e
                    end
                | LTok t2 r2 => if is_close close t2 then LsOk [x] r2 else LsErr
                | _ => LsErr
                end
            | PErr => LsErr
            | PFuel => LsFuel
            end
        end
    end
  with parse_kvs (fuel : nat) (close : token) (s : list Z) : lres :=
    match fuel with
    | O => LsFuel
    | S f =>
        match next_token s with
        | LEof => LsErr
        | LErr => LsErr
        | LTok t r =>
            if is_close close t then LsOk [] r else
            match parse_term f s with
            | POk k r1 =>
                if negb (is_base k) then LsErr else
                match next_token r1 with
                | LTok TColon r2 =>
                    match parse_term f r2 with
                    | POk v r3 =>
                        if negb (is_base v) then LsErr else
                        match next_token r3 with
                        | LTok TComma r4 =>
                            match parse_kvs f close r4 with
                            | LsOk l r5 => LsOk (k :: v :: l) r5
                            | e => e
                            end
                        | LTok t4 r4 => if is_close close t4 then LsOk [k; v] r4 else LsErr
                        | _ => LsErr
                        end
                    | PErr => LsErr
                    | PFuel => LsFuel
                    end
                | _ => LsErr
                end
            | PErr => LsErr
            | PFuel => LsFuel
            end
        end
    end.

  Definition fuel_for (s : list Z) : nat := (2 * List.length s + 2)%nat.

  (* one term, then nothing but blanks and comments *)
  Definition parse_term_all (s : list Z) : pres :=
    match parse_term (fuel_for s) s with
    | POk t r => match next_token r with LEof => POk t [] | _ => PErr end
    | e => e
    end.

  (* ---- evaluation of constructor expressions ---------------------------- *)
  (* time.Parse(time.RFC3339, text) as UnixNano; time.ParseDuration(text) *)
  Variable parse_time : list Z -> option Z.
  Variable parse_dur : list Z -> option Z.

  Fixpoint all_some {A} (l : list (option A)) : option (list A) :=
    match l with
    | [] => Some []
    | Some x :: r => option_map (cons x) (all_some r)
    | None :: _ => None
    end.
  (* entries of fn:map / fn:struct: label, value, label, value ... *)
  Fixpoint pair_up (l : list const) : option (list kv) :=
    match l with
    | [] => Some []
    | k :: v :: r => option_map (cons (k, v)) (pair_up r)
    | [_] => None
    end.

  (* EvalApplyFn for the constructor functions; None = not a constant
     expression of this kind (variables, other functions, wrong argument count,
     library error). The entries of fn:map / fn:struct reach ast.Map /
     ast.Struct through a Go map; MkMap.mk_map takes them in source order (with
     pairwise distinct key hashes the order is irrelevant: mk_map_perm). *)
  Definition apply_ctor (n : list Z) (vs : list const) : option const :=
    if bytes_eqb n s_fn_list then Some (mk_list vs)
    else if bytes_eqb n s_fn_pair then
      match vs with [a; b] => Some (mk_pair a b) | _ => None end
    else if bytes_eqb n s_fn_map then option_map mk_map (pair_up vs)
    else if bytes_eqb n s_fn_struct then option_map mk_struct (pair_up vs)
    else if bytes_eqb n s_fn_time then
      match vs with [CLeaf StringT s _] => option_map mk_time (parse_time s) | _ => None end
    else if bytes_eqb n s_fn_dur then
      match vs with [CLeaf StringT s _] => option_map mk_duration (parse_dur s) | _ => None end
    else None.

  Fixpoint eval (t : pterm) : option const :=
    match t with
    | PVar _ => None
    | PConst c => Some c
    | PApply n args =>
        match all_some (map eval args) with
        | Some vs => apply_ctor n vs
        | None => None
        end
    end.
End Parse.
