(* Proofs about Lexer.v / Parse.v, token level: the text the printer writes for a
   number, a name constant, a finite float, a quote-free text between quotes, a
   variable or a predicate name is exactly one token when the text that follows
   is empty or starts with a character outside names and numbers (C08's [follow]),
   and strconv.ParseInt reads back what %d wrote. *)
From Coq Require Import List ZArith Bool Lia DecimalZ DecimalPos DecimalN.
From MV Require Import Term.Hash Term.Const Term.ConstProofs Term.Print Term.PrintProofs Term.EscProofs
  Term.PrintInjProofs Term.Atom Term.AtomPrintProofs.
From MV Require Import Serde.Escape Serde.EscapeProofs Serde.Lexer Serde.Parse.
Import ListNotations.
Open Scope Z_scope.

(* ---- characters ------------------------------------------------------------ *)
Lemma is_letter_range : forall c, is_letter c = true <-> (65 <= c <= 90 \/ 97 <= c <= 122).
Proof.
  intro c. unfold is_letter. rewrite orb_true_iff, !in_range_iff. reflexivity.
Qed.
Lemma is_digit_range : forall c, is_digit c = true <-> 48 <= c <= 57.
Proof. intro c. unfold is_digit. apply in_range_iff. Qed.

Lemma is_letter_false : forall c, is_letter c = false -> ~ (65 <= c <= 90 \/ 97 <= c <= 122).
Proof. intros c H K. apply is_letter_range in K. rewrite K in H. discriminate H. Qed.
Lemma is_digit_false : forall c, is_digit c = false -> ~ (48 <= c <= 57).
Proof. intros c H K. apply is_digit_range in K. rewrite K in H. discriminate H. Qed.

(* what a character outside names and numbers is not *)
Lemma wordc_false : forall x, wordc x = false ->
  ~ (65 <= x <= 90 \/ 97 <= x <= 122) /\ ~ (48 <= x <= 57) /\
  x <> 46 /\ x <> 45 /\ x <> 95 /\ x <> 126 /\ x <> 37 /\ x <> 47.
Proof.
  intros x H. unfold wordc, constant_char in H.
  destruct (is_letter x) eqn:L; [discriminate H|]. destruct (is_digit x) eqn:D; [discriminate H|].
  cbn [orb] in H.
  destruct (Z.eqb_spec x 46); [discriminate H|]. destruct (Z.eqb_spec x 45); [discriminate H|].
  destruct (Z.eqb_spec x 95); [discriminate H|]. destruct (Z.eqb_spec x 126); [discriminate H|].
  destruct (Z.eqb_spec x 37); [discriminate H|]. destruct (Z.eqb_spec x 47); [discriminate H|].
  apply is_letter_false in L. apply is_digit_false in D. repeat split; assumption.
Qed.

Lemma eqb_false : forall a b, a <> b -> (a =? b) = false.
Proof. intros a b H. apply Z.eqb_neq. exact H. Qed.

Lemma in_range_false : forall lo hi x, x < lo \/ hi < x -> in_range lo hi x = false.
Proof.
  intros lo hi x H. unfold in_range. apply andb_false_iff. destruct H as [H|H]; [left|right]; apply Z.leb_gt; exact H.
Qed.

(* ---- span ------------------------------------------------------------------- *)
Definition stops (p : Z -> bool) (r : list Z) : Prop :=
  match r with [] => True | x :: _ => p x = false end.

Lemma span_app : forall p w r, forallb p w = true -> stops p r -> span p (w ++ r) = (w, r).
Proof.
  intros p w r. induction w as [|c w IH]; intros W S.
  - cbn [app]. destruct r as [|x r]; [reflexivity|]. cbn [span]. cbn [stops] in S. rewrite S. reflexivity.
  - cbn [forallb] in W. apply andb_true_iff in W. destruct W as [W1 W2].
    cbn [app span]. rewrite W1, (IH W2 S). reflexivity.
Qed.

Lemma follow_stops_digit : forall r, follow r -> stops is_digit r.
Proof.
  intros [|x r] F; [exact I|]. cbn [follow] in F. cbn [stops].
  destruct (wordc_false _ F) as (_ & D & _). destruct (is_digit x) eqn:E; [|reflexivity].
  apply is_digit_range in E. contradiction.
Qed.

(* ---- skipping blanks -------------------------------------------------------- *)
Lemma next_token_blank : forall s, next_token (32 :: s) = next_token s.
Proof. reflexivity. Qed.

Lemma next_token_vis : forall c r, is_blank c = false -> c <> 35 ->
  next_token (c :: r) = lex_visible (c :: r).
Proof.
  intros c r B H. unfold next_token. cbn [skip_hidden]. rewrite B, (eqb_false _ _ H). reflexivity.
Qed.

Lemma digit_vis : forall c, 48 <= c <= 57 -> is_blank c = false /\ c <> 35.
Proof.
  intros c H. split; [|lia]. unfold is_blank.
  rewrite !eqb_false by lia. reflexivity.
Qed.

(* ---- NUMBER ----------------------------------------------------------------- *)
Lemma lex_numeric_number : forall neg d ds rest,
  (neg = [] \/ neg = [45]) -> forallb is_digit (d :: ds) = true -> follow rest ->
  lex_numeric (neg ++ d :: ds ++ rest) = LTok (TNumber (neg ++ d :: ds)) rest.
Proof.
  intros neg d ds rest N D F.
  assert (Hd : 48 <= d <= 57).
  { cbn [forallb] in D. apply andb_true_iff in D. destruct D as [D _]. apply is_digit_range. exact D. }
  pose proof (span_app is_digit (d :: ds) rest D (follow_stops_digit _ F)) as Sp.
  rewrite <- app_comm_cons in Sp.
  unfold lex_numeric.
  destruct N as [-> | ->]; cbn [app].
  - rewrite (eqb_false d 45) by lia. rewrite Sp.
    destruct rest as [|p r']; [reflexivity|].
    cbn [follow] in F. destruct (wordc_false _ F) as (L & _ & P46 & P45 & _).
    rewrite (eqb_false p 46) by exact P46. rewrite (eqb_false p 45) by exact P45. cbn [andb].
    rewrite (eqb_false p 109) by lia. rewrite (eqb_false p 100), (eqb_false p 104), (eqb_false p 115) by lia.
    reflexivity.
  - replace (45 =? 45) with true by reflexivity. rewrite Sp.
    destruct rest as [|p r']; [reflexivity|].
    cbn [follow] in F. destruct (wordc_false _ F) as (L & _ & P46 & P45 & _).
    rewrite (eqb_false p 46) by exact P46. reflexivity.
Qed.

Lemma next_token_number : forall neg d ds rest,
  (neg = [] \/ neg = [45]) -> forallb is_digit (d :: ds) = true -> follow rest ->
  next_token (neg ++ d :: ds ++ rest) = LTok (TNumber (neg ++ d :: ds)) rest.
Proof.
  intros neg d ds rest N D F.
  assert (Hd : 48 <= d <= 57).
  { cbn [forallb] in D. apply andb_true_iff in D. destruct D as [D _]. apply is_digit_range. exact D. }
  rewrite <- (lex_numeric_number neg d ds rest N D F).
  destruct N as [-> | ->]; cbn [app].
  - destruct (digit_vis d Hd) as [B H]. rewrite (next_token_vis _ _ B H).
    unfold lex_visible. replace (is_digit d) with true by (symmetry; apply is_digit_range; exact Hd). reflexivity.
  - rewrite next_token_vis by (try reflexivity; lia).
    unfold lex_visible. replace (is_digit 45) with false by reflexivity. replace (45 =? 45) with true by reflexivity.
    cbn [head_is]. replace (is_digit d) with true by (symmetry; apply is_digit_range; exact Hd). reflexivity.
Qed.

(* the digits of %d *)
Lemma uint_bytes_is_digit : forall d, forallb is_digit (uint_bytes d) = true.
Proof.
  intro d. apply forallb_forall. intros x I. pose proof (uint_bytes_digits d) as F. rewrite Forall_forall in F.
  apply is_digit_range. apply F. exact I.
Qed.

Lemma print_number_shape : forall n, exists neg d ds,
  print_number n = neg ++ d :: ds /\ (neg = [] \/ neg = [45]) /\ forallb is_digit (d :: ds) = true.
Proof.
  intro n. unfold print_number. destruct (Z.to_int n) as [u|u] eqn:E.
  - assert (N : uint_bytes u <> []).
    { intro H. apply uint_bytes_nil in H. subst u. destruct n as [|p|p]; cbn [Z.to_int] in E; try discriminate E.
      injection E as E. exact (Unsigned.to_uint_nonnil p E). }
    pose proof (uint_bytes_is_digit u) as D. destruct (uint_bytes u) as [|d ds]; [contradiction|].
    exists [], d, ds. split; [reflexivity|]. split; [left; reflexivity|exact D].
  - assert (N : uint_bytes u <> []).
    { intro H. apply uint_bytes_nil in H. subst u. destruct n as [|p|p]; cbn [Z.to_int] in E; try discriminate E.
      injection E as E. exact (Unsigned.to_uint_nonnil p E). }
    pose proof (uint_bytes_is_digit u) as D. destruct (uint_bytes u) as [|d ds]; [contradiction|].
    exists [45], d, ds. split; [reflexivity|]. split; [right; reflexivity|exact D].
Qed.

Lemma next_token_print_number : forall n rest, follow rest ->
  next_token (print_number n ++ rest) = LTok (TNumber (print_number n)) rest.
Proof.
  intros n rest F. destruct (print_number_shape n) as (neg & d & ds & -> & N & D).
  rewrite <- app_assoc, <- app_comm_cons. apply next_token_number; assumption.
Qed.

(* strconv.ParseInt reads back what %d wrote *)
Lemma digits_value_acc : forall u acc,
  digits_value (uint_bytes u) (Zpos acc) = Zpos (Pos.of_uint_acc u acc).
Proof.
  induction u as [|u IH|u IH|u IH|u IH|u IH|u IH|u IH|u IH|u IH|u IH]; intro acc;
    cbn [uint_bytes digits_value Pos.of_uint_acc]; [reflexivity|..];
    (etransitivity; [|apply IH]); f_equal; lia.
Qed.

Lemma digits_value_uint : forall u, digits_value (uint_bytes u) 0 = Z.of_N (Pos.of_uint u).
Proof.
  induction u as [|u IH|u IH|u IH|u IH|u IH|u IH|u IH|u IH|u IH|u IH];
    cbn [uint_bytes digits_value Pos.of_uint]; [reflexivity|exact IH|..];
    (change (0 * 10 + (_ - 48)) with (Zpos 1) || change (0 * 10 + (50 - 48)) with (Zpos 2)
     || idtac);
    try (rewrite digits_value_acc; reflexivity).
  all: match goal with |- digits_value _ ?a = _ => let v := eval vm_compute in a in change a with v end;
       rewrite digits_value_acc; reflexivity.
Qed.

Lemma digit_not_minus : forall u, match uint_bytes u with c :: _ => (c =? 45) = false | [] => True end.
Proof. destruct u; cbn [uint_bytes]; try exact I; reflexivity. Qed.

(* the value strconv.ParseInt computes before the range check *)
Definition num_value (s : list Z) : Z :=
  match s with
  | c :: r => if c =? 45 then - digits_value r 0 else digits_value s 0
  | [] => 0
  end.

Lemma num_value_print_number : forall n, num_value (print_number n) = n.
Proof.
  intro n. unfold num_value.
  pose proof (DecimalZ.of_to n) as OT. unfold print_number. destruct (Z.to_int n) as [u|u] eqn:E.
  - cbn [Z.of_int] in OT. unfold Z.of_uint in OT. rewrite <- digits_value_uint in OT.
    pose proof (digit_not_minus u) as M. destruct (uint_bytes u) as [|c r] eqn:U.
    + cbn [digits_value] in OT. exact OT.
    + rewrite M. exact OT.
  - cbn [Z.of_int] in OT. unfold Z.of_uint in OT. rewrite <- digits_value_uint in OT.
    replace (45 =? 45) with true by reflexivity. exact OT.
Qed.

Lemma parse_int_print_number : forall n, int64_ok n = true -> parse_int (print_number n) = Some n.
Proof.
  intros n Ok. unfold parse_int. fold (num_value (print_number n)).
  rewrite num_value_print_number, Ok. reflexivity.
Qed.

(* ---- FLOAT ------------------------------------------------------------------ *)
Lemma lex_exponent_follow : forall rest, follow rest -> lex_exponent rest = None.
Proof.
  intros [|e r] F; [reflexivity|]. cbn [follow] in F. destruct (wordc_false _ F) as (L & _).
  unfold lex_exponent. rewrite (eqb_false e 101), (eqb_false e 69) by lia. reflexivity.
Qed.

Lemma lex_numeric_float : forall neg d ds f fs rest,
  (neg = [] \/ neg = [45]) -> forallb is_digit (d :: ds) = true -> forallb is_digit (f :: fs) = true ->
  follow rest ->
  lex_numeric (neg ++ (d :: ds) ++ 46 :: (f :: fs) ++ rest) = LTok (TFloat (neg ++ (d :: ds) ++ 46 :: f :: fs)) rest.
Proof.
  intros neg d ds f fs rest N D Fs F.
  assert (Hd : 48 <= d <= 57).
  { cbn [forallb] in D. apply andb_true_iff in D. destruct D as [D _]. apply is_digit_range. exact D. }
  assert (S1 : span is_digit ((d :: ds) ++ 46 :: (f :: fs) ++ rest) = (d :: ds, 46 :: (f :: fs) ++ rest)).
  { apply span_app; [exact D|reflexivity]. }
  pose proof (span_app is_digit (f :: fs) rest Fs (follow_stops_digit _ F)) as S2.
  unfold lex_numeric.
  destruct N as [-> | ->].
  - cbn [app] in *. rewrite (eqb_false d 45) by lia. rewrite S1.
    replace (46 =? 46) with true by reflexivity. rewrite S2.
    unfold with_exponent. rewrite (lex_exponent_follow _ F). reflexivity.
  - cbn [app] in *. replace (45 =? 45) with true by reflexivity. rewrite S1.
    replace (46 =? 46) with true by reflexivity. rewrite S2.
    unfold with_exponent. rewrite (lex_exponent_follow _ F). reflexivity.
Qed.

Lemma next_token_float : forall neg d ds f fs rest,
  (neg = [] \/ neg = [45]) -> forallb is_digit (d :: ds) = true -> forallb is_digit (f :: fs) = true ->
  follow rest ->
  next_token (neg ++ (d :: ds) ++ 46 :: (f :: fs) ++ rest) = LTok (TFloat (neg ++ (d :: ds) ++ 46 :: f :: fs)) rest.
Proof.
  intros neg d ds f fs rest N D Fs F.
  assert (Hd : 48 <= d <= 57).
  { cbn [forallb] in D. apply andb_true_iff in D. destruct D as [D _]. apply is_digit_range. exact D. }
  rewrite <- (lex_numeric_float neg d ds f fs rest N D Fs F).
  destruct N as [-> | ->]; cbn [app].
  - destruct (digit_vis d Hd) as [B H]. rewrite (next_token_vis _ _ B H).
    unfold lex_visible. replace (is_digit d) with true by (symmetry; apply is_digit_range; exact Hd). reflexivity.
  - rewrite next_token_vis by (try reflexivity; lia).
    unfold lex_visible. replace (is_digit 45) with false by reflexivity. replace (45 =? 45) with true by reflexivity.
    cbn [head_is]. replace (is_digit d) with true by (symmetry; apply is_digit_range; exact Hd). reflexivity.
Qed.

(* ---- CONSTANT (name constants) ---------------------------------------------- *)
Lemma span_constant_app : forall s fresh rest,
  forallb wordc s = true -> no_empty_part fresh s = true -> follow rest ->
  span_constant fresh (s ++ rest) = Some (s, rest).
Proof.
  induction s as [|x s IH]; intros fresh rest W N F.
  - cbn [no_empty_part] in N. apply negb_true_iff in N. subst fresh. cbn [app].
    destruct rest as [|c r]; [reflexivity|]. cbn [follow] in F.
    cbn [span_constant]. unfold wordc in F. apply orb_false_iff in F. destruct F as [F1 F2].
    rewrite F1, F2. reflexivity.
  - cbn [forallb] in W. apply andb_true_iff in W. destruct W as [W1 W2].
    cbn [no_empty_part] in N. cbn [app span_constant].
    destruct (x =? 47) eqn:E.
    + apply Z.eqb_eq in E. subst x. replace (constant_char 47) with false by reflexivity.
      destruct fresh; [discriminate N|]. rewrite (IH true rest W2 N F). reflexivity.
    + unfold wordc in W1. rewrite E, orb_false_r in W1. rewrite W1.
      rewrite (IH false rest W2 N F). reflexivity.
Qed.

Lemma next_token_name : forall s rest, name_valid s = true -> follow rest ->
  next_token (s ++ rest) = LTok (TConstant s) rest /\ name_ok s = true.
Proof.
  intros s rest V F. destruct (name_valid_shape _ V) as [[s' ->] W].
  unfold name_valid in V. apply andb_true_iff in V. destruct V as [V _]. split; [|exact V].
  cbn [forallb] in W. apply andb_true_iff in W. destruct W as [_ W].
  assert (N : no_empty_part true s' = true).
  { unfold name_ok in V. destruct s' as [|y r]; [discriminate V|].
    apply andb_true_iff in V. destruct V as [_ V]. exact V. }
  cbn [app]. rewrite next_token_vis by (try reflexivity; lia).
  unfold lex_visible. replace (is_digit 47) with false by reflexivity.
  replace (47 =? 45) with false by reflexivity. replace (47 =? 46) with false by reflexivity.
  replace (47 =? 47) with true by reflexivity.
  rewrite (span_constant_app s' true rest W N F). reflexivity.
Qed.

(* ---- a text without quote and backslash between quotes ---------------------- *)
Lemma string_body_plain : forall t r, ~ In 34 t -> ~ In 92 t ->
  string_body 34 0 (t ++ 34 :: r) = Some (t, r).
Proof.
  induction t as [|c t IH]; intros r Q B.
  - cbn [app string_body]. replace (34 =? 34) with true by reflexivity. reflexivity.
  - cbn [app string_body].
    rewrite (eqb_false c 34) by (intro E; apply Q; left; exact E).
    rewrite (eqb_false c 92) by (intro E; apply B; left; exact E).
    rewrite IH; [reflexivity| |]; intro I; [apply Q|apply B]; right; exact I.
Qed.

Lemma next_token_plain_string : forall t r, ~ In 34 t -> ~ In 92 t ->
  next_token (34 :: t ++ 34 :: r) = LTok (TString t) r.
Proof.
  intros t r Q B. rewrite next_token_vis by (try reflexivity; lia).
  unfold lex_visible. replace (is_digit 34) with false by reflexivity.
  replace (34 =? 45) with false by reflexivity. replace (34 =? 46) with false by reflexivity.
  replace (34 =? 47) with false by reflexivity. replace (is_quote 34) with true by reflexivity.
  rewrite (string_body_plain t r Q B). reflexivity.
Qed.

Lemma has_byte_false : forall b s, ~ In b s -> has_byte b s = false.
Proof.
  intros b s N. destruct (has_byte b s) eqn:E; [|reflexivity]. apply has_byte_In in E. contradiction.
Qed.

Lemma replace_newlines_plain : forall t, ~ In 13 t -> replace_newlines false t = t.
Proof.
  induction t as [|c t IH]; intro N; [reflexivity|].
  cbn [replace_newlines]. rewrite (eqb_false c 13) by (intro E; apply N; left; exact E).
  rewrite andb_false_r. rewrite IH; [reflexivity|]. intro I. apply N. right. exact I.
Qed.

Lemma unescape_plain : forall t, ~ In 92 t -> ~ In 13 t -> unescape false t = Some t.
Proof.
  intros t B C. unfold unescape. rewrite (replace_newlines_plain t C), (has_byte_false 92 t B). reflexivity.
Qed.

(* ---- words: predicate names and variables ----------------------------------- *)
(* ( NAME_CHAR | '.' NAME_CHAR )* *)
Fixpoint name_tail_ok (s : list Z) : bool :=
  match s with
  | [] => true
  | c :: r =>
      if lex_name_char c then name_tail_ok r
      else if c =? 46 then
        match r with
        | d :: r' => lex_name_char d && name_tail_ok r'
        | [] => false
        end
      else false
  end.

(* what may follow a word: nothing, or a character that is neither a NAME_CHAR nor '.' *)
Definition word_end (r : list Z) : Prop :=
  match r with [] => True | x :: _ => lex_name_char x = false /\ x <> 46 end.

Lemma span_dotted_app : forall n s rest, (length s <= n)%nat -> name_tail_ok s = true -> word_end rest ->
  span_dotted lex_name_char (s ++ rest) = (s, rest).
Proof.
  induction n as [|n IH]; intros s rest L T E.
  - destruct s; [|cbn [length] in L; lia]. cbn [app]. destruct rest as [|x r]; [reflexivity|].
    cbn [word_end] in E. destruct E as [E1 E2]. cbn [span_dotted]. rewrite E1, (eqb_false _ _ E2). reflexivity.
  - destruct s as [|c s].
    + cbn [app]. destruct rest as [|x r]; [reflexivity|].
      cbn [word_end] in E. destruct E as [E1 E2]. cbn [span_dotted]. rewrite E1, (eqb_false _ _ E2). reflexivity.
    + cbn [length] in L. cbn [name_tail_ok] in T. cbn [app span_dotted].
      destruct (lex_name_char c) eqn:C.
      * rewrite (IH s rest); [reflexivity|lia|exact T|exact E].
      * destruct (c =? 46) eqn:D; [|discriminate T].
        destruct s as [|d s]; [discriminate T|]. apply andb_true_iff in T. destruct T as [T1 T2].
        cbn [app]. rewrite T1. cbn [length] in L. rewrite (IH s rest); [reflexivity|lia|exact T2|exact E].
Qed.

(* a predicate name the lexer reads as one NAME: 'a'..'z' ( NAME_CHAR | '.' NAME_CHAR )*, not a keyword *)
Definition pred_lex_valid (s : list Z) : bool :=
  match s with
  | c :: r => is_lower c && name_tail_ok r && negb (mem_bytes s keywords)
  | [] => false
  end.

Lemma is_lower_range : forall c, is_lower c = true -> 97 <= c <= 122.
Proof. intros c H. apply in_range_iff. exact H. Qed.

Lemma lower_vis : forall c r, 97 <= c <= 122 -> next_token (c :: r) = lex_lower (c :: r).
Proof.
  intros c r H. rewrite next_token_vis; [|unfold is_blank; rewrite !eqb_false by lia; reflexivity|lia].
  unfold lex_visible.
  replace (is_digit c) with false by (symmetry; apply in_range_false; lia).
  rewrite (eqb_false c 45), (eqb_false c 46), (eqb_false c 47) by lia.
  replace (is_quote c) with false by (unfold is_quote; rewrite !eqb_false by lia; reflexivity).
  replace (is_lower c) with true by (symmetry; apply in_range_iff; exact H). reflexivity.
Qed.

Lemma next_token_pred : forall s X, pred_lex_valid s = true ->
  next_token (s ++ 40 :: X) = LTok (TName s) (40 :: X).
Proof.
  intros [|c r] X V; [discriminate V|]. cbn [pred_lex_valid] in V.
  apply andb_true_iff in V. destruct V as [V K]. apply andb_true_iff in V. destruct V as [L T].
  apply is_lower_range in L. cbn [app]. rewrite (lower_vis _ _ L). unfold lex_lower.
  assert (Sp : span_dotted lex_name_char (r ++ 40 :: X) = (r, 40 :: X)).
  { apply (span_dotted_app (length r)); [lia|exact T|]. split; [reflexivity|lia]. }
  rewrite Sp. apply negb_true_iff in K. rewrite K.
  destruct (c =? 98) eqn:B; [|reflexivity].
  destruct r as [|q r']; cbn [app]; [reflexivity|].
  assert (Q : is_quote q = false).
  { cbn [name_tail_ok] in T. unfold is_quote. destruct (lex_name_char q) eqn:N.
    - unfold lex_name_char in N. destruct (Z.eqb_spec q 34); [subst; discriminate N|].
      destruct (Z.eqb_spec q 39); [subst; discriminate N|]. destruct (Z.eqb_spec q 96); [subst; discriminate N|].
      reflexivity.
    - destruct (Z.eqb_spec q 46); [subst; reflexivity|discriminate T]. }
  rewrite Q. reflexivity.
Qed.

(* VARIABLE: C08's [var_valid], and not one of the keywords Package / Use / Decl *)
Definition var_lex_valid (x : list Z) : bool := var_valid x && negb (mem_bytes x keywords).

(* what may follow a variable: a character that is no LETTER / DIGIT, NAME_CHAR or '.' *)
Lemma next_token_var : forall x rest, var_lex_valid x = true -> word_end rest -> rest <> [] ->
  next_token (x ++ rest) = LTok (TVariable x) rest.
Proof.
  intros x rest V E NE. unfold var_lex_valid in V. apply andb_true_iff in V. destruct V as [V K].
  destruct x as [|c r]; [discriminate V|]. cbn [var_valid] in V. apply orb_true_iff in V. destruct V as [V|V].
  - apply andb_true_iff in V. destruct V as [V1 V2]. apply Z.eqb_eq in V1. apply is_nil_true in V2. subst c r.
    reflexivity.
  - apply andb_true_iff in V. destruct V as [V1 V2]. apply in_range_iff in V1.
    cbn [app]. rewrite next_token_vis; [|unfold is_blank; rewrite !eqb_false by lia; reflexivity|lia].
    unfold lex_visible.
    replace (is_digit c) with false by (symmetry; apply in_range_false; lia).
    rewrite (eqb_false c 45), (eqb_false c 46), (eqb_false c 47) by lia.
    replace (is_quote c) with false by (unfold is_quote; rewrite !eqb_false by lia; reflexivity).
    replace (is_lower c) with false by (symmetry; apply in_range_false; lia).
    replace (is_upper c) with true by (symmetry; apply in_range_iff; exact V1).
    unfold lex_upper.
    assert (St : stops var_char rest).
    { destruct rest as [|y r']; [exact I|]. cbn [word_end] in E. destruct E as [E _]. cbn [stops].
      unfold lex_name_char in E. unfold var_char. destruct (is_letter y || is_digit y); [discriminate E|reflexivity]. }
    rewrite (span_app var_char r rest V2 St).
    assert (T : name_tail_ok r = true).
    { clear - V2. induction r as [|y r IH]; [reflexivity|]. cbn [forallb] in V2. apply andb_true_iff in V2.
      destruct V2 as [A B]. cbn [name_tail_ok]. unfold lex_name_char. rewrite A. cbn [orb]. apply IH. exact B. }
    rewrite (span_dotted_app (length r) r rest (le_n _) T E).
    rewrite Nat.ltb_irrefl. apply negb_true_iff in K. rewrite K. reflexivity.
Qed.
