(* The deterministic option of SimpleColumn.WriteTo: the bytes written are a
   function of the set of listed predicates and the set of facts.

   Sort keys (factstore/simplecolumn.go:279 and :312):
     predicates   (Arity, Symbol)               - [pred_ltb], a strict total order on psym
     facts of p   (Atom.Hash, Atom.String)      - [fact_ltb], strict, transitive; total on a
                                                  set of rows exactly when the key pair is
                                                  injective on it ([key_inj])
   On pairwise distinct keys a list has one sorted permutation, which is what the
   insertion sort of the model (and any correct sort, sort.Slice included) returns. *)
From Coq Require Import List ZArith Bool Arith Lia Permutation Sorted.
From MV Require Import Serde.SimpleColumn Serde.SimpleColumnProofs.
Import ListNotations.
Open Scope Z_scope.

(* ------------------------------------------- uniqueness of the sorted permutation *)
Section SortUnique.
  Variable A : Type.
  Variable lt : A -> A -> bool.
  Variable D : A -> Prop.                         (* the elements that are being sorted *)
  Hypothesis lt_irrefl : forall a, lt a a = false.
  Hypothesis lt_trans : forall a b c, lt a b = true -> lt b c = true -> lt a c = true.
  Hypothesis lt_tri : forall a b, D a -> D b -> lt a b = false -> lt b a = false -> a = b.

  Definition ltP (a b : A) : Prop := lt a b = true.

  Lemma sorted_perm_eq : forall l1 l2,
    StronglySorted ltP l1 -> StronglySorted ltP l2 -> Permutation l1 l2 -> l1 = l2.
  Proof.
    induction l1 as [|a l1 IH]; intros l2 S1 S2 P.
    - apply Permutation_nil in P. auto.
    - destruct l2 as [|b l2]; [apply Permutation_sym, Permutation_nil in P; discriminate|].
      inversion S1 as [|? ? S1' F1]; subst. inversion S2 as [|? ? S2' F2]; subst.
      assert (E : a = b).
      { assert (Ia : In a (b :: l2)) by (eapply Permutation_in; [exact P | left; reflexivity]).
        assert (Ib : In b (a :: l1))
          by (eapply Permutation_in; [apply Permutation_sym; exact P | left; reflexivity]).
        destruct Ia as [Ia|Ia]; [auto|]. destruct Ib as [Ib|Ib]; [auto|].
        rewrite Forall_forall in F1, F2.
        pose proof (F2 a Ia) as X. pose proof (F1 b Ib) as Y. unfold ltP in *.
        pose proof (lt_trans _ _ _ X Y) as Z. rewrite lt_irrefl in Z. discriminate. }
      subst b. f_equal. apply IH; auto. eapply Permutation_cons_inv; exact P.
  Qed.

  Lemma insert_sorted : forall x l,
    D x -> Forall D l -> ~ In x l -> StronglySorted ltP l -> StronglySorted ltP (insert lt x l).
  Proof.
    induction l as [|y l IH]; intros Dx Dl Hx Sl.
    - simpl. constructor; constructor.
    - inversion Sl as [|? ? Sl' Fy]; subst. inversion Dl as [|? ? Dy Dl']; subst.
      simpl. destruct (lt y x) eqn:E.
      + constructor.
        * apply IH; auto. intro; apply Hx; right; auto.
        * apply Forall_forall. intros z Hz.
          apply (Permutation_in _ (insert_perm lt x l)) in Hz. destruct Hz as [<-|Hz]; [exact E|].
          rewrite Forall_forall in Fy. apply Fy; auto.
      + assert (L : lt x y = true).
        { destruct (lt x y) eqn:E2; auto. exfalso. apply Hx. left. symmetry. apply lt_tri; auto. }
        constructor; [exact Sl|]. constructor; [exact L|].
        rewrite Forall_forall in Fy |- *. intros z Hz.
        eapply lt_trans; [exact L | apply Fy; exact Hz].
  Qed.

  Lemma isort_sorted : forall l, Forall D l -> NoDup l -> StronglySorted ltP (isort lt l).
  Proof.
    induction l as [|x l IH]; intros Dl N; [constructor|].
    inversion Dl as [|? ? Dx Dl']; subst. inversion N as [|? ? Nx N']; subst.
    change (isort lt (x :: l)) with (insert lt x (isort lt l)).
    apply insert_sorted; auto.
    - rewrite Forall_forall in Dl' |- *. intros z Hz. apply Dl'.
      eapply Permutation_in; [apply isort_perm | exact Hz].
    - intro Hin. apply Nx. eapply Permutation_in; [apply isort_perm | exact Hin].
  Qed.

  (* sorting is a function of the set of elements *)
  Lemma isort_perm_eq : forall l1 l2,
    Forall D l1 -> NoDup l1 -> Permutation l1 l2 -> isort lt l1 = isort lt l2.
  Proof.
    intros l1 l2 Dl N P. apply sorted_perm_eq.
    - apply isort_sorted; auto.
    - apply isort_sorted.
      + rewrite Forall_forall in Dl |- *. intros z Hz. apply Dl.
        eapply Permutation_in; [apply Permutation_sym; exact P | exact Hz].
      + eapply Permutation_NoDup; [exact P | exact N].
    - eapply Permutation_trans; [apply isort_perm|].
      eapply Permutation_trans; [exact P | apply Permutation_sym, isort_perm].
  Qed.
End SortUnique.

(* -------------------------------------------------------- the two sort orders *)
Lemma bytes_ltb_irrefl : forall a, bytes_ltb a a = false.
Proof. induction a as [|x a IH]; simpl; [reflexivity|]. rewrite Z.ltb_irrefl. exact IH. Qed.

Lemma bytes_ltb_trans : forall a b c,
  bytes_ltb a b = true -> bytes_ltb b c = true -> bytes_ltb a c = true.
Proof.
  induction a as [|x a IH]; intros [|y b] [|z c]; simpl; try discriminate; auto.
  destruct (Z.ltb_spec x y), (Z.ltb_spec y x), (Z.ltb_spec y z), (Z.ltb_spec z y),
           (Z.ltb_spec x z), (Z.ltb_spec z x);
    try lia; try discriminate; auto. apply IH.
Qed.

Lemma bytes_ltb_tri : forall a b, bytes_ltb a b = false -> bytes_ltb b a = false -> a = b.
Proof.
  induction a as [|x a IH]; intros [|y b]; simpl; try discriminate; auto.
  destruct (Z.ltb_spec x y), (Z.ltb_spec y x); try discriminate; try lia.
  intros H1 H2. assert (x = y) by lia. subst y. f_equal. apply IH; assumption.
Qed.

Lemma pred_ltb_irrefl : forall a, pred_ltb a a = false.
Proof.
  intro a. unfold pred_ltb. rewrite Nat.ltb_irrefl, Nat.eqb_refl, bytes_ltb_irrefl. reflexivity.
Qed.

Lemma pred_ltb_true : forall a b, pred_ltb a b = true <->
  (snd a < snd b)%nat \/ (snd a = snd b /\ bytes_ltb (fst a) (fst b) = true).
Proof.
  intros a b. unfold pred_ltb. rewrite orb_true_iff, andb_true_iff, Nat.ltb_lt, Nat.eqb_eq. tauto.
Qed.

Lemma pred_ltb_trans : forall a b c, pred_ltb a b = true -> pred_ltb b c = true -> pred_ltb a c = true.
Proof.
  intros a b c. rewrite !pred_ltb_true. intros [H1|[H1 H1']] [H2|[H2 H2']].
  - left; lia.
  - left; lia.
  - left; lia.
  - right. split; [lia|]. eapply bytes_ltb_trans; eassumption.
Qed.

Lemma pred_ltb_tri : forall a b : psym, pred_ltb a b = false -> pred_ltb b a = false -> a = b.
Proof.
  intros [s1 a1] [s2 a2]. unfold pred_ltb. cbn [fst snd].
  rewrite !orb_false_iff. intros [H1 H1'] [H2 H2'].
  apply Nat.ltb_ge in H1, H2. assert (E : a1 = a2) by lia. subst a2.
  rewrite Nat.eqb_refl in H1', H2'. cbn [andb] in H1', H2'.
  f_equal. apply bytes_ltb_tri; assumption.
Qed.

Section Det.
  Variable const : Type.
  Variable print : const -> bytes.
  Variable fhash : bytes -> list const -> Z.

  Notation row := (list const).
  Notation pstore := (pstore const).
  Notation fact := (fact const).
  Notation fact_ltb := (fact_ltb const print fhash).
  Notation atom_string := (atom_string const print).

  Lemma fact_ltb_irrefl : forall sym a, fact_ltb sym a a = false.
  Proof. intros sym a. unfold SimpleColumn.fact_ltb. cbv zeta. rewrite Z.eqb_refl. apply bytes_ltb_irrefl. Qed.

  Lemma fact_ltb_trans : forall sym a b c,
    fact_ltb sym a b = true -> fact_ltb sym b c = true -> fact_ltb sym a c = true.
  Proof.
    intros sym a b c. unfold SimpleColumn.fact_ltb. cbv zeta.
    destruct (Z.eqb_spec (fhash sym a) (fhash sym b)) as [E1|E1],
             (Z.eqb_spec (fhash sym b) (fhash sym c)) as [E2|E2],
             (Z.eqb_spec (fhash sym a) (fhash sym c)) as [E3|E3];
      rewrite ?Z.ltb_lt; try lia; try apply bytes_ltb_trans.
  Qed.

  Lemma fact_ltb_tri : forall sym a b,
    fact_ltb sym a b = false -> fact_ltb sym b a = false ->
    fhash sym a = fhash sym b /\ atom_string sym a = atom_string sym b.
  Proof.
    intros sym a b. unfold SimpleColumn.fact_ltb. cbv zeta.
    destruct (Z.eqb_spec (fhash sym a) (fhash sym b)) as [E1|E1],
             (Z.eqb_spec (fhash sym b) (fhash sym a)) as [E2|E2];
      rewrite ?Z.ltb_ge; try lia.
    intros H1 H2. split; [exact E1|]. apply bytes_ltb_tri; assumption.
  Qed.

  (* ---------------------------------------------- [ordered] as one sort of entries *)
  Definition ltE (a b : psym * list row) : bool := pred_ltb (fst a) (fst b).
  Definition sort_rows (e : psym * list row) : psym * list row :=
    (fst e, isort (fact_ltb (fst (fst e))) (snd e)).

  Lemma insert_sort_rows : forall x l,
    insert ltE (sort_rows x) (map sort_rows l) = map sort_rows (insert ltE x l).
  Proof.
    intros x. induction l as [|y l IH]; [reflexivity|].
    cbn [map insert]. change (ltE (sort_rows y) (sort_rows x)) with (ltE y x).
    destruct (ltE y x); [|reflexivity]. cbn [map]. rewrite IH. reflexivity.
  Qed.

  Lemma isort_sort_rows : forall l, isort ltE (map sort_rows l) = map sort_rows (isort ltE l).
  Proof.
    induction l as [|x l IH]; [reflexivity|].
    change (isort ltE (map sort_rows (x :: l))) with (insert ltE (sort_rows x) (isort ltE (map sort_rows l))).
    rewrite IH. apply insert_sort_rows.
  Qed.

  Lemma ordered_as_sort : forall St : pstore,
    ordered print fhash true St = isort ltE (map sort_rows St).
  Proof. intro St. symmetry. apply isort_sort_rows. Qed.

  (* -------------------------------------------------------------- stores as sets *)
  (* ListPredicates lists no predicate twice; GetFacts yields no atom twice *)
  Definition store_nodup (St : pstore) : Prop :=
    NoDup (map fst St) /\ forall e, In e St -> NoDup (snd e).

  (* the sort key of the facts is injective on the facts of each predicate *)
  Definition key_inj (St : pstore) : Prop :=
    forall p rows r1 r2, In (p, rows) St -> In r1 rows -> In r2 rows ->
      fhash (fst p) r1 = fhash (fst p) r2 -> atom_string (fst p) r1 = atom_string (fst p) r2 ->
      r1 = r2.

  Lemma in_facts_of : forall (St : pstore) p r,
    In (p, r) (facts_of St) <-> exists rows, In (p, rows) St /\ In r rows.
  Proof.
    intros St p r. unfold facts_of. rewrite in_flat_map. split.
    - intros [[p' rows] [He Hf]]. cbn [fst snd] in Hf. apply in_map_iff in Hf.
      destruct Hf as [r' [E Hr]]. inversion E; subst. exists rows. auto.
    - intros [rows [He Hr]]. exists (p, rows). split; [exact He|]. cbn [fst snd].
      apply in_map_iff. exists r. auto.
  Qed.

  Lemma nodup_fst_inj : forall {B} (l : list (psym * B)) p x y,
    NoDup (map fst l) -> In (p, x) l -> In (p, y) l -> x = y.
  Proof.
    intros B. induction l as [|[q z] l IH]; intros p x y N Hx Hy; [destruct Hx|].
    cbn [map fst] in N. inversion N as [|? ? Nq N']; subst.
    destruct Hx as [Hx|Hx], Hy as [Hy|Hy].
    - congruence.
    - inversion Hx; subst. exfalso. apply Nq. apply in_map_iff. exists (p, y). auto.
    - inversion Hy; subst. exfalso. apply Nq. apply in_map_iff. exists (p, x). auto.
    - eapply IH; eassumption.
  Qed.

  Lemma in_fst_exists : forall {B} (l : list (psym * B)) p, In p (map fst l) -> exists x, In (p, x) l.
  Proof.
    intros B l p H. apply in_map_iff in H. destruct H as [[q x] [E H]]. cbn [fst] in E. subst q.
    exists x. exact H.
  Qed.

  Section TwoStores.
    Variables S1 S2 : pstore.
    Hypothesis N1 : store_nodup S1.
    Hypothesis N2 : store_nodup S2.
    Hypothesis same_preds : forall p, In p (map fst S1) <-> In p (map fst S2).
    Hypothesis same_facts : forall f, In f (facts_of S1) <-> In f (facts_of S2).
    Hypothesis K1 : key_inj S1.

    Lemma same_rows_perm : forall p rows1 rows2,
      In (p, rows1) S1 -> In (p, rows2) S2 -> Permutation rows1 rows2.
    Proof.
      intros p rows1 rows2 H1 H2. destruct N1 as [N1a N1b], N2 as [N2a N2b].
      apply NoDup_Permutation.
      - apply (N1b _ H1).
      - apply (N2b _ H2).
      - intro r. split; intro Hr.
        + assert (F : In (p, r) (facts_of S2)) by (apply same_facts, in_facts_of; eauto).
          apply in_facts_of in F. destruct F as [rows [He Hin]].
          rewrite (nodup_fst_inj S2 p rows2 rows N2a H2 He). exact Hin.
        + assert (F : In (p, r) (facts_of S1)) by (apply same_facts, in_facts_of; eauto).
          apply in_facts_of in F. destruct F as [rows [He Hin]].
          rewrite (nodup_fst_inj S1 p rows1 rows N1a H1 He). exact Hin.
    Qed.

    Lemma same_rows_sorted : forall p rows1 rows2,
      In (p, rows1) S1 -> In (p, rows2) S2 ->
      isort (fact_ltb (fst p)) rows1 = isort (fact_ltb (fst p)) rows2.
    Proof.
      intros p rows1 rows2 H1 H2.
      apply (isort_perm_eq row (fact_ltb (fst p)) (fun r => In r rows1)).
      - apply fact_ltb_irrefl.
      - apply fact_ltb_trans.
      - intros a b Da Db L1 L2. destruct (fact_ltb_tri _ _ _ L1 L2) as [Eh Es].
        exact (K1 p rows1 a b H1 Da Db Eh Es).
      - apply Forall_forall. auto.
      - apply (proj2 N1 _ H1).
      - apply same_rows_perm with (p := p); assumption.
    Qed.

    Lemma sort_rows_perm : Permutation (map sort_rows S1) (map sort_rows S2).
    Proof.
      assert (F : forall St : pstore, map fst (map sort_rows St) = map fst St).
      { intro St. rewrite map_map. reflexivity. }
      apply NoDup_Permutation.
      - apply (NoDup_map_inv fst). rewrite F. apply N1.
      - apply (NoDup_map_inv fst). rewrite F. apply N2.
      - intros e. rewrite !in_map_iff. split.
        + intros [[p rows1] [<- H1]].
          assert (Hp : In p (map fst S2)) by (apply same_preds, in_map_iff; exists (p, rows1); auto).
          destruct (in_fst_exists _ _ Hp) as [rows2 H2].
          exists (p, rows2). split; [|exact H2]. unfold sort_rows. cbn [fst snd].
          f_equal. symmetry. apply same_rows_sorted; assumption.
        + intros [[p rows2] [<- H2]].
          assert (Hp : In p (map fst S1)) by (apply same_preds, in_map_iff; exists (p, rows2); auto).
          destruct (in_fst_exists _ _ Hp) as [rows1 H1].
          exists (p, rows1). split; [|exact H1]. unfold sort_rows. cbn [fst snd].
          f_equal. apply same_rows_sorted; assumption.
    Qed.

    Lemma ordered_set_eq : ordered print fhash true S1 = ordered print fhash true S2.
    Proof.
      rewrite !ordered_as_sort.
      apply (isort_perm_eq _ ltE (fun e => In e (map sort_rows S1))).
      - intro a. apply pred_ltb_irrefl.
      - intros a b c. apply pred_ltb_trans.
      - intros [p x] [q y] Da Db L1 L2. unfold ltE in L1, L2. cbn [fst] in L1, L2.
        pose proof (pred_ltb_tri _ _ L1 L2) as E. subst q. f_equal.
        eapply nodup_fst_inj; [|exact Da|exact Db].
        rewrite map_map. apply N1.
      - apply Forall_forall. auto.
      - apply (NoDup_map_inv fst). rewrite map_map. apply N1.
      - exact sort_rows_perm.
    Qed.

    Lemma same_length : length S1 = length S2.
    Proof.
      rewrite <- (map_length fst S1), <- (map_length fst S2).
      apply Permutation_length, NoDup_Permutation; [apply N1 | apply N2 | exact same_preds].
    Qed.

    Theorem write_det_set : forall V,
      write const print fhash V true S1 = write const print fhash V true S2.
    Proof.
      intro V. unfold write. rewrite ordered_set_eq, same_length. reflexivity.
    Qed.
  End TwoStores.
End Det.
